(* P_Attest: lemmas and proofs about model.M_Attest (properties C01, C02). *)
From Coq Require Import ZArith List Bool Lia FinFun.
From FxV Require Import model.M_Attest.
Import ListNotations.
Open Scope Z_scope.

(* ------------------------------------------------------------------ *)
(* association lists                                                    *)
(* ------------------------------------------------------------------ *)
Section AssocLemmas.
  Context {K V : Type} (eqb : K -> K -> bool).
  Hypothesis eqb_spec : forall a b, eqb a b = true <-> a = b.

  Lemma eqb_refl' : forall a, eqb a a = true.
  Proof. intro a. apply eqb_spec. reflexivity. Qed.

  Lemma eqb_neq : forall a b, a <> b -> eqb a b = false.
  Proof. intros a b H. destruct (eqb a b) eqn:E; auto. apply eqb_spec in E. contradiction. Qed.

  Lemma eqb_false_neq : forall a b, eqb a b = false -> a <> b.
  Proof. intros a b H E. subst. rewrite eqb_refl' in H. discriminate. Qed.

  Lemma aget_adel_same : forall k (l : list (K * V)), aget eqb k (adel eqb k l) = None.
  Proof.
    intros k l. unfold adel. induction l as [|[k' v] r IH]; cbn; auto.
    destruct (eqb k k') eqn:E; cbn; auto. rewrite E. exact IH.
  Qed.

  Lemma aget_adel_other : forall k k' (l : list (K * V)), k <> k' -> aget eqb k' (adel eqb k l) = aget eqb k' l.
  Proof.
    intros k k' l N. unfold adel. induction l as [|[k2 v] r IH]; cbn; auto.
    destruct (eqb k k2) eqn:E; cbn.
    - apply eqb_spec in E. subst k2. rewrite (eqb_neq k' k) by congruence. exact IH.
    - destruct (eqb k' k2); auto.
  Qed.

  Lemma aget_aset_same : forall k v (l : list (K * V)), aget eqb k (aset eqb k v l) = Some v.
  Proof. intros. unfold aset. cbn. rewrite eqb_refl'. reflexivity. Qed.

  Lemma aget_aset_other : forall k k' v (l : list (K * V)), k <> k' -> aget eqb k' (aset eqb k v l) = aget eqb k' l.
  Proof.
    intros. unfold aset. cbn. rewrite (eqb_neq k' k) by congruence. apply aget_adel_other; auto.
  Qed.

  Lemma aget_In : forall k v (l : list (K * V)), aget eqb k l = Some v -> In (k, v) l.
  Proof.
    intros k v l. induction l as [|[k' v'] r IH]; cbn; intro H; try discriminate.
    destruct (eqb k k') eqn:E.
    - apply eqb_spec in E. inversion H. subst. left. reflexivity.
    - right. auto.
  Qed.

  Lemma aget_None_notin : forall k (l : list (K * V)), aget eqb k l = None -> ~ In k (map fst l).
  Proof.
    intros k l. induction l as [|[k' v'] r IH]; cbn; intros H; auto.
    destruct (eqb k k') eqn:E; try discriminate.
    intros [A | A]; [apply (eqb_false_neq _ _ E); auto | apply IH; auto].
  Qed.

  Lemma notin_aget_None : forall k (l : list (K * V)), ~ In k (map fst l) -> aget eqb k l = None.
  Proof.
    intros k l. induction l as [|[k' v'] r IH]; cbn; intros H; auto.
    destruct (eqb k k') eqn:E.
    - apply eqb_spec in E. subst. exfalso. apply H. left. reflexivity.
    - apply IH. intro A. apply H. right. exact A.
  Qed.

  (* filtering by a predicate on the key *)
  Lemma aget_filter_key : forall (g : K -> bool) k (l : list (K * V)),
    aget eqb k (filter (fun p => g (fst p)) l) = if g k then aget eqb k l else None.
  Proof.
    intros g k l. induction l as [|[k' v] r IH]; cbn.
    - destruct (g k); reflexivity.
    - destruct (g k') eqn:G; cbn.
      + destruct (eqb k k') eqn:E.
        * apply eqb_spec in E. subst. rewrite G. reflexivity.
        * exact IH.
      + destruct (eqb k k') eqn:E.
        * apply eqb_spec in E. subst. rewrite G in *. exact IH.
        * exact IH.
  Qed.

  Lemma keys_adel_incl : forall k (l : list (K * V)) x, In x (map fst (adel eqb k l)) -> In x (map fst l).
  Proof.
    intros k l x. unfold adel. rewrite in_map_iff. intros [p [E H]]. apply filter_In in H.
    rewrite in_map_iff. exists p. tauto.
  Qed.

  Lemma NoDup_keys_adel : forall k (l : list (K * V)), NoDup (map fst l) -> NoDup (map fst (adel eqb k l)).
  Proof.
    intros k l. unfold adel. induction l as [|[k' v] r IH]; cbn; intro H; auto.
    inversion H; subst. destruct (negb (eqb k k')); cbn; auto.
    constructor; auto. intro A. apply H2. apply (keys_adel_incl k). exact A.
  Qed.

  Lemma NoDup_keys_aset : forall k v (l : list (K * V)), NoDup (map fst l) -> NoDup (map fst (aset eqb k v l)).
  Proof.
    intros. unfold aset. cbn. constructor.
    - apply aget_None_notin. apply aget_adel_same.
    - apply NoDup_keys_adel. assumption.
  Qed.

  Lemma In_adel : forall k p (l : list (K * V)), In p (adel eqb k l) -> In p l /\ fst p <> k.
  Proof.
    intros k p l H. unfold adel in H. apply filter_In in H. destruct H as [H1 H2]. split; auto.
    intro E. subst. rewrite eqb_refl' in H2. discriminate.
  Qed.

  Lemma aget_map_val : forall (f : K * V -> V) k (l : list (K * V)),
    aget eqb k (map (fun p => (fst p, f p)) l) =
    match aget eqb k l with Some v => Some (f (k, v)) | None => None end.
  Proof.
    intros f k l. induction l as [|[k' v] r IH]; cbn; auto.
    destruct (eqb k k') eqn:E; auto. apply eqb_spec in E. subst. reflexivity.
  Qed.
End AssocLemmas.

Lemma zeqb_spec : forall a b : Z, Z.eqb a b = true <-> a = b.
Proof. intros. apply Z.eqb_eq. Qed.

Lemma keq_spec : forall a b : Z * Z, keq a b = true <-> a = b.
Proof.
  intros [a1 a2] [b1 b2]. unfold keq. cbn. rewrite andb_true_iff, !Z.eqb_eq.
  split; [intros [? ?]; subst; reflexivity | intro H; inversion H; auto].
Qed.

Lemma zmem_In : forall x l, zmem x l = true <-> In x l.
Proof.
  intros x l. unfold zmem. rewrite existsb_exists. split.
  - intros [y [H E]]. apply Z.eqb_eq in E. subst. exact H.
  - intro H. exists x. split; auto. apply Z.eqb_refl.
Qed.

(* ------------------------------------------------------------------ *)
(* runs                                                                 *)
(* ------------------------------------------------------------------ *)
Lemma run_app : forall c h1 h2 s, run c s (h1 ++ h2) = run c (run c s h1) h2.
Proof. intros. unfold run. apply fold_left_app. Qed.

Lemma run_snoc : forall c h x s, run c s (h ++ [x]) = fst (step c (run c s h) x).
Proof. intros. rewrite run_app. reflexivity. Qed.

Lemma run_inv : forall (P : st -> Prop) c s0,
  P s0 -> (forall s x, P s -> P (fst (step c s x))) -> forall h, P (run c s0 h).
Proof.
  intros P c s0 H0 Hs h. revert s0 H0. induction h as [|x r IH]; intros s0 H0; cbn; auto.
  apply IH. apply Hs. exact H0.
Qed.

(* guard on histories: a predicate that every operation must satisfy in the state it is applied to *)
Fixpoint guarded (c : cfg) (safe : st -> op -> Prop) (s : st) (h : list op) : Prop :=
  match h with
  | [] => True
  | x :: r => safe s x /\ guarded c safe (fst (step c s x)) r
  end.

Lemma run_inv_guarded : forall (P : st -> Prop) (safe : st -> op -> Prop) c,
  (forall s x, P s -> safe s x -> P (fst (step c s x))) ->
  forall h s0, P s0 -> guarded c safe s0 h -> P (run c s0 h).
Proof.
  intros P safe c Hs h. induction h as [|x r IH]; intros s0 H0 G; cbn in *; auto.
  destruct G as [G1 G2]. apply IH; auto.
Qed.

(* destruct every match in the goal *)
Ltac dm := repeat match goal with
  | |- context [match ?x with _ => _ end] => destruct x eqn:?
  end.
Ltac zb := repeat match goal with
  | H : (_ <? _) = true |- _ => apply Z.ltb_lt in H
  | H : (_ <? _) = false |- _ => apply Z.ltb_ge in H
  | H : (_ <=? _) = true |- _ => apply Z.leb_le in H
  | H : (_ <=? _) = false |- _ => apply Z.leb_gt in H
  | H : (_ =? _) = true |- _ => apply Z.eqb_eq in H
  | H : (_ =? _) = false |- _ => apply Z.eqb_neq in H
  end.
Ltac prj := cbn [fst snd proposal oracles by_bridger by_ext last_total last_obs last_by atts pending
                 applied effects vlog eb refresh with_oracles with_eb] in *.

(* ------------------------------------------------------------------ *)
(* frame facts: what each operation leaves alone                        *)
(* ------------------------------------------------------------------ *)
Definition tally_core (s s' : st) : Prop :=
  last_obs s' = last_obs s /\ atts s' = atts s /\ applied s' = applied s /\ vlog s' = vlog s.

Lemma exec_core : forall s n ok, tally_core s (fst (exec s n ok)) /\ last_by (fst (exec s n ok)) = last_by s.
Proof. intros. unfold exec, tally_core. dm; prj; auto. Qed.
Lemma bond_core : forall c s o b e k, tally_core s (fst (bond c s o b e k)) /\ last_by (fst (bond c s o b e k)) = last_by s
  /\ pending (fst (bond c s o b e k)) = pending s /\ effects (fst (bond c s o b e k)) = effects s.
Proof. intros. unfold bond, tally_core. dm; prj; auto 10. Qed.
Lemma add_core : forall c s o a, tally_core s (fst (add_delegate c s o a)) /\ last_by (fst (add_delegate c s o a)) = last_by s
  /\ pending (fst (add_delegate c s o a)) = pending s /\ effects (fst (add_delegate c s o a)) = effects s.
Proof. intros. unfold add_delegate, tally_core. dm; prj; auto 10. Qed.
Lemma slash_core : forall s l, tally_core s (fst (slash_pass s l)) /\ last_by (fst (slash_pass s l)) = last_by s
  /\ pending (fst (slash_pass s l)) = pending s /\ effects (fst (slash_pass s l)) = effects s.
Proof. intros. unfold slash_pass, tally_core. dm; prj; auto 10. Qed.
Lemma gov_core : forall s l, tally_core s (fst (gov_set s l)) /\ last_by (fst (gov_set s l)) = last_by s
  /\ pending (fst (gov_set s l)) = pending s /\ effects (fst (gov_set s l)) = effects s.
Proof. intros. unfold gov_set, tally_core. dm; prj; auto 10. Qed.
Lemma unbond_core : forall c s o, tally_core s (fst (unbond c s o))
  /\ pending (fst (unbond c s o)) = pending s /\ effects (fst (unbond c s o)) = effects s.
Proof. intros. unfold unbond, tally_core. dm; prj; auto 10. Qed.
Lemma mature_core : forall s, tally_core s (mature s) /\ last_by (mature s) = last_by s
  /\ pending (mature s) = pending s /\ effects (mature s) = effects s /\ last_total (mature s) = last_total s
  /\ by_bridger (mature s) = by_bridger s.
Proof. intros. unfold mature, tally_core. prj. auto 10. Qed.
(* the operations that only touch the end-blocker inputs *)
Definition frame_all (s s' : st) : Prop :=
  tally_core s s' /\ last_by s' = last_by s /\ pending s' = pending s /\ effects s' = effects s /\
  by_bridger s' = by_bridger s /\ by_ext s' = by_ext s /\ proposal s' = proposal s.
Lemma with_eb_frame : forall s e, frame_all s (with_eb s e) /\ oracles (with_eb s e) = oracles s /\ last_total (with_eb s e) = last_total s.
Proof. intros. unfold frame_all, tally_core. prj. auto 15. Qed.
Lemma frame_all_refl : forall s, frame_all s s.
Proof. intros. unfold frame_all, tally_core. auto 15. Qed.
Lemma confirm_core : forall s k key ext,
  frame_all s (fst (confirm s k key ext)) /\ oracles (fst (confirm s k key ext)) = oracles s /\
  last_total (fst (confirm s k key ext)) = last_total s.
Proof. intros. unfold confirm. dm; prj; (split; [apply frame_all_refl|auto]) || apply with_eb_frame. Qed.
Lemma add_batch_core : forall s,
  frame_all s (fst (add_batch s)) /\ oracles (fst (add_batch s)) = oracles s /\ last_total (fst (add_batch s)) = last_total s.
Proof. intros. unfold add_batch. dm; prj; (split; [apply frame_all_refl|auto]) || apply with_eb_frame. Qed.
Lemma add_bcall_core : forall s,
  frame_all s (fst (add_bcall s)) /\ oracles (fst (add_bcall s)) = oracles s /\ last_total (fst (add_bcall s)) = last_total s.
Proof. intros. unfold add_bcall. dm; prj; (split; [apply frame_all_refl|auto]) || apply with_eb_frame. Qed.
Lemma end_block_core : forall s b, frame_all s (fst (end_block s b)).
Proof. intros. unfold end_block. dm; prj; unfold frame_all, tally_core; prj; auto 15. Qed.
Lemma export_core : forall c s,
  tally_core s (export_import c s) /\ effects (export_import c s) = effects s /\
  oracles (export_import c s) = oracles s /\ proposal (export_import c s) = proposal s /\
  pending (export_import c s) = [] /\ last_total (export_import c s) = online_power (oracles s).
Proof. intros. unfold export_import, tally_core. prj. auto 10. Qed.
Lemma edit_core : forall s o b, tally_core s (fst (edit_bridger s o b)) /\ last_by (fst (edit_bridger s o b)) = last_by s
  /\ pending (fst (edit_bridger s o b)) = pending s /\ effects (fst (edit_bridger s o b)) = effects s.
Proof. intros. unfold edit_bridger, tally_core. dm; prj; auto 10. Qed.

(* the shape of an accepted / rejected vote *)
Definition cast (s : st) (nonce cls o : Z) : att :=
  {| a_obs := match aget keq (nonce, cls) (atts s) with Some a => a_obs a | None => false end;
     a_votes := (match aget keq (nonce, cls) (atts s) with Some a => a_votes a | None => [] end) ++ [o] |}.

Inductive vote_shape (c : cfg) (s : st) (b n cl : Z) (park : bool) (s' : st) : res -> Prop :=
| VRej : forall e, s' = s -> vote_shape c s b n cl park s' (Err e)
| VKeep : forall o rec,
    aget Z.eqb b (by_bridger s) = Some o -> aget Z.eqb o (oracles s) = Some rec -> o_online rec = true ->
    n = cursor c s o + 1 ->
    (a_obs (cast s n cl o) = true \/ n <> last_obs s + 1 \/
     tally (oracles s) (required s) 0 (a_votes (cast s n cl o)) = None) ->
    last_obs s' = last_obs s -> applied s' = applied s ->
    atts s' = aset keq (n, cl) (cast s n cl o) (atts s) ->
    last_by s' = aset Z.eqb o n (last_by s) -> pending s' = pending s -> effects s' = effects s ->
    vlog s' = vlog s ++ [(o, n)] ->
    oracles s' = oracles s -> last_total s' = last_total s -> by_bridger s' = by_bridger s ->
    by_ext s' = by_ext s -> proposal s' = proposal s ->
    vote_shape c s b n cl park s' Ok
| VFlip : forall o rec p,
    aget Z.eqb b (by_bridger s) = Some o -> aget Z.eqb o (oracles s) = Some rec -> o_online rec = true ->
    n = cursor c s o + 1 ->
    a_obs (cast s n cl o) = false -> n = last_obs s + 1 ->
    tally (oracles s) (required s) 0 (a_votes (cast s n cl o)) = Some p ->
    last_obs s' = n -> applied s' = applied s ++ [(n, cl)] ->
    atts s' = prune n (aset keq (n, cl) {| a_obs := true; a_votes := a_votes (cast s n cl o) |}
                         (aset keq (n, cl) (cast s n cl o) (atts s))) ->
    last_by s' = aset Z.eqb o n (last_by s) ->
    pending s' = (if park then aset Z.eqb n cl (pending s) else pending s) -> effects s' = effects s ->
    vlog s' = vlog s ++ [(o, n)] ->
    oracles s' = oracles s -> last_total s' = last_total s -> by_bridger s' = by_bridger s ->
    by_ext s' = by_ext s -> proposal s' = proposal s ->
    vote_shape c s b n cl park s' Ok.

Lemma vote_cases : forall c s b n cl park ms,
  vote_shape c s b n cl park (fst (vote c s b n cl park ms)) (snd (vote c s b n cl park ms)).
Proof.
  intros. unfold vote.
  destruct (aget Z.eqb b (by_bridger s)) as [o|] eqn:Hb; [|constructor; reflexivity].
  destruct (aget Z.eqb o (oracles s)) as [rec|] eqn:Ho; [|constructor; reflexivity].
  destruct (o_online rec) eqn:Hon; cbn [negb]; [|constructor; reflexivity].
  destruct (forallb _ ms); cbn [negb]; [|constructor; reflexivity].
  destruct (n =? cursor c s o + 1) eqn:Hn; cbn [negb]; [|constructor; reflexivity].
  apply Z.eqb_eq in Hn.
  fold (cast s n cl o).
  assert (Hc : {| a_obs := a_obs match aget keq (n, cl) (atts s) with Some a => a | None => {| a_obs := false; a_votes := [] |} end;
                  a_votes := a_votes match aget keq (n, cl) (atts s) with Some a => a | None => {| a_obs := false; a_votes := [] |} end ++ [o] |}
               = cast s n cl o).
  { unfold cast. destruct (aget keq (n, cl) (atts s)); reflexivity. }
  rewrite Hc. cbn [a_obs a_votes].
  destruct (a_obs (cast s n cl o)) eqn:Hobs; cbn [negb andb].
  - cbn [fst snd]. eapply VKeep; eauto.
  - destruct (n =? last_obs s + 1) eqn:Hl.
    + apply Z.eqb_eq in Hl.
      destruct (tally (oracles s) (required s) 0 (a_votes (cast s n cl o))) as [p|] eqn:Ht; cbn [fst snd].
      * eapply VFlip; eauto.
      * eapply VKeep; eauto.
    + apply Z.eqb_neq in Hl. cbn [fst snd]. eapply VKeep; eauto.
Qed.

Ltac vote_inv V :=
  inversion V as [e Hs Hres
                 | o rec Hb Ho Hon Hn Hk Hlo Hap Hat Hlb Hpe Hef Hvl Hor Hto Hbb Hbe Hpr Hres
                 | o rec p Hb Ho Hon Hn Hobs Hnext Ht Hlo Hap Hat Hlb Hpe Hef Hvl Hor Hto Hbb Hbe Hpr Hres].

Lemma step_nonvote_core : forall c s x,
  match x with Vote _ _ _ _ _ => False | _ => True end -> tally_core s (fst (step c s x)).
Proof.
  intros c s x H. destruct x; cbn [step]; try contradiction.
  - apply exec_core.
  - apply bond_core.
  - apply add_core.
  - apply slash_core.
  - unfold tally_core; prj; auto.
  - apply gov_core.
  - apply unbond_core.
  - apply edit_core.
  - apply mature_core.
  - apply confirm_core.
  - apply add_batch_core.
  - apply add_bcall_core.
  - apply with_eb_frame.
  - apply end_block_core.
  - apply export_core.
Qed.

(* in a goal about (step c s x) with x not a vote: bring the frame facts into the context *)
Ltac nonvote_core c s :=
  match goal with
  | |- context [step c s ?x] =>
      let A := fresh "Flo" in let B := fresh "Fat" in let C := fresh "Fap" in let D := fresh "Fvl" in
      destruct (step_nonvote_core c s x I) as [A [B [C D]]]
  | H : context [step c s ?x] |- _ =>
      let A := fresh "Flo" in let B := fresh "Fat" in let C := fresh "Fap" in let D := fresh "Fvl" in
      destruct (step_nonvote_core c s x I) as [A [B [C D]]]
  end.

Lemma keq_neq : forall a b, keq a b = false -> a <> b.
Proof. intros a b E F. rewrite F in E. rewrite (eqb_refl' keq keq_spec) in E. discriminate. Qed.

(* ------------------------------------------------------------------ *)
(* C01 (1): last observed nonce advances by 0 or 1; applied log = 1..n   *)
(* ------------------------------------------------------------------ *)
Theorem lastobs_step : forall c s x,
  last_obs (fst (step c s x)) = last_obs s \/ last_obs (fst (step c s x)) = last_obs s + 1.
Proof.
  intros c s x. destruct x; try (left; nonvote_core c s; assumption).
  cbn [step]. pose proof (vote_cases c s bridger nonce cls park members) as V.
  vote_inv V.
  - left. congruence.
  - left. assumption.
  - right. congruence.
Qed.

(* an event takes effect (lastObs moves) only through an accepted vote on exactly lastObs+1,
   and that very claim is appended to the applied log *)
Theorem advance_only_by_next_vote : forall c s x,
  last_obs (fst (step c s x)) <> last_obs s ->
  exists b cl park ms, x = Vote b (last_obs s + 1) cl park ms /\ snd (step c s x) = Ok /\
    applied (fst (step c s x)) = applied s ++ [(last_obs s + 1, cl)].
Proof.
  intros c s x H. destruct x; try (exfalso; apply H; nonvote_core c s; assumption).
  cbn [step] in *. pose proof (vote_cases c s bridger nonce cls park members) as V.
  vote_inv V.
  - exfalso. apply H. congruence.
  - exfalso. apply H. assumption.
  - exists bridger, cls, park, members. repeat split; auto; congruence.
Qed.

Definition seqZ (n : nat) : list Z := map Z.of_nat (seq 1 n).

Lemma seqZ_S : forall n, seqZ (S n) = seqZ n ++ [Z.of_nat (S n)].
Proof. intro n. unfold seqZ. rewrite seq_S, map_app. reflexivity. Qed.

Definition inv_log (s : st) : Prop :=
  map fst (applied s) = seqZ (length (applied s)) /\ last_obs s = Z.of_nat (length (applied s)).

Lemma inv_log_step : forall c s x, inv_log s -> inv_log (fst (step c s x)).
Proof.
  intros c s x [I1 I2].
  destruct x; try (nonvote_core c s; unfold inv_log; rewrite Flo, Fap; auto).
  cbn [step]. pose proof (vote_cases c s bridger nonce cls park members) as V.
  vote_inv V; unfold inv_log.
  - rewrite Hs. auto.
  - rewrite Hlo, Hap. auto.
  - rewrite Hlo, Hap. rewrite app_length, map_app. cbn [length map fst].
    replace (length (applied s) + 1)%nat with (S (length (applied s))) by lia.
    rewrite seqZ_S, I1. split; [f_equal; f_equal; lia | lia].
Qed.

Theorem applied_log : forall c h,
  let s := run c init h in
  map fst (applied s) = seqZ (Z.to_nat (last_obs s)) /\ 0 <= last_obs s /\
  length (applied s) = Z.to_nat (last_obs s).
Proof.
  intros c h s.
  assert (I : inv_log s).
  { apply run_inv; [split; reflexivity | intros; apply inv_log_step; assumption]. }
  destruct I as [I1 I2]. rewrite I2, Nat2Z.id. repeat split; auto. lia.
Qed.

Lemma seqZ_NoDup : forall n, NoDup (seqZ n).
Proof.
  intro n. unfold seqZ. apply Injective_map_NoDup.
  - intros a b. apply Nat2Z.inj.
  - apply seq_NoDup.
Qed.

Lemma NoDup_fst_inj : forall (l : list (Z * Z)) k a b,
  NoDup (map fst l) -> In (k, a) l -> In (k, b) l -> a = b.
Proof.
  induction l as [|[k' v] r IH]; cbn; intros k a b N Ha Hb; [contradiction|].
  inversion N; subst.
  destruct Ha as [Ha|Ha], Hb as [Hb|Hb].
  - congruence.
  - inversion Ha; subst. exfalso. apply H1. apply in_map_iff. exists (k, b). auto.
  - inversion Hb; subst. exfalso. apply H1. apply in_map_iff. exists (k, a). auto.
  - eapply IH; eauto.
Qed.

(* ------------------------------------------------------------------ *)
(* C01 (2): at most one observed attestation per nonce                   *)
(* ------------------------------------------------------------------ *)
Definition inv_obs (s : st) : Prop :=
  forall n cl a, aget keq (n, cl) (atts s) = Some a -> a_obs a = true -> In (n, cl) (applied s).

Lemma aget_prune : forall lobs k l,
  aget keq k (prune lobs l) = if (lobs <=? max_keep) || (lobs - max_keep <? fst k) then aget keq k l else None.
Proof.
  intros lobs k l. unfold prune. destruct (lobs <=? max_keep); cbn [orb]; auto.
  rewrite (aget_filter_key keq keq_spec (fun k => lobs - max_keep <? fst k)). reflexivity.
Qed.

Lemma aget_prune_Some : forall lobs k l a, aget keq k (prune lobs l) = Some a -> aget keq k l = Some a.
Proof. intros lobs k l a. rewrite aget_prune. destruct (_ || _); [auto | discriminate]. Qed.

(* what is stored under a key after a vote on (n, cl): either the attestation voted on, or what was there *)
Lemma cast_obs : forall s n cl o, a_obs (cast s n cl o) = true ->
  exists a, aget keq (n, cl) (atts s) = Some a /\ a_obs a = true.
Proof.
  intros s n cl o H. unfold cast in H. cbn [a_obs] in H.
  destruct (aget keq (n, cl) (atts s)) eqn:G; [eauto | discriminate].
Qed.

Lemma inv_obs_step : forall c s x, inv_obs s -> inv_obs (fst (step c s x)).
Proof.
  intros c s x IH.
  destruct x; try (nonvote_core c s; unfold inv_obs; rewrite Fat, Fap; exact IH).
  cbn [step]. pose proof (vote_cases c s bridger nonce cls park members) as V.
  vote_inv V; unfold inv_obs; intros n cl a Hg Hoa.
  - rewrite Hs in *. eauto.
  - rewrite Hap. rewrite Hat in Hg.
    destruct (keq (nonce, cls) (n, cl)) eqn:E.
    + apply keq_spec in E. inversion E; subst n cl.
      rewrite (aget_aset_same keq keq_spec) in Hg. inversion Hg; subst a.
      apply cast_obs in Hoa. destruct Hoa as [a0 [G O]]. eapply IH; eauto.
    + apply keq_neq in E. rewrite (aget_aset_other keq keq_spec) in Hg by exact E. eapply IH; eauto.
  - rewrite Hap. apply in_or_app. rewrite Hat in Hg. apply aget_prune_Some in Hg.
    destruct (keq (nonce, cls) (n, cl)) eqn:E.
    + apply keq_spec in E. inversion E; subst. right. left. reflexivity.
    + left. apply keq_neq in E.
      rewrite !(aget_aset_other keq keq_spec) in Hg by exact E. eapply IH; eauto.
Qed.

Theorem one_observed_per_nonce : forall c h n c1 c2 a1 a2,
  let s := run c init h in
  aget keq (n, c1) (atts s) = Some a1 -> a_obs a1 = true ->
  aget keq (n, c2) (atts s) = Some a2 -> a_obs a2 = true -> c1 = c2.
Proof.
  intros c h n c1 c2 a1 a2 s H1 O1 H2 O2.
  assert (I : inv_obs s).
  { apply run_inv; [intros ? ? ? G; discriminate G | intros; apply inv_obs_step; assumption]. }
  pose proof (applied_log c h) as [L _]. fold s in L.
  eapply NoDup_fst_inj; [rewrite L; apply seqZ_NoDup | eapply I; eauto | eapply I; eauto].
Qed.

(* an attestation becomes observed only by the step that moves lastObs onto its nonce *)
Theorem observed_only_next : forall c s x n cl a',
  aget keq (n, cl) (atts (fst (step c s x))) = Some a' -> a_obs a' = true ->
  (exists a, aget keq (n, cl) (atts s) = Some a /\ a_obs a = true) \/
  (n = last_obs s + 1 /\ last_obs (fst (step c s x)) = n).
Proof.
  intros c s x n cl a' Hg Hoa.
  destruct x; try (nonvote_core c s; rewrite Fat in Hg; left; eauto).
  cbn [step] in *. pose proof (vote_cases c s bridger nonce cls park members) as V.
  vote_inv V.
  - rewrite Hs in Hg. left; eauto.
  - rewrite Hat in Hg. destruct (keq (nonce, cls) (n, cl)) eqn:E.
    + apply keq_spec in E. inversion E; subst n cl.
      rewrite (aget_aset_same keq keq_spec) in Hg. inversion Hg; subst a'.
      left. eapply cast_obs; eauto.
    + apply keq_neq in E. rewrite (aget_aset_other keq keq_spec) in Hg by exact E. left; eauto.
  - rewrite Hat in Hg. apply aget_prune_Some in Hg.
    destruct (keq (nonce, cls) (n, cl)) eqn:E.
    + apply keq_spec in E. inversion E; subst n cl. right. split; auto.
    + apply keq_neq in E.
      rewrite !(aget_aset_other keq keq_spec) in Hg by exact E. left; eauto.
Qed.

(* ------------------------------------------------------------------ *)
(* C02: recorded total power >= power of the online oracles             *)
(* ------------------------------------------------------------------ *)
Definition opow (o : oracle) : Z := if o_online o then power o else 0.

Lemma online_power_cons : forall k o r, online_power ((k, o) :: r) = opow o + online_power r.
Proof. reflexivity. Qed.

Lemma power_nonneg : forall o, 0 <= o_stake o -> 0 <= power o.
Proof. intros o H. unfold power, power_reduction. apply Z.quot_pos; lia. Qed.

Lemma opow_nonneg : forall o, 0 <= o_stake o -> 0 <= opow o.
Proof. intros o H. unfold opow. destruct (o_online o); [apply power_nonneg; auto | lia]. Qed.

Definition stakes_ok (l : list (Z * oracle)) : Prop := forall k o, In (k, o) l -> 0 <= o_stake o.

Lemma online_power_nonneg : forall l, stakes_ok l -> 0 <= online_power l.
Proof.
  induction l as [|[k o] r IH]; intro S; [cbn; lia|].
  rewrite online_power_cons.
  assert (0 <= opow o) by (apply opow_nonneg; apply (S k); left; reflexivity).
  assert (0 <= online_power r) by (apply IH; intros k' o' H'; apply (S k'); right; exact H').
  lia.
Qed.

Lemma stakes_ok_adel : forall k l, stakes_ok l -> stakes_ok (adel Z.eqb k l).
Proof. intros k l S k' o' H. apply (In_adel Z.eqb zeqb_spec) in H. apply (S k'). tauto. Qed.

Lemma stakes_ok_aset : forall k o l, 0 <= o_stake o -> stakes_ok l -> stakes_ok (aset Z.eqb k o l).
Proof.
  intros k o l H S k' o' [E|E].
  - inversion E; subst; auto.
  - eapply stakes_ok_adel; eauto.
Qed.

Lemma online_power_adel_le : forall k l, stakes_ok l -> online_power (adel Z.eqb k l) <= online_power l.
Proof.
  intros k l. unfold adel. induction l as [|[k' o] r IH]; intro S; [cbn; lia|].
  assert (Sr : stakes_ok r) by (intros k2 o2 H2; apply (S k2); right; exact H2).
  assert (0 <= opow o) by (apply opow_nonneg; apply (S k'); left; reflexivity).
  cbn [filter fst]. destruct (negb (k =? k')); rewrite ?online_power_cons; specialize (IH Sr); lia.
Qed.

Lemma adel_notin : forall k (l : list (Z * oracle)), ~ In k (map fst l) -> adel Z.eqb k l = l.
Proof.
  intros k l. unfold adel. induction l as [|[k' o] r IH]; cbn; intro H; auto.
  destruct (k =? k') eqn:E.
  - apply Z.eqb_eq in E. subst. exfalso. apply H. left. reflexivity.
  - cbn. f_equal. apply IH. intro A. apply H. right. exact A.
Qed.

Lemma online_power_split : forall k o l, NoDup (map fst l) -> aget Z.eqb k l = Some o ->
  online_power l = opow o + online_power (adel Z.eqb k l).
Proof.
  intros k o l. induction l as [|[k' o'] r IH]; cbn [aget map fst]; intros N G; [discriminate|].
  inversion N; subst.
  destruct (k =? k') eqn:E.
  - apply Z.eqb_eq in E. subst k'. inversion G; subst o'.
    unfold adel. cbn [filter fst]. rewrite Z.eqb_refl. cbn [negb].
    fold (adel Z.eqb k r). rewrite adel_notin by assumption. reflexivity.
  - unfold adel. cbn [filter fst]. rewrite E. cbn [negb]. fold (adel Z.eqb k r).
    rewrite !online_power_cons. rewrite (IH H2 G). lia.
Qed.

Lemma online_power_aset : forall k o l, online_power (aset Z.eqb k o l) = opow o + online_power (adel Z.eqb k l).
Proof. reflexivity. Qed.

Definition inv_total (s : st) : Prop :=
  NoDup (map fst (oracles s)) /\ stakes_ok (oracles s) /\ online_power (oracles s) <= last_total s.

Lemma slash_one_inv : forall os k os', slash_one os k = Some os' ->
  NoDup (map fst os) -> stakes_ok os -> NoDup (map fst os') /\ stakes_ok os'.
Proof.
  intros os k os' H N S. unfold slash_one in H.
  destruct (aget Z.eqb k os) as [rec|] eqn:G; [|discriminate].
  destruct (negb (o_online rec)); inversion H; subst; auto.
  split.
  - apply (NoDup_keys_aset Z.eqb zeqb_spec). exact N.
  - apply stakes_ok_aset; auto. cbn. apply (S k). apply (aget_In Z.eqb zeqb_spec). exact G.
Qed.

Lemma slash_all_inv : forall l os os', slash_all os l = Some os' ->
  NoDup (map fst os) -> stakes_ok os -> NoDup (map fst os') /\ stakes_ok os'.
Proof.
  induction l as [|k r IH]; cbn; intros os os' H N S.
  - inversion H; subst; auto.
  - destruct (slash_one os k) as [os1|] eqn:E; [|discriminate].
    destruct (slash_one_inv _ _ _ E N S). eapply IH; eauto.
Qed.

Lemma gov_map_keys : forall s new l,
  map fst (map (fun p : Z * oracle => if removed_by s new p then (fst p, unbond_from_proposal (snd p)) else p) l) = map fst l.
Proof.
  intros. rewrite map_map. apply map_ext. intros [k o]. destruct (removed_by s new (k, o)); reflexivity.
Qed.

Lemma gov_map_stakes : forall s new l, stakes_ok l ->
  stakes_ok (map (fun p : Z * oracle => if removed_by s new p then (fst p, unbond_from_proposal (snd p)) else p) l).
Proof.
  intros s new l S k o H. apply in_map_iff in H. destruct H as [[k' o'] [E H]].
  destruct (removed_by s new (k', o')); inversion E; subst; cbn; eapply S; eauto.
Qed.

Lemma gov_map_power : forall s new l, stakes_ok l ->
  online_power (map (fun p : Z * oracle => if removed_by s new p then (fst p, unbond_from_proposal (snd p)) else p) l)
  <= online_power l.
Proof.
  intros s new l. induction l as [|[k o] r IH]; intro S; [cbn; lia|].
  assert (Sr : stakes_ok r) by (intros k2 o2 H2; apply (S k2); right; exact H2).
  assert (0 <= opow o) by (apply opow_nonneg; apply (S k); left; reflexivity).
  cbn [map]. destruct (removed_by s new (k, o)); cbn [fst snd]; rewrite !online_power_cons; specialize (IH Sr).
  - unfold opow at 1. cbn. lia.
  - lia.
Qed.

Lemma mature_map_facts : forall l : list (Z * oracle),
  let l' := map (fun p : Z * oracle => (fst p, matured (snd p))) l in
  map fst l' = map fst l /\ (stakes_ok l -> stakes_ok l') /\ online_power l' = online_power l.
Proof.
  intro l. cbv zeta. repeat split.
  - rewrite map_map. apply map_ext. intros [k o]. reflexivity.
  - intros S k o H. apply in_map_iff in H. destruct H as [[k' o'] [E H]]. inversion E; subst. cbn. eapply S; eauto.
  - induction l as [|[k o] r IH]; [reflexivity|]. cbn [map fst snd]. rewrite !online_power_cons, IH. reflexivity.
Qed.

Lemma apply_slash_facts : forall res (l : list (Z * oracle)),
  map fst (apply_slash res l) = map fst l /\ (stakes_ok l -> stakes_ok (apply_slash res l)).
Proof.
  intros res l. unfold apply_slash. split.
  - rewrite map_map. apply map_ext. intros [k o]. reflexivity.
  - intros S k o H. apply in_map_iff in H. destruct H as [[k' o'] [E H]]. cbn [fst snd] in E.
    destruct (eb_find k' res); inversion E; subst; cbn; eapply S; eauto.
Qed.

Lemma inv_total_step : forall c s x, 0 <= c_threshold c -> inv_total s -> inv_total (fst (step c s x)).
Proof.
  intros c s x Hc [N [S T]]. destruct x; cbn [step].
  - (* vote *)
    pose proof (vote_cases c s bridger nonce cls park members) as V. vote_inv V; unfold inv_total.
    + rewrite Hs. auto.
    + rewrite Hor, Hto. auto.
    + rewrite Hor, Hto. auto.
  - unfold exec. dm; prj; unfold inv_total; prj; auto.
  - (* bond *)
    unfold bond. dm; prj; try (unfold inv_total; auto; fail);
    (unfold inv_total; prj; zb; repeat split;
     [ apply (NoDup_keys_aset Z.eqb zeqb_spec); exact N
     | apply stakes_ok_aset; auto; cbn; lia
     | lia ]).
  - (* add delegate *)
    unfold add_delegate. dm; prj; try (unfold inv_total; auto; fail);
    (unfold inv_total; prj; zb; repeat split;
     [ apply (NoDup_keys_aset Z.eqb zeqb_spec); exact N
     | apply stakes_ok_aset; auto; cbn; lia
     | lia ]).
  - (* slash *)
    unfold slash_pass. destruct (slash_all (oracles s) os) as [os'|] eqn:E; prj; [|unfold inv_total; auto].
    destruct os as [|o r]; prj; [unfold inv_total; auto|].
    destruct (slash_all_inv _ _ _ E N S). unfold inv_total; prj. repeat split; auto. lia.
  - unfold inv_total; prj. repeat split; auto. lia.
  - (* gov *)
    unfold gov_set. dm; prj; try (unfold inv_total; auto; fail).
    unfold inv_total; prj. repeat split.
    + rewrite gov_map_keys. exact N.
    + apply gov_map_stakes. exact S.
    + pose proof (gov_map_power s os (oracles s) S). lia.
  - (* unbond *)
    unfold unbond. dm; prj; try (unfold inv_total; auto; fail);
    (unfold inv_total; prj; repeat split;
     [ apply (NoDup_keys_adel Z.eqb); exact N
     | apply stakes_ok_adel; exact S
     | pose proof (online_power_adel_le o (oracles s) S); lia ]).
  - (* edit bridger *)
    unfold edit_bridger. dm; prj; try (unfold inv_total; auto; fail).
    unfold inv_total; prj. repeat split.
    + apply (NoDup_keys_aset Z.eqb zeqb_spec). exact N.
    + apply stakes_ok_aset; auto. cbn. apply (S o). apply (aget_In Z.eqb zeqb_spec). eassumption.
    + rewrite online_power_aset.
      match goal with G : aget Z.eqb o (oracles s) = Some _ |- _ => rewrite (online_power_split o _ _ N G) in T end.
      unfold opow in *. cbn [o_online o_stake power] in *. unfold power in *. cbn [o_stake] in *. lia.
  - (* time passes *)
    unfold mature, inv_total; prj. destruct (mature_map_facts (oracles s)) as [A [B C]].
    rewrite A, C. repeat split; auto.
  - destruct (confirm_core s kind key ext) as [_ [A B]]. unfold inv_total. rewrite A, B. auto.
  - destruct (add_batch_core s) as [_ [A B]]. unfold inv_total. rewrite A, B. auto.
  - destruct (add_bcall_core s) as [_ [A B]]. unfold inv_total. rewrite A, B. auto.
  - unfold inv_total; prj; auto.
  - (* the end blocker: slashing writes back records with the same keys and stakes; it refreshes the total whenever
       it slashed, and so does the oracle set request *)
    unfold end_block. destruct (EB.slashing slash_args0 (xstate_of s) (e_height (eb s))) as [r|]; prj; [|unfold inv_total; auto].
    destruct (apply_slash_facts (EB.r_oracles r) (oracles s)) as [A B].
    unfold inv_total; prj. destruct (EB.r_any r), newset; repeat split; auto; try rewrite A; auto; lia.
  - (* export + import: the records are written first, the total is recomputed afterwards *)
    unfold export_import, inv_total; prj. repeat split; auto. lia.
Qed.

Lemma inv_total_reach : forall c h, 0 <= c_threshold c -> inv_total (run c init h).
Proof.
  intros c h Hc. apply run_inv.
  - repeat split; cbn; [constructor | intros ? ? [] | lia].
  - intros. apply inv_total_step; assumption.
Qed.

Theorem total_ge_online : forall c h, 0 <= c_threshold c ->
  online_power (oracles (run c init h)) <= last_total (run c init h).
Proof. intros c h Hc. apply (inv_total_reach c h Hc). Qed.

(* ------------------------------------------------------------------ *)
(* C02: a vote is accepted only from the registered bridger of an online oracle *)
(* ------------------------------------------------------------------ *)
Theorem vote_accept_online : forall c s b n cl park ms,
  snd (vote c s b n cl park ms) = Ok ->
  exists o rec, aget Z.eqb b (by_bridger s) = Some o /\ aget Z.eqb o (oracles s) = Some rec /\
                o_online rec = true /\ n = cursor c s o + 1 /\
                In (o, n) (vlog (fst (vote c s b n cl park ms))).
Proof.
  intros c s b n cl park ms H. pose proof (vote_cases c s b n cl park ms) as V. rewrite H in V.
  vote_inv V; exists o, rec; repeat split; auto; rewrite Hvl; apply in_or_app; right; left; reflexivity.
Qed.

Definition inv_bridger (s : st) : Prop :=
  forall b o, aget Z.eqb b (by_bridger s) = Some o ->
  exists rec, aget Z.eqb o (oracles s) = Some rec /\ o_bridger rec = b.

Lemma slash_one_bridger : forall os k os', slash_one os k = Some os' ->
  forall o r, aget Z.eqb o os = Some r -> exists r', aget Z.eqb o os' = Some r' /\ o_bridger r' = o_bridger r.
Proof.
  intros os k os' H o r G. unfold slash_one in H.
  destruct (aget Z.eqb k os) as [rec|] eqn:Gk; [|discriminate].
  destruct (negb (o_online rec)); inversion H; subst; [eauto|].
  destruct (Z.eq_dec k o) as [E|E].
  - subst. rewrite (aget_aset_same Z.eqb zeqb_spec). rewrite G in Gk. inversion Gk; subst. eexists; split; eauto.
  - rewrite (aget_aset_other Z.eqb zeqb_spec) by exact E. eauto.
Qed.

Lemma slash_all_bridger : forall l os os', slash_all os l = Some os' ->
  forall o r, aget Z.eqb o os = Some r -> exists r', aget Z.eqb o os' = Some r' /\ o_bridger r' = o_bridger r.
Proof.
  induction l as [|k l IH]; cbn; intros os os' H o r G.
  - inversion H; subst; eauto.
  - destruct (slash_one os k) as [os1|] eqn:E; [|discriminate].
    destruct (slash_one_bridger _ _ _ E _ _ G) as [r1 [G1 B1]].
    destruct (IH _ _ H _ _ G1) as [r2 [G2 B2]]. exists r2. split; auto. congruence.
Qed.

Lemma gov_map_aget : forall s new o l,
  aget Z.eqb o (map (fun p : Z * oracle => if removed_by s new p then (fst p, unbond_from_proposal (snd p)) else p) l)
  = match aget Z.eqb o l with
    | Some r => Some (if removed_by s new (o, r) then unbond_from_proposal r else r)
    | None => None
    end.
Proof.
  intros s new o l. induction l as [|[k r] l IH]; cbn [map aget]; auto.
  destruct (removed_by s new (k, r)) eqn:R; cbn [fst snd aget].
  - destruct (o =? k) eqn:E; auto. apply Z.eqb_eq in E. subst. rewrite R. reflexivity.
  - destruct (o =? k) eqn:E; auto. apply Z.eqb_eq in E. subst. rewrite R. reflexivity.
Qed.

Lemma In_NoDup_aget : forall (l : list (Z * oracle)) k v, NoDup (map fst l) -> In (k, v) l -> aget Z.eqb k l = Some v.
Proof.
  induction l as [|[k' v'] r IH]; cbn [map fst aget]; intros k v N H; [contradiction|].
  inversion N as [|? ? NI N']; subst. destruct H as [H|H].
  - inversion H; subst. rewrite Z.eqb_refl. reflexivity.
  - destruct (k =? k') eqn:E; [|apply IH; auto].
    apply Z.eqb_eq in E. subst. exfalso. apply NI. apply in_map_iff. exists (k', v). auto.
Qed.

Lemma aget_map_index : forall (f : oracle -> Z) b o (l : list (Z * oracle)),
  aget Z.eqb b (map (fun p : Z * oracle => (f (snd p), fst p)) l) = Some o ->
  exists rec, In (o, rec) l /\ f rec = b.
Proof.
  intros f b o l. induction l as [|[k r] l IH]; cbn [map aget fst snd]; intro H; [discriminate|].
  destruct (b =? f r) eqn:E.
  - apply Z.eqb_eq in E. inversion H; subst. exists r. split; auto. left. reflexivity.
  - destruct (IH H) as [rec [I F]]. exists rec. split; auto. right. exact I.
Qed.

Lemma slash_all_keys : forall l os os', slash_all os l = Some os' -> NoDup (map fst os) -> NoDup (map fst os').
Proof.
  induction l as [|k r IH]; cbn; intros os os' H N.
  - inversion H; subst; auto.
  - destruct (slash_one os k) as [os1|] eqn:E; [|discriminate]. eapply IH; eauto.
    unfold slash_one in E. destruct (aget Z.eqb k os); [|discriminate].
    destruct (negb (o_online o)); inversion E; subst; auto.
    apply (NoDup_keys_aset Z.eqb zeqb_spec). exact N.
Qed.

(* the oracle store has one record per oracle address *)
Lemma keys_step : forall c s x, NoDup (map fst (oracles s)) -> NoDup (map fst (oracles (fst (step c s x)))).
Proof.
  intros c s x N. destruct x; cbn [step].
  - pose proof (vote_cases c s bridger nonce cls park members) as V. vote_inv V; [rewrite Hs | rewrite Hor | rewrite Hor]; exact N.
  - unfold exec. dm; prj; exact N.
  - unfold bond. dm; prj; try exact N. apply (NoDup_keys_aset Z.eqb zeqb_spec). exact N.
  - unfold add_delegate. dm; prj; try exact N; apply (NoDup_keys_aset Z.eqb zeqb_spec); exact N.
  - unfold slash_pass. destruct (slash_all (oracles s) os) as [os'|] eqn:E; prj; [|exact N].
    destruct os; prj; [exact N | eapply slash_all_keys; eauto].
  - exact N.
  - unfold gov_set. dm; prj; try exact N. rewrite gov_map_keys. exact N.
  - unfold unbond. dm; prj; try exact N; apply (NoDup_keys_adel Z.eqb); exact N.
  - unfold edit_bridger. dm; prj; try exact N. apply (NoDup_keys_aset Z.eqb zeqb_spec). exact N.
  - unfold mature; prj. destruct (mature_map_facts (oracles s)) as [A _]. rewrite A. exact N.
  - destruct (confirm_core s kind key ext) as [_ [A _]]. rewrite A. exact N.
  - destruct (add_batch_core s) as [_ [A _]]. rewrite A. exact N.
  - destruct (add_bcall_core s) as [_ [A _]]. rewrite A. exact N.
  - exact N.
  - unfold end_block. destruct (EB.slashing slash_args0 (xstate_of s) (e_height (eb s))) as [r|]; prj; [|exact N].
    destruct (EB.r_any r); [|exact N]. destruct (apply_slash_facts (EB.r_oracles r) (oracles s)) as [A _]. rewrite A. exact N.
  - exact N.
Qed.

Lemma keys_reach : forall c h, NoDup (map fst (oracles (run c init h))).
Proof. intros. apply run_inv; [constructor | intros; apply keys_step; assumption]. Qed.

Lemma inv_bridger_step : forall c s x, NoDup (map fst (oracles s)) -> inv_bridger s -> inv_bridger (fst (step c s x)).
Proof.
  intros c s x ND IH. destruct x; cbn [step].
  - pose proof (vote_cases c s bridger nonce cls park members) as V. vote_inv V; unfold inv_bridger.
    + rewrite Hs. exact IH.
    + rewrite Hor, Hbb. exact IH.
    + rewrite Hor, Hbb. exact IH.
  - unfold exec. dm; prj; exact IH.
  - (* bond *)
    unfold bond. dm; prj; try exact IH.
    intros b' o' G. prj.
    destruct (Z.eq_dec bridger b') as [E|E].
    + subst. rewrite (aget_aset_same Z.eqb zeqb_spec) in G. inversion G; subst.
      rewrite (aget_aset_same Z.eqb zeqb_spec). eexists; split; eauto.
    + rewrite (aget_aset_other Z.eqb zeqb_spec) in G by exact E.
      destruct (IH _ _ G) as [r [Gr Br]].
      assert (o <> o') by (intro; subst; congruence).
      rewrite (aget_aset_other Z.eqb zeqb_spec) by assumption. eauto.
  - (* add delegate *)
    unfold add_delegate. dm; prj; try exact IH;
    (intros b' o' G; prj; destruct (IH _ _ G) as [r [Gr Br]];
     destruct (Z.eq_dec o o') as [E|E];
     [ subst; rewrite (aget_aset_same Z.eqb zeqb_spec); eexists; split; eauto; cbn; congruence
     | rewrite (aget_aset_other Z.eqb zeqb_spec) by exact E; eauto ]).
  - (* slash *)
    unfold slash_pass. destruct (slash_all (oracles s) os) as [os'|] eqn:E; prj; [|exact IH].
    destruct os as [|k r]; prj; [exact IH|].
    intros b' o' G. prj. destruct (IH _ _ G) as [r0 [Gr Br]].
    destruct (slash_all_bridger _ _ _ E _ _ Gr) as [r' [G' B']]. exists r'. split; auto. congruence.
  - exact IH.
  - (* gov *)
    unfold gov_set. dm; prj; try exact IH.
    intros b' o' G. prj. destruct (IH _ _ G) as [r0 [Gr Br]].
    rewrite gov_map_aget, Gr. eexists; split; eauto. destruct (removed_by s os (o', r0)); auto.
  - (* unbond *)
    unfold unbond. dm; prj; try exact IH;
    (intros b' o' G; prj;
     match goal with Ho : aget Z.eqb o (oracles s) = Some ?rec |- _ =>
       destruct (Z.eq_dec (o_bridger rec) b') as [E|E];
       [ subst; rewrite (aget_adel_same Z.eqb) in G; discriminate
       | rewrite (aget_adel_other Z.eqb zeqb_spec) in G by exact E;
         destruct (IH _ _ G) as [r0 [Gr Br]];
         assert (o <> o') by (intro; subst; congruence);
         rewrite (aget_adel_other Z.eqb zeqb_spec) by assumption; eauto ]
     end).
  - (* edit bridger *)
    unfold edit_bridger. dm; prj; try exact IH.
    intros b' o' G. prj.
    destruct (Z.eq_dec b b') as [E|E].
    + subst. rewrite (aget_aset_same Z.eqb zeqb_spec) in G. inversion G; subst.
      rewrite (aget_aset_same Z.eqb zeqb_spec). eexists; split; eauto.
    + rewrite (aget_aset_other Z.eqb zeqb_spec) in G by exact E.
      match goal with Ho : aget Z.eqb o (oracles s) = Some ?rec |- _ =>
        destruct (Z.eq_dec (o_bridger rec) b') as [E2|E2];
        [ subst; rewrite (aget_adel_same Z.eqb) in G; discriminate
        | rewrite (aget_adel_other Z.eqb zeqb_spec) in G by exact E2;
          destruct (IH _ _ G) as [r0 [Gr Br]];
          assert (o <> o') by (intro; subst; congruence);
          rewrite (aget_aset_other Z.eqb zeqb_spec) by assumption; eauto ]
      end.
  - (* time passes *)
    intros b' o' G. unfold mature in *. prj. destruct (IH _ _ G) as [r0 [Gr Br]].
    rewrite (aget_map_val Z.eqb zeqb_spec (fun p => matured (snd p))), Gr. eexists; split; eauto.
  - destruct (confirm_core s kind key ext) as [[_ [_ [_ [_ [A _]]]]] [B _]]. unfold inv_bridger. rewrite A, B. exact IH.
  - destruct (add_batch_core s) as [[_ [_ [_ [_ [A _]]]]] [B _]]. unfold inv_bridger. rewrite A, B. exact IH.
  - destruct (add_bcall_core s) as [[_ [_ [_ [_ [A _]]]]] [B _]]. unfold inv_bridger. rewrite A, B. exact IH.
  - exact IH.
  - (* end blocker: slashing keeps every record's bridger *)
    unfold end_block. destruct (EB.slashing slash_args0 (xstate_of s) (e_height (eb s))) as [r|]; prj; [|exact IH].
    intros b' o' G. prj. destruct (IH _ _ G) as [r0 [Gr Br]].
    destruct (EB.r_any r); [|eauto].
    unfold apply_slash.
    rewrite (aget_map_val Z.eqb zeqb_spec
               (fun p => match eb_find (fst p) (EB.r_oracles r) with Some x => slashed_rec (snd p) x | None => snd p end)), Gr.
    eexists; split; eauto. cbn [fst snd]. destruct (eb_find o' (EB.r_oracles r)); auto.
  - (* export + import: the bridger index is re-created from the records *)
    intros b' o' G. unfold export_import in *. prj.
    destruct (aget_map_index o_bridger _ _ _ G) as [rec [I F]]. exists rec. split; auto.
    apply In_NoDup_aget; assumption.
Qed.

Theorem vote_admission : forall c h b n cl park ms,
  let s := run c init h in
  snd (vote c s b n cl park ms) = Ok ->
  exists o rec, aget Z.eqb b (by_bridger s) = Some o /\ aget Z.eqb o (oracles s) = Some rec /\
                o_online rec = true /\ o_bridger rec = b.
Proof.
  intros c h b n cl park ms s H.
  destruct (vote_accept_online _ _ _ _ _ _ _ H) as [o [rec [Hb [Ho [Hon _]]]]].
  assert (I : NoDup (map fst (oracles s)) /\ inv_bridger s).
  { apply (run_inv (fun s => NoDup (map fst (oracles s)) /\ inv_bridger s)).
    - split; [constructor | intros ? ? G; discriminate G].
    - intros s0 x [A B]. split; [apply keys_step | apply inv_bridger_step]; assumption. }
  destruct I as [_ I].
  destruct (I _ _ Hb) as [r [Gr Br]]. rewrite Ho in Gr. inversion Gr; subst. eauto 10.
Qed.

(* ------------------------------------------------------------------ *)
(* C01: a parked claim runs its effects at most once                      *)
(* ------------------------------------------------------------------ *)
Lemma NoDup_snoc : forall (l : list Z) x, NoDup l -> ~ In x l -> NoDup (l ++ [x]).
Proof.
  induction l as [|a l IH]; cbn; intros x N H.
  - constructor; auto.
  - inversion N; subst. constructor.
    + intro A. apply in_app_or in A. destruct A as [A|[A|[]]]; [contradiction | subst; apply H; left; reflexivity].
    + apply IH; auto.
Qed.

Definition inv_exec (s : st) : Prop :=
  NoDup (effects s) /\
  (forall n, In n (effects s) -> aget Z.eqb n (pending s) = None /\ n <= last_obs s) /\
  (forall n v, aget Z.eqb n (pending s) = Some v -> n <= last_obs s).

Lemma step_other_frame : forall c s x,
  match x with Vote _ _ _ _ _ | Exec _ _ | ExportImport => False | _ => True end ->
  last_obs (fst (step c s x)) = last_obs s /\ pending (fst (step c s x)) = pending s /\
  effects (fst (step c s x)) = effects s.
Proof.
  intros c s x H. destruct x; cbn [step]; try contradiction.
  - pose proof (bond_core c s o bridger ext stake) as [[A _] [_ [B C]]]. auto.
  - pose proof (add_core c s o amount) as [[A _] [_ [B C]]]. auto.
  - pose proof (slash_core s os) as [[A _] [_ [B C]]]. auto.
  - prj. auto.
  - pose proof (gov_core s os) as [[A _] [_ [B C]]]. auto.
  - pose proof (unbond_core c s o) as [[A _] [B C]]. auto.
  - pose proof (edit_core s o b) as [[A _] [_ [B C]]]. auto.
  - pose proof (mature_core s) as [[A _] [_ [B [C _]]]]. auto.
  - pose proof (confirm_core s kind key ext) as [[[A _] [_ [B [C _]]]] _]. auto.
  - pose proof (add_batch_core s) as [[[A _] [_ [B [C _]]]] _]. auto.
  - pose proof (add_bcall_core s) as [[[A _] [_ [B [C _]]]] _]. auto.
  - prj. auto.
  - pose proof (end_block_core s newset) as [[A _] [_ [B [C _]]]]. auto.
Qed.

Lemma inv_exec_step : forall c s x, inv_exec s -> inv_exec (fst (step c s x)).
Proof.
  intros c s x [N [E P]].
  destruct x;
    try (match goal with |- context [step c s ?x] =>
           destruct (step_other_frame c s x I) as [A [B C]]; unfold inv_exec; rewrite A, B, C; auto end; fail).
  - cbn [step]. pose proof (vote_cases c s bridger nonce cls park members) as V. vote_inv V; unfold inv_exec.
    + rewrite Hs. auto.
    + rewrite Hlo, Hpe, Hef. auto.
    + rewrite Hlo, Hpe, Hef. repeat split; auto.
      * destruct (E _ H) as [E1 E2]. destruct park; auto.
        rewrite (aget_aset_other Z.eqb zeqb_spec); auto. lia.
      * destruct (E _ H) as [E1 E2]. lia.
      * intros m v G. destruct park; [|apply P in G; lia].
        destruct (Z.eq_dec nonce m) as [D|D]; [lia|].
        rewrite (aget_aset_other Z.eqb zeqb_spec) in G by exact D. apply P in G. lia.
  - cbn [step]. unfold exec. destruct (aget Z.eqb nonce (pending s)) as [v|] eqn:G; prj; [|unfold inv_exec; auto].
    destruct handler_ok; prj; [|unfold inv_exec; auto].
    unfold inv_exec; prj. repeat split.
    + apply NoDup_snoc; auto. intro A. destruct (E _ A) as [E1 _]. congruence.
    + apply in_app_or in H. destruct H as [H|[H|[]]].
      * destruct (E _ H) as [E1 _]. destruct (Z.eq_dec nonce n) as [D|D].
        -- subst. apply (aget_adel_same Z.eqb).
        -- rewrite (aget_adel_other Z.eqb zeqb_spec) by exact D. exact E1.
      * subst. apply (aget_adel_same Z.eqb).
    + apply in_app_or in H. destruct H as [H|[H|[]]].
      * apply E. exact H.
      * subst. eapply P; eauto.
    + intros m w Gm. destruct (Z.eq_dec nonce m) as [D|D].
      * subst. rewrite (aget_adel_same Z.eqb) in Gm. discriminate.
      * rewrite (aget_adel_other Z.eqb zeqb_spec) in Gm by exact D. eapply P; eauto.
  - (* export + import: the parked claims are not exported; nothing executed becomes executable again *)
    cbn [step fst]. destruct (export_core c s) as [[A _] [B [_ [_ [C _]]]]]. unfold inv_exec. rewrite A, B, C.
    split; [exact N|]. split; [|intros n v G; discriminate G].
    intros n H. split; [reflexivity | apply E; exact H].
Qed.

Lemma inv_exec_init : inv_exec init.
Proof.
  unfold inv_exec. cbn. split; [constructor|]. split; [intros n []|intros n v G; discriminate G].
Qed.

Theorem exec_once : forall c h, NoDup (effects (run c init h)).
Proof.
  intros c h.
  assert (I : inv_exec (run c init h)).
  { apply run_inv; [apply inv_exec_init | intros; apply inv_exec_step; assumption]. }
  apply I.
Qed.

(* a deferred execution succeeds only for a parked claim, removes it, and logs the nonce once;
   a failing handler (or a missing claim) changes nothing *)
Theorem exec_shape : forall s n ok,
  (snd (exec s n ok) = Ok ->
     ok = true /\ (exists v, aget Z.eqb n (pending s) = Some v) /\
     aget Z.eqb n (pending (fst (exec s n ok))) = None /\
     effects (fst (exec s n ok)) = effects s ++ [n]) /\
  (snd (exec s n ok) <> Ok -> fst (exec s n ok) = s).
Proof.
  intros s n ok. unfold exec. destruct (aget Z.eqb n (pending s)) as [v|] eqn:G.
  - destruct ok; prj; split; intro H; try discriminate; try reflexivity; try (exfalso; apply H; reflexivity).
    repeat split; eauto. apply (aget_adel_same Z.eqb).
  - prj. split; intro H; [discriminate | reflexivity].
Qed.

(* re-entrancy: the handler of nonce n runs on a state in which n is no longer parked, so a nested
   executeClaim(n) issued by the handler (e.g. from the bridge-call callback contract) is refused *)
Theorem exec_not_reentrant : forall s n s1 ok,
  exec_begin s n = Some s1 ->
  exec_begin s1 n = None /\ exec s1 n ok = (s1, Err E_NoClaim) /\
  (fst (exec s n true)) = {| proposal := proposal s1; oracles := oracles s1; by_bridger := by_bridger s1; by_ext := by_ext s1;
                            last_total := last_total s1; last_obs := last_obs s1; last_by := last_by s1; atts := atts s1;
                            pending := pending s1; applied := applied s1; effects := effects s1 ++ [n]; vlog := vlog s1;
                            eb := eb s1 |}.
Proof.
  intros s n s1 ok H. unfold exec_begin in H. destruct (aget Z.eqb n (pending s)) eqn:G; [|discriminate].
  inversion H; subst s1; clear H. unfold exec_begin, exec. prj. rewrite (aget_adel_same Z.eqb), G. auto.
Qed.

(* once executed, a nonce can never be parked again, hence never executed again *)
Theorem executed_never_pending : forall c h n,
  In n (effects (run c init h)) -> aget Z.eqb n (pending (run c init h)) = None.
Proof.
  intros c h n H.
  assert (I : inv_exec (run c init h)).
  { apply run_inv; [apply inv_exec_init | intros; apply inv_exec_step; assumption]. }
  destruct I as [_ [E _]]. apply E. exact H.
Qed.

(* ------------------------------------------------------------------ *)
(* C02: quorum bound at the moment an event takes effect                 *)
(* ------------------------------------------------------------------ *)
Definition vpower (os : list (Z * oracle)) (v : Z) : Z :=
  match aget Z.eqb v os with Some o => power o | None => 0 end.
Definition vote_power (os : list (Z * oracle)) (votes : list Z) : Z :=
  fold_right (fun v acc => vpower os v + acc) 0 votes.
(* power of the distinct voters *)
Definition dpower (os : list (Z * oracle)) (votes : list Z) : Z := vote_power os (nodup Z.eq_dec votes).

Lemma vpower_nonneg : forall os v, stakes_ok os -> 0 <= vpower os v.
Proof.
  intros os v S. unfold vpower. destruct (aget Z.eqb v os) as [o|] eqn:G; [|lia].
  apply power_nonneg. apply (S v). apply (aget_In Z.eqb zeqb_spec). exact G.
Qed.

Lemma vote_power_nonneg : forall os l, stakes_ok os -> 0 <= vote_power os l.
Proof.
  intros os l S. induction l as [|v r IH]; [cbn; lia|].
  change (vote_power os (v :: r)) with (vpower os v + vote_power os r).
  pose proof (vpower_nonneg os v S). lia.
Qed.

Lemma tally_bound : forall os req votes acc p, stakes_ok os ->
  tally os req acc votes = Some p -> req <= p /\ p <= acc + vote_power os votes.
Proof.
  intros os req votes. induction votes as [|v r IH]; cbn [tally vote_power fold_right]; intros acc p S H; [discriminate|].
  fold (vote_power os r). unfold vpower.
  pose proof (vote_power_nonneg os r S) as NN.
  destruct (aget Z.eqb v os) as [o|] eqn:G.
  - destruct (acc + power o <? req) eqn:E.
    + destruct (IH _ _ S H). lia.
    + apply Z.ltb_ge in E. inversion H; subst. lia.
  - destruct (IH _ _ S H). lia.
Qed.

(* votes of addresses without an oracle record add nothing: the tally is the tally of the registered voters *)
Definition registered (os : list (Z * oracle)) (v : Z) : bool :=
  match aget Z.eqb v os with Some _ => true | None => false end.

Theorem tally_ignores_nonmembers : forall os req votes acc,
  tally os req acc votes = tally os req acc (filter (registered os) votes).
Proof.
  intros os req votes. induction votes as [|v r IH]; intro acc; cbn [tally filter]; auto.
  unfold registered at 1. destruct (aget Z.eqb v os) as [o|] eqn:G.
  - cbn [tally]. rewrite G. destruct (acc + power o <? req); auto.
  - apply IH.
Qed.

Theorem nonmember_power_zero : forall os v votes,
  aget Z.eqb v os = None -> vpower os v = 0 /\ vote_power os (v :: votes) = vote_power os votes.
Proof. intros os v votes G. unfold vote_power, vpower. cbn. rewrite G. split; reflexivity. Qed.

Lemma quot_bound : forall t p, 0 <= t -> Z.quot (vote_threshold * t) 100 <= p -> vote_threshold * t <= 100 * p + 99.
Proof.
  intros t p Ht H. unfold vote_threshold in *.
  pose proof (Z.quot_rem' (66 * t) 100) as Q.
  pose proof (Z.rem_bound_pos (66 * t) 100). lia.
Qed.

Theorem quorum_at_flip : forall c h b n cl park ms,
  0 <= c_threshold c ->
  let s := run c init h in
  let s' := fst (vote c s b n cl park ms) in
  last_obs s' <> last_obs s ->
  exists a, aget keq (n, cl) (atts s') = Some a /\ a_obs a = true /\
            66 * last_total s <= 100 * vote_power (oracles s) (a_votes a) + 99.
Proof.
  intros c h b n cl park ms Hc s s' H.
  destruct (inv_total_reach c h Hc) as [N [S T]]. fold s in N, S, T.
  pose proof (online_power_nonneg _ S) as NN.
  pose proof (vote_cases c s b n cl park ms) as V. fold s' in V. vote_inv V.
  - exfalso. apply H. congruence.
  - exfalso. apply H. assumption.
  - eexists. split; [|split].
    + rewrite Hat, aget_prune. cbn [fst].
      replace ((n <=? max_keep) || (n - max_keep <? n)) with true.
      * apply (aget_aset_same keq keq_spec).
      * symmetry. apply orb_true_iff. right. apply Z.ltb_lt. unfold max_keep. lia.
    + reflexivity.
    + cbn [a_votes]. destruct (tally_bound _ _ _ _ _ S Ht) as [B1 B2].
      unfold required in B1. pose proof (quot_bound (last_total s) p ltac:(lia) B1) as Q.
      unfold vote_threshold in Q. lia.
Qed.

Lemma nodup_id : forall l : list Z, NoDup l -> nodup Z.eq_dec l = l.
Proof. intros. apply nodup_fixed_point. assumption. Qed.

(* ------------------------------------------------------------------ *)
(* no oracle counted twice — guarded by "no Unbond of an oracle whose vote is stored" *)
(* ------------------------------------------------------------------ *)
(* every stored voter's cursor is at or beyond the attestation's nonce (the cursor function, i.e. incl. the
   "no entry => lastObserved-1" rule: after a genesis import only votes above lastObserved-1 have an entry) *)
Definition inv_votes (c : cfg) (s : st) : Prop :=
  (forall k a v, aget keq k (atts s) = Some a -> In v (a_votes a) -> fst k <= cursor c s v) /\
  (forall k a, aget keq k (atts s) = Some a -> NoDup (a_votes a)).

Definition is_voter (s : st) (o : Z) : Prop :=
  exists k a, aget keq k (atts s) = Some a /\ In o (a_votes a).

(* the guard: an Unbond is applied only to an oracle that has no vote in a stored attestation *)
Definition safe_unbond (s : st) (x : op) : Prop :=
  match x with Unbond o => ~ is_voter s o | _ => True end.

Lemma cast_votes : forall s n cl o v, In v (a_votes (cast s n cl o)) ->
  v = o \/ exists a, aget keq (n, cl) (atts s) = Some a /\ In v (a_votes a).
Proof.
  intros s n cl o v H. unfold cast in H. cbn [a_votes] in H. apply in_app_or in H.
  destruct H as [H|[H|[]]]; [|left; auto].
  destruct (aget keq (n, cl) (atts s)) eqn:G; [right; eauto | contradiction].
Qed.

Definition dflt (lobs : Z) : Z := if 1 <=? lobs then lobs - 1 else 0.

Lemma cur_ge_entry : forall c lobs lb o e, aget Z.eqb o lb = Some e -> e <= cur c lobs lb o.
Proof.
  intros c lobs lb o e G. unfold cur. rewrite G.
  destruct (c_cursor_clamp c && (1 <=? lobs) && (e <? lobs - 1)) eqn:E; [|lia].
  apply andb_true_iff in E. destruct E as [_ E]. apply Z.ltb_lt in E. lia.
Qed.

Lemma cursor_ge_entry : forall c s o e, aget Z.eqb o (last_by s) = Some e -> e <= cursor c s o.
Proof. intros. unfold cursor. apply cur_ge_entry. assumption. Qed.

Lemma cur_mono_lobs : forall c lobs lobs' lb v, lobs <= lobs' -> cur c lobs lb v <= cur c lobs' lb v.
Proof.
  intros c lobs lobs' lb v L. unfold cur. destruct (aget Z.eqb v lb) as [n|].
  - destruct (c_cursor_clamp c); cbn [andb];
      destruct (1 <=? lobs) eqn:A, (1 <=? lobs') eqn:B, (n <? lobs - 1) eqn:C, (n <? lobs' - 1) eqn:D; cbn [andb]; zb; lia.
  - destruct (1 <=? lobs) eqn:A, (1 <=? lobs') eqn:B; zb; lia.
Qed.

Lemma cur_aset_same : forall c lobs lb o n, n <= cur c lobs (aset Z.eqb o n lb) o.
Proof. intros. apply cur_ge_entry. apply (aget_aset_same Z.eqb zeqb_spec). Qed.

Lemma cur_aset_other : forall c lobs lb o n v, o <> v -> cur c lobs (aset Z.eqb o n lb) v = cur c lobs lb v.
Proof. intros. unfold cur. rewrite (aget_aset_other Z.eqb zeqb_spec) by assumption. reflexivity. Qed.

Lemma cur_adel_other : forall c lobs lb o v, o <> v -> cur c lobs (adel Z.eqb o lb) v = cur c lobs lb v.
Proof. intros. unfold cur. rewrite (aget_adel_other Z.eqb zeqb_spec) by assumption. reflexivity. Qed.

(* rebuilding the cursors from the stored votes (InitGenesis) *)
Lemma rebuild_votes_spec : forall c lobs n votes lb,
  (forall v, cur c lobs lb v <= cur c lobs (rebuild_votes c lobs n votes lb) v) /\
  (forall v, In v votes -> n <= cur c lobs (rebuild_votes c lobs n votes lb) v).
Proof.
  intros c lobs n votes. induction votes as [|x r IH]; intro lb; cbn [rebuild_votes fold_left].
  - split; [intro; lia | intros v []].
  - fold (rebuild_votes c lobs n r (if cur c lobs lb x <? n then aset Z.eqb x n lb else lb)).
    set (lb1 := if cur c lobs lb x <? n then aset Z.eqb x n lb else lb).
    destruct (IH lb1) as [M C].
    assert (S1 : forall v, cur c lobs lb v <= cur c lobs lb1 v).
    { intro v. unfold lb1. destruct (cur c lobs lb x <? n) eqn:E; [|lia]. apply Z.ltb_lt in E.
      destruct (Z.eq_dec x v) as [D|D]; [subst; pose proof (cur_aset_same c lobs lb v n); lia | rewrite cur_aset_other by exact D; lia]. }
    assert (S2 : n <= cur c lobs lb1 x).
    { unfold lb1. destruct (cur c lobs lb x <? n) eqn:E; [apply cur_aset_same | apply Z.ltb_ge in E; exact E]. }
    split.
    + intro v. specialize (S1 v). specialize (M v). lia.
    + intros v [D|D]; [subst; specialize (M v); lia | apply C; exact D].
Qed.

Lemma rebuild_cursors_spec : forall c lobs ats lb0,
  let lb' := fold_left (fun lb (p : (Z * Z) * att) => rebuild_votes c lobs (fst (fst p)) (a_votes (snd p)) lb) ats lb0 in
  (forall v, cur c lobs lb0 v <= cur c lobs lb' v) /\
  (forall k a v, In (k, a) ats -> In v (a_votes a) -> fst k <= cur c lobs lb' v).
Proof.
  intros c lobs ats. induction ats as [|[k0 a0] r IH]; intro lb0; cbn [fold_left].
  - split; [intro; lia | intros k a v []].
  - cbn [fst snd]. set (lb1 := rebuild_votes c lobs (fst k0) (a_votes a0) lb0).
    destruct (rebuild_votes_spec c lobs (fst k0) (a_votes a0) lb0) as [M1 C1]. fold lb1 in M1, C1.
    destruct (IH lb1) as [M C]. split.
    + intro v. specialize (M1 v). specialize (M v). lia.
    + intros k a v [D|D] Hv.
      * inversion D; subst. specialize (C1 v Hv). specialize (M v). lia.
      * eapply C; eauto.
Qed.

Lemma inv_votes_vote_atts : forall c s lobs' n cl o,
  inv_votes c s -> n = cursor c s o + 1 -> last_obs s <= lobs' ->
  forall k a, aget keq k (aset keq (n, cl) (cast s n cl o) (atts s)) = Some a ->
  (forall v, In v (a_votes a) -> fst k <= cur c lobs' (aset Z.eqb o n (last_by s)) v)
  /\ NoDup (a_votes a).
Proof.
  intros c s lobs' n cl o [I1 I2] Hn L k a G.
  assert (CUR : forall k0 a0, aget keq k0 (atts s) = Some a0 -> In o (a_votes a0) -> fst k0 < n).
  { intros k0 a0 G0 Hin. pose proof (I1 _ _ _ G0 Hin). lia. }
  assert (OTH : forall v, o <> v -> cursor c s v <= cur c lobs' (aset Z.eqb o n (last_by s)) v).
  { intros v D. rewrite cur_aset_other by exact D. unfold cursor. apply cur_mono_lobs. exact L. }
  destruct (keq (n, cl) k) eqn:E.
  - apply keq_spec in E. subst k. rewrite (aget_aset_same keq keq_spec) in G. inversion G; subst a. split.
    + intros v Hv. cbn [fst]. destruct (Z.eq_dec o v) as [D|D].
      * subst v. apply cur_aset_same.
      * apply cast_votes in Hv. destruct Hv as [Hv|[a0 [G0 Hv]]]; [congruence|].
        pose proof (I1 _ _ _ G0 Hv). pose proof (OTH v D). cbn [fst] in *. lia.
    + unfold cast. cbn [a_votes]. destruct (aget keq (n, cl) (atts s)) as [a0|] eqn:G0.
      * apply NoDup_snoc; [eapply I2; eauto|]. intro Hin. pose proof (CUR _ _ G0 Hin). cbn in *. lia.
      * cbn. constructor; [intros []|constructor].
  - apply keq_neq in E. rewrite (aget_aset_other keq keq_spec) in G by exact E. split; [|eapply I2; eauto].
    intros v Hv. destruct (Z.eq_dec o v) as [D|D].
    + subst v. pose proof (CUR _ _ G Hv). pose proof (cur_aset_same c lobs' (last_by s) o n). lia.
    + pose proof (I1 _ _ _ G Hv). pose proof (OTH v D). lia.
Qed.

(* the step preserves the invariant if the code keeps the cursor on unbond (repaired variant), or if the
   operation is not an Unbond of an oracle with a stored vote *)
Definition safe_votes (c : cfg) (s : st) (x : op) : Prop := c_unbond_del c = false \/ safe_unbond s x.

(* operations that leave attestations, cursors and the last observed nonce alone *)
Lemma inv_votes_same : forall c s s', atts s' = atts s -> last_by s' = last_by s -> last_obs s' = last_obs s ->
  inv_votes c s -> inv_votes c s'.
Proof. intros c s s' A B C IH. unfold inv_votes, cursor. rewrite A, B, C. exact IH. Qed.

Lemma inv_votes_step : forall c s x, inv_votes c s -> safe_votes c s x -> inv_votes c (fst (step c s x)).
Proof.
  intros c s x IH SF. destruct x; cbn [step].
  - pose proof (vote_cases c s bridger nonce cls park members) as V. vote_inv V.
    + rewrite Hs. exact IH.
    + unfold inv_votes, cursor. rewrite Hat, Hlb, Hlo. split.
      * intros k a v G Hv. destruct (inv_votes_vote_atts c s (last_obs s) nonce cls o IH Hn ltac:(lia) k a G) as [A _]. auto.
      * intros k a G. destruct (inv_votes_vote_atts c s (last_obs s) nonce cls o IH Hn ltac:(lia) k a G) as [_ B]. auto.
    + unfold inv_votes, cursor. rewrite Hat, Hlb, Hlo.
      assert (F : forall k a, aget keq k (prune nonce (aset keq (nonce, cls) {| a_obs := true; a_votes := a_votes (cast s nonce cls o) |}
                                 (aset keq (nonce, cls) (cast s nonce cls o) (atts s)))) = Some a ->
                 exists a0, aget keq k (aset keq (nonce, cls) (cast s nonce cls o) (atts s)) = Some a0 /\ a_votes a = a_votes a0).
      { intros k a G. apply aget_prune_Some in G. destruct (keq (nonce, cls) k) eqn:E.
        - apply keq_spec in E. subst k. rewrite (aget_aset_same keq keq_spec) in *. inversion G; subst a.
          eexists; split; eauto.
        - apply keq_neq in E. rewrite (aget_aset_other keq keq_spec) in G by exact E. eauto. }
      split.
      * intros k a v G Hv. destruct (F _ _ G) as [a0 [G0 EV]]. rewrite EV in Hv.
        destruct (inv_votes_vote_atts c s nonce nonce cls o IH Hn ltac:(lia) k a0 G0) as [A _]. auto.
      * intros k a G. destruct (F _ _ G) as [a0 [G0 EV]]. rewrite EV.
        destruct (inv_votes_vote_atts c s nonce nonce cls o IH Hn ltac:(lia) k a0 G0) as [_ B]. auto.
  - destruct (exec_core s nonce handler_ok) as [[L [A _]] B]. eapply inv_votes_same; eauto.
  - destruct (bond_core c s o bridger ext stake) as [[L [A _]] [B _]]. eapply inv_votes_same; eauto.
  - destruct (add_core c s o amount) as [[L [A _]] [B _]]. eapply inv_votes_same; eauto.
  - destruct (slash_core s os) as [[L [A _]] [B _]]. eapply inv_votes_same; eauto.
  - exact IH.
  - destruct (gov_core s os) as [[L [A _]] [B _]]. eapply inv_votes_same; eauto.
  - (* unbond: the cursor is kept, or the oracle has no stored vote *)
    unfold unbond. destruct (zmem o (proposal s)); prj; [exact IH|].
    destruct (aget Z.eqb o (oracles s)) as [rec|]; prj; [|exact IH].
    destruct (o_online rec); prj; [exact IH|]. destruct (o_unb rec); prj; [exact IH|].
    destruct (c_unbond_del c) eqn:D; [|exact IH].
    unfold safe_votes in SF. destruct SF as [SF|SF]; [congruence|]. cbn [safe_unbond] in SF.
    destruct IH as [I1 I2]. split; [|exact I2]. unfold cursor in *. prj.
    intros k a v G Hv. pose proof (I1 _ _ _ G Hv).
    assert (o <> v). { intro; subst. apply SF. exists k, a. auto. }
    rewrite cur_adel_other by assumption. assumption.
  - destruct (edit_core s o b) as [[L [A _]] [B _]]. eapply inv_votes_same; eauto.
  - cbn [fst]. destruct (mature_core s) as [[L [A _]] [B _]]. eapply inv_votes_same; eauto.
  - destruct (confirm_core s kind key ext) as [[[L [A _]] [B _]] _]. eapply inv_votes_same; eauto.
  - destruct (add_batch_core s) as [[[L [A _]] [B _]] _]. eapply inv_votes_same; eauto.
  - destruct (add_bcall_core s) as [[[L [A _]] [B _]] _]. eapply inv_votes_same; eauto.
  - exact IH.
  - destruct (end_block_core s newset) as [[L [A _]] [B _]]. eapply inv_votes_same; eauto.
  - (* export + import: the cursors are rebuilt from the stored votes *)
    cbn [fst]. destruct IH as [I1 I2]. unfold inv_votes, cursor, export_import. prj. split; [|exact I2].
    intros k a v G Hv. unfold rebuild_cursors.
    destruct (rebuild_cursors_spec c (last_obs s) (atts s) []) as [_ C].
    eapply C; [apply (aget_In keq keq_spec); exact G | exact Hv].
Qed.

Lemma guarded_weaken : forall c (safe1 safe2 : st -> op -> Prop),
  (forall s x, safe1 s x -> safe2 s x) -> forall h s, guarded c safe1 s h -> guarded c safe2 s h.
Proof.
  intros c safe1 safe2 W h. induction h as [|x r IH]; intros s G; cbn in *; auto.
  destruct G as [G1 G2]. split; auto.
Qed.

Lemma guarded_all : forall c (safe : st -> op -> Prop), (forall s x, safe s x) -> forall h s, guarded c safe s h.
Proof. intros c safe A h. induction h as [|x r IH]; intro s; cbn; auto. Qed.

Lemma inv_votes_reach : forall c h, guarded c (safe_votes c) init h -> inv_votes c (run c init h).
Proof.
  intros c h G. apply (run_inv_guarded (inv_votes c) (safe_votes c) c).
  - intros. apply inv_votes_step; assumption.
  - split; [intros ? ? ? F; discriminate F | intros ? ? F; discriminate F].
  - exact G.
Qed.

Theorem votes_distinct_guarded : forall c h k a,
  guarded c safe_unbond init h ->
  aget keq k (atts (run c init h)) = Some a -> NoDup (a_votes a).
Proof.
  intros c h k a G Ha.
  assert (I : inv_votes c (run c init h)).
  { apply inv_votes_reach. eapply guarded_weaken; [|exact G]. intros s x S. right. exact S. }
  destruct I as [_ I2]. eapply I2; eauto.
Qed.

(* the repaired code (UnbondedOracle keeps the per-oracle cursor): no guard needed, for every history *)
Theorem votes_distinct_fixed : forall c h k a,
  c_unbond_del c = false ->
  aget keq k (atts (run c init h)) = Some a -> NoDup (a_votes a).
Proof.
  intros c h k a F Ha.
  assert (I : inv_votes c (run c init h)).
  { apply inv_votes_reach. apply guarded_all. intros s x. left. exact F. }
  destruct I as [_ I2]. eapply I2; eauto.
Qed.

(* the quorum bound in terms of the DISTINCT registered voters, for guarded histories *)
Theorem quorum_distinct_guarded : forall c h b n cl park ms,
  0 <= c_threshold c ->
  guarded c safe_unbond init (h ++ [Vote b n cl park ms]) ->
  let s := run c init h in
  let s' := fst (vote c s b n cl park ms) in
  last_obs s' <> last_obs s ->
  exists a, aget keq (n, cl) (atts s') = Some a /\ a_obs a = true /\ NoDup (a_votes a) /\
            66 * last_total s <= 100 * dpower (oracles s) (a_votes a) + 99.
Proof.
  intros c h b n cl park ms Hc G s s' H.
  destruct (quorum_at_flip c h b n cl park ms Hc H) as [a [Ga [Oa Q]]].
  assert (ND : NoDup (a_votes a)).
  { apply (votes_distinct_guarded c (h ++ [Vote b n cl park ms]) (n, cl) a G).
    rewrite run_snoc. exact Ga. }
  exists a. repeat split; auto. unfold dpower. rewrite nodup_id by exact ND. exact Q.
Qed.

Theorem quorum_distinct_fixed : forall c h b n cl park ms,
  0 <= c_threshold c -> c_unbond_del c = false ->
  let s := run c init h in
  let s' := fst (vote c s b n cl park ms) in
  last_obs s' <> last_obs s ->
  exists a, aget keq (n, cl) (atts s') = Some a /\ a_obs a = true /\ NoDup (a_votes a) /\
            66 * last_total s <= 100 * dpower (oracles s) (a_votes a) + 99.
Proof.
  intros c h b n cl park ms Hc F s s' H.
  destruct (quorum_at_flip c h b n cl park ms Hc H) as [a [Ga [Oa Q]]].
  assert (ND : NoDup (a_votes a)).
  { apply (votes_distinct_fixed c (h ++ [Vote b n cl park ms]) (n, cl) a F).
    rewrite run_snoc. exact Ga. }
  exists a. repeat split; auto. unfold dpower. rewrite nodup_id by exact ND. exact Q.
Qed.

(* ------------------------------------------------------------------ *)
(* C01: an oracle neither votes twice for a nonce nor skips one           *)
(* (between registrations: histories without Unbond of that oracle)      *)
(* ------------------------------------------------------------------ *)
Definition nonces_of (w : Z) (l : list (Z * Z)) : list Z := map snd (filter (fun p => fst p =? w) l).

Fixpoint consec (l : list Z) : Prop :=
  match l with
  | a :: (b :: _) as r => b = a + 1 /\ consec r
  | _ => True
  end.

Lemma consec_snoc : forall l n, consec l -> (l <> [] -> n = last l 0 + 1) -> consec (l ++ [n]).
Proof.
  induction l as [|a r IH]; intros n C H; [cbn; auto|].
  destruct r as [|b r'].
  - cbn. split; auto. apply H. discriminate.
  - destruct C as [C1 C2]. change ((a :: b :: r') ++ [n]) with (a :: ((b :: r') ++ [n])).
    change (consec (a :: (b :: r') ++ [n])) with (b = a + 1 /\ consec ((b :: r') ++ [n])).
    split; auto. apply IH; auto. intros _. apply H. discriminate.
Qed.

Lemma consec_lt : forall r a x, consec (a :: r) -> In x r -> a < x.
Proof.
  induction r as [|b r IH]; intros a x C H; [contradiction|].
  destruct C as [C1 C2]. destruct H as [H|H]; [lia|]. specialize (IH b x C2 H). lia.
Qed.

Lemma consec_NoDup : forall l, consec l -> NoDup l.
Proof.
  induction l as [|a r IH]; intro C; constructor.
  - intro H. pose proof (consec_lt r a a C H). lia.
  - apply IH. destruct r; [exact I | apply C].
Qed.

Lemma nonces_of_snoc : forall w l o n,
  nonces_of w (l ++ [(o, n)]) = nonces_of w l ++ (if o =? w then [n] else []).
Proof.
  intros. unfold nonces_of. rewrite filter_app, map_app. cbn [filter fst].
  destruct (o =? w); reflexivity.
Qed.

Fixpoint incr (l : list Z) : Prop :=
  match l with
  | a :: (b :: _) as r => a < b /\ incr r
  | _ => True
  end.

Lemma incr_snoc : forall l n, incr l -> (l <> [] -> last l 0 < n) -> incr (l ++ [n]).
Proof.
  induction l as [|a r IH]; intros n C H; [cbn; auto|].
  destruct r as [|b r'].
  - cbn. split; auto. apply H. discriminate.
  - destruct C as [C1 C2]. change ((a :: b :: r') ++ [n]) with (a :: ((b :: r') ++ [n])).
    change (incr (a :: (b :: r') ++ [n])) with (a < b /\ incr ((b :: r') ++ [n])).
    split; auto. apply IH; auto. intros _. apply H. discriminate.
Qed.

Lemma incr_lt : forall r a x, incr (a :: r) -> In x r -> a < x.
Proof.
  induction r as [|b r IH]; intros a x C H; [contradiction|].
  destruct C as [C1 C2]. destruct H as [H|H]; [lia|]. specialize (IH b x C2 H). lia.
Qed.

Lemma incr_NoDup : forall l, incr l -> NoDup l.
Proof.
  induction l as [|a r IH]; intro C; constructor.
  - intro H. pose proof (incr_lt r a a C H). lia.
  - apply IH. destruct r; [exact I | apply C].
Qed.

Lemma consec_incr : forall l, consec l -> incr l.
Proof.
  induction l as [|a r IH]; intro C; [exact I|]. destruct r as [|b r']; [exact I|].
  destruct C as [C1 C2]. split; [lia | apply IH; exact C2].
Qed.

(* strictly increasing nonces per oracle: holds for every variant of the code.
   The oracle's cursor dominates every nonce it voted for; and every logged vote is either still stored in its
   attestation or lies below the last observed nonce (needed when the cursors are rebuilt by a genesis import) *)
Definition vote_stored (s : st) (w m : Z) : Prop :=
  (exists cl a, aget keq (m, cl) (atts s) = Some a /\ In w (a_votes a)) \/ m + 1 <= last_obs s.
Definition inv_incr (c : cfg) (w : Z) (s : st) : Prop :=
  incr (nonces_of w (vlog s)) /\
  (forall m, In m (nonces_of w (vlog s)) -> m <= cursor c s w) /\
  (forall m, In m (nonces_of w (vlog s)) -> vote_stored s w m).

(* consecutive nonces per oracle: the code without the cursor lift, between restarts *)
Definition inv_contig (w : Z) (s : st) : Prop :=
  consec (nonces_of w (vlog s)) /\
  (nonces_of w (vlog s) <> [] -> aget Z.eqb w (last_by s) = Some (last (nonces_of w (vlog s)) 0)).

Definition no_unbond_of (w : Z) (_ : st) (x : op) : Prop :=
  match x with Unbond o => o <> w | _ => True end.

(* the cursor of w survives the step: the code keeps cursors on unbond, or the step is not Unbond w *)
Definition safe_cursor (c : cfg) (w : Z) (s : st) (x : op) : Prop := c_unbond_del c = false \/ no_unbond_of w s x.
(* ... and the chain is not restarted from an exported genesis (InitGenesis lifts a lagging oracle to lastObserved-1) *)
Definition safe_contig (c : cfg) (w : Z) (s : st) (x : op) : Prop :=
  safe_cursor c w s x /\ match x with ExportImport => False | _ => True end.

Lemma cursor_noclamp : forall c s o e, c_cursor_clamp c = false -> aget Z.eqb o (last_by s) = Some e -> cursor c s o = e.
Proof. intros c s o e F G. unfold cursor, cur. rewrite G, F. reflexivity. Qed.

Lemma incr_snoc_all : forall l n, incr l -> (forall m, In m l -> m < n) -> incr (l ++ [n]).
Proof.
  intros l n C H. apply incr_snoc; auto. intro NE. apply H.
  destruct l as [|a r]; [contradiction|]. apply (@exists_last _ (a :: r)) in NE. destruct NE as [l' [x E]].
  rewrite E. rewrite last_last. apply in_or_app. right. left. reflexivity.
Qed.

Lemma In_nonces_snoc : forall w l o n m, In m (nonces_of w (l ++ [(o, n)])) -> In m (nonces_of w l) \/ (o = w /\ m = n).
Proof.
  intros w l o n m H. rewrite nonces_of_snoc in H. apply in_app_or in H. destruct H as [H|H]; auto.
  destruct (o =? w) eqn:E; [|contradiction]. apply Z.eqb_eq in E. destruct H as [H|[]]. auto.
Qed.

(* an accepted vote (kept or flipping): the three parts of inv_incr *)
Lemma inv_incr_vote : forall c w s s' o n cl,
  inv_incr c w s -> n = cursor c s o + 1 ->
  vlog s' = vlog s ++ [(o, n)] -> last_by s' = aset Z.eqb o n (last_by s) ->
  last_obs s <= last_obs s' ->
  (* what is stored afterwards: the attestation voted on holds o; stored votes stay stored unless below lastObserved *)
  (exists a, aget keq (n, cl) (atts s') = Some a /\ In o (a_votes a)) ->
  (forall w0 m, vote_stored s w0 m -> vote_stored s' w0 m) ->
  inv_incr c w s'.
Proof.
  intros c w s s' o n cl [C [E K]] Hn Hvl Hlb Hlo Hnew Hkeep. unfold inv_incr. rewrite Hvl. repeat split.
  - rewrite nonces_of_snoc. destruct (o =? w) eqn:D; [|rewrite app_nil_r; exact C].
    apply Z.eqb_eq in D. subst o. apply incr_snoc_all; auto. intros m Hm. specialize (E m Hm). lia.
  - intros m Hm. apply In_nonces_snoc in Hm. unfold cursor. rewrite Hlb.
    destruct Hm as [Hm|[D Hm]].
    + specialize (E m Hm). destruct (Z.eq_dec o w) as [D|D].
      * subst o. pose proof (cur_aset_same c (last_obs s') (last_by s) w n). lia.
      * rewrite cur_aset_other by exact D. pose proof (cur_mono_lobs c _ _ (last_by s) w Hlo). unfold cursor in E. lia.
    + subst. apply cur_aset_same.
  - intros m Hm. apply In_nonces_snoc in Hm. destruct Hm as [Hm|[D Hm]].
    + apply Hkeep. apply K. exact Hm.
    + subst. left. destruct Hnew as [a [G I]]. eauto.
Qed.

Lemma vote_stored_keep_aset : forall s s' n cl o,
  atts s' = aset keq (n, cl) (cast s n cl o) (atts s) -> last_obs s' = last_obs s ->
  forall w0 m, vote_stored s w0 m -> vote_stored s' w0 m.
Proof.
  intros s s' n cl o Hat Hlo w0 m [[cl0 [a [G I]]]|L]; [|right; lia].
  left. rewrite Hat. destruct (keq (n, cl) (m, cl0)) eqn:E.
  - apply keq_spec in E. inversion E; subst. exists cl0. eexists. split; [apply (aget_aset_same keq keq_spec)|].
    unfold cast. cbn [a_votes]. rewrite G. apply in_or_app. left. exact I.
  - apply keq_neq in E. exists cl0, a. rewrite (aget_aset_other keq keq_spec) by exact E. auto.
Qed.

Lemma vote_stored_keep_flip : forall s s' n cl o,
  atts s' = prune n (aset keq (n, cl) {| a_obs := true; a_votes := a_votes (cast s n cl o) |}
                       (aset keq (n, cl) (cast s n cl o) (atts s))) ->
  last_obs s' = n -> n = last_obs s + 1 ->
  forall w0 m, vote_stored s w0 m -> vote_stored s' w0 m.
Proof.
  intros s s' n cl o Hat Hlo Hn w0 m [[cl0 [a [G I]]]|L]; [|right; lia].
  destruct ((n <=? max_keep) || (n - max_keep <? m)) eqn:P.
  - left. rewrite Hat. destruct (keq (n, cl) (m, cl0)) eqn:E.
    + apply keq_spec in E. inversion E; subst m cl0. exists cl. eexists. split.
      * rewrite aget_prune. cbn [fst]. rewrite P. apply (aget_aset_same keq keq_spec).
      * cbn [a_votes]. unfold cast. cbn [a_votes]. rewrite G. apply in_or_app. left. exact I.
    + apply keq_neq in E. exists cl0, a. split; auto.
      rewrite aget_prune. cbn [fst]. rewrite P. rewrite !(aget_aset_other keq keq_spec) by exact E. exact G.
  - right. apply orb_false_iff in P. destruct P as [P1 P2]. zb. unfold max_keep in *. lia.
Qed.

(* operations other than Vote and ExportImport: vote log untouched, w's cursor entry untouched *)
Lemma cursor_frame_step : forall c w s x,
  safe_cursor c w s x ->
  match x with Vote _ _ _ _ _ | ExportImport => True | _ =>
    tally_core s (fst (step c s x)) /\ aget Z.eqb w (last_by (fst (step c s x))) = aget Z.eqb w (last_by s)
  end.
Proof.
  intros c w s x SF. destruct x; cbn [step]; auto.
  - destruct (exec_core s nonce handler_ok) as [A B]. rewrite B. auto.
  - destruct (bond_core c s o bridger ext stake) as [A [B _]]. rewrite B. auto.
  - destruct (add_core c s o amount) as [A [B _]]. rewrite B. auto.
  - destruct (slash_core s os) as [A [B _]]. rewrite B. auto.
  - split; [unfold tally_core; prj; auto | reflexivity].
  - destruct (gov_core s os) as [A [B _]]. rewrite B. auto.
  - destruct (unbond_core c s o) as [A _]. split; [exact A|].
    unfold unbond. destruct (zmem o (proposal s)); prj; auto.
    destruct (aget Z.eqb o (oracles s)) as [rec|]; prj; auto.
    destruct (o_online rec); prj; auto. destruct (o_unb rec); prj; auto.
    destruct (c_unbond_del c) eqn:D; auto.
    unfold safe_cursor in SF. destruct SF as [SF|SF]; [congruence|]. cbn [no_unbond_of] in SF.
    apply (aget_adel_other Z.eqb zeqb_spec). exact SF.
  - destruct (edit_core s o b) as [A [B _]]. rewrite B. auto.
  - destruct (mature_core s) as [A [B _]]. cbn [fst]. rewrite B. auto.
  - destruct (confirm_core s kind key ext) as [[A [B _]] _]. rewrite B. auto.
  - destruct (add_batch_core s) as [[A [B _]] _]. rewrite B. auto.
  - destruct (add_bcall_core s) as [[A [B _]] _]. rewrite B. auto.
  - split; [unfold tally_core; prj; auto | reflexivity].
  - destruct (end_block_core s newset) as [A [B _]]. rewrite B. auto.
Qed.

Lemma inv_incr_step : forall w c s x, inv_incr c w s -> safe_cursor c w s x -> inv_incr c w (fst (step c s x)).
Proof.
  intros w c s x IH SF. pose proof (cursor_frame_step c w s x SF) as Fr. destruct x;
    try (destruct Fr as [[A [B [_ D]]] E]; destruct IH as [I1 [I2 I3]]; unfold inv_incr, vote_stored, cursor, cur in *;
         rewrite A, B, D, E; auto; fail).
  - cbn [step]. pose proof (vote_cases c s bridger nonce cls park members) as V. vote_inv V.
    + rewrite Hs. exact IH.
    + eapply (inv_incr_vote c w s _ o nonce cls); eauto; try lia.
      * rewrite Hat. eexists. split; [apply (aget_aset_same keq keq_spec)|].
        unfold cast. cbn [a_votes]. apply in_or_app. right. left. reflexivity.
      * apply (vote_stored_keep_aset s _ nonce cls o); assumption.
    + eapply (inv_incr_vote c w s _ o nonce cls); eauto; try lia.
      * rewrite Hat. eexists. split.
        -- rewrite aget_prune. cbn [fst].
           replace ((nonce <=? max_keep) || (nonce - max_keep <? nonce)) with true.
           ++ apply (aget_aset_same keq keq_spec).
           ++ symmetry. apply orb_true_iff. right. apply Z.ltb_lt. unfold max_keep. lia.
        -- cbn [a_votes]. unfold cast. cbn [a_votes]. apply in_or_app. right. left. reflexivity.
      * apply (vote_stored_keep_flip s _ nonce cls o); assumption.
  - (* export + import: cursors rebuilt from the stored votes; a vote no longer stored lies below lastObserved *)
    cbn [step fst]. destruct IH as [I1 [I2 I3]]. destruct (export_core c s) as [[A [B [_ D]]] _].
    unfold inv_incr. rewrite D. repeat split; auto.
    intros m Hm. unfold cursor, export_import. prj.
    destruct (rebuild_cursors_spec c (last_obs s) (atts s) []) as [M C]. unfold rebuild_cursors.
    destruct (I3 m Hm) as [[cl [a [G I]]]|L].
    + apply (C (m, cl) a w); [apply (aget_In keq keq_spec); exact G | exact I].
    + specialize (M w). unfold cur at 1 in M. cbn [aget] in M. destruct (1 <=? last_obs s) eqn:O; zb; lia.
Qed.

Lemma inv_contig_vote : forall c w s s' o n,
  c_cursor_clamp c = false ->
  inv_contig w s -> n = cursor c s o + 1 ->
  vlog s' = vlog s ++ [(o, n)] -> last_by s' = aset Z.eqb o n (last_by s) -> inv_contig w s'.
Proof.
  intros c w s s' o n F [C E] Hn Hvl Hlb. unfold inv_contig. rewrite Hvl, Hlb, nonces_of_snoc.
  destruct (o =? w) eqn:D.
  - apply Z.eqb_eq in D. subst o. split.
    + apply consec_snoc; auto. intro NE. rewrite (cursor_noclamp c s w _ F (E NE)) in Hn. exact Hn.
    + intros _. rewrite last_last. apply (aget_aset_same Z.eqb zeqb_spec).
  - apply Z.eqb_neq in D. rewrite app_nil_r. split; auto.
    intro NE. rewrite (aget_aset_other Z.eqb zeqb_spec) by exact D. auto.
Qed.

Lemma inv_contig_step : forall w c s x, c_cursor_clamp c = false ->
  inv_contig w s -> safe_contig c w s x -> inv_contig w (fst (step c s x)).
Proof.
  intros w c s x F IH [SF NX]. pose proof (cursor_frame_step c w s x SF) as Fr. destruct x; try contradiction;
    try (destruct Fr as [[_ [_ [_ A]]] B]; unfold inv_contig; rewrite A, B; exact IH).
  cbn [step]. pose proof (vote_cases c s bridger nonce cls park members) as V. vote_inv V.
  - rewrite Hs. exact IH.
  - eapply inv_contig_vote; eauto.
  - eapply inv_contig_vote; eauto.
Qed.

Lemma inv_incr_init : forall c w, inv_incr c w init.
Proof. intros. unfold inv_incr. cbn. repeat split; [intros m [] | intros m []]. Qed.

(* every variant: strictly increasing, hence no second vote for a nonce — also across genesis export + import *)
Theorem votes_increasing : forall c h w,
  guarded c (safe_cursor c w) init h ->
  incr (nonces_of w (vlog (run c init h))) /\ NoDup (nonces_of w (vlog (run c init h))).
Proof.
  intros c h w G.
  assert (I : inv_incr c w (run c init h)).
  { apply (run_inv_guarded (inv_incr c w) (safe_cursor c w) c).
    - intros. apply inv_incr_step; assumption.
    - apply inv_incr_init.
    - exact G. }
  destruct I as [C _]. split; auto. apply incr_NoDup. exact C.
Qed.

(* the code without the cursor lift: consecutive (no skipped nonce either), between restarts *)
Theorem votes_contiguous : forall c h w,
  c_cursor_clamp c = false ->
  guarded c (safe_contig c w) init h ->
  consec (nonces_of w (vlog (run c init h))) /\ NoDup (nonces_of w (vlog (run c init h))).
Proof.
  intros c h w F G.
  assert (I : inv_contig w (run c init h)).
  { apply (run_inv_guarded (inv_contig w) (safe_contig c w) c).
    - intros. apply inv_contig_step; assumption.
    - split; [exact Logic.I | intro E; exfalso; apply E; reflexivity].
    - exact G. }
  destruct I as [C _]. split; auto. apply consec_NoDup. exact C.
Qed.

(* the code as it is: for EVERY history and every oracle — no oracle ever has two accepted votes for one nonce *)
Theorem votes_increasing_fixed : forall c h w,
  c_unbond_del c = false ->
  incr (nonces_of w (vlog (run c init h))) /\ NoDup (nonces_of w (vlog (run c init h))).
Proof.
  intros c h w F. apply votes_increasing. apply guarded_all. intros s x. left. exact F.
Qed.

(* histories without a restart from an exported genesis *)
Definition no_restart (_ : st) (x : op) : Prop := match x with ExportImport => False | _ => True end.

(* ------------------------------------------------------------------ *)
(* refutations (concrete witnesses, replayed on the real keeper by harness/c01) *)
(* ------------------------------------------------------------------ *)
Definition fx (n : Z) : Z := n * 1000000000000000000.
(* the code in which UnbondedOracle deletes the cursor (finding C01-1) and the repaired code *)
Definition cfg0 : cfg := {| c_threshold := fx 10000; c_multiple := 10; c_slashfrac := 800000000000000000;
                            c_unbond_del := true; c_cursor_clamp := false |}.
Definition cfg_fixed : cfg := {| c_threshold := fx 10000; c_multiple := 10; c_slashfrac := 800000000000000000;
                                 c_unbond_del := false; c_cursor_clamp := true |}.

(* four equal oracles; 0 and 1 vote for (nonce 1, class 1); 0 is removed by governance, its unbonding matures,
   it unbonds (which deletes its per-oracle cursor), is approved and bonds again, and votes again on the still
   pending attestation *)
Definition h_rebond : list op :=
  [GovSet [0; 1; 2; 3];
   Bond 0 0 0 (fx 25000); Bond 1 1 1 (fx 25000); Bond 2 2 2 (fx 25000); Bond 3 3 3 (fx 25000);
   Vote 0 1 1 true []; Vote 1 1 1 true [];
   GovSet [1; 2; 3]; Mature; Unbond 0; GovSet [0; 1; 2; 3]; Bond 0 0 0 (fx 25000);
   Vote 0 1 1 true []].

Theorem revote_refuted :
  exists c h, 0 <= c_threshold c /\ c_unbond_del c = true /\
    let s := run c init h in
    exists a, aget keq (1, 1) (atts s) = Some a /\ a_obs a = true /\ last_obs s = 1 /\
              a_votes a = [0; 1; 0] /\                                     (* oracle 0 is in the vote list twice *)
              nonces_of 0 (vlog s) = [1; 1] /\                             (* two accepted votes of oracle 0 for nonce 1 *)
              last_total s = 1000 /\ dpower (oracles s) (a_votes a) = 500 /\
              100 * dpower (oracles s) (a_votes a) + 99 < 66 * last_total s. (* 50 % of the power was enough *)
Proof.
  exists cfg0, h_rebond. split; [vm_compute; discriminate|]. split; [reflexivity|].
  vm_compute. eexists. repeat split; reflexivity.
Qed.

(* the same history on the repaired code: the second vote is refused, the event stays pending *)
Theorem revote_refused_when_fixed :
  let s := run cfg_fixed init h_rebond in
  last_obs s = 0 /\ nonces_of 0 (vlog s) = [1] /\
  exists a, aget keq (1, 1) (atts s) = Some a /\ a_obs a = false /\ a_votes a = [0; 1].
Proof. vm_compute. repeat split; try reflexivity. eexists. repeat split; reflexivity. Qed.

(* truncation of 66*total/100: powers 100, 231, 172 (total 503): the bar is 331 (331.98 truncated);
   oracles 0 and 1 hold 331 = 65.8 % *)
Definition h_trunc : list op :=
  [GovSet [0; 1; 2]; Bond 0 0 0 (fx 10000); Bond 1 1 1 (fx 23100); Bond 2 2 2 (fx 17200);
   Vote 0 1 1 true []; Vote 1 1 1 true []].

Theorem truncation_refuted :
  exists c h, 0 <= c_threshold c /\ guarded c safe_unbond init h /\
    let s := run c init h in
    exists a, aget keq (1, 1) (atts s) = Some a /\ a_obs a = true /\ last_obs s = 1 /\ NoDup (a_votes a) /\
              last_total s = 503 /\ dpower (oracles s) (a_votes a) = 331 /\
              100 * dpower (oracles s) (a_votes a) < 66 * last_total s.
Proof.
  exists cfg0, h_trunc. split; [vm_compute; discriminate|]. split; [cbn; tauto|].
  vm_compute. eexists. repeat split; try reflexivity.
  repeat constructor; cbn; intuition discriminate.
Qed.

(* ------------------------------------------------------------------ *)
(* transaction layer: required signer versus counted bridger             *)
(* ------------------------------------------------------------------ *)
Theorem claim_tx_accept : forall c unpacked chk s signers t,
  snd (deliver_claim c unpacked chk s signers t) = Ok ->
  In (required_signer t) signers /\
  exists o rec, aget Z.eqb (t_inner t) (by_bridger s) = Some o /\ aget Z.eqb o (oracles s) = Some rec /\
                o_online rec = true /\
                In (o, t_nonce t) (vlog (fst (deliver_claim c unpacked chk s signers t))).
Proof.
  intros c unpacked chk s signers t H. unfold deliver_claim in *.
  destruct (negb (validate_basic unpacked chk t)); [discriminate|].
  destruct (zmem (required_signer t) signers) eqn:Z; cbn [negb] in *; [|discriminate].
  split; [apply zmem_In; exact Z|].
  destruct (vote_accept_online _ _ _ _ _ _ _ H) as [o [rec [A [B [C0 [_ D]]]]]]. eauto 10.
Qed.

(* with the wrapper = wrapped bridger check in place, the bridger a vote is counted for had to sign *)
Theorem signer_guarded : forall c unpacked s signers t,
  snd (deliver_claim c unpacked true s signers t) = Ok -> In (t_inner t) signers.
Proof.
  intros c unpacked s signers t H. pose proof (claim_tx_accept _ _ _ _ _ _ H) as [A _].
  unfold deliver_claim, validate_basic in H.
  destruct unpacked; cbn [andb negb] in H; [|discriminate].
  destruct (t_inner_valid t); cbn [andb negb orb] in H; [|discriminate].
  destruct (t_wrapper t =? t_inner t) eqn:E; cbn [negb] in H; [|discriminate].
  apply Z.eqb_eq in E. unfold required_signer in A. congruence.
Qed.

(* the code as it is: a transaction decoded from bytes never gets past ValidateBasic *)
Theorem bytes_path_rejects : forall c s signers t, deliver_claim_bytes c s signers t = (s, Err E_Invalid).
Proof. intros. reflexivity. Qed.

(* the code as it is, once the message carries its value: account 300 (bridger of nobody) is the only signer;
   three of its transactions are counted as votes of oracles 0, 1, 2 and event nonce 1 takes effect *)
Definition h_three : list op :=
  [GovSet [0; 1; 2; 3];
   Bond 0 0 0 (fx 20000); Bond 1 1 1 (fx 20000); Bond 2 2 2 (fx 20000); Bond 3 3 3 (fx 20000)].
Definition forged (inner : Z) : claim_tx :=
  {| t_wrapper := 300; t_inner := inner; t_inner_valid := true; t_nonce := 1; t_cls := 1; t_park := true; t_members := [] |}.

Theorem signer_refuted :
  exists c h signers,
    let s0 := run c init h in
    (forall b o, aget Z.eqb b (by_bridger s0) = Some o -> ~ In b signers) /\   (* no registered bridger signs *)
    let s1 := fst (deliver_claim_mem c s0 signers (forged 0)) in
    let s2 := fst (deliver_claim_mem c s1 signers (forged 1)) in
    let s3 := fst (deliver_claim_mem c s2 signers (forged 2)) in
    snd (deliver_claim_mem c s0 signers (forged 0)) = Ok /\
    snd (deliver_claim_mem c s1 signers (forged 1)) = Ok /\
    snd (deliver_claim_mem c s2 signers (forged 2)) = Ok /\
    last_obs s0 = 0 /\ last_obs s3 = 1 /\
    vlog s3 = [(0, 1); (1, 1); (2, 1)].
Proof.
  exists cfg0, h_three, [300]. cbv zeta. split.
  - intros b o G [E|[]]. subst b. vm_compute in G. discriminate.
  - vm_compute. repeat split; reflexivity.
Qed.

(* ------------------------------------------------------------------ *)
(* non-vacuity: competing claims, a later nonce gathering votes first, deferred execution *)
(* ------------------------------------------------------------------ *)
Definition h_example : list op :=
  [GovSet [0; 1; 2];
   Bond 0 0 0 (fx 30000); Bond 1 1 1 (fx 30000); Bond 2 2 2 (fx 30000);
   Vote 0 1 1 false []; Vote 1 1 1 false [];      (* nonce 1 decided by 0 and 1 *)
   Vote 0 2 2 true []; Vote 1 2 3 true [];        (* nonce 2: two competing claims *)
   Vote 0 3 4 true []; Vote 1 3 4 true [];        (* nonce 3 has 2/3 of the power while 2 is undecided *)
   Vote 2 1 1 false [];                           (* late vote on the observed attestation of nonce 1 *)
   Vote 2 2 2 true [];                            (* decides nonce 2 for class 2 *)
   Vote 2 3 4 true [];                            (* only now nonce 3 takes effect *)
   Vote 2 3 4 true [];                            (* refused: not contiguous *)
   Exec 3 true; Exec 3 true; Exec 2 false; Exec 2 true; Exec 7 true].

Theorem example_history :
  guarded cfg0 safe_unbond init h_example /\
  let s := run cfg0 init h_example in
  applied s = [(1, 1); (2, 2); (3, 4)] /\ last_obs s = 3 /\ effects s = [3; 2] /\ pending s = [] /\
  vlog s = [(0, 1); (1, 1); (0, 2); (1, 2); (0, 3); (1, 3); (2, 1); (2, 2); (2, 3)] /\
  last_total s = 900 /\ online_power (oracles s) = 900 /\
  (exists a, aget keq (2, 3) (atts s) = Some a /\ a_obs a = false /\ a_votes a = [1]).
Proof.
  split; [cbn; tauto|]. vm_compute. repeat split; try reflexivity. eexists. repeat split; reflexivity.
Qed.

(* ------------------------------------------------------------------ *)
(* the end blocker's slashing phase (M_EndBlock.slashing) inside this model *)
(* ------------------------------------------------------------------ *)
(* relation between the oracle list before and after (part of) the slashing phase: same ids, nobody comes online,
   start heights untouched *)
Definition eb_rel (l l' : list EB.oracle) : Prop :=
  forall j, match eb_find j l, eb_find j l' with
            | Some x, Some x' => (EB.o_online x' = true -> EB.o_online x = true /\ EB.o_slash_times x' = EB.o_slash_times x)
                                 /\ EB.o_start x' = EB.o_start x
            | None, None => True
            | _, _ => False
            end.
Definition eb_off (id : Z) (l : list EB.oracle) : Prop :=
  exists o, eb_find id l = Some o /\ EB.o_online o = false.

Lemma eb_rel_refl : forall l, eb_rel l l.
Proof. intros l j. destruct (eb_find j l); auto. Qed.

Lemma eb_rel_trans : forall a b c, eb_rel a b -> eb_rel b c -> eb_rel a c.
Proof.
  intros a b c H1 H2 j. specialize (H1 j). specialize (H2 j).
  destruct (eb_find j a), (eb_find j b), (eb_find j c); try tauto.
  destruct H1 as [A1 B1], H2 as [A2 B2]. split; [|congruence].
  intro O. destruct (A2 O) as [O2 T2]. destruct (A1 O2) as [O1 T1]. split; [auto | congruence].
Qed.

Lemma eb_off_rel : forall id l l', eb_rel l l' -> eb_off id l -> eb_off id l'.
Proof.
  intros id l l' R [o [F O]]. specialize (R id). rewrite F in R.
  destruct (eb_find id l') as [o'|] eqn:F'; [|contradiction].
  exists o'. split; auto. destruct R as [R _]. destruct (EB.o_online o'); auto. destruct (R eq_refl) as [R1 _].
  rewrite R1 in O. discriminate.
Qed.

Lemma slash_in_spec : forall id h l l' b, EB.slash_in id h l = Some (l', b) -> eb_rel l l' /\ eb_off id l'.
Proof.
  intros id h l. induction l as [|o r IH]; cbn [EB.slash_in]; intros l' b H; [discriminate|].
  destruct (EB.o_id o =? id) eqn:E.
  - destruct (EB.o_online o) eqn:On; inversion H; subst; clear H.
    + split.
      * intro j. cbn [eb_find EB.o_id]. destruct (EB.o_id o =? j) eqn:Ej.
        -- cbn. split; [discriminate | reflexivity].
        -- destruct (eb_find j r); auto.
      * eexists. cbn [eb_find EB.o_id]. rewrite E. split; reflexivity.
    + split; [apply eb_rel_refl|]. exists o. cbn [eb_find]. rewrite E. auto.
  - destruct (EB.slash_in id h r) as [[r' b']|] eqn:S; [|discriminate]. inversion H; subst; clear H.
    destruct (IH _ _ eq_refl) as [R O]. split.
    + intro j. cbn [eb_find]. destruct (EB.o_id o =? j); [auto | apply R].
    + destruct O as [o' [F O']]. exists o'. cbn [eb_find]. rewrite E. auto.
Qed.

Lemma slash_oracle_spec : forall id h s s', EB.slash_oracle EB.ArgOracleAddress id h s = EB.Ok s' ->
  eb_rel (fst s) (fst s') /\ eb_off id (fst s').
Proof.
  intros id h s s' H. unfold EB.slash_oracle in H.
  destruct (EB.slash_in id h (fst s)) as [[l' b]|] eqn:S; [|discriminate].
  destruct (slash_in_spec _ _ _ _ _ S). destruct b; inversion H; subst; cbn [fst]; auto.
Qed.

Definition must_confirm (x : EB.obj) (o : EB.oracle) : Prop :=
  (EB.ob_height x <? EB.o_start o) = false /\ EB.memZ (EB.o_id o) (EB.ob_confirms x) = false.

Lemma slash_missing_spec : forall h x snap s sl s' sl',
  EB.slash_missing EB.ArgOracleAddress h x snap s sl = EB.Ok (s', sl') ->
  eb_rel (fst s) (fst s') /\ (sl = true -> sl' = true) /\
  (forall o, In o snap -> must_confirm x o -> eb_off (EB.o_id o) (fst s') /\ sl' = true).
Proof.
  intros h x snap. induction snap as [|o r IH]; cbn [EB.slash_missing]; intros s sl s' sl' H.
  - inversion H; subst. split; [apply eb_rel_refl|]. split; auto. intros o [].
  - destruct (EB.ob_height x <? EB.o_start o) eqn:E1.
    + destruct (IH _ _ _ _ H) as [R [F A]]. split; auto. split; auto.
      intros o' [D|D] [M1 M2]; [subst; congruence | apply A; [auto | split; auto]].
    + destruct (EB.memZ (EB.o_id o) (EB.ob_confirms x)) eqn:E2.
      * destruct (IH _ _ _ _ H) as [R [F A]]. split; auto. split; auto.
        intros o' [D|D] [M1 M2]; [subst; congruence | apply A; [auto | split; auto]].
      * destruct (EB.slash_oracle EB.ArgOracleAddress (EB.o_id o) h s) as [s1|] eqn:S; [|discriminate].
        destruct (slash_oracle_spec _ _ _ _ S) as [R1 O1].
        destruct (IH _ _ _ _ H) as [R [F A]]. split; [eapply eb_rel_trans; eauto|]. split; [intros _; apply F; reflexivity|].
        intros o' [D|D] M.
        -- subst o'. split; [eapply eb_off_rel; eauto | apply F; reflexivity].
        -- apply A; auto.
Qed.

Lemma slash_objs_spec : forall h xs snap s cur sl s' cur' sl',
  EB.slash_objs EB.ArgOracleAddress h xs snap s cur sl = EB.Ok (s', cur', sl') ->
  eb_rel (fst s) (fst s') /\ (sl = true -> sl' = true) /\
  (forall x o, In x xs -> In o snap -> must_confirm x o -> eb_off (EB.o_id o) (fst s') /\ sl' = true).
Proof.
  intros h xs. induction xs as [|x r IH]; cbn [EB.slash_objs]; intros snap s cur sl s' cur' sl' H.
  - inversion H; subst. split; [apply eb_rel_refl|]. split; auto. intros x o [].
  - destruct (EB.slash_missing EB.ArgOracleAddress h x snap s sl) as [[s1 sl1]|] eqn:S; [|discriminate].
    destruct (slash_missing_spec _ _ _ _ _ _ _ S) as [R1 [F1 A1]].
    destruct (IH _ _ _ _ _ _ _ H) as [R [F A]].
    split; [eapply eb_rel_trans; eauto|]. split; [auto|].
    intros x' o [D|D] Ho M.
    + subst x'. destruct (A1 o Ho M) as [O T]. split; [eapply eb_off_rel; eauto | auto].
    + eapply A; eauto.
Qed.

(* Keeper.slashing: every online oracle that had to confirm one of the selected objects and did not is offline
   afterwards, the "something was slashed" flag is up, nobody came online *)
Lemma slashing_spec : forall xs h r,
  EB.slashing slash_args0 xs h = EB.Ok r ->
  eb_rel (EB.oracles xs) (EB.r_oracles r) /\
  (EB.window xs < h ->
   forall x o, In x (EB.unslashed_osets xs h) \/ In x (EB.unslashed_batches xs h) \/ In x (EB.unslashed_bcalls xs h) ->
               In o (filter EB.o_online (EB.oracles xs)) -> must_confirm x o ->
               eb_off (EB.o_id o) (EB.r_oracles r) /\ EB.r_any r = true).
Proof.
  intros xs h r H. unfold EB.slashing in H. destruct (h <=? EB.window xs) eqn:W.
  - inversion H; subst; cbn. split; [apply eb_rel_refl|]. intro L. apply Z.leb_le in W. lia.
  - cbn [EB.sa_oracle_set EB.sa_batch EB.sa_bridge_call slash_args0] in H.
    destruct (EB.slash_objs _ h (EB.unslashed_osets xs h) _ _ _ false) as [[[s1 c1] b1]|] eqn:S1; [|discriminate].
    destruct (EB.slash_objs _ h (EB.unslashed_batches xs h) _ s1 _ false) as [[[s2 c2] b2]|] eqn:S2; [|discriminate].
    destruct (EB.slash_objs _ h (EB.unslashed_bcalls xs h) _ s2 _ false) as [[[s3 c3] b3]|] eqn:S3; [|discriminate].
    inversion H; subst; clear H. cbn [EB.r_oracles EB.r_any].
    destruct (slash_objs_spec _ _ _ _ _ _ _ _ _ S1) as [R1 [_ A1]].
    destruct (slash_objs_spec _ _ _ _ _ _ _ _ _ S2) as [R2 [_ A2]].
    destruct (slash_objs_spec _ _ _ _ _ _ _ _ _ S3) as [R3 [_ A3]].
    cbn [fst] in *. split; [eapply eb_rel_trans; [eapply eb_rel_trans|]; eauto|].
    intros _ x o [I|[I|I]] Ho M.
    + destruct (A1 x o I Ho M) as [O T]. subst. split; [|reflexivity].
      apply (eb_off_rel _ (fst s1)); [eapply eb_rel_trans; [exact R2 | exact R3] | exact O].
    + destruct (A2 x o I Ho M) as [O T]. subst. split; [|apply orb_true_iff; left; apply orb_true_iff; right; reflexivity].
      apply (eb_off_rel _ (fst s2)); [exact R3 | exact O].
    + destruct (A3 x o I Ho M) as [O T]. subst. split; [exact O | apply orb_true_iff; right; reflexivity].
Qed.

Lemma eb_find_to_eb : forall j (os : list (Z * oracle)),
  eb_find j (map to_eb os) = match aget Z.eqb j os with Some r => Some (to_eb (j, r)) | None => None end.
Proof.
  intros j os. induction os as [|[k r] l IH]; cbn [map eb_find aget]; auto.
  unfold to_eb at 1. cbn [EB.o_id fst]. rewrite Z.eqb_sym. destruct (j =? k) eqn:E; auto.
  apply Z.eqb_eq in E. subst. reflexivity.
Qed.

(* what a (successful) end-block step does to the oracle records, the total and the end-blocker inputs *)
Theorem end_block_effect : forall s newset s',
  end_block s newset = (s', Ok) ->
  frame_all s s' /\ e_height (eb s') = e_height (eb s) + 1 /\
  (* nobody comes online, stakes / bridgers are untouched, no record appears or disappears *)
  (forall o, match aget Z.eqb o (oracles s), aget Z.eqb o (oracles s') with
             | Some r, Some r' => o_stake r' = o_stake r /\ o_bridger r' = o_bridger r /\ o_ext r' = o_ext r /\
                                  (o_online r' = true -> o_online r = true /\ o_slash r' = o_slash r)
             | None, None => True
             | _, _ => False
             end) /\
  (* the total is either untouched together with the records, or freshly recomputed *)
  ((oracles s' = oracles s /\ last_total s' = last_total s) \/ last_total s' = online_power (oracles s')).
Proof.
  intros s newset s' H. pose proof (end_block_core s newset) as Fr. rewrite H in Fr. cbn [fst] in Fr.
  split; [exact Fr|]. unfold end_block in H.
  destruct (EB.slashing slash_args0 (xstate_of s) (e_height (eb s))) as [r|] eqn:S; [|discriminate].
  inversion H; subst; clear H. prj. cbn [e_height]. split; [reflexivity|].
  destruct (slashing_spec _ _ _ S) as [R _]. split.
  - intro o. destruct (EB.r_any r).
    + unfold apply_slash.
      rewrite (aget_map_val Z.eqb zeqb_spec
                 (fun p => match eb_find (fst p) (EB.r_oracles r) with Some x => slashed_rec (snd p) x | None => snd p end)).
      destruct (aget Z.eqb o (oracles s)) as [r0|] eqn:G; auto. cbn [fst snd].
      specialize (R o). cbn [xstate_of EB.oracles] in R. rewrite eb_find_to_eb, G in R.
      destruct (eb_find o (EB.r_oracles r)) as [x|] eqn:F; [|contradiction].
      cbn [slashed_rec o_stake o_bridger o_ext o_online o_slash]. repeat split; auto;
        destruct R as [R _]; apply R in H; cbn in H; tauto.
    + destruct (aget Z.eqb o (oracles s)); auto.
  - destruct (EB.r_any r), newset; auto.
Qed.

Lemma memZ_notin : forall x l, ~ In x l -> EB.memZ x l = false.
Proof.
  intros x l H. unfold EB.memZ. destruct (existsb (Z.eqb x) l) eqn:E; auto.
  apply existsb_exists in E. destruct E as [y [I E]]. apply Z.eqb_eq in E. subst. contradiction.
Qed.

(* the objects the slashing phase of this block looks at (converted confirm sets: oracle ids) *)
Definition due_objects (s : st) (x : EB.obj) : Prop :=
  let xs := xstate_of s in let h := e_height (eb s) in
  In x (EB.unslashed_osets xs h) \/ In x (EB.unslashed_batches xs h) \/ In x (EB.unslashed_bcalls xs h).

(* a real end-block step takes every online oracle offline that had to confirm a due object (it was started no later
   than the object's height) and did not; the recorded total is recomputed in the same step *)
Theorem end_block_slashes_nonconfirmers : forall s newset s' x o rec,
  end_block s newset = (s', Ok) ->
  e_window (eb s) < e_height (eb s) ->
  due_objects s x ->
  aget Z.eqb o (oracles s) = Some rec -> o_online rec = true ->
  o_start rec <= EB.ob_height x -> ~ In o (EB.ob_confirms x) ->
  (exists rec', aget Z.eqb o (oracles s') = Some rec' /\ o_online rec' = false /\ o_stake rec' = o_stake rec) /\
  last_total s' = online_power (oracles s').
Proof.
  intros s newset s' x o rec H W D G On St NC. unfold end_block in H.
  destruct (EB.slashing slash_args0 (xstate_of s) (e_height (eb s))) as [r|] eqn:S; [|discriminate].
  destruct (slashing_spec _ _ _ S) as [_ A].
  assert (Ho : In (to_eb (o, rec)) (filter EB.o_online (EB.oracles (xstate_of s)))).
  { apply filter_In. split; [|exact On]. cbn [xstate_of EB.oracles]. apply in_map. apply (aget_In Z.eqb zeqb_spec). exact G. }
  assert (M : must_confirm x (to_eb (o, rec))).
  { split; cbn [to_eb EB.o_start EB.o_id fst snd]; [apply Z.ltb_ge; exact St | apply memZ_notin; exact NC]. }
  destruct (A W x (to_eb (o, rec)) D Ho M) as [[x' [F Off]] Any]. cbn [to_eb EB.o_id fst] in F.
  inversion H; subst; clear H. prj. rewrite Any. split.
  - unfold apply_slash.
    rewrite (aget_map_val Z.eqb zeqb_spec
               (fun p => match eb_find (fst p) (EB.r_oracles r) with Some y => slashed_rec (snd p) y | None => snd p end)), G.
    cbn [fst snd]. rewrite F. eexists. split; [reflexivity|]. cbn. auto.
  - destruct newset; reflexivity.
Qed.

(* consequence with the admission theorem: such an oracle's claims are refused from the next block on
   (until it pays its slash amount through AddDelegate) *)
Theorem slashed_oracle_cannot_vote : forall c s newset s' x o rec b n cl park ms,
  end_block s newset = (s', Ok) ->
  e_window (eb s) < e_height (eb s) -> due_objects s x ->
  aget Z.eqb o (oracles s) = Some rec -> o_online rec = true ->
  o_start rec <= EB.ob_height x -> ~ In o (EB.ob_confirms x) ->
  aget Z.eqb b (by_bridger s') = Some o ->
  snd (vote c s' b n cl park ms) <> Ok.
Proof.
  intros c s newset s' x o rec b n cl park ms H W D G On St NC Hb V.
  destruct (end_block_slashes_nonconfirmers _ _ _ _ _ _ H W D G On St NC) as [[rec' [G' [Off _]]] _].
  destruct (vote_accept_online _ _ _ _ _ _ _ V) as [o2 [r2 [B2 [O2 [On2 _]]]]].
  rewrite Hb in B2. inversion B2; subst. rewrite G' in O2. inversion O2; subst. congruence.
Qed.

(* non-vacuity of the end-block theorems: signed window 2; oracle set 1 is created at height 1 and confirmed by
   oracles 0 and 1 only (a repeated and a stray confirmation are refused); the end blocker of height 4 takes
   oracle 2 offline and recomputes the total; oracle 2's next claim is refused, oracle 1's is accepted *)
Definition h_endblock : list op :=
  [GovSet [0; 1; 2]; Bond 0 0 0 (fx 20000); Bond 1 1 1 (fx 20000); Bond 2 2 2 (fx 30000);
   SetWindow 2; EndBlock true; Confirm 0 1 0; Confirm 0 1 1; Confirm 0 1 1; Confirm 0 7 2;
   EndBlock false; EndBlock false; EndBlock true].

Theorem example_endblock :
  let s := run cfg0 init h_endblock in
  map (fun p => (fst p, o_online (snd p), o_slash (snd p))) (oracles s) = [(2, false, 1); (1, true, 0); (0, true, 0)] /\
  last_total s = 400 /\ online_power (oracles s) = 400 /\ e_last_oset (eb s) = 1 /\ e_height (eb s) = 5 /\
  map EB.ob_key (e_osets (eb s)) = [1; 2] /\
  snd (step cfg0 s (Vote 2 1 1 true [])) = Err E_Offline /\ snd (step cfg0 s (Vote 1 1 1 true [])) = Ok.
Proof. vm_compute. repeat split; reflexivity. Qed.

(* the code as it is (cursor kept on unbond, no cursor lift): consecutive nonces for every history that does not
   restart the chain from an exported genesis (InitGenesis rebuilds the cursors from the stored votes and thereby
   lifts an oracle that lags behind lastObserved-1 — by design, see the comment in genesis.go) *)
Theorem votes_contiguous_fixed : forall c h w,
  c_unbond_del c = false -> c_cursor_clamp c = false ->
  guarded c no_restart init h ->
  consec (nonces_of w (vlog (run c init h))) /\ NoDup (nonces_of w (vlog (run c init h))).
Proof.
  intros c h w F1 F2 G. apply votes_contiguous; auto.
  eapply guarded_weaken; [|exact G]. intros s x NR. split; [left; exact F1 | exact NR].
Qed.

(* ------------------------------------------------------------------ *)
(* C02: the bar in terms of STAKE (power = stake / 10^20, truncated, per oracle) *)
(* ------------------------------------------------------------------ *)
Definition U : Z := power_reduction.

Lemma power_stake_bounds : forall o, 0 <= o_stake o -> power o * U <= o_stake o < (power o + 1) * U.
Proof.
  intros o H. unfold power, U, power_reduction.
  pose proof (Z.quot_rem' (o_stake o) 100000000000000000000) as Q.
  pose proof (Z.rem_bound_pos (o_stake o) 100000000000000000000 H ltac:(lia)). lia.
Qed.

Definition ostake (o : oracle) : Z := if o_online o then o_stake o else 0.
Fixpoint online_stake (l : list (Z * oracle)) : Z :=
  match l with [] => 0 | (_, o) :: r => ostake o + online_stake r end.
Fixpoint online_count (l : list (Z * oracle)) : Z :=
  match l with [] => 0 | (_, o) :: r => (if o_online o then 1 else 0) + online_count r end.
Definition vstake (os : list (Z * oracle)) (v : Z) : Z :=
  match aget Z.eqb v os with Some o => o_stake o | None => 0 end.
Definition vote_stake (os : list (Z * oracle)) (votes : list Z) : Z :=
  fold_right (fun v acc => vstake os v + acc) 0 votes.

Lemma online_stake_le : forall l, stakes_ok l -> online_stake l <= (online_power l + online_count l) * U /\ 0 <= online_count l.
Proof.
  induction l as [|[k o] r IH]; intro S; [cbn; lia|].
  assert (Sr : stakes_ok r) by (intros k2 o2 H2; apply (S k2); right; exact H2).
  assert (So : 0 <= o_stake o) by (apply (S k); left; reflexivity).
  destruct (IH Sr) as [I1 I2]. pose proof (power_stake_bounds o So) as B.
  cbn [online_stake online_count]. rewrite online_power_cons. unfold ostake, opow.
  destruct (o_online o); split; nia.
Qed.

Lemma vote_power_le_stake : forall os votes, stakes_ok os -> vote_power os votes * U <= vote_stake os votes.
Proof.
  intros os votes S. induction votes as [|v r IH]; [cbn; lia|].
  change (vote_power os (v :: r)) with (vpower os v + vote_power os r).
  change (vote_stake os (v :: r)) with (vstake os v + vote_stake os r).
  assert (vpower os v * U <= vstake os v).
  { unfold vpower, vstake. destruct (aget Z.eqb v os) as [o|] eqn:G; [|lia].
    apply power_stake_bounds. apply (S v). apply (aget_In Z.eqb zeqb_spec). exact G. }
  nia.
Qed.

(* whenever a vote makes an event take effect: 66 % of the stake of the online oracles is covered by the stake of the
   counted voters up to (99 + 66 * number of online oracles) power units — the recorded total is in truncated
   per-oracle units and at least the online oracles' power *)
Theorem quorum_in_stake : forall c h b n cl park ms,
  0 <= c_threshold c ->
  let s := run c init h in
  let s' := fst (vote c s b n cl park ms) in
  last_obs s' <> last_obs s ->
  exists a, aget keq (n, cl) (atts s') = Some a /\ a_obs a = true /\
            66 * online_stake (oracles s) <=
            100 * vote_stake (oracles s) (a_votes a) + (99 + 66 * online_count (oracles s)) * U.
Proof.
  intros c h b n cl park ms Hc s s' H.
  destruct (quorum_at_flip c h b n cl park ms Hc H) as [a [Ga [Oa Q]]].
  destruct (inv_total_reach c h Hc) as [N [S T]]. fold s in N, S, T, Q.
  exists a. repeat split; auto.
  destruct (online_stake_le _ S) as [L1 L2]. pose proof (vote_power_le_stake (oracles s) (a_votes a) S) as L3.
  assert (0 < U) by (unfold U, power_reduction; lia). nia.
Qed.

(* exact per-oracle statement used by the harness' boundary stream: an oracle at the delegate bounds *)
Theorem power_at_bounds :
  power {| o_stake := fx 10000; o_online := true; o_bridger := 0; o_ext := 0; o_slash := 0; o_start := 0; o_deleg := true; o_unb := false |} = 100 /\
  power {| o_stake := fx 100000; o_online := true; o_bridger := 0; o_ext := 0; o_slash := 0; o_start := 0; o_deleg := true; o_unb := false |} = 1000 /\
  power {| o_stake := fx 10099; o_online := true; o_bridger := 0; o_ext := 0; o_slash := 0; o_start := 0; o_deleg := true; o_unb := false |} = 100 /\
  power {| o_stake := fx 99999; o_online := true; o_bridger := 0; o_ext := 0; o_slash := 0; o_start := 0; o_deleg := true; o_unb := false |} = 999.
Proof. vm_compute. repeat split; reflexivity. Qed.

(* ------------------------------------------------------------------ *)
(* genesis export + import                                              *)
(* ------------------------------------------------------------------ *)
Theorem export_import_effect : forall c s,
  let s' := export_import c s in
  last_obs s' = last_obs s /\ atts s' = atts s /\ applied s' = applied s /\ effects s' = effects s /\
  vlog s' = vlog s /\ oracles s' = oracles s /\ proposal s' = proposal s /\
  pending s' = [] /\                                         (* parked claims are not exported: zero executions *)
  last_total s' = online_power (oracles s') /\               (* recomputed after the records are written *)
  (forall k a v, aget keq k (atts s) = Some a -> In v (a_votes a) -> fst k <= cursor c s' v).
Proof.
  intros c s. cbv zeta. unfold export_import. prj. repeat split; auto.
  intros k a v G Hv. unfold cursor. prj. unfold rebuild_cursors.
  destruct (rebuild_cursors_spec c (last_obs s) (atts s) []) as [_ C].
  eapply C; [apply (aget_In keq keq_spec); exact G | exact Hv].
Qed.

Definition cfg1 : cfg := {| c_threshold := fx 10000; c_multiple := 10; c_slashfrac := 800000000000000000;
                            c_unbond_del := false; c_cursor_clamp := false |}.
Definition h_export : list op :=
  [GovSet [0; 1; 2]; Bond 0 0 0 (fx 30000); Bond 1 1 1 (fx 30000); Bond 2 2 2 (fx 15000);
   Vote 0 1 1 true []; Vote 1 1 1 true [];        (* event 1 observed and parked *)
   Vote 0 2 2 true []; Vote 1 2 2 true [];        (* event 2 observed and parked *)
   Exec 1 true;                                   (* 1 executed, 2 stays parked *)
   Vote 0 3 3 true [];                            (* oracle 0 is ahead; oracle 2 never voted *)
   ExportImport].

Theorem example_export :
  let s := run cfg1 init h_export in
  last_obs s = 2 /\ pending s = [] /\ effects s = [1] /\ last_total s = 750 /\
  snd (step cfg1 s (Exec 1 true)) = Err E_NoClaim /\      (* the executed claim does not come back *)
  snd (step cfg1 s (Exec 2 true)) = Err E_NoClaim /\      (* the parked one is lost (known gap C05-2): zero executions *)
  snd (step cfg1 s (Vote 0 3 3 true [])) = Err E_NonContig /\   (* no second vote *)
  snd (step cfg1 s (Vote 0 4 4 true [])) = Ok /\
  snd (step cfg1 s (Vote 1 3 3 true [])) = Ok /\
  snd (step cfg1 s (Vote 2 2 2 true [])) = Ok.            (* a lagging oracle restarts at lastObserved-1, like a new one *)
Proof. vm_compute. repeat split; reflexivity. Qed.
