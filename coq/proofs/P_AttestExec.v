(* P_AttestExec — the executed claim is the threshold-crossing voter's object; every vote tallied
   in the same attestation has the same (nonce, hash pre-image); hence, if equal pre-images force
   equal payloads, the executed payload is the payload every voter of that attestation voted for.
   Over all vote histories (induction over [run]). *)
From Coq Require Import ZArith Bool String List Lia.
From FxV Require Import model.M_ClaimHash proofs.P_ClaimHash model.M_AttestExec.
Import ListNotations.
Open Scope Z_scope.

Lemma nodup_snoc : forall (l : list Z) x, NoDup l -> ~ In x l -> NoDup (l ++ [x]).
Proof.
  induction l as [|a l IH]; intros x H N; cbn [app].
  - constructor; [intros []|constructor].
  - inversion H; subst. constructor.
    + intros Hi. apply in_app_or in Hi as [Hi|[Hi|[]]]; [contradiction|]. subst. apply N. left. reflexivity.
    + apply IH; [assumption|]. intros Hi. apply N. right. exact Hi.
Qed.

Section AttestProofs.
  Variable C : Type.
  Variable nonce : C -> Z.
  Variable key : C -> bytes.
  Variable power : Z -> Z.
  Variable required : Z.

  Notation att := (att C).
  Notation state := (state C).
  Notation vote := (vote C nonce key power required).
  Notation run := (run C nonce key power required).

  (* every vote recorded in an attestation was cast with a claim of that nonce and pre-image *)
  Definition att_ok (a : att) : Prop :=
    forall o c, In (o, c) (a_votes C a) -> nonce c = a_nonce C a /\ key c = a_key C a.
  Definition inv (st : state) : Prop := forall a, In a (atts C st) -> att_ok a.

  Lemma same_eq : forall n k a, same C n k a = true -> a_nonce C a = n /\ a_key C a = k.
  Proof.
    unfold same. intros n k a H. apply andb_prop in H as [H1 H2].
    apply Z.eqb_eq in H1. apply bytes_eqb_eq in H2. auto.
  Qed.

  Lemma put_in : forall a l x, In x (put C a l) -> x = a \/ In x l.
  Proof.
    induction l as [|b r IH]; cbn [put]; intros x H.
    - destruct H as [H|[]]; auto.
    - destruct (same C (a_nonce C a) (a_key C a) b).
      + destruct H as [H|H]; [left; auto|right; right; exact H].
      + destruct H as [H|H]; [right; left; exact H|].
        destruct (IH _ H); [left; auto|right; right; auto].
  Qed.

  Lemma in_put : forall a l, In a (put C a l).
  Proof.
    induction l as [|b r IH]; cbn [put]; [left; reflexivity|].
    destruct (same C (a_nonce C a) (a_key C a) b); [left; reflexivity|right; exact IH].
  Qed.

  Lemma init_inv : inv (init C).
  Proof. intros a []. Qed.

  (* the attestation the vote lands in *)
  Definition landed (st : state) (c : C) : att :=
    match find (same C (nonce c) (key c)) (atts C st) with
    | Some a => a
    | None => mkAtt C (nonce c) (key c) c [] false
    end.

  Lemma landed_ok : forall st c, inv st -> att_ok (landed st c) /\
     a_nonce C (landed st c) = nonce c /\ a_key C (landed st c) = key c.
  Proof.
    intros st c I. unfold landed. destruct (find _ _) as [a|] eqn:F.
    - apply find_some in F as [Fi Fs]. apply same_eq in Fs. split; [apply I; exact Fi|exact Fs].
    - split; [intros o c' []|split; reflexivity].
  Qed.

  Lemma vote_inv : forall st o c, inv st -> inv (fst (vote st o c)).
  Proof.
    intros st o c I. unfold M_AttestExec.vote.
    destruct (negb (nonce c =? last_nonce C st o + 1)); [exact I|].
    fold (landed st c). destruct (landed_ok st c I) as (A & N & K).
    cbn [fst atts]. intros a Ha. apply put_in in Ha as [->|Ha]; [|apply I; exact Ha].
    intros o' c' Hv. cbn [a_votes a_nonce a_key] in *.
    apply in_app_or in Hv as [Hv|[Hv|[]]].
    - exact (A _ _ Hv).
    - injection Hv as -> ->. auto.
  Qed.

  Lemma run_inv : forall ops st, inv st -> inv (fst (run st ops)).
  Proof.
    induction ops as [|[o c] r IH]; intros st I; cbn [M_AttestExec.run]; [exact I|].
    pose proof (vote_inv st o c I) as I1. destruct (vote st o c) as [st1 out].
    specialize (IH st1 I1). destruct (run st1 r) as [st2 outs]. exact IH.
  Qed.

  (* C03, schedule part: whatever is executed is the current voter's own object, it lands in an
     observed attestation of the new state that contains this vote, and every vote tallied there
     has the same nonce and the same hash pre-image *)
  Theorem executed_is_current_voter : forall st o c st' e,
    inv st -> vote st o c = (st', Executed e) ->
    e = c /\
    exists a, In a (atts C st') /\ a_observed C a = true /\ In (o, c) (a_votes C a) /\
              a_claim C a = a_claim C (landed st c) /\
              forall o' c', In (o', c') (a_votes C a) -> nonce c' = nonce e /\ key c' = key e.
  Proof.
    intros st o c st' e I H. unfold M_AttestExec.vote in H.
    destruct (negb (nonce c =? last_nonce C st o + 1)); [discriminate H|].
    fold (landed st c) in H. destruct (landed_ok st c I) as (A & N & K).
    set (vs := a_votes C (landed st c) ++ [(o, c)]) in *.
    destruct (negb (a_observed C (landed st c)) && (nonce c =? last_observed C st + 1) && tally C power required 0 vs) eqn:F;
      [|discriminate H].
    injection H as <- <-. split; [reflexivity|].
    eexists. split; [apply in_put|]. cbn [a_observed a_votes a_claim].
    repeat split.
    - apply orb_true_r.
    - unfold vs. apply in_or_app. right. left. reflexivity.
    - unfold vs in H. apply in_app_or in H as [H|[H|[]]].
      + rewrite <- N. apply (A _ _) in H. tauto.
      + injection H as _ ->. reflexivity.
    - unfold vs in H. apply in_app_or in H as [H|[H|[]]].
      + rewrite <- K. apply (A _ _) in H. tauto.
      + injection H as _ ->. reflexivity.
  Qed.

  (* ... along every history from the initial state *)
  Theorem executed_along_history : forall ops o c st' e,
    vote (fst (run (init C) ops)) o c = (st', Executed e) ->
    e = c /\
    exists a, In a (atts C st') /\ a_observed C a = true /\ In (o, c) (a_votes C a) /\
              forall o' c', In (o', c') (a_votes C a) -> nonce c' = nonce e /\ key c' = key e.
  Proof.
    intros ops o c st' e H.
    destruct (executed_is_current_voter _ o c st' e (run_inv ops _ init_inv) H) as (E & a & H1 & H2 & H3 & _ & H5).
    split; [exact E|]. exists a. auto.
  Qed.

  (* ---------- the executed object is backed by a quorum of DISTINCT oracles, for every interleaving of votes
     over any number of event nonces (votes for n+1 may arrive, and reach quorum power, before n is observed) ---------- *)

  Definition sum_power (vs : list (Z * C)) : Z := fold_right (fun oc acc => power (fst oc) + acc) 0 vs.

  Lemma sum_power_nonneg : (forall o, 0 <= power o) -> forall vs, 0 <= sum_power vs.
  Proof.
    intros P. induction vs as [|[o c] r IH]; cbn [sum_power fold_right fst]; [lia|].
    fold (sum_power r). specialize (P o). lia.
  Qed.

  Lemma tally_sum : (forall o, 0 <= power o) ->
    forall vs acc, tally C power required acc vs = true -> required <= acc + sum_power vs.
  Proof.
    intros P. induction vs as [|[o c] r IH]; intros acc H; cbn [tally] in H; [discriminate H|].
    cbn [sum_power fold_right fst]. fold (sum_power r).
    destruct (acc + power o <? required) eqn:E.
    - apply IH in H. lia.
    - apply Z.ltb_ge in E. pose proof (sum_power_nonneg P r). lia.
  Qed.

  (* every recorded voter has a cursor at or beyond the nonce of the attestation it voted in *)
  Definition cursor_ok (st : state) : Prop :=
    forall a, In a (atts C st) -> forall o c, In (o, c) (a_votes C a) ->
      exists n, lastof o (last_by C st) = Some n /\ a_nonce C a <= n.
  Definition nodup_ok (st : state) : Prop :=
    forall a, In a (atts C st) -> NoDup (map fst (a_votes C a)).

  Lemma vote_cursor_nodup : forall st o c, inv st -> cursor_ok st -> nodup_ok st ->
    cursor_ok (fst (vote st o c)) /\ nodup_ok (fst (vote st o c)).
  Proof.
    intros st o c I CU ND. unfold M_AttestExec.vote.
    destruct (negb (nonce c =? last_nonce C st o + 1)) eqn:G; [cbn [fst]; split; [exact CU|exact ND]|].
    apply negb_false_iff in G. apply Z.eqb_eq in G.
    fold (landed st c). destruct (landed_ok st c I) as (A & N & K).
    assert (Hland : forall o' c', In (o', c') (a_votes C (landed st c)) ->
                      exists n, lastof o' (last_by C st) = Some n /\ nonce c <= n).
    { intros o' c' Hv. unfold landed in Hv, N. destruct (find _ _) as [a|] eqn:F; [|destruct Hv].
      apply find_some in F as [Fi _]. destruct (CU a Fi o' c' Hv) as (n & L & Le). exists n. split; [exact L|lia]. }
    cbv zeta. cbn [fst atts last_by]. split.
    - intros a Ha o' c' Hv. cbn [last_by lastof]. apply put_in in Ha as [->|Ha].
      + cbn [a_votes a_nonce] in *. apply in_app_or in Hv as [Hv|[Hv|[]]].
        * destruct (Hland o' c' Hv) as (n & L & Le). cbn [lastof]. destruct (o =? o') eqn:E.
          -- exists (nonce c). split; [reflexivity|lia].
          -- exists n. split; [exact L|lia].
        * injection Hv as <- <-. cbn [lastof]. rewrite Z.eqb_refl. exists (nonce c). split; [reflexivity|lia].
      + destruct (CU a Ha o' c' Hv) as (n & L & Le). cbn [lastof]. destruct (o =? o') eqn:E.
        * apply Z.eqb_eq in E. subst o'. exists (nonce c). split; [reflexivity|].
          unfold last_nonce in G. rewrite L in G. lia.
        * exists n. split; assumption.
    - intros a Ha. apply put_in in Ha as [->|Ha]; [|apply ND; exact Ha].
      cbn [a_votes]. rewrite map_app. cbn [map fst].
      assert (NDl : NoDup (map fst (a_votes C (landed st c)))).
      { unfold landed. destruct (find _ _) as [a|] eqn:F; [|constructor].
        apply find_some in F as [Fi _]. apply ND. exact Fi. }
      apply nodup_snoc; [exact NDl|].
      intros Hin. apply in_map_iff in Hin as ([o' c'] & Eo & Hv). cbn [fst] in Eo. subst o'.
      destruct (Hland o c' Hv) as (n & L & Le). unfold last_nonce in G. rewrite L in G. lia.
  Qed.

  Theorem executed_by_quorum : forall ops o c st' e,
    (forall o', 0 <= power o') ->
    vote (fst (run (init C) ops)) o c = (st', Executed e) ->
    e = c /\
    exists a, In a (atts C st') /\ a_observed C a = true /\ In (o, c) (a_votes C a) /\
              (forall o' c', In (o', c') (a_votes C a) -> nonce c' = nonce e /\ key c' = key e) /\
              NoDup (map fst (a_votes C a)) /\ required <= sum_power (a_votes C a).
  Proof.
    intros ops o c st' e P H.
    assert (ALL : inv (fst (run (init C) ops)) /\ cursor_ok (fst (run (init C) ops)) /\ nodup_ok (fst (run (init C) ops))).
    { assert (G : forall ops st, inv st -> cursor_ok st -> nodup_ok st ->
                    inv (fst (run st ops)) /\ cursor_ok (fst (run st ops)) /\ nodup_ok (fst (run st ops))).
      { induction ops0 as [|[o0 c0] r IH]; intros st I CU ND; cbn [M_AttestExec.run]; [auto|].
        pose proof (vote_inv st o0 c0 I) as I1. destruct (vote_cursor_nodup st o0 c0 I CU ND) as [CU1 ND1].
        destruct (vote st o0 c0) as [st1 out]. cbn [fst] in *.
        specialize (IH st1 I1 CU1 ND1). destruct (run st1 r) as [st2 outs]. exact IH. }
      apply G; [apply init_inv|intros a []|intros a []]. }
    destruct ALL as (I & CU & ND).
    remember (fst (run (init C) ops)) as st eqn:Est. clear Est.
    destruct (executed_is_current_voter _ o c st' e I H) as (E & a & H1 & H2 & H3 & _ & H5).
    split; [exact E|]. exists a.
    split; [exact H1|]. split; [exact H2|]. split; [exact H3|]. split; [exact H5|]. split.
    - destruct (vote_cursor_nodup _ o c I CU ND) as [_ ND']. rewrite H in ND'. cbn [fst] in ND'. apply ND'. exact H1.
    - (* the tally that fired ran over exactly the votes stored in [a] *)
      unfold M_AttestExec.vote in H.
      destruct (negb (nonce c =? last_nonce C st o + 1)) eqn:G0; [discriminate H|].
      apply negb_false_iff in G0. apply Z.eqb_eq in G0.
      fold (landed st c) in H.
      destruct (negb (a_observed C (landed st c)) && (nonce c =? last_observed C st + 1)
                && tally C power required 0 (a_votes C (landed st c) ++ [(o, c)])) eqn:F; [|discriminate H].
      apply andb_prop in F as [_ T]. apply (tally_sum P) in T.
      injection H as Hst _. subst st'. cbn [atts] in H1.
      apply put_in in H1 as [->|H1]; [cbn [a_votes]; lia|].
      (* otherwise (o, c) would already have been recorded in an old attestation: impossible by the cursor *)
      exfalso. destruct (CU a H1 o c H3) as (n & L & Le).
      destruct (I a H1 o c H3) as [Na _].
      unfold last_nonce in G0. rewrite L in G0. lia.
  Qed.

  (* with payloads determined by the hash class: the executed payload is everybody's payload *)
  Variable P : Type.
  Variable payload : C -> P.
  Variable valid : C -> Prop.
  Hypothesis key_determines_payload : forall c c', valid c -> valid c' -> key c = key c' -> payload c = payload c'.

  (* all submitted claims passed ValidateBasic *)
  Definition all_valid (ops : list (Z * C)) : Prop := Forall (fun oc => valid (snd oc)) ops.

  Definition votes_valid (st : state) : Prop :=
    forall a, In a (atts C st) -> forall o c, In (o, c) (a_votes C a) -> valid c.

  Lemma vote_valid : forall st o c, inv st -> votes_valid st -> valid c -> votes_valid (fst (vote st o c)).
  Proof.
    intros st o c I V Vc. unfold M_AttestExec.vote.
    destruct (negb (nonce c =? last_nonce C st o + 1)); [exact V|].
    fold (landed st c). cbn [fst atts]. intros a Ha o' c' Hv.
    apply put_in in Ha as [->|Ha]; [|eapply V; eauto].
    cbn [a_votes] in Hv. apply in_app_or in Hv as [Hv|[Hv|[]]].
    - unfold landed in Hv. destruct (find _ _) as [a|] eqn:F; [|destruct Hv].
      apply find_some in F as [Fi _]. eapply V; eauto.
    - injection Hv as _ ->. exact Vc.
  Qed.

  Lemma run_valid : forall ops st, inv st -> votes_valid st -> all_valid ops ->
    inv (fst (run st ops)) /\ votes_valid (fst (run st ops)).
  Proof.
    induction ops as [|[o c] r IH]; intros st I V A; cbn [M_AttestExec.run]; [auto|].
    inversion A as [|x l Vc Ar]; subst. cbn [snd] in Vc.
    pose proof (vote_inv st o c I) as I1. pose proof (vote_valid st o c I V Vc) as V1.
    destruct (vote st o c) as [st1 out]. cbn [fst] in *.
    specialize (IH st1 I1 V1 Ar). destruct (run st1 r) as [st2 outs]. exact IH.
  Qed.

  Theorem executed_is_voted : forall ops o c st' e,
    all_valid ops -> valid c ->
    vote (fst (run (init C) ops)) o c = (st', Executed e) ->
    e = c /\
    exists a, In a (atts C st') /\ a_observed C a = true /\ In (o, c) (a_votes C a) /\
              forall o' c', In (o', c') (a_votes C a) -> payload c' = payload e.
  Proof.
    intros ops o c st' e A Vc H.
    destruct (run_valid ops (init C) init_inv) as [I V]; [intros a []|exact A|].
    destruct (executed_is_current_voter _ o c st' e I H) as (E & a & H1 & H2 & H3 & _ & H5).
    split; [exact E|]. exists a. repeat split; auto.
    intros o' c' Hv. subst e.
    pose proof (vote_valid _ o c I V Vc) as V'. rewrite H in V'. cbn [fst] in V'.
    apply key_determines_payload.
    - eapply V'; eauto.
    - exact Vc.
    - apply H5 in Hv. tauto.
  Qed.
End AttestProofs.

(* ---------- instantiation with the ClaimHash model of one claim type ---------- *)

Definition c_nonce (c : claim) : Z := match get "EventNonce"%string c with VU64 n => n | _ => 0 end.

Theorem executed_is_voted_spec : forall sp power required ops o c st' e,
  injective sp ->
  Forall (fun oc => wf sp (snd oc)) ops -> wf sp c ->
  vote claim c_nonce (preimage sp) power required
       (fst (run claim c_nonce (preimage sp) power required (init claim) ops)) o c = (st', Executed e) ->
  e = c /\
  exists a, In a (atts claim st') /\ a_observed claim a = true /\ In (o, c) (a_votes claim a) /\
            forall o' c', In (o', c') (a_votes claim a) -> relevant sp c' = relevant sp e.
Proof.
  intros sp power required ops o c st' e I A W H.
  apply (executed_is_voted claim c_nonce (preimage sp) power required (list fval) (relevant sp) (wf sp))
    with (ops := ops); auto.
Qed.

(* the converse consequence of a collision: with three equal oracles and a 2-of-3 threshold, the second
   voter has its own variant executed although the first voter voted for a different object *)
Section Collision.
  Variable C : Type.
  Variable nonce : C -> Z.
  Variable key : C -> bytes.
  Variables c1 c2 : C.
  Hypothesis N1 : nonce c1 = 1.
  Hypothesis N2 : nonce c2 = 1.
  Hypothesis K : key c1 = key c2.

  Lemma second_voter_executes :
    run C nonce key (fun _ => 1) 2 (init C) [(1, c1); (2, c2)] =
      (mkSt C [mkAtt C 1 (key c1) c1 [(1, c1); (2, c2)] true] 1 [(2, 1); (1, 1)],
       [Voted; Executed c2]).
  Proof.
    cbn [run]. unfold vote at 1. unfold last_nonce. cbn [init last_by lastof last_observed]. rewrite N1. cbn.
    unfold vote. unfold last_nonce. cbn [last_by lastof last_observed]. rewrite N2. cbn. rewrite <- K, bytes_eqb_refl. cbn.
    rewrite bytes_eqb_refl. reflexivity.
  Qed.
End Collision.

Theorem collision_changes_execution : forall sp c1 c2,
  wf sp c1 -> wf sp c2 -> relevant sp c1 <> relevant sp c2 -> preimage sp c1 = preimage sp c2 ->
  c_nonce c1 = 1 -> c_nonce c2 = 1 ->
  exists st a,
    run claim c_nonce (preimage sp) (fun _ => 1) 2 (init claim) [(1, c1); (2, c2)] = (st, [Voted; Executed c2]) /\
    In a (atts claim st) /\ a_observed claim a = true /\ a_claim claim a = c1 /\
    In (1, c1) (a_votes claim a) /\ In (2, c2) (a_votes claim a) /\
    relevant sp c1 <> relevant sp c2.
Proof.
  intros sp c1 c2 W1 W2 N E N1 N2.
  eexists. eexists. split; [apply second_voter_executes; auto|].
  cbn [atts a_observed a_claim a_votes].
  split; [left; reflexivity|]. split; [reflexivity|]. split; [reflexivity|].
  split; [left; reflexivity|]. split; [right; left; reflexivity|exact N].
Qed.
