(* P_AttestExecDyn — the C03 schedule theorems over histories in which oracle powers and the total power change
   between the votes (model/M_AttestExecDyn.v).  The structural invariants of P_AttestExec (votes of one attestation
   share nonce and pre-image; per-oracle cursor; distinct voters) do not mention powers, so they survive every power
   change; the quorum statement is about the powers and the required power AT THE MOMENT OF THE CROSSING VOTE. *)
From Coq Require Import ZArith Bool String List Lia.
From FxV Require Import model.M_ClaimHash proofs.P_ClaimHash model.M_AttestExec proofs.P_AttestExec
     model.M_AttestExecDyn gen.Gen_ClaimHash proofs.P_ClaimHashX.
Import ListNotations.
Open Scope Z_scope.

Section FromInv.
  Variable C : Type.
  Variable nonce : C -> Z.
  Variable key : C -> bytes.
  Variable power : Z -> Z.
  Variable required : Z.

  (* executed_by_quorum of P_AttestExec, from ANY state satisfying the three invariants *)
  Lemma executed_by_quorum_from : forall st o c st' e,
    (forall o', 0 <= power o') ->
    inv C nonce key st -> cursor_ok C st -> nodup_ok C st ->
    vote C nonce key power required st o c = (st', Executed e) ->
    e = c /\
    exists a, In a (atts C st') /\ a_observed C a = true /\ In (o, c) (a_votes C a) /\
              (forall o' c', In (o', c') (a_votes C a) -> nonce c' = nonce e /\ key c' = key e) /\
              NoDup (map fst (a_votes C a)) /\ required <= sum_power C power (a_votes C a).
  Proof.
    intros st o c st' e P I CU ND H.
    destruct (executed_is_current_voter C nonce key power required st o c st' e I H) as (E & a & H1 & H2 & H3 & _ & H5).
    split; [exact E|]. exists a.
    split; [exact H1|]. split; [exact H2|]. split; [exact H3|]. split; [exact H5|]. split.
    - destruct (vote_cursor_nodup C nonce key power required st o c I CU ND) as [_ ND'].
      rewrite H in ND'. cbn [fst] in ND'. apply ND'. exact H1.
    - unfold vote in H.
      destruct (negb (nonce c =? last_nonce C st o + 1)) eqn:G0; [discriminate H|].
      apply negb_false_iff in G0. apply Z.eqb_eq in G0.
      fold (landed C nonce key st c) in H.
      destruct (negb (a_observed C (landed C nonce key st c)) && (nonce c =? last_observed C st + 1)
                && tally C power required 0 (a_votes C (landed C nonce key st c) ++ [(o, c)])) eqn:F; [|discriminate H].
      apply andb_prop in F as [_ T]. apply (tally_sum C power required P) in T.
      injection H as Hst _. subst st'. cbn [atts] in H1.
      apply put_in in H1 as [->|H1]; [cbn [a_votes]; lia|].
      exfalso. destruct (CU a H1 o c H3) as (n & L & Le).
      destruct (I a H1 o c H3) as [Na _].
      unfold last_nonce in G0. rewrite L in G0. lia.
  Qed.
End FromInv.

Section DynProofs.
  Variable C : Type.
  Variable nonce : C -> Z.
  Variable key : C -> bytes.

  Notation dstep := (dstep C nonce key).
  Notation drun := (drun C nonce key).

  Definition dinv (d : dstate C) : Prop :=
    inv C nonce key (d_core C d) /\ cursor_ok C (d_core C d) /\ nodup_ok C (d_core C d).

  Lemma dinit_inv : dinv (dinit C).
  Proof.
    unfold dinv, dinit. cbn [d_core]. split; [apply init_inv|]. split; intros a [].
  Qed.

  Lemma dstep_inv : forall d op, dinv d -> dinv (fst (dstep d op)).
  Proof.
    intros d op (I & CU & ND). unfold dinv. destruct op as [o c|o p|t]; cbn [M_AttestExecDyn.dstep].
    - pose proof (vote_inv C nonce key (dpower C d) (drequired C d) (d_core C d) o c I) as I1.
      destruct (vote_cursor_nodup C nonce key (dpower C d) (drequired C d) (d_core C d) o c I CU ND) as [CU1 ND1].
      destruct (vote C nonce key (dpower C d) (drequired C d) (d_core C d) o c) as [s out].
      cbn [fst d_core] in *. auto.
    - cbn [fst d_core]. auto.
    - cbn [fst d_core]. auto.
  Qed.

  Lemma drun_inv : forall ops d, dinv d -> dinv (fst (drun d ops)).
  Proof.
    induction ops as [|op r IH]; intros d I; cbn [M_AttestExecDyn.drun]; [exact I|].
    pose proof (dstep_inv d op I) as I1. destruct (dstep d op) as [d1 out]. cbn [fst] in I1.
    specialize (IH d1 I1). destruct (drun d1 r) as [d2 outs]. exact IH.
  Qed.

  (* powers stay non-negative when every power update is *)
  Definition ops_nonneg (ops : list (dop C)) : Prop := forall o p, In (DPower o p) ops -> 0 <= p.
  Definition pow_nonneg (d : dstate C) : Prop := forall o p, In (o, p) (d_pow C d) -> 0 <= p.

  Lemma assoc_nonneg : forall l, (forall o p, In (o, p) l -> 0 <= p) -> forall o, 0 <= assoc o l.
  Proof.
    induction l as [|[q v] r IH]; intros H o; cbn [assoc]; [lia|].
    destruct (q =? o).
    - apply (H q v). left. reflexivity.
    - apply IH. intros o0 p Hi. apply (H o0 p). right. exact Hi.
  Qed.

  Lemma dstep_pow : forall d op, pow_nonneg d -> (forall o p, op = DPower o p -> 0 <= p) ->
    pow_nonneg (fst (dstep d op)).
  Proof.
    intros d op PN Hop. destruct op as [o c|o p|t]; cbn [M_AttestExecDyn.dstep].
    - destruct (vote C nonce key (dpower C d) (drequired C d) (d_core C d) o c) as [s out]. cbn [fst]. exact PN.
    - cbn [fst]. intros o' p' Hi. cbn [d_pow] in Hi. destruct Hi as [Hi|Hi].
      + injection Hi as <- <-. apply (Hop o p). reflexivity.
      + apply (PN o' p'). exact Hi.
    - cbn [fst]. exact PN.
  Qed.

  Lemma drun_pow : forall ops d, pow_nonneg d -> ops_nonneg ops -> pow_nonneg (fst (drun d ops)).
  Proof.
    induction ops as [|op r IH]; intros d PN ON; cbn [M_AttestExecDyn.drun]; [exact PN|].
    assert (P1 : pow_nonneg (fst (dstep d op))).
    { apply dstep_pow; [exact PN|]. intros o p ->. apply (ON o p). left. reflexivity. }
    destruct (dstep d op) as [d1 out]. cbn [fst] in P1.
    assert (ON' : ops_nonneg r) by (intros o p Hi; apply (ON o p); right; exact Hi).
    specialize (IH d1 P1 ON'). destruct (drun d1 r) as [d2 outs]. exact IH.
  Qed.

  (* whatever is executed, after ANY history of votes and power changes, is the current voter's object and sits in an
     attestation whose votes all carry that nonce and pre-image, were cast by pairwise distinct oracles, and whose
     powers AS OF THE CROSSING VOTE sum to at least the required power AS OF THE CROSSING VOTE *)
  Theorem dyn_executed_by_quorum : forall ops o c d' e,
    ops_nonneg ops ->
    dstep (fst (drun (dinit C) ops)) (DVote o c) = (d', Some (Executed e)) ->
    e = c /\
    exists a, In a (atts C (d_core C d')) /\ a_observed C a = true /\ In (o, c) (a_votes C a) /\
              (forall o' c', In (o', c') (a_votes C a) -> nonce c' = nonce e /\ key c' = key e) /\
              NoDup (map fst (a_votes C a)) /\
              drequired C (fst (drun (dinit C) ops))
                <= sum_power C (dpower C (fst (drun (dinit C) ops))) (a_votes C a).
  Proof.
    intros ops o c d' e ON H.
    destruct (drun_inv ops (dinit C) dinit_inv) as (I & CU & ND).
    assert (PN : pow_nonneg (fst (drun (dinit C) ops))) by (apply drun_pow; [intros o' p' []|exact ON]).
    remember (fst (drun (dinit C) ops)) as d eqn:Ed. clear Ed.
    cbn [M_AttestExecDyn.dstep] in H.
    destruct (vote C nonce key (dpower C d) (drequired C d) (d_core C d) o c) as [s out] eqn:V.
    injection H as <- ->. cbn [d_core].
    apply (executed_by_quorum_from C nonce key (dpower C d) (drequired C d) (d_core C d) o c s e); auto.
    intros o'. unfold dpower. apply assoc_nonneg. exact PN.
  Qed.

  (* payload part *)
  Variable P : Type.
  Variable payload : C -> P.
  Variable valid : C -> Prop.
  Hypothesis key_determines_payload : forall c c', valid c -> valid c' -> key c = key c' -> payload c = payload c'.

  Definition dops_valid (ops : list (dop C)) : Prop := forall o c, In (DVote o c) ops -> valid c.

  Lemma dstep_valid : forall d op, dinv d -> votes_valid C valid (d_core C d) ->
    (forall o c, op = DVote o c -> valid c) -> votes_valid C valid (d_core C (fst (dstep d op))).
  Proof.
    intros d op (I & _ & _) V Hop. destruct op as [o c|o p|t]; cbn [M_AttestExecDyn.dstep].
    - pose proof (vote_valid C nonce key (dpower C d) (drequired C d) valid (d_core C d) o c I V (Hop o c eq_refl)) as V1.
      destruct (vote C nonce key (dpower C d) (drequired C d) (d_core C d) o c) as [s out]. cbn [fst d_core] in *. exact V1.
    - cbn [fst d_core]. exact V.
    - cbn [fst d_core]. exact V.
  Qed.

  Lemma drun_valid : forall ops d, dinv d -> votes_valid C valid (d_core C d) -> dops_valid ops ->
    votes_valid C valid (d_core C (fst (drun d ops))).
  Proof.
    induction ops as [|op r IH]; intros d I V A; cbn [M_AttestExecDyn.drun]; [exact V|].
    pose proof (dstep_inv d op I) as I1.
    assert (V1 : votes_valid C valid (d_core C (fst (dstep d op)))).
    { apply dstep_valid; [exact I|exact V|]. intros o c ->. apply (A o c). left. reflexivity. }
    destruct (dstep d op) as [d1 out]. cbn [fst] in I1, V1.
    assert (A' : dops_valid r) by (intros o c Hi; apply (A o c); right; exact Hi).
    specialize (IH d1 I1 V1 A'). destruct (drun d1 r) as [d2 outs]. exact IH.
  Qed.

  Theorem dyn_executed_is_voted : forall ops o c d' e,
    dops_valid ops -> valid c ->
    dstep (fst (drun (dinit C) ops)) (DVote o c) = (d', Some (Executed e)) ->
    e = c /\
    exists a, In a (atts C (d_core C d')) /\ a_observed C a = true /\ In (o, c) (a_votes C a) /\
              forall o' c', In (o', c') (a_votes C a) -> payload c' = payload e.
  Proof.
    intros ops o c d' e A Vc H.
    pose proof (drun_inv ops (dinit C) dinit_inv) as DI.
    assert (V : votes_valid C valid (d_core C (fst (drun (dinit C) ops)))).
    { apply drun_valid; [apply dinit_inv| |exact A]. intros a []. }
    remember (fst (drun (dinit C) ops)) as d eqn:Ed. clear Ed.
    destruct DI as (I & CU & ND).
    cbn [M_AttestExecDyn.dstep] in H.
    destruct (vote C nonce key (dpower C d) (drequired C d) (d_core C d) o c) as [s out] eqn:Vt.
    injection H as <- ->. cbn [d_core].
    destruct (executed_is_current_voter C nonce key _ _ _ o c s e I Vt) as (E & a & H1 & H2 & H3 & _ & H5).
    split; [exact E|]. exists a. split; [exact H1|]. split; [exact H2|]. split; [exact H3|].
    intros o' c' Hv. subst e.
    pose proof (vote_valid C nonce key (dpower C d) (drequired C d) valid (d_core C d) o c I V Vc) as V'.
    rewrite Vt in V'. cbn [fst] in V'.
    apply key_determines_payload.
    - eapply V'; eauto.
    - exact Vc.
    - apply H5 in Hv. tauto.
  Qed.
End DynProofs.

(* ---------- all six claim types in one store, powers changing between the votes ---------- *)
Theorem dyn_executed_is_voted_all_types : forall ops o tc d' e,
  dops_valid tclaim t_valid ops -> t_valid tc ->
  dstep tclaim t_nonce t_key (fst (drun tclaim t_nonce t_key (dinit tclaim) ops)) (DVote o tc) = (d', Some (Executed e)) ->
  e = tc /\
  exists a, In a (atts tclaim (d_core tclaim d')) /\ a_observed tclaim a = true /\ In (o, tc) (a_votes tclaim a) /\
            forall o' tc', In (o', tc') (a_votes tclaim a) -> t_payload tc' = t_payload e.
Proof.
  intros ops o tc d' e A V H.
  exact (dyn_executed_is_voted tclaim t_nonce t_key _ t_payload t_valid key_determines_typed_payload ops o tc d' e A V H).
Qed.

(* ---------- the crossing moment depends on the powers of THAT moment (non-vacuity of the dynamic part) ----------
   three oracles of power 100, total 300 (required 198).  Without a change the second vote executes; if the first
   voter's power drops to 10 between the two votes, the second vote only counts 110 and the third voter's object is
   executed; if instead the second voter's power rises to 200 while LastTotalPower still says 300, the second vote
   executes as before. *)
Definition ex_c : qclaim := (0, 1, 7).
Definition ex_setup : list (@dop qclaim) := [DPower 1 100; DPower 2 100; DPower 3 100; DTotal 300].

Lemma dyn_example :
  snd (drun qclaim q_nonce q_key (dinit qclaim) (ex_setup ++ [DVote 1 ex_c; DVote 2 ex_c; DVote 3 ex_c]))
    = [Voted; Executed ex_c; Voted] /\
  snd (drun qclaim q_nonce q_key (dinit qclaim) (ex_setup ++ [DVote 1 ex_c; DPower 1 10; DVote 2 ex_c; DVote 3 ex_c]))
    = [Voted; Voted; Executed ex_c] /\
  snd (drun qclaim q_nonce q_key (dinit qclaim) (ex_setup ++ [DVote 1 ex_c; DPower 1 10; DTotal 210; DVote 2 ex_c; DVote 3 ex_c]))
    = [Voted; Voted; Executed ex_c] /\
  snd (drun qclaim q_nonce q_key (dinit qclaim) (ex_setup ++ [DVote 1 ex_c; DPower 1 10; DPower 2 200; DVote 2 ex_c; DVote 3 ex_c]))
    = [Voted; Executed ex_c; Voted].
Proof. vm_compute. repeat split; reflexivity. Qed.
