(* P_AttestGen: ties the generated file gen/Gen_Attest.v (written on every run by harness/gen_c01 from the
   fx-core sources) to the hand-written model M_Attest.
   expected_writer_sites is the set of call sites the model transcribes:
     Claim -> Attest -> TryAttestation (SetAttestation, SetLastObservedEventNonce, SetLastEventNonceByOracle),
     AttestationHandler (SavePendingExecuteClaim), pruneAttestations (DeleteAttestation),
     ExecuteClaim (DeletePendingExecuteClaim) reached only from the precompile,
     BondedOracle / AddDelegate / EditBridger / UnbondedOracle / UnbondedOracleFromProposal / SlashOracle
     (SetOracle, DelOracle, bridger index, DelLastEventNonceByOracle),
     SetLastTotalPower in BondedOracle, AddDelegate, slashing, AddOracleSetRequest,
     SlashOracle only from the three slashing passes of the end blocker,
     InitGenesis (initial state; the model starts from the empty state),
     ReDelegate's SetOracle (changes only DelegateValidator, which the model does not carry).
   A writer appearing anywhere else makes gen_matches_model fail. *)
From Coq Require Import ZArith List String.
From FxV Require Import gen.Gen_Attest model.M_Attest.
From FxV Require gen.Gen_EndBlock.
Import ListNotations.
Open Scope Z_scope.
Open Scope string_scope.

Definition expected_writer_sites : list string :=
  ["Attest <- MsgServer.Claim";
   "DelLastEventNonceByOracle <- MsgServer.UnbondedOracle";
   "DelOracle <- MsgServer.UnbondedOracle";
   "DelOracleAddrByBridgerAddr <- MsgServer.EditBridger";
   "DelOracleAddrByBridgerAddr <- MsgServer.UnbondedOracle";
   "DeleteAttestation <- Keeper.pruneAttestations";
   "DeletePendingExecuteClaim <- Keeper.ExecuteClaim";
   "ExecuteClaim <- ExecuteClaimMethod.Run";
   "SavePendingExecuteClaim <- Keeper.AttestationHandler";
   "SetAttestation <- InitGenesis";
   "SetAttestation <- Keeper.Attest";
   "SetAttestation <- Keeper.TryAttestation";
   "SetLastEventNonceByOracle <- InitGenesis";
   "SetLastEventNonceByOracle <- Keeper.Attest";
   "SetLastObservedEventNonce <- InitGenesis";
   "SetLastObservedEventNonce <- Keeper.TryAttestation";
   "SetLastTotalPower <- InitGenesis";
   "SetLastTotalPower <- Keeper.AddOracleSetRequest";
   "SetLastTotalPower <- Keeper.slashing";
   "SetLastTotalPower <- MsgServer.AddDelegate";
   "SetLastTotalPower <- MsgServer.BondedOracle";
   "SetOracle <- InitGenesis";
   "SetOracle <- Keeper.SlashOracle";
   "SetOracle <- Keeper.UnbondedOracleFromProposal";
   "SetOracle <- MsgServer.AddDelegate";
   "SetOracle <- MsgServer.BondedOracle";
   "SetOracle <- MsgServer.EditBridger";
   "SetOracle <- MsgServer.ReDelegate";
   "SetOracleAddrByBridgerAddr <- InitGenesis";
   "SetOracleAddrByBridgerAddr <- MsgServer.BondedOracle";
   "SetOracleAddrByBridgerAddr <- MsgServer.EditBridger";
   "SlashOracle <- Keeper.batchSlashing";
   "SlashOracle <- Keeper.bridgeCallSlashing";
   "SlashOracle <- Keeper.oracleSetSlashing";
   "TryAttestation <- Keeper.Attest"].

Definition expected_raw_key_users : list string :=
  ["GetAttestationKey <- Keeper.DeleteAttestation";
   "GetAttestationKey <- Keeper.GetAttestation";
   "GetAttestationKey <- Keeper.SetAttestation";
   "GetAttestationKey <- Keeper.processAttestation";
   "GetLastEventNonceByOracleKey <- Keeper.DelLastEventNonceByOracle";
   "GetLastEventNonceByOracleKey <- Keeper.GetLastEventNonceByOracle";
   "GetLastEventNonceByOracleKey <- Keeper.SetLastEventNonceByOracle";
   "GetOracleAddressByBridgerKey <- Keeper.DelOracleAddrByBridgerAddr";
   "GetOracleAddressByBridgerKey <- Keeper.GetOracleAddrByBridgerAddr";
   "GetOracleAddressByBridgerKey <- Keeper.HasOracleAddrByBridgerAddr";
   "GetOracleAddressByBridgerKey <- Keeper.SetOracleAddrByBridgerAddr";
   "GetOracleKey <- Keeper.DelOracle";
   "GetOracleKey <- Keeper.GetOracle";
   "GetOracleKey <- Keeper.HasOracle";
   "GetOracleKey <- Keeper.SetOracle";
   "GetPendingExecuteClaimKey <- Keeper.DeletePendingExecuteClaim";
   "GetPendingExecuteClaimKey <- Keeper.GetPendingExecuteClaim";
   "GetPendingExecuteClaimKey <- Keeper.SavePendingExecuteClaim";
   "LastObservedEventNonceKey <- Keeper.GetLastObservedEventNonce";
   "LastObservedEventNonceKey <- Keeper.SetLastObservedEventNonce";
   "LastTotalPowerKey <- Keeper.GetLastTotalPower";
   "LastTotalPowerKey <- Keeper.SetLastTotalPower";
   "OracleAttestationKey <- Keeper.IterateAttestationAndClaim";
   "OracleAttestationKey <- Keeper.IterateAttestations";
   "OracleKey <- Keeper.GetAllOracles";
   "OracleKey <- Keeper.IterateOracle";
   "PendingExecuteClaimKey <- QueryServer.PendingExecuteClaim"].

(* the repair of finding C01-1 removes exactly one call site (UnbondedOracle no longer deletes the cursor);
   the model carries that as the switch c_unbond_del, probed on the real keeper by the harness *)
Definition expected_writer_sites_repaired : list string :=
  filter (fun x => negb (String.eqb x "DelLastEventNonceByOracle <- MsgServer.UnbondedOracle")) expected_writer_sites.

Theorem gen_matches_model :
  gen_vote_threshold = vote_threshold /\ gen_tally_divisor = 100 /\
  gen_change_threshold = change_threshold /\ gen_max_keep = max_keep /\ gen_max_oracles = max_oracles /\
  gen_power_reduction = power_reduction /\
  (gen_writer_sites = expected_writer_sites \/ gen_writer_sites = expected_writer_sites_repaired) /\
  gen_raw_key_users = expected_raw_key_users /\
  (* SetLastTotalPower, slashing, UpdateProposalOracles and the model's online_power sum over EVERY record *)
  gen_getalloracles_loop = "for init=false; iterator.Valid(); iterator.Next(); early exits=0".
Proof. repeat split; first [reflexivity | left; reflexivity | right; reflexivity]. Qed.

(* the end blocker as harness/gen_c07 reads it from abci.go: what the three loops hand to SlashOracle, the calls of
   keeper.slashing (incl. the final SetLastTotalPower) and the phases of EndBlocker are what M_Attest.end_block assumes *)
Theorem gen_endblock_matches_model :
  Gen_EndBlock.gen_slash_args = slash_args0 /\
  Gen_EndBlock.gen_slashing_calls = ["GetAllOracles"; "oracleSetSlashing"; "batchSlashing"; "bridgeCallSlashing"; "SetLastTotalPower"] /\
  Gen_EndBlock.gen_endblock_phases = ["GetSignedWindow"; "slashing"; "createOracleSetRequest"; "pruneOracleSet"].
Proof. repeat split; reflexivity. Qed.
