(* P_AttestTree: the property theorems instantiated at THIS tree's configuration.
   gen/Gen_AttestFacts.v is written on every run by `harness/c01 -facts`, which executes the probes on the real
   crosschain keeper of the tree under test: does UnbondedOracle delete the per-oracle cursor, does
   GetLastEventNonceByOracle lift an old cursor, and the module's default parameters.  The findings C01-1 / C02-2 are
   repaired in this tree (/repo 9161b71); tree_cfg_is_repaired pins that: if the repair is reverted the generated
   constant flips and this obligation (and everything below) no longer checks. *)
From Coq Require Import ZArith List Bool Lia.
From FxV Require Import gen.Gen_AttestFacts model.M_Attest proofs.P_Attest.
Import ListNotations.
Open Scope Z_scope.

Theorem tree_cfg_is_repaired :
  c_unbond_del gen_tree_cfg = false /\ c_cursor_clamp gen_tree_cfg = false /\ 0 <= c_threshold gen_tree_cfg.
Proof. split; [reflexivity | split; [reflexivity | vm_compute; discriminate]]. Qed.

(* no hypothesis about the code: every history on this tree *)
Theorem no_second_vote_on_tree : forall h w,
  incr (nonces_of w (vlog (run gen_tree_cfg init h))) /\ NoDup (nonces_of w (vlog (run gen_tree_cfg init h))).
Proof. intros. apply votes_increasing_fixed. apply tree_cfg_is_repaired. Qed.

Theorem contiguous_on_tree : forall h w,
  guarded gen_tree_cfg no_restart init h ->
  consec (nonces_of w (vlog (run gen_tree_cfg init h))) /\ NoDup (nonces_of w (vlog (run gen_tree_cfg init h))).
Proof. intros. apply votes_contiguous_fixed; auto; apply tree_cfg_is_repaired. Qed.

Theorem no_double_count_on_tree : forall h k a,
  aget keq k (atts (run gen_tree_cfg init h)) = Some a -> NoDup (a_votes a).
Proof. intros h k a. apply votes_distinct_fixed. apply tree_cfg_is_repaired. Qed.

Theorem quorum_distinct_on_tree : forall h b n cl park ms,
  let s := run gen_tree_cfg init h in
  let s' := fst (vote gen_tree_cfg s b n cl park ms) in
  last_obs s' <> last_obs s ->
  exists a, aget keq (n, cl) (atts s') = Some a /\ a_obs a = true /\ NoDup (a_votes a) /\
            66 * last_total s <= 100 * dpower (oracles s) (a_votes a) + 99.
Proof. intros h b n cl park ms. apply quorum_distinct_fixed; apply tree_cfg_is_repaired. Qed.

Theorem total_ge_online_on_tree : forall h,
  online_power (oracles (run gen_tree_cfg init h)) <= last_total (run gen_tree_cfg init h).
Proof. intro h. apply total_ge_online. apply tree_cfg_is_repaired. Qed.

(* the former finding's history evaluated on this tree's configuration: the second vote is refused *)
Theorem rebond_refused_on_tree :
  let s := run gen_tree_cfg init h_rebond in
  last_obs s = 0 /\ nonces_of 0 (vlog s) = [1] /\
  exists a, aget keq (1, 1) (atts s) = Some a /\ a_obs a = false /\ a_votes a = [0; 1].
Proof. vm_compute. repeat split; try reflexivity. eexists. repeat split; reflexivity. Qed.

(* pre-fix behaviour, stated about the EXPLICIT variant cfg0 (c_unbond_del := true), evaluated by vm_compute — not
   derived from the generated constant *)
Theorem revote_refuted_explicit :
  c_unbond_del cfg0 = true /\
  let s := run cfg0 init h_rebond in
  exists a, aget keq (1, 1) (atts s) = Some a /\ a_obs a = true /\ last_obs s = 1 /\
            a_votes a = [0; 1; 0] /\ nonces_of 0 (vlog s) = [1; 1] /\
            last_total s = 1000 /\ dpower (oracles s) (a_votes a) = 500.
Proof. split; [reflexivity|]. vm_compute. eexists. repeat split; reflexivity. Qed.
