(* C16, nested delivery (authz MsgExec, any depth): proofs over model/M_AuthNested.v *)
From Coq Require Import ZArith List Bool String Lia.
From FxV Require Import model.M_AuthorityTypes model.M_Authority model.M_AuthNested.
Import ListNotations.
Open Scope Z_scope.

Section NestedProofs.
  Variable St : Type.
  Variable Msg : Type.
  Variable authority_of : Msg -> str.
  Variable signer_of : Msg -> option bytes.
  Variable kind_of_msg : Msg -> cmp_kind.
  Variable vb : Msg -> bool.
  Variable gov : str.
  Variable accept : bytes -> bytes -> nmsg Msg -> St -> outcome * St.

  Notation dispatch := (dispatch St Msg signer_of accept).
  Notation nh := (nh St Msg signer_of vb accept).
  Notation leaf_handler := (leaf_handler St Msg authority_of kind_of_msg gov).
  Notation bad := (bad Msg authority_of kind_of_msg gov).

  Lemma dispatch_ext : forall h1 h2, (forall m st, h1 m st = h2 m st) ->
    forall gr ms st, dispatch h1 gr ms st = dispatch h2 gr ms st.
  Proof.
    intros h1 h2 E gr ms. induction ms as [|m r IH]; intros st; simpl; auto.
    destruct (nsigner Msg signer_of m); auto.
    destruct (if bytes_eqb b gr then (Ok, st) else accept b gr m st) as [o st1].
    destruct o; auto. rewrite E. destruct (h2 m st1) as [o2 st2]. destruct o2; auto.
  Qed.

  Lemma nh_ext : forall l1 l2, (forall x st, l1 x st = l2 x st) ->
    forall n m st, nh l1 n m st = nh l2 n m st.
  Proof.
    intros l1 l2 E n. induction n as [|n IH]; intros m st; destruct m as [x|g ms]; simpl.
    - unfold routed. destruct (vb x); auto.
    - reflexivity.
    - unfold routed. destruct (vb x); auto.
    - destruct g; auto. destruct ms as [|m0 r]; auto.
      match goal with |- context[if ?c then _ else _] => destruct c end; auto. apply dispatch_ext. exact IH.
  Qed.

  (* 1. under any nesting the body of a privileged handler is never run on a message whose authority its guard
        refuses: replacing the body on such messages by ANYTHING gives the same result and the same state *)
  Theorem nested_body_only_gov : forall body junk n m st,
    nh (leaf_handler body) n m st =
    nh (leaf_handler (fun x s => if guard_pass (kind_of_msg x) gov (authority_of x) then body x s else junk x s)) n m st.
  Proof.
    intros. apply nh_ext. intros x s. unfold M_AuthNested.leaf_handler, handle.
    destruct (guard_pass (kind_of_msg x) gov (authority_of x)); reflexivity.
  Qed.

  Lemma dispatch_bad : forall (h : nmsg Msg -> St -> outcome * St) (P : nmsg Msg -> bool),
    (forall m st, P m = true -> fst (h m st) <> Ok) ->
    forall gr ms st, existsb P ms = true -> fst (dispatch h gr ms st) <> Ok.
  Proof.
    intros h P HP gr ms. induction ms as [|m r IH]; intros st Hex; simpl in *; try discriminate.
    destruct (nsigner Msg signer_of m); simpl; try discriminate.
    destruct (if bytes_eqb b gr then (Ok, st) else accept b gr m st) as [o st1].
    destruct o; simpl; try discriminate.
    destruct (h m st1) as [o2 st2] eqn:Eh.
    apply orb_true_iff in Hex. destruct Hex as [Hm|Hr].
    - specialize (HP m st1 Hm). rewrite Eh in HP. simpl in HP. destruct o2; simpl; congruence.
    - destruct o2; simpl; try discriminate. apply IH; assumption.
  Qed.

  (* 2. a (nested) message that reaches a leaf whose guard refuses its authority never succeeds *)
  Theorem nested_nongov_never_ok : forall body n m st,
    bad n m = true -> fst (nh (leaf_handler body) n m st) <> Ok.
  Proof.
    intros body n. induction n as [|n IH]; intros m st Hb; destruct m as [x|g ms]; simpl in *; try discriminate.
    - unfold routed, M_AuthNested.leaf_handler, handle. apply negb_true_iff in Hb. rewrite Hb.
      destruct (vb x); simpl; discriminate.
    - unfold routed, M_AuthNested.leaf_handler, handle. apply negb_true_iff in Hb. rewrite Hb.
      destruct (vb x); simpl; discriminate.
    - destruct g; simpl; try discriminate. destruct ms as [|m0 r]; simpl; try discriminate.
      match goal with |- context[if ?c then _ else _] => destruct c end; simpl; try discriminate.
      exact (dispatch_bad (nh (leaf_handler body) n) (bad n) IH b (m0 :: r) st Hb).
  Qed.

  (* 3. ... hence, delivered in a transaction (or executed as a proposal message: both run on a cache branch that
        is written back only on success), it leaves the state unchanged *)
  Theorem nested_nongov_tx_unchanged : forall body n m st,
    bad n m = true -> tx St (nmsg Msg) (nh (leaf_handler body) n) m st = st.
  Proof.
    intros body n m st Hb. pose proof (nested_nongov_never_ok body n m st Hb) as H.
    unfold tx. destruct (nh (leaf_handler body) n m st) as [o s]. simpl in H. destruct o; congruence.
  Qed.

  (* 4. a single wrapped leaf: refused authority => (Err, the state as the authorization step left it);
        with signer = grantee (no authorization step) the state is untouched on the handler's own context *)
  Theorem nested_single_self_signed_unchanged : forall body n x g st,
    signer_of x = Some g ->
    guard_pass (kind_of_msg x) gov (authority_of x) = false ->
    nh (leaf_handler body) (S n) (NExec (Some g) [NLeaf x]) st = (Err, st).
  Proof.
    intros body n x g st Hs Hg. simpl. rewrite Hs.
    assert (R : bytes_eqb g g = true).
    { clear. unfold bytes_eqb. induction g as [|a r IH]; simpl; auto. rewrite Z.eqb_refl. exact IH. }
    destruct (vb x) eqn:Ev; simpl; auto. rewrite R.
    destruct n; simpl; unfold routed, M_AuthNested.leaf_handler, handle; rewrite Ev, Hg; reflexivity.
  Qed.

  (* 5. a leaf carrying the governance authority wrapped for ANOTHER grantee runs only if the authorization step
        (a grant from the governance account itself) lets it: without one, (Err, unchanged) *)
  Theorem nested_gov_leaf_needs_gov_grant : forall leaf n x g gr st o st1,
    signer_of x = Some g -> bytes_eqb g gr = false ->
    accept g gr (NLeaf x) st = (o, st1) -> o <> Ok ->
    nh leaf (S n) (NExec (Some gr) [NLeaf x]) st = (if vb x then (o, st1) else (Err, st)).
  Proof.
    intros leaf n x g gr st o st1 Hs Hne Ha Ho. simpl. rewrite Hs, Hne, Ha.
    destruct (vb x); simpl; auto. destruct o; congruence.
  Qed.
End NestedProofs.

(* non-vacuity: state = a counter the body increments; gov = [1]; signer bytes = the authority itself *)
Definition ex_leaf := (str * bool)%type.
Definition ex_nh := nh Z str (fun a => Some a) (fun _ => true) (fun _ _ _ st => (Err, st))
                      (leaf_handler Z str (fun a => a) (fun _ => CmpNeq) [1] (fun _ s => (Ok, s + 1))).

Lemma nested_examples :
  ex_nh 3 (NExec (Some [1]) [NExec (Some [1]) [NLeaf [1]; NLeaf [1]]]) 0 = (Ok, 2) /\
  ex_nh 3 (NExec (Some [1]) [NLeaf [1]; NExec (Some [2]) [NLeaf [2]]]) 0 = (Err, 1) /\
  bad str (fun a => a) (fun _ => CmpNeq) [1] 3 (NExec (Some [1]) [NLeaf [1]; NExec (Some [2]) [NLeaf [2]]]) = true /\
  ex_nh 3 (NExec (Some [2]) [NLeaf [1]]) 0 = (Err, 0).
Proof. vm_compute. repeat split; reflexivity. Qed.
