(* C16 — proofs over model/M_Authority.v and the generated tables. *)
From Coq Require Import ZArith List Bool String Lia.
From FxV Require Import model.M_AuthorityTypes gen.Gen_Authority gen.Gen_AuthorityMsgs model.M_Authority.
Import ListNotations.
Open Scope Z_scope.

(* ------------------------------------------------------------------ *)
(* string comparison *)

Lemma str_eqb_eq : forall a b, str_eqb a b = true <-> a = b.
Proof.
  induction a as [|x a IH]; destruct b as [|y b]; simpl; split; intro H; try congruence; try reflexivity.
  - apply andb_true_iff in H. destruct H as [H1 H2]. apply Z.eqb_eq in H1. apply IH in H2. congruence.
  - inversion H; subst. rewrite Z.eqb_refl. simpl. apply IH. reflexivity.
Qed.

Lemma str_eqb_refl : forall a, str_eqb a a = true.
Proof. intro a. apply str_eqb_eq. reflexivity. Qed.

Lemma guard_neq_only_gov : forall gov a, guard_pass CmpNeq gov a = true -> a = gov.
Proof. intros gov a H. simpl in H. apply str_eqb_eq in H. congruence. Qed.

Lemma guard_fold_only_fold : forall gov a, guard_pass CmpEqualFold gov a = true -> fold a = fold gov.
Proof. intros gov a H. simpl in H. apply str_eqb_eq in H. congruence. Qed.

(* a bech32 address is lower-case: folding leaves it alone *)
Definition lower_ascii (s : str) : Prop := Forall (fun c => 0 <= c < 65 \/ 90 < c < 128) s.

Lemma fold_lower : forall s, lower_ascii s -> fold s = s.
Proof.
  induction 1 as [|c s Hc _ IH]; [reflexivity|]. unfold fold in *. cbn [map]. rewrite IH. f_equal.
  unfold fold_cp.
  destruct (65 <=? c) eqn:E1; destruct (c <=? 90) eqn:E2; simpl;
    try (apply Z.leb_le in E1); try (apply Z.leb_le in E2);
    try (apply Z.leb_gt in E1); try (apply Z.leb_gt in E2); try lia;
    (destruct (c =? 8490) eqn:E3; [apply Z.eqb_eq in E3; lia|]);
    (destruct (c =? 383) eqn:E4; [apply Z.eqb_eq in E4; lia|]); reflexivity.
Qed.

Lemma guard_fold_lower_gov : forall gov a,
  lower_ascii gov -> guard_pass CmpEqualFold gov a = true -> fold a = gov.
Proof. intros gov a L H. apply guard_fold_only_fold in H. rewrite (fold_lower gov L) in H. exact H. Qed.

(* what a recognised guard lets through *)
Definition denotes_gov (k : cmp_kind) (gov a : str) : Prop :=
  match k with
  | CmpNeq => a = gov
  | CmpEqualFold => fold a = fold gov
  | _ => True
  end.

Lemma guard_pass_denotes : forall k gov a, guard_pass k gov a = true -> denotes_gov k gov a.
Proof.
  intros [] gov a H; simpl; auto.
  - apply guard_neq_only_gov; exact H.
  - apply guard_fold_only_fold; exact H.
Qed.

(* ------------------------------------------------------------------ *)
(* handlers *)

Section HandlerLemmas.
  Variable St Msg : Type.
  Variable authority_of : Msg -> str.
  Notation run := (run St Msg authority_of).
  Notation stmts_of := (stmts_of St Msg).

  Lemma run_pure_prefix : forall gov n body m st,
    run gov (repeat SPure n ++ body) m st = run gov body m st.
  Proof. induction n; simpl; auto. Qed.

  (* the generic lemma: handle m st = if guard m then body m st else (Err, st) *)
  Lemma reject_unchanged : forall k gov body m st,
    guard_pass k gov (authority_of m) = false ->
    handle St Msg authority_of k gov body m st = (Err, st).
  Proof. intros. unfold handle. rewrite H. reflexivity. Qed.

  Lemma handle_effect_only_gov : forall k gov body m st,
    handle St Msg authority_of k gov body m st <> (Err, st) ->
    denotes_gov k gov (authority_of m).
  Proof.
    intros k gov body m st H. apply guard_pass_denotes.
    destruct (guard_pass k gov (authority_of m)) eqn:E; [reflexivity|].
    exfalso. apply H. apply reject_unchanged. exact E.
  Qed.

  (* statement-list form: pure statements, then the guard *)
  Lemma run_guard_first_reject : forall gov n k rest m st,
    guard_pass k gov (authority_of m) = false ->
    run gov (repeat SPure n ++ SGuard k :: rest) m st = (Err, st).
  Proof. intros. rewrite run_pure_prefix. simpl. rewrite H. reflexivity. Qed.

  Lemma run_guard_first_is_handle : forall gov n k body m st,
    run gov (repeat SPure n ++ [SGuard k; SEffect body]) m st =
    handle St Msg authority_of k gov (fun m st => match body m st with (Ok, s) => (Ok, s) | r => r end) m st.
  Proof.
    intros. rewrite run_pure_prefix. simpl. unfold handle.
    destruct (guard_pass k gov (authority_of m)); [|reflexivity].
    destruct (body m st) as [[] s]; reflexivity.
  Qed.

  (* what a generated row promises *)
  Lemma row_reject_unchanged : forall r gov pre body m st,
    guards_first r = true ->
    guard_pass (h_kind r) gov (authority_of m) = false ->
    run gov (stmts_of (h_guard_idx r) (h_kind r) (h_pre_effect r) pre body) m st = (Err, st).
  Proof.
    intros r gov pre body m st G H. unfold guards_first in G.
    repeat (apply andb_true_iff in G; destruct G as [G ?]).
    unfold M_Authority.stmts_of.
    destruct (h_guard_idx r <? 0) eqn:E.
    - apply Z.ltb_lt in E. apply Z.leb_le in G. lia.
    - destruct (h_pre_effect r); [discriminate|]. apply run_guard_first_reject. exact H.
  Qed.

  Lemma row_effect_only_gov : forall r gov pre body m st,
    guards_first r = true ->
    run gov (stmts_of (h_guard_idx r) (h_kind r) (h_pre_effect r) pre body) m st <> (Err, st) ->
    denotes_gov (h_kind r) gov (authority_of m).
  Proof.
    intros r gov pre body m st G H. apply guard_pass_denotes.
    destruct (guard_pass (h_kind r) gov (authority_of m)) eqn:E; [reflexivity|].
    exfalso. apply H. apply row_reject_unchanged; assumption.
  Qed.

  (* router shapes *)
  Lemma route_reject_unchanged : forall chain_of servers m st,
    (forall p, In p servers -> snd p m st = (Err, st)) ->
    route St Msg chain_of servers m st = (Err, st).
  Proof.
    intros chain_of servers m st H. unfold route.
    destruct (find (fun p => fst p =? chain_of m) servers) as [p|] eqn:E; [|reflexivity].
    apply find_some in E. apply H. apply E.
  Qed.

  Lemma routed_reject_unchanged : forall vb h m st,
    h m st = (Err, st) -> routed St Msg vb h m st = (Err, st).
  Proof. intros. unfold routed. destruct (vb m); auto. Qed.

  Lemma tx_unchanged_on_failure : forall h m st,
    fst (h m st) <> Ok -> tx St Msg h m st = st.
  Proof. intros h m st H. unfold tx. destruct (h m st) as [[] s]; simpl in *; congruence. Qed.
End HandlerLemmas.

(* why "no call before the guard" is part of the check: with an effect in front, a rejected message
   leaves its trace *)
Lemma pre_effect_refuted :
  exists (body : list (stmt Z str)) (m : str) (st : Z),
    guard_pass CmpNeq [1] m = false /\
    fst (run Z str (fun m => m) [1] body m st) = Err /\
    snd (run Z str (fun m => m) [1] body m st) <> st.
Proof.
  exists [SEffect (fun _ s => (Ok, s + 1)); SGuard CmpNeq; SEffect (fun _ s => (Ok, s + 10))], [2], 0.
  vm_compute. repeat split; congruence.
Qed.

(* ------------------------------------------------------------------ *)
(* the generated tables *)

Lemma tables_ok :
  all_guarded gen_authmsgs gen_handlers gen_lookups = true /\
  str_pairs_eqb gen_dep_files dep_files_expected = true /\
  String.eqb gen_authaddr_expr authaddr_expected = true /\
  (0 <? gen_authaddr_uses) = true.
Proof. vm_compute. repeat split. Qed.

Lemma all_guarded_spec : forall ms hs ls,
  all_guarded ms hs ls = true ->
  (forall m, In m ms ->
     (exists r, In r hs /\ h_url r = am_url m) /\
     (forall r, In r hs -> h_url r = am_url m -> row_ok hs ls r = true)) /\
  (forall r, In r hs -> row_ok hs ls r = true).
Proof.
  intros ms hs ls H. unfold all_guarded in H. apply andb_true_iff in H. destruct H as [H1 H2].
  rewrite forallb_forall in H1, H2. split; [|exact H2].
  intros m Hm. specialize (H1 m Hm). unfold msg_guarded in H1.
  split.
  - destruct (rows_for hs (am_url m)) as [|r rs] eqn:E; [discriminate|].
    assert (Hin : In r (rows_for hs (am_url m))) by (rewrite E; left; reflexivity).
    unfold rows_for in Hin. apply filter_In in Hin. destruct Hin as [Hin Heq].
    exists r. split; [exact Hin|]. apply String.eqb_eq. exact Heq.
  - intros r Hr _. apply H2. exact Hr.
Qed.

Lemma row_ok_nondelegate : forall hs ls r,
  row_ok hs ls r = true -> is_delegate r = false -> guards_first r = true \/ exception_ok r = true.
Proof.
  intros hs ls r H D. unfold row_ok in H. rewrite D in H. apply orb_true_iff in H. exact H.
Qed.

Lemma row_ok_delegate : forall hs ls r,
  row_ok hs ls r = true -> is_delegate r = true ->
  lookup_ok ls (h_file r) (h_delegate_via r) = true /\
  exists t, In t hs /\ h_url t = h_url r /\ h_name t = h_delegate r /\ is_delegate t = false /\ guards_first t = true.
Proof.
  intros hs ls r H D. unfold row_ok in H. rewrite D in H. unfold delegate_ok in H.
  apply andb_true_iff in H. destruct H as [HL HE]. split; [exact HL|].
  apply existsb_exists in HE. destruct HE as [t [Ht HE]].
  repeat (apply andb_true_iff in HE; destruct HE as [HE ?]).
  exists t. repeat split; auto.
  - apply String.eqb_eq; exact HE.
  - apply String.eqb_eq; assumption.
  - apply negb_true_iff; assumption.
Qed.

Lemma exception_ok_spec : forall r, exception_ok r = true ->
  In (h_url r, h_against r) guard_exceptions /\ 0 <= h_guard_idx r /\ h_kind r = CmpNeq.
Proof.
  intros r H. unfold exception_ok in H.
  apply andb_true_iff in H. destruct H as [H K]. apply andb_true_iff in H. destruct H as [E G].
  apply existsb_exists in E. destruct E as [[u a] [Hin E]]. simpl in E.
  apply andb_true_iff in E. destruct E as [E1 E2]. apply String.eqb_eq in E1. apply String.eqb_eq in E2. subst.
  split; [exact Hin|]. split; [apply Z.leb_le; exact G|]. destruct (h_kind r); try discriminate. reflexivity.
Qed.

(* EVERY authority-carrying message type routable in the running app (fx-core's, cosmos-sdk's, ibc-go's,
   ethermint's) has a handler in the sources read at the pinned versions; each of its handlers either compares
   the authority with the keeper's before any call, or is the crosschain router forwarding — after a lookup
   that only reads the route table — to such a handler, or is one of the committed exceptions (a recognised
   `!=` guard that is not the first effectful statement; today exactly x/gov ExecLegacyContent) *)
Theorem all_guarded_thm :
  (forall m, In m gen_authmsgs ->
     (exists r, In r gen_handlers /\ h_url r = am_url m) /\
     (forall r, In r gen_handlers -> h_url r = am_url m ->
        (is_delegate r = false /\ guards_first r = true) \/
        (is_delegate r = true /\ lookup_ok gen_lookups (h_file r) (h_delegate_via r) = true /\
         exists t, In t gen_handlers /\ h_url t = h_url r /\ h_name t = h_delegate r /\
                   is_delegate t = false /\ guards_first t = true) \/
        (is_delegate r = false /\ In (h_url r, h_against r) guard_exceptions /\ 0 <= h_guard_idx r /\ h_kind r = CmpNeq))) /\
  gen_authaddr_expr = authaddr_expected /\
  gen_dep_files = dep_files_expected.
Proof.
  destruct tables_ok as [T [P [A _]]]. split; [|split; [apply String.eqb_eq; exact A|]].
  - destruct (all_guarded_spec _ _ _ T) as [S1 S2].
    intros m Hm. destruct (S1 m Hm) as [E R]. split; [exact E|].
    intros r Hr Hu. specialize (R r Hr Hu).
    destruct (is_delegate r) eqn:D.
    + right. left. split; [reflexivity|]. apply row_ok_delegate; assumption.
    + destruct (row_ok_nondelegate _ _ _ R D) as [G|X].
      * left. split; [reflexivity|exact G].
      * right. right. split; [reflexivity|]. apply exception_ok_spec. exact X.
  - clear T A. revert P. generalize gen_dep_files, dep_files_expected. intros la.
    induction la as [|[x1 y1] la IH]; intros lb; destruct lb as [|[x2 y2] lb]; simpl; intro H; try discriminate; [reflexivity|].
    apply andb_true_iff in H. destruct H as [H H3]. apply andb_true_iff in H. destruct H as [H1 H2].
    apply String.eqb_eq in H1. apply String.eqb_eq in H2. subst. f_equal. apply IH. exact H3.
Qed.

(* ... and therefore, for every self-checking handler row generated from the sources (all but the committed
   exceptions), whatever the rest of the body does: a message whose authority fails the comparison returns an
   error and the state it was given *)
Theorem generated_handlers_reject_unchanged :
  forall r, In r gen_handlers -> is_delegate r = false -> exception_ok r = false ->
  forall (St Msg : Type) (authority_of : Msg -> str) gov pre body m st,
    guard_pass (h_kind r) gov (authority_of m) = false ->
    run St Msg authority_of gov (stmts_of St Msg (h_guard_idx r) (h_kind r) (h_pre_effect r) pre body) m st = (Err, st).
Proof.
  intros r Hr D X St Msg authority_of gov pre body m st H.
  destruct tables_ok as [T _]. destruct (all_guarded_spec _ _ _ T) as [_ S2].
  apply row_reject_unchanged; [|exact H].
  destruct (row_ok_nondelegate _ _ _ (S2 r Hr) D) as [G|G]; [exact G|congruence].
Qed.

(* the committed exceptions: the statements before the guard run first; when they are a read (return Ok and
   the state they were given — GetGovernanceAccount on a chain whose gov account exists), rejection leaves the
   state unchanged as well *)
Theorem exception_rows_reject_unchanged :
  forall r, In r gen_handlers -> exception_ok r = true -> h_pre_effect r = true ->
  forall (St Msg : Type) (authority_of : Msg -> str) gov pre body m st,
    pre m st = (Ok, st) ->
    guard_pass (h_kind r) gov (authority_of m) = false ->
    run St Msg authority_of gov (stmts_of St Msg (h_guard_idx r) (h_kind r) (h_pre_effect r) pre body) m st = (Err, st).
Proof.
  intros r Hr X PE St Msg authority_of gov pre body m st Hpre H.
  apply exception_ok_spec in X. destruct X as [_ [G _]].
  unfold stmts_of. destruct (h_guard_idx r <? 0) eqn:E; [apply Z.ltb_lt in E; lia|].
  rewrite PE. simpl. rewrite Hpre. rewrite H. reflexivity.
Qed.

Theorem generated_handlers_effect_only_gov :
  forall r, In r gen_handlers -> is_delegate r = false -> exception_ok r = false ->
  forall (St Msg : Type) (authority_of : Msg -> str) gov pre body m st,
    run St Msg authority_of gov (stmts_of St Msg (h_guard_idx r) (h_kind r) (h_pre_effect r) pre body) m st <> (Err, st) ->
    denotes_gov (h_kind r) gov (authority_of m) /\ (h_kind r = CmpNeq \/ h_kind r = CmpEqualFold).
Proof.
  intros r Hr D X St Msg authority_of gov pre body m st H.
  destruct tables_ok as [T _]. destruct (all_guarded_spec _ _ _ T) as [_ S2].
  assert (G : guards_first r = true) by (destruct (row_ok_nondelegate _ _ _ (S2 r Hr) D) as [G|G]; [exact G|congruence]).
  split.
  - eapply row_effect_only_gov; eassumption.
  - unfold guards_first in G. repeat (apply andb_true_iff in G; destruct G as [G ?]).
    destruct (h_kind r); simpl in *; try discriminate; auto.
Qed.

(* a non-address look-alike cannot reach a handler: handlers are reached only through the SDK router, whose
   wrapper validates first *)
(* every keeper that takes an authority is constructed with the governance module address *)
Lemma keepers_get_gov_authority :
  keeper_authorities_ok gen_keeper_authorities = true /\ String.eqb gen_authaddr_expr authaddr_expected = true.
Proof. vm_compute. split; reflexivity. Qed.

Lemma reached_only_through_router :
  direct_callers_ok gen_direct_callers = true /\ gen_router_validates_basic = true.
Proof. vm_compute. split; reflexivity. Qed.

(* whatever a folding guard lets through denotes the keeper's authority up to case folding, and with the
   router's ValidateBasic (a decodable bech32 address: all lower or all upper case) in front it is a spelling
   of the same account; the list of folding handlers is whatever the table says *)
Lemma folding_handlers_fold : forall r, In (h_url r, h_name r) (folding_handlers gen_handlers) ->
  forall gov a, lower_ascii gov -> guard_pass CmpEqualFold gov a = true -> fold a = gov.
Proof. intros. apply guard_fold_lower_gov; assumption. Qed.

(* ------------------------------------------------------------------ *)
(* raw store update: compare-and-set *)

Lemma skey_eqb_eq : forall a b, skey_eqb a b = true <-> a = b.
Proof.
  intros [s k] [s' k']. unfold skey_eqb. simpl. rewrite andb_true_iff, Z.eqb_eq.
  unfold bytes_eqb. rewrite str_eqb_eq. split; [intros [? ?]; subst; reflexivity|intro H; inversion H; auto].
Qed.

Lemma get_set_same : forall st k v, get (set st k v) k = Some v.
Proof. intros. simpl. assert (E : skey_eqb k k = true) by (apply skey_eqb_eq; reflexivity). rewrite E. reflexivity. Qed.

Lemma get_set_other : forall st k k' v, k <> k' -> get (set st k v) k' = get st k'.
Proof.
  intros. simpl. destruct (skey_eqb k k') eqn:E; [apply skey_eqb_eq in E; contradiction|reflexivity].
Qed.

(* a successful run, entry by entry: each entry found the stated old value when its turn came *)
Inductive cas_run (known : list Z) : kvs -> list entry -> kvs -> Prop :=
| cas_nil : forall st, cas_run known st [] st
| cas_cons : forall st st' e r k o v,
    mem_space (e_space e) known = true ->
    e_key e = Some k -> k <> [] -> e_old e = Some o -> e_new e = Some v ->
    cur st (e_space e, k) = o ->
    cas_run known (set st (e_space e, k) v) r st' ->
    cas_run known st (e :: r) st'.

Lemma update_store_head : forall known e r st st',
  update_store known (e :: r) st = (Ok, st') ->
  exists k o v, mem_space (e_space e) known = true /\ e_key e = Some k /\ k <> [] /\
                e_old e = Some o /\ e_new e = Some v /\ cur st (e_space e, k) = o /\
                update_store known r (set st (e_space e, k) v) = (Ok, st').
Proof.
  intros known e r st st' H. cbn [update_store] in H.
  destruct (mem_space (e_space e) known) eqn:M; cbn [negb] in H; [|discriminate].
  destruct (e_key e) as [[|kb k]|] eqn:K; try discriminate.
  destruct (e_old e) as [o|] eqn:O; try discriminate.
  destruct (bytes_eqb _ o) eqn:C; cbn [negb] in H; [|discriminate].
  destruct (e_new e) as [v|] eqn:N; try discriminate.
  exists (kb :: k), o, v. repeat split; auto; try congruence.
  apply str_eqb_eq. exact C.
Qed.

Lemma update_store_ok_iff : forall known es st st',
  update_store known es st = (Ok, st') <-> cas_run known st es st'.
Proof.
  intros known es. induction es as [|e r IH]; intros st st'; split; intro H.
  - simpl in H. inversion H; subst. constructor.
  - inversion H; subst. reflexivity.
  - apply update_store_head in H. destruct H as [k [o [v [M [K [NE [O [N [C R]]]]]]]]].
    eapply cas_cons; eauto. apply IH. exact R.
  - inversion H as [|? ? ? ? k o v M K NE O N C R]; subst. cbn [update_store]. rewrite M. cbn [negb].
    rewrite K. destruct k as [|kb k]; [congruence|]. rewrite O.
    unfold bytes_eqb. rewrite str_eqb_refl. cbn [negb]. rewrite N. apply IH. exact R.
Qed.

(* an entry whose old value differs from the store's current value stops the update with an error,
   and nothing of THIS entry (nor of later ones) is written *)
Lemma cas_mismatch_rejects : forall known e r st k o,
  mem_space (e_space e) known = true -> e_key e = Some k -> k <> [] -> e_old e = Some o ->
  cur st (e_space e, k) <> o ->
  update_store known (e :: r) st = (Err, st).
Proof.
  intros known e r st k o M K NE O C. cbn [update_store]. rewrite M. cbn [negb]. rewrite K.
  destruct k as [|kb k]; [congruence|]. rewrite O.
  destruct (bytes_eqb _ o) eqn:E; [apply str_eqb_eq in E; contradiction|reflexivity].
Qed.

(* keys no entry names keep their value, whatever the outcome *)
Lemma cas_untouched : forall known es st o st' sk,
  update_store known es st = (o, st') ->
  (forall e k, In e es -> e_key e = Some k -> (e_space e, k) <> sk) ->
  get st' sk = get st sk.
Proof.
  intros known es. induction es as [|e r IH]; intros st o st' sk H NT.
  - simpl in H. inversion H; subst. reflexivity.
  - cbn [update_store] in H.
    destruct (mem_space (e_space e) known); cbn [negb] in H; [|inversion H; subst; reflexivity].
    destruct (e_key e) as [[|kb k]|] eqn:K; try (inversion H; subst; reflexivity).
    destruct (e_old e) as [ov|]; try (inversion H; subst; reflexivity).
    destruct (bytes_eqb _ ov); cbn [negb] in H; [|inversion H; subst; reflexivity].
    destruct (e_new e) as [v|]; try (inversion H; subst; reflexivity).
    rewrite (IH _ _ _ sk H).
    + apply get_set_other. apply (NT e (kb :: k)); [left; reflexivity|exact K].
    + intros e' k' Hin. apply NT. right. exact Hin.
Qed.

(* at tx level a failing update (error or panic) applies nothing *)
Lemma cas_fail_tx_nothing_applied : forall known (m : str * list entry) st,
  fst (update_store known (snd m) st) <> Ok ->
  tx kvs (str * list entry) (fun m st => update_store known (snd m) st) m st = st.
Proof. intros. apply tx_unchanged_on_failure. exact H. Qed.

(* ... whereas the handler on its own context is NOT atomic: entries before the failing one stay
   written (this is why "nothing applied" is a tx-level statement) *)
Lemma cas_partial_at_handler_level :
  exists known es st sk,
    fst (update_store known es st) = Err /\ get (snd (update_store known es st)) sk <> get st sk.
Proof.
  exists [0], [mk_entry 0 (Some [1]) (Some []) (Some [7]); mk_entry 0 (Some [2]) (Some [9]) (Some [8])], [], (0, [1]).
  vm_compute. split; congruence.
Qed.

(* the whole message: guard, then the loop *)
Lemma update_store_msg_reject : forall known gov m st,
  fst m <> gov -> update_store_msg known gov m st = (Err, st).
Proof.
  intros known gov m st H. unfold update_store_msg. apply reject_unchanged. simpl.
  destruct (str_eqb gov (fst m)) eqn:E; [apply str_eqb_eq in E; congruence|reflexivity].
Qed.

Lemma update_store_msg_ok : forall known gov m st st',
  update_store_msg known gov m st = (Ok, st') -> fst m = gov /\ cas_run known st (snd m) st'.
Proof.
  intros known gov m st st' H. unfold update_store_msg, handle in H. simpl in H.
  destruct (str_eqb gov (fst m)) eqn:E; [|discriminate].
  apply str_eqb_eq in E. split; [congruence|]. apply update_store_ok_iff. exact H.
Qed.

(* non-vacuity: concrete accepted / rejected runs *)
Definition ex_gov : str := [102; 120; 49; 107; 115].                  (* "fx1ks" *)
Definition ex_st : kvs := [((0, [1]), [5]); ((1, [2]), [])].
Definition ex_es : list entry :=
  [mk_entry 0 (Some [1]) (Some [5]) (Some [6]); mk_entry 1 (Some [3]) (Some []) (Some [4]); mk_entry 0 (Some [1]) (Some [6]) (Some [])].

Lemma examples :
  update_store_msg [0; 1] ex_gov (ex_gov, ex_es) ex_st = (Ok, ([((0, [1]), []); ((1, [3]), [4]); ((0, [1]), [6])] ++ ex_st)%list) /\
  update_store_msg [0; 1] ex_gov ([70; 88; 49; 107; 115], ex_es) ex_st = (Err, ex_st) /\
  guard_pass CmpEqualFold ex_gov [70; 88; 49; 8490; 383] = true /\
  guard_pass CmpNeq ex_gov [70; 88; 49; 8490; 383] = false /\
  guard_pass CmpEqualFold ex_gov [102; 120; 49; 107; 1109] = false /\
  lower_ascii ex_gov /\
  existsb (fun r => negb (is_delegate r)) gen_handlers = true /\
  existsb am_in_fx gen_authmsgs = true /\
  existsb (fun m => negb (am_in_fx m)) gen_authmsgs = true.
Proof.
  repeat split; try (vm_compute; reflexivity).
  unfold lower_ascii, ex_gov. repeat constructor; lia.
Qed.
