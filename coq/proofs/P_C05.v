(* P_C05.v — the C05 statements over model.M_Pool *)
From Coq Require Import ZArith List Bool Lia Permutation.
From FxV Require Import gen.Gen_TimeoutRules model.M_Pool proofs.P_Pool.
Import ListNotations.
Open Scope Z_scope.

Arguments key_eqb : simpl never.

(* accepted step *)
Definition accepted (s : state) (o : op) (s' : state) (evs : list event) : Prop := step s o = (s', evs, Ok).

Lemma accepted_exec : forall s o s' evs, accepted s o s' evs <-> exec s o = ROk (s', evs).
Proof.
  unfold accepted, step; intros. destruct (exec s o) as [[a b]| |]; split; intro H; inversion H; subst; auto.
Qed.

Lemma refused_same : forall s o s' evs r, step s o = (s', evs, r) -> r <> Ok -> s' = s /\ evs = [].
Proof.
  unfold step; intros s o s' evs r H N. destruct (exec s o) as [[a b]| |]; inversion H; subst; auto. congruence.
Qed.

(* ---------- identifiers ---------- *)
Theorem counters_monotone : forall s o, Inv s ->
  next_tx s <= next_tx (step_state s o) /\ next_batch s <= next_batch (step_state s o) /\ next_call s <= next_call (step_state s o).
Proof.
  intros s o I. destruct (step_state_cases s o) as [(evs & H)|E]; [|rewrite E; lia].
  pose proof (exec_rel _ _ _ _ I H) as [TX _ _ NB _ _ NC]. set (s' := step_state s o) in *. clearbody s'.
  repeat split; auto. destruct TX; lia.
Qed.

Theorem fresh_ids : forall s o, Inv s -> forall x, In x (live (step_state s o)) ->
  (exists y, In y (live s) /\ tx_id y = tx_id x) \/
  (tx_id x = next_tx s /\ next_tx (step_state s o) = next_tx s + 1 /\ (forall y, In y (live s) -> tx_id y < tx_id x)
   /\ exists sender dest amount fee token, o = Send sender dest amount fee token).
Proof.
  intros s o I x Hx. destruct (step_state_cases s o) as [(evs & H)|E]; [|rewrite E in Hx; left; eauto].
  pose proof (exec_rel _ _ _ _ I H) as [TX _ _ _ _ _ _]. set (s' := step_state s o) in *. clearbody s'. destruct TX.
  - left. exists x. split; auto. eapply perm_in; eauto.
  - apply (perm_in _ _ _ _ H0) in Hx. destruct Hx as [<-|Hx]; [right|left; eauto].
    simpl. repeat split; auto. { intros y Hy. apply (inv_idlt _ I); auto. } eauto 6.
  - left. exists x. split; auto. eapply perm_in; [apply Permutation_sym; eauto|]. simpl; auto.
  - left. apply (perm_in _ _ _ _ H4) in Hx. destruct Hx as [<-|Hx].
    + exists x0. split; auto. eapply perm_in; [apply Permutation_sym; eauto|]. simpl; auto.
    + exists x. split; auto. eapply perm_in; [apply Permutation_sym; eauto|]. simpl; auto.
  - left. exists x. split; auto. eapply perm_in; [apply Permutation_sym; eauto|]. apply in_or_app; auto.
Qed.

Theorem fresh_batch_nonces : forall s o, Inv s -> forall b, In b (batches (step_state s o)) ->
  In b (batches s) \/ (b_nonce b = next_batch s /\ next_batch (step_state s o) = next_batch s + 1 /\
                        forall y, In y (batches s) -> b_nonce y < b_nonce b).
Proof.
  intros s o I b Hb. destruct (step_state_cases s o) as [(evs & H)|E]; [|rewrite E in Hb; auto].
  pose proof (exec_rel _ _ _ _ I H) as [_ BS _ _ _ _ _]. destruct (BS b Hb) as [|(E1 & E2 & _)]; auto.
  right. repeat split; auto. intros y Hy. apply (inv_bnlt _ I) in Hy. lia.
Qed.

Theorem fresh_call_nonces : forall s o, Inv s -> forall c, In c (calls (step_state s o)) ->
  In c (calls s) \/ (c_nonce c = next_call s /\ next_call (step_state s o) = next_call s + 1 /\
                      forall y, In y (calls s) -> c_nonce y < c_nonce c).
Proof.
  intros s o I c Hc. destruct (step_state_cases s o) as [(evs & H)|E]; [|rewrite E in Hc; auto].
  pose proof (exec_rel _ _ _ _ I H) as [_ _ _ _ CS _ _]. destruct (CS c Hc) as [|(E1 & E2 & _)]; auto.
  right. repeat split; auto. intros y Hy. apply (inv_cnlt _ I) in Hy. lia.
Qed.

(* ---------- exactly one place ---------- *)
Inductive place := InPool | InBatch (token nonce : Z).

Definition at_place (s : state) (id : Z) (p : place) : Prop :=
  match p with
  | InPool => In id (ids (pool s))
  | InBatch t n => exists b, In b (batches s) /\ b_token b = t /\ b_nonce b = n /\ In id (ids (b_txs b))
  end.

Lemma in_batch_txs : forall bs x, In x (batch_txs bs) <-> exists b, In b bs /\ In x (b_txs b).
Proof. unfold batch_txs; intros. rewrite in_flat_map. tauto. Qed.

Lemma nodup_app_disjoint : forall (a b : list Z) x, NoDup (a ++ b) -> In x a -> In x b -> False.
Proof.
  induction a as [|y r IH]; simpl; intros b x N Ha Hb; [contradiction|]. inv N.
  destruct Ha as [->|Ha]; [apply H1, in_or_app; auto | eauto].
Qed.

Lemma nodup_flat_unique : forall (bs : list batch) b1 b2 id, NoDup (ids (batch_txs bs)) ->
  In b1 bs -> In b2 bs -> In id (ids (b_txs b1)) -> In id (ids (b_txs b2)) -> NoDup (bnonces bs) -> b1 = b2.
Proof.
  induction bs as [|y r IH]; simpl; intros b1 b2 id N H1 H2 I1 I2 NB; [contradiction|].
  unfold batch_txs, ids in N. simpl in N. rewrite map_app in N. inv NB.
  assert (Hr : forall b, In b r -> In id (ids (b_txs b)) -> In id (map tx_id (flat_map b_txs r))).
  { intros b Hb Hi. unfold ids in Hi. apply in_map_iff in Hi. destruct Hi as (x & <- & Hx). apply in_map.
    apply in_flat_map. eauto. }
  destruct H1 as [->|H1], H2 as [->|H2]; auto.
  - exfalso. eapply nodup_app_disjoint; [exact N | exact I1 | eauto].
  - exfalso. eapply nodup_app_disjoint; [exact N | exact I2 | eauto].
  - eapply IH; eauto. apply nodup_app_r in N. exact N.
Qed.

Theorem exactly_one_place : forall s id p q, Inv s -> at_place s id p -> at_place s id q -> p = q.
Proof.
  intros s id p q I Hp Hq. pose proof (inv_ids _ I) as N. unfold live, ids in N. rewrite map_app in N.
  assert (D : forall b, In b (batches s) -> In id (ids (b_txs b)) -> In id (map tx_id (batch_txs (batches s)))).
  { intros b Hb Hi. unfold ids in Hi. apply in_map_iff in Hi. destruct Hi as (x & <- & Hx). apply in_map.
    apply in_batch_txs. eauto. }
  destruct p as [|t n], q as [|t' n']; simpl in *; auto.
  - destruct Hq as (b & Hb & _ & _ & Hi). exfalso. eapply nodup_app_disjoint; [exact N | exact Hp | eauto].
  - destruct Hp as (b & Hb & _ & _ & Hi). exfalso. eapply nodup_app_disjoint; [exact N | exact Hq | eauto].
  - destruct Hp as (b1 & Hb1 & <- & <- & Hi1), Hq as (b2 & Hb2 & <- & <- & Hi2).
    assert (b1 = b2); [|subst; auto].
    eapply nodup_flat_unique; eauto; [|apply I]. apply nodup_app_r in N. exact N.
Qed.

(* no identifier twice inside one place either *)
Theorem no_duplicates : forall s, Inv s -> NoDup (ids (live s)).
Proof. intros s I; apply I. Qed.

(* every identifier handed out so far is live in exactly one place or settled; settled is for good *)
Definition created (s : state) (id : Z) : Prop := id < next_tx s.
Definition is_live (s : state) (id : Z) : Prop := In id (ids (live s)).
Definition settled (s : state) (id : Z) : Prop := created s id /\ ~ is_live s id.

Lemma live_ids_split : forall s id, is_live s id <-> (exists p, at_place s id p).
Proof.
  unfold is_live, live, ids; intros s id. rewrite map_app, in_app_iff. split.
  - intros [H|H]; [exists InPool; auto|].
    apply in_map_iff in H. destruct H as (x & <- & Hx). apply in_batch_txs in Hx. destruct Hx as (b & Hb & Hx).
    exists (InBatch (b_token b) (b_nonce b)). simpl. exists b. repeat split; auto. apply in_map; auto.
  - intros ([|t n] & H); simpl in H; auto. destruct H as (b & Hb & _ & _ & Hi). right.
    unfold ids in Hi. apply in_map_iff in Hi. destruct Hi as (x & <- & Hx). apply in_map. apply in_batch_txs; eauto.
Qed.

Theorem settled_forever : forall s o id, Inv s -> settled s id -> settled (step_state s o) id.
Proof.
  intros s o id I [C1 NL]. pose proof (counters_monotone s o I) as (M & _). split; [unfold created in *; lia|].
  intro L. unfold is_live, ids in L. apply in_map_iff in L. destruct L as (x & Ex & Hx).
  destruct (fresh_ids s o I x Hx) as [(y & Hy & E)|(E & _)]; [|unfold created in C1; lia].
  apply NL. unfold is_live, ids. rewrite <- Ex, <- E. apply in_map; auto.
Qed.

Theorem settled_forever_run : forall ops s id, Inv s -> settled s id -> settled (run s ops) id.
Proof.
  induction ops as [|o r IH]; simpl; intros s id I S; auto.
  apply IH; [apply step_inv; auto | apply settled_forever; auto].
Qed.

(* how a transfer can stop being live: the creator's cancel, or the observed execution of its batch *)
Theorem leaves_only_by : forall s o s' evs x, Inv s -> accepted s o s' evs -> In x (live s) -> ~ is_live s' (tx_id x) ->
  (o = Cancel (tx_id x) (tx_sender x) /\ In x (pool s)) \/
  (exists h b, o = BatchExecuted (b_token b) (b_nonce b) h /\ In b (batches s) /\ In x (b_txs b)).
Proof.
  intros s o s' evs x I A Hx NL. apply accepted_exec in A.
  pose proof (exec_rel _ _ _ _ I A) as [TX _ _ _ _ _ _].
  assert (U : forall y, In y (live s) -> tx_id y = tx_id x -> y = x).
  { intros y Hy E. eapply nodup_ids_unique; eauto. apply I. }
  destruct TX.
  - exfalso. apply NL. unfold is_live, ids. apply in_map. eapply perm_in; [apply Permutation_sym; eauto|auto].
  - exfalso. apply NL. unfold is_live, ids. apply in_map. eapply perm_in; [apply Permutation_sym; eauto|simpl; auto].
  - apply (perm_in _ _ _ _ H2) in Hx. destruct Hx as [->|Hx]; [left; subst; auto|].
    exfalso. apply NL. unfold is_live, ids. apply in_map; auto.
  - apply (perm_in _ _ _ _ H2) in Hx. exfalso. apply NL. unfold is_live, ids.
    destruct Hx as [->|Hx].
    + rewrite <- (with_fee_id x (tx_fee x + add)). apply in_map. eapply perm_in; [apply Permutation_sym; eauto|simpl; auto].
    + apply in_map. eapply perm_in; [apply Permutation_sym; eauto|simpl; auto].
  - apply (perm_in _ _ _ _ H2) in Hx. apply in_app_or in Hx. destruct Hx as [Hx|Hx].
    + right. exists h, b. subst. auto.
    + exfalso. apply NL. unfold is_live, ids. apply in_map; auto.
Qed.

(* a cancel only works for a pooled transfer and its creator *)
Theorem cancel_auth : forall s id who s' evs, Inv s -> accepted s (Cancel id who) s' evs ->
  exists x, In x (pool s) /\ tx_id x = id /\ tx_sender x = who /\ ~ is_live s' id /\
            evs = [EvTxRefund id who (tx_amount x + tx_fee x) (tx_token x)].
Proof.
  intros s id who s' evs I A. apply accepted_exec in A. simpl in A.
  destruct (cancel_spec _ _ _ _ _ (inv_pool_nodup _ I) A) as (x & Hin & Hid & Hs & P & Eb & _ & _ & _ & _ & _ & Ev & _).
  exists x. repeat split; auto.
  pose proof (inv_ids _ I) as N. unfold live in N.
  assert (P2 : Permutation (pool s ++ batch_txs (batches s)) (x :: pool s' ++ batch_txs (batches s'))).
  { rewrite Eb. change (?x :: ?a ++ ?b) with ((x :: a) ++ b). apply Permutation_app_tail; auto. }
  pose proof (nodup_perm_ids _ _ P2 N) as N2. simpl in N2. inv N2. unfold is_live, live. auto.
Qed.

(* after an observed execution nothing about the transfer can be refunded: the id is settled for good *)
Theorem executed_then_no_refund : forall s token nonce h s' evs x ops id who s2 evs2, Inv s ->
  accepted s (BatchExecuted token nonce h) s' evs -> In x (live s) -> ~ is_live s' (tx_id x) -> id = tx_id x ->
  ~ accepted (run s' ops) (Cancel id who) s2 evs2.
Proof.
  intros s token nonce h s' evs x ops id who s2 evs2 I A Hx NL -> A2.
  assert (I' : Inv s').
  { apply accepted_exec in A. eapply step_rel_inv; eauto. eapply exec_rel; eauto. }
  assert (S : settled s' (tx_id x)).
  { split; auto. apply accepted_exec in A. pose proof (exec_rel _ _ _ _ I A) as [TX _ _ _ _ _ _].
    unfold created. pose proof (inv_idlt _ I x Hx). inversion TX; subst; try lia; try contradiction. }
  pose proof (settled_forever_run ops s' _ I' S) as [_ NL2].
  destruct (cancel_auth _ _ _ _ _ (run_inv ops s' I') A2) as (y & Hy & Ey & _).
  apply NL2. unfold is_live, live, ids. rewrite map_app. apply in_or_app. left. rewrite <- Ey. apply in_map; auto.
Qed.
