(* P_C05.v — the C05 statements over model.M_Pool *)
From Coq Require Import ZArith List Bool Lia Permutation.
From FxV Require Import gen.Gen_TimeoutRules model.M_Pool proofs.P_Pool.
Import ListNotations.
Open Scope Z_scope.

Arguments key_eqb : simpl never.

(* accepted step *)
Definition accepted (s : state) (o : op) (s' : state) (evs : list event) : Prop := step s o = (s', evs, Ok).

Lemma accepted_exec : forall s o s' evs, accepted s o s' evs <-> exec s o = ROk (s', evs).
Proof.
  unfold accepted, step; intros. destruct (exec s o) as [[a b]| |]; split; intro H; inversion H; subst; auto.
Qed.

Lemma refused_same : forall s o s' evs r, step s o = (s', evs, r) -> r <> Ok -> s' = s /\ evs = [].
Proof.
  unfold step; intros s o s' evs r H N. destruct (exec s o) as [[a b]| |]; inversion H; subst; auto. congruence.
Qed.

(* ---------- identifiers ---------- *)
Theorem counters_monotone : forall s o, Inv s ->
  next_tx s <= next_tx (step_state s o) /\ next_batch s <= next_batch (step_state s o) /\ next_call s <= next_call (step_state s o).
Proof.
  intros s o I. destruct (step_state_cases s o) as [(evs & H)|E]; [|rewrite E; lia].
  pose proof (exec_rel _ _ _ _ I H) as [TX _ _ NB _ _ NC]. set (s' := step_state s o) in *. clearbody s'.
  repeat split; auto. destruct TX; lia.
Qed.

Theorem fresh_ids : forall s o, Inv s -> forall x, In x (live (step_state s o)) ->
  (exists y, In y (live s) /\ tx_id y = tx_id x) \/
  (tx_id x = next_tx s /\ next_tx (step_state s o) = next_tx s + 1 /\ (forall y, In y (live s) -> tx_id y < tx_id x)
   /\ exists sender dest amount fee token, is_send o sender dest amount fee token).
Proof.
  intros s o I x Hx. destruct (step_state_cases s o) as [(evs & H)|E]; [|rewrite E in Hx; left; eauto].
  pose proof (exec_rel _ _ _ _ I H) as [TX _ _ _ _ _ _]. set (s' := step_state s o) in *. clearbody s'.
  destruct TX as [o0 P E _ | o0 sender dest amount fee token Hs P Hin E | id who x0 Hin Hid Hsn P E | o1 id who add token x0 L Hfi Hin Hid Ha P P' Hin' E | token nonce h b Hb Ht Hn P E].
  - left. exists x. split; auto. eapply perm_in; eauto.
  - apply (perm_in _ _ _ _ P) in Hx. destruct Hx as [<-|Hx]; [right|left; eauto].
    simpl. repeat split; auto. { intros y Hy. apply (inv_idlt _ I); auto. } eauto 6.
  - left. exists x. split; auto. eapply perm_in; [apply Permutation_sym; eauto|]. simpl; auto.
  - left. apply (perm_in _ _ _ _ P') in Hx. destruct Hx as [<-|Hx].
    + exists x0. split; auto. eapply perm_in; [apply Permutation_sym; eauto|]. simpl; auto.
    + exists x. split; auto. eapply perm_in; [apply Permutation_sym; eauto|]. simpl; auto.
  - left. exists x. split; auto. eapply perm_in; [apply Permutation_sym; eauto|]. apply in_or_app; auto.
Qed.

Theorem fresh_batch_nonces : forall s o, Inv s -> forall b, In b (batches (step_state s o)) ->
  In b (batches s) \/ (b_nonce b = next_batch s /\ next_batch (step_state s o) = next_batch s + 1 /\
                        forall y, In y (batches s) -> b_nonce y < b_nonce b).
Proof.
  intros s o I b Hb. destruct (step_state_cases s o) as [(evs & H)|E]; [|rewrite E in Hb; auto].
  pose proof (exec_rel _ _ _ _ I H) as [_ BS _ _ _ _ _]. destruct (BS b Hb) as [|(E1 & E2 & _)]; auto.
  right. repeat split; auto. intros y Hy. apply (inv_bnlt _ I) in Hy. lia.
Qed.

Theorem fresh_call_nonces : forall s o, Inv s -> forall c, In c (calls (step_state s o)) ->
  In c (calls s) \/ (c_nonce c = next_call s /\ next_call (step_state s o) = next_call s + 1 /\
                      forall y, In y (calls s) -> c_nonce y < c_nonce c).
Proof.
  intros s o I c Hc. destruct (step_state_cases s o) as [(evs & H)|E]; [|rewrite E in Hc; auto].
  pose proof (exec_rel _ _ _ _ I H) as [_ _ _ _ CS _ _]. destruct (CS c Hc) as [|(E1 & E2 & _)]; auto.
  right. repeat split; auto. intros y Hy. apply (inv_cnlt _ I) in Hy. lia.
Qed.

(* ---------- exactly one place ---------- *)
Inductive place := InPool | InBatch (token nonce : Z).

Definition at_place (s : state) (id : Z) (p : place) : Prop :=
  match p with
  | InPool => In id (ids (pool s))
  | InBatch t n => exists b, In b (batches s) /\ b_token b = t /\ b_nonce b = n /\ In id (ids (b_txs b))
  end.

Lemma in_batch_txs : forall bs x, In x (batch_txs bs) <-> exists b, In b bs /\ In x (b_txs b).
Proof. unfold batch_txs; intros. rewrite in_flat_map. tauto. Qed.

Lemma nodup_app_disjoint : forall (a b : list Z) x, NoDup (a ++ b) -> In x a -> In x b -> False.
Proof.
  induction a as [|y r IH]; simpl; intros b x N Ha Hb; [contradiction|]. inv N.
  destruct Ha as [->|Ha]; [apply H1, in_or_app; auto | eauto].
Qed.

Lemma nodup_flat_unique : forall (bs : list batch) b1 b2 id, NoDup (ids (batch_txs bs)) ->
  In b1 bs -> In b2 bs -> In id (ids (b_txs b1)) -> In id (ids (b_txs b2)) -> NoDup (bnonces bs) -> b1 = b2.
Proof.
  induction bs as [|y r IH]; simpl; intros b1 b2 id N H1 H2 I1 I2 NB; [contradiction|].
  unfold batch_txs, ids in N. simpl in N. rewrite map_app in N. inv NB.
  assert (Hr : forall b, In b r -> In id (ids (b_txs b)) -> In id (map tx_id (flat_map b_txs r))).
  { intros b Hb Hi. unfold ids in Hi. apply in_map_iff in Hi. destruct Hi as (x & <- & Hx). apply in_map.
    apply in_flat_map. eauto. }
  destruct H1 as [->|H1], H2 as [->|H2]; auto.
  - exfalso. eapply nodup_app_disjoint; [exact N | exact I1 | eauto].
  - exfalso. eapply nodup_app_disjoint; [exact N | exact I2 | eauto].
  - eapply IH; eauto. apply nodup_app_r in N. exact N.
Qed.

Theorem exactly_one_place : forall s id p q, Inv s -> at_place s id p -> at_place s id q -> p = q.
Proof.
  intros s id p q I Hp Hq. pose proof (inv_ids _ I) as N. unfold live, ids in N. rewrite map_app in N.
  assert (D : forall b, In b (batches s) -> In id (ids (b_txs b)) -> In id (map tx_id (batch_txs (batches s)))).
  { intros b Hb Hi. unfold ids in Hi. apply in_map_iff in Hi. destruct Hi as (x & <- & Hx). apply in_map.
    apply in_batch_txs. eauto. }
  destruct p as [|t n], q as [|t' n']; simpl in *; auto.
  - destruct Hq as (b & Hb & _ & _ & Hi). exfalso. eapply nodup_app_disjoint; [exact N | exact Hp | eauto].
  - destruct Hp as (b & Hb & _ & _ & Hi). exfalso. eapply nodup_app_disjoint; [exact N | exact Hq | eauto].
  - destruct Hp as (b1 & Hb1 & <- & <- & Hi1), Hq as (b2 & Hb2 & <- & <- & Hi2).
    assert (b1 = b2); [|subst; auto].
    eapply nodup_flat_unique; eauto; [|apply I]. apply nodup_app_r in N. exact N.
Qed.

(* no identifier twice inside one place either *)
Theorem no_duplicates : forall s, Inv s -> NoDup (ids (live s)).
Proof. intros s I; apply I. Qed.

(* every identifier handed out so far is live in exactly one place or settled; settled is for good *)
Definition created (s : state) (id : Z) : Prop := id < next_tx s.
Definition is_live (s : state) (id : Z) : Prop := In id (ids (live s)).
Definition settled (s : state) (id : Z) : Prop := created s id /\ ~ is_live s id.

Lemma live_ids_split : forall s id, is_live s id <-> (exists p, at_place s id p).
Proof.
  unfold is_live, live, ids; intros s id. rewrite map_app, in_app_iff. split.
  - intros [H|H]; [exists InPool; auto|].
    apply in_map_iff in H. destruct H as (x & <- & Hx). apply in_batch_txs in Hx. destruct Hx as (b & Hb & Hx).
    exists (InBatch (b_token b) (b_nonce b)). simpl. exists b. repeat split; auto. apply in_map; auto.
  - intros ([|t n] & H); simpl in H; auto. destruct H as (b & Hb & _ & _ & Hi). right.
    unfold ids in Hi. apply in_map_iff in Hi. destruct Hi as (x & <- & Hx). apply in_map. apply in_batch_txs; eauto.
Qed.

Theorem settled_forever : forall s o id, Inv s -> settled s id -> settled (step_state s o) id.
Proof.
  intros s o id I [C1 NL]. pose proof (counters_monotone s o I) as (M & _). split; [unfold created in *; lia|].
  intro L. unfold is_live, ids in L. apply in_map_iff in L. destruct L as (x & Ex & Hx).
  destruct (fresh_ids s o I x Hx) as [(y & Hy & E)|(E & _)]; [|unfold created in C1; lia].
  apply NL. unfold is_live, ids. rewrite <- Ex, <- E. apply in_map; auto.
Qed.

Theorem settled_forever_run : forall ops s id, Inv s -> settled s id -> settled (run s ops) id.
Proof.
  induction ops as [|o r IH]; simpl; intros s id I S; auto.
  apply IH; [apply step_inv; auto | apply settled_forever; auto].
Qed.

(* how a transfer can stop being live: the creator's cancel, or the observed execution of its batch *)
Theorem leaves_only_by : forall s o s' evs x, Inv s -> accepted s o s' evs -> In x (live s) -> ~ is_live s' (tx_id x) ->
  (o = Cancel (tx_id x) (tx_sender x) /\ In x (pool s)) \/
  (exists h b, o = BatchExecuted (b_token b) (b_nonce b) h /\ In b (batches s) /\ In x (b_txs b)).
Proof.
  intros s o s' evs x I A Hx NL. apply accepted_exec in A.
  pose proof (exec_rel _ _ _ _ I A) as [TX _ _ _ _ _ _].
  destruct TX as [o0 P E _ | o0 sender dest amount fee token Hs P Hin E | id who x0 Hin Hid Hsn P E | o1 id who add token x0 L Hfi Hin Hid Ha P P' Hin' E | token nonce h b Hb Ht Hn P E].
  - exfalso. apply NL. unfold is_live, ids. apply in_map. eapply perm_in; [apply Permutation_sym; eauto|auto].
  - exfalso. apply NL. unfold is_live, ids. apply in_map. eapply perm_in; [apply Permutation_sym; eauto|simpl; auto].
  - apply (perm_in _ _ _ _ P) in Hx. destruct Hx as [->|Hx]; [left; subst; auto|].
    exfalso. apply NL. unfold is_live, ids. apply in_map; auto.
  - apply (perm_in _ _ _ _ P) in Hx. exfalso. apply NL. unfold is_live, ids.
    destruct Hx as [->|Hx].
    + rewrite <- (with_fee_id x (tx_fee x + add)). apply in_map. eapply perm_in; [apply Permutation_sym; eauto|simpl; auto].
    + apply in_map. eapply perm_in; [apply Permutation_sym; eauto|simpl; auto].
  - apply (perm_in _ _ _ _ P) in Hx. apply in_app_or in Hx. destruct Hx as [Hx|Hx].
    + right. exists h, b. subst. auto.
    + exfalso. apply NL. unfold is_live, ids. apply in_map; auto.
Qed.

(* a cancel only works for a pooled transfer and its creator *)
Theorem cancel_auth : forall s id who s' evs, Inv s -> accepted s (Cancel id who) s' evs ->
  exists x, In x (pool s) /\ tx_id x = id /\ tx_sender x = who /\ ~ is_live s' id /\
            evs = [EvTxRefund id who (tx_amount x + tx_fee x) (tx_token x)].
Proof.
  intros s id who s' evs I A. apply accepted_exec in A. simpl in A.
  destruct (cancel_spec _ _ _ _ _ (inv_pool_nodup _ I) A) as (x & Hin & Hid & Hs & P & Eb & _ & _ & _ & _ & _ & Ev & _).
  exists x. repeat split; auto.
  pose proof (inv_ids _ I) as N. unfold live in N.
  assert (P2 : Permutation (pool s ++ batch_txs (batches s)) (x :: pool s' ++ batch_txs (batches s'))).
  { rewrite Eb. change (?x :: ?a ++ ?b) with ((x :: a) ++ b). apply Permutation_app_tail; auto. }
  pose proof (nodup_perm_ids _ _ P2 N) as N2. simpl in N2. inv N2. unfold is_live, live. auto.
Qed.

(* after an observed execution nothing about the transfer can be refunded: the id is settled for good *)
Theorem executed_then_no_refund : forall s token nonce h s' evs x ops id who s2 evs2, Inv s ->
  accepted s (BatchExecuted token nonce h) s' evs -> In x (live s) -> ~ is_live s' (tx_id x) -> id = tx_id x ->
  ~ accepted (run s' ops) (Cancel id who) s2 evs2.
Proof.
  intros s token nonce h s' evs x ops id who s2 evs2 I A Hx NL -> A2.
  assert (I' : Inv s').
  { apply accepted_exec in A. eapply step_rel_inv; eauto; [eapply exec_rel; eauto | eapply exec_relation; eauto]. }
  assert (S : settled s' (tx_id x)).
  { split; auto. apply accepted_exec in A. pose proof (exec_rel _ _ _ _ I A) as [TX _ _ _ _ _ _].
    unfold created. pose proof (inv_idlt _ I x Hx). inversion TX; subst; try lia; try contradiction; try nosend. }
  pose proof (settled_forever_run ops s' _ I' S) as [_ NL2].
  destruct (cancel_auth _ _ _ _ _ (run_inv ops s' I') A2) as (y & Hy & Ey & _).
  apply NL2. unfold is_live, live, ids. rewrite map_app. apply in_or_app. left. rewrite <- Ey. apply in_map; auto.
Qed.

(* ---------- payload / preservation ---------- *)
Theorem payload_preserved : forall s o s' evs, Inv s -> accepted s o s' evs -> forall x', In x' (live s') ->
  In x' (live s) \/
  (exists sender dest amount fee token, is_send o sender dest amount fee token /\ 0 < amount /\ 0 <= fee /\
      x' = mk_tx (next_tx s) sender dest token amount fee /\ In x' (pool s')) \/
  (exists x who add token, In x (pool s) /\ is_fee_inc o (tx_id x) who add token /\ 0 < add /\
      x' = with_fee x (tx_fee x + add) /\ In x' (pool s')).
Proof.
  intros s o s' evs I A x' Hx'. apply accepted_exec in A.
  pose proof (exec_rel _ _ _ _ I A) as [TX _ _ _ _ _ _]. destruct TX as [o0 P E _ | o0 sender dest amount fee token Hs P Hin E | id who x0 Hin Hid Hsn P E | o1 id who add token x0 L Hfi Hin Hid Ha P P' Hin' E | token nonce h b Hb Ht Hn P E].
  - left. eapply perm_in; eauto.
  - apply (perm_in _ _ _ _ P) in Hx'. destruct Hx' as [<-|Hx']; auto. right; left.
    exists sender, dest, amount, fee, token. destruct Hs as [->| ->]; simpl in A.
    + destruct (send_spec _ _ _ _ _ _ _ _ A) as (Ha & Hf & _). repeat split; auto; try lia. left; reflexivity.
    + destruct (send_p_spec _ _ _ _ _ _ _ _ A) as (Ha & Hf & _). repeat split; auto. right; reflexivity.
  - left. eapply perm_in; [apply Permutation_sym; eauto|]. simpl; auto.
  - apply (perm_in _ _ _ _ P') in Hx'. destruct Hx' as [<-|Hx'].
    + right; right. exists x0, who, add, token. subst id. auto.
    + left. eapply perm_in; [apply Permutation_sym; eauto|]. simpl; auto.
  - left. eapply perm_in; [apply Permutation_sym; eauto|]. apply in_or_app; auto.
Qed.

(* every live transfer stays live, record unchanged, unless this very step cancels it, raises its fee or executes its batch *)
Theorem live_preserved : forall s o s' evs, Inv s -> accepted s o s' evs -> forall x, In x (live s) ->
  In x (live s') \/
  (o = Cancel (tx_id x) (tx_sender x) /\ In x (pool s)) \/
  (exists who add token, is_fee_inc o (tx_id x) who add token /\ In x (pool s) /\
      In (with_fee x (tx_fee x + add)) (pool s')) \/
  (exists h b, o = BatchExecuted (b_token b) (b_nonce b) h /\ In b (batches s) /\ In x (b_txs b)).
Proof.
  intros s o s' evs I A x Hx. apply accepted_exec in A.
  pose proof (exec_rel _ _ _ _ I A) as [TX _ _ _ _ _ _]. destruct TX as [o0 P E _ | o0 sender dest amount fee token Hs P Hin E | id who x0 Hin Hid Hsn P E | o1 id who add token x0 L Hfi Hin Hid Ha P P' Hin' E | token nonce h b Hb Ht Hn P E].
  - left. eapply perm_in; [apply Permutation_sym; eauto|auto].
  - left. eapply perm_in; [apply Permutation_sym; eauto|simpl; auto].
  - apply (perm_in _ _ _ _ P) in Hx. destruct Hx as [->|Hx]; auto. right; left. subst. auto.
  - apply (perm_in _ _ _ _ P) in Hx. destruct Hx as [->|Hx].
    + right; right; left. exists who, add, token. subst id. auto.
    + left. eapply perm_in; [apply Permutation_sym; eauto|simpl; auto].
  - apply (perm_in _ _ _ _ P) in Hx. apply in_app_or in Hx. destruct Hx as [Hx|Hx]; auto.
    right; right; right. exists h, b. subst. auto.
Qed.

(* CancelOutgoingTxBatch itself: all transfers of the batch are in the pool afterwards, verbatim; the batch is gone *)
Theorem cancel_batch_restores : forall c s b s' evs, Inv s -> cancel_batch c s b = ROk (s', evs) ->
  exists b0, In b0 (batches s) /\ b_token b0 = b_token b /\ b_nonce b0 = b_nonce b /\
    (forall x, In x (b_txs b0) -> In x (pool s')) /\ ~ In b0 (batches s') /\
    Permutation (live s') (live s) /\ bal s' = bal s.
Proof.
  intros c s b s' evs I H. destruct (cancel_batch_spec _ _ _ _ _ (inv_bn _ I) H) as (b0 & Hin & Ht & Hn & _ & P1 & P2 & Eb & R).
  decompose [and] R. exists b0. repeat split; auto.
  - intros x Hx. eapply perm_in; [apply Permutation_sym; eauto|]. apply in_or_app; auto.
  - rewrite Eb. unfold batch_remove. intro F. apply filter_In in F. destruct F as [_ F].
    assert (B : batch_is (b_token b0) (b_nonce b0) b0 = true) by (apply batch_is_spec; auto). rewrite B in F. discriminate.
  - eapply live_cancel; eauto.
Qed.

(* ---------- the ledger ---------- *)
Lemma key_eqb_eq : forall a b, key_eqb a b = true <-> a = b.
Proof.
  intros [[a1 a2] a3] [[b1 b2] b3]; unfold key_eqb. rewrite !andb_true_iff, !Z.eqb_eq.
  split; [intros [[-> ->] ->]; reflexivity | intros H; inv H; auto].
Qed.

Lemma key_eqb_refl : forall a, key_eqb a a = true.
Proof. intros; apply key_eqb_eq; auto. Qed.

Lemma key_eqb_neq : forall a b, a <> b -> key_eqb a b = false.
Proof. intros a b N. destruct (key_eqb a b) eqn:E; auto. apply key_eqb_eq in E. contradiction. Qed.

Lemma get_credit_same : forall l k v, get_bal (credit l k v) k = get_bal l k + v.
Proof. intros; unfold credit; simpl. rewrite key_eqb_refl; auto. Qed.

Lemma get_credit_other : forall l k v k', k' <> k -> get_bal (credit l k v) k' = get_bal l k'.
Proof. intros; unfold credit; simpl. rewrite key_eqb_neq; auto. Qed.

Lemma get_debit : forall l k v l', debit l k v = ROk l' ->
  v <= get_bal l k /\ get_bal l' k = get_bal l k - v /\ forall k', k' <> k -> get_bal l' k' = get_bal l k'.
Proof.
  unfold debit; intros l k v l' H. destruct (get_bal l k <? v) eqn:E; [discriminate|]. inv H.
  apply Z.ltb_ge in E. simpl. rewrite key_eqb_refl. repeat split; auto.
  intros k' N. rewrite key_eqb_neq; auto.
Qed.

Definition user_key (k : acct_key) : Prop := 0 <= fst (fst k).

Lemma user_not_module : forall k, user_key k -> fst (fst k) <> MODULE /\ fst (fst k) <> ERC20MOD.
Proof. unfold user_key, MODULE, ERC20MOD; intros; lia. Qed.

Ltac notmod Uk := let U1 := fresh in let U2 := fresh in destruct (user_not_module _ Uk) as [U1 U2]; ((apply U1; reflexivity) || (apply U2; reflexivity)).

(* ---------- a decision procedure for ledger goals ---------- *)
Lemma debit_inv : forall l k v l', debit l k v = ROk l' -> v <= get_bal l k /\ l' = (k, get_bal l k - v) :: l.
Proof.
  unfold debit; intros l k v l' H. destruct (get_bal l k <? v) eqn:E; [discriminate|]. inv H.
  apply Z.ltb_ge in E. auto.
Qed.

Ltac led_cases :=
  repeat match goal with
         | |- context [Z.eqb ?a ?b] => destruct (Z.eqb_spec a b); subst; cbn [andb]
         | H : context [Z.eqb ?a ?b] |- _ => destruct (Z.eqb_spec a b); subst; cbn [andb] in H
         end.
(* unfold every debit / credit of the hypotheses and the goal, then decide the key comparisons *)
Ltac led :=
  unfold MODULE, ERC20MOD in *;
  repeat match goal with
         | H : bind _ _ = ROk _ |- _ => apply bind_ok in H; destruct H as (? & ? & H)
         | H : ROk _ = ROk _ |- _ => inv H
         | H : debit _ _ _ = ROk _ |- _ => apply debit_inv in H; destruct H as [? H]; match type of H with ?v = _ => first [is_var v; subst v | rewrite H in *; clear H] end
         end;
  repeat match goal with H : ?a = bal ?s |- _ => rewrite <- H in * end;
  unfold credit; cbn [get_bal]; unfold key_eqb; led_cases; try lia; try congruence.

(* a cancel pays exactly amount + fee to the creator and touches no other user balance: base coins in the bank for a
   transfer made by MsgSendToExternal (or from the EVM with FX), ERC-20 tokens for a transfer started from the EVM with an
   ERC-20 token (the one that carries an erc20 outgoing relation) *)
Definition refund_component (s : state) (id : Z) : Z := if existsb (Z.eqb id) (relation s) then 2 else 0.

Theorem refund_exact : forall s id who s' evs, Inv s -> 0 <= who -> accepted s (Cancel id who) s' evs ->
  exists x, In x (pool s) /\ tx_id x = id /\ tx_sender x = who /\
    get_bal (bal s') (who, tx_token x, refund_component s id) =
    get_bal (bal s) (who, tx_token x, refund_component s id) + (tx_amount x + tx_fee x) /\
    (forall k, user_key k -> k <> (who, tx_token x, refund_component s id) -> get_bal (bal s') k = get_bal (bal s) k) /\
    ~ In id (relation s').
Proof.
  intros s id who s' evs I NM A. apply accepted_exec in A. simpl in A.
  destruct (cancel_spec _ _ _ _ _ (inv_pool_nodup _ I) A)
    as (x & Hin & Hid & Hs & _ & _ & _ & _ & _ & _ & _ & _ & _ & k & l & _ & B & R).
  exists x. split; auto. split; auto. split; auto. unfold refund_component.
  destruct (existsb (Z.eqb id) (relation s)) eqn:Rl.
  - destruct R as [Hk Er]. split; [|split].
    + unfold hook_refund in Hk. unfold bridge_to_base in B. destruct k; try discriminate; led.
    + intros [[a t'] w'] Uk Nk. unfold user_key in Uk. simpl in Uk.
      unfold hook_refund in Hk. unfold bridge_to_base in B. destruct k; try discriminate; led.
    + rewrite Er. intro F. apply filter_In in F. destruct F as [_ F]. rewrite Z.eqb_refl in F. discriminate.
  - destruct R as [-> Er]. split; [|split].
    + unfold bridge_to_base in B. destruct k; led.
    + intros [[a t'] w'] Uk Nk. unfold user_key in Uk. simpl in Uk. unfold bridge_to_base in B. destruct k; led.
    + rewrite Er. intro F. apply existsb_z in F. congruence.
Qed.

(* a fee increase: the payer pays exactly the added fee in the offered denom, the entry's fee grows by it, nothing else changes *)
Theorem fee_exact : forall s id who add token which s' evs, Inv s -> 0 <= who ->
  accepted s (IncreaseFee id who add token which) s' evs ->
  0 < add /\
  (exists w, get_bal (bal s') (who, token, w) = get_bal (bal s) (who, token, w) - add /\
     forall k, user_key k -> k <> (who, token, w) -> get_bal (bal s') k = get_bal (bal s) k) /\
  (exists x L, In x (pool s) /\ tx_id x = id /\ tx_token x = token /\
     Permutation (pool s) (x :: L) /\ Permutation (pool s') (with_fee x (tx_fee x + add) :: L)) /\
  batches s' = batches s /\ calls s' = calls s /\
  next_tx s' = next_tx s /\ next_batch s' = next_batch s /\ next_call s' = next_call s /\ obs_ext s' = obs_ext s /\ evs = [].
Proof.
  intros s id who add token which s' evs I NM A. apply accepted_exec in A. simpl in A.
  destruct (increase_spec _ _ _ _ _ _ _ _ (inv_pool_nodup _ I) A)
    as (Ha & x & L & Hin & Hid & Ht & P & P' & Eb & Ec & Et & Enb & Enc & Eo & Ev & _ & k & _ & B).
  repeat split; auto.
  - unfold pay_added_fee in B. destruct k; [exists 0 | exists 1 | exists 1 | exists 1]; split;
      try (intros [[a t'] w'] Uk Nk; unfold user_key in Uk; simpl in Uk); led.
  - exists x, L. auto.
Qed.

(* the same through the increaseBridgeFee precompile: the payer pays exactly the added fee in the form it was offered in
   (FX from the bank, a token as ERC-20), no other user balance moves, nothing else changes *)
Definition offered_component (k : tkind) : Z := match k with KNative => 0 | _ => 2 end.

Theorem fee_exact_p : forall s id who add token s' evs, Inv s -> 0 <= who ->
  accepted s (IncreaseFeeP id who add token) s' evs ->
  0 < add /\
  (exists k, kind_of (toks s) token = Some k /\
     get_bal (bal s') (who, token, offered_component k) = get_bal (bal s) (who, token, offered_component k) - add /\
     forall k0, user_key k0 -> k0 <> (who, token, offered_component k) -> get_bal (bal s') k0 = get_bal (bal s) k0) /\
  (exists x L, In x (pool s) /\ tx_id x = id /\ tx_token x = token /\
     Permutation (pool s) (x :: L) /\ Permutation (pool s') (with_fee x (tx_fee x + add) :: L)) /\
  batches s' = batches s /\ calls s' = calls s /\ relation s' = relation s /\
  next_tx s' = next_tx s /\ next_batch s' = next_batch s /\ next_call s' = next_call s /\ obs_ext s' = obs_ext s /\ evs = [].
Proof.
  intros s id who add token s' evs I NM A. apply accepted_exec in A. simpl in A.
  destruct (increase_p_spec _ _ _ _ _ _ _ (inv_pool_nodup _ I) A)
    as (Ha & x & L & Hin & Hid & Ht & P & P' & Eb & Ec & Et & Enb & Enc & Eo & Ev & Er & _ & k & K & B).
  repeat split; auto.
  - exists k. split; auto. unfold fee_in, erc20_in, pay_added_fee in B. destruct k; try discriminate; cbn [offered_component]; split;
      try (intros [[a t'] w'] Uk Nk; unfold user_key in Uk; simpl in Uk); led.
  - exists x, L. auto.
Qed.

(* a refund of an outgoing bridge call credits the REFUND address with exactly the locked amount of every token:
   in the bank for a call created by MsgBridgeCall, as ERC-20 tokens for a call created by the precompile *)
Definition refund_which (k : tkind) (msg : bool) : Z :=
  match k with KNative => 0 | KExt => 1 | KCoin | KErc => if msg then 0 else 2 end.

Lemma refund_coins_other : forall ts msg coins l r l', refund_coins ts msg l r coins = ROk l' ->
  forall k, user_key k -> fst (fst k) <> r -> get_bal l' k = get_bal l k.
Proof.
  induction coins as [|[t a] rest IH]; simpl; intros l r l' H k Uk Nk; [inv H; auto|].
  pose proof (user_not_module _ Uk) as [N1 N2].
  destruct (kind_of ts t) as [kd|]; [|discriminate]. destruct (a <=? 0); [eauto|]. destruct kd.
  - mon. rewrite (IH _ _ _ H k Uk Nk). destruct (get_debit _ _ _ _ H0) as (_ & _ & O).
    rewrite get_credit_other, O; auto; intro E; subst k; simpl in *; auto.
  - destruct msg; [|discriminate]. rewrite (IH _ _ _ H k Uk Nk). rewrite get_credit_other; auto. intro E; subst k; simpl in *; auto.
  - destruct msg; rewrite (IH _ _ _ H k Uk Nk); rewrite !get_credit_other; auto; intro E; subst k; simpl in *; auto.
  - mon. destruct k as [[a0 t0] w0]. unfold user_key in Uk. simpl in Uk, Nk.
    destruct msg; mon; rewrite (IH _ _ _ H (a0, t0, w0)); auto; led.
Qed.

Fixpoint credited (ts : list (Z * tkind)) (msg : bool) (coins : list (Z * Z)) (t w : Z) : Z :=
  match coins with
  | [] => 0
  | (t', a) :: r =>
      (if (t' =? t) && (0 <? a) && (match kind_of ts t' with Some kd => refund_which kd msg =? w | None => false end) then a else 0)
      + credited ts msg r t w
  end.

Lemma refund_coins_sum : forall ts msg coins l r l', 0 <= r -> refund_coins ts msg l r coins = ROk l' ->
  forall t w, get_bal l' (r, t, w) = get_bal l (r, t, w) + credited ts msg coins t w.
Proof.
  induction coins as [|[t0 a0] rest IH]; simpl; intros l r l' NM H t w; [inv H; lia|].
  assert (N1 : r <> MODULE) by (unfold MODULE; lia). assert (N2 : r <> ERC20MOD) by (unfold ERC20MOD; lia).
  destruct (kind_of ts t0) as [kd|] eqn:K; [|discriminate].
  destruct (a0 <=? 0) eqn:E0.
  - apply Z.leb_le in E0. rewrite (IH _ _ _ NM H t w).
    assert ((0 <? a0) = false) by (apply Z.ltb_ge; lia). rewrite H0, andb_false_r. simpl. lia.
  - apply Z.leb_gt in E0. assert (P : (0 <? a0) = true) by (apply Z.ltb_lt; lia). rewrite P, andb_true_r.
    assert (G : forall l1 w0, refund_coins ts msg (credit l1 (r, t0, w0) a0) r rest = ROk l' ->
                (forall k', fst (fst k') = r -> get_bal l1 k' = get_bal l k') ->
                get_bal l' (r, t, w) = get_bal l (r, t, w) + ((if (t0 =? t) && (w0 =? w) then a0 else 0) + credited ts msg rest t w)).
    { intros l1 w0 H1 Same. rewrite (IH _ _ _ NM H1 t w).
      destruct ((t0 =? t) && (w0 =? w)) eqn:C.
      - apply andb_true_iff in C. destruct C as [C1 C2]. apply Z.eqb_eq in C1, C2. subst t w.
        rewrite get_credit_same, Same; auto. lia.
      - rewrite get_credit_other, Same; [lia | reflexivity |]. intro E; inv E. rewrite !Z.eqb_refl in C; discriminate. }
    destruct kd; cbn [refund_which].
    + mon. destruct (get_debit _ _ _ _ H0) as (_ & _ & O). apply (G x 0 H).
      intros k' Ek. apply O. intro E; subst k'; simpl in Ek; congruence.
    + destruct msg; [|discriminate]. apply (G l 1 H). auto.
    + destruct msg.
      * apply (G _ 0 H). intros k' Ek. rewrite get_credit_other; auto. intro E; subst k'; simpl in Ek; congruence.
      * apply (G _ 2 H). intros k' Ek. rewrite !get_credit_other; auto; intro E; subst k'; simpl in Ek; congruence.
    + mon. destruct msg; mon.
      * apply (G _ 0 H). intros [[a1 t1] w1] Ek. simpl in Ek. subst a1. led.
      * apply (G _ 2 H). intros [[a1 t1] w1] Ek. simpl in Ek. subst a1. led.
Qed.

Lemma coins_valid_in : forall coins prev t a, coins_valid prev coins = true -> In (t, a) coins -> prev < t /\ 0 < a.
Proof.
  induction coins as [|[t0 a0] rest IH]; simpl; intros prev t a V H; [contradiction|].
  apply andb_true_iff in V. destruct V as [V Vr]. apply andb_true_iff in V. destruct V as [Vp Va].
  apply Z.ltb_lt in Vp, Va. destruct H as [H|H]; [inv H; auto|].
  destruct (IH _ _ _ Vr H). lia.
Qed.

Lemma credited_above : forall ts msg coins prev t w, coins_valid prev coins = true -> t <= prev -> credited ts msg coins t w = 0.
Proof.
  induction coins as [|[t0 a0] rest IH]; simpl; intros prev t w V L; auto.
  apply andb_true_iff in V. destruct V as [V Vr]. apply andb_true_iff in V. destruct V as [Vp Va]. apply Z.ltb_lt in Vp.
  assert ((t0 =? t) = false) by (apply Z.eqb_neq; lia). rewrite H. simpl. eapply IH; eauto. lia.
Qed.

Lemma credited_valid : forall ts msg coins prev t a kd, coins_valid prev coins = true -> In (t, a) coins ->
  kind_of ts t = Some kd -> credited ts msg coins t (refund_which kd msg) = a.
Proof.
  induction coins as [|[t0 a0] rest IH]; simpl; intros prev t a kd V H K; [contradiction|].
  pose proof V as V0. apply andb_true_iff in V. destruct V as [V Vr]. apply andb_true_iff in V. destruct V as [Vp Va].
  apply Z.ltb_lt in Vp, Va. destruct H as [H|H].
  - inv H. rewrite Z.eqb_refl, K, Z.eqb_refl. assert ((0 <? a) = true) by (apply Z.ltb_lt; auto). rewrite H. simpl.
    rewrite (credited_above _ _ _ _ _ _ Vr); lia.
  - destruct (coins_valid_in _ _ _ _ Vr H) as [L _].
    assert ((t0 =? t) = false) by (apply Z.eqb_neq; lia). rewrite H0. simpl. eapply IH; eauto.
Qed.

Definition call_from_msg (s : state) (c : bcall) : bool := existsb (Z.eqb (c_nonce c)) (from_msg s).

Theorem call_refund_exact : forall cs s c s' evs, 0 <= c_refund c -> coins_valid (-1) (c_tokens c) = true ->
  refund_call cs s c = ROk (s', evs) ->
  evs = [EvCallRefund (c_nonce c) (c_refund c) (c_tokens c) cs] /\
  (forall t a, In (t, a) (c_tokens c) -> exists kd, kind_of (toks s) t = Some kd /\
      get_bal (bal s') (c_refund c, t, refund_which kd (call_from_msg s c)) =
      get_bal (bal s) (c_refund c, t, refund_which kd (call_from_msg s c)) + a) /\
  (forall k, user_key k -> fst (fst k) <> c_refund c -> get_bal (bal s') k = get_bal (bal s) k).
Proof.
  intros cs s c s' evs NM V H. destruct (refund_call_spec _ _ _ _ _ H) as (_ & _ & Ev & R). repeat split; auto.
  - intros t a Hin. unfold call_from_msg.
    assert (K : exists kd, kind_of (toks s) t = Some kd).
    { clear -R Hin. revert R. generalize (bal s). induction (c_tokens c) as [|[t0 a0] rest IH]; simpl; intros l R; [contradiction|].
      destruct (kind_of (toks s) t0) as [kd|] eqn:K; [|discriminate]. destruct Hin as [E|Hin]; [inv E; eauto|].
      destruct (a0 <=? 0); [eauto|]. destruct kd; [mon; eauto | destruct (existsb _ _); [eauto|discriminate] | destruct (existsb _ _); eauto | mon; destruct (existsb _ _); mon; eauto]. }
    destruct K as (kd & K). exists kd. split; auto.
    rewrite (refund_coins_sum _ _ _ _ _ _ NM R). f_equal. eapply credited_valid; eauto.
  - intros k Uk Nk. eapply refund_coins_other; eauto.
Qed.

(* bridge calls: payload as supplied; once gone, gone for good *)
Theorem call_payload : forall s o s' evs, Inv s -> accepted s o s' evs -> forall c, In c (calls s') ->
  In c (calls s) \/
  (c_nonce c = next_call s /\ c_evnonce c = 0 /\ c_block c = fxh s /\
   (o = BridgeCall (c_sender c) (c_refund c) (c_tokens c) (c_to c) (c_data c) (c_memo c) \/
    exists value tokens, o = BridgeCallP (c_sender c) (c_refund c) value tokens (c_to c) (c_data c) (c_memo c) /\
                         c_tokens c = (if 0 <? value then [(0, value)] else []) ++ tokens)).
Proof.
  intros s o s' evs I A c Hc. apply accepted_exec in A.
  pose proof (exec_rel _ _ _ _ I A) as [_ _ _ _ CS _ _]. destruct (CS c Hc) as [|(E1 & _ & E2 & E3 & E4)]; auto.
Qed.

Definition call_settled (s : state) (n : Z) : Prop := n < next_call s /\ ~ In n (cnonces (calls s)).

Theorem call_settled_forever : forall ops s n, Inv s -> call_settled s n -> call_settled (run s ops) n.
Proof.
  induction ops as [|o r IH]; simpl; intros s n I S; auto.
  apply IH; [apply step_inv; auto|]. destruct S as [C NL]. pose proof (counters_monotone s o I) as (_ & _ & M).
  split; [lia|]. intro L. unfold cnonces in L. apply in_map_iff in L. destruct L as (c & Ec & Hc).
  destruct (fresh_call_nonces s o I c Hc) as [Hin|(E & _)]; [|lia].
  apply NL. unfold cnonces. rewrite <- Ec. apply in_map; auto.
Qed.

(* ---------- the erc20 outgoing relation of EVM-originated transfers ---------- *)
(* it exists only for live transfers (so it is gone once the transfer is settled), without duplicates *)
Theorem relation_only_live : forall s, Inv s -> (forall r, In r (relation s) -> is_live s r) /\ NoDup (relation s).
Proof. intros s I. split; [exact (inv_rel _ I) | exact (inv_reln _ I)]. Qed.

(* it is kept exactly while the transfer stays live and created only by a send from the EVM that pays with an ERC-20 token *)
Theorem relation_step : forall s o s' evs, Inv s -> accepted s o s' evs -> forall r,
  In r (relation s') <-> (In r (relation s) /\ is_live s' r) \/ (r = next_tx s /\ evm_erc20_send s o).
Proof. intros s o s' evs I A. apply accepted_exec in A. exact (proj1 (exec_relation _ _ _ _ I A)). Qed.
