From Coq Require Import ZArith List Bool Lia Permutation.
From FxV Require Import gen.Gen_TimeoutRules model.M_Pool proofs.P_Pool proofs.P_C05 proofs.P_C06 proofs.P_C06b.
Import ListNotations.
Open Scope Z_scope.

Definition ex_ops : list op :=
  [Observe 500; Send 0 1 10 5 0; Send 0 2 7 5 1; RequestBatch 0 1 0 0 1 true; Send 0 1 20 9 0; Cancel 2 0; IncreaseFee 3 0 4 0 1].
Definition ex_state : state := run nv_init ex_ops.

Example c05_nonvacuous :
  reachable ex_state /\ at_place ex_state 1 (InBatch 0 1) /\ at_place ex_state 3 InPool /\ settled ex_state 2 /\
  map (fun x => (tx_id x, tx_fee x)) (pool ex_state) = [(3, 13)] /\
  get_bal (bal ex_state) (0, 1, 0) = get_bal (bal nv_init) (0, 1, 0).
Proof.
  split; [exists nv_params, [(0, KNative); (1, KExt)], w_ledger, 2, ex_ops; reflexivity|].
  split; [|split; [|split; [|split]]].
  - vm_compute. eexists. split; [left; reflexivity|]. repeat split. left; reflexivity.
  - vm_compute. left; reflexivity.
  - split; [vm_compute; reflexivity|]. vm_compute. intros [H|[H|[]]]; discriminate H.
  - vm_compute. reflexivity.
  - vm_compute. reflexivity.
Qed.

Lemma call_refund_after_observed_execution_refuted :
  exists s1 s2 s3 c, reachable s1 /\ In c (calls s1) /\ c_nonce c = 1 /\ c_timeout c = 1003 /\
    step s1 (ObserveResult 1 true 1002) = (s2, [], Ok) /\
    step s2 (Observe 1003) = (s3, [EvCallRefund 1 1 [(0, 50); (1, 60)] ByTimeout], Ok).
Proof.
  destruct no_double_spend_bridgecall_refuted as (_ & s1 & s2 & s3 & s4 & c & H1 & Hc & Hn & Ht & _ & H2 & H3 & _).
  exists s1, s2, s3, c. repeat split; auto.
  exists w_params, [(0, KNative); (1, KExt)], w_ledger, 2, [Observe 1000; BridgeCall 0 1 [(0, 50); (1, 60)] 2 [171; 205] []].
  unfold run. cbn [fold_left]. change (init w_params [(0, KNative); (1, KExt)] w_ledger 2) with w_init.
  unfold step_state at 1. rewrite H1. reflexivity.
Qed.

(* a bridge call queued by the precompile (no from-msg marker) and refunded by a failed result: the REFUND address
   gets the FX in the bank and the registered coin as ERC-20; the sender gets nothing back *)
Definition p_ledger : ledger :=
  [((0, 0, 0), 5000); ((0, 3, 2), 1000); ((ERC20MOD, 3, 0), 3000); ((MODULE, 0, 0), 1000000); ((MODULE, 3, 1), 100000)].
Definition p_init : state := init nv_params [(0, KNative); (3, KCoin)] p_ledger 2.
Definition p_ops : list op := [Observe 500; BridgeCallP 0 1 50 [(3, 60)] 2 [1] []; ObserveResult 1 false 600; ExecResult 2].

Example precompile_call_refund_example :
  let s := run p_init p_ops in
  calls (run p_init (firstn 2 p_ops)) <> [] /\ from_msg (run p_init (firstn 2 p_ops)) = [] /\ calls s = [] /\
  get_bal (bal s) (1, 0, 0) = 50 /\ get_bal (bal s) (1, 3, 2) = 60 /\ get_bal (bal s) (1, 3, 0) = 0 /\
  get_bal (bal s) (0, 0, 0) = 4950 /\ get_bal (bal s) (0, 3, 2) = 940 /\ get_bal (bal s) (0, 3, 0) = 0.
Proof. vm_compute. repeat split; discriminate. Qed.

(* transfers started from the EVM: the ERC-20 one carries the outgoing relation and is refunded as ERC-20, the FX one and
   the message one are refunded in the bank; the relation disappears with the cancel and with the execution *)
Definition r_ledger : ledger :=
  [((0, 0, 0), 5000); ((0, 3, 0), 5000); ((0, 3, 2), 1000); ((1, 3, 2), 1000); ((ERC20MOD, 3, 0), 3000); ((MODULE, 0, 0), 1000000); ((MODULE, 3, 1), 100000)].
Definition r_init : state := init nv_params [(0, KNative); (3, KCoin)] r_ledger 2.
Definition r_ops : list op :=
  [Observe 500; SendP 0 1 40 5 3; SendP 1 2 30 7 3; SendP 0 0 20 3 0; Send 0 1 25 4 3; Cancel 1 0; Cancel 4 0; Cancel 3 0;
   RequestBatch 3 1 0 0 1 true; BatchExecuted 3 1 600].

Example relation_example :
  relation (run r_init (firstn 5 r_ops)) = [2; 1] /\
  (let s := run r_init (firstn 6 r_ops) in relation s = [2] /\ get_bal (bal s) (0, 3, 2) = 1000 /\ get_bal (bal s) (0, 3, 0) = 5000 - 29) /\
  (let s := run r_init (firstn 8 r_ops) in get_bal (bal s) (0, 3, 0) = 5000 /\ get_bal (bal s) (0, 0, 0) = 5000 /\ get_bal (bal s) (0, 3, 2) = 1000) /\
  (let s := run r_init r_ops in relation s = [] /\ pool s = [] /\ batches s = [] /\ get_bal (bal s) (1, 3, 2) = 963).
Proof. vm_compute. repeat split. Qed.
