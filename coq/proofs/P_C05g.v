(* P_C05g.v — (a) genesis export/import of the module and the identifier counters (finding C05-2);
              (b) how long the stop-at-first rule of cleanupTimeOutBridgeCall can delay a time-out refund *)
From Coq Require Import ZArith List Bool Lia Permutation.
From FxV Require Import gen.Gen_TimeoutRules model.M_Pool proofs.P_Pool proofs.P_C05 proofs.P_C06.
Import ListNotations.
Open Scope Z_scope.

(* ---------- (a) ---------- *)
Definition g_params : params := {| p_batch_timeout := 60000; p_avg_block := 100; p_avg_ext := 100; p_call_timeout := 3600001; p_max_elems := 100 |}.
Definition g_ledger : ledger := [((0, 0, 0), 5000); ((1, 0, 0), 5000); ((2, 0, 0), 5000); ((MODULE, 0, 0), 1000000)].
Definition g_ops : list op :=
  [Observe 1000; Send 0 1 10 5 0; Send 1 1 11 6 0; Send 2 1 12 7 0; RequestBatch 0 1 0 0 1 true; Send 0 2 13 8 0;
   BridgeCall 0 1 [(0, 50)] 2 [1] []; NextBlock].
Definition g_before : state := run (init g_params [(0, KNative)] g_ledger 2) g_ops.
Definition g_after : state := export_import g_before.

(* the round trip keeps every live record but forgets the counters and the bridge calls: the next transfer gets the id
   of a live one, the next batch the nonce of a stored one (and replaces it: its transfers are gone), the next bridge
   call the nonce of the dropped one *)
Lemma export_import_refuted :
  reachable g_before /\
  live g_after = live g_before /\ next_tx g_before = 5 /\ next_tx g_after = 1 /\
  calls g_before <> [] /\ calls g_after = [] /\
  (* a new transfer: id 1, already the id of a batched transfer *)
  (let s1 := step_state g_after (Send 0 2 20 30 0) in
   ~ NoDup (ids (live s1)) /\ at_place s1 1 InPool /\ at_place s1 1 (InBatch 0 1)) /\
  (* a new batch: nonce 1, the stored batch 1 is overwritten and its transfers (3, 2 and 1) are in no place any more, nothing is refunded *)
  (let s2 := run g_after [Send 0 2 20 30 0; NextBlock; RequestBatch 0 1 0 0 1 true] in
   map b_nonce (batches s2) = [1] /\ In 3 (ids (live g_after)) /\ ~ In 3 (ids (live s2)) /\
   get_bal (bal s2) (2, 0, 0) = get_bal (bal g_after) (2, 0, 0)).
Proof.
  split; [exists g_params, [(0, KNative)], g_ledger, 2, g_ops; reflexivity|].
  vm_compute. repeat split; try discriminate; auto.
  - intro N. inversion N as [|? ? N1 N2]; subst. apply N1. simpl. auto 10.
  - eexists. split; [left; reflexivity|]. simpl. auto 10.
  - intros [H|[H|H]]; try discriminate; auto.
Qed.

(* what the round trip does keep: the records, hence "exactly one place" for the transfers that exist *)
Lemma export_import_keeps_records : forall s, Inv s ->
  live (export_import s) = live s /\ NoDup (ids (live (export_import s))) /\ NoDup (bnonces (batches (export_import s))).
Proof. intros s I. repeat split; apply I. Qed.

(* with the counters re-derived from the imported records the structural invariant survives the round trip *)
Lemma max_of_ge : forall l x, In x l -> x <= max_of l.
Proof.
  induction l as [|y r IH]; intros x H; [contradiction|]. destruct H as [->|H]; [unfold max_of; simpl; lia|].
  specialize (IH x H). unfold max_of in *. simpl. lia.
Qed.

Lemma export_import_patched_inv : forall s, Inv s -> Inv (export_import_patched s).
Proof.
  intros s I. constructor; cbn -[Z.add max_of]; try apply I; try constructor.
  - intros x Hx. assert (tx_id x <= max_of (map tx_id (pool s ++ flat_map b_txs (batches s)))) by (apply max_of_ge, in_map; exact Hx). lia.
  - intros b Hb. assert (b_nonce b <= max_of (map b_nonce (batches s))) by (apply max_of_ge, in_map; exact Hb). lia.
  - intros c [].
Qed.

(* ---------- (b) ---------- *)
Lemma delete_call_gone : forall s n, NoDup (cnonces (calls s)) -> ~ In n (cnonces (calls (delete_call s n))).
Proof.
  intros s n ND H. unfold delete_call in H. destruct (find_call n (calls s)) as [c|] eqn:F; simpl in H.
  - unfold cnonces, call_remove in H. apply in_map_iff in H. destruct H as (x & E & Hx). apply filter_In in Hx.
    destruct Hx as [_ Hx]. rewrite E, Z.eqb_refl in Hx. discriminate.
  - unfold cnonces in H. apply in_map_iff in H. destruct H as (x & E & Hx). unfold find_call in F.
    eapply find_none in F; eauto. simpl in F. rewrite E, Z.eqb_refl in F. discriminate.
Qed.

Lemma cleanup_prefix_refunded : forall pre s s' evs c post,
  NoDup (cnonces (calls s)) ->
  (forall x, In x (pre ++ [c]) -> call_cleanup_stop (c_timeout x) (obs_ext s) = false) ->
  cleanup_calls_from (pre ++ c :: post) s = ROk (s', evs) ->
  ~ In (c_nonce c) (cnonces (calls s')).
Proof.
  induction pre as [|y r IH]; simpl; intros s s' evs c post ND St H.
  - rewrite (St c (or_introl eq_refl)) in H. mon. destruct x as [s1 e1], x0 as [s2 e2]. simpl in *.
    destruct (refund_call_spec _ _ _ _ _ H0) as (S1 & Ec & _ & _).
    destruct (cleanup_calls_from_spec _ _ _ _ H1) as (S2 & _).
    intro Hin. unfold cnonces in Hin. apply in_map_iff in Hin. destruct Hin as (x & E & Hx).
    apply (sh_csub _ _ S2) in Hx. assert (N1 : NoDup (cnonces (calls s1))) by (rewrite Ec; auto).
    apply (delete_call_gone s1 (c_nonce c) N1). unfold cnonces. apply in_map_iff. exists x. split; auto.
  - rewrite (St y (or_introl eq_refl)) in H. mon. destruct x as [s1 e1], x0 as [s2 e2]. simpl in *.
    destruct (refund_call_spec _ _ _ _ _ H0) as (S1 & Ec & _ & _).
    eapply (IH (delete_call s1 (c_nonce y))); eauto.
    + apply (sh_cn _ _ (delete_call_shrink s1 (c_nonce y))). rewrite Ec; auto.
    + intros x Hx. rewrite (sh_ext _ _ (delete_call_shrink s1 (c_nonce y))), (sh_ext _ _ S1). apply St; auto.
Qed.

Lemma cleanup_prefix_event : forall pre s s' evs c post,
  (forall x, In x (pre ++ [c]) -> call_cleanup_stop (c_timeout x) (obs_ext s) = false) ->
  cleanup_calls_from (pre ++ c :: post) s = ROk (s', evs) ->
  In (EvCallRefund (c_nonce c) (c_refund c) (c_tokens c) ByTimeout) evs.
Proof.
  induction pre as [|y r IH]; simpl; intros s s' evs c post St H.
  - rewrite (St c (or_introl eq_refl)) in H. mon. destruct x as [sa ea]. simpl in *.
    destruct (refund_call_spec _ _ _ _ _ H0) as (_ & _ & -> & _). simpl. auto.
  - rewrite (St y (or_introl eq_refl)) in H. mon. destruct x as [sa ea], x0 as [sb eb]. simpl in *.
    apply in_or_app. right. destruct (refund_call_spec _ _ _ _ _ H0) as (S1 & _).
    apply (IH (delete_call sa (c_nonce y)) sb eb c post); [|exact H1]. intros x Hx.
    rewrite (sh_ext _ _ (delete_call_shrink sa (c_nonce y))), (sh_ext _ _ S1). apply St; auto.
Qed.

(* a call that has timed out is refunded by an observed event unless an OLDER call (earlier in store order = lower nonce)
   has not timed out yet; so it is refunded at the latest by the first event whose height has reached the time-outs of
   all calls up to and including it *)
Theorem timed_out_call_refunded_unless_blocked : forall s h s' evs pre c post, Inv s ->
  accepted s (Observe h) s' evs -> calls s = pre ++ c :: post ->
  (forall x, In x (pre ++ [c]) -> c_timeout x <= h) ->
  ~ In (c_nonce c) (cnonces (calls s')) /\ In (EvCallRefund (c_nonce c) (c_refund c) (c_tokens c) ByTimeout) evs.
Proof.
  intros s h s' evs pre c post I A Ec T. apply accepted_exec in A. simpl in A.
  unfold do_observe in A. des A. unfold cleanups in A. mon. destruct x as [s1 e1], x0 as [s2 e2]. simpl in *.
  unfold cleanup_batches in H.
  assert (NBo : NoDup (bnonces (batches (observed s h)))) by apply I.
  destruct (cancel_where_spec _ _ _ _ (observed s h) _ _ NBo H) as (S1 & _).
  unfold cleanup_calls in H0. rewrite (sb_calls _ _ S1) in H0. simpl in H0. rewrite Ec in H0.
  assert (St : forall x, In x (pre ++ [c]) -> call_cleanup_stop (c_timeout x) (obs_ext s1) = false).
  { intros x Hx. rewrite (sb_ext _ _ S1). simpl. specialize (T x Hx). rules. }
  split.
  - eapply cleanup_prefix_refunded; eauto. rewrite (sb_calls _ _ S1). simpl. apply I.
  - apply in_or_app. right. eapply cleanup_prefix_event; eauto.
Qed.


(* ---------- (c) the module migration of the v8 upgrade ---------- *)
(* Migrator.Migrate rewrites parameters only: counters, pool, batches (with their block index), bridge calls with their
   indexes, parked claims, observed heights, the ledger and the erc20 relation are untouched, nothing is emitted *)
Theorem migrate_preserves : forall s s' evs, accepted s Migrate s' evs ->
  pool s' = pool s /\ batches s' = batches s /\ by_block s' = by_block s /\
  next_tx s' = next_tx s /\ next_batch s' = next_batch s /\ next_call s' = next_call s /\
  calls s' = calls s /\ by_sender s' = by_sender s /\ from_msg s' = from_msg s /\ pending s' = pending s /\
  evn s' = evn s /\ obs_ext s' = obs_ext s /\ obs_fx s' = obs_fx s /\ fxh s' = fxh s /\
  bal s' = bal s /\ toks s' = toks s /\ relation s' = relation s /\ evs = [] /\
  p_batch_timeout (prm s') = p_batch_timeout (prm s) /\ p_avg_block (prm s') = p_avg_block (prm s) /\
  p_avg_ext (prm s') = p_avg_ext (prm s) /\ p_max_elems (prm s') = p_max_elems (prm s) /\ p_call_timeout (prm s') = 604800000.
Proof.
  intros s s' evs A. apply accepted_exec in A. simpl in A. des A. inv A. simpl. repeat split; reflexivity.
Qed.

(* ---------- (d) what the genesis round trip preserves (with the registry restored by InitGenesis) ---------- *)
Theorem export_import_preserves : forall s,
  let s' := export_import s in
  pool s' = pool s /\ batches s' = batches s /\ by_block s' = by_block s /\
  evn s' = evn s /\ obs_ext s' = obs_ext s /\ obs_fx s' = obs_fx s /\ fxh s' = fxh s /\
  bal s' = bal s /\ prm s' = prm s /\ toks s' = toks s /\ relation s' = relation s /\
  (* ... and what it does not (finding C05-2) *)
  next_tx s' = 1 /\ next_batch s' = 1 /\ next_call s' = 1 /\
  calls s' = [] /\ by_sender s' = [] /\ from_msg s' = [] /\ pending s' = [].
Proof. intros s. simpl. repeat split; reflexivity. Qed.

(* ---------- (e) finding C05-3: the refund of a bridge call carrying an externally owned ERC-20 cannot be paid ---------- *)
Definition w_params_c : params := {| p_batch_timeout := 60000; p_avg_block := 7000; p_avg_ext := 1200000; p_call_timeout := 3600001; p_max_elems := 100 |}.
Definition e_ledger : ledger := [((0, 4, 2), 1000); ((0, 0, 0), 5000); ((MODULE, 0, 0), 1000000); ((MODULE, 4, 1), 100000)].
Definition e_init : state := init w_params_c [(0, KNative); (4, KErc)] e_ledger 2.
Definition e_ops : list op := [Observe 1000; BridgeCallP 0 1 0 [(4, 60)] 2 [1] []; ObserveResult 1 false 1001].
Definition e_state : state := run e_init e_ops.

Lemma erc20_call_refund_impossible :
  reachable e_state /\
  map c_nonce (calls e_state) = [1] /\ map c_timeout (calls e_state) = [1003] /\ pending e_state = [(2, (1, false))] /\
  (* the tokens are escrowed / locked: the caller paid *)
  get_bal (bal e_state) (0, 4, 2) = 940 /\ get_bal (bal e_state) (ERC20MOD, 4, 2) = 60 /\ get_bal (bal e_state) (MODULE, 4, 1) = 100060 /\
  (* the failure result cannot be executed, and no event at or after the time-out can be observed *)
  snd (step e_state (ExecResult 2)) = Panic /\
  snd (step e_state (Observe 1003)) = Panic /\ snd (step e_state (Observe 5000)) = Panic /\
  snd (step e_state (Observe 1002)) = Ok.
Proof.
  split; [exists w_params_c, [(0, KNative); (4, KErc)], e_ledger, 2, e_ops; reflexivity|].
  vm_compute. repeat split.
Qed.
