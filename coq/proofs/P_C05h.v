(* P_C05h.v — (a) "settled exactly once" over histories; (b) histories that contain a genesis export/import *)
From Coq Require Import ZArith List Bool Lia Permutation.
From FxV Require Import gen.Gen_TimeoutRules model.M_Pool proofs.P_Pool proofs.P_C05 proofs.P_C05g.
Import ListNotations.
Open Scope Z_scope.

(* ---------- (a) transfers ---------- *)
Definition is_liveb (s : state) (id : Z) : bool := existsb (Z.eqb id) (ids (live s)).
Definition settledb (s : state) (id : Z) : bool := (id <? next_tx s) && negb (is_liveb s id).

Lemma is_liveb_spec : forall s id, is_liveb s id = true <-> is_live s id.
Proof. intros; unfold is_liveb, is_live. apply existsb_z. Qed.

Lemma settledb_spec : forall s id, settledb s id = true <-> settled s id.
Proof.
  intros s id. unfold settledb, settled, created. rewrite andb_true_iff, Z.ltb_lt, negb_true_iff. split.
  - intros [C L]. split; auto. intro H. apply is_liveb_spec in H. congruence.
  - intros [C L]. split; auto. destruct (is_liveb s id) eqn:E; auto. apply is_liveb_spec in E. contradiction.
Qed.

(* a settlement of [id] happens in a step when it is live before and not live after; count them along a history *)
Fixpoint settle_count (s : state) (ops : list op) (id : Z) : nat :=
  match ops with
  | [] => O
  | o :: r => ((if is_liveb s id && negb (is_liveb (step_state s o) id) then 1 else 0) + settle_count (step_state s o) r id)%nat
  end.

Lemma settle_zero_when_settled : forall ops s id, Inv s -> settled s id -> settle_count s ops id = O.
Proof.
  induction ops as [|o r IH]; simpl; intros s id I S; auto.
  assert (L : is_liveb s id = false).
  { destruct (is_liveb s id) eqn:E; auto. apply is_liveb_spec in E. destruct S; contradiction. }
  rewrite L. simpl. apply IH; [apply step_inv; auto | apply settled_forever; auto].
Qed.

(* an identifier handed out in a step is live right after it *)
Lemma created_fresh_live : forall s o id, Inv s -> ~ created s id -> created (step_state s o) id -> is_live (step_state s o) id.
Proof.
  intros s o id I NC C. unfold created in *.
  destruct (step_state_cases s o) as [(evs & H)|E]; [|rewrite E in C; contradiction].
  pose proof (exec_rel _ _ _ _ I H) as [TX _ _ _ _ _ _]. set (s' := step_state s o) in *. clearbody s'.
  destruct TX as [o0 P E _ | o0 sender dest amount fee token Hs P Hin E | i who x0 Hin Hid Hsn P E
                 | o1 i who add token x0 L Hfi Hin Hid Ha P P' Hin' E | token nonce h b Hb Ht Hn P E]; try lia.
  assert (id = next_tx s) by lia. subst id.
  unfold is_live, ids. apply (in_map tx_id) in Hin. unfold live. rewrite map_app. apply in_or_app. left. exact Hin.
Qed.

(* exactly once: an identifier that is not yet settled at the start of a history is settled exactly once in it if it is
   settled at the end, and never otherwise; one that is already settled is never settled again *)
Theorem settled_exactly_once : forall ops s id, Inv s ->
  settle_count s ops id = (if settledb s id then O else if settledb (run s ops) id then 1%nat else O).
Proof.
  induction ops as [|o r IH]; intros s id I.
  - simpl. destruct (settledb s id); reflexivity.
  - destruct (settledb s id) eqn:S0.
    + apply settle_zero_when_settled; auto. apply settledb_spec; auto.
    + cbn [settle_count run fold_left]. pose proof (step_inv s o I) as I1. rewrite (IH (step_state s o) id I1).
      change (fold_left step_state r (step_state s o)) with (run (step_state s o) r).
      destruct (settledb (step_state s o) id) eqn:S1.
      * (* settled by this very step *)
        assert (S1' : settled (step_state s o) id) by (apply settledb_spec; auto).
        pose proof (settled_forever_run r _ _ I1 S1') as SF. apply settledb_spec in SF. rewrite SF.
        assert (L0 : is_liveb s id = true).
        { destruct (is_liveb s id) eqn:E; auto. exfalso.
          unfold settledb in S0. rewrite E in S0. simpl in S0. rewrite andb_true_r in S0. apply Z.ltb_ge in S0.
          destruct S1' as [C1 NL1]. apply NL1. apply created_fresh_live; auto. unfold created. lia. }
        assert (L1 : is_liveb (step_state s o) id = false).
        { destruct (is_liveb (step_state s o) id) eqn:E; auto. apply is_liveb_spec in E. destruct S1'; contradiction. }
        rewrite L0, L1. reflexivity.
      * (* not settled by this step: no settlement transition here *)
        assert (T : is_liveb s id && negb (is_liveb (step_state s o) id) = false).
        { destruct (is_liveb s id) eqn:L0; auto. destruct (is_liveb (step_state s o) id) eqn:L1; auto. exfalso.
          apply is_liveb_spec in L0. unfold is_live, ids in L0. apply in_map_iff in L0. destruct L0 as (x & Ex & Hx).
          pose proof (inv_idlt _ I x Hx) as Lt. pose proof (counters_monotone s o I) as (M & _).
          unfold settledb in S1. rewrite L1 in S1. simpl in S1. rewrite andb_true_r in S1. apply Z.ltb_ge in S1. lia. }
        rewrite T. reflexivity.
Qed.

Theorem settled_at_most_once : forall ops s id, Inv s -> (settle_count s ops id <= 1)%nat.
Proof.
  intros ops s id I. rewrite settled_exactly_once; auto.
  destruct (settledb s id); [lia|]. destruct (settledb (run s ops) id); lia.
Qed.

(* the event of a settlement: the creator's refund event, or the execution event of the batch that holds the transfer *)
Lemma batch_executed_event : forall s t n s' evs, batch_executed s t n = ROk (s', evs) -> In (EvBatchExecuted t n) evs.
Proof.
  unfold batch_executed; intros s t n s' evs H. destruct (find_batch t n (batches s)); [|discriminate].
  mon. apply in_or_app. right. simpl. auto.
Qed.

Theorem settlement_has_its_event : forall s o s' evs id, Inv s -> accepted s o s' evs -> is_live s id -> ~ is_live s' id ->
  (exists x, In x (pool s) /\ tx_id x = id /\ o = Cancel id (tx_sender x) /\
             evs = [EvTxRefund id (tx_sender x) (tx_amount x + tx_fee x) (tx_token x)]) \/
  (exists h b, o = BatchExecuted (b_token b) (b_nonce b) h /\ In b (batches s) /\ In id (ids (b_txs b)) /\
               In (EvBatchExecuted (b_token b) (b_nonce b)) evs).
Proof.
  intros s o s' evs id I A L NL. unfold is_live, ids in L. apply in_map_iff in L. destruct L as (x & Ex & Hx). subst id.
  destruct (leaves_only_by _ _ _ _ _ I A Hx NL) as [[Eo Hp]|(h & b & Eo & Hb & Hxb)].
  - left. subst o. destruct (cancel_auth _ _ _ _ _ I A) as (y & Hy & Ey & Sy & _ & Ev).
    assert (y = x). { eapply nodup_ids_unique; [apply (inv_pool_nodup _ I)| | |]; auto. } subst y.
    exists x. repeat split; auto.
  - right. exists h, b. repeat split; auto. { apply in_map; auto. }
    subst o. apply accepted_exec in A. simpl in A.
    destruct (batch_executed_op_spec _ _ _ _ _ _ I A) as (_ & _ & s1 & e1 & e2 & H1 & _ & -> & _).
    apply in_or_app. left. eapply batch_executed_event; eauto.
Qed.

(* ---------- (a') bridge calls: the record of a call is removed (by its result or by its time-out) at most once ---------- *)
Definition call_liveb (s : state) (n : Z) : bool := existsb (Z.eqb n) (cnonces (calls s)).
Definition call_settledb (s : state) (n : Z) : bool := (n <? next_call s) && negb (call_liveb s n).
Fixpoint call_settle_count (s : state) (ops : list op) (n : Z) : nat :=
  match ops with
  | [] => O
  | o :: r => ((if call_liveb s n && negb (call_liveb (step_state s o) n) then 1 else 0) + call_settle_count (step_state s o) r n)%nat
  end.

Lemma call_settledb_spec : forall s n, call_settledb s n = true <-> call_settled s n.
Proof.
  intros s n. unfold call_settledb, call_settled, call_liveb. rewrite andb_true_iff, Z.ltb_lt, negb_true_iff. split.
  - intros [C L]. split; auto. intro H. apply existsb_z in H. congruence.
  - intros [C L]. split; auto. destruct (existsb (Z.eqb n) (cnonces (calls s))) eqn:E; auto. apply existsb_z in E. contradiction.
Qed.

Theorem call_settled_at_most_once : forall ops s n, Inv s -> (call_settle_count s ops n <= 1)%nat.
Proof.
  assert (Z0 : forall ops s n, Inv s -> call_settled s n -> call_settle_count s ops n = O).
  { induction ops as [|o r IH]; simpl; intros s n I S; auto.
    assert (L : call_liveb s n = false).
    { unfold call_liveb. destruct (existsb (Z.eqb n) (cnonces (calls s))) eqn:E; auto. apply existsb_z in E. destruct S; contradiction. }
    rewrite L. simpl. apply IH; [apply step_inv; auto|]. apply (call_settled_forever [o] s n I S). }
  induction ops as [|o r IH]; simpl; intros s n I; [lia|].
  destruct (call_liveb s n && negb (call_liveb (step_state s o) n)) eqn:T.
  - apply andb_true_iff in T. destruct T as [L0 L1]. apply negb_true_iff in L1.
    rewrite Z0; [lia | apply step_inv; auto|].
    split.
    + unfold call_liveb in L0. apply existsb_z in L0. unfold cnonces in L0. apply in_map_iff in L0. destruct L0 as (c & Ec & Hc).
      pose proof (inv_cnlt _ I c Hc). pose proof (counters_monotone s o I) as (_ & _ & M). lia.
    + intro H. unfold call_liveb in L1. apply existsb_z in H. congruence.
  - specialize (IH (step_state s o) n (step_inv s o I)). lia.
Qed.

(* ---------- (b) histories that contain a genesis export/import of the module ---------- *)
(* with the import as the code does it the invariant does NOT survive (finding C05-2, theorem
   C05_ids_across_genesis_export_import_refuted, evaluated in the model); with the counters re-derived from the imported
   records (the minimal patch) it does, for every history that contains any number of such round trips *)
Inductive lop := LO (o : op) | LImportPatched.
Definition lstep (s : state) (l : lop) : state := match l with LO o => step_state s o | LImportPatched => export_import_patched s end.
Definition lrun (s : state) (ls : list lop) : state := fold_left lstep ls s.
Definition lreachable (s : state) : Prop := exists p ts l h0 ls, s = lrun (init p ts l h0) ls.

Theorem lrun_inv : forall ls s, Inv s -> Inv (lrun s ls).
Proof.
  induction ls as [|l r IH]; simpl; intros s I; auto. apply IH. destruct l; simpl; [apply step_inv | apply export_import_patched_inv]; auto.
Qed.

Theorem lreachable_inv : forall s, lreachable s -> Inv s.
Proof. intros s (p & ts & l & h0 & ls & ->). apply lrun_inv, init_inv. Qed.
