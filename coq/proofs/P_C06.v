(* P_C06.v — the C06 statements over model.M_Pool and the generated rules gen.Gen_TimeoutRules *)
From Coq Require Import ZArith List Bool Lia Permutation String.
From FxV Require Import gen.Gen_TimeoutRules model.M_Pool proofs.P_Pool proofs.P_C05.
Import ListNotations.
Open Scope Z_scope.

(* ---------- what the generated operators say (re-checked whenever the sources change) ---------- *)
Definition cmp_prop (c : cmp) (a b : Z) : Prop :=
  match c with CLt => a < b | CLe => a <= b | CGt => a > b | CGe => a >= b | CEq => a = b | CNe => a <> b end.

Lemma cmp_eval_true : forall c a b, cmp_eval c a b = true <-> cmp_prop c a b.
Proof.
  intros [] a b; simpl.
  - apply Z.ltb_lt. - apply Z.leb_le. - rewrite Z.gtb_ltb, Z.ltb_lt; lia. - rewrite Z.geb_leb, Z.leb_le; lia.
  - apply Z.eqb_eq. - rewrite negb_true_iff. apply Z.eqb_neq.
Qed.

Lemma cmp_eval_false : forall c a b, cmp_eval c a b = false <-> ~ cmp_prop c a b.
Proof.
  intros c a b. rewrite <- cmp_eval_true. destruct (cmp_eval c a b); split; intro H; try discriminate; auto.
  exfalso; apply H; auto.
Qed.

(* turn every comparison of the generated rules into arithmetic; works for whatever operators the sources contain *)
Ltac rules :=
  unfold batch_cleanup_cancel, call_cleanup_stop, contract_batch_ok, contract_call_ok, batch_build_reject, call_build_reject,
         cal_zero_guard in *;
  repeat match goal with
         | H : cmp_eval _ _ _ = true |- _ => apply cmp_eval_true in H
         | H : cmp_eval _ _ _ = false |- _ => apply cmp_eval_false in H
         | |- cmp_eval _ _ _ = true => apply cmp_eval_true
         | |- cmp_eval _ _ _ = false => apply cmp_eval_false
         end;
  unfold batch_cleanup_cmp, call_cleanup_stop_cmp, contract_batch_cmp, contract_call_cmp, batch_build_reject_cmp,
         call_build_reject_cmp, cal_zero_cmp, cmp_prop in *;
  try lia.

(* a batch is cancelled / a call refunded for time-out only when the observed height has reached the time-out *)
Lemma batch_cleanup_reached : forall t e, batch_cleanup_cancel t e = true -> t <= e.
Proof. intros; rules. Qed.
Lemma call_cleanup_reached : forall t e, call_cleanup_stop t e = false -> t <= e.
Proof. intros; rules. Qed.

(* keeper rule and contract rule exclude each other: whatever block the contract still executes at lies strictly
   before any height at which the keeper releases *)
Lemma batch_rules_compatible : forall b t e, contract_batch_ok b t = true -> batch_cleanup_cancel t e = true -> b < e.
Proof. intros; rules. Qed.
Lemma call_rules_compatible : forall b t e, contract_call_ok b t = true -> call_cleanup_stop t e = false -> b < e.
Proof. intros; rules. Qed.

(* once the observed height allows the release it keeps allowing it *)
Lemma batch_cancel_monotone : forall t e e', e <= e' -> batch_cleanup_cancel t e = true -> batch_cleanup_cancel t e' = true.
Proof. intros; rules. Qed.
Lemma call_refund_monotone : forall t e e', e <= e' -> call_cleanup_stop t e = false -> call_cleanup_stop t e' = false.
Proof. intros; rules. Qed.

Lemma build_rejects_zero : batch_build_reject 0 = true /\ call_build_reject 0 = true.
Proof. split; rules. Qed.

Lemma cal_zero : cal_zero_guard 0 = true /\ cal_zero_result = 0.
Proof. split; [rules | reflexivity]. Qed.

Lemma rules_as_read :
  (forall t e, batch_cleanup_cancel t e = true -> t <= e) /\
  (forall t e, call_cleanup_stop t e = false -> t <= e) /\
  (forall b t e, contract_batch_ok b t = true -> batch_cleanup_cancel t e = true -> b < e) /\
  (forall b t e, contract_call_ok b t = true -> call_cleanup_stop t e = false -> b < e) /\
  (forall t e e', e <= e' -> batch_cleanup_cancel t e = true -> batch_cleanup_cancel t e' = true) /\
  (forall t e e', e <= e' -> call_cleanup_stop t e = false -> call_cleanup_stop t e' = false) /\
  batch_build_reject 0 = true /\ call_build_reject 0 = true /\ cal_zero_guard 0 = true /\ cal_zero_result = 0.
Proof.
  pose proof build_rejects_zero as [B1 B2]. pose proof cal_zero as [Z1 Z2].
  repeat split; auto.
  - exact batch_cleanup_reached. - exact call_cleanup_reached. - exact batch_rules_compatible.
  - exact call_rules_compatible. - exact batch_cancel_monotone. - exact call_refund_monotone.
Qed.

(* the two clean-ups are called from TryAttestation only, after the observed height was written and the event processed *)
Lemma cleanup_call_sites :
  cleanup_batches_callers = ["TryAttestation"%string] /\ cleanup_calls_callers = ["TryAttestation"%string] /\
  try_attestation_order = ["SetLastObservedBlockHeight"; "processAttestation"; "cleanupTimedOutBatches"; "cleanupTimeOutBridgeCall"]%string.
Proof. repeat split; reflexivity. Qed.

(* every writer of the observed external height takes it from the claim (or from the genesis file) *)
Lemma height_writers : forall site, In site set_observed_sites ->
  site = ("InitGenesis", "state.LastObservedBlockHeight.ExternalBlockHeight")%string \/
  site = ("TryAttestation", "claim.GetBlockHeight()")%string.
Proof. intros site H. simpl in H. intuition. Qed.

(* ---------- evidence ---------- *)
Definition observing (o : op) : option Z :=
  match o with BatchExecuted _ _ h | Observe h | ObserveResult _ _ h => Some h | _ => None end.

Definition timeout_event_ok (s : state) (o : op) (e : event) : Prop :=
  match e with
  | EvBatchCanceled t n ByTimeout =>
      exists h b, observing o = Some h /\ In b (batches s) /\ b_token b = t /\ b_nonce b = n /\
                  batch_cleanup_cancel (b_timeout b) h = true /\ b_timeout b <= h
  | EvCallRefund n r toks ByTimeout =>
      exists h c, observing o = Some h /\ In c (calls s) /\ c_nonce c = n /\ c_refund c = r /\ c_tokens c = toks /\
                  call_cleanup_stop (c_timeout c) h = false /\ c_timeout c <= h
  | _ => True
  end.

Lemma cleanup_events_ok : forall s o h evs,
  observing o = Some h ->
  (forall e, In e evs ->
     (exists b, In b (batches s) /\ batch_cleanup_cancel (b_timeout b) h = true /\
                e = EvBatchCanceled (b_token b) (b_nonce b) ByTimeout) \/
     (exists c, In c (calls s) /\ call_cleanup_stop (c_timeout c) h = false /\
                e = EvCallRefund (c_nonce c) (c_refund c) (c_tokens c) ByTimeout)) ->
  forall e, In e evs -> timeout_event_ok s o e.
Proof.
  intros s o h evs Ho H e He. destruct (H e He) as [(b & Hb & C & ->)|(c & Hc & C & ->)]; simpl.
  - exists h, b. repeat split; auto. apply batch_cleanup_reached; auto.
  - exists h, c. repeat split; auto. apply call_cleanup_reached; auto.
Qed.

Theorem timeout_evidence : forall s o s' evs, Inv s -> accepted s o s' evs ->
  forall e, In e evs -> timeout_event_ok s o e.
Proof.
  intros s o s' evs I A. apply accepted_exec in A. pose proof (inv_pool_nodup _ I) as NDp. destruct o; simpl in A.
  - destruct (send_spec _ _ _ _ _ _ _ _ A) as (_ & _ & _ & _ & _ & _ & _ & _ & _ & -> & _).
    intros e [<-|[]]; simpl; auto.
  - destruct (send_p_spec _ _ _ _ _ _ _ _ A) as (_ & _ & _ & _ & _ & _ & _ & _ & _ & -> & _).
    intros e [<-|[]]; simpl; auto.
  - destruct (cancel_spec _ _ _ _ _ NDp A) as (x & _ & _ & _ & _ & _ & _ & _ & _ & _ & _ & -> & _).
    intros e [<-|[]]; simpl; auto.
  - destruct (increase_spec _ _ _ _ _ _ _ _ NDp A) as (_ & x & L & _ & _ & _ & _ & _ & _ & _ & _ & _ & _ & _ & -> & _).
    intros e [].
  - destruct (increase_p_spec _ _ _ _ _ _ _ NDp A) as (_ & x & L & _ & _ & _ & _ & _ & _ & _ & _ & _ & _ & _ & -> & _).
    intros e [].
  - destruct (request_batch_spec _ _ _ _ _ _ _ _ _ NDp (inv_bnlt _ I) A) as (b & R). decompose [and] R. subst evs.
    intros e [<-|[]]; simpl; auto.
  - destruct (batch_executed_op_spec _ _ _ _ _ _ I A) as (_ & _ & s1 & e1 & e2 & H1 & H2 & -> & _ & ND1).
    destruct (batch_executed_spec (observed s h) _ _ _ _ (inv_bn _ I) H1)
      as (b & _ & _ & _ & _ & Sub & _ & Ec & _ & _ & _ & _ & _ & Ex & _ & _ & _ & _ & _ & Ev1).
    destruct (cleanups_spec _ _ _ ND1 H2) as (_ & Ev2). simpl in *.
    intros e He. apply in_app_or in He. destruct He as [He|He].
    + destruct (Ev1 e He) as [->|(ib & _ & _ & _ & ->)]; simpl; auto.
    + eapply (cleanup_events_ok s (BatchExecuted token nonce h) h e2); eauto.
      intros e' He'. destruct (Ev2 e' He') as [(b' & Hb' & C & ->)|(c & Hc & C & ->)].
      * left. exists b'. rewrite Ex in C. repeat split; auto. apply Sub in Hb'. tauto.
      * right. exists c. rewrite Ex in C. rewrite Ec in Hc. repeat split; auto.
  - destruct (observe_spec _ _ _ _ I A) as (_ & _ & Ev). eapply cleanup_events_ok; eauto. reflexivity.
  - destruct (bridge_call_spec _ _ _ _ _ _ _ _ _ A) as (t & R). decompose [and] R. subst evs.
    intros e [<-|[]]; simpl; auto.
  - destruct (bridge_call_p_spec _ _ _ _ _ _ _ _ _ _ A) as (t & l0 & R). decompose [and] R. subst evs.
    intros e [<-|[]]; simpl; auto.
  - destruct (observe_result_spec _ _ _ _ _ _ I A) as (_ & _ & _ & Ev). eapply cleanup_events_ok; eauto. reflexivity.
  - destruct (exec_result_spec _ _ _ _ A) as (n & ok & c & _ & _ & _ & _ & _ & _ & _ & _ & _ & _ & Eo & Ev). destruct ok.
    + destruct Ev as [_ ->]. intros e' [<-|[]]; simpl; auto.
    + destruct Ev as [_ ->]. intros e' [<-|[<-|[]]]; simpl; auto.
  - inv A. intros e [].
  - des A. inv A. intros e [].
  - des A. inv A. intros e [].
Qed.

(* the observed external height is the height carried by the last accepted event, nothing else *)
Theorem height_from_claim_only : forall s o, Inv s ->
  obs_ext (step_state s o) = obs_ext s \/
  (exists h, observing o = Some h /\ 0 < h /\ obs_ext (step_state s o) = h /\ obs_fx (step_state s o) = fxh s).
Proof.
  intros s o I. destruct (step_state_cases s o) as [(evs & A)|E]; [|rewrite E; auto].
  set (s' := step_state s o) in *. clearbody s'. pose proof (inv_pool_nodup _ I) as NDp. destruct o; simpl in A.
  - left. destruct (send_spec _ _ _ _ _ _ _ _ A) as (_ & _ & _ & _ & _ & _ & _ & _ & E & _); auto.
  - left. destruct (send_p_spec _ _ _ _ _ _ _ _ A) as (_ & _ & _ & _ & _ & _ & _ & _ & E & _); auto.
  - left. destruct (cancel_spec _ _ _ _ _ NDp A) as (x & R). decompose [and] R. auto.
  - left. destruct (increase_spec _ _ _ _ _ _ _ _ NDp A) as (_ & x & L & R). decompose [and] R. auto.
  - left. destruct (increase_p_spec _ _ _ _ _ _ _ NDp A) as (_ & x & L & R). decompose [and] R. auto.
  - left. destruct (request_batch_spec _ _ _ _ _ _ _ _ _ NDp (inv_bnlt _ I) A) as (b & R). decompose [and] R. auto.
  - right. destruct (batch_executed_op_spec _ _ _ _ _ _ I A) as (Hh & _ & s1 & e1 & e2 & H1 & H2 & _ & S & ND1).
    destruct (batch_executed_spec (observed s h) _ _ _ _ (inv_bn _ I) H1)
      as (b & _ & _ & _ & _ & _ & _ & _ & _ & _ & _ & _ & _ & Ex & Ef & _).
    exists h. simpl in *. destruct S. repeat split; auto; congruence.
  - right. destruct (observe_spec _ _ _ _ I A) as (Hh & S & _). destruct (shrink_obs _ _ _ S) as (_ & _ & _ & _ & _ & _ & _ & _ & E1 & E2 & _).
    exists h. repeat split; auto.
  - left. destruct (bridge_call_spec _ _ _ _ _ _ _ _ _ A) as (t & R). decompose [and] R. auto.
  - left. destruct (bridge_call_p_spec _ _ _ _ _ _ _ _ _ _ A) as (t & l0 & R). decompose [and] R. auto.
  - right. destruct (observe_result_spec _ _ _ _ _ _ I A) as (Hh & _ & S & _). destruct S; simpl in *.
    exists h. repeat split; auto.
  - left. destruct (exec_result_spec _ _ _ _ A) as (n & ok & c & _ & _ & _ & _ & _ & _ & _ & _ & _ & _ & Eo & Ev). auto.
  - left. inv A. reflexivity.
  - left. des A. inv A. reflexivity.
  - left. des A. inv A. reflexivity.
Qed.

(* nothing can be batched, and no bridge call queued, before an external height has been observed *)
Theorem no_batch_before_observation : forall s token which feercv basefee minfee auth,
  obs_ext s = 0 -> forall s' evs, exec s (RequestBatch token which feercv basefee minfee auth) <> ROk (s', evs).
Proof.
  intros s token which feercv basefee minfee auth Z0 s' evs A. simpl in A.
  unfold do_request_batch in A. repeat (des A). mon.
  destruct (pick token basefee (p_max_elems (prm s)) 0 (pool s)); [discriminate|].
  des A. mon. unfold cal_timeout in H0. rewrite Z0 in H0.
  destruct cal_zero as [G R]. rewrite G in H0. inv H0. rewrite R in A.
  destruct build_rejects_zero as [B _]. rewrite B in A. discriminate.
Qed.

Theorem no_call_before_observation : forall s sender refund coins to data memo,
  obs_ext s = 0 -> forall s' evs, exec s (BridgeCall sender refund coins to data memo) <> ROk (s', evs).
Proof.
  intros s sender refund coins to data memo Z0 s' evs A. simpl in A.
  unfold do_bridge_call in A. repeat (des A). mon. unfold cal_timeout in H0. rewrite Z0 in H0.
  destruct cal_zero as [G R]. rewrite G in H0. inv H0. rewrite R in A.
  destruct build_rejects_zero as [_ B]. rewrite B in A. discriminate.
Qed.

Theorem no_precompile_call_before_observation : forall s sender refund value tokens to data memo,
  obs_ext s = 0 -> forall s' evs, exec s (BridgeCallP sender refund value tokens to data memo) <> ROk (s', evs).
Proof.
  intros s sender refund value tokens to data memo Z0 s' evs A. simpl in A.
  unfold do_bridge_call_p in A. repeat (des A). mon. unfold cal_timeout in H1. rewrite Z0 in H1.
  destruct cal_zero as [G R]. rewrite G in H1. inv H1. rewrite R in A.
  destruct build_rejects_zero as [_ B]. rewrite B in A. discriminate.
Qed.

Theorem nothing_queued_before_observation : forall ops p ts l h0,
  let s := run (init p ts l h0) ops in obs_ext s = 0 -> batches s = [] /\ calls s = [].
Proof.
  intros ops p ts l h0.
  assert (G : forall ops s, Inv s -> (obs_ext s = 0 -> batches s = [] /\ calls s = []) -> 0 <= obs_ext s ->
              (obs_ext (run s ops) = 0 -> batches (run s ops) = [] /\ calls (run s ops) = []) /\ 0 <= obs_ext (run s ops)).
  { clear. induction ops as [|o r IH]; simpl; intros s I H P; auto.
    apply IH; [apply step_inv; auto| |].
    - intros Z0. destruct (height_from_claim_only s o I) as [E|(h & _ & Hh & E & _)]; [|lia].
      rewrite E in Z0. destruct (H Z0) as [Hb Hc].
      destruct (step_state_cases s o) as [(evs & A)|E']; [|rewrite E'; auto].
      pose proof (exec_rel _ _ _ _ I A) as [_ BS _ _ CS _ _]. split.
      + destruct (batches (step_state s o)) as [|b bs] eqn:Eb; auto. exfalso.
        destruct (BS b (or_introl eq_refl)) as [Hin|(_ & _ & _ & w & bf & mf & au & Eo)].
        * rewrite Hb in Hin; auto.
        * rewrite Eo in A. eapply no_batch_before_observation; eauto.
      + destruct (calls (step_state s o)) as [|c cs] eqn:Ec; auto. exfalso.
        destruct (CS c (or_introl eq_refl)) as [Hin|(_ & _ & _ & _ & [Eo|(vv & tt & Eo & _)])].
        * rewrite Hc in Hin; auto.
        * rewrite Eo in A. eapply no_call_before_observation; eauto.
        * rewrite Eo in A. eapply no_precompile_call_before_observation; eauto.
    - destruct (height_from_claim_only s o I) as [E|(h & _ & Hh & E & _)]; lia. }
  intros s. apply G; simpl; auto; [apply init_inv | lia].
Qed.

(* ---------- what the clean-ups keep ---------- *)
Lemma cleanup_calls_from_frame : forall snap s s' evs, cleanup_calls_from snap s = ROk (s', evs) ->
  batches s' = batches s /\ pool s' = pool s /\ pending s' = pending s.
Proof.
  induction snap as [|c r IH]; simpl; intros s s' evs H; [inv H; auto|].
  destruct (call_cleanup_stop (c_timeout c) (obs_ext s)); [inv H; auto|]. mon.
  destruct x as [s1 e1], x0 as [s2 e2]. simpl in *.
  unfold refund_call in H0. mon. simpl in *.
  destruct (IH _ _ _ H1) as (E1 & E2 & E3). rewrite E1, E2, E3.
  unfold delete_call; simpl. destruct (find_call (c_nonce c) (calls s)); simpl; auto.
Qed.

Lemma nodup_cnonce_unique : forall l x y, NoDup (cnonces l) -> In x l -> In y l -> c_nonce x = c_nonce y -> x = y.
Proof.
  induction l as [|z r IH]; simpl; intros x y ND Hx Hy E; [contradiction|].
  inv ND. destruct Hx as [->|Hx], Hy as [->|Hy]; auto.
  - exfalso; apply H1. rewrite E. apply in_map; auto.
  - exfalso; apply H1. rewrite <- E. apply in_map; auto.
Qed.

Lemma delete_call_keep : forall s n c, In c (calls s) -> c_nonce c <> n -> In c (calls (delete_call s n)).
Proof.
  intros s n c Hc N. unfold delete_call. destruct (find_call n (calls s)); simpl; auto.
  unfold call_remove. apply filter_In. split; auto. apply negb_true_iff, Z.eqb_neq; auto.
Qed.

Lemma cleanup_calls_from_keep : forall snap s s' evs c,
  (forall x, In x snap -> In x (calls s)) -> NoDup (cnonces snap) -> NoDup (cnonces (calls s)) ->
  cleanup_calls_from snap s = ROk (s', evs) ->
  In c (calls s) -> call_cleanup_stop (c_timeout c) (obs_ext s) = true -> (In c snap \/ True) -> In c (calls s').
Proof.
  induction snap as [|y r IH]; simpl; intros s s' evs c Sub NDs ND H Hc St _; [inv H; auto|].
  destruct (call_cleanup_stop (c_timeout y) (obs_ext s)) eqn:Sy; [inv H; auto|]. mon.
  destruct x as [s1 e1], x0 as [s2 e2]. simpl in *.
  destruct (refund_call_spec _ _ _ _ _ H0) as (S1 & Ec & _ & _).
  assert (Ny : c_nonce c <> c_nonce y).
  { intro E. assert (c = y) by (eapply nodup_cnonce_unique; eauto). subst. congruence. }
  inv NDs.
  eapply (IH (delete_call s1 (c_nonce y)) s2 e2 c); auto.
  - intros x Hx. apply delete_call_keep; [rewrite Ec; auto|].
    intro E. apply H3. unfold cnonces. rewrite <- E. apply in_map; auto.
  - apply (sh_cn _ _ (delete_call_shrink s1 (c_nonce y))). apply (sh_cn _ _ S1); auto.
  - apply delete_call_keep; [rewrite Ec; auto|auto].
  - rewrite (sh_ext _ _ (delete_call_shrink s1 (c_nonce y))), (sh_ext _ _ S1); auto.
Qed.

Lemma cleanups_keep : forall s s' evs, NoDup (bnonces (batches s)) -> NoDup (cnonces (calls s)) ->
  cleanups s = ROk (s', evs) ->
  (forall b, In b (batches s) -> batch_cleanup_cancel (b_timeout b) (obs_ext s) = false -> In b (batches s')) /\
  (forall c, In c (calls s) -> call_cleanup_stop (c_timeout c) (obs_ext s) = true -> In c (calls s')) /\
  pending s' = pending s.
Proof.
  unfold cleanups, cleanup_batches, cleanup_calls; intros s s' evs NB NC H. mon.
  destruct x as [s1 e1], x0 as [s2 e2]. simpl in *.
  destruct (cancel_where_spec _ _ _ _ _ _ _ NB H0) as (S1 & _).
  destruct (cleanup_calls_from_frame _ _ _ _ H1) as (Eb & _ & Ep).
  repeat split.
  - intros b Hb Fb. rewrite Eb. eapply cancel_where_keep; eauto.
    intros b' Hb' Fb' E. assert (b' = b) by (eapply nodup_bnonce_unique; eauto). subst. congruence.
  - intros c Hc St. apply (cleanup_calls_from_keep (calls s1) s1 s2 e2 c); auto.
    + rewrite (sb_calls _ _ S1); auto.
    + rewrite (sb_calls _ _ S1); auto.
    + rewrite (sb_calls _ _ S1); auto.
    + rewrite (sb_ext _ _ S1); auto.
  - rewrite Ep. apply (sb_pend _ _ S1).
Qed.

(* ---------- the external side, as far as the property needs it ---------- *)
(* ghost log of a run: every batch / call ever created with its time-out, the executions and results observed so far *)
Record ghost := { gb : list (Z * Z * Z); gx : list (Z * Z); gc : list (Z * Z); gr : list Z }.
Definition g0 : ghost := {| gb := []; gx := []; gc := []; gr := [] |}.

Definition new_batches (evs : list event) : list (Z * Z * Z) :=
  flat_map (fun e => match e with EvBatchCreated t n T => [(t, n, T)] | _ => [] end) evs.
Definition new_calls (evs : list event) : list (Z * Z) :=
  flat_map (fun e => match e with EvCallCreated n T => [(n, T)] | _ => [] end) evs.

Definition gstep (g : ghost) (s : state) (o : op) : ghost :=
  let '(_, evs, r) := step s o in
  {| gb := new_batches evs ++ gb g;
     gx := match r, o with Ok, BatchExecuted t n _ => (t, n) :: gx g | _, _ => gx g end;
     gc := new_calls evs ++ gc g;
     gr := match r, o with Ok, ObserveResult n _ _ => n :: gr g | _, _ => gr g end |}.

(* an observed event the external contract and in-order delivery allow:
   heights do not go back; a batch execution carries a height the contract accepts for that batch's time-out and a
   batch nonce above every nonce already executed for the token; a bridge-call result carries a height the contract
   accepts for that call's time-out, and there is one result per call *)
Definition adm (g : ghost) (s : state) (o : op) : Prop :=
  match o with
  | BatchExecuted t n h =>
      obs_ext s <= h /\ (exists T, In (t, n, T) (gb g) /\ contract_batch_ok h T = true) /\ (forall n', In (t, n') (gx g) -> n' < n)
  | Observe h => obs_ext s <= h
  | ObserveResult n ok h =>
      obs_ext s <= h /\ (exists T, In (n, T) (gc g) /\ contract_call_ok h T = true) /\ ~ In n (gr g)
  | _ => True
  end.

Record J (g : ghost) (s : state) : Prop := {
  j_b : forall t n T, In (t, n, T) (gb g) -> (forall n', In (t, n') (gx g) -> n' < n) ->
        batch_cleanup_cancel T (obs_ext s) = false ->
        exists b, In b (batches s) /\ b_token b = t /\ b_nonce b = n /\ b_timeout b = T;
  j_c : forall n T, In (n, T) (gc g) -> ~ In n (gr g) -> call_cleanup_stop T (obs_ext s) = true ->
        exists c, In c (calls s) /\ c_nonce c = n /\ c_timeout c = T;
  j_p : forall e n ok, In (e, (n, ok)) (pending s) -> In n (gr g)
}.



Lemma step_unfold : forall s o, step s o = (step_state s o, snd (fst (step s o)), snd (step s o)).
Proof. intros; unfold step_state; destruct (step s o) as [[a b] c]; reflexivity. Qed.

Lemma step_ok_exec : forall s o s' evs, step s o = (s', evs, Ok) -> exec s o = ROk (s', evs).
Proof. intros; apply accepted_exec; auto. Qed.

Lemma step_not_ok : forall s o s' evs r, step s o = (s', evs, r) -> r <> Ok -> s' = s /\ evs = [].
Proof. intros; eapply refused_same; eauto. Qed.

