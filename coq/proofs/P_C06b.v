(* P_C06b.v — C06, second part: with the contract-side rule and in-order events, nothing is both executed externally and
   released on fxcore (batches: proved; bridge calls: refuted by a witness, proved under a guard) *)
From Coq Require Import ZArith List Bool Lia Permutation String.
From FxV Require Import gen.Gen_TimeoutRules model.M_Pool proofs.P_Pool proofs.P_C05 proofs.P_C06.
Import ListNotations.
Open Scope Z_scope.

(* frames used below *)
Lemma send_pending : forall s a b c d e s' evs, do_send s a b c d e = ROk (s', evs) -> pending s' = pending s.
Proof. unfold do_send; intros. des H. des H. mon. reflexivity. Qed.
Lemma send_p_pending : forall s a b c d e s' evs, do_send_p s a b c d e = ROk (s', evs) -> pending s' = pending s.
Proof. intros. destruct (send_p_spec _ _ _ _ _ _ _ _ H) as (_ & _ & _ & _ & _ & _ & _ & _ & _ & _ & E & _); auto. Qed.
Lemma cancel_pending : forall s a b s' evs, NoDup (ids (pool s)) -> do_cancel s a b = ROk (s', evs) -> pending s' = pending s.
Proof. intros s a b s' evs ND H. destruct (cancel_spec _ _ _ _ _ ND H) as (x & _ & _ & _ & _ & _ & _ & _ & _ & _ & _ & _ & E & _); auto. Qed.
Lemma increase_pending : forall s a b c d e s' evs, do_increase s a b c d e = ROk (s', evs) -> pending s' = pending s.
Proof. unfold do_increase; intros. des H. des H. des H. des H. des H. mon. reflexivity. Qed.
Lemma request_pending : forall s a b c d e f s' evs, do_request_batch s a b c d e f = ROk (s', evs) -> pending s' = pending s.
Proof.
  unfold do_request_batch; intros. des H. des H. des H. des H. des H. des H. mon.
  destruct (pick a d (p_max_elems (prm s)) 0 (pool s)); [discriminate|]. des H. mon. des H. des H. inv H. reflexivity.
Qed.
Lemma bridge_call_pending : forall s a b c d e f s' evs, do_bridge_call s a b c d e f = ROk (s', evs) -> pending s' = pending s.
Proof. unfold do_bridge_call; intros. des H. des H. mon. des H. inv H. reflexivity. Qed.

Lemma bridge_call_p_pending : forall s a b c d e f g s' evs, do_bridge_call_p s a b c d e f g = ROk (s', evs) -> pending s' = pending s.
Proof. unfold do_bridge_call_p; intros. des H. mon. des H. inv H. reflexivity. Qed.

Lemma batch_executed_keep : forall s token nonce s' evs b, NoDup (bnonces (batches s)) ->
  batch_executed s token nonce = ROk (s', evs) -> In b (batches s) ->
  ~ (b_token b = token /\ b_nonce b <= nonce) -> In b (batches s').
Proof.
  unfold batch_executed; intros s token nonce s' evs b ND H Hb N.
  destruct (find_batch token nonce (batches s)) as [b0|] eqn:F; [|discriminate].
  mon. destruct x as [s1 e1]. simpl in *.
  pose proof (find_batch_in _ _ _ _ F) as (_ & Ht0 & Hn0).
  assert (Hb1 : In b (batches s1)).
  { apply (cancel_where_keep _ _ _ _ _ _ _ b ND H0 Hb). intros ib Hib Fi E.
    assert (ib = b) by (eapply nodup_bnonce_unique; eauto). subst ib.
    apply andb_true_iff in Fi. destruct Fi as [F1 F2]. apply Z.ltb_lt in F1. apply Z.eqb_eq in F2. apply N. split; auto. lia. }
  unfold batch_remove. apply filter_In. split; auto.
  destruct (batch_is token nonce b) eqn:E; auto. apply batch_is_spec in E. destruct E. exfalso. apply N. split; auto. lia.
Qed.

Lemma exec_result_keep : forall s e s' evs, do_exec_result s e = ROk (s', evs) ->
  exists n ok, In (e, (n, ok)) (pending s) /\
    (forall c, In c (calls s) -> c_nonce c <> n -> In c (calls s')) /\
    (forall x, In x (pending s') -> In x (pending s)).
Proof.
  unfold do_exec_result; intros s e s' evs H.
  destruct (find (fun p => fst p =? e) (pending s)) as [[e' [n ok]]|] eqn:F; [|discriminate].
  apply find_some in F. destruct F as [Fin Fe]. simpl in Fe. apply Z.eqb_eq in Fe. subst e'. simpl in H.
  destruct (find_call n (calls s)) as [c0|] eqn:Fc; [|discriminate].
  exists n, ok. split; auto.
  apply bind_ok in H. destruct H as ([s1 e1] & H0 & H). simpl in H. injection H as <- <-.
  assert (E1 : calls s1 = calls s /\ pending s1 = filter (fun p => negb (fst p =? e)) (pending s)).
  { destruct ok; [injection H0 as <- <-; auto|]. unfold refund_call in H0.
    apply bind_ok in H0. destruct H0 as (l & _ & H0). injection H0 as <- <-. auto. }
  destruct E1 as [Ec Ep]. split.
  - intros c Hc N. apply delete_call_keep; [rewrite Ec; auto|auto].
  - intros x Hx. assert (pending (delete_call s1 n) = pending s1) by (unfold delete_call; destruct (find_call n (calls s1)); reflexivity).
    rewrite H, Ep in Hx. apply filter_In in Hx. tauto.
Qed.

Lemma incl_app_r : forall A (a b : list A) x, In x b -> In x (a ++ b).
Proof. intros; apply in_or_app; auto. Qed.


Definition not_creation (e : event) : Prop := match e with EvBatchCreated _ _ _ | EvCallCreated _ _ => False | _ => True end.

Lemma no_creation : forall evs, (forall e, In e evs -> not_creation e) -> new_batches evs = [] /\ new_calls evs = [].
Proof.
  induction evs as [|e r IH]; simpl; intros H; auto.
  destruct IH as [I1 I2]; [intros; apply H; auto|].
  unfold new_batches, new_calls in *. simpl. rewrite I1, I2.
  pose proof (H e (or_introl eq_refl)) as N. destruct e; simpl in *; try contradiction; auto.
Qed.

Lemma cleanup_events_not_creation : forall s s' evs, NoDup (bnonces (batches s)) -> cleanups s = ROk (s', evs) ->
  forall e, In e evs -> not_creation e.
Proof.
  intros s s' evs ND H e He. destruct (cleanups_spec _ _ _ ND H) as (_ & Ev).
  destruct (Ev e He) as [(b & _ & _ & ->)|(c & _ & _ & ->)]; simpl; auto.
Qed.

(* the ghost/state relation is inductive along the operations the external side allows *)
Lemma J_step : forall g s o, Inv s -> J g s -> adm g s o -> J (gstep g s o) (step_state s o).
Proof.
  intros g s o I [JB JC JP] A. unfold gstep. rewrite (step_unfold s o).
  destruct (snd (step s o)) eqn:R.
  2,3: (destruct (step_not_ok s o _ _ _ (step_unfold s o)) as [-> ->]; [rewrite R; discriminate|];
        constructor; simpl; auto).
  pose proof (step_unfold s o) as SU. rewrite R in SU. apply step_ok_exec in SU.
  set (s' := step_state s o) in *. set (evs := snd (fst (step s o))) in *. clearbody s' evs.
  pose proof (inv_pool_nodup _ I) as NDp.
  destruct o as [sender dest amount fee token|sender dest amount fee token|id who|id who add token which|id who add token|token which feercv basefee minfee auth
                |token nonce h|h|sender refund coins to data memo|sender refund value tokens to data memo|nonce ok h|e| |p|]; simpl in SU, A.
  - (* Send *)
    pose proof (send_pending _ _ _ _ _ _ _ _ SU) as Ep.
    destruct (send_spec _ _ _ _ _ _ _ _ SU) as (_ & _ & _ & Eb & Ec & _ & _ & _ & Eo & -> & _).
    constructor; simpl; rewrite ?Eb, ?Ec, ?Eo, ?Ep; auto.
  - pose proof (send_p_pending _ _ _ _ _ _ _ _ SU) as Ep.
    destruct (send_p_spec _ _ _ _ _ _ _ _ SU) as (_ & _ & _ & Eb & Ec & _ & _ & _ & Eo & -> & _).
    constructor; simpl; rewrite ?Eb, ?Ec, ?Eo, ?Ep; auto.
  - pose proof (cancel_pending _ _ _ _ _ NDp SU) as Ep.
    destruct (cancel_spec _ _ _ _ _ NDp SU) as (x & _ & _ & _ & _ & Eb & Ec & _ & _ & _ & Eo & -> & _).
    constructor; simpl; rewrite ?Eb, ?Ec, ?Eo, ?Ep; auto.
  - pose proof (increase_pending _ _ _ _ _ _ _ _ SU) as Ep.
    destruct (increase_spec _ _ _ _ _ _ _ _ NDp SU) as (_ & x & L & _ & _ & _ & _ & _ & Eb & Ec & _ & _ & _ & Eo & -> & _).
    constructor; simpl; rewrite ?Eb, ?Ec, ?Eo, ?Ep; auto.
  - destruct (increase_p_spec _ _ _ _ _ _ _ NDp SU) as (_ & x & L & _ & _ & _ & _ & _ & Eb & Ec & _ & _ & _ & Eo & -> & _ & Ep & _).
    constructor; simpl; rewrite ?Eb, ?Ec, ?Eo, ?Ep; auto.
  - (* RequestBatch *)
    pose proof (request_pending _ _ _ _ _ _ _ _ _ SU) as Ep.
    destruct (request_batch_spec _ _ _ _ _ _ _ _ _ NDp (inv_bnlt _ I) SU)
      as (b & _ & Pb & Hn & Ht & _ & _ & _ & _ & _ & _ & Ec & _ & _ & _ & Eo & _ & -> & _).
    constructor; simpl; rewrite ?Ec, ?Eo, ?Ep; auto.
    intros t n T [E|Hin] Hx Ho.
    + inv E. exists b. repeat split; auto. eapply perm_in; [apply Permutation_sym; eauto|simpl; auto].
    + destruct (JB t n T Hin Hx Ho) as (b' & Hb' & R'). exists b'. split; auto.
      eapply perm_in; [apply Permutation_sym; eauto|simpl; auto].
  - (* BatchExecuted *)
    destruct A as (Amon & (T0 & HT0 & C0) & Anx).
    destruct (batch_executed_op_spec _ _ _ _ _ _ I SU) as (_ & _ & s1 & e1 & e2 & H1 & H2 & -> & _ & ND1).
    destruct (batch_executed_spec (observed s h) _ _ _ _ (inv_bn _ I) H1)
      as (b0 & _ & _ & _ & _ & _ & _ & Ec1 & _ & _ & _ & Ep1 & _ & Ex1 & _ & _ & _ & _ & _ & Ev1).
    simpl in Ec1, Ep1, Ex1.
    assert (NC1 : NoDup (cnonces (calls s1))) by (rewrite Ec1; apply I).
    destruct (cleanups_keep _ _ _ ND1 NC1 H2) as (KB & KC & KP).
    assert (Eo : obs_ext s' = h).
    { destruct (cleanups_spec _ _ _ ND1 H2) as (S & _). rewrite (sh_ext _ _ S). exact Ex1. }
    assert (NB : new_batches (e1 ++ e2) = [] /\ new_calls (e1 ++ e2) = []).
    { apply no_creation. intros e He. apply in_app_or in He. destruct He as [He|He].
      - destruct (Ev1 e He) as [->|(ib & _ & _ & _ & ->)]; simpl; auto.
      - eapply cleanup_events_not_creation; eauto. }
    destruct NB as [NB1 NB2]. constructor; simpl; rewrite ?NB1, ?NB2, ?Eo; simpl.
    + intros t n T Hin Hx Ho.
      destruct (JB t n T Hin) as (b & Hb & Etb & Enb & ETb); [intros; apply Hx; auto | |].
      { destruct (batch_cleanup_cancel T (obs_ext s)) eqn:Cc; auto.
        rewrite (batch_cancel_monotone _ _ _ Amon Cc) in Ho. discriminate. }
      exists b. repeat split; auto. apply KB.
      * apply (batch_executed_keep (observed s h) token nonce s1 e1 b (inv_bn _ I) H1 Hb).
        intros [E1 E2]. assert (nonce < n) by (apply Hx; left; congruence). lia.
      * rewrite Ex1, ETb. auto.
    + intros n T Hin Hr Ho.
      destruct (JC n T Hin Hr) as (c & Hc & Enc & ETc).
      { destruct (call_cleanup_stop T (obs_ext s)) eqn:Cc; auto.
        rewrite (call_refund_monotone _ _ _ Amon Cc) in Ho. discriminate. }
      exists c. repeat split; auto. apply KC; [rewrite Ec1; auto|]. rewrite Ex1, ETc. auto.
    + intros e n ok Hin. rewrite KP, Ep1 in Hin. eauto.
  - (* Observe *)
    destruct (observe_spec _ _ _ _ I SU) as (_ & S & _).
    unfold do_observe in SU. des SU.
    assert (NBo : NoDup (bnonces (batches (observed s h)))) by apply I.
    assert (NCo : NoDup (cnonces (calls (observed s h)))) by apply I.
    destruct (cleanups_keep _ _ _ NBo NCo SU) as (KB & KC & KP). simpl in KB, KC, KP.
    pose proof (cleanup_events_not_creation _ _ _ NBo SU) as NCr. apply no_creation in NCr. destruct NCr as [NB1 NB2].
    assert (Eo : obs_ext s' = h) by (rewrite (sh_ext _ _ S); reflexivity).
    constructor; simpl; rewrite ?NB1, ?NB2, ?Eo; simpl.
    + intros t n T Hin Hx Ho. destruct (JB t n T Hin Hx) as (b & Hb & Etb & Enb & ETb).
      { destruct (batch_cleanup_cancel T (obs_ext s)) eqn:Cc; auto.
        rewrite (batch_cancel_monotone _ _ _ A Cc) in Ho. discriminate. }
      exists b. repeat split; auto. apply KB; auto. rewrite ETb. auto.
    + intros n T Hin Hr Ho. destruct (JC n T Hin Hr) as (c & Hc & Enc & ETc).
      { destruct (call_cleanup_stop T (obs_ext s)) eqn:Cc; auto.
        rewrite (call_refund_monotone _ _ _ A Cc) in Ho. discriminate. }
      exists c. repeat split; auto. apply KC; auto. rewrite ETc. auto.
    + intros e n ok Hin. rewrite KP in Hin. eauto.
  - (* BridgeCall *)
    pose proof (bridge_call_pending _ _ _ _ _ _ _ _ _ SU) as Ep.
    destruct (bridge_call_spec _ _ _ _ _ _ _ _ _ SU) as (t & _ & _ & Ec & _ & Eb & _ & _ & _ & Eo & -> & _).
    constructor; simpl; rewrite ?Eb, ?Eo, ?Ep; auto.
    intros n T [E|Hin] Hr Ho.
    + inv E. eexists. split; [rewrite Ec; apply in_or_app; right; simpl; eauto|]. simpl; auto.
    + destruct (JC n T Hin Hr Ho) as (c & Hc & R'). exists c. split; auto. rewrite Ec. apply in_or_app; auto.
  - (* BridgeCallP *)
    pose proof (bridge_call_p_pending _ _ _ _ _ _ _ _ _ _ SU) as Ep.
    destruct (bridge_call_p_spec _ _ _ _ _ _ _ _ _ _ SU) as (t & l0 & _ & _ & Ec & _ & Eb & _ & _ & _ & _ & _ & Eo & -> & _).
    constructor; simpl; rewrite ?Eb, ?Eo, ?Ep; auto.
    intros n T [E|Hin] Hr Ho.
    + inv E. eexists. split; [rewrite Ec; apply in_or_app; right; simpl; eauto|]. simpl; auto.
    + destruct (JC n T Hin Hr Ho) as (c & Hc & R'). exists c. split; auto. rewrite Ec. apply in_or_app; auto.
  - (* ObserveResult *)
    destruct A as (Amon & _ & Anr).
    destruct (observe_result_spec _ _ _ _ _ _ I SU) as (_ & _ & S & _).
    unfold do_observe_result in SU. des SU. simpl in SU.
    set (sp := set_pending (observed s h) ((evn s + 1, (nonce, ok)) :: pending s)) in *.
    assert (NBo : NoDup (bnonces (batches sp))) by apply I.
    assert (NCo : NoDup (cnonces (calls sp))) by apply I.
    destruct (cleanups_keep _ _ _ NBo NCo SU) as (KB & KC & KP). simpl in KB, KC, KP.
    pose proof (cleanup_events_not_creation _ _ _ NBo SU) as NCr. apply no_creation in NCr. destruct NCr as [NB1 NB2].
    assert (Eo : obs_ext s' = h) by (rewrite (sh_ext _ _ S); reflexivity).
    constructor; simpl; rewrite ?NB1, ?NB2, ?Eo; simpl.
    + intros t n T Hin Hx Ho. destruct (JB t n T Hin Hx) as (b & Hb & Etb & Enb & ETb).
      { destruct (batch_cleanup_cancel T (obs_ext s)) eqn:Cc; auto.
        rewrite (batch_cancel_monotone _ _ _ Amon Cc) in Ho. discriminate. }
      exists b. repeat split; auto. apply KB; auto. rewrite ETb. auto.
    + intros n T Hin Hr Ho. destruct (JC n T Hin) as (c & Hc & Enc & ETc); [tauto | |].
      { destruct (call_cleanup_stop T (obs_ext s)) eqn:Cc; auto.
        rewrite (call_refund_monotone _ _ _ Amon Cc) in Ho. discriminate. }
      exists c. repeat split; auto. apply KC; auto. rewrite ETc. auto.
    + intros e n ok' Hin. rewrite KP in Hin. destruct Hin as [E'|Hin]; [inv E'; auto|]. right. eauto.
  - (* ExecResult *)
    destruct (exec_result_keep _ _ _ _ SU) as (n & ok & Hp & KC & KP).
    destruct (exec_result_spec _ _ _ _ SU) as (n' & ok' & c' & _ & _ & _ & _ & Eb & _ & _ & _ & _ & _ & Eo & Ev).
    assert (NCr : new_batches evs = [] /\ new_calls evs = []).
    { apply no_creation. destruct ok'; destruct Ev as [_ ->]; simpl; intuition; subst; simpl; auto. }
    destruct NCr as [NB1 NB2].
    constructor; simpl; rewrite ?NB1, ?NB2, ?Eb, ?Eo; simpl; auto.
    + intros n0 T Hin Hr Ho. destruct (JC n0 T Hin Hr Ho) as (c & Hc & Enc & ETc).
      exists c. repeat split; auto. apply KC; auto. intro E. apply Hr. rewrite <- Enc, E. eapply JP; eauto.
    + intros e0 n0 ok0 Hin. apply KP in Hin. eauto.
  - (* NextBlock *)
    inv SU. constructor; simpl; auto.
  - (* SetParams *)
    des SU. inv SU. constructor; simpl; auto.
  - (* Migrate *)
    des SU. inv SU. constructor; simpl; auto.
Qed.

Lemma J_init : forall p ts l h0, J g0 (init p ts l h0).
Proof. intros; constructor; simpl; intros; contradiction. Qed.

(* a run the external side allows *)
Fixpoint adm_run (g : ghost) (s : state) (ops : list op) : Prop :=
  match ops with
  | [] => True
  | o :: r => adm g s o /\ adm_run (gstep g s o) (step_state s o) r
  end.

(* every batch-execution event of the run finds the batch still stored (not released before) *)
Fixpoint executions_find_their_batch (s : state) (ops : list op) : Prop :=
  match ops with
  | [] => True
  | o :: r =>
      (match o with BatchExecuted t n _ => find_batch t n (batches s) <> None | _ => True end)
      /\ executions_find_their_batch (step_state s o) r
  end.

Theorem batch_not_released_before_execution : forall g s t n h, J g s -> adm g s (BatchExecuted t n h) ->
  exists b, In b (batches s) /\ b_token b = t /\ b_nonce b = n /\ find_batch t n (batches s) <> None.
Proof.
  intros g s t n h Jg A. destruct Jg as [JB JC JP]. simpl in A. destruct A as (Amon & (T & HT & C) & Anx).
  destruct (JB t n T HT Anx) as (b & Hb & Et & En & _).
  { destruct (batch_cleanup_cancel T (obs_ext s)) eqn:Cc; auto.
    pose proof (batch_rules_compatible _ _ _ C Cc). lia. }
  exists b. repeat split; auto. unfold find_batch. intro F.
  eapply find_none in F; eauto. assert (batch_is t n b = true) by (apply batch_is_spec; auto). congruence.
Qed.

Theorem no_double_spend_batch : forall ops g s, Inv s -> J g s -> adm_run g s ops -> executions_find_their_batch s ops.
Proof.
  induction ops as [|o r IH]; simpl; intros g s I Jg AR; auto. destruct AR as [A AR]. split.
  - destruct o; auto. destruct (batch_not_released_before_execution _ _ _ _ _ Jg A) as (b & _ & _ & _ & F); auto.
  - eapply IH; eauto; [apply step_inv; auto | apply J_step; auto].
Qed.

(* once released (cancelled or executed) a batch nonce never comes back, so a released batch can not be executed later
   by a run the external side allows, and an executed batch is never cancelled afterwards *)
Definition batch_gone (s : state) (n : Z) : Prop := n < next_batch s /\ ~ In n (bnonces (batches s)).

Theorem batch_gone_forever : forall ops s n, Inv s -> batch_gone s n -> batch_gone (run s ops) n.
Proof.
  induction ops as [|o r IH]; simpl; intros s n I S; auto.
  apply IH; [apply step_inv; auto|]. destruct S as [C NL]. pose proof (counters_monotone s o I) as (_ & M & _).
  split; [lia|]. intro L. unfold bnonces in L. apply in_map_iff in L. destruct L as (b & Eb & Hb).
  destruct (fresh_batch_nonces s o I b Hb) as [Hin|(E & _)]; [|lia].
  apply NL. unfold bnonces. rewrite <- Eb. apply in_map; auto.
Qed.

(* ---------- bridge calls ---------- *)
(* guarded statement: if every parked result is executed before the next event is observed, the result handler
   always finds the call (it has not been refunded in between) *)
Definition no_parked_result_when_observing (s : state) (o : op) : Prop :=
  match o with BatchExecuted _ _ _ | Observe _ | ObserveResult _ _ _ => pending s = [] | _ => True end.

Fixpoint guarded_run (s : state) (ops : list op) : Prop :=
  match ops with
  | [] => True
  | o :: r => no_parked_result_when_observing s o /\ guarded_run (step_state s o) r
  end.

Record JG (s : state) : Prop := {
  jg_calls : forall e n ok, In (e, (n, ok)) (pending s) -> exists c, In c (calls s) /\ c_nonce c = n;
  jg_nodup : NoDup (map (fun p => fst (snd p)) (pending s))
}.

Fixpoint results_find_their_call (s : state) (ops : list op) : Prop :=
  match ops with
  | [] => True
  | o :: r =>
      (match o with
       | ExecResult e => forall n ok, In (e, (n, ok)) (pending s) -> find_call n (calls s) <> None
       | _ => True end)
      /\ results_find_their_call (step_state s o) r
  end.

Lemma JG_step : forall g s o, Inv s -> J g s -> JG s -> adm g s o -> no_parked_result_when_observing s o ->
  JG (step_state s o).
Proof.
  intros g s o I [JB JC JP] [GC GN] A G.
  destruct (step_state_cases s o) as [(evs & SU)|E]; [|rewrite E; constructor; auto].
  set (s' := step_state s o) in *. clearbody s'. pose proof (inv_pool_nodup _ I) as NDp.
  destruct o as [sender dest amount fee token|sender dest amount fee token|id who|id who add token which|id who add token|token which feercv basefee minfee auth
                |token nonce h|h|sender refund coins to data memo|sender refund value tokens to data memo|nonce ok h|e| |p|]; simpl in SU, A, G.
  - pose proof (send_pending _ _ _ _ _ _ _ _ SU) as Ep.
    destruct (send_spec _ _ _ _ _ _ _ _ SU) as (_ & _ & _ & _ & Ec & _).
    constructor; rewrite ?Ep, ?Ec; auto.
  - pose proof (send_p_pending _ _ _ _ _ _ _ _ SU) as Ep.
    destruct (send_p_spec _ _ _ _ _ _ _ _ SU) as (_ & _ & _ & _ & Ec & _).
    constructor; rewrite ?Ep, ?Ec; auto.
  - pose proof (cancel_pending _ _ _ _ _ NDp SU) as Ep.
    destruct (cancel_spec _ _ _ _ _ NDp SU) as (x & _ & _ & _ & _ & _ & Ec & _).
    constructor; rewrite ?Ep, ?Ec; auto.
  - pose proof (increase_pending _ _ _ _ _ _ _ _ SU) as Ep.
    destruct (increase_spec _ _ _ _ _ _ _ _ NDp SU) as (_ & x & L & _ & _ & _ & _ & _ & _ & Ec & _).
    constructor; rewrite ?Ep, ?Ec; auto.
  - destruct (increase_p_spec _ _ _ _ _ _ _ NDp SU) as (_ & x & L & _ & _ & _ & _ & _ & _ & Ec & _ & _ & _ & _ & _ & _ & Ep & _).
    constructor; rewrite ?Ep, ?Ec; auto.
  - pose proof (request_pending _ _ _ _ _ _ _ _ _ SU) as Ep.
    destruct (request_batch_spec _ _ _ _ _ _ _ _ _ NDp (inv_bnlt _ I) SU)
      as (b & _ & _ & _ & _ & _ & _ & _ & _ & _ & _ & Ec & _).
    constructor; rewrite ?Ep, ?Ec; auto.
  - (* BatchExecuted: nothing parked *)
    destruct (batch_executed_op_spec _ _ _ _ _ _ I SU) as (_ & _ & s1 & e1 & e2 & H1 & H2 & _ & _ & ND1).
    destruct (batch_executed_spec (observed s h) _ _ _ _ (inv_bn _ I) H1)
      as (b0 & _ & _ & _ & _ & _ & _ & Ec1 & _ & _ & _ & Ep1 & _).
    simpl in Ec1, Ep1.
    assert (NC1 : NoDup (cnonces (calls s1))) by (rewrite Ec1; apply I).
    destruct (cleanups_keep _ _ _ ND1 NC1 H2) as (_ & _ & KP).
    constructor; rewrite KP, Ep1, G; simpl; [intros; contradiction | constructor].
  - (* Observe: nothing parked *)
    unfold do_observe in SU. des SU.
    assert (NBo : NoDup (bnonces (batches (observed s h)))) by apply I.
    assert (NCo : NoDup (cnonces (calls (observed s h)))) by apply I.
    destruct (cleanups_keep _ _ _ NBo NCo SU) as (_ & _ & KP). simpl in KP.
    constructor; rewrite KP, G; simpl; [intros; contradiction | constructor].
  - pose proof (bridge_call_pending _ _ _ _ _ _ _ _ _ SU) as Ep.
    destruct (bridge_call_spec _ _ _ _ _ _ _ _ _ SU) as (t & _ & _ & Ec & _).
    constructor; rewrite ?Ep; auto.
    intros e n ok Hin. destruct (GC e n ok Hin) as (c & Hc & En). exists c. split; auto. rewrite Ec. apply in_or_app; auto.
  - pose proof (bridge_call_p_pending _ _ _ _ _ _ _ _ _ _ SU) as Ep.
    destruct (bridge_call_p_spec _ _ _ _ _ _ _ _ _ _ SU) as (t & l0 & _ & _ & Ec & _).
    constructor; rewrite ?Ep; auto.
    intros e n ok Hin. destruct (GC e n ok Hin) as (c & Hc & En). exists c. split; auto. rewrite Ec. apply in_or_app; auto.
  - (* ObserveResult: the only parked result is the new one, and its call is not refunded by this step's clean-up *)
    destruct A as (Amon & (T & HT & C) & Anr).
    unfold do_observe_result in SU. des SU. simpl in SU.
    set (sp := set_pending (observed s h) ((evn s + 1, (nonce, ok)) :: pending s)) in *.
    assert (NBo : NoDup (bnonces (batches sp))) by apply I.
    assert (NCo : NoDup (cnonces (calls sp))) by apply I.
    destruct (cleanups_keep _ _ _ NBo NCo SU) as (_ & KC & KP). simpl in KC, KP.
    destruct (JC nonce T HT Anr) as (c & Hc & Enc & ETc).
    { destruct (call_cleanup_stop T (obs_ext s)) eqn:Cc; auto.
      pose proof (call_rules_compatible _ _ _ C Cc). lia. }
    assert (K : In c (calls s')).
    { apply KC; auto. rewrite ETc. destruct (call_cleanup_stop T h) eqn:Cc; auto.
      pose proof (call_rules_compatible _ _ _ C Cc). lia. }
    constructor; rewrite KP, G; simpl.
    + intros e n ok' [E'|[]]. inv E'. exists c. split; auto.
    + constructor; [intros []|constructor].
  - (* ExecResult *)
    destruct (exec_result_keep _ _ _ _ SU) as (n & ok & Hp & KC & KP).
    assert (Ep : pending s' = filter (fun p => negb (fst p =? e)) (pending s)).
    { unfold do_exec_result in SU.
      destruct (find (fun p => fst p =? e) (pending s)) as [[e' [n' ok']]|]; [|discriminate]. simpl in SU.
      destruct (find_call n' (calls s)); [|discriminate].
      apply bind_ok in SU. destruct SU as ([s1 e1] & H0 & SU). simpl in SU. injection SU as <- _.
      assert (pending s1 = filter (fun p => negb (fst p =? e)) (pending s)).
      { destruct ok'; [injection H0 as <- _; auto|]. unfold refund_call in H0.
        apply bind_ok in H0. destruct H0 as (l & _ & H0). injection H0 as <- _. auto. }
      rewrite <- H. unfold delete_call; destruct (find_call n' (calls s1)); reflexivity. }
    constructor.
    + intros e0 n0 ok0 Hin. rewrite Ep in Hin. apply filter_In in Hin. destruct Hin as [Hin Ne].
      apply negb_true_iff, Z.eqb_neq in Ne. simpl in Ne.
      destruct (GC e0 n0 ok0 Hin) as (c & Hc & En). exists c. split; auto. apply KC; auto.
      intro E'. rewrite En in E'. subst n0.
      (* two parked results for one call nonce: excluded by jg_nodup *)
      assert (U : forall l : list (Z * (Z * bool)), NoDup (map (fun p => fst (snd p)) l) ->
                  forall a b, In a l -> In b l -> fst (snd a) = fst (snd b) -> a = b).
      { clear. induction l as [|z r IH]; simpl; intros ND a b Ha Hb E; [contradiction|]. inv ND.
        destruct Ha as [->|Ha], Hb as [->|Hb]; auto.
        - exfalso; apply H1. rewrite E. apply (in_map (fun p => fst (snd p))); auto.
        - exfalso; apply H1. rewrite <- E. apply (in_map (fun p => fst (snd p))); auto. }
      pose proof (U _ GN _ _ Hin Hp E') as E2. inv E2. auto.
    + rewrite Ep. apply nodup_map_filter; auto.
  - inv SU. constructor; simpl; auto.
  - des SU. inv SU. constructor; simpl; auto.
  - des SU. inv SU. constructor; simpl; auto.
Qed.

Lemma JG_init : forall p ts l h0, JG (init p ts l h0).
Proof. intros; constructor; simpl; [intros; contradiction | constructor]. Qed.

Theorem no_double_spend_bridgecall_guarded : forall ops g s, Inv s -> J g s -> JG s ->
  adm_run g s ops -> guarded_run s ops -> results_find_their_call s ops.
Proof.
  induction ops as [|o r IH]; simpl; intros g s I Jg Gs AR GR; auto.
  destruct AR as [A AR], GR as [G GR]. split.
  - destruct o; auto. intros n ok Hin. destruct (jg_calls _ Gs _ _ _ Hin) as (c & Hc & En).
    unfold find_call. intro F. eapply find_none in F; eauto. simpl in F. rewrite En, Z.eqb_refl in F. discriminate.
  - eapply IH; eauto; [apply step_inv; auto | apply J_step; auto | eapply JG_step; eauto].
Qed.

(* ---------- the unguarded statement is false: witness ---------- *)
Definition w_params : params := {| p_batch_timeout := 60000; p_avg_block := 7000; p_avg_ext := 1200000; p_call_timeout := 3600001; p_max_elems := 100 |}.
Definition w_ledger : ledger := [((0, 0, 0), 5000); ((0, 1, 0), 5000); ((MODULE, 0, 0), 1000000); ((MODULE, 1, 1), 100000)].
Definition w_init : state := init w_params [(0, KNative); (1, KExt)] w_ledger 2.
Definition w_ops : list op :=
  [Observe 1000; BridgeCall 0 1 [(0, 50); (1, 60)] 2 [171; 205] []; ObserveResult 1 true 1002; Observe 1003; ExecResult 2].

Definition w_trace : list (state * list event * res) :=
  (fix go (s : state) (ops : list op) := match ops with [] => [] | o :: r => let x := step s o in x :: go (fst (fst x)) r end) w_init w_ops.

Theorem no_double_spend_bridgecall_refuted :
  adm_run g0 w_init w_ops /\
  exists s1 s2 s3 s4 c,
    (* the call exists with time-out 1003 *)
    step (step_state w_init (Observe 1000)) (BridgeCall 0 1 [(0, 50); (1, 60)] 2 [171; 205] []) = (s1, [EvCallCreated 1 1003], Ok) /\
    In c (calls s1) /\ c_nonce c = 1 /\ c_timeout c = 1003 /\
    (* its successful execution at external height 1002 < 1003 is observed (and only parked) *)
    contract_call_ok 1002 (c_timeout c) = true /\ step s1 (ObserveResult 1 true 1002) = (s2, [], Ok) /\
    (* the next event, at height 1003, refunds the executed call to its refund address *)
    step s2 (Observe 1003) = (s3, [EvCallRefund 1 1 [(0, 50); (1, 60)] ByTimeout], Ok) /\
    get_bal (bal s3) (1, 0, 0) = get_bal (bal s1) (1, 0, 0) + 50 /\ get_bal (bal s3) (1, 1, 1) = get_bal (bal s1) (1, 1, 1) + 60 /\
    (* and the parked result can no longer be executed *)
    step s3 (ExecResult 2) = (s4, [], Panic).
Proof.
  split.
  - unfold w_ops. cbn [adm_run]. split; [|split; [|split; [|split; [|split]]]]; try exact I.
    + vm_compute. intro H; discriminate H.
    + vm_compute. split; [intro H; discriminate H|]. split; [|intros []].
      exists 1003. split; [left; reflexivity | reflexivity].
    + vm_compute. intro H; discriminate H.
  - set (o2 := BridgeCall 0 1 [(0, 50); (1, 60)] 2 [171; 205] []).
    set (s1 := step_state (step_state w_init (Observe 1000)) o2).
    set (s2 := step_state s1 (ObserveResult 1 true 1002)).
    set (s3 := step_state s2 (Observe 1003)).
    exists s1, s2, s3, s3,
      {| c_nonce := 1; c_timeout := 1003; c_block := 2; c_sender := 0; c_refund := 1; c_tokens := [(0, 50); (1, 60)];
         c_to := 2; c_data := [171; 205]; c_memo := []; c_evnonce := 0 |}.
    repeat split; try (vm_compute; reflexivity). vm_compute. left; reflexivity.
Qed.

(* ---------- the hypotheses of the theorems above are satisfiable by non-trivial runs ---------- *)
Definition nv_params : params := {| p_batch_timeout := 60000; p_avg_block := 7000; p_avg_ext := 100; p_call_timeout := 3600001; p_max_elems := 100 |}.
Definition nv_init : state := init nv_params [(0, KNative); (1, KExt)] w_ledger 2.
Definition nv_ops : list op :=
  [Observe 500; Send 0 1 10 5 0; RequestBatch 0 1 0 0 1 true; NextBlock; Send 0 1 20 9 0; RequestBatch 0 1 0 0 1 true;
   BridgeCall 0 1 [(0, 50)] 2 [1] []; BatchExecuted 0 2 700; ObserveResult 1 false 800; ExecResult 3; Observe 40000].

Example no_double_spend_nonvacuous :
  adm_run g0 nv_init nv_ops /\ guarded_run nv_init nv_ops /\
  map (fun o => snd (step (run nv_init (firstn 7 nv_ops)) o)) [BatchExecuted 0 2 700] = [Ok] /\
  snd (step (run nv_init (firstn 9 nv_ops)) (ExecResult 3)) = Ok /\
  batches (run nv_init (firstn 7 nv_ops)) <> [] /\ batches (run nv_init nv_ops) = [] /\
  map tx_id (pool (run nv_init nv_ops)) = [1].
Proof.
  split; [|split; [|vm_compute; repeat split; discriminate]].
  - unfold nv_ops. cbn [adm_run]. repeat split; try exact I; try (vm_compute; intro H; discriminate H).
    + exists 1170. split; [vm_compute; left; reflexivity | reflexivity].
    + vm_compute. intros n' [].
    + exists 36570. split; [vm_compute; left; reflexivity | reflexivity].
    + vm_compute. intros [].
  - vm_compute. repeat split.
Qed.
