(* C18 — proofs about model/M_Cache.v *)
From Coq Require Import ZArith List Bool Lia.
From FxV Require Import model.M_Cache model.M_CacheShape.
Import ListNotations.
Open Scope Z_scope.

(* ------------------------------------------------------------------------------------------ *)
(** * generic facts *)

Lemma run_steps_app {S} (fs1 fs2 : list (S -> result S)) s :
  run_steps (fs1 ++ fs2) s = bind (run_steps fs1 s) (run_steps fs2).
Proof.
  revert s; induction fs1 as [|f r IH]; intros s; cbn; [reflexivity|].
  destruct (f s); cbn; [apply IH|reflexivity].
Qed.

(* failure at ANY position: everything before succeeded (whatever it wrote), the step at the position fails *)
Lemma run_steps_fail_at {S} (fs1 fs2 : list (S -> result S)) f s s1 s' :
  run_steps fs1 s = Ok s1 -> f s1 = Err s' -> run_steps (fs1 ++ f :: fs2) s = Err s'.
Proof. intros H1 H2. rewrite run_steps_app, H1. cbn. rewrite H2. reflexivity. Qed.

Lemma tx_err {S} (f : S -> result S) s c : f s = Err c -> tx f s = (s, false).
Proof. unfold tx, branch, discard. intros ->. reflexivity. Qed.

(* ------------------------------------------------------------------------------------------ *)
(** * boundary 1: attestation *)

Lemma att_failed_handler S (handler : S -> result S) mark cleanup pre x' :
  handler (mark pre) = Err x' ->
  try_attestation S handler mark cleanup pre = (att_designated S mark cleanup pre, false).
Proof.
  intros H. unfold try_attestation, process_attestation, att_designated, branch, discard.
  rewrite H. reflexivity.
Qed.

Lemma att_ok_handler S (handler : S -> result S) mark cleanup pre x' :
  handler (mark pre) = Ok x' ->
  try_attestation S handler mark cleanup pre = (cleanup x', true).
Proof.
  intros H. unfold try_attestation, process_attestation, branch, commit. rewrite H. reflexivity.
Qed.

(* ------------------------------------------------------------------------------------------ *)
(** * boundary 3: gov *)

Lemma gov_failed S (msgs : list (S -> result S)) pre_exec set_status pre c :
  run_steps msgs (pre_exec pre) = Err c ->
  gov_execute S msgs pre_exec set_status pre = (gov_designated S pre_exec set_status pre, false).
Proof.
  intros H. unfold gov_execute, gov_designated, branch, discard. rewrite H. reflexivity.
Qed.

Lemma gov_failed_at S (ms1 ms2 : list (S -> result S)) f pre_exec set_status pre s1 s' :
  run_steps ms1 (pre_exec pre) = Ok s1 -> f s1 = Err s' ->
  gov_execute S (ms1 ++ f :: ms2) pre_exec set_status pre = (gov_designated S pre_exec set_status pre, false).
Proof. intros H1 H2. eapply gov_failed. eapply run_steps_fail_at; eauto. Qed.

Lemma gov_passed S (msgs : list (S -> result S)) pre_exec set_status pre c :
  run_steps msgs (pre_exec pre) = Ok c ->
  gov_execute S msgs pre_exec set_status pre = (set_status true c, true).
Proof. intros H. unfold gov_execute, branch, commit. rewrite H. reflexivity. Qed.

(* ------------------------------------------------------------------------------------------ *)
(** * boundary 4: IBC receive *)

Lemma recv_error_ack S parse_ok transfer_recv hook tao write_ack pre :
  snd (mw_on_recv S parse_ok transfer_recv hook (tao pre)) = false ->
  core_recv S parse_ok transfer_recv hook tao write_ack pre = (recv_designated S tao write_ack pre, false).
Proof.
  unfold core_recv, recv_designated, branch, discard.
  destruct (mw_on_recv S parse_ok transfer_recv hook (tao pre)) as [c' ok]; cbn.
  intros ->. reflexivity.
Qed.

(* the three places where the middleware answers with an error acknowledgement *)
Lemma mw_error_points S parse_ok transfer_recv hook ctx :
  snd (mw_on_recv S parse_ok transfer_recv hook ctx) = false <->
  parse_ok = false \/
  (parse_ok = true /\ exists c, transfer_recv ctx = Err c) \/
  (parse_ok = true /\ exists c1 c2, transfer_recv ctx = Ok c1 /\ hook c1 = Err c2).
Proof.
  unfold mw_on_recv. destruct parse_ok; cbn.
  - destruct (transfer_recv ctx) as [c1|c1] eqn:E1; cbn.
    + destruct (hook c1) as [c2|c2] eqn:E2; cbn; split; intros H; try discriminate.
      * destruct H as [H|[[_ [c H]]|[_ [a [b [Ha Hb]]]]]]; try discriminate.
        inversion Ha; subst. rewrite E2 in Hb. discriminate.
      * right; right; split; [reflexivity|]. exists c1, c2. auto.
      * reflexivity.
    + split; intros _; [|reflexivity]. right; left; split; [reflexivity|]. eauto.
  - split; intros _; [left|]; reflexivity.
Qed.

Lemma recv_success S parse_ok transfer_recv hook tao write_ack pre c1 c2 :
  parse_ok = true -> transfer_recv (tao pre) = Ok c1 -> hook c1 = Ok c2 ->
  core_recv S parse_ok transfer_recv hook tao write_ack pre = (write_ack true c2, true).
Proof.
  intros -> H1 H2. unfold core_recv, mw_on_recv, branch, commit. cbn. rewrite H1, H2. reflexivity.
Qed.

(* ------------------------------------------------------------------------------------------ *)
(** * ledger facts *)

Lemma key_eqb_eq a b : key_eqb a b = true <-> a = b.
Proof.
  destruct a as [[a1 a2] a3], b as [[b1 b2] b3]. unfold key_eqb.
  rewrite !andb_true_iff, !Z.eqb_eq. split.
  - intros [[-> ->] ->]. reflexivity.
  - intros H. inversion H. auto.
Qed.

(* closed form of what a deposit / withdrawal of per-token totals [tot] does to the ledger *)
Definition D (h : Z) (tot : Z -> Z) (k : key) : Z :=
  let '(hh, kind, t) := k in
  (if (hh =? h) && (kind =? Base) then tot t else 0) +
  (if (hh =? ModX) && (kind =? Bridge) then tot t else 0) +
  (if (hh =? Supply) && (kind =? Bridge) then tot t else 0) +
  (if (hh =? Supply) && (kind =? Base) then tot t else 0).

Definition one (t a : Z) : Z -> Z := fun x => if t =? x then a else 0.

Lemma ladd4_D l h t a k :
  ladd (ladd (ladd (ladd l (h, Base, t) a) (ModX, Bridge, t) a) (Supply, Bridge, t) a) (Supply, Base, t) a k
  = l k + D h (one t a) k.
Proof.
  destruct k as [[hh kind] x]. unfold ladd, D, one, key_eqb.
  repeat match goal with |- context [?a =? ?b] => destruct (Z.eqb_spec a b); subst end;
    cbn [andb]; try lia; try congruence.
Qed.

Lemma ladd4_D_neg l h t a k :
  ladd (ladd (ladd (ladd l (h, Base, t) (- a)) (Supply, Base, t) (- a)) (ModX, Bridge, t) (- a)) (Supply, Bridge, t) (- a) k
  = l k - D h (one t a) k.
Proof.
  destruct k as [[hh kind] x]. unfold ladd, D, one, key_eqb.
  repeat match goal with |- context [?a =? ?b] => destruct (Z.eqb_spec a b); subst end;
    cbn [andb]; try lia; try congruence.
Qed.

Lemma D_add h f g k : D h (fun x => f x + g x) k = D h f k + D h g k.
Proof.
  destruct k as [[hh kind] x]. unfold D.
  repeat match goal with |- context [if ?c then _ else _] => destruct c end; lia.
Qed.

Lemma D_ext h f g k : (forall x, f x = g x) -> D h f k = D h g k.
Proof. intros H. destruct k as [[hh kind] x]. unfold D. rewrite !H. reflexivity. Qed.

Lemma total_cons t a r x : total ((t, a) :: r) x = one t a x + total r x.
Proof. reflexivity. Qed.

(* state fields other than the ledger *)
Definition same_rest (a b : bst) : Prop :=
  (forall n, pendingc a n = pendingc b n) /\ outcalls a = outcalls b /\ next_id a = next_id b /\
  evmst a = evmst b /\ (forall t, registered a t = registered b t) /\ (forall t, enabled a t = enabled b t) /\
  timeout_ok a = timeout_ok b.

Lemma same_rest_refl a : same_rest a a.
Proof. repeat split. Qed.

Lemma same_rest_trans a b c : same_rest a b -> same_rest b c -> same_rest a c.
Proof.
  intros (A1&A2&A3&A4&A5&A6&A7) (B1&B2&B3&B4&B5&B6&B7).
  unfold same_rest. repeat split; intros; try congruence;
    try (rewrite A1; apply B1); try (rewrite A5; apply B5); try (rewrite A6; apply B6).
Qed.

Lemma same_rest_set_bal s l : same_rest (set_bal s l) s.
Proof. repeat split. Qed.

(* ------------------------------------------------------------------------------------------ *)
(** * deposits *)

Lemma deposit_effect h tokens : forall s,
  (forall t a, In (t, a) tokens -> registered s t = true) ->
  exists s', run_steps (map (deposit_one h) tokens) s = Ok s' /\
             (forall k, bal s' k = bal s k + D h (total tokens) k) /\ same_rest s' s.
Proof.
  induction tokens as [|[t a] r IH]; intros s Hreg.
  - exists s. cbn. split; [reflexivity|]. split; [|apply same_rest_refl].
    intros [[hh kind] x]. unfold D. cbn.
    repeat match goal with |- context [if ?c then _ else _] => destruct c end; lia.
  - cbn [map run_steps deposit_one]. rewrite (Hreg t a) by (left; reflexivity). cbn [negb bind].
    set (s1 := set_bal s _).
    destruct (IH s1) as (s' & Hrun & Hbal & Hrest).
    { intros t' a' Hin. cbn. eapply Hreg. right. exact Hin. }
    exists s'. split; [exact Hrun|]. split.
    + intros k. rewrite Hbal. subst s1. cbn [bal set_bal]. rewrite ladd4_D.
      rewrite (D_ext h (total ((t, a) :: r)) (fun x => one t a x + total r x) k) by (intros; apply total_cons).
      rewrite D_add. lia.
    + eapply same_rest_trans; [exact Hrest|]. subst s1. apply same_rest_set_bal.
Qed.

(* a deposit loop that fails does so at the first unregistered token; the handler then returns the error *)
Lemma deposit_fails h tokens : forall s,
  (exists t a, In (t, a) tokens /\ registered s t = false) ->
  exists s', run_steps (map (deposit_one h) tokens) s = Err s'.
Proof.
  induction tokens as [|[t a] r IH]; intros s (t0 & a0 & Hin & Hreg); [destruct Hin|].
  cbn [map run_steps deposit_one].
  destruct (registered s t) eqn:E; cbn [negb bind].
  - destruct Hin as [Heq|Hin]; [inversion Heq; subst; congruence|].
    apply IH. exists t0, a0. split; [exact Hin|exact Hreg].
  - eexists. reflexivity.
Qed.

(* ------------------------------------------------------------------------------------------ *)
(** * withdrawals *)

Lemma withdraw_effect h coins : forall s s',
  run_steps (map (withdraw_one h) coins) s = Ok s' ->
  (forall k, bal s' k = bal s k - D h (total coins) k) /\ same_rest s' s.
Proof.
  induction coins as [|[t a] r IH]; intros s s' H.
  - cbn in H. inversion H; subst. split; [|apply same_rest_refl].
    intros [[hh kind] x]. unfold D. cbn.
    repeat match goal with |- context [if ?c then _ else _] => destruct c end; lia.
  - cbn [map run_steps withdraw_one] in H.
    destruct (bal s (h, Base, t) <? a) eqn:E; cbn [bind] in H; [discriminate|].
    set (s1 := set_bal s _) in H.
    destruct (IH s1 s' H) as [Hbal Hrest]. split.
    + intros k. rewrite Hbal. subst s1. cbn [bal set_bal]. rewrite ladd4_D_neg.
      rewrite (D_ext h (total ((t, a) :: r)) (fun x => one t a x + total r x) k) by (intros; apply total_cons).
      rewrite D_add. lia.
    + eapply same_rest_trans; [exact Hrest|]. subst s1. apply same_rest_set_bal.
Qed.

(* keys strictly increasing (what sdk.Coins guarantees) *)
Fixpoint ssorted (cs : list (Z * Z)) : Prop :=
  match cs with
  | [] => True
  | (t, _) :: r => (forall t' a', In (t', a') r -> t < t') /\ ssorted r
  end.

Lemma withdraw_succeeds h coins : forall s,
  0 <= h -> ssorted coins ->
  (forall t a, In (t, a) coins -> a <= bal s (h, Base, t)) ->
  exists s', run_steps (map (withdraw_one h) coins) s = Ok s'.
Proof.
  induction coins as [|[t a] r IH]; intros s Hh Hs Hb.
  - eexists. reflexivity.
  - cbn [map run_steps withdraw_one].
    assert (Ha : a <= bal s (h, Base, t)) by (apply Hb; left; reflexivity).
    destruct (Z.ltb_spec (bal s (h, Base, t)) a); [lia|]. cbn [bind].
    destruct Hs as [Hlt Hs].
    apply IH; [exact Hh|exact Hs|].
    intros t' a' Hin. cbn [bal set_bal]. rewrite ladd4_D_neg.
    assert (t < t') by (eapply Hlt; eauto).
    assert (D h (one t a) (h, Base, t') = 0).
    { unfold D, one, ModX, Supply, Base, Bridge.
      repeat match goal with |- context [?a =? ?b] => destruct (Z.eqb_spec a b); subst end;
        cbn [andb]; try lia. }
    rewrite H1. specialize (Hb t' a' (or_intror Hin)). lia.
Qed.

(* ------------------------------------------------------------------------------------------ *)
(** * sdk.Coins.Add as modelled by base_coins *)

Lemma total_coins_add cs t a x : total (coins_add cs t a) x = total cs x + one t a x.
Proof.
  induction cs as [|[t' a'] r IH]; cbn [coins_add].
  - cbn. unfold one. lia.
  - destruct (Z.eqb_spec t t'); [subst|].
    + cbn [total]. unfold one. destruct (t' =? x); lia.
    + destruct (t <? t').
      * cbn [total]. unfold one. destruct (t =? x), (t' =? x); lia.
      * cbn [total]. rewrite IH. lia.
Qed.

Lemma total_drop_zero cs x : total (drop_zero cs) x = total cs x.
Proof.
  induction cs as [|[t a] r IH]; [reflexivity|]. unfold drop_zero in *. cbn [filter snd].
  destruct (Z.eqb_spec a 0); cbn [negb].
  - subst. cbn [total]. rewrite IH. destruct (t =? x); lia.
  - cbn [total]. rewrite IH. reflexivity.
Qed.

Lemma total_fold tokens : forall acc x,
  total (fold_left (fun cs ta => drop_zero (coins_add cs (fst ta) (snd ta))) tokens acc) x
  = total acc x + total tokens x.
Proof.
  induction tokens as [|[t a] r IH]; intros acc x; cbn [fold_left]; [cbn; lia|].
  rewrite IH, total_drop_zero, total_coins_add. cbn [fst snd total]. unfold one. lia.
Qed.

Lemma total_base_coins tokens x : total (base_coins tokens) x = total tokens x.
Proof. unfold base_coins. rewrite total_fold. reflexivity. Qed.

Lemma in_coins_add cs t a t' a' :
  In (t', a') (coins_add cs t a) -> t' = t \/ In t' (map fst cs).
Proof.
  induction cs as [|[t0 a0] r IH]; cbn [coins_add].
  - intros [H|[]]. inversion H. auto.
  - destruct (Z.eqb_spec t t0); [subst|].
    + intros [H|H]; [inversion H; subst; right; left; reflexivity|right; right; apply in_map_iff; exists (t', a'); auto].
    + destruct (t <? t0).
      * intros [H|[H|H]]; [inversion H; auto| inversion H; subst; right; left; reflexivity|
                           right; right; apply in_map_iff; exists (t', a'); auto].
      * intros [H|H]; [inversion H; subst; right; left; reflexivity|].
        destruct (IH H); [auto|right; right; assumption].
Qed.

Lemma ssorted_in_lt t cs : (forall t' a', In (t', a') cs -> t < t') <-> (forall t', In t' (map (@fst Z Z) cs) -> t < t').
Proof.
  split; intros H.
  - intros t' Hin. apply in_map_iff in Hin. destruct Hin as [[t0 a0] [E Hin]]. cbn in E. subst. eauto.
  - intros t' a' Hin. apply H. apply in_map_iff. exists (t', a'). auto.
Qed.

Lemma ssorted_coins_add cs t a : ssorted cs -> ssorted (coins_add cs t a).
Proof.
  induction cs as [|[t0 a0] r IH]; intros Hs; cbn [coins_add].
  - cbn. split; [intros ? ? []|exact I].
  - destruct Hs as [Hlt Hs].
    destruct (Z.eqb_spec t t0); [subst; cbn; split; assumption|].
    destruct (Z.ltb_spec t t0).
    + cbn [ssorted]. split; [|split; assumption].
      intros t' a' [E|Hin]; [inversion E; subst; assumption|]. specialize (Hlt _ _ Hin). lia.
    + cbn [ssorted]. split; [|apply IH; exact Hs].
      intros t' a' Hin. destruct (in_coins_add _ _ _ _ _ Hin) as [->|Hin']; [lia|].
      apply (proj1 (ssorted_in_lt t0 r) Hlt). exact Hin'.
Qed.

Lemma ssorted_filter f cs : ssorted cs -> ssorted (filter f cs).
Proof.
  induction cs as [|[t a] r IH]; intros Hs; [exact I|]. destruct Hs as [Hlt Hs]. cbn [filter].
  destruct (f (t, a)); [|apply IH; exact Hs].
  cbn [ssorted]. split; [|apply IH; exact Hs].
  intros t' a' Hin. apply filter_In in Hin. destruct Hin. eauto.
Qed.

Lemma ssorted_base_coins tokens : ssorted (base_coins tokens).
Proof.
  unfold base_coins.
  assert (forall acc, ssorted acc ->
          ssorted (fold_left (fun cs ta => drop_zero (coins_add cs (fst ta) (snd ta))) tokens acc)) as H.
  { induction tokens as [|[t a] r IH]; intros acc Hacc; cbn [fold_left]; [exact Hacc|].
    apply IH. apply ssorted_filter. apply ssorted_coins_add. exact Hacc. }
  apply H. exact I.
Qed.

(* in a strictly sorted coin list the amount listed for t is the total of t *)
Lemma ssorted_in_total cs : ssorted cs -> forall t a, In (t, a) cs -> total cs t = a.
Proof.
  induction cs as [|[t0 a0] r IH]; intros Hs t a Hin; [destruct Hin|].
  destruct Hs as [Hlt Hs]. cbn [total]. destruct Hin as [E|Hin].
  - inversion E; subst. rewrite Z.eqb_refl.
    assert (total r t = 0) as ->; [|lia].
    clear -Hlt. induction r as [|[t1 a1] r IH]; [reflexivity|]. cbn [total].
    assert (t < t1) by (eapply Hlt; left; reflexivity).
    destruct (Z.eqb_spec t1 t); [lia|]. rewrite IH; [lia|]. intros. eapply Hlt. right. eauto.
  - specialize (Hlt _ _ Hin). destruct (Z.eqb_spec t0 t); [lia|]. rewrite (IH Hs _ _ Hin). lia.
Qed.

(* ------------------------------------------------------------------------------------------ *)
(** * boundary 2: BridgeCallHandler *)

Section BC.
  Variable call : bst -> result bst.

  (* T1: whatever the failed inner step wrote (conversions of the first tokens, contract storage, …) is gone:
     the outcome is the refund phase run on the state right after the deposits *)
  Lemma bch_inner_discarded m s s1 c :
    run_steps (map (deposit_one (receiver m)) (m_tokens m)) s = Ok s1 ->
    bridge_call_evm call m (base_coins (m_tokens m)) s1 = Err c ->
    bridge_call_handler call m s = failed_refund m (base_coins (m_tokens m)) s1.
  Proof.
    intros H1 H2. unfold bridge_call_handler, branch, discard. rewrite H1, H2. reflexivity.
  Qed.

  (* the inner step fails at any position of the conversions or in the call *)
  Lemma bce_fail_conversion m cs1 cs2 ta c0 c1 c' :
    run_steps (map (to_evm_one (receiver m)) cs1) c0 = Ok c1 ->
    to_evm_one (receiver m) ta c1 = Err c' ->
    bridge_call_evm call m (cs1 ++ ta :: cs2) c0 = Err c'.
  Proof.
    intros H1 H2. unfold bridge_call_evm. rewrite map_app. cbn [map].
    rewrite (run_steps_fail_at _ _ _ _ _ _ H1 H2). reflexivity.
  Qed.

  Lemma bce_fail_call m coins c0 c1 c' :
    run_steps (map (to_evm_one (receiver m)) coins) c0 = Ok c1 ->
    m_to_is_contract m = true -> call c1 = Err c' ->
    bridge_call_evm call m coins c0 = Err c'.
  Proof. intros H1 H2 H3. unfold bridge_call_evm. rewrite H1. cbn. rewrite H2. exact H3. Qed.

  (* T4 (exact characterisation, ALL cases of a failed inner step):
     - if the handler returns nil: the deposits stay with the RECEIVER, the refund was taken from the REFUND
       address' own balance, one refund record was added;
     - if it returns an error (refund address cannot pay): ExecuteClaim's transaction discards everything. *)
  Lemma bch_failed_inner_ok m s c s' :
    (forall t a, In (t, a) (m_tokens m) -> registered s t = true) ->
    (forall s1, run_steps (map (deposit_one (receiver m)) (m_tokens m)) s = Ok s1 ->
                bridge_call_evm call m (base_coins (m_tokens m)) s1 = Err c) ->
    bridge_call_handler call m s = Ok s' ->
    (forall k, bal s' k = bal s k + D (receiver m) (total (m_tokens m)) k - D (m_refund m) (total (m_tokens m)) k) /\
    outcalls s' = outcalls s ++ [{| oc_id := next_id s; oc_sender := m_refund m; oc_refund := m_refund m;
                                    oc_tokens := base_coins (m_tokens m); oc_event := m_nonce m |}] /\
    next_id s' = next_id s + 1 /\ evmst s' = evmst s /\ (forall n, pendingc s' n = pendingc s n).
  Proof.
    intros Hreg Hfail Hok.
    destruct (deposit_effect (receiver m) (m_tokens m) s Hreg) as (s1 & Hdep & Hbal1 & Hrest1).
    rewrite (bch_inner_discarded m s s1 c Hdep (Hfail s1 Hdep)) in Hok.
    unfold failed_refund in Hok.
    destruct (run_steps (map (withdraw_one (m_refund m)) (base_coins (m_tokens m))) s1) as [s2|s2] eqn:Hw;
      cbn [bind] in Hok; [|discriminate].
    destruct (timeout_ok s2); [|discriminate]. inversion Hok; subst s'. clear Hok.
    destruct (withdraw_effect _ _ _ _ Hw) as [Hbal2 Hrest2].
    destruct Hrest1 as (P1&O1&N1&E1&_&_&_). destruct Hrest2 as (P2&O2&N2&E2&_&_&_).
    cbn [bal outcalls next_id evmst pendingc add_outcall]. repeat split.
    - intros k. rewrite Hbal2, Hbal1.
      rewrite (D_ext (m_refund m) (total (base_coins (m_tokens m))) (total (m_tokens m)) k)
        by (intros; apply total_base_coins). reflexivity.
    - rewrite O2, O1, N2, N1. reflexivity.
    - rewrite N2, N1. reflexivity.
    - rewrite E2, E1. reflexivity.
    - intros n. rewrite P2, P1. reflexivity.
  Qed.

  Lemma bch_failed_inner_err_reverts m s e :
    execute_claim call m s = Err e -> execute_claim_tx call m s = (s, false).
  Proof. intros H. unfold execute_claim_tx. eapply tx_err; eauto. Qed.

  (* T2: when the deposit holder IS the refund address the outcome is exactly the designated one *)
  Lemma bch_same_holder_designated m s c :
    receiver m = m_refund m -> 0 <= m_refund m ->
    (forall t a, In (t, a) (m_tokens m) -> registered s t = true) ->
    (forall t, 0 <= bal s (m_refund m, Base, t)) ->
    timeout_ok s = true -> pendingc s (m_nonce m) = true ->
    (forall s1, run_steps (map (deposit_one (receiver m)) (m_tokens m)) (del_pending s (m_nonce m)) = Ok s1 ->
                bridge_call_evm call m (base_coins (m_tokens m)) s1 = Err c) ->
    exists s', execute_claim_tx call m s = (s', true) /\ bst_eq s' (bc_designated m s).
  Proof.
    intros Hsame Hh Hreg Hnonneg Hto Hpend Hfail.
    set (s0 := del_pending s (m_nonce m)).
    assert (Hreg0 : forall t a, In (t, a) (m_tokens m) -> registered s0 t = true) by (intros; cbn; eauto).
    destruct (deposit_effect (receiver m) (m_tokens m) s0 Hreg0) as (s1 & Hdep & Hbal1 & Hrest1).
    assert (Hw : exists s2, run_steps (map (withdraw_one (m_refund m)) (base_coins (m_tokens m))) s1 = Ok s2).
    { apply withdraw_succeeds; [exact Hh|apply ssorted_base_coins|].
      intros t a Hin. rewrite Hbal1, Hsame.
      rewrite <- (ssorted_in_total _ (ssorted_base_coins (m_tokens m)) t a Hin), total_base_coins.
      assert (D (m_refund m) (total (m_tokens m)) (m_refund m, Base, t) = total (m_tokens m) t).
      { unfold D, ModX, Supply, Base, Bridge.
        repeat match goal with |- context [?a =? ?b] => destruct (Z.eqb_spec a b) end;
          cbn [andb]; try lia; try congruence. }
      rewrite H. specialize (Hnonneg t). subst s0. cbn [bal del_pending]. lia. }
    destruct Hw as (s2 & Hw).
    destruct (withdraw_effect _ _ _ _ Hw) as [Hbal2 Hrest2].
    destruct Hrest1 as (P1&O1&N1&E1&R1&En1&T1). destruct Hrest2 as (P2&O2&N2&E2&R2&En2&T2).
    assert (Hto2 : timeout_ok s2 = true) by (rewrite T2, T1; exact Hto).
    assert (Hh' : bridge_call_handler call m s0 =
                  Ok (add_outcall s2 {| oc_id := next_id s2; oc_sender := m_refund m; oc_refund := m_refund m;
                                        oc_tokens := base_coins (m_tokens m); oc_event := m_nonce m |})).
    { rewrite (bch_inner_discarded m s0 s1 c Hdep (Hfail s1 Hdep)). unfold failed_refund. rewrite Hw. cbn [bind].
      rewrite Hto2. reflexivity. }
    eexists. split.
    - unfold execute_claim_tx, tx, execute_claim, branch, commit. rewrite Hpend. fold s0. rewrite Hh'. reflexivity.
    - unfold bc_designated. fold s0. unfold bst_eq. cbn [bal outcalls next_id evmst pendingc add_outcall registered enabled timeout_ok].
      repeat split.
      + intros k. rewrite Hbal2, Hbal1, Hsame.
        rewrite (D_ext (m_refund m) (total (base_coins (m_tokens m))) (total (m_tokens m)) k)
          by (intros; apply total_base_coins). lia.
      + intros n. rewrite P2, P1. reflexivity.
      + rewrite O2, O1, N2, N1. reflexivity.
      + rewrite N2, N1. reflexivity.
      + rewrite E2, E1. reflexivity.
      + intros t. rewrite R2, R1. reflexivity.
      + intros t. rewrite En2, En1. reflexivity.
      + rewrite T2, T1. reflexivity.
  Qed.
End BC.

(* ------------------------------------------------------------------------------------------ *)
(** * T3: the full statement is FALSE of the faithful model — concrete witness *)

Definition wit_bal : ledger := fun k => if key_eqb k (2, Base, 0) then 10 else 0.
Definition wit_state : bst :=
  {| bal := wit_bal; registered := fun _ => true; enabled := fun _ => true;
     pendingc := fun n => n =? 7; outcalls := []; next_id := 1; timeout_ok := true; evmst := 0 |}.
(* receiver (to) = contract 1 that reverts after writing its storage; refund address 2 owns 10 of the token *)
Definition wit_msg : bcmsg :=
  {| m_nonce := 7; m_sender := 3; m_refund := 2; m_to := 1; m_to_is_contract := true; m_sendcallto := false;
     m_tokens := [(0, 10)] |}.
Definition wit_call : bst -> result bst := fun c => Err (set_evmst c 99).

Lemma bch_refuted_witness :
  let (post, ok) := execute_claim_tx wit_call wit_msg wit_state in
  ok = true /\
  bal post (1, Base, 0) = 10 /\ bal (bc_designated wit_msg wit_state) (1, Base, 0) = 0 /\
  bal post (2, Base, 0) = 0  /\ bal (bc_designated wit_msg wit_state) (2, Base, 0) = 10 /\
  evmst post = 0 /\ length (outcalls post) = 1%nat.
Proof. vm_compute. repeat split. Qed.

Lemma bch_refuted :
  exists call m s post, execute_claim_tx call m s = (post, true) /\
    (exists c s1, run_steps (map (deposit_one (receiver m)) (m_tokens m)) (del_pending s (m_nonce m)) = Ok s1 /\
                  bridge_call_evm call m (base_coins (m_tokens m)) s1 = Err c) /\
    ~ bst_eq post (bc_designated m s).
Proof.
  exists wit_call, wit_msg, wit_state.
  destruct (execute_claim_tx wit_call wit_msg wit_state) as [post ok] eqn:E.
  exists post. pose proof bch_refuted_witness as W. rewrite E in W.
  destruct W as (Hok & H1 & H2 & _). subst ok. split; [reflexivity|]. split.
  - eexists. eexists. split; vm_compute; reflexivity.
  - intros (Hb & _). specialize (Hb (1, Base, 0)). rewrite H1, H2 in Hb. discriminate.
Qed.

(* refund address without funds: the handler errors, the transaction reverts, the claim stays pending *)
Definition wit_state_poor : bst :=
  {| bal := fun _ => 0; registered := fun _ => true; enabled := fun _ => true;
     pendingc := fun n => n =? 7; outcalls := []; next_id := 1; timeout_ok := true; evmst := 0 |}.
Lemma bch_poor_refund_reverts :
  let (post, ok) := execute_claim_tx wit_call wit_msg wit_state_poor in
  ok = false /\ pendingc post 7 = true /\ outcalls post = [] /\ bal post (1, Base, 0) = 0.
Proof. vm_compute. repeat split. Qed.

(* ------------------------------------------------------------------------------------------ *)
(** * non-vacuity *)

Definition nv_msg : bcmsg :=
  {| m_nonce := 7; m_sender := 3; m_refund := 1; m_to := 1; m_to_is_contract := true; m_sendcallto := false;
     m_tokens := [(1, 5); (0, 10); (1, 2)] |}.
Lemma c18_nonvacuous :
  (* same-holder case reaches the designated outcome with several tokens, a duplicate, and a contract that wrote *)
  (let (post, ok) := execute_claim_tx wit_call nv_msg wit_state_poor in
   ok = true /\ bal post (1, Base, 0) = 0 /\ bal post (1, Base, 1) = 0 /\ evmst post = 0 /\
   map oc_tokens (outcalls post) = [[(0, 10); (1, 7)]] /\ pendingc post 7 = false) /\
  (* a disabled pair at the second coin fails inside the cache after the first conversion was written *)
  (let s := {| bal := fun _ => 0; registered := fun _ => true; enabled := fun t => t =? 0;
               pendingc := fun n => n =? 7; outcalls := []; next_id := 1; timeout_ok := true; evmst := 0 |} in
   let (post, ok) := execute_claim_tx (fun c => Ok c) nv_msg s in
   ok = true /\ bal post (1, Erc, 0) = 0 /\ bal post (1, Base, 0) = 0 /\ length (outcalls post) = 1%nat) /\
  (* generic boundaries on a counter: handler / message / hook that write 1 then fail *)
  try_attestation Z (fun x => Err (x + 1)) (fun x => x + 10) (fun x => x) 0 = (10, false) /\
  gov_execute Z [(fun x => Ok (x + 1)); (fun x => Err (x + 1)); (fun x => Ok (x + 1))] (fun x => x + 10) (fun b x => if b then x + 100 else x + 200) 0 = (210, false) /\
  core_recv Z true (fun x => Ok (x + 1)) (fun x => Err (x + 1)) (fun x => x + 10) (fun b x => if b then x + 100 else x + 200) 0 = (210, false).
Proof. vm_compute. repeat split. Qed.

(* ------------------------------------------------------------------------------------------ *)
(** * the sources still have the shape the models were transcribed from (gen/Gen_C18.v is regenerated on every run) *)
Lemma source_shapes : source_shapes_ok = true.
Proof. vm_compute. reflexivity. Qed.
