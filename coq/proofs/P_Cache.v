(* C18 — proofs about model/M_Cache.v *)
From Coq Require Import ZArith List Bool Lia.
From FxV Require Import model.M_Cache model.M_CacheShape.
Import ListNotations.
Open Scope Z_scope.

(* ------------------------------------------------------------------------------------------ *)
(** * generic facts *)

Lemma run_steps_app {S} (fs1 fs2 : list (S -> result S)) s :
  run_steps (fs1 ++ fs2) s = bind (run_steps fs1 s) (run_steps fs2).
Proof.
  revert s; induction fs1 as [|f r IH]; intros s; cbn; [reflexivity|].
  destruct (f s); cbn; [apply IH|reflexivity].
Qed.

(* failure at ANY position: everything before succeeded (whatever it wrote), the step at the position fails *)
Lemma run_steps_fail_at {S} (fs1 fs2 : list (S -> result S)) f s s1 s' :
  run_steps fs1 s = Ok s1 -> f s1 = Err s' -> run_steps (fs1 ++ f :: fs2) s = Err s'.
Proof. intros H1 H2. rewrite run_steps_app, H1. cbn. rewrite H2. reflexivity. Qed.

Lemma tx_err {S} (f : S -> result S) s c : f s = Err c -> tx f s = (s, false).
Proof. unfold tx, branch, discard. intros ->. reflexivity. Qed.

(* ------------------------------------------------------------------------------------------ *)
(** * boundary 1: attestation *)

Lemma att_failed_handler S (handler : S -> result S) mark cleanup pre x' :
  handler (mark pre) = Err x' ->
  try_attestation S handler mark cleanup pre = (att_designated S mark cleanup pre, false).
Proof.
  intros H. unfold try_attestation, process_attestation, att_designated, branch, discard.
  rewrite H. reflexivity.
Qed.

Lemma att_ok_handler S (handler : S -> result S) mark cleanup pre x' :
  handler (mark pre) = Ok x' ->
  try_attestation S handler mark cleanup pre = (cleanup x', true).
Proof.
  intros H. unfold try_attestation, process_attestation, branch, commit. rewrite H. reflexivity.
Qed.

(* the vote transaction: a handler error is tolerated (event observed, vote kept), a handler PANIC is not — the transaction
   fails and nothing of it stays, so the event is not observed and the vote is not recorded *)
Lemma claim_tx_error S (handler : S -> result S) mark cleanup hp record finish pre x :
  hp (mark (record pre)) = Some (Err x) ->
  claim_tx S mark cleanup hp record finish pre = (finish (att_designated S mark cleanup (record pre)), 1).
Proof. intros H. unfold claim_tx, att_designated, discard. rewrite H. reflexivity. Qed.

Lemma claim_tx_panic S mark cleanup (hp : S -> option (result S)) record finish pre :
  hp (mark (record pre)) = None -> claim_tx S mark cleanup hp record finish pre = (pre, 2).
Proof. intros H. unfold claim_tx. rewrite H. reflexivity. Qed.

Lemma claim_tx_agrees S (handler : S -> result S) mark cleanup record finish pre :
  claim_tx S mark cleanup (fun s => Some (handler s)) record finish pre =
  (let (s, ok) := try_attestation S handler mark cleanup (record pre) in (finish s, if ok then 0 else 1)).
Proof.
  unfold claim_tx, try_attestation, process_attestation, branch, commit, discard.
  destruct (handler (mark (record pre))); reflexivity.
Qed.

(* a SendToFx claim forwarded over IBC: a failure at ANY stage (deposit, conversion to the voucher, the transfer itself —
   whatever the earlier stages wrote) is not tolerated: the transaction keeps nothing, the claim stays pending *)
Lemma stf_failure_keeps_nothing S consume (deposit to_voucher transfer : S -> result S) s e :
  send_to_fx_ibc S consume deposit to_voucher transfer s = Err e ->
  send_to_fx_ibc_tx S consume deposit to_voucher transfer s = (s, false).
Proof. intros H. unfold send_to_fx_ibc_tx. eapply tx_err; eauto. Qed.

Lemma stf_fails_at_transfer S consume (deposit to_voucher transfer : S -> result S) s s1 s2 e :
  deposit (consume s) = Ok s1 -> to_voucher s1 = Ok s2 -> transfer s2 = Err e ->
  send_to_fx_ibc S consume deposit to_voucher transfer s = Err e.
Proof. intros H1 H2 H3. unfold send_to_fx_ibc. rewrite H1. cbn. rewrite H2. cbn. exact H3. Qed.

Lemma stf_transfer_failure_keeps_nothing S consume (deposit to_voucher transfer : S -> result S) s s1 s2 e :
  deposit (consume s) = Ok s1 -> to_voucher s1 = Ok s2 -> transfer s2 = Err e ->
  send_to_fx_ibc_tx S consume deposit to_voucher transfer s = (s, false).
Proof. intros. eapply stf_failure_keeps_nothing. eapply stf_fails_at_transfer; eauto. Qed.

(* ------------------------------------------------------------------------------------------ *)
(** * boundary 3: gov *)

Lemma gov_failed S (msgs : list (S -> result S)) pre_exec set_status pre c :
  run_steps msgs (pre_exec pre) = Err c ->
  gov_execute S msgs pre_exec set_status pre = (gov_designated S pre_exec set_status pre, false).
Proof.
  intros H. unfold gov_execute, gov_designated, branch, discard. rewrite H. reflexivity.
Qed.

Lemma gov_failed_at S (ms1 ms2 : list (S -> result S)) f pre_exec set_status pre s1 s' :
  run_steps ms1 (pre_exec pre) = Ok s1 -> f s1 = Err s' ->
  gov_execute S (ms1 ++ f :: ms2) pre_exec set_status pre = (gov_designated S pre_exec set_status pre, false).
Proof. intros H1 H2. eapply gov_failed. eapply run_steps_fail_at; eauto. Qed.

Lemma gov_passed S (msgs : list (S -> result S)) pre_exec set_status pre c :
  run_steps msgs (pre_exec pre) = Ok c ->
  gov_execute S msgs pre_exec set_status pre = (set_status true c, true).
Proof. intros H. unfold gov_execute, branch, commit. rewrite H. reflexivity. Qed.

(* ------------------------------------------------------------------------------------------ *)
(** * boundary 4: IBC receive *)

Lemma recv_error_ack S parse_ok transfer_recv hook tao write_ack pre :
  snd (mw_on_recv S parse_ok transfer_recv hook (tao pre)) = false ->
  core_recv S parse_ok transfer_recv hook tao write_ack pre = (recv_designated S tao write_ack pre, false).
Proof.
  unfold core_recv, recv_designated, branch, discard.
  destruct (mw_on_recv S parse_ok transfer_recv hook (tao pre)) as [c' ok]; cbn.
  intros ->. reflexivity.
Qed.

(* the receive transaction: a panicking callback keeps NOTHING (class 3); otherwise the transaction is the core rule, and an
   error acknowledgement (class 2) leaves exactly the core's own writes and the acknowledgement *)
Lemma recv_tx_outcomes S parse_ok transfer_recv hook tao write_ack pre :
  recv_tx S parse_ok transfer_recv hook tao write_ack true pre = (pre, 3) /\
  (let (s, cls) := recv_tx S parse_ok transfer_recv hook tao write_ack false pre in
   (cls = 1 \/ cls = 2) /\ (cls = 2 -> s = recv_designated S tao write_ack pre) /\
   (cls = 1 <-> snd (mw_on_recv S parse_ok transfer_recv hook (tao pre)) = true)).
Proof.
  split; [reflexivity|]. unfold recv_tx.
  destruct (snd (mw_on_recv S parse_ok transfer_recv hook (tao pre))) eqn:E.
  - unfold core_recv, branch, commit. destruct (mw_on_recv S parse_ok transfer_recv hook (tao pre)) as [c' ok]; cbn in *. subst ok.
    split; [left; reflexivity|]. split; [discriminate|]. split; reflexivity.
  - rewrite (recv_error_ack S parse_ok transfer_recv hook tao write_ack pre E).
    split; [right; reflexivity|]. split; [reflexivity|]. split; discriminate.
Qed.

(* the three places where the middleware answers with an error acknowledgement *)
Lemma mw_error_points S parse_ok transfer_recv hook ctx :
  snd (mw_on_recv S parse_ok transfer_recv hook ctx) = false <->
  parse_ok = false \/
  (parse_ok = true /\ exists c, transfer_recv ctx = Err c) \/
  (parse_ok = true /\ exists c1 c2, transfer_recv ctx = Ok c1 /\ hook c1 = Err c2).
Proof.
  unfold mw_on_recv. destruct parse_ok; cbn.
  - destruct (transfer_recv ctx) as [c1|c1] eqn:E1; cbn.
    + destruct (hook c1) as [c2|c2] eqn:E2; cbn; split; intros H; try discriminate.
      * destruct H as [H|[[_ [c H]]|[_ [a [b [Ha Hb]]]]]]; try discriminate.
        inversion Ha; subst. rewrite E2 in Hb. discriminate.
      * right; right; split; [reflexivity|]. exists c1, c2. auto.
      * reflexivity.
    + split; intros _; [|reflexivity]. right; left; split; [reflexivity|]. eauto.
  - split; intros _; [left|]; reflexivity.
Qed.

Lemma recv_success S parse_ok transfer_recv hook tao write_ack pre c1 c2 :
  parse_ok = true -> transfer_recv (tao pre) = Ok c1 -> hook c1 = Ok c2 ->
  core_recv S parse_ok transfer_recv hook tao write_ack pre = (write_ack true c2, true).
Proof.
  intros -> H1 H2. unfold core_recv, mw_on_recv, branch, commit. cbn. rewrite H1, H2. reflexivity.
Qed.

(* ------------------------------------------------------------------------------------------ *)
(** * ledger facts *)

Lemma key_eqb_eq a b : key_eqb a b = true <-> a = b.
Proof.
  destruct a as [[a1 a2] a3], b as [[b1 b2] b3]. unfold key_eqb.
  rewrite !andb_true_iff, !Z.eqb_eq. split.
  - intros [[-> ->] ->]. reflexivity.
  - intros H. inversion H. auto.
Qed.

(* closed form of what a deposit / withdrawal of per-token totals [tot] does to the ledger, for every token kind:
   the holder's base coin, plus a module part that depends on the kind only *)
Definition Cm (kd hh kind : Z) : Z :=
  if kd =? 0 then
    (if (hh =? ModX) && (kind =? Bridge) then 1 else 0) + (if (hh =? Supply) && (kind =? Bridge) then 1 else 0) +
    (if (hh =? Supply) && (kind =? Base) then 1 else 0)
  else if kd =? 1 then
    (if (hh =? ModX) && (kind =? Bridge) then -1 else 0) + (if (hh =? Supply) && (kind =? Bridge) then -1 else 0) +
    (if (hh =? Supply) && (kind =? Base) then 1 else 0)
  else (if (hh =? ModX) && (kind =? Base) then -1 else 0).
Definition Mv (h : Z) (tot : Z -> Z) (k : key) : Z :=
  let '(hh, kind, t) := k in if (hh =? h) && (kind =? Base) then tot t else 0.
Definition Dm (kf : Z -> Z) (tot : Z -> Z) (k : key) : Z :=
  let '(hh, kind, t) := k in tot t * Cm (kf t) hh kind.
Definition D (kf : Z -> Z) (h : Z) (tot : Z -> Z) (k : key) : Z := Mv h tot k + Dm kf tot k.

Definition one (t a : Z) : Z -> Z := fun x => if t =? x then a else 0.

Lemma D_split kf h tot k : D kf h tot k = Mv h tot k + Dm kf tot k.
Proof. reflexivity. Qed.

Ltac keycases :=
  repeat match goal with |- context [?a =? ?b] => destruct (Z.eqb_spec a b); subst end;
  cbn [andb]; try lia; try congruence.

Lemma dep_delta_kind0 kf l h t a k : kf t = 0 ->
  ladd (ladd (ladd (ladd l (h, Base, t) a) (ModX, Bridge, t) a) (Supply, Bridge, t) a) (Supply, Base, t) a k
  = l k + D kf h (one t a) k.
Proof.
  intros Hk. destruct k as [[hh kind] x]. unfold D, Mv, Dm, one.
  destruct (Z.eqb_spec t x) as [->|Hne].
  - rewrite Hk. unfold ladd, Cm, key_eqb, ModX, Supply, Base, Bridge. keycases.
  - unfold ladd, key_eqb. destruct (Z.eqb_spec t x); [congruence|]. rewrite !andb_false_r. destruct ((hh =? h) && (kind =? Base)); lia.
Qed.
Lemma dep_delta_kind1 kf l h t a k : kf t = 1 ->
  ladd (ladd (ladd (ladd l (h, Base, t) a) (ModX, Bridge, t) (- a)) (Supply, Bridge, t) (- a)) (Supply, Base, t) a k
  = l k + D kf h (one t a) k.
Proof.
  intros Hk. destruct k as [[hh kind] x]. unfold D, Mv, Dm, one.
  destruct (Z.eqb_spec t x) as [->|Hne].
  - rewrite Hk. unfold ladd, Cm, key_eqb, ModX, Supply, Base, Bridge. keycases.
  - unfold ladd, key_eqb. destruct (Z.eqb_spec t x); [congruence|]. rewrite !andb_false_r. destruct ((hh =? h) && (kind =? Base)); lia.
Qed.
Lemma dep_delta_kindfx kf l h t a k : kf t <> 0 -> kf t <> 1 ->
  ladd (ladd l (h, Base, t) a) (ModX, Base, t) (- a) k = l k + D kf h (one t a) k.
Proof.
  intros H0 H1. destruct k as [[hh kind] x]. unfold D, Mv, Dm, one.
  destruct (Z.eqb_spec t x) as [->|Hne].
  - unfold Cm. destruct (Z.eqb_spec (kf x) 0); [congruence|]. destruct (Z.eqb_spec (kf x) 1); [congruence|].
    unfold ladd, key_eqb, ModX, Base. keycases.
  - unfold ladd, key_eqb. destruct (Z.eqb_spec t x); [congruence|]. rewrite !andb_false_r. destruct ((hh =? h) && (kind =? Base)); lia.
Qed.
(* the withdrawal chains are the same deltas negated *)
Lemma wd_delta_kind0 kf l h t a k : kf t = 0 ->
  ladd (ladd (ladd (ladd l (h, Base, t) (- a)) (ModX, Bridge, t) (- a)) (Supply, Bridge, t) (- a)) (Supply, Base, t) (- a) k
  = l k - D kf h (one t a) k.
Proof.
  intros Hk. rewrite (dep_delta_kind0 kf l h t (- a) k Hk). destruct k as [[hh kind] x]. unfold D, Mv, Dm, one.
  destruct (t =? x); destruct ((hh =? h) && (kind =? Base)); lia.
Qed.
Lemma wd_delta_kind1 kf l h t a k : kf t = 1 ->
  ladd (ladd (ladd (ladd l (h, Base, t) (- a)) (ModX, Bridge, t) a) (Supply, Bridge, t) a) (Supply, Base, t) (- a) k
  = l k - D kf h (one t a) k.
Proof.
  intros Hk. replace a with (- - a) at 2 3 by lia. rewrite (dep_delta_kind1 kf l h t (- a) k Hk).
  destruct k as [[hh kind] x]. unfold D, Mv, Dm, one.
  destruct (t =? x); destruct ((hh =? h) && (kind =? Base)); lia.
Qed.
Lemma wd_delta_kindfx kf l h t a k : kf t <> 0 -> kf t <> 1 ->
  ladd (ladd l (h, Base, t) (- a)) (ModX, Base, t) a k = l k - D kf h (one t a) k.
Proof.
  intros H0 H1. replace a with (- - a) at 2 by lia. rewrite (dep_delta_kindfx kf l h t (- a) k H0 H1).
  destruct k as [[hh kind] x]. unfold D, Mv, Dm, one.
  destruct (t =? x); destruct ((hh =? h) && (kind =? Base)); lia.
Qed.

Lemma D_add kf h f g k : D kf h (fun x => f x + g x) k = D kf h f k + D kf h g k.
Proof.
  destruct k as [[hh kind] x]. unfold D, Mv, Dm. destruct ((hh =? h) && (kind =? Base)); ring.
Qed.

Lemma D_ext kf h f g k : (forall x, f x = g x) -> D kf h f k = D kf h g k.
Proof. intros H. destruct k as [[hh kind] x]. unfold D, Mv, Dm. rewrite H. reflexivity. Qed.

Lemma D_zero kf h k : D kf h (fun _ => 0) k = 0.
Proof. destruct k as [[hh kind] x]. unfold D, Mv, Dm. destruct ((hh =? h) && (kind =? Base)); ring. Qed.

Lemma total_cons t a r x : total ((t, a) :: r) x = one t a x + total r x.
Proof. reflexivity. Qed.

(* state fields other than the ledger *)
Definition same_rest (a b : bst) : Prop :=
  (forall n, pendingc a n = pendingc b n) /\ outcalls a = outcalls b /\ next_id a = next_id b /\
  evmst a = evmst b /\ (forall t, registered a t = registered b t) /\ (forall t, enabled a t = enabled b t) /\
  timeout_ok a = timeout_ok b /\ (forall t, tkind a t = tkind b t).

Lemma same_rest_refl a : same_rest a a.
Proof. repeat split. Qed.

Lemma same_rest_trans a b c : same_rest a b -> same_rest b c -> same_rest a c.
Proof.
  intros (A1&A2&A3&A4&A5&A6&A7&A8) (B1&B2&B3&B4&B5&B6&B7&B8).
  unfold same_rest. repeat split; intros; try congruence;
    try (rewrite A1; apply B1); try (rewrite A5; apply B5); try (rewrite A6; apply B6); try (rewrite A8; apply B8).
Qed.

Lemma same_rest_set_bal s l : same_rest (set_bal s l) s.
Proof. repeat split. Qed.

(* ------------------------------------------------------------------------------------------ *)
(** * deposits *)

(* a deposit loop that returns nil has credited, for every token kind, exactly the closed form *)
Lemma deposit_effect kf h tokens : forall s s',
  (forall t, tkind s t = kf t) ->
  run_steps (map (deposit_one h) tokens) s = Ok s' ->
  (forall k, bal s' k = bal s k + D kf h (total tokens) k) /\ same_rest s' s.
Proof.
  induction tokens as [|[t a] r IH]; intros s s' Hkf H.
  - cbn in H. inversion H; subst. split; [|apply same_rest_refl]. intros k. rewrite D_zero. lia.
  - cbn [map run_steps deposit_one] in H.
    destruct (negb (registered s t)); cbn [bind] in H; [discriminate|].
    assert (Hstep : exists s1, run_steps (map (deposit_one h) r) s1 = Ok s' /\
                     (forall k, bal s1 k = bal s k + D kf h (one t a) k) /\ same_rest s1 s).
    { rewrite Hkf in H. destruct (Z.eqb_spec (kf t) 0) as [K0|K0].
      - cbn [bind] in H. eexists. split; [exact H|]. split; [|apply same_rest_set_bal].
        intros k. cbn [bal set_bal]. apply dep_delta_kind0. exact K0.
      - destruct (Z.eqb_spec (kf t) 1) as [K1|K1].
        + destruct (bal s (ModX, Bridge, t) <? a); cbn [bind] in H; [discriminate|].
          eexists. split; [exact H|]. split; [|apply same_rest_set_bal].
          intros k. cbn [bal set_bal]. apply dep_delta_kind1. exact K1.
        + destruct (bal s (ModX, Base, t) <? a); cbn [bind] in H; [discriminate|].
          eexists. split; [exact H|]. split; [|apply same_rest_set_bal].
          intros k. cbn [bal set_bal]. apply dep_delta_kindfx; assumption. }
    destruct Hstep as (s1 & Hrun & Hb1 & Hr1).
    assert (Hkf1 : forall x, tkind s1 x = kf x).
    { intros x. destruct Hr1 as (_&_&_&_&_&_&_&T). rewrite T. apply Hkf. }
    destruct (IH s1 s' Hkf1 Hrun) as [Hbal Hrest]. split.
    + intros k. rewrite Hbal, Hb1.
      rewrite (D_ext kf h (total ((t, a) :: r)) (fun x => one t a x + total r x) k) by (intros; apply total_cons).
      rewrite D_add. lia.
    + eapply same_rest_trans; eauto.
Qed.

(* ------------------------------------------------------------------------------------------ *)
(** * withdrawals *)

Lemma withdraw_step kf h t a s :
  (forall x, tkind s x = kf x) -> a <= bal s (h, Base, t) ->
  exists s1, withdraw_one h (t, a) s = Ok s1 /\ (forall k, bal s1 k = bal s k - D kf h (one t a) k) /\ same_rest s1 s.
Proof.
  intros Hkf Ha. unfold withdraw_one. destruct (Z.ltb_spec (bal s (h, Base, t)) a); [lia|]. rewrite Hkf.
  destruct (Z.eqb_spec (kf t) 0) as [K0|K0]; [|destruct (Z.eqb_spec (kf t) 1) as [K1|K1]];
    eexists; (split; [reflexivity|]); (split; [|apply same_rest_set_bal]); intros k; cbn [bal set_bal].
  - apply wd_delta_kind0. exact K0.
  - apply wd_delta_kind1. exact K1.
  - apply wd_delta_kindfx; assumption.
Qed.

Lemma withdraw_effect kf h coins : forall s s',
  (forall t, tkind s t = kf t) ->
  run_steps (map (withdraw_one h) coins) s = Ok s' ->
  (forall k, bal s' k = bal s k - D kf h (total coins) k) /\ same_rest s' s.
Proof.
  induction coins as [|[t a] r IH]; intros s s' Hkf H.
  - cbn in H. inversion H; subst. split; [|apply same_rest_refl]. intros k. rewrite D_zero. lia.
  - cbn [map run_steps] in H.
    destruct (Z.ltb_spec (bal s (h, Base, t)) a) as [Hlt|Hge].
    { unfold withdraw_one in H. destruct (Z.ltb_spec (bal s (h, Base, t)) a); [|lia]. cbn [bind] in H. discriminate. }
    destruct (withdraw_step kf h t a s Hkf Hge) as (s1 & E1 & Hb1 & Hr1). rewrite E1 in H. cbn [bind] in H.
    assert (Hkf1 : forall x, tkind s1 x = kf x).
    { intros x. destruct Hr1 as (_&_&_&_&_&_&_&T). rewrite T. apply Hkf. }
    destruct (IH s1 s' Hkf1 H) as [Hbal Hrest]. split.
    + intros k. rewrite Hbal, Hb1.
      rewrite (D_ext kf h (total ((t, a) :: r)) (fun x => one t a x + total r x) k) by (intros; apply total_cons).
      rewrite D_add. lia.
    + eapply same_rest_trans; eauto.
Qed.

(* keys strictly increasing (what sdk.Coins guarantees) *)
Fixpoint ssorted (cs : list (Z * Z)) : Prop :=
  match cs with
  | [] => True
  | (t, _) :: r => (forall t' a', In (t', a') r -> t < t') /\ ssorted r
  end.

Lemma D_other_token kf h t a t' : 0 <= h -> t <> t' -> D kf h (one t a) (h, Base, t') = 0.
Proof.
  intros Hh Hne. unfold D, Mv, Dm, one. destruct (Z.eqb_spec t t'); [congruence|]. rewrite Z.eqb_refl. cbn. lia.
Qed.

Lemma withdraw_succeeds kf h coins : forall s,
  (forall t, tkind s t = kf t) ->
  0 <= h -> ssorted coins ->
  (forall t a, In (t, a) coins -> a <= bal s (h, Base, t)) ->
  exists s', run_steps (map (withdraw_one h) coins) s = Ok s'.
Proof.
  induction coins as [|[t a] r IH]; intros s Hkf Hh Hs Hb.
  - eexists. reflexivity.
  - cbn [map run_steps].
    assert (Ha : a <= bal s (h, Base, t)) by (apply Hb; left; reflexivity).
    destruct (withdraw_step kf h t a s Hkf Ha) as (s1 & E1 & Hb1 & Hr1). rewrite E1. cbn [bind].
    destruct Hs as [Hlt Hs].
    apply IH; [|exact Hh|exact Hs|].
    + intros x. destruct Hr1 as (_&_&_&_&_&_&_&T). rewrite T. apply Hkf.
    + intros t' a' Hin. rewrite Hb1.
      assert (t < t') by (eapply Hlt; eauto).
      rewrite D_other_token by lia. specialize (Hb t' a' (or_intror Hin)). lia.
Qed.

(* ------------------------------------------------------------------------------------------ *)
(** * sdk.Coins.Add as modelled by base_coins *)

Lemma total_coins_add cs t a x : total (coins_add cs t a) x = total cs x + one t a x.
Proof.
  induction cs as [|[t' a'] r IH]; cbn [coins_add].
  - cbn. unfold one. lia.
  - destruct (Z.eqb_spec t t'); [subst|].
    + cbn [total]. unfold one. destruct (t' =? x); lia.
    + destruct (t <? t').
      * cbn [total]. unfold one. destruct (t =? x), (t' =? x); lia.
      * cbn [total]. rewrite IH. lia.
Qed.

Lemma total_drop_zero cs x : total (drop_zero cs) x = total cs x.
Proof.
  induction cs as [|[t a] r IH]; [reflexivity|]. unfold drop_zero in *. cbn [filter snd].
  destruct (Z.eqb_spec a 0); cbn [negb].
  - subst. cbn [total]. rewrite IH. destruct (t =? x); lia.
  - cbn [total]. rewrite IH. reflexivity.
Qed.

Lemma total_fold tokens : forall acc x,
  total (fold_left (fun cs ta => drop_zero (coins_add cs (fst ta) (snd ta))) tokens acc) x
  = total acc x + total tokens x.
Proof.
  induction tokens as [|[t a] r IH]; intros acc x; cbn [fold_left]; [cbn; lia|].
  rewrite IH, total_drop_zero, total_coins_add. cbn [fst snd total]. unfold one. lia.
Qed.

Lemma total_base_coins tokens x : total (base_coins tokens) x = total tokens x.
Proof. unfold base_coins. rewrite total_fold. reflexivity. Qed.

Lemma in_coins_add cs t a t' a' :
  In (t', a') (coins_add cs t a) -> t' = t \/ In t' (map fst cs).
Proof.
  induction cs as [|[t0 a0] r IH]; cbn [coins_add].
  - intros [H|[]]. inversion H. auto.
  - destruct (Z.eqb_spec t t0); [subst|].
    + intros [H|H]; [inversion H; subst; right; left; reflexivity|right; right; apply in_map_iff; exists (t', a'); auto].
    + destruct (t <? t0).
      * intros [H|[H|H]]; [inversion H; auto| inversion H; subst; right; left; reflexivity|
                           right; right; apply in_map_iff; exists (t', a'); auto].
      * intros [H|H]; [inversion H; subst; right; left; reflexivity|].
        destruct (IH H); [auto|right; right; assumption].
Qed.

Lemma ssorted_in_lt t cs : (forall t' a', In (t', a') cs -> t < t') <-> (forall t', In t' (map (@fst Z Z) cs) -> t < t').
Proof.
  split; intros H.
  - intros t' Hin. apply in_map_iff in Hin. destruct Hin as [[t0 a0] [E Hin]]. cbn in E. subst. eauto.
  - intros t' a' Hin. apply H. apply in_map_iff. exists (t', a'). auto.
Qed.

Lemma ssorted_coins_add cs t a : ssorted cs -> ssorted (coins_add cs t a).
Proof.
  induction cs as [|[t0 a0] r IH]; intros Hs; cbn [coins_add].
  - cbn. split; [intros ? ? []|exact I].
  - destruct Hs as [Hlt Hs].
    destruct (Z.eqb_spec t t0); [subst; cbn; split; assumption|].
    destruct (Z.ltb_spec t t0).
    + cbn [ssorted]. split; [|split; assumption].
      intros t' a' [E|Hin]; [inversion E; subst; assumption|]. specialize (Hlt _ _ Hin). lia.
    + cbn [ssorted]. split; [|apply IH; exact Hs].
      intros t' a' Hin. destruct (in_coins_add _ _ _ _ _ Hin) as [->|Hin']; [lia|].
      apply (proj1 (ssorted_in_lt t0 r) Hlt). exact Hin'.
Qed.

Lemma ssorted_filter f cs : ssorted cs -> ssorted (filter f cs).
Proof.
  induction cs as [|[t a] r IH]; intros Hs; [exact I|]. destruct Hs as [Hlt Hs]. cbn [filter].
  destruct (f (t, a)); [|apply IH; exact Hs].
  cbn [ssorted]. split; [|apply IH; exact Hs].
  intros t' a' Hin. apply filter_In in Hin. destruct Hin. eauto.
Qed.

Lemma ssorted_base_coins tokens : ssorted (base_coins tokens).
Proof.
  unfold base_coins.
  assert (forall acc, ssorted acc ->
          ssorted (fold_left (fun cs ta => drop_zero (coins_add cs (fst ta) (snd ta))) tokens acc)) as H.
  { induction tokens as [|[t a] r IH]; intros acc Hacc; cbn [fold_left]; [exact Hacc|].
    apply IH. apply ssorted_filter. apply ssorted_coins_add. exact Hacc. }
  apply H. exact I.
Qed.

(* in a strictly sorted coin list the amount listed for t is the total of t *)
Lemma ssorted_in_total cs : ssorted cs -> forall t a, In (t, a) cs -> total cs t = a.
Proof.
  induction cs as [|[t0 a0] r IH]; intros Hs t a Hin; [destruct Hin|].
  destruct Hs as [Hlt Hs]. cbn [total]. destruct Hin as [E|Hin].
  - inversion E; subst. rewrite Z.eqb_refl.
    assert (total r t = 0) as ->; [|lia].
    clear -Hlt. induction r as [|[t1 a1] r IH]; [reflexivity|]. cbn [total].
    assert (t < t1) by (eapply Hlt; left; reflexivity).
    destruct (Z.eqb_spec t1 t); [lia|]. rewrite IH; [lia|]. intros. eapply Hlt. right. eauto.
  - specialize (Hlt _ _ Hin). destruct (Z.eqb_spec t0 t); [lia|]. rewrite (IH Hs _ _ Hin). lia.
Qed.

(* ------------------------------------------------------------------------------------------ *)
(** * hand-over of the deposit (bank SendCoins receiver -> refund address) *)

Lemma Mv_add h f g k : Mv h (fun x => f x + g x) k = Mv h f k + Mv h g k.
Proof. destruct k as [[hh kind] x]. unfold Mv. destruct ((hh =? h) && (kind =? Base)); lia. Qed.
Lemma Mv_ext h f g k : (forall x, f x = g x) -> Mv h f k = Mv h g k.
Proof. intros H. destruct k as [[hh kind] x]. unfold Mv. rewrite H. reflexivity. Qed.

Lemma ladd2_Mv l a b t x k :
  ladd (ladd l (a, Base, t) (- x)) (b, Base, t) x k = l k - Mv a (one t x) k + Mv b (one t x) k.
Proof.
  destruct k as [[hh kind] y]. unfold ladd, Mv, one, key_eqb.
  repeat match goal with |- context [?a =? ?b] => destruct (Z.eqb_spec a b); subst end;
    cbn [andb]; try lia; try congruence.
Qed.

Lemma move_effect a b coins : forall s s',
  run_steps (map (move_one a b) coins) s = Ok s' ->
  (forall k, bal s' k = bal s k - Mv a (total coins) k + Mv b (total coins) k) /\ same_rest s' s.
Proof.
  induction coins as [|[t x] r IH]; intros s s' H.
  - cbn in H. inversion H; subst. split; [|apply same_rest_refl].
    intros [[hh kind] y]. unfold Mv. cbn. repeat match goal with |- context [if ?c then _ else _] => destruct c end; lia.
  - cbn [map run_steps move_one] in H.
    destruct (bal s (a, Base, t) <? x) eqn:E; cbn [bind] in H; [discriminate|].
    set (s1 := set_bal s _) in H.
    destruct (IH s1 s' H) as [Hbal Hrest]. split.
    + intros k. rewrite Hbal. subst s1. cbn [bal set_bal]. rewrite ladd2_Mv.
      rewrite (Mv_ext a (total ((t, x) :: r)) (fun y => one t x y + total r y) k) by (intros; apply total_cons).
      rewrite (Mv_ext b (total ((t, x) :: r)) (fun y => one t x y + total r y) k) by (intros; apply total_cons).
      rewrite !Mv_add. lia.
    + eapply same_rest_trans; [exact Hrest|]. subst s1. apply same_rest_set_bal.
Qed.

Lemma move_succeeds a b coins : forall s,
  a <> b -> ssorted coins ->
  (forall t x, In (t, x) coins -> x <= bal s (a, Base, t)) ->
  exists s', run_steps (map (move_one a b) coins) s = Ok s'.
Proof.
  induction coins as [|[t x] r IH]; intros s Hab Hs Hb.
  - eexists. reflexivity.
  - cbn [map run_steps move_one].
    assert (Hx : x <= bal s (a, Base, t)) by (apply Hb; left; reflexivity).
    destruct (Z.ltb_spec (bal s (a, Base, t)) x); [lia|]. cbn [bind].
    destruct Hs as [Hlt Hs]. apply IH; [exact Hab|exact Hs|].
    intros t' x' Hin. cbn [bal set_bal]. rewrite ladd2_Mv.
    assert (t < t') by (eapply Hlt; eauto).
    assert (Mv a (one t x) (a, Base, t') = 0 /\ Mv b (one t x) (a, Base, t') = 0) as [-> ->].
    { unfold Mv, one. destruct (Z.eqb_spec t t'); [lia|]. split; repeat match goal with |- context [if ?c then _ else _] => destruct c end; reflexivity. }
    specialize (Hb t' x' (or_intror Hin)). lia.
Qed.

(* ------------------------------------------------------------------------------------------ *)
(** * boundary 2: BridgeCallHandler *)

Section BC.
  Variable call : bst -> result bst.

  (* T1: whatever the failed inner step wrote (conversions of the first tokens, contract storage, …) is gone:
     the outcome is hand-over + refund run on the state right after the deposits *)
  Lemma bch_inner_discarded m s s1 c :
    run_steps (map (deposit_one (receiver m)) (m_tokens m)) s = Ok s1 ->
    bridge_call_evm call m (base_coins (m_tokens m)) s1 = Err c ->
    bridge_call_handler call m s =
    bind (hand_over m (base_coins (m_tokens m)) s1) (failed_refund m (base_coins (m_tokens m))).
  Proof.
    intros H1 H2. unfold bridge_call_handler, branch, discard. rewrite H1, H2. reflexivity.
  Qed.

  (* the inner step fails at any position of the conversions or in the call *)
  Lemma bce_fail_conversion m cs1 cs2 ta c0 c1 c' :
    run_steps (map (to_evm_one (receiver m)) cs1) c0 = Ok c1 ->
    to_evm_one (receiver m) ta c1 = Err c' ->
    bridge_call_evm call m (cs1 ++ ta :: cs2) c0 = Err c'.
  Proof.
    intros H1 H2. unfold bridge_call_evm. rewrite map_app. cbn [map].
    rewrite (run_steps_fail_at _ _ _ _ _ _ H1 H2). reflexivity.
  Qed.

  Lemma bce_fail_call m coins c0 c1 c' :
    run_steps (map (to_evm_one (receiver m)) coins) c0 = Ok c1 ->
    m_to_is_contract m = true -> call c1 = Err c' ->
    bridge_call_evm call m coins c0 = Err c'.
  Proof. intros H1 H2 H3. unfold bridge_call_evm. rewrite H1. cbn. rewrite H2. exact H3. Qed.

  Lemma bch_failed_inner_err_reverts m s e :
    execute_claim call m s = Err e -> execute_claim_tx call m s = (s, false).
  Proof. intros H. unfold execute_claim_tx. eapply tx_err; eauto. Qed.

  (* hand-over then refund from a state whose receiver holds the deposits: succeeds and nets to zero, for every token kind *)
  Lemma hand_over_refund kf m s0 s1 :
    (forall t, tkind s0 t = kf t) ->
    0 <= receiver m -> 0 <= m_refund m ->
    (forall k, bal s1 k = bal s0 k + D kf (receiver m) (total (m_tokens m)) k) -> same_rest s1 s0 ->
    (forall t, 0 <= bal s0 (receiver m, Base, t)) -> (forall t, 0 <= bal s0 (m_refund m, Base, t)) ->
    timeout_ok s0 = true ->
    exists s3, bind (hand_over m (base_coins (m_tokens m)) s1) (failed_refund m (base_coins (m_tokens m))) =
               Ok (add_outcall s3 {| oc_id := next_id s3; oc_sender := m_refund m; oc_refund := m_refund m;
                                     oc_tokens := base_coins (m_tokens m); oc_event := m_nonce m |}) /\
               (forall k, bal s3 k = bal s0 k) /\ same_rest s3 s0.
  Proof.
    intros Hkf Hr Hf Hbal1 Hrest1 Hnr Hnf Hto.
    set (coins := base_coins (m_tokens m)) in *.
    assert (Hsorted : ssorted coins) by apply ssorted_base_coins.
    assert (Htot : forall t a, In (t, a) coins -> a = total (m_tokens m) t).
    { intros t a Hin. rewrite <- (ssorted_in_total _ Hsorted t a Hin). apply total_base_coins. }
    assert (HDself : forall h t, 0 <= h -> D kf h (total (m_tokens m)) (h, Base, t) = total (m_tokens m) t).
    { intros h t Hh. unfold D, Mv, Dm, Cm, ModX, Supply, Base, Bridge. keycases. }
    (* phase 1: hand-over *)
    assert (H2 : exists s2, hand_over m coins s1 = Ok s2 /\
                 (forall k, bal s2 k = bal s0 k + D kf (m_refund m) (total (m_tokens m)) k) /\ same_rest s2 s0).
    { unfold hand_over. destruct (Z.eqb_spec (receiver m) (m_refund m)) as [Heq|Hne]; cbn [orb].
      - exists s1. split; [reflexivity|]. split; [|exact Hrest1]. intros k. rewrite Hbal1, Heq. reflexivity.
      - destruct (match coins with [] => true | _ => false end) eqn:Eemp.
        + assert (Ec : coins = []) by (destruct coins; [reflexivity|discriminate]).
          exists s1. split; [reflexivity|]. split; [|exact Hrest1]. intros k. rewrite Hbal1.
          assert (Hz : forall t, total (m_tokens m) t = 0).
          { intros t. rewrite <- total_base_coins. fold coins. rewrite Ec. reflexivity. }
          rewrite (D_ext kf _ _ (fun _ => 0) k Hz), (D_ext kf (m_refund m) _ (fun _ => 0) k Hz), !D_zero. reflexivity.
        + destruct (move_succeeds (receiver m) (m_refund m) coins s1 Hne Hsorted) as (s2 & Hmv).
          { intros t a Hin. rewrite Hbal1, (Htot t a Hin), HDself by exact Hr. specialize (Hnr t). lia. }
          rewrite Hmv.
          destruct (move_effect _ _ _ _ _ Hmv) as [Hb2 Hr2].
          exists s2. split; [reflexivity|]. split; [|eapply same_rest_trans; eauto].
          intros k. rewrite Hb2, Hbal1.
          rewrite (Mv_ext (receiver m) (total coins) (total (m_tokens m)) k) by (intros; apply total_base_coins).
          rewrite (Mv_ext (m_refund m) (total coins) (total (m_tokens m)) k) by (intros; apply total_base_coins).
          rewrite !D_split. lia. }
    destruct H2 as (s2 & Hho & Hbal2 & Hrest2). rewrite Hho. cbn [bind].
    assert (Hkf2 : forall t, tkind s2 t = kf t).
    { intros t. destruct Hrest2 as (_&_&_&_&_&_&_&T). rewrite T. apply Hkf. }
    (* phase 2: the refund withdraws from the refund address *)
    destruct (withdraw_succeeds kf (m_refund m) coins s2 Hkf2 Hf Hsorted) as (s3 & Hw).
    { intros t a Hin. rewrite Hbal2, (Htot t a Hin), HDself by exact Hf. specialize (Hnf t). lia. }
    destruct (withdraw_effect kf _ _ _ _ Hkf2 Hw) as [Hbal3 Hrest3].
    assert (Hrest30 : same_rest s3 s0) by (eapply same_rest_trans; eauto).
    exists s3. unfold failed_refund. rewrite Hw. cbn [bind].
    destruct Hrest30 as (P&O&N&E&R&En&T&K). rewrite T, Hto. split; [reflexivity|]. split.
    - intros k. rewrite Hbal3, Hbal2.
      rewrite (D_ext kf (m_refund m) (total coins) (total (m_tokens m)) k) by (intros; apply total_base_coins). lia.
    - repeat split; assumption.
  Qed.

  (* T2 (the property, unguarded, every token kind): a failed inner step ends in exactly the designated outcome —
     claim consumed, one refund record for the deposited amounts, every balance as before, nothing the failed step wrote *)
  Lemma bch_designated m s c s1 :
    0 <= receiver m -> 0 <= m_refund m ->
    (forall t, 0 <= bal s (receiver m, Base, t)) -> (forall t, 0 <= bal s (m_refund m, Base, t)) ->
    timeout_ok s = true -> pendingc s (m_nonce m) = true ->
    (* the deposits went through (tokens known; for module-held kinds the module could pay) … *)
    run_steps (map (deposit_one (receiver m)) (m_tokens m)) (del_pending s (m_nonce m)) = Ok s1 ->
    (* … and the inner step failed, wherever *)
    bridge_call_evm call m (base_coins (m_tokens m)) s1 = Err c ->
    exists s', execute_claim_tx call m s = (s', true) /\ bst_eq s' (bc_designated m s).
  Proof.
    intros Hr Hf Hnr Hnf Hto Hpend Hdep Hfail.
    set (s0 := del_pending s (m_nonce m)) in *.
    destruct (deposit_effect (tkind s0) (receiver m) (m_tokens m) s0 s1 (fun _ => eq_refl) Hdep) as (Hbal1 & Hrest1).
    destruct (hand_over_refund (tkind s0) m s0 s1 (fun _ => eq_refl) Hr Hf Hbal1 Hrest1) as (s3 & Hres & Hbal3 & Hrest3); try assumption.
    eexists. split.
    - unfold execute_claim_tx, tx, execute_claim, branch, commit. rewrite Hpend. fold s0.
      rewrite (bch_inner_discarded m s0 s1 c Hdep Hfail), Hres. reflexivity.
    - destruct Hrest3 as (P&O&N&E&R&En&T&K).
      unfold bc_designated. fold s0. unfold bst_eq.
      cbn [bal outcalls next_id evmst pendingc add_outcall registered enabled timeout_ok tkind].
      repeat split; try assumption; try congruence.
  Qed.
End BC.

(* ------------------------------------------------------------------------------------------ *)
(** * the handler BEFORE the fix (snapshot 6774338): the same statement was false — kept as a labelled regression *)

Definition execute_claim_tx_prefix (call : bst -> result bst) (m : bcmsg) (s : bst) : bst * bool :=
  tx (fun x => if pendingc x (m_nonce m) then bridge_call_handler_prefix call m (del_pending x (m_nonce m)) else Err x) s.

Definition wit_bal : ledger := fun k => if key_eqb k (2, Base, 0) then 10 else 0.
Definition wit_state : bst :=
  {| bal := wit_bal; registered := fun _ => true; enabled := fun _ => true;
     pendingc := fun n => n =? 7; outcalls := []; next_id := 1; timeout_ok := true; evmst := 0; tkind := fun t => if t =? 5 then 1 else if t =? -1 then 2 else 0 |}.
(* receiver (to) = contract 1 that reverts after writing its storage; refund address 2 owns 10 of the token *)
Definition wit_msg : bcmsg :=
  {| m_nonce := 7; m_sender := 3; m_refund := 2; m_to := 1; m_to_is_contract := true; m_sendcallto := false;
     m_tokens := [(0, 10)] |}.
Definition wit_call : bst -> result bst := fun c => Err (set_evmst c 99).
Definition wit_state_poor : bst :=
  {| bal := fun _ => 0; registered := fun _ => true; enabled := fun _ => true;
     pendingc := fun n => n =? 7; outcalls := []; next_id := 1; timeout_ok := true; evmst := 0; tkind := fun t => if t =? 5 then 1 else if t =? -1 then 2 else 0 |}.

Lemma prefix_refuted_witness :
  (let (post, ok) := execute_claim_tx_prefix wit_call wit_msg wit_state in
   ok = true /\ bal post (1, Base, 0) = 10 /\ bal post (2, Base, 0) = 0 /\ length (outcalls post) = 1%nat) /\
  (let (post, ok) := execute_claim_tx_prefix wit_call wit_msg wit_state_poor in
   ok = false /\ pendingc post 7 = true /\ outcalls post = []) /\
  (* the same inputs on the handler as it is now *)
  (let (post, ok) := execute_claim_tx wit_call wit_msg wit_state in
   ok = true /\ bal post (1, Base, 0) = 0 /\ bal post (2, Base, 0) = 10 /\ length (outcalls post) = 1%nat /\ evmst post = 0) /\
  (let (post, ok) := execute_claim_tx wit_call wit_msg wit_state_poor in
   ok = true /\ bal post (1, Base, 0) = 0 /\ bal post (2, Base, 0) = 0 /\ length (outcalls post) = 1%nat /\ pendingc post 7 = false).
Proof. vm_compute. repeat split. Qed.

Lemma prefix_refuted :
  exists call m s post, execute_claim_tx_prefix call m s = (post, true) /\ ~ bst_eq post (bc_designated m s).
Proof.
  exists wit_call, wit_msg, wit_state.
  destruct (execute_claim_tx_prefix wit_call wit_msg wit_state) as [post ok] eqn:E.
  exists post. pose proof prefix_refuted_witness as [W _]. rewrite E in W.
  destruct W as (Hok & H1 & _). subst ok. split; [reflexivity|].
  intros (Hb & _). specialize (Hb (1, Base, 0)). rewrite H1 in Hb. vm_compute in Hb. discriminate.
Qed.

(* ------------------------------------------------------------------------------------------ *)
(** * non-vacuity *)

Definition nv_msg : bcmsg :=
  {| m_nonce := 7; m_sender := 3; m_refund := 1; m_to := 1; m_to_is_contract := true; m_sendcallto := false;
     m_tokens := [(1, 5); (0, 10); (1, 2)] |}.
Definition nv_msg2 : bcmsg :=
  {| m_nonce := 7; m_sender := 3; m_refund := 2; m_to := 1; m_to_is_contract := true; m_sendcallto := false;
     m_tokens := [(1, 5); (0, 10); (1, 2)] |}.
Lemma c18_nonvacuous :
  (* several tokens, a duplicate, a contract that wrote before reverting — refund address = receiver and <> receiver *)
  (let (post, ok) := execute_claim_tx wit_call nv_msg wit_state_poor in
   ok = true /\ bal post (1, Base, 0) = 0 /\ bal post (1, Base, 1) = 0 /\ evmst post = 0 /\
   map oc_tokens (outcalls post) = [[(0, 10); (1, 7)]] /\ pendingc post 7 = false) /\
  (let (post, ok) := execute_claim_tx wit_call nv_msg2 wit_state_poor in
   ok = true /\ bal post (1, Base, 0) = 0 /\ bal post (2, Base, 1) = 0 /\ evmst post = 0 /\
   map oc_refund (outcalls post) = [2] /\ pendingc post 7 = false) /\
  (* every token kind in one claim: FX (-1, module-held), a module-owned pair (0), an externally owned pair (5, module-held
     bridge tokens); the callee writes and reverts; refund address <> receiver *)
  (let s := {| bal := fun k => if key_eqb k (ModX, Base, -1) then 100 else if key_eqb k (ModX, Bridge, 5) then 100 else 0;
               registered := fun _ => true; enabled := fun _ => true;
               pendingc := fun n => n =? 7; outcalls := []; next_id := 1; timeout_ok := true; evmst := 0;
               tkind := fun t => if t =? 5 then 1 else if t =? -1 then 2 else 0 |} in
   let m := {| m_nonce := 7; m_sender := 3; m_refund := 2; m_to := 1; m_to_is_contract := true; m_sendcallto := false;
               m_tokens := [(5, 6); (-1, 4); (0, 10); (5, 1)] |} in
   let (post, ok) := execute_claim_tx wit_call m s in
   ok = true /\ bal post (ModX, Base, -1) = 100 /\ bal post (ModX, Bridge, 5) = 100 /\ bal post (1, Base, -1) = 0 /\
   bal post (2, Base, 5) = 0 /\ bal post (Supply, Base, 5) = 0 /\ evmst post = 0 /\
   map oc_tokens (outcalls post) = [[(-1, 4); (0, 10); (5, 7)]]) /\
  (* a disabled pair at the second coin fails inside the cache after the first conversion was written *)
  (let s := {| bal := fun _ => 0; registered := fun _ => true; enabled := fun t => t =? 0;
               pendingc := fun n => n =? 7; outcalls := []; next_id := 1; timeout_ok := true; evmst := 0; tkind := fun t => if t =? 5 then 1 else if t =? -1 then 2 else 0 |} in
   let (post, ok) := execute_claim_tx (fun c => Ok c) nv_msg2 s in
   ok = true /\ bal post (1, Erc, 0) = 0 /\ bal post (1, Base, 0) = 0 /\ length (outcalls post) = 1%nat) /\
  (* generic boundaries on a counter: handler / message / hook that write 1 then fail *)
  try_attestation Z (fun x => Err (x + 1)) (fun x => x + 10) (fun x => x) 0 = (10, false) /\
  gov_execute Z [(fun x => Ok (x + 1)); (fun x => Err (x + 1)); (fun x => Ok (x + 1))] (fun x => x + 10) (fun b x => if b then x + 100 else x + 200) 0 = (210, false) /\
  core_recv Z true (fun x => Ok (x + 1)) (fun x => Err (x + 1)) (fun x => x + 10) (fun b x => if b then x + 100 else x + 200) 0 = (210, false).
Proof. vm_compute. repeat split. Qed.

(* ------------------------------------------------------------------------------------------ *)
(** * outgoing bridge calls coming back *)

Lemma result_success S refund del consume id s :
  result_tx S refund del consume id true true s = (del id (consume s), true).
Proof. reflexivity. Qed.

Lemma result_failure_refunds S (refund : Z -> S -> option S) del consume id s s1 :
  refund id (consume s) = Some s1 -> result_tx S refund del consume id true false s = (del id s1, true).
Proof. intros H. unfold result_tx, result_handler. cbn. rewrite H. reflexivity. Qed.

(* a refund that cannot be paid, or an unknown nonce: the handler panics, the transaction keeps nothing, the claim stays pending *)
Lemma result_panic_keeps_nothing S (refund : Z -> S -> option S) del consume id found s :
  found = false \/ refund id (consume s) = None ->
  result_tx S refund del consume id found false s = (s, false).
Proof.
  intros [->|H]; unfold result_tx, result_handler; cbn; [reflexivity|]. destruct found; cbn; [rewrite H|]; reflexivity.
Qed.

Lemma result_outcomes S (refund : Z -> S -> option S) del consume id s :
  result_tx S refund del consume id true true s = (del id (consume s), true) /\
  (forall s1, refund id (consume s) = Some s1 -> result_tx S refund del consume id true false s = (del id s1, true)) /\
  (forall found, found = false \/ refund id (consume s) = None -> result_tx S refund del consume id found false s = (s, false)).
Proof.
  split; [apply result_success|]. split; [intros; apply result_failure_refunds; assumption|intros; apply result_panic_keeps_nothing; assumption].
Qed.

Lemma cleanup_calls_panics S (refund : Z -> S -> option S) del ids1 i ids2 : forall s s1,
  cleanup_calls S refund del ids1 s = Some s1 -> refund i s1 = None ->
  cleanup_calls S refund del (ids1 ++ i :: ids2) s = None.
Proof.
  induction ids1 as [|j r IH]; intros s s1 H Hp; cbn in *.
  - inversion H; subst. rewrite Hp. reflexivity.
  - destruct (refund j s); [|discriminate]. eapply IH; eauto.
Qed.

(* with a clean-up that cannot panic the vote transaction is claim_tx *)
Lemma claim_tx_p_no_timeouts S refund del mark hp record finish pre :
  claim_tx_p S refund del mark hp record finish (fun _ => []) pre =
  claim_tx S mark (fun s => s) hp record finish pre.
Proof.
  unfold claim_tx_p, claim_tx. destruct (hp (mark (record pre))) as [[x|x]|]; reflexivity.
Qed.

(* FINDING C18-2, the statement: one timed-out call whose refund cannot be paid (at ANY position among the timed-out
   calls) fails the vote transaction — whatever the handler did, tolerated failure included: the event is NOT marked
   observed, nothing of the transaction stays *)
Lemma claim_tx_p_unpayable_refund S (refund : Z -> S -> option S) del mark hp record finish timed_out pre r ids1 i ids2 s1 :
  hp (mark (record pre)) = Some r ->
  (let s2 := match r with Ok x => commit (mark (record pre)) x | Err x => discard (mark (record pre)) x end in
   timed_out s2 = ids1 ++ i :: ids2 /\ cleanup_calls S refund del ids1 s2 = Some s1 /\ refund i s1 = None) ->
  claim_tx_p S refund del mark hp record finish timed_out pre = (pre, 2).
Proof.
  intros Hh H. unfold claim_tx_p. rewrite Hh. destruct r as [x|x]; cbn in H |- *; destruct H as (Ht & Hc & Hp);
    rewrite Ht, (cleanup_calls_panics S refund del ids1 i ids2 _ _ Hc Hp); reflexivity.
Qed.

(* … so "a failed handler leaves the event marked observed" is FALSE of the vote transaction as it is: witness on a counter
   state (handler fails after a write; one timed-out call, unpayable) *)
Lemma claim_tx_p_refuted :
  exists (refund : Z -> Z -> option Z) del mark hp record finish timed_out pre,
    (exists x, hp (mark (record pre)) = Some (Err x)) /\
    claim_tx_p Z refund del mark hp record finish timed_out pre <> (finish (mark (record pre)), 1) /\
    claim_tx_p Z refund del mark hp record finish timed_out pre = (pre, 2).
Proof.
  exists (fun _ _ => None), (fun _ s => s), (fun s => s + 10), (fun s => Some (Err (s + 1))), (fun s => s + 100),
         (fun s => s + 1000), (fun _ => [7]), 0.
  split; [eexists; reflexivity|]. split; [vm_compute; discriminate|reflexivity].
Qed.

(* guarded: if every timed-out call can be refunded the failed handler's outcome is the designated one plus the clean-up *)
Lemma claim_tx_p_payable S (refund : Z -> S -> option S) del mark hp record finish timed_out pre x s3 :
  hp (mark (record pre)) = Some (Err x) ->
  cleanup_calls S refund del (timed_out (mark (record pre))) (mark (record pre)) = Some s3 ->
  claim_tx_p S refund del mark hp record finish timed_out pre = (finish s3, 1).
Proof. intros Hh Hc. unfold claim_tx_p, discard. rewrite Hh, Hc. reflexivity. Qed.

(* ------------------------------------------------------------------------------------------ *)
(** * histories: whatever mix of failing and succeeding crossings, no partial effect ever accumulates *)

Lemma cross_designated {S} (x : crossing S) s : cross x s = designated x s.
Proof.
  destruct x as [h m c|ms p st|po tr hk tao wa|f]; cbn.
  - unfold try_attestation, process_attestation, att_designated, branch, commit, discard. destruct (h (m s)); reflexivity.
  - unfold gov_execute, gov_designated, branch, commit, discard. destruct (run_steps ms (p s)); reflexivity.
  - unfold core_recv, mw_on_recv, recv_designated, branch, commit, discard. destruct po; cbn; [|reflexivity].
    destruct (tr (tao s)) as [c1|c1]; cbn; [|reflexivity]. destruct (hk c1); reflexivity.
  - unfold tx, branch, commit, discard. destruct (f s); reflexivity.
Qed.

Lemma history_designated {S} (xs : list (crossing S)) : forall s,
  fold_left (fun st x => cross x st) xs s = fold_left (fun st x => designated x st) xs s.
Proof.
  induction xs as [|x r IH]; intros s; [reflexivity|]. cbn [fold_left]. rewrite cross_designated. apply IH.
Qed.

(* ------------------------------------------------------------------------------------------ *)
(** * the sources still have the shape the models were transcribed from (gen/Gen_C18.v is regenerated on every run) *)
Lemma source_shapes : source_shapes_ok = true.
Proof. vm_compute. reflexivity. Qed.
