(* C18 — proofs about model/M_CacheWrites.v: the write-level account of the tolerated-failure boundaries *)
From Coq Require Import ZArith List Bool Lia.
From FxV Require Import model.M_CacheWrites.
Import ListNotations.
Open Scope Z_scope.

(* the entries a list of writes adds, newest first *)
Fixpoint delta_ws (fs : list wfun) (v : wlog) : wlog :=
  match fs with [] => [] | f :: r => delta_ws r (f v :: v) ++ [f v] end.

Lemma run_ws_delta fs : forall v, run_ws fs v = delta_ws fs v ++ v.
Proof.
  induction fs as [|f r IH]; intros v; [reflexivity|]. cbn [run_ws delta_ws]. rewrite IH, <- app_assoc. reflexivity.
Qed.

Lemma run_ws_app a b : forall v, run_ws (a ++ b) v = run_ws b (run_ws a v).
Proof. induction a as [|f r IH]; intros v; [reflexivity|]. cbn [app run_ws]. apply IH. Qed.

(* writes made through a context that has a buffer go into THAT buffer — the enclosing buffers and the store are not touched —,
   each one computed from what the context reads at that moment.  Induction over the write list. *)
Lemma writes_top fs : forall top rest r,
  writes fs (mk (top :: rest) r) = mk ((delta_ws fs (view (mk (top :: rest) r)) ++ top) :: rest) r.
Proof.
  induction fs as [|f fs IH]; intros top rest r; [reflexivity|].
  cbn [writes]. unfold write at 1. cbn [layers root]. rewrite IH. cbn [delta_ws].
  unfold view. cbn [layers root concat]. rewrite <- !app_assoc. reflexivity.
Qed.

Lemma view_writes fs top rest r :
  view (writes fs (mk (top :: rest) r)) = run_ws fs (view (mk (top :: rest) r)).
Proof.
  rewrite writes_top, run_ws_delta. unfold view. cbn [layers root concat]. rewrite <- !app_assoc. reflexivity.
Qed.

(* a branch that is dropped leaves the context it was taken from exactly as it was, whatever was written through it *)
Lemma discard_after_writes fs ls r : pop_discard (writes fs (push (mk ls r))) = mk ls r.
Proof. unfold push. cbn [layers root]. rewrite writes_top. reflexivity. Qed.

(* a branch that is written: the context it was taken from then reads exactly what it would read had the writes been made
   through it directly — each write having seen the earlier ones *)
Lemma commit_after_writes fs top rest r :
  view (pop_commit (writes fs (push (mk (top :: rest) r)))) = run_ws fs (view (mk (top :: rest) r)) /\
  exists top', pop_commit (writes fs (push (mk (top :: rest) r))) = mk (top' :: rest) r.
Proof.
  unfold push. cbn [layers root]. rewrite writes_top. unfold pop_commit. cbn [layers root]. split; [|eauto].
  rewrite run_ws_delta. unfold view. cbn [layers root concat]. rewrite app_nil_r, <- !app_assoc. reflexivity.
Qed.

(* the transaction's buffer written into the store *)
Lemma tx_commit fs top r : root (pop_commit (writes fs (mk [top] r))) = run_ws fs (view (mk [top] r)).
Proof.
  rewrite writes_top. unfold pop_commit. cbn [layers root]. rewrite run_ws_delta.
  unfold view. cbn [layers root concat]. rewrite app_nil_r, <- !app_assoc. reflexivity.
Qed.

Lemma run_post_spec x top r pre cls :
  run_post x (mk [top] r) pre cls =
  if post_ok x then (run_ws (x_post x) (view (mk [top] r)), cls) else (pre, 2).
Proof. unfold run_post, post_ok. destruct (x_post_fail x); try rewrite tx_commit; reflexivity. Qed.

Lemma writes_single fs top r : exists top', writes fs (mk [top] r) = mk [top'] r /\ view (mk [top'] r) = run_ws fs (view (mk [top] r)).
Proof.
  eexists. split; [apply writes_top|]. rewrite run_ws_delta. unfold view. cbn [layers root concat].
  rewrite !app_nil_r, <- !app_assoc. reflexivity.
Qed.

(* THE BOUNDARY THEOREM: for every crossing — any writes before the branch, any sub-step writes, any failure point —
   the store afterwards and the outcome class are the designated ones *)
Lemma crossing_designated x pre : run_crossing x pre = designated x pre.
Proof.
  unfold run_crossing, designated. cbv zeta. change (push (mk [] pre)) with (mk [[]] pre).
  destruct (writes_single (x_pre x) [] pre) as (t1 & E1 & V1). rewrite E1.
  assert (Vpre : view (mk [[]] pre) = pre) by reflexivity. rewrite Vpre in V1.
  destruct (x_branch x).
  - destruct (x_fail x) as [|n|n]; cbn [done_writes].
    + destruct (commit_after_writes (x_sub x) t1 [] pre) as (Vc & t2 & Ec). rewrite Ec in *. rewrite V1 in Vc.
      destruct (writes_single (x_success x) t2 pre) as (t3 & E3 & V3). rewrite E3, run_post_spec, V3, Vc.
      destruct (post_ok x); cbn [negb]; [|reflexivity]. rewrite !run_ws_app. reflexivity.
    + rewrite discard_after_writes.
      destruct (writes_single (x_residue x) t1 pre) as (t3 & E3 & V3). rewrite E3, run_post_spec, V3, V1.
      destruct (post_ok x); cbn [negb]; [|reflexivity]. rewrite !run_ws_app. reflexivity.
    + destruct (post_ok x); reflexivity.
  - destruct (x_fail x) as [|n|n]; cbn [done_writes]; try (destruct (post_ok x); reflexivity).
    destruct (writes_single (x_sub x) t1 pre) as (t2 & E2 & V2). rewrite E2.
    destruct (writes_single (x_success x) t2 pre) as (t3 & E3 & V3). rewrite E3, run_post_spec, V3, V2, V1.
    destruct (post_ok x); cbn [negb]; [|reflexivity]. rewrite !run_ws_app. reflexivity.
Qed.

(* over histories: the store is the fold of the designated outcomes — partial effects never accumulate *)
Lemma history_designated xs : forall s, run_history xs s = designated_history xs s.
Proof.
  induction xs as [|x r IH]; intros s; [reflexivity|]. unfold run_history, designated_history in *. cbn [fold_left].
  rewrite crossing_designated. apply IH.
Qed.

(* what a failed, tolerated crossing contributes: the residue and the common writes, each computed WITHOUT the sub-step's
   writes in view — the same whatever the sub-step had written and wherever it stopped *)
Lemma failed_crossing_independent_of_substep x pre n sub' n' :
  x_branch x = true -> x_fail x = ErrAfter n ->
  let x' := {| x_pre := x_pre x; x_branch := true; x_sub := sub'; x_fail := ErrAfter n'; x_residue := x_residue x;
               x_success := x_success x; x_post := x_post x; x_post_fail := x_post_fail x |} in
  run_crossing x pre = run_crossing x' pre.
Proof.
  intros Hb Hf. cbn zeta. rewrite !crossing_designated. unfold designated, post_ok. cbn [x_post_fail x_fail x_branch x_pre x_residue x_post].
  rewrite Hb, Hf. reflexivity.
Qed.

(* a panic — in the sub-step or in the clean-ups, after any number of writes — and an error that is returned rather than tolerated
   leave the store untouched *)
Lemma failed_transaction_keeps_nothing x pre :
  snd (run_crossing x pre) = 2 -> fst (run_crossing x pre) = pre.
Proof.
  rewrite crossing_designated. unfold designated. destruct (negb (post_ok x)); [reflexivity|].
  destruct (x_fail x); [discriminate| |reflexivity]. destruct (x_branch x); [discriminate|reflexivity].
Qed.

(* ---- what the branch is there for ---- *)
Definition w_const (k v : Z) : wfun := fun _ => (k, v).
(* a write that records whether key k is visible: value 1 if some write of k can be read, else 0 *)
Definition w_probe (k into : Z) : wfun := fun l => (into, match lookup l k with Some _ => 1 | None => 0 end).

(* without the branch a sub-step that fails AFTER a write leaves that write behind, and the clean-ups see it *)
Lemma nobranch_refuted :
  let x := x_attestation [w_const 1 1] [w_const 2 1] [w_const 5 7; w_const 6 7] (ErrAfter 1) [w_probe 5 9] NoFail [w_const 3 1] in
  fst (run_crossing_nobranch x []) <> fst (designated x []) /\
  lookup (fst (run_crossing_nobranch x [])) 5 = Some 7 /\ lookup (fst (run_crossing_nobranch x [])) 9 = Some 1 /\
  lookup (fst (run_crossing x [])) 5 = None /\ lookup (fst (run_crossing x [])) 9 = Some 0.
Proof. vm_compute. repeat split. discriminate. Qed.

Lemma commit_always_refuted :
  let x := x_attestation [w_const 1 1] [w_const 2 1] [w_const 5 7; w_const 6 7] (ErrAfter 1) [w_probe 5 9] NoFail [w_const 3 1] in
  fst (run_crossing_commit_always x []) <> fst (designated x []).
Proof. vm_compute. discriminate. Qed.

(* … and ONLY then: if the sub-step stops before its first write (what every attestation handler of this code does when it
   returns an error — source fact ok_handlers), the run without the branch is indistinguishable from the run with it.  On such
   code no execution can show whether the branch is there; that the handler runs on the branch is a fact about the source
   (C18_source_shape), and this theorem says what the fact buys as soon as a handler writes before failing. *)
Lemma nobranch_same_when_nothing_written x pre :
  x_branch x = true -> done_writes (x_sub x) (x_fail x) = [] -> x_fail x <> NoFail ->
  run_crossing_nobranch x pre = run_crossing x pre.
Proof.
  intros Hb Hd Hf. unfold run_crossing_nobranch, run_crossing. cbv zeta. rewrite Hb, Hd. cbn [writes].
  change (push (mk [] pre)) with (mk [[]] pre).
  destruct (writes_single (x_pre x) [] pre) as (t1 & E1 & V1). rewrite E1.
  destruct (x_fail x); [congruence| |reflexivity].
  unfold push, pop_discard. cbn [layers root]. reflexivity.
Qed.

(* non-vacuity: one history over all six boundaries with failures in the middle of the sub-step's writes *)
Lemma writes_nonvacuous :
  let h := [ x_attestation [w_const 1 1] [w_const 2 1] [w_const 5 7; w_const 6 7] (ErrAfter 1) [w_probe 5 9] NoFail [w_const 3 1];
             x_bridge_call [w_const 10 0] [w_const 11 50; w_const 12 60] [w_const 13 50; w_const 14 1] (ErrAfter 2) [w_const 15 50] [w_probe 13 16];
             x_bridge_call_result [w_const 20 0] [w_const 21 1; w_const 22 1] (PanicAfter 1);
             x_send_to_fx_ibc [w_const 30 0] [w_const 31 1; w_const 32 1; w_const 33 1] (ErrAfter 2);
             x_gov [w_const 40 1] [w_const 41 1; w_const 42 1; w_const 43 1] (ErrAfter 2) [w_probe 41 44] [w_const 45 1];
             x_ibc_recv [w_const 50 1] [w_const 51 1; w_const 52 1] (ErrAfter 2) [w_probe 51 53] [w_const 54 1];
             x_attestation [w_const 1 2] [w_const 2 2] [w_const 5 8] NoFail [w_const 60 1; w_const 61 1] (PanicAfter 1) [w_const 3 2] ] in
  let s := run_history h [] in
  (* the failed handler's write of key 5 is gone and the clean-up did not see it; the event is marked (keys 1,2,3) *)
  lookup s 5 = None /\ lookup s 9 = Some 0 /\ lookup s 2 = Some 1 /\ lookup s 3 = Some 1 /\
  (* bridge call: deposits stay, the EVM step's writes are gone, hand-over and refund ran without seeing them *)
  lookup s 11 = Some 50 /\ lookup s 13 = None /\ lookup s 15 = Some 50 /\ lookup s 16 = Some 0 /\
  (* BridgeCallResult panic / SendToFx->IBC error: nothing of the transaction, not even the consumed claim *)
  lookup s 20 = None /\ lookup s 21 = None /\ lookup s 30 = None /\ lookup s 31 = None /\
  (* gov: tally stays, no message write, FAILED status computed without them; IBC: receipt and error ack only *)
  lookup s 40 = Some 1 /\ lookup s 41 = None /\ lookup s 44 = Some 0 /\ lookup s 45 = None /\
  lookup s 50 = Some 1 /\ lookup s 51 = None /\ lookup s 53 = Some 0 /\ lookup s 54 = None /\
  (* the last vote: its handler succeeded, a clean-up panicked after one write: the whole vote is lost *)
  lookup s 60 = None /\ lookup s 1 = Some 1.
Proof. vm_compute. repeat split. Qed.
