(* P_ClaimHash — soundness of the format criterion of model/M_ClaimHash.v:
     check_fmt sp = true  ->  equal ClaimHash pre-images of two ValidateBasic-valid claims
                              force equal execution-relevant fields,
   for EVERY spec (so for whatever the translator extracts from the source), by induction over
   the token list; plus soundness of the collision search, and the per-type verdict lemma. *)
From Coq Require Import ZArith Bool String List Lia DecimalZ DecimalPos.
From FxV Require Import model.M_ClaimHash.
Import ListNotations.
Open Scope Z_scope.

(* ---------- generic list facts ---------- *)

Lemma forallb_weaken : forall (p q : Z -> bool) l,
  (forall b, p b = true -> q b = true) -> forallb p l = true -> forallb q l = true.
Proof.
  intros p q l H. induction l as [|h t IH]; simpl; auto.
  intros E. apply andb_prop in E as [E1 E2]. rewrite (H _ E1), (IH E2). reflexivity.
Qed.

(* two strings over an alphabet, each followed by a byte outside it *)
Lemma split_delim2 : forall (a : Z -> bool) x1 x2 b1 b2 r1 r2,
  forallb a x1 = true -> forallb a x2 = true -> a b1 = false -> a b2 = false ->
  x1 ++ b1 :: r1 = x2 ++ b2 :: r2 -> x1 = x2 /\ b1 :: r1 = b2 :: r2.
Proof.
  intros a. induction x1 as [|h t IH]; intros [|h2 t2] b1 b2 r1 r2 H1 H2 Hb1 Hb2 E;
    cbn [app forallb] in *.
  - auto.
  - injection E as E1 _. subst b1. apply andb_prop in H2 as [H2 _]. congruence.
  - injection E as E1 _. subst h. apply andb_prop in H1 as [H1 _]. congruence.
  - injection E as E1 E. subst h2.
    apply andb_prop in H1 as [_ H1]. apply andb_prop in H2 as [_ H2].
    destruct (IH _ _ _ _ _ H1 H2 Hb1 Hb2 E) as [E1 E2]. subst t2. auto.
Qed.

Lemma app_eq_len : forall (x1 x2 y1 y2 : bytes),
  length y1 = length y2 -> x1 ++ y1 = x2 ++ y2 -> x1 = x2 /\ y1 = y2.
Proof.
  induction x1 as [|h t IH]; intros [|h2 t2] y1 y2 L E; cbn [app] in *.
  - auto.
  - exfalso. apply (f_equal (@length Z)) in E. cbn [length] in E. rewrite app_length in E. lia.
  - exfalso. apply (f_equal (@length Z)) in E. cbn [length] in E. rewrite app_length in E. lia.
  - injection E as E1 E. subst h2. destruct (IH _ _ _ L E) as [E1 E2]. subst. auto.
Qed.

Lemma forallb_nth : forall (p : Z -> bool) l n, forallb p l = true -> (n < length l)%nat -> p (nth n l 0) = true.
Proof.
  intros p l n H L. rewrite forallb_forall in H. apply H. apply nth_In. exact L.
Qed.

Lemma head_not : forall (a : Z -> bool) x c, x <> [] -> forallb a x = true -> a c = false ->
  exists b r, x = b :: r /\ b <> c.
Proof.
  intros a [|b r] c Hne H Hc; [congruence|]. exists b, r. split; auto.
  cbn [forallb] in H. apply andb_prop in H as [H _]. congruence.
Qed.

Lemma mem_In : forall f l, mem f l = true -> In f l.
Proof.
  induction l as [|g r IH]; cbn [mem]; [discriminate|].
  intros E. apply orb_prop in E as [E|E].
  - left. symmetry. apply String.eqb_eq. exact E.
  - right. auto.
Qed.

Lemma lookup_In : forall A f (l : list (string * A)) v, lookup f l = Some v -> In (f, v) l.
Proof.
  induction l as [|[g w] r IH]; cbn [lookup]; [discriminate|].
  intros v. destruct (String.eqb f g) eqn:E.
  - intros H. injection H as H. subst. apply String.eqb_eq in E. subst. left. reflexivity.
  - intros H. right. auto.
Qed.

(* ---------- decimal rendering ---------- *)

Lemma r_uint_digits : forall d, forallb is_digit (r_uint d) = true.
Proof. induction d; cbn [r_uint forallb]; try rewrite IHd; reflexivity. Qed.

Lemma r_uint_inj : forall d1 d2, r_uint d1 = r_uint d2 -> d1 = d2.
Proof.
  induction d1; destruct d2; cbn [r_uint]; intros E; try discriminate E; try reflexivity;
    injection E as E; f_equal; auto.
Qed.

Lemma r_uint_nil : forall d, r_uint d = [] -> d = Decimal.Nil.
Proof. destruct d; cbn [r_uint]; intros E; try discriminate E; reflexivity. Qed.

Definition is_dm (b : Z) : bool := is_digit b || (b =? 45).

Lemma r_int_dm : forall i, forallb is_dm (r_int i) = true.
Proof.
  assert (W : forall d, forallb is_dm (r_uint d) = true).
  { intros d. apply forallb_weaken with (p := is_digit); [|apply r_uint_digits].
    intros b H. unfold is_dm. rewrite H. reflexivity. }
  destruct i; cbn [r_int forallb]; [apply W|]. rewrite W. reflexivity.
Qed.

Lemma r_int_inj : forall i1 i2, r_int i1 = r_int i2 -> i1 = i2.
Proof.
  intros [d1|d1] [d2|d2]; cbn [r_int]; intros E.
  - f_equal. apply r_uint_inj. exact E.
  - exfalso. pose proof (r_uint_digits d1) as H. rewrite E in H. cbn [forallb] in H. discriminate H.
  - exfalso. pose proof (r_uint_digits d2) as H. rewrite <- E in H. cbn [forallb] in H. discriminate H.
  - injection E as E. f_equal. apply r_uint_inj. exact E.
Qed.

Lemma r_dec_inj : forall z1 z2, r_dec z1 = r_dec z2 -> z1 = z2.
Proof.
  unfold r_dec. intros z1 z2 E. apply r_int_inj in E.
  rewrite <- (DecimalZ.of_to z1), <- (DecimalZ.of_to z2), E. reflexivity.
Qed.

Lemma r_dec_digits : forall z, 0 <= z -> forallb is_digit (r_dec z) = true.
Proof.
  intros [|p|p] H; unfold r_dec; cbn [Z.to_int r_int].
  - reflexivity.
  - apply r_uint_digits.
  - lia.
Qed.

Lemma r_dec_nonempty : forall z, r_dec z <> [].
Proof.
  intros [|p|p]; unfold r_dec; cbn [Z.to_int r_int].
  - discriminate.
  - intros E. apply r_uint_nil in E. exact (Unsigned.to_uint_nonnil p E).
  - discriminate.
Qed.

Lemma dm_intch : forall b, is_dm b = true -> is_intch b = true.
Proof.
  unfold is_dm, is_intch. intros b H. apply orb_prop in H as [H|H]; rewrite H; cbn [orb];
    rewrite ?orb_true_r; reflexivity.
Qed.

Lemma r_oint_intch : forall o, forallb is_intch (r_oint o) = true.
Proof.
  intros [z|]; cbn [r_oint]; [|reflexivity].
  apply forallb_weaken with (p := is_dm); [apply dm_intch|apply r_int_dm].
Qed.

Lemma r_oint_nonempty : forall o, r_oint o <> [].
Proof. intros [z|]; cbn [r_oint]; [apply r_dec_nonempty|discriminate]. Qed.

Lemma r_oint_inj : forall o1 o2, r_oint o1 = r_oint o2 -> o1 = o2.
Proof.
  intros [z1|] [z2|]; cbn [r_oint]; intros E.
  - f_equal. apply r_dec_inj. exact E.
  - exfalso. pose proof (r_int_dm (Z.to_int z1)) as H. unfold r_dec in E. rewrite E in H. discriminate H.
  - exfalso. pose proof (r_int_dm (Z.to_int z2)) as H. unfold r_dec in E. rewrite <- E in H. discriminate H.
  - reflexivity.
Qed.

(* ---------- %x of a string ---------- *)

Lemma hexd_hex : forall n, 0 <= n < 16 -> is_hex (hexd n) = true.
Proof.
  intros n H. unfold hexd, is_hex, is_digit. destruct (n <? 10) eqn:E.
  - apply Z.ltb_lt in E. replace ((48 <=? 48 + n) && (48 + n <=? 57)) with true; [reflexivity|].
    symmetry. apply andb_true_intro. split; apply Z.leb_le; lia.
  - apply Z.ltb_ge in E. replace ((97 <=? 87 + n) && (87 + n <=? 102)) with true; [rewrite orb_true_r; reflexivity|].
    symmetry. apply andb_true_intro. split; apply Z.leb_le; lia.
Qed.

Lemma hexd_inj : forall a b, 0 <= a < 16 -> 0 <= b < 16 -> hexd a = hexd b -> a = b.
Proof.
  intros a b Ha Hb. unfold hexd. destruct (a <? 10) eqn:E1, (b <? 10) eqn:E2;
    try apply Z.ltb_lt in E1; try apply Z.ltb_lt in E2; try apply Z.ltb_ge in E1; try apply Z.ltb_ge in E2; lia.
Qed.

Lemma is_byte_spec : forall b, is_byte b = true -> 0 <= b < 256.
Proof. unfold is_byte. intros b H. apply andb_prop in H as [H1 H2]. apply Z.leb_le in H1. apply Z.ltb_lt in H2. lia. Qed.

Lemma byte_nibbles : forall b, 0 <= b < 256 -> 0 <= b / 16 < 16 /\ 0 <= b mod 16 < 16.
Proof.
  intros b H. split.
  - split; [apply Z.div_pos; lia|apply Z.div_lt_upper_bound; lia].
  - apply Z.mod_pos_bound. lia.
Qed.

Lemma r_hex_hex : forall s, forallb is_byte s = true -> forallb is_hex (r_hex s) = true.
Proof.
  induction s as [|b r IH]; cbn [r_hex forallb]; [reflexivity|]. intros H. apply andb_prop in H as [Hb Hr].
  apply is_byte_spec in Hb. destruct (byte_nibbles b Hb) as [N1 N2].
  rewrite (hexd_hex _ N1), (hexd_hex _ N2), (IH Hr). reflexivity.
Qed.

Lemma r_hex_inj : forall s1 s2, forallb is_byte s1 = true -> forallb is_byte s2 = true ->
  r_hex s1 = r_hex s2 -> s1 = s2.
Proof.
  induction s1 as [|a r1 IH]; intros [|b r2] H1 H2; cbn [r_hex forallb] in *; intros E; try discriminate E;
    [reflexivity|].
  apply andb_prop in H1 as [Ha H1]. apply andb_prop in H2 as [Hb H2].
  apply is_byte_spec in Ha. apply is_byte_spec in Hb.
  destruct (byte_nibbles a Ha) as [A1 A2]. destruct (byte_nibbles b Hb) as [B1 B2].
  injection E as E1 E2 E3. apply hexd_inj in E1; auto. apply hexd_inj in E2; auto.
  f_equal; [|apply IH; auto].
  rewrite (Z.div_mod a 16), (Z.div_mod b 16) by lia. rewrite E1, E2. reflexivity.
Qed.

(* ---------- "[e1 e2 ...]" is injective when elements are delimited by ' ' / ']' ---------- *)

Definition stop (t : bytes) : Prop := exists b r, t = b :: r /\ (b = 32 \/ b = 93).

Section ListInj.
  Variable E : Type.
  Variable re : E -> bytes.
  Variable okE : E -> Prop.
  Hypothesis re_head : forall e, okE e -> exists b r, re e = b :: r /\ b <> 93.
  Hypothesis re_delim : forall e1 e2 t1 t2, okE e1 -> okE e2 -> stop t1 -> stop t2 ->
    re e1 ++ t1 = re e2 ++ t2 -> e1 = e2 /\ t1 = t2.

  Lemma r_tail_stop : forall l, stop (r_tail l).
  Proof. intros [|x r]; cbn [r_tail]; eexists; eexists; split; eauto. Qed.

  Lemma r_tail_inj : forall l1 l2, Forall okE l1 -> Forall okE l2 ->
    r_tail (map re l1) = r_tail (map re l2) -> l1 = l2.
  Proof.
    induction l1 as [|e1 r1 IH]; intros [|e2 r2] F1 F2; cbn [map r_tail]; intros H;
      try discriminate H; [reflexivity|].
    injection H as H. inversion F1; inversion F2; subst.
    destruct (re_delim e1 e2 _ _ H2 H6 (r_tail_stop _) (r_tail_stop _) H) as [E1 E2].
    subst. f_equal. auto.
  Qed.

  Lemma r_list_inj : forall l1 l2, Forall okE l1 -> Forall okE l2 ->
    r_list (map re l1) = r_list (map re l2) -> l1 = l2.
  Proof.
    unfold r_list. intros [|e1 r1] [|e2 r2] F1 F2; cbn [map]; intros H;
      [reflexivity|injection H as H..].
    - exfalso. inversion F2; subst. destruct (re_head e2 H2) as (b & r & Hb & Hn).
      rewrite Hb in H. cbn [app] in H. injection H as H _. congruence.
    - exfalso. inversion F1; subst. destruct (re_head e1 H2) as (b & r & Hb & Hn).
      rewrite Hb in H. cbn [app] in H. injection H as H _. congruence.
    - inversion F1; inversion F2; subst.
      destruct (re_delim e1 e2 _ _ H2 H6 (r_tail_stop _) (r_tail_stop _) H) as [E1 E2].
      subst. f_equal. apply r_tail_inj; auto.
  Qed.
End ListInj.

Lemma r_list_alpha : forall (a : Z -> bool) l,
  a 91 = true -> a 93 = true -> a 32 = true ->
  (forall x, In x l -> forallb a x = true) -> forallb a (r_list l) = true.
Proof.
  intros a l A1 A2 A3 H.
  assert (T : forall r, (forall x, In x r -> forallb a x = true) -> forallb a (r_tail r) = true).
  { induction r as [|x r IH]; intros Hr; cbn [r_tail forallb].
    - rewrite A2. reflexivity.
    - rewrite A3. cbn [andb]. rewrite forallb_app, (Hr x (or_introl eq_refl)), IH; auto.
      intros y Hy. apply Hr. right. exact Hy. }
  unfold r_list. cbn [forallb]. rewrite A1. cbn [andb]. destruct l as [|x r].
  - cbn [forallb]. rewrite A2. reflexivity.
  - rewrite forallb_app, (H x (or_introl eq_refl)), T; auto.
    intros y Hy. apply H. right. exact Hy.
Qed.

(* ---------- strings of a class ---------- *)

Lemma addr_ok_spec : forall s, addr_ok s = true ->
  forallb is_alnum s = true /\
  ((length s = 42%nat /\ nth 1 s 0 = 120) \/ length s = 34%nat).
Proof.
  unfold addr_ok, len. intros s H. apply andb_prop in H as [H1 H2]. split; [exact H1|].
  apply orb_prop in H2 as [H2|H2].
  - apply andb_prop in H2 as [L X]. apply Z.eqb_eq in L. apply Z.eqb_eq in X. left. split; [lia|exact X].
  - apply Z.eqb_eq in H2. right. lia.
Qed.

Lemma str_ok_alpha : forall cl s, str_ok cl s = true -> forallb (calpha cl) s = true.
Proof.
  intros [] s H; cbn [str_ok calpha] in *; auto.
  - apply forallb_forall. reflexivity.
  - apply forallb_forall. reflexivity.
  - apply addr_ok_spec in H. tauto.
Qed.

Lemma str_ok_nonempty : forall cl s, cls_nonempty cl = true -> str_ok cl s = true -> s <> [].
Proof.
  intros [] s C H; cbn [cls_nonempty] in C; try discriminate C; cbn [str_ok] in H.
  - destruct s; [discriminate H|discriminate].
  - apply addr_ok_spec in H. destruct H as [_ [[L _]|L]]; intros ->; discriminate L.
Qed.

(* a decimal directly followed by an address *)
Lemma digits_addr : forall d1 d2 a1 a2,
  forallb is_digit d1 = true -> forallb is_digit d2 = true ->
  addr_ok a1 = true -> addr_ok a2 = true ->
  d1 ++ a1 = d2 ++ a2 -> d1 = d2 /\ a1 = a2.
Proof.
  intros d1 d2 a1 a2 D1 D2 A1 A2 E.
  apply addr_ok_spec in A1 as [_ S1]. apply addr_ok_spec in A2 as [_ S2].
  assert (L : (length d1 + length a1 = length d2 + length a2)%nat).
  { apply (f_equal (@length Z)) in E. rewrite !app_length in E. exact E. }
  assert (X : is_digit 120 = false) by reflexivity.
  destruct S1 as [[L1 X1]|L1], S2 as [[L2 X2]|L2].
  - apply app_eq_len; [lia|exact E].
  - exfalso.
    assert (N : nth (length d1 + 1) (d1 ++ a1) 0 = 120).
    { rewrite app_nth2 by lia. replace (length d1 + 1 - length d1)%nat with 1%nat by lia. exact X1. }
    rewrite E, app_nth1 in N by lia.
    pose proof (forallb_nth is_digit d2 (length d1 + 1) D2 ltac:(lia)) as P. rewrite N in P. congruence.
  - exfalso.
    assert (N : nth (length d2 + 1) (d2 ++ a2) 0 = 120).
    { rewrite app_nth2 by lia. replace (length d2 + 1 - length d2)%nat with 1%nat by lia. exact X2. }
    rewrite <- E, app_nth1 in N by lia.
    pose proof (forallb_nth is_digit d1 (length d2 + 1) D1 ltac:(lia)) as P. rewrite N in P. congruence.
  - apply app_eq_len; [lia|exact E].
Qed.

(* ---------- per-token facts ---------- *)

Lemma wf_field : forall sp c f ty, wf sp c -> fty_of sp f = Some ty -> val_ok ty (get f c) = true.
Proof.
  unfold wf, wfb, fty_of. intros sp c f ty W L. rewrite forallb_forall in W.
  apply lookup_In in L. exact (W _ L).
Qed.

Lemma digit_alnum : forall b, is_digit b = true -> is_alnum b = true.
Proof. unfold is_alnum. intros b H. rewrite H. reflexivity. Qed.

Lemma member_app : forall m t, r_member m ++ t = 123 :: r_dec (fst m) ++ 32 :: (snd m ++ 125 :: t).
Proof.
  intros m t. unfold r_member. cbn [app]. rewrite <- app_assoc. cbn [app]. rewrite <- app_assoc.
  reflexivity.
Qed.

Lemma tok_alpha : forall sp c t, tok_ok sp t = true -> wf sp c ->
  forallb (talpha sp t) (render_tok c t) = true.
Proof.
  intros sp c t T W. destruct t as [s|f|f|f|f|f|f|f|f|f]; cbn [tok_ok talpha render_tok] in *.
  - discriminate T.
  - destruct (fty_of sp f) as [[]|] eqn:F; try discriminate T.
    pose proof (wf_field _ _ _ _ W F) as V. destruct (get f c); try discriminate V.
    apply r_dec_digits. cbn [val_ok] in V. apply Z.leb_le. exact V.
  - destruct (fty_of sp f) as [[]|] eqn:F; try discriminate T.
    pose proof (wf_field _ _ _ _ W F) as V. destruct (get f c); try discriminate V.
    cbn [val_ok] in V. apply andb_prop in V as [_ V]. apply str_ok_alpha. exact V.
  - destruct (fty_of sp f) as [[]|] eqn:F; try discriminate T.
    pose proof (wf_field _ _ _ _ W F) as V. destruct (get f c); try (destruct c0; discriminate V).
    apply r_oint_intch.
  - destruct (fty_of sp f) as [[]|] eqn:F; try discriminate T.
    pose proof (wf_field _ _ _ _ W F) as V. destruct (get f c); try discriminate V.
    destruct b; reflexivity.
  - destruct (fty_of sp f) as [[]|] eqn:F; try discriminate T.
    pose proof (wf_field _ _ _ _ W F) as V. destruct (get f c); try discriminate V.
    cbn [val_ok] in V. rewrite forallb_forall in V.
    apply r_list_alpha; try (rewrite orb_true_r; reflexivity).
    intros x Hx. apply forallb_weaken with (p := calpha c0).
    + intros b Hb. rewrite Hb. reflexivity.
    + apply str_ok_alpha. specialize (V x Hx). apply andb_prop in V. tauto.
  - destruct (fty_of sp f) as [[]|] eqn:F; try discriminate T.
    pose proof (wf_field _ _ _ _ W F) as V. destruct (get f c); try discriminate V.
    apply r_list_alpha; try (rewrite orb_true_r; reflexivity).
    intros x Hx. apply in_map_iff in Hx as (o & <- & _).
    apply forallb_weaken with (p := is_intch); [|apply r_oint_intch].
    intros b Hb. rewrite Hb. reflexivity.
  - destruct (fty_of sp f) as [[]|] eqn:F; try discriminate T.
    pose proof (wf_field _ _ _ _ W F) as V. destruct (get f c); try discriminate V.
    cbn [val_ok] in V. rewrite forallb_forall in V.
    apply r_list_alpha; try (unfold is_membch; rewrite ?orb_true_r; reflexivity).
    intros x Hx. apply in_map_iff in Hx as (m & <- & Hm).
    specialize (V m Hm). apply andb_prop in V as [V1 V2]. apply Z.leb_le in V1.
    unfold r_member. cbn [forallb].
    replace (is_digit 123 || calpha c0 123 || is_membch 123) with true
      by (unfold is_membch; rewrite ?orb_true_r; reflexivity).
    cbn [andb]. rewrite forallb_app. apply andb_true_intro. split.
    + apply forallb_weaken with (p := is_digit); [|apply r_dec_digits; exact V1].
      intros b Hb. rewrite Hb. reflexivity.
    + cbn [forallb].
      replace (is_digit 32 || calpha c0 32 || is_membch 32) with true
        by (unfold is_membch; rewrite ?orb_true_r; reflexivity).
      cbn [andb]. rewrite forallb_app. apply andb_true_intro. split.
      * apply forallb_weaken with (p := calpha c0); [|apply str_ok_alpha; exact V2].
        intros b Hb. rewrite Hb, orb_true_r. reflexivity.
      * cbn [forallb].
        replace (is_digit 125 || calpha c0 125 || is_membch 125) with true
          by (unfold is_membch; rewrite ?orb_true_r; reflexivity).
        reflexivity.
  - destruct (fty_of sp f) as [[]|] eqn:F; try discriminate T.
    pose proof (wf_field _ _ _ _ W F) as V. destruct (get f c); try discriminate V.
    cbn [val_ok] in V. apply andb_prop in V as [V _]. apply r_hex_hex. exact V.
  - destruct (fty_of sp f) as [[]|] eqn:F; try discriminate T.
    pose proof (wf_field _ _ _ _ W F) as V. destruct (get f c); try discriminate V.
    cbn [val_ok] in V. rewrite forallb_forall in V.
    apply r_list_alpha; try (rewrite orb_true_r; reflexivity).
    intros x Hx. apply in_map_iff in Hx as (y & <- & Hy). specialize (V y Hy). apply andb_prop in V as [V _].
    apply forallb_weaken with (p := is_hex); [|apply r_hex_hex; exact V].
    intros b Hb. rewrite Hb. reflexivity.
Qed.

Lemma stop_cases : forall t, stop t -> exists b r, t = b :: r /\ (b = 32 \/ b = 93).
Proof. auto. Qed.

Lemma tok_inj : forall sp c1 c2 t f, tok_ok sp t = true -> wf sp c1 -> wf sp c2 ->
  render_tok c1 t = render_tok c2 t -> tok_field t = Some f -> get f c1 = get f c2.
Proof.
  intros sp c1 c2 t f0 T W1 W2 E TF.
  destruct t as [s|f|f|f|f|f|f|f|f|f]; cbn [tok_ok render_tok tok_field] in *; try discriminate TF;
    injection TF as TF; subst f0;
    destruct (fty_of sp f) as [ty|] eqn:F; try discriminate T;
    destruct ty as [|c|ic| |c| |c]; try discriminate T;
    pose proof (wf_field _ _ _ _ W1 F) as V1; pose proof (wf_field _ _ _ _ W2 F) as V2;
    destruct (get f c1) as [n1|s1|o1|b1|l1|l1|l1|]; try discriminate V1; try (destruct ic; discriminate V1);
    destruct (get f c2) as [n2|s2|o2|b2|l2|l2|l2|]; try discriminate V2; try (destruct ic; discriminate V2).
  - f_equal. apply r_dec_inj. exact E.
  - f_equal. exact E.
  - f_equal. apply r_oint_inj. exact E.
  - destruct b1, b2; try reflexivity; discriminate E.
  - (* []string *)
    apply andb_prop in T as [T T93]. apply andb_prop in T as [TN T32].
    apply negb_true_iff in T93. apply negb_true_iff in T32.
    cbn [val_ok] in V1, V2. rewrite forallb_forall in V1, V2.
    f_equal. rewrite <- (map_id l1), <- (map_id l2) in E.
    apply (r_list_inj bytes (fun x => x) (fun s => str_ok c s = true)); auto.
    + intros e He. apply head_not with (a := calpha c); auto.
      * apply (str_ok_nonempty c); auto.
      * apply str_ok_alpha. exact He.
    + intros e1 e2 t1 t2 H1 H2 (b1 & r1 & -> & B1) (b2 & r2 & -> & B2) H.
      apply split_delim2 with (a := calpha c) in H; auto using str_ok_alpha.
      * destruct B1; subst; assumption.
      * destruct B2; subst; assumption.
    + apply Forall_forall. intros x Hx. specialize (V1 x Hx). apply andb_prop in V1. tauto.
    + apply Forall_forall. intros x Hx. specialize (V2 x Hx). apply andb_prop in V2. tauto.
  - (* []Int *)
    f_equal.
    apply (r_list_inj (option Z) r_oint (fun _ => True)); auto.
    + intros e _. apply head_not with (a := is_intch); auto using r_oint_nonempty, r_oint_intch.
    + intros e1 e2 t1 t2 _ _ (b1 & r1 & -> & B1) (b2 & r2 & -> & B2) H.
      apply split_delim2 with (a := is_intch) in H; auto using r_oint_intch.
      * destruct H as [H1 H2]. split; [apply r_oint_inj; exact H1|exact H2].
      * destruct B1; subst; reflexivity.
      * destruct B2; subst; reflexivity.
    + apply Forall_forall. auto.
    + apply Forall_forall. auto.
  - (* []BridgeValidator *)
    apply negb_true_iff in T.
    cbn [val_ok] in V1, V2. rewrite forallb_forall in V1, V2.
    f_equal.
    apply (r_list_inj (Z * bytes) r_member (fun m => 0 <= fst m /\ str_ok c (snd m) = true)); auto.
    + intros e _. unfold r_member. eexists; eexists; split; [reflexivity|discriminate].
    + intros [p1 a1] [p2 a2] t1 t2 [P1 A1] [P2 A2] _ _ H. cbn [fst snd] in *.
      rewrite !member_app in H. cbn [fst snd] in H. injection H as H.
      apply split_delim2 with (a := is_digit) in H; auto using r_dec_digits.
      destruct H as [H1 H2]. apply r_dec_inj in H1. injection H2 as H2.
      apply split_delim2 with (a := calpha c) in H2; auto using str_ok_alpha.
      destruct H2 as [H2 H3]. injection H3 as H3. subst. auto.
    + apply Forall_forall. intros m Hm. specialize (V1 m Hm). apply andb_prop in V1 as [V V'].
      apply Z.leb_le in V. auto.
    + apply Forall_forall. intros m Hm. specialize (V2 m Hm). apply andb_prop in V2 as [V V'].
      apply Z.leb_le in V. auto.
  - (* %x *)
    cbn [val_ok] in V1, V2. apply andb_prop in V1 as [V1 _]. apply andb_prop in V2 as [V2 _].
    f_equal. apply r_hex_inj; auto.
  - (* %x of []string *)
    cbn [val_ok] in V1, V2. rewrite forallb_forall in V1, V2.
    f_equal.
    apply (r_list_inj bytes r_hex (fun x => forallb is_byte x = true /\ str_ok c x = true)); auto.
    + intros e [Hb Hs]. apply head_not with (a := is_hex); auto using r_hex_hex.
      pose proof (str_ok_nonempty c e T Hs) as Ne. destruct e; [congruence|cbn [r_hex]; discriminate].
    + intros e1 e2 t1 t2 [B1 _] [B2 _] (b1 & r1 & -> & C1) (b2 & r2 & -> & C2) H.
      apply split_delim2 with (a := is_hex) in H; auto using r_hex_hex.
      * destruct H as [H1 H2]. split; [apply r_hex_inj; auto|exact H2].
      * destruct C1; subst; reflexivity.
      * destruct C2; subst; reflexivity.
    + apply Forall_forall. intros x Hx. specialize (V1 x Hx). apply andb_prop in V1. tauto.
    + apply Forall_forall. intros x Hx. specialize (V2 x Hx). apply andb_prop in V2. tauto.
Qed.

(* ---------- the induction over the token list ---------- *)

Lemma render_follow : forall a rest c1 c2 x1 x2,
  follow_ok a rest = true -> forallb a x1 = true -> forallb a x2 = true ->
  x1 ++ render rest c1 = x2 ++ render rest c2 ->
  x1 = x2 /\ render rest c1 = render rest c2.
Proof.
  intros a rest c1 c2 x1 x2 Fo A1 A2 E. destruct rest as [|t r]; cbn [follow_ok] in Fo.
  - cbn [render] in *. rewrite !app_nil_r in E. auto.
  - destruct t as [s| | | | | | | | |]; try discriminate Fo. destruct s as [|b s]; [discriminate Fo|].
    apply negb_true_iff in Fo. cbn [render render_tok app] in *.
    apply split_delim2 with (a := a) in E; auto.
Qed.

Lemma chk_sound : forall sp c1 c2, wf sp c1 -> wf sp c2 ->
  forall n fm, (length fm <= n)%nat -> chk sp fm = true ->
  render fm c1 = render fm c2 ->
  forall f, In f (fmt_fields fm) -> get f c1 = get f c2.
Proof.
  intros sp c1 c2 W1 W2. induction n as [|n IH]; intros fm L C E f Hf.
  - destruct fm; [destruct Hf|cbn [length] in L; lia].
  - destruct fm as [|t r]; [destruct Hf|]. cbn [length] in L.
    assert (Lr : (length r <= n)%nat) by lia.
    destruct t as [s|g|g|g|g|g|g|g|g|g].
    1: { cbn [chk] in C. cbn [render render_tok] in E. apply app_inv_head in E.
         cbn [fmt_fields tok_field] in Hf. eapply IH; eauto. }
    all: cbn [chk] in C; apply andb_prop in C as [C Cr]; apply orb_prop in C as [C|C].
    all: try (cbn [special] in C; discriminate C).
    (* generic step: token delimited by what follows *)
    all: try (apply andb_prop in C as [T Fo];
      cbn [render] in E;
      pose proof (tok_alpha _ _ _ T W1) as A1; pose proof (tok_alpha _ _ _ T W2) as A2;
      destruct (render_follow _ _ _ _ _ _ Fo A1 A2 E) as [Ex Er];
      cbn [fmt_fields tok_field] in Hf; destruct Hf as [<-|Hf];
      [eapply tok_inj; eauto; reflexivity | eapply IH; eauto]).
    (* special step: U64 g directly followed by an address *)
    cbn [special] in C. destruct r as [|t' r']; [discriminate C|].
    destruct t' as [s|g'|g'|g'|g'|g'|g'|g'|g'|g']; try discriminate C.
    apply andb_prop in C as [C Fo]. apply andb_prop in C as [T Ad].
    unfold is_addr_field in Ad. destruct (fty_of sp g') as [ty|] eqn:F'; [|discriminate Ad].
    destruct ty as [|cl| | | | |]; try discriminate Ad. destruct cl; try discriminate Ad.
    cbn [tok_ok] in T. destruct (fty_of sp g) as [ty|] eqn:F; [|discriminate T].
    destruct ty; try discriminate T.
    pose proof (wf_field _ _ _ _ W1 F) as V1; pose proof (wf_field _ _ _ _ W2 F) as V2.
    pose proof (wf_field _ _ _ _ W1 F') as V1'; pose proof (wf_field _ _ _ _ W2 F') as V2'.
    cbn [render render_tok] in E.
    destruct (get g c1) as [n1| | | | | | |] eqn:G1; try discriminate V1.
    destruct (get g c2) as [n2| | | | | | |] eqn:G2; try discriminate V2.
    destruct (get g' c1) as [|a1| | | | | |] eqn:G1'; try discriminate V1'.
    destruct (get g' c2) as [|a2| | | | | |] eqn:G2'; try discriminate V2'.
    cbn [val_ok str_ok] in V1, V2, V1', V2'. apply Z.leb_le in V1. apply Z.leb_le in V2.
    apply andb_prop in V1' as [_ V1']. apply andb_prop in V2' as [_ V2'].
    rewrite !app_assoc in E.
    assert (AL : forall d a, 0 <= d -> addr_ok a = true -> forallb is_alnum (r_dec d ++ a) = true).
    { intros d a Hd Ha. rewrite forallb_app. apply andb_true_intro. split.
      - apply forallb_weaken with (p := is_digit); [apply digit_alnum|apply r_dec_digits; exact Hd].
      - apply addr_ok_spec in Ha. tauto. }
    destruct (render_follow _ _ _ _ _ _ Fo (AL _ _ V1 V1') (AL _ _ V2 V2') E) as [Ex Er].
    apply digits_addr in Ex; auto using r_dec_digits. destruct Ex as [Ed Ea].
    apply r_dec_inj in Ed. subst.
    cbn [chk] in Cr.
    assert (Cr' : chk sp r' = true).
    { apply andb_prop in Cr as [_ Cr]. exact Cr. }
    cbn [fmt_fields tok_field] in Hf. destruct Hf as [<-|[<-|Hf]].
    + rewrite G1, G2. reflexivity.
    + rewrite G1', G2'. reflexivity.
    + apply (IH r'); auto. cbn [length] in Lr. lia.
Qed.

Theorem check_fmt_sound : forall sp, check_fmt sp = true -> injective sp.
Proof.
  unfold check_fmt, injective, preimage, relevant. intros sp H c1 c2 W1 W2 E.
  apply andb_prop in H as [C Cov].
  apply map_ext_in. intros f Hf.
  unfold covers in Cov. rewrite forallb_forall in Cov.
  apply (chk_sound sp c1 c2 W1 W2 (length (s_fmt sp)) (s_fmt sp)); auto.
  apply mem_In. auto.
Qed.

(* ---------- the collision search is sound ---------- *)

Lemma list_eqb_refl : forall A (e : A -> A -> bool), (forall x, e x x = true) -> forall l, list_eqb e l l = true.
Proof. intros A e H. induction l; cbn [list_eqb]; [reflexivity|]. rewrite H, IHl. reflexivity. Qed.

Lemma bytes_eqb_refl : forall x, bytes_eqb x x = true.
Proof. apply list_eqb_refl. apply Z.eqb_refl. Qed.

Lemma oz_eqb_refl : forall x, oz_eqb x x = true.
Proof. intros [z|]; cbn [oz_eqb]; [apply Z.eqb_refl|reflexivity]. Qed.

Lemma fval_eqb_refl : forall v, fval_eqb v v = true.
Proof.
  intros []; cbn [fval_eqb]; auto using Z.eqb_refl, bytes_eqb_refl, oz_eqb_refl, Bool.eqb_reflx.
  - apply list_eqb_refl. apply bytes_eqb_refl.
  - apply list_eqb_refl. apply oz_eqb_refl.
  - apply list_eqb_refl. intros [p a]. cbn [fst snd]. rewrite Z.eqb_refl, bytes_eqb_refl. reflexivity.
Qed.

Lemma bytes_eqb_eq : forall x y, bytes_eqb x y = true -> x = y.
Proof.
  unfold bytes_eqb. induction x as [|a x IH]; intros [|b y]; cbn [list_eqb]; intros H;
    try discriminate H; [reflexivity|].
  apply andb_prop in H as [H1 H2]. apply Z.eqb_eq in H1. subst. f_equal. auto.
Qed.

Lemma collide_sound : forall sp c1 c2, collide_b sp c1 c2 = true ->
  wf sp c1 /\ wf sp c2 /\ get "EventNonce" c1 = get "EventNonce" c2 /\
  relevant sp c1 <> relevant sp c2 /\ preimage sp c1 = preimage sp c2.
Proof.
  unfold collide_b, wf. intros sp c1 c2 H.
  apply andb_prop in H as [H H4]. apply andb_prop in H as [H H3]. apply andb_prop in H as [H HN].
  apply andb_prop in H as [H1 H2].
  repeat split; auto.
  - unfold nonce_eqb in HN.
    destruct (get "EventNonce" c1); try discriminate HN. destruct (get "EventNonce" c2); try discriminate HN.
    apply Z.eqb_eq in HN. subst. reflexivity.
  - intros E. rewrite E in H3. rewrite (list_eqb_refl _ fval_eqb fval_eqb_refl) in H3. discriminate H3.
  - apply bytes_eqb_eq. exact H4.
Qed.

Lemma cex_sound : forall sp c1 c2, cex sp = Some (c1, c2) -> collide_b sp c1 c2 = true.
Proof. unfold cex. intros sp c1 c2 H. apply find_some in H. exact (proj2 H). Qed.

(* the per-type decision: the criterion holds, or the search found a verified colliding pair *)
Theorem decide_verdict : forall sp, decided_b sp = true -> verdict sp.
Proof.
  unfold decided_b, verdict. intros sp H. destruct (check_fmt sp) eqn:C.
  - apply check_fmt_sound. exact C.
  - unfold cex_found in H. destruct (cex sp) as [[c1 c2]|] eqn:X; [|discriminate H].
    exists c1, c2. apply collide_sound. apply cex_sound. exact X.
Qed.

(* a refuted spec is not injective (the two verdicts exclude each other) *)
Lemma refuted_not_injective : forall sp, refuted sp -> ~ injective sp.
Proof.
  intros sp (c1 & c2 & W1 & W2 & _ & N & E) I. apply N. apply I; auto.
Qed.
