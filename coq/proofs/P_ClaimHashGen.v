(* the per-type decisions for the formats extracted from the current source (gen/Gen_ClaimHash.v) *)
From Coq Require Import ZArith Bool String List.
From FxV Require Import model.M_ClaimHash proofs.P_ClaimHash gen.Gen_ClaimHash.
Import ListNotations.
Open Scope Z_scope.

Ltac decide_spec := apply decide_verdict; vm_compute; reflexivity.

Lemma v_SendToFx : verdict Gen_SendToFx. Proof. decide_spec. Qed.
Lemma v_BridgeCall : verdict Gen_BridgeCall. Proof. decide_spec. Qed.
Lemma v_BridgeCallResult : verdict Gen_BridgeCallResult. Proof. decide_spec. Qed.
Lemma v_SendToExternal : verdict Gen_SendToExternal. Proof. decide_spec. Qed.
Lemma v_BridgeToken : verdict Gen_BridgeToken. Proof. decide_spec. Qed.
Lemma v_OracleSetUpdated : verdict Gen_OracleSetUpdated. Proof. decide_spec. Qed.

(* the six generated specs are exactly these *)
Lemma gen_all_six : Gen_all = [Gen_SendToFx; Gen_BridgeCall; Gen_BridgeCallResult; Gen_SendToExternal;
                               Gen_BridgeToken; Gen_OracleSetUpdated].
Proof. reflexivity. Qed.

(* no handler reads a field outside the execution-relevant set (other than the chain name) *)
Lemma reads_all_covered : forallb reads_covered Gen_all = true.
Proof. vm_compute. reflexivity. Qed.

(* non-vacuity: each spec has well-formed claims (the canonical one and a variant), and for every type the
   decision procedure did decide *)
Lemma dflt_wf_all : forallb (fun sp => wfb sp (dflt_claim sp)) Gen_all = true.
Proof. vm_compute. reflexivity. Qed.

Lemma decided_all : forallb decided_b Gen_all = true.
Proof. vm_compute. reflexivity. Qed.

(* a concrete pair of well-formed SendToExternal claims differing in one relevant field: by the verdict
   (when it is `injective`) their pre-images differ; checked directly here *)
Definition ex_c1 : claim := dflt_claim Gen_SendToExternal.
Definition ex_c2 : claim := set "BatchNonce" (VU64 2) ex_c1.
Lemma example_pair : wfb Gen_SendToExternal ex_c1 = true /\ wfb Gen_SendToExternal ex_c2 = true /\
  list_eqb fval_eqb (relevant Gen_SendToExternal ex_c1) (relevant Gen_SendToExternal ex_c2) = false /\
  bytes_eqb (preimage Gen_SendToExternal ex_c1) (preimage Gen_SendToExternal ex_c2) = false.
Proof. vm_compute. auto. Qed.
