(* the per-type decisions for the formats extracted from the current source (gen/Gen_ClaimHash.v) *)
From Coq Require Import ZArith Bool String List.
From FxV Require Import model.M_ClaimHash model.M_ClaimHashPreFix proofs.P_ClaimHash gen.Gen_ClaimHash.
Import ListNotations.
Open Scope Z_scope.

Ltac decide_spec := apply decide_verdict; vm_compute; reflexivity.

Lemma v_SendToFx : verdict Gen_SendToFx. Proof. decide_spec. Qed.
Lemma v_BridgeCall : verdict Gen_BridgeCall. Proof. decide_spec. Qed.
Lemma v_BridgeCallResult : verdict Gen_BridgeCallResult. Proof. decide_spec. Qed.
Lemma v_SendToExternal : verdict Gen_SendToExternal. Proof. decide_spec. Qed.
Lemma v_BridgeToken : verdict Gen_BridgeToken. Proof. decide_spec. Qed.
Lemma v_OracleSetUpdated : verdict Gen_OracleSetUpdated. Proof. decide_spec. Qed.

(* the property, positively: on the current source every ClaimHash is injective on the execution-relevant fields *)
Ltac inj_spec := apply check_fmt_sound; vm_compute; reflexivity.

Lemma inj_SendToFx : injective Gen_SendToFx. Proof. inj_spec. Qed.
Lemma inj_BridgeCall : injective Gen_BridgeCall. Proof. inj_spec. Qed.
Lemma inj_BridgeCallResult : injective Gen_BridgeCallResult. Proof. inj_spec. Qed.
Lemma inj_SendToExternal : injective Gen_SendToExternal. Proof. inj_spec. Qed.
Lemma inj_BridgeToken : injective Gen_BridgeToken. Proof. inj_spec. Qed.
Lemma inj_OracleSetUpdated : injective Gen_OracleSetUpdated. Proof. inj_spec. Qed.

(* the pre-fix format constants (history): each admitted a colliding pair of valid claims *)
Lemma cex_refuted : forall sp c1 c2, cex sp = Some (c1, c2) -> refuted sp.
Proof. intros sp c1 c2 H. exists c1, c2. apply collide_sound. apply cex_sound. exact H. Qed.

Ltac refute_spec sp :=
  let E := fresh in destruct (cex sp) as [[? ?]|] eqn:E;
  [exact (cex_refuted _ _ _ E) | vm_compute in E; discriminate E].

Lemma prefix_BridgeCall_refuted : refuted PreFix_BridgeCall. Proof. refute_spec PreFix_BridgeCall. Qed.
Lemma prefix_BridgeCallResult_refuted : refuted PreFix_BridgeCallResult. Proof. refute_spec PreFix_BridgeCallResult. Qed.
Lemma prefix_BridgeToken_refuted : refuted PreFix_BridgeToken. Proof. refute_spec PreFix_BridgeToken. Qed.

Lemma prefix_missing :
  missing_fields PreFix_BridgeCall = ["Memo"; "TxOrigin"]%string /\
  missing_fields PreFix_BridgeCallResult = ["TxOrigin"]%string /\
  missing_fields PreFix_BridgeToken = [] /\ chk PreFix_BridgeToken (s_fmt PreFix_BridgeToken) = false.
Proof. vm_compute. auto. Qed.

(* the six generated specs are exactly these *)
Lemma gen_all_six : Gen_all = [Gen_SendToFx; Gen_BridgeCall; Gen_BridgeCallResult; Gen_SendToExternal;
                               Gen_BridgeToken; Gen_OracleSetUpdated].
Proof. reflexivity. Qed.

(* no handler reads a field outside the execution-relevant set (other than the chain name) *)
Lemma reads_all_covered : forallb reads_covered Gen_all = true.
Proof. vm_compute. reflexivity. Qed.

(* non-vacuity: each spec has well-formed claims (the canonical one and a variant), and for every type the
   decision procedure did decide *)
Lemma dflt_wf_all : forallb (fun sp => wfb sp (dflt_claim sp)) Gen_all = true.
Proof. vm_compute. reflexivity. Qed.

Lemma decided_all : forallb decided_b Gen_all = true.
Proof. vm_compute. reflexivity. Qed.

(* a concrete pair of well-formed SendToExternal claims differing in one relevant field: by the verdict
   (when it is `injective`) their pre-images differ; checked directly here *)
Definition ex_c1 : claim := dflt_claim Gen_SendToExternal.
Definition ex_c2 : claim := set "BatchNonce" (VU64 2) ex_c1.
Lemma example_pair : wfb Gen_SendToExternal ex_c1 = true /\ wfb Gen_SendToExternal ex_c2 = true /\
  list_eqb fval_eqb (relevant Gen_SendToExternal ex_c1) (relevant Gen_SendToExternal ex_c2) = false /\
  bytes_eqb (preimage Gen_SendToExternal ex_c1) (preimage Gen_SendToExternal ex_c2) = false.
Proof. vm_compute. auto. Qed.
