(* P_ClaimHashX — pre-images of DIFFERENT claim types are distinct (the attestation key is (nonce, hash)
   whatever the type): soundness of the criterion [xdisjoint] of model/M_ClaimHash.v for every pair of specs,
   and its instance for the six formats extracted from the current source. *)
From Coq Require Import ZArith Bool String List Lia.
From FxV Require Import model.M_ClaimHash proofs.P_ClaimHash gen.Gen_ClaimHash model.M_AttestExec proofs.P_AttestExec.
Import ListNotations.
Close Scope string_scope.
Open Scope Z_scope.

(* ---------- splitting at '/' ---------- *)

Lemma split47_nonempty : forall l, split47 l <> [].
Proof.
  induction l as [|b r IH]; cbn [split47]; [discriminate|].
  destruct (b =? 47); [discriminate|]. destruct (split47 r); discriminate.
Qed.

Definition no47 (x : bytes) : bool := forallb (fun b => negb (b =? 47)) x.

Lemma split47_app : forall x y, no47 x = true ->
  split47 (x ++ y) = match split47 y with s :: ss => (x ++ s) :: ss | [] => [x] end.
Proof.
  unfold no47. induction x as [|b x IH]; intros y H; cbn [app].
  - destruct (split47 y) eqn:E; [exfalso; exact (split47_nonempty y E)|reflexivity].
  - cbn [forallb] in H. apply andb_prop in H as [Hb Hx]. apply negb_true_iff in Hb.
    cbn [split47]. rewrite Hb, (IH y Hx).
    destruct (split47 y) eqn:E; [exfalso; exact (split47_nonempty y E)|reflexivity].
Qed.

Lemma alpha_no47 : forall (a : Z -> bool) x, forallb a x = true -> a 47 = false -> no47 x = true.
Proof.
  unfold no47. intros a x H H47. induction x as [|b r IH]; cbn [forallb] in *; [reflexivity|].
  apply andb_prop in H as [Hb Hr]. rewrite (IH Hr), andb_true_r.
  apply negb_true_iff. destruct (b =? 47) eqn:E; [|reflexivity].
  apply Z.eqb_eq in E. subst. congruence.
Qed.

Lemma groups_nonempty : forall fm, groups fm <> [].
Proof.
  induction fm as [|t r IH]; cbn [groups]; [discriminate|].
  destruct (is_slash t); [discriminate|]. destruct (groups r); discriminate.
Qed.

Lemma is_slash_lit : forall t, is_slash t = true -> t = Lit [47].
Proof.
  intros [s| | | | | | | | |] H; cbn [is_slash] in H; try discriminate H.
  destruct s as [|b [|b' s']]; try discriminate H. apply Z.eqb_eq in H. subst. reflexivity.
Qed.

Definition tok_good (sp : spec) (t : tok) : bool := is_slash t || (tok_ok sp t && negb (talpha sp t 47)).

Lemma split_render : forall sp c fm, wf sp c -> forallb (tok_good sp) fm = true ->
  split47 (render fm c) = map (fun g => render g c) (groups fm).
Proof.
  intros sp c fm W. induction fm as [|t r IH]; intros H; cbn [render groups]; [reflexivity|].
  cbn [forallb] in H. apply andb_prop in H as [Ht Hr]. specialize (IH Hr).
  unfold tok_good in Ht. destruct (is_slash t) eqn:S.
  - apply is_slash_lit in S. subst t. cbn [render_tok app split47 map render]. rewrite IH. reflexivity.
  - cbn [orb] in Ht. apply andb_prop in Ht as [T A]. apply negb_true_iff in A.
    pose proof (alpha_no47 _ _ (tok_alpha sp c t T W) A) as N.
    rewrite (split47_app _ _ N), IH.
    destruct (groups r) as [|g gs] eqn:G; [exfalso; exact (groups_nonempty r G)|].
    cbn [map render]. reflexivity.
Qed.

(* every token inside a group is a well-typed field token *)
Lemma groups_ok : forall sp fm, forallb (tok_good sp) fm = true ->
  Forall (fun g => Forall (fun t => tok_ok sp t = true) g) (groups fm).
Proof.
  intros sp. induction fm as [|t r IH]; intros H; cbn [groups].
  - constructor; constructor.
  - cbn [forallb] in H. apply andb_prop in H as [Ht Hr]. specialize (IH Hr).
    destruct (is_slash t) eqn:S.
    + constructor; [constructor|exact IH].
    + unfold tok_good in Ht. rewrite S in Ht. cbn [orb] in Ht. apply andb_prop in Ht as [T _].
      destruct (groups r) as [|g gs]; [constructor; [constructor; [exact T|constructor]|constructor]|].
      inversion IH; subst. constructor; [constructor; assumption|assumption].
Qed.

Lemma galpha_render : forall sp c g, wf sp c -> Forall (fun t => tok_ok sp t = true) g ->
  forallb (galpha sp g) (render g c) = true.
Proof.
  intros sp c g W. induction g as [|t r IH]; intros F; cbn [render]; [reflexivity|].
  inversion F; subst. rewrite forallb_app. apply andb_true_intro. split.
  - apply forallb_weaken with (p := talpha sp t); [|apply tok_alpha; assumption].
    intros b Hb. unfold galpha. cbn [existsb]. rewrite Hb. reflexivity.
  - apply forallb_weaken with (p := galpha sp r); [|apply IH; assumption].
    intros b Hb. unfold galpha in *. cbn [existsb]. rewrite Hb. apply orb_true_r.
Qed.

(* ---------- guaranteed first bytes ---------- *)

Lemma digit_in10 : forall b, is_digit b = true -> In b digits10.
Proof.
  unfold is_digit, digits10. intros b H. apply andb_prop in H as [H1 H2].
  apply Z.leb_le in H1. apply Z.leb_le in H2. cbn [In].
  assert (b = 48 \/ b = 49 \/ b = 50 \/ b = 51 \/ b = 52 \/ b = 53 \/ b = 54 \/ b = 55 \/ b = 56 \/ b = 57) by lia.
  intuition.
Qed.

Lemma r_dec_head : forall z, exists b r, r_dec z = b :: r /\ (is_digit b = true \/ b = 45).
Proof.
  intros z. pose proof (r_dec_nonempty z) as N. pose proof (r_int_dm (Z.to_int z)) as D.
  unfold r_dec in *. destruct (r_int (Z.to_int z)) as [|b r]; [congruence|].
  exists b, r. split; [reflexivity|]. cbn [forallb] in D. apply andb_prop in D as [D _].
  unfold is_dm in D. apply orb_prop in D as [D|D]; [left; exact D|right; apply Z.eqb_eq; exact D].
Qed.

Lemma r_dec_head_nonneg : forall z, 0 <= z -> exists b r, r_dec z = b :: r /\ In b digits10.
Proof.
  intros z H. pose proof (r_dec_nonempty z) as N. pose proof (r_dec_digits z H) as D.
  destruct (r_dec z) as [|b r]; [congruence|]. exists b, r. split; [reflexivity|].
  cbn [forallb] in D. apply andb_prop in D as [D _]. apply digit_in10. exact D.
Qed.

Lemma tfirst_sound : forall sp c t, tok_ok sp t = true -> wf sp c -> tfirst sp t <> [] ->
  exists b r, render_tok c t = b :: r /\ In b (tfirst sp t).
Proof.
  intros sp c t T W NE.
  destruct t as [s|f|f|f|f|f|f|f|f|f]; cbn [tok_ok tfirst render_tok] in *; try congruence;
    destruct (fty_of sp f) as [ty|] eqn:F; try discriminate T;
    destruct ty as [|cl|ic| |cl| |cl]; try discriminate T;
    pose proof (wf_field _ _ _ _ W F) as V;
    destruct (get f c) as [n|s|o|b|l|l|l|]; try discriminate V; try (destruct ic; discriminate V).
  - cbn [val_ok] in V. apply Z.leb_le in V. apply r_dec_head_nonneg. exact V.
  - destruct ic; cbn [val_ok] in V.
    + destruct o as [z|]; [|discriminate V]. apply Z.leb_le in V. cbn [r_oint]. apply r_dec_head_nonneg. exact V.
    + destruct o as [z|]; cbn [r_oint].
      * destruct (r_dec_head z) as (b & r & E & [D|D]); exists b, r; (split; [exact E|]); apply in_or_app.
        -- left. apply digit_in10. exact D.
        -- right. subst. left. reflexivity.
      * eexists; eexists; split; [reflexivity|]. apply in_or_app. right. right. left. reflexivity.
  - destruct b; eexists; eexists; (split; [reflexivity|]); cbn [In]; auto.
  - eexists; eexists; split; [reflexivity|left; reflexivity].
  - eexists; eexists; split; [reflexivity|left; reflexivity].
  - eexists; eexists; split; [reflexivity|left; reflexivity].
  - eexists; eexists; split; [reflexivity|left; reflexivity].
Qed.

(* ---------- the criterion ---------- *)

Lemma grp_disj_sound : forall spX gX spY gY c1 c2,
  grp_disj spX gX spY gY = true ->
  Forall (fun t => tok_ok spX t = true) gX -> Forall (fun t => tok_ok spY t = true) gY ->
  wf spX c1 -> wf spY c2 -> render gX c1 <> render gY c2.
Proof.
  intros spX gX spY gY c1 c2 D FX FY W1 W2 E. unfold grp_disj in D.
  destruct gY as [|tY rY]; [discriminate D|]. inversion FY; subst.
  destruct (tfirst spY tY) as [|f0 F] eqn:TF; [discriminate D|].
  destruct (tfirst_sound spY c2 tY H1 W2) as (b & r & Eb & Hb); [rewrite TF; discriminate|].
  rewrite TF in Hb. rewrite forallb_forall in D. specialize (D b Hb). apply negb_true_iff in D.
  pose proof (galpha_render spX c1 gX W1 FX) as G. rewrite E in G. cbn [render] in G. rewrite Eb in G.
  cbn [app forallb] in G. apply andb_prop in G as [G _]. congruence.
Qed.

Lemma zip_disj_sound : forall spA spB c1 c2 gA gB,
  zip_disj spA gA spB gB = true ->
  Forall (fun g => Forall (fun t => tok_ok spA t = true) g) gA ->
  Forall (fun g => Forall (fun t => tok_ok spB t = true) g) gB ->
  wf spA c1 -> wf spB c2 ->
  map (fun g => render g c1) gA <> map (fun g => render g c2) gB.
Proof.
  intros spA spB c1 c2. induction gA as [|a ra IH]; intros [|b rb] Z FA FB W1 W2 E; cbn [zip_disj] in Z;
    try discriminate Z.
  cbn [map] in E. injection E as E1 E2. inversion FA; inversion FB; subst.
  apply orb_prop in Z as [Z|Z]; [apply orb_prop in Z as [Z|Z]|].
  - exact (grp_disj_sound _ _ _ _ _ _ Z H1 H5 W1 W2 E1).
  - exact (grp_disj_sound _ _ _ _ _ _ Z H5 H1 W2 W1 (eq_sym E1)).
  - exact (IH rb Z H2 H6 W1 W2 E2).
Qed.

Theorem xdisjoint_sound : forall spA spB, xdisjoint spA spB = true ->
  forall c1 c2, wf spA c1 -> wf spB c2 -> preimage spA c1 <> preimage spB c2.
Proof.
  unfold xdisjoint, preimage, slash_ok. intros spA spB H c1 c2 W1 W2 E.
  apply andb_prop in H as [H D]. apply andb_prop in H as [SA SB].
  fold (tok_good spA) in SA. fold (tok_good spB) in SB.
  apply (f_equal split47) in E. rewrite (split_render _ _ _ W1 SA), (split_render _ _ _ W2 SB) in E.
  apply orb_prop in D as [D|D].
  - apply negb_true_iff in D. apply Nat.eqb_neq in D. apply D.
    apply (f_equal (@List.length bytes)) in E. rewrite !map_length in E. exact E.
  - exact (zip_disj_sound _ _ _ _ _ _ D (groups_ok _ _ SA) (groups_ok _ _ SB) W1 W2 E).
Qed.

Lemma all_xdisjoint_sound : forall l, all_xdisjoint l = true ->
  forall a b, In a l -> In b l -> s_name a <> s_name b ->
  forall c1 c2, wf a c1 -> wf b c2 -> preimage a c1 <> preimage b c2.
Proof.
  unfold all_xdisjoint. intros l H a b Ha Hb N. rewrite forallb_forall in H. specialize (H a Ha).
  rewrite forallb_forall in H. specialize (H b Hb). apply orb_prop in H as [H|H].
  - apply String.eqb_eq in H. contradiction.
  - apply xdisjoint_sound. exact H.
Qed.

(* the six formats of the current source *)
Lemma gen_all_xdisjoint : all_xdisjoint Gen_all = true.
Proof. vm_compute. reflexivity. Qed.

Theorem cross_type_distinct : forall a b, In a Gen_all -> In b Gen_all -> s_name a <> s_name b ->
  forall c1 c2, wf a c1 -> wf b c2 -> preimage a c1 <> preimage b c2.
Proof. exact (all_xdisjoint_sound Gen_all gen_all_xdisjoint). Qed.

(* ---------- all six types in one attestation store ---------- *)

Lemma gen_all_injective : forall sp, In sp Gen_all -> injective sp.
Proof.
  assert (H : forallb check_fmt Gen_all = true) by (vm_compute; reflexivity).
  intros sp Hs. rewrite forallb_forall in H. apply check_fmt_sound. auto.
Qed.

Lemma gen_names_unique : forall a b, In a Gen_all -> In b Gen_all -> s_name a = s_name b -> a = b.
Proof.
  intros a b Ha Hb N. unfold Gen_all in Ha, Hb. cbn [In] in Ha, Hb.
  repeat (destruct Ha as [Ha|Ha]; [|]); try contradiction; subst a;
    repeat (destruct Hb as [Hb|Hb]; [|]); try contradiction; subst b;
    try reflexivity; exfalso; vm_compute in N; discriminate N.
Qed.

(* a typed claim: the spec of its type and its fields *)
Definition tclaim := (spec * claim)%type.
Definition t_nonce (tc : tclaim) : Z := c_nonce (snd tc).
Definition t_key (tc : tclaim) : bytes := preimage (fst tc) (snd tc).
Definition t_valid (tc : tclaim) : Prop := In (fst tc) Gen_all /\ wf (fst tc) (snd tc).
Definition t_payload (tc : tclaim) : string * list fval := (s_name (fst tc), relevant (fst tc) (snd tc)).

Lemma key_determines_typed_payload : forall t1 t2, t_valid t1 -> t_valid t2 -> t_key t1 = t_key t2 ->
  t_payload t1 = t_payload t2.
Proof.
  intros [s1 c1] [s2 c2] [I1 W1] [I2 W2] K. unfold t_key, t_payload in *. cbn [fst snd] in *.
  destruct (string_dec (s_name s1) (s_name s2)) as [N|N].
  - pose proof (gen_names_unique _ _ I1 I2 N). subst s2. f_equal. apply gen_all_injective; auto.
  - exfalso. exact (cross_type_distinct _ _ I1 I2 N _ _ W1 W2 K).
Qed.

Theorem executed_is_voted_all_types : forall power required ops o tc st' e,
  Forall (fun oc => t_valid (snd oc)) ops -> t_valid tc ->
  vote tclaim t_nonce t_key power required
       (fst (run tclaim t_nonce t_key power required (init tclaim) ops)) o tc = (st', Executed e) ->
  e = tc /\
  exists a, In a (atts tclaim st') /\ a_observed tclaim a = true /\ In (o, tc) (a_votes tclaim a) /\
            forall o' tc', In (o', tc') (a_votes tclaim a) -> t_payload tc' = t_payload e.
Proof.
  intros power required ops o tc st' e A V H.
  apply (executed_is_voted tclaim t_nonce t_key power required (string * list fval) t_payload t_valid
           key_determines_typed_payload) with (ops := ops); auto.
Qed.
