(* Proofs for property C12: checkpoint layout (Go vs tron vs Solidity, from the generated tables),
   separation of pre-images, the confirm acceptance rule and its history invariants. *)
From Coq Require Import ZArith List Bool Lia.
From Coq Require String.
Import String.StringSyntax.
From FxV Require Import model.M_Abi model.M_CkDesc model.M_Confirm proofs.P_Abi gen.Gen_Checkpoint.
Import ListNotations.
Open Scope Z_scope.

(* ================= numbers ================= *)

Lemma two_facts : two64 = 2 * two63 /\ 0 < two63 /\ two64 < two256 /\ two160 < two256 /\ 256 < two256.
Proof. repeat split; reflexivity. Qed.

Lemma go_u64_val : forall x, is_u64 x ->
  go_u64 x = if x <? two63 then x else x - two64 + two256.
Proof.
  unfold is_u64, go_u64, cast_i64. intros x H. destruct two_facts as (A & B & C & _).
  destruct (x <? two63) eqn:E.
  - apply Z.ltb_lt in E. apply Z.mod_small. lia.
  - apply Z.ltb_ge in E. symmetry. apply Z.mod_unique with (q := -1); lia.
Qed.

Lemma go_u64_small : forall x, 0 <= x < two63 -> go_u64 x = x.
Proof.
  intros x H. destruct two_facts as (A & B & C & _). rewrite go_u64_val by (unfold is_u64; lia).
  destruct (x <? two63) eqn:E; auto. apply Z.ltb_ge in E. lia.
Qed.

Lemma go_u64_range : forall x, in_range two256 (go_u64 x).
Proof. intros. unfold go_u64, in_range. apply Z.mod_pos_bound. reflexivity. Qed.

Lemma go_u64_inj : forall x y, is_u64 x -> is_u64 y -> go_u64 x = go_u64 y -> x = y.
Proof.
  intros x y Hx Hy. rewrite !go_u64_val by assumption. unfold is_u64 in *.
  destruct two_facts as (A & B & C & _).
  destruct (x <? two63) eqn:E; destruct (y <? two63) eqn:F;
    try apply Z.ltb_lt in E; try apply Z.ltb_ge in E; try apply Z.ltb_lt in F; try apply Z.ltb_ge in F; lia.
Qed.

(* int64(x) differs from x exactly from 2^63 on *)
Lemma go_u64_fix : forall x, is_u64 x -> (go_u64 x = x <-> x < two63).
Proof.
  intros x H. rewrite go_u64_val by assumption. unfold is_u64 in H. destruct two_facts as (A & B & C & _).
  destruct (x <? two63) eqn:E; [apply Z.ltb_lt in E | apply Z.ltb_ge in E]; split; intros; lia.
Qed.

Lemma be_val_range : forall l, Forall is_byte l -> 0 <= be_val l < 256 ^ zlen l.
Proof.
  intros l. induction l as [|b l IH] using rev_ind; intros F.
  - unfold be_val, zlen. simpl. lia.
  - apply Forall_app in F. destruct F as [F1 F2]. inversion F2; subst. unfold is_byte in *.
    rewrite be_val_snoc. unfold zlen in *. rewrite app_length, Nat2Z.inj_add. simpl length.
    rewrite Z.pow_add_r by lia. specialize (IH F1). change (256 ^ Z.of_nat 1) with 256.
    set (P := 256 ^ Z.of_nat (length l)) in *. lia.
Qed.

Lemma firstn_In {A} : forall n (l : list A) x, In x (firstn n l) -> In x l.
Proof.
  induction n; intros [|y l] x H; simpl in *; try contradiction. destruct H; auto.
Qed.

Lemma b32_range : forall s, Forall is_byte s -> in_range two256 (b32_of_bytes s).
Proof.
  intros s F. unfold b32_of_bytes, in_range.
  assert (L : length (firstn 32 (s ++ repeat 0 32)) = 32%nat).
  { rewrite firstn_length, app_length, repeat_length. lia. }
  assert (B : Forall is_byte (firstn 32 (s ++ repeat 0 32))).
  { apply Forall_forall. intros x Hx. apply firstn_In in Hx. apply in_app_or in Hx. destruct Hx as [Hx|Hx].
    - rewrite Forall_forall in F. auto.
    - apply repeat_spec in Hx. subst. unfold is_byte. lia. }
  pose proof (be_val_range _ B) as R. unfold zlen in R. rewrite L in R. exact R.
Qed.

(* ================= well-typedness of the argument tuples ================= *)

Lemma Forall_map_range {A} : forall (f : A -> Z) (P : A -> Prop) b l,
  (forall x, P x -> in_range b (f x)) -> Forall P l -> Forall (in_range b) (map f l).
Proof. intros. induction H0; simpl; constructor; auto. Qed.

Lemma zlen_map {A B} : forall (f : A -> B) l, zlen (map f l) = zlen l.
Proof. intros. unfold zlen. rewrite map_length. reflexivity. Qed.

Lemma u64v_range : forall c x, is_u64 x -> in_range two256 (u64v c x).
Proof.
  intros [] x H; simpl. apply go_u64_range.
  unfold is_u64, in_range in *. destruct two_facts as (A & B & C & _). lia.
Qed.

Lemma addr_range : forall x, is_addr x -> in_range two160 x.
Proof. auto. Qed.

Theorem ck_args_wt : forall (cast : casts) gid o, wf_gid gid -> wf_obj o -> wt_args (ck_args cast gid o).
Proof.
  intros cast gid o [G _] W. pose proof (b32_range _ G) as RG.
  assert (RT : forall k, in_range two256 (tag_of k)) by (intros []; vm_compute; split; congruence).
  unfold wt_args. destruct o as [s|b|c]; cbn [ck_args wf_obj] in *;
    repeat (apply Forall_cons || apply Forall_nil); cbn [fst snd wt w32 wu wa au aa bb sbound]; auto;
    try (apply u64v_range; tauto); try tauto.
  - destruct W as (_ & F & L). split; [|rewrite zlen_map; auto].
    eapply Forall_map_range; [|exact F]. intros x Hx. apply Hx.
  - destruct W as (_ & F & L). split; [|rewrite zlen_map; auto].
    eapply Forall_map_range; [|exact F]. intros x Hx. apply u64v_range. apply Hx.
  - destruct W as (_ & _ & _ & _ & F & L). split; [|rewrite zlen_map; auto].
    eapply Forall_map_range; [|exact F]. intros x Hx. apply Hx.
  - destruct W as (_ & _ & _ & _ & F & L). split; [|rewrite zlen_map; auto].
    eapply Forall_map_range; [|exact F]. intros x Hx. apply Hx.
  - destruct W as (_ & _ & _ & _ & F & L). split; [|rewrite zlen_map; auto].
    eapply Forall_map_range; [|exact F]. intros x Hx. apply Hx.
  - destruct W as (_ & _ & _ & F & L & _). split; [|rewrite zlen_map; auto].
    eapply Forall_map_range; [|exact F]. intros x Hx. apply Hx.
  - destruct W as (_ & _ & _ & F & L & _). split; [|rewrite zlen_map; auto].
    eapply Forall_map_range; [|exact F]. intros x Hx. apply Hx.
Qed.

Lemma ck_args_sig : forall c c' g g' o o', kind_of o = kind_of o' ->
  sig_of (ck_args c g o) = sig_of (ck_args c' g' o').
Proof. intros c c' g g' [] [] H; try discriminate; reflexivity. Qed.

(* component i of an equality between argument tuples (injection on the whole tuple is slow) *)
Ltac nth_eq H i Hn :=
  pose proof (f_equal (fun l => nth_error l i) H) as Hn; cbn [nth_error] in Hn; injection Hn as Hn.

(* ================= Go vs Solidity: the int64 cast ================= *)

Lemma u64v_small_eq : forall c x, 0 <= x < two63 -> u64v c x = x.
Proof. intros [] x H; simpl; auto. apply go_u64_small; auto. Qed.

Lemma map_u64v_small {A} : forall c (f : A -> Z) l,
  Forall (fun m => 0 <= f m < two63) l -> map (fun m => u64v c (f m)) l = map (fun m => u64v false (f m)) l.
Proof.
  intros c f l F. induction F; simpl; auto. f_equal; auto. apply u64v_small_eq. assumption.
Qed.

(* whatever subset of the uint64 fields the Go code casts *)
Theorem ck_args_small : forall cs gid o, wf_obj o -> u64_small o ->
  ck_args cs gid o = sol_checkpoint_args gid o.
Proof.
  unfold sol_checkpoint_args. intros cs gid [s|b|c] W S; cbn [ck_args wf_obj u64_small nocast all_casts
    k_set_nonce k_set_power k_b_nonce k_b_timeout k_c_nonce k_c_timeout k_c_evn] in *.
  - destruct W as ([N0 _] & F & _). destruct S as [N FS].
    assert (E : map (fun m : Z * Z => u64v (k_set_power cs) (snd m)) (os_members s) = map (fun m => u64v false (snd m)) (os_members s)).
    { apply map_u64v_small. rewrite Forall_forall in *. intros x Hx. specialize (F x Hx). specialize (FS x Hx).
      destruct F as [_ [U _]]. lia. }
    rewrite E. rewrite !u64v_small_eq by lia. reflexivity.
  - destruct W as ([N0 _] & [T0 _] & _). destruct S as [N T].
    rewrite !u64v_small_eq by lia. reflexivity.
  - destruct W as (_ & _ & _ & _ & _ & _ & _ & _ & _ & [N0 _] & [T0 _] & [E0 _]). destruct S as (N & T & E).
    rewrite !u64v_small_eq by lia. reflexivity.
Qed.

Theorem layout_agrees_small : forall tron gid o, wf_obj o -> u64_small o ->
  go_preimage tron gid o = sol_preimage gid o.
Proof. intros. unfold go_preimage, sol_preimage, go_checkpoint_args. rewrite ck_args_small; auto. Qed.

Lemma u64v_fix : forall c x, is_u64 x -> (u64v c x = x <-> (c = true -> x < two63)).
Proof.
  intros [] x H; cbn [u64v].
  - rewrite go_u64_fix by assumption. split; auto.
  - split; auto. intros _ E. discriminate E.
Qed.

Lemma map_u64v_fix {A} : forall c (f : A -> Z) l,
  Forall (fun m => is_u64 (f m)) l ->
  (map (fun m => u64v c (f m)) l = map (fun m => u64v false (f m)) l <-> (c = true -> Forall (fun m => f m < two63) l)).
Proof.
  intros c f l F. induction F as [|x l Hx F IH]; cbn [map].
  - split; auto.
  - split.
    + intros E Hc. injection E as E1 E2. constructor.
      * apply (proj1 (u64v_fix c _ Hx)); auto.
      * apply IH; auto.
    + intros H. f_equal.
      * apply (proj2 (u64v_fix c _ Hx)). intros Hc. specialize (H Hc). inversion H; auto.
      * apply IH. intros Hc. specialize (H Hc). inversion H; auto.
Qed.

(* ... and only then: the Go pre-image equals the contract's exactly when no uint64 field that the Go
   code casts is >= 2^63 *)
Theorem layout_agrees_iff : forall cs gid o, wf_gid gid -> wf_obj o ->
  (encode (ck_args cs gid o) = sol_preimage gid o <-> u64_small_cs cs o).
Proof.
  intros cs gid o G W. unfold sol_preimage, sol_checkpoint_args.
  assert (A : encode (ck_args cs gid o) = encode (ck_args nocast gid o) <-> ck_args cs gid o = ck_args nocast gid o).
  { split; [|intros ->; reflexivity]. intros H.
    apply encode_injective in H; auto; try (apply ck_args_wt; auto); apply ck_args_sig; reflexivity. }
  rewrite A. clear A.
  destruct o as [s|b|c]; cbn [ck_args wf_obj u64_small_cs nocast all_casts
    k_set_nonce k_set_power k_b_nonce k_b_timeout k_c_nonce k_c_timeout k_c_evn] in *.
  - destruct W as (N0 & F & _).
    assert (F' : Forall (fun m : Z * Z => is_u64 (snd m)) (os_members s)).
    { eapply Forall_impl; [|exact F]. intros a Ha. apply Ha. }
    rewrite <- (u64v_fix (k_set_nonce cs) _ N0). rewrite <- (map_u64v_fix (k_set_power cs) snd _ F'). split.
    + intros H. nth_eq H 2%nat HN. nth_eq H 4%nat HM. auto.
    + intros [HN HM]. cbn [u64v] in *. rewrite HN, HM. reflexivity.
  - destruct W as (N0 & T0 & _).
    rewrite <- (u64v_fix (k_b_nonce cs) _ N0), <- (u64v_fix (k_b_timeout cs) _ T0). split.
    + intros H. nth_eq H 5%nat HN. nth_eq H 7%nat HT. auto.
    + intros [HN HT]. cbn [u64v] in *. rewrite HN, HT. reflexivity.
  - destruct W as (_ & _ & _ & _ & _ & _ & _ & _ & _ & N0 & T0 & E0).
    rewrite <- (u64v_fix (k_c_nonce cs) _ N0), <- (u64v_fix (k_c_timeout cs) _ T0), <- (u64v_fix (k_c_evn cs) _ E0). split.
    + intros H. nth_eq H 9%nat HN. nth_eq H 10%nat HT. nth_eq H 11%nat HE. auto.
    + intros (HN & HT & HE). cbn [u64v] in *. rewrite HN, HT, HE. reflexivity.
Qed.

Definition ex_big_set : obj := OSet {| os_nonce := two63; os_members := [] |}.

(* wherever the oracle-set nonce goes through int64(.), the full agreement is false *)
Theorem uint64_cast_refuted : forall cs, k_set_nonce cs = true ->
  exists gid o, wf_gid gid /\ wf_obj o /\ encode (ck_args cs gid o) <> sol_preimage gid o.
Proof.
  intros cs Hc. exists [], ex_big_set. split; [|split].
  - split. constructor. vm_compute. congruence.
  - unfold wf_obj, ex_big_set. cbn [os_nonce os_members]. split; [|split].
    + split; vm_compute; congruence.
    + constructor.
    + vm_compute. reflexivity.
  - unfold sol_preimage, sol_checkpoint_args, ex_big_set. cbn [ck_args os_nonce os_members map]. rewrite Hc.
    intro H. vm_compute in H. discriminate H.
Qed.

(* on this tree it does (both in the eth-like and in the tron function) - stated as a boolean so that a
   repaired tree changes the value, not the provability, of anything in props/ *)
Definition tree_casts_set_nonce : bool := k_set_nonce (go_casts false) && k_set_nonce (go_casts true).

(* ================= the generated tables ================= *)

Definition table_args (t : option (list narg)) (gid : list Z) (o : obj) : option (list targ) :=
  match t with Some t => args_of_table gid o t | None => None end.

(* the hand-written Go argument tuple is the interpretation of the table generated from types.go + ABI JSON *)
Theorem go_args_from_table : forall gid o,
  table_args (norm_go_table (go_table (kind_of o))) gid o = Some (go_checkpoint_args false gid o).
Proof. intros gid [s|b|c]; cbv -[go_u64 b32_of_bytes map tag_of]; reflexivity. Qed.

Theorem tron_args_from_table : forall gid o,
  table_args (norm_go_table (tron_table (kind_of o))) gid o = Some (go_checkpoint_args true gid o).
Proof. intros gid [s|b|c]; cbv -[go_u64 b32_of_bytes map tag_of]; reflexivity. Qed.

Theorem sol_args_from_table : forall gid o,
  table_args (norm_sol_table (kind_of o) (sol_table (kind_of o))) gid o = Some (sol_checkpoint_args gid o).
Proof. intros gid [s|b|c]; cbv -[go_u64 b32_of_bytes map tag_of]; reflexivity. Qed.

(* same sources, same ABI types, same order; the only difference is the int64 cast on the Go side *)
Theorem tables_agree : forall k,
  option_map (map strip_cast) (norm_go_table (go_table k)) = norm_sol_table k (sol_table k)
  /\ option_map (map strip_cast) (norm_go_table (tron_table k)) = norm_sol_table k (sol_table k)
  /\ norm_sol_table k (sol_table k) <> None.
Proof. intros []; repeat split; try (vm_compute; reflexivity); vm_compute; discriminate. Qed.

Theorem strip_is_selector : go_strip = [4; 4; 4].
Proof. reflexivity. Qed.

Theorem sig_prefix_agrees : go_sig_prefix = sol_sig_prefix /\ List.length go_sig_prefix = 28%nat.
Proof. split; reflexivity. Qed.

(* a table row that interprets with the cast interprets to the same argument without it
   when the uint64 fields are small: agreement of the tables alone gives agreement of the bytes *)
Lemma interp_strip : forall gid o n a, wf_obj o -> u64_small o ->
  interp_row gid o n = Some a -> interp_row gid o (strip_cast n) = Some a.
Proof.
  intros gid o [[| z | c p | c coll p] t] a W S H; cbn [strip_cast] in *; auto.
  - destruct c; auto. unfold interp_row in *. cbn [fst snd] in *.
    destruct o as [s|b|x]; cbn [interp wf_obj u64_small] in *.
    + destruct (seqb p "Nonce"); [|discriminate]. cbn [u64v] in *.
      destruct W as ([? _] & _). destruct S as [? _]. rewrite go_u64_small in H by lia. exact H.
    + destruct W as ([? _] & [? _] & _). destruct S as [? ?].
      destruct (seqb p "BatchNonce"). { cbn [u64v] in *. rewrite go_u64_small in H by lia. exact H. }
      destruct (seqb p "BatchTimeout"). { cbn [u64v] in *. rewrite go_u64_small in H by lia. exact H. }
      destruct (seqb p "TokenContract"); [discriminate|]. destruct (seqb p "FeeReceive"); discriminate.
    + destruct W as (_ & _ & _ & _ & _ & _ & _ & _ & _ & [? _] & [? _] & [? _]). destruct S as (? & ? & ?).
      destruct (seqb p "Nonce"). { cbn [u64v] in *. rewrite go_u64_small in H by lia. exact H. }
      destruct (seqb p "Timeout"). { cbn [u64v] in *. rewrite go_u64_small in H by lia. exact H. }
      destruct (seqb p "EventNonce"). { cbn [u64v] in *. rewrite go_u64_small in H by lia. exact H. }
      discriminate.
  - destruct c; auto. unfold interp_row in *. cbn [fst snd] in *.
    destruct o as [s|b|x]; cbn [interp wf_obj u64_small] in *.
    + destruct (negb (seqb coll "Members")); [discriminate|].
      destruct (seqb p "ExternalAddress"); [discriminate|].
      destruct (seqb p "Power"); [|discriminate].
      destruct W as (_ & F & _). destruct S as [_ FS].
      rewrite <- (map_u64v_small true snd); [exact H|].
      rewrite Forall_forall in *. intros m Hm. specialize (F m Hm). specialize (FS m Hm). destruct F as [_ [? _]]. lia.
    + rewrite orb_true_r in H. discriminate.
    + rewrite orb_true_r in H. discriminate.
Qed.

Lemma all_some_map {A B} : forall (f g : A -> option B) l r,
  (forall x b, f x = Some b -> g x = Some b) -> all_some (map f l) = Some r -> all_some (map g l) = Some r.
Proof.
  induction l as [|x l IH]; intros r E H; simpl in *; auto.
  destruct (f x) eqn:Fx; [|discriminate]. rewrite (E _ _ Fx).
  destruct (all_some (map f l)) eqn:R; [|discriminate]. rewrite (IH _ E eq_refl). exact H.
Qed.

Theorem layout_agrees_from_tables : forall gid o tg ts r, wf_obj o -> u64_small o ->
  map strip_cast tg = ts ->
  args_of_table gid o tg = Some r -> args_of_table gid o ts = Some r.
Proof.
  intros gid o tg ts r W S <- H. unfold args_of_table in *. rewrite map_map.
  eapply all_some_map; [|exact H]. intros x b Hx. apply interp_strip; auto.
Qed.

(* ================= separation of pre-images ================= *)

Lemma tag_inj : forall k k', tag_of k = tag_of k' -> k = k'.
Proof. intros [] [] H; try reflexivity; vm_compute in H; discriminate H. Qed.

Lemma tag_range : forall k, in_range two256 (tag_of k).
Proof. intros []; vm_compute; split; congruence. Qed.

Lemma ck_args_head : forall (c : casts) gid o, exists rest,
  encode (ck_args c gid o) = word (b32_of_bytes gid) ++ word (tag_of (kind_of o)) ++ rest.
Proof.
  intros c gid [s|b|x]; cbn [ck_args kind_of]; unfold w32; apply encode_static_head2; reflexivity.
Qed.

Lemma preimage_kind : forall (c c' : casts) g g' o o', wf_gid g -> wf_gid g' ->
  encode (ck_args c g o) = encode (ck_args c' g' o') ->
  b32_of_bytes g = b32_of_bytes g' /\ kind_of o = kind_of o'.
Proof.
  intros c c' g g' o o' [G _] [G' _] H.
  destruct (ck_args_head c g o) as [r E]. destruct (ck_args_head c' g' o') as [r' E'].
  rewrite E, E' in H.
  destruct (app_eq_len _ _ _ _ (eq_trans (word_length _) (eq_sym (word_length _))) H) as [H1 H2].
  destruct (app_eq_len _ _ _ _ (eq_trans (word_length _) (eq_sym (word_length _))) H2) as [H3 _].
  split.
  - apply word_inj; auto; apply b32_range; auto.
  - apply tag_inj. apply word_inj; auto; apply tag_range.
Qed.

Lemma u64v_inj : forall c x y, is_u64 x -> is_u64 y -> u64v c x = u64v c y -> x = y.
Proof. intros [] x y Hx Hy E; cbn [u64v] in E; auto. apply go_u64_inj; auto. Qed.

Lemma pairs_eq_cast : forall c (a b : list (Z * Z)),
  Forall (fun m => is_u64 (snd m)) a -> Forall (fun m => is_u64 (snd m)) b ->
  map fst a = map fst b -> map (fun m => u64v c (snd m)) a = map (fun m => u64v c (snd m)) b -> a = b.
Proof.
  induction a as [|[x y] a IH]; intros [|[x' y'] b] Fa Fb H1 H2; cbn [map fst snd] in *; try discriminate; auto.
  injection H1 as -> H1. injection H2 as E H2. inversion Fa; inversion Fb; subst. cbn [snd] in *.
  apply u64v_inj in E; auto. subst. f_equal. auto.
Qed.

Lemma pairs_eq : forall (a b : list (Z * Z)), map fst a = map fst b -> map snd a = map snd b -> a = b.
Proof.
  induction a as [|[x y] a IH]; intros [|[x' y'] b] H1 H2; simpl in *; try discriminate; auto.
  injection H1 as -> H1. injection H2 as -> H2. f_equal. auto.
Qed.

Lemma transfers_eq : forall (a b : list transfer),
  map tx_amount a = map tx_amount b -> map tx_dest a = map tx_dest b -> map tx_fee a = map tx_fee b -> a = b.
Proof.
  induction a as [|[x y z] a IH]; intros [|[x' y' z'] b] H1 H2 H3; simpl in *; try discriminate; auto.
  injection H1 as -> H1. injection H2 as -> H2. injection H3 as -> H3. f_equal. auto.
Qed.

(* what fxcore hashes for (gravity id, object) determines the gravity id word, the kind (method tag)
   and every field of the object: a signature over one tuple is a signature over no other tuple
   unless keccak collides *)
Theorem ck_preimage_injective : forall cs g g' o o',
  wf_gid g -> wf_gid g' -> wf_obj o -> wf_obj o' ->
  encode (ck_args cs g o) = encode (ck_args cs g' o') -> b32_of_bytes g = b32_of_bytes g' /\ o = o'.
Proof.
  intros cs g g' o o' G G' W W' H.
  destruct (preimage_kind _ _ _ _ _ _ G G' H) as [EG EK]. split; auto.
  apply encode_injective in H; try (apply ck_args_wt; auto); try (apply ck_args_sig; auto).
  destruct o as [s|b|c]; destruct o' as [s'|b'|c']; try discriminate EK; cbn [ck_args wf_obj] in *.
  - destruct s as [n m], s' as [n' m']. cbn [os_nonce os_members] in *.
    nth_eq H 2%nat HN. nth_eq H 3%nat HA. nth_eq H 4%nat HP.
    destruct W as (N0 & F & _), W' as (N0' & F' & _).
    apply u64v_inj in HN; auto. subst.
    f_equal. f_equal. apply (pairs_eq_cast (k_set_power cs)); auto; eapply Forall_impl; try eassumption; intros a Ha; apply Ha.
  - destruct b as [n t txs tok fr], b' as [n' t' txs' tok' fr']. cbn [b_nonce b_timeout b_txs b_token b_feerecv] in *.
    nth_eq H 2%nat H1. nth_eq H 3%nat H2. nth_eq H 4%nat H3. nth_eq H 5%nat HN.
    nth_eq H 6%nat HK. nth_eq H 7%nat HT. nth_eq H 8%nat HF.
    destruct W as (N0 & T0 & _), W' as (N0' & T0' & _).
    apply u64v_inj in HN; auto. apply u64v_inj in HT; auto. subst.
    f_equal. f_equal. apply transfers_eq; auto.
  - destruct c as [a1 a2 tk a3 d m n t e], c' as [a1' a2' tk' a3' d' m' n' t' e'].
    cbn [c_sender c_refund c_tokens c_to c_data c_memo c_nonce c_timeout c_event_nonce] in *.
    nth_eq H 2%nat H1. nth_eq H 3%nat H2. nth_eq H 4%nat H3. nth_eq H 5%nat H4. nth_eq H 6%nat H5.
    nth_eq H 7%nat H6. nth_eq H 8%nat H7. nth_eq H 9%nat H8. nth_eq H 10%nat H9. nth_eq H 11%nat H10.
    destruct W as (_ & _ & _ & _ & _ & _ & _ & _ & _ & N0 & T0 & E0).
    destruct W' as (_ & _ & _ & _ & _ & _ & _ & _ & _ & N0' & T0' & E0').
    apply u64v_inj in H8; auto. apply u64v_inj in H9; auto. apply u64v_inj in H10; auto. subst.
    f_equal. f_equal. apply pairs_eq; auto.
Qed.

Theorem go_preimage_injective : forall tron g g' o o',
  wf_gid g -> wf_gid g' -> wf_obj o -> wf_obj o' ->
  go_preimage tron g o = go_preimage tron g' o' -> b32_of_bytes g = b32_of_bytes g' /\ o = o'.
Proof. intros tron. unfold go_preimage, go_checkpoint_args. apply ck_preimage_injective. Qed.

Corollary go_preimage_separates : forall tron g g' o o',
  wf_gid g -> wf_gid g' -> wf_obj o -> wf_obj o' ->
  (b32_of_bytes g <> b32_of_bytes g' \/ o <> o') -> go_preimage tron g o <> go_preimage tron g' o'.
Proof.
  intros tron g g' o o' G G' W W' D E. destruct (go_preimage_injective _ _ _ _ _ G G' W W' E) as [E1 E2].
  destruct D; contradiction.
Qed.

(* gravity ids without NUL bytes are determined by their bytes32 image *)
Lemma be_val_inj_len : forall a b, length a = length b -> Forall is_byte a -> Forall is_byte b ->
  be_val a = be_val b -> a = b.
Proof.
  intros a. induction a as [|x a IH] using rev_ind; intros b L Fa Fb E.
  - destruct b; [reflexivity|discriminate].
  - destruct b as [|y b _] using rev_ind. { rewrite app_length in L. simpl in L. lia. }
    rewrite !app_length in L. simpl in L.
    apply Forall_app in Fa. destruct Fa as [Fa Fx]. apply Forall_app in Fb. destruct Fb as [Fb Fy].
    inversion Fx; inversion Fy; subst. unfold is_byte in *.
    rewrite !be_val_snoc in E.
    assert (x = y /\ be_val a = be_val b) as [-> E'] by lia.
    f_equal. apply IH; auto. lia.
Qed.

Lemma firstn_pad_inj : forall (a b : list Z) n m m',
  (length a <= n)%nat -> (length b <= n)%nat -> (n <= length a + m)%nat -> (n <= length b + m')%nat ->
  ~ In 0 a -> ~ In 0 b ->
  firstn n (a ++ repeat 0 m) = firstn n (b ++ repeat 0 m') -> a = b.
Proof.
  induction a as [|x a IH]; intros [|y b] n m m' La Lb Ma Mb Na Nb H; cbn [length app] in *.
  - reflexivity.
  - exfalso. destruct n; [lia|]. destruct m; [lia|]. cbn [repeat firstn] in H. injection H as H _.
    apply Nb. left. auto.
  - exfalso. destruct n; [lia|]. destruct m'; [lia|]. cbn [repeat firstn] in H. injection H as H _.
    apply Na. left. auto.
  - destruct n; [lia|]. cbn [firstn] in H. injection H as -> H. f_equal.
    apply (IH b n m m'); try lia; auto; intro I; [apply Na|apply Nb]; right; exact I.
Qed.

Theorem gravity_id_injective : forall g g', wf_gid g -> wf_gid g' -> ~ In 0 g -> ~ In 0 g' ->
  b32_of_bytes g = b32_of_bytes g' -> g = g'.
Proof.
  intros g g' [F L] [F' L'] N N' H. unfold b32_of_bytes in H. unfold zlen in *.
  assert (Z0 : Forall is_byte (repeat 0 32)).
  { apply Forall_forall. intros x Hx. apply repeat_spec in Hx. subst. unfold is_byte. lia. }
  apply be_val_inj_len in H.
  - apply (firstn_pad_inj g g' 32%nat 32%nat 32%nat); auto; lia.
  - rewrite !firstn_length, !app_length, !repeat_length. lia.
  - apply Forall_forall. intros x Hx. apply firstn_In in Hx. apply in_app_or in Hx. rewrite Forall_forall in F, Z0. destruct Hx; auto.
  - apply Forall_forall. intros x Hx. apply firstn_In in Hx. apply in_app_or in Hx. rewrite Forall_forall in F', Z0. destruct Hx; auto.
Qed.

(* ================= confirm handling ================= *)

Lemma kind_eqb_eq : forall a b, kind_eqb a b = true <-> a = b.
Proof. intros [] []; simpl; split; intros; try reflexivity; try discriminate. Qed.

Lemma okey_eqb_eq : forall a b, okey_eqb a b = true <-> a = b.
Proof.
  intros [[k t] n] [[k' t'] n']. unfold okey_eqb. rewrite !andb_true_iff, kind_eqb_eq, !Z.eqb_eq.
  split. intros [[-> ->] ->]; auto. intros H; injection H as -> -> ->; auto.
Qed.

Lemma ckey_eqb_eq : forall a b, ckey_eqb a b = true <-> a = b.
Proof.
  intros [o a] [o' a']. unfold ckey_eqb. cbn [fst snd]. rewrite andb_true_iff, okey_eqb_eq, Z.eqb_eq.
  split. intros [-> ->]; auto. intros H; injection H as -> ->; auto.
Qed.

Lemma ckey_eqb_refl : forall a, ckey_eqb a a = true.
Proof. intros. apply ckey_eqb_eq. reflexivity. Qed.

Lemma assoc_none_notin {V} : forall k (l : list (ckey * V)), assoc ckey_eqb k l = None -> ~ In k (map fst l).
Proof.
  induction l as [|[k' v] l IH]; simpl; intros H; auto.
  destruct (ckey_eqb k k') eqn:E; [discriminate|]. intros [->|I]; [|apply IH; auto].
  rewrite ckey_eqb_refl in E. discriminate.
Qed.

Lemma assoc_in {V} : forall k (v : V) l, assoc ckey_eqb k l = Some v -> In (k, v) l.
Proof.
  induction l as [|[k' v'] l IH]; simpl; intros H; [discriminate|].
  destruct (ckey_eqb k k') eqn:E; [|right; auto]. apply ckey_eqb_eq in E. injection H as ->. subst. left; auto.
Qed.

Lemma filter_absent {V} : forall k (l : list (ckey * V)), ~ In k (map fst l) ->
  filter (fun p => negb (ckey_eqb k (fst p))) l = l.
Proof.
  induction l as [|[k' v] l IH]; simpl; intros N; auto.
  destruct (ckey_eqb k k') eqn:E.
  - apply ckey_eqb_eq in E. subst. exfalso. apply N. left; auto.
  - simpl. f_equal. apply IH. intro I. apply N. right; auto.
Qed.

Section ConfirmProofs.
  Variable recover : bool -> list Z -> list Z -> option Z.

  (* the acceptance rule, exactly *)
  Theorem handle_accept_iff : forall st m k,
    handle recover st m = Accepted k <-> accept_rule recover st m k.
  Proof.
    intros st m k. unfold handle, accept_rule. split.
    - intros H.
      destruct (assoc okey_eqb (msg_okey m) (st_objs st)) as [o|] eqn:EO; [|discriminate].
      destruct (go_checkpoint (st_tron st) (st_gid st) o) as [pre|] eqn:EP; [|discriminate].
      destruct (m_sig m) as [sig|] eqn:ES; [|discriminate].
      destruct (assoc Z.eqb (m_external m) (st_ext_index st)) as [oa|] eqn:EI; [|discriminate].
      destruct (assoc Z.eqb oa (st_oracles st)) as [orc|] eqn:ER; [|discriminate].
      destruct (o_external orc =? m_external m) eqn:EE; [|discriminate]. cbn [negb] in H.
      destruct (o_bridger orc =? m_bridger m) eqn:EB; [|discriminate]. cbn [negb] in H.
      destruct (sig_signer recover (st_tron st) pre sig) as [a|] eqn:EG; [|discriminate].
      destruct (a =? o_external orc) eqn:EA; [|discriminate]. cbn [negb] in H.
      destruct (assoc ckey_eqb (msg_okey m, oa) (st_conf st)) eqn:ED; [discriminate|].
      injection H as <-. cbn [snd]. apply Z.eqb_eq in EE, EB, EA. subst a.
      exists o, pre, sig, orc. repeat split; auto.
    - intros (o & pre & sig & orc & EO & EP & ES & EI & ER & EE & EB & EG & ED & EK).
      rewrite EO, EP, ES, EI, ER. rewrite EE, EB, !Z.eqb_refl. cbn [negb]. rewrite EG, <- EE, Z.eqb_refl. cbn [negb].
      rewrite <- EK, ED. reflexivity.
  Qed.

  (* one confirm message: what can be in the store afterwards *)
  Theorem confirm_step_store : forall st m st' r,
    confirm_step recover st m = (st', r) ->
    (forall e, In e (st_conf st) -> In e (st_conf st')) /\
    (forall k c, In (k, c) (st_conf st') ->
       In (k, c) (st_conf st) \/ (r = Accepted k /\ c = m /\ accept_rule recover st m k)).
  Proof.
    intros st m st' r H. unfold confirm_step in H.
    destruct (handle recover st m) as [k0|e] eqn:EH; injection H as <- <-.
    - pose proof (proj1 (handle_accept_iff _ _ _) EH) as AR.
      assert (N : ~ In k0 (map fst (st_conf st))).
      { destruct AR as (? & ? & ? & ? & _ & _ & _ & _ & _ & _ & _ & _ & ED & _). apply assoc_none_notin in ED. exact ED. }
      cbn [with_conf st_conf]. unfold kv_set. rewrite filter_absent by exact N. split.
      + intros e He. right. exact He.
      + intros k c [E|I]. injection E as <- <-. right; auto. left; auto.
    - split; auto.
  Qed.

  Lemma NoDup_kv_set : forall k (v : cmsg) l, NoDup (map fst l) -> NoDup (map fst (kv_set ckey_eqb k v l)).
  Proof.
    intros k v l N. unfold kv_set. cbn [map fst]. constructor.
    - intro I. apply in_map_iff in I. destruct I as ([k' v'] & E & I). cbn [fst] in E. subst k'.
      apply filter_In in I. destruct I as [_ I]. cbn [fst] in I. rewrite ckey_eqb_refl in I. discriminate.
    - induction l as [|[k' v'] l IH]; simpl; [constructor|]. inversion N; subst.
      destruct (ckey_eqb k k'); simpl; auto. constructor; auto.
      intro I. apply H1. apply in_map_iff in I. destruct I as (p & E & I). apply filter_In in I.
      apply in_map_iff. exists p. tauto.
  Qed.

  Lemma NoDup_filter_keys : forall (f : ckey * cmsg -> bool) l, NoDup (map fst l) -> NoDup (map fst (filter f l)).
  Proof.
    induction l as [|p l IH]; simpl; intros N; [constructor|]. inversion N; subst.
    destruct (f p); simpl; auto. constructor; auto.
    intro I. apply H1. apply in_map_iff in I. destruct I as (q & E & I). apply filter_In in I.
    apply in_map_iff. exists q. tauto.
  Qed.

  Lemma step_nodup : forall st p, NoDup (map fst (st_conf st)) -> NoDup (map fst (st_conf (step recover st p))).
  Proof.
    intros st [m|tr g i os ob|keep] N; cbn [step].
    - unfold confirm_step. destruct (handle recover st m); cbn [fst with_conf st_conf]; auto.
      apply NoDup_kv_set. exact N.
    - exact N.
    - cbn [with_conf st_conf]. apply NoDup_filter_keys. exact N.
  Qed.

  (* at most one confirm per (object, oracle), after any operation list *)
  Theorem at_most_one_confirm : forall ops st,
    NoDup (map fst (st_conf st)) -> NoDup (map fst (st_conf (run recover ops st))).
  Proof.
    induction ops as [|p ops IH]; intros st N; cbn [run fold_left]; auto.
    apply IH. apply step_nodup. exact N.
  Qed.

  Lemma NoDup_keys_functional : forall (l : list (ckey * cmsg)) k c1 c2,
    NoDup (map fst l) -> In (k, c1) l -> In (k, c2) l -> c1 = c2.
  Proof.
    induction l as [|[k' c'] l IH]; intros k c1 c2 N I1 I2; [contradiction|].
    inversion N; subst. cbn [fst map] in *. destruct I1 as [E1|I1], I2 as [E2|I2].
    - congruence.
    - injection E1 as -> ->. exfalso. apply H1. apply in_map_iff. exists (k, c2). auto.
    - injection E2 as -> ->. exfalso. apply H1. apply in_map_iff. exists (k, c1). auto.
    - eauto.
  Qed.

  Corollary confirm_unique : forall ops st k c1 c2,
    NoDup (map fst (st_conf st)) ->
    In (k, c1) (st_conf (run recover ops st)) -> In (k, c2) (st_conf (run recover ops st)) -> c1 = c2.
  Proof.
    intros ops st k c1 c2 N I1 I2.
    exact (NoDup_keys_functional _ k c1 c2 (at_most_one_confirm ops st N) I1 I2).
  Qed.

  (* every stored confirm entered through an accepted confirm message, in a state in which the
     acceptance rule held for it *)
  Theorem stored_confirm_justified : forall ops st k c,
    In (k, c) (st_conf (run recover ops st)) ->
    In (k, c) (st_conf st) \/ exists st0, In (st0, c) (trace recover ops st) /\ accept_rule recover st0 c k.
  Proof.
    induction ops as [|p ops IH]; intros st k c I; cbn [run fold_left] in I; [left; exact I|].
    apply IH in I. destruct I as [I|(st0 & T & A)].
    - destruct p as [m|tr g i os ob|keep]; cbn [step] in I.
      + destruct (confirm_step recover st m) as [st' r] eqn:ES. cbn [fst] in I.
        destruct (confirm_step_store _ _ _ _ ES) as [_ B]. destruct (B _ _ I) as [J|(_ & -> & A)].
        * left; exact J.
        * right. exists st. split; [|exact A]. cbn [trace]. left. reflexivity.
      + left. exact I.
      + left. cbn [with_conf st_conf] in I. apply filter_In in I. tauto.
    - right. exists st0. split; [|exact A]. destruct p; cbn [trace]; auto. right. exact T.
  Qed.

  (* a stored confirm is never replaced by a later confirm message *)
  Theorem confirm_not_overwritten : forall st m e, In e (st_conf st) -> In e (st_conf (step recover st (OConfirm m))).
  Proof.
    intros st m e I. cbn [step]. destruct (confirm_step recover st m) as [st' r] eqn:ES.
    destruct (confirm_step_store _ _ _ _ ES) as [A _]. cbn [fst]. auto.
  Qed.

  (* -------- the transaction level -------- *)

  (* whoever signs: if a wrapped confirm either never reaches the handler (no UnpackInterfaces) or is compared
     with its wrapper (ValidateBasic), an accepted confirm was signed for by the oracle's bridger *)
  Theorem tx_signer_is_bridger : forall unpacks checks st s t k,
    (unpacks = false \/ checks = true) ->
    tx_deliver recover unpacks checks st s t = Accepted k ->
    exists orc, assoc Z.eqb (snd k) (st_oracles st) = Some orc /\ s = o_bridger orc.
  Proof.
    intros unpacks checks st s t k G H. unfold tx_deliver in H.
    destruct (s =? tx_signer t) eqn:ES; cbn [negb] in H; [|discriminate]. apply Z.eqb_eq in ES.
    assert (A : forall m, handle recover st m = Accepted k -> s = m_bridger m ->
                exists orc, assoc Z.eqb (snd k) (st_oracles st) = Some orc /\ s = o_bridger orc).
    { intros m Hm E. apply handle_accept_iff in Hm.
      destruct Hm as (o & pre & sig & orc & _ & _ & _ & _ & ER & _ & EB & _). exists orc. split; auto. congruence. }
    destruct t as [m|w m]; cbn [tx_signer] in ES.
    - apply (A m); auto.
    - destruct unpacks; cbn [negb] in H; [|discriminate].
      destruct G as [G|G]; [discriminate|]. subst checks. cbn [andb] in H.
      destruct (w =? m_bridger m) eqn:EW; cbn [negb] in H; [|discriminate]. apply Z.eqb_eq in EW.
      apply (A m); auto. congruence.
  Qed.
End ConfirmProofs.

(* ---------- concrete witnesses ---------- *)

Definition ex_set : obj := OSet {| os_nonce := 3; os_members := [(1001, 40); (1002, 60)] |}.
Definition ex_msg : cmsg :=
  {| m_kind := KOracleSet; m_token := 0; m_nonce := 3; m_bridger := 21; m_external := 31; m_sig := Some (repeat 1 65) |}.
Definition ex_state : cstate :=
  {| st_tron := false; st_gid := bytes_of_string "fx-gravity-id";
     st_ext_index := [(31, 11)]; st_oracles := [(11, {| o_bridger := 21; o_external := 31 |})];
     st_objs := [((KOracleSet, 0, 3), ex_set)]; st_conf := [] |}.
Definition rec_ok (tron : bool) (pre sig : list Z) : option Z := Some 31.
Definition rec_other (tron : bool) (pre sig : list Z) : option Z := Some 32.

(* this tree: a MsgConfirm decoded from bytes never carries its wrapped message, or it is compared *)
Theorem tree_wrapper_safe : negb msgconfirm_unpacks || msgconfirm_vb_compares_bridger = true.
Proof. reflexivity. Qed.

Theorem tx_signer_is_bridger_on_tree : forall recover st s t k,
  tx_deliver recover msgconfirm_unpacks msgconfirm_vb_compares_bridger st s t = Accepted k ->
  exists orc, assoc Z.eqb (snd k) (st_oracles st) = Some orc /\ s = o_bridger orc.
Proof.
  intros recover st s t k. apply tx_signer_is_bridger.
  pose proof tree_wrapper_safe as T. destruct msgconfirm_unpacks; [right|left; reflexivity]. exact T.
Qed.

(* LATENT (not reachable through a transaction on this tree): were the wrapped message made available to the
   handler (UnpackInterfaces) without the comparison, MsgConfirm{bridger_address: w, confirm: m} would be
   accepted although the signer w is not the oracle's bridger *)
Theorem wrapped_signer_latent :
  exists recover st s t k orc,
    tx_deliver recover true false st s t = Accepted k /\
    assoc Z.eqb (snd k) (st_oracles st) = Some orc /\ s <> o_bridger orc.
Proof.
  exists rec_ok, ex_state, 99, (TxWrapped 99 ex_msg), ((KOracleSet, 0, 3), 11), {| o_bridger := 21; o_external := 31 |}.
  split; [vm_compute; reflexivity|]. split; [reflexivity|]. cbn. lia.
Qed.

Theorem confirm_nonvacuous :
  handle rec_ok ex_state ex_msg = Accepted ((KOracleSet, 0, 3), 11) /\
  handle rec_other ex_state ex_msg = Rejected ESignature /\
  handle rec_ok (fst (confirm_step rec_ok ex_state ex_msg)) ex_msg = Rejected EDuplicate /\
  handle rec_ok ex_state {| m_kind := KOracleSet; m_token := 0; m_nonce := 4; m_bridger := 21; m_external := 31; m_sig := m_sig ex_msg |}
    = Rejected ENoObject /\
  handle rec_ok ex_state {| m_kind := KOracleSet; m_token := 0; m_nonce := 3; m_bridger := 22; m_external := 31; m_sig := m_sig ex_msg |}
    = Rejected EBridger /\
  handle rec_ok ex_state {| m_kind := KOracleSet; m_token := 0; m_nonce := 3; m_bridger := 21; m_external := 31; m_sig := Some (repeat 1 64) |}
    = Rejected ESignature /\
  wf_obj ex_set /\ u64_small ex_set /\ zlen (go_preimage false (st_gid ex_state) ex_set) = 352.
Proof.
  split; [vm_compute; reflexivity|]. split; [vm_compute; reflexivity|]. split; [vm_compute; reflexivity|].
  split; [vm_compute; reflexivity|]. split; [vm_compute; reflexivity|]. split; [vm_compute; reflexivity|].
  split; [|split; [|vm_compute; reflexivity]].
  - unfold wf_obj, ex_set. cbn [os_nonce os_members]. split; [split; vm_compute; congruence|]. split.
    + repeat constructor; cbn [fst snd]; vm_compute; congruence.
    + vm_compute. reflexivity.
  - unfold u64_small, ex_set. cbn [os_nonce os_members]. split; [vm_compute; reflexivity|].
    repeat constructor; cbn [snd]; vm_compute; reflexivity.
Qed.

(* ================= accepted confirms, the contract, and transplanted signatures ================= *)

Section Usable.
  Variable recover : bool -> list Z -> list Z -> option Z.

  (* what was verified is a signature over the very bytes the contract hashes: an accepted confirm for an
     object whose uint64 fields are below 2^63 recovers to the oracle's key over sol_preimage *)
  Theorem accepted_is_contract_digest : forall st m k,
    handle recover st m = Accepted k ->
    exists o sig orc,
      assoc okey_eqb (msg_okey m) (st_objs st) = Some o /\
      assoc Z.eqb (snd k) (st_oracles st) = Some orc /\
      m_sig m = Some sig /\
      (wf_obj o -> u64_small o ->
       sig_signer recover (st_tron st) (sol_preimage (st_gid st) o) sig = Some (o_external orc)).
  Proof.
    intros st m k H. apply handle_accept_iff in H.
    destruct H as (o & pre & sig & orc & EO & EP & ES & _ & ER & _ & _ & EG & _).
    exists o, sig, orc. repeat split; auto. intros W S.
    unfold go_checkpoint in EP. destruct (zlen (st_gid st) <=? 32); [|discriminate]. injection EP as <-.
    rewrite <- (layout_agrees_small (st_tron st)); auto.
  Qed.

  (* a signature that binds one pre-image (recover yields the key only on P0) is accepted only for the
     stored object and gravity id whose pre-image is P0: signatures made for another nonce, object, kind
     or gravity id are refused unless the pre-images coincide, which go_preimage_injective excludes *)
  Theorem no_transplant : forall st m k g0 o0 sig orc,
    handle recover st m = Accepted k ->
    m_sig m = Some sig ->
    assoc Z.eqb (snd k) (st_oracles st) = Some orc ->
    (forall P, sig_signer recover (st_tron st) P sig = Some (o_external orc) -> P = go_preimage (st_tron st) g0 o0) ->
    wf_gid g0 -> wf_obj o0 -> wf_gid (st_gid st) ->
    forall o, assoc okey_eqb (msg_okey m) (st_objs st) = Some o -> wf_obj o ->
    b32_of_bytes (st_gid st) = b32_of_bytes g0 /\ o = o0.
  Proof.
    intros st m k g0 o0 sig orc H ES ER B G0 W0 G o EO W.
    apply handle_accept_iff in H.
    destruct H as (o' & pre & sig' & orc' & EO' & EP & ES' & _ & ER' & _ & _ & EG & _).
    rewrite EO in EO'. injection EO' as <-. rewrite ES in ES'. injection ES' as <-.
    rewrite ER in ER'. injection ER' as <-.
    unfold go_checkpoint in EP. destruct (zlen (st_gid st) <=? 32); [|discriminate]. injection EP as <-.
    apply B in EG. apply go_preimage_injective in EG; auto.
  Qed.
End Usable.

(* ================= genesis export / import ================= *)

Lemma NoDup_fold_kv_set : forall (l : list (ckey * cmsg)) acc,
  NoDup (map fst acc) -> NoDup (map fst (fold_left (fun a e => kv_set ckey_eqb (fst e) (snd e) a) l acc)).
Proof.
  induction l as [|e l IH]; intros acc N; cbn [fold_left]; auto.
  apply IH. apply NoDup_kv_set. exact N.
Qed.

Lemma In_kv_set : forall k (v : cmsg) l e, In e (kv_set ckey_eqb k v l) -> e = (k, v) \/ In e l.
Proof.
  intros k v l e [H|H]; [left; auto|right]. apply filter_In in H. tauto.
Qed.

(* at most one confirm per key after an import, whatever was exported, whichever way the owner is resolved *)
Theorem import_nodup : forall by_ext st, NoDup (map fst (import_conf by_ext st)).
Proof.
  intros by_ext st. unfold import_conf.
  assert (G : forall (es : list (ckey * cmsg)) acc, NoDup (map fst acc) ->
            NoDup (map fst (fold_left (fun acc e =>
               fold_left (fun acc oa => kv_set ckey_eqb (msg_okey (snd e), oa) (snd e) acc)
                         (owners by_ext st (snd e)) acc) es acc))).
  { induction es as [|e es IH]; intros acc N; cbn [fold_left]; auto. apply IH.
    generalize (owners by_ext st (snd e)). intros os. revert acc N.
    induction os as [|oa os IHo]; intros acc N; cbn [fold_left]; auto.
    apply IHo. apply NoDup_kv_set. exact N. }
  apply G. constructor.
Qed.

(* generic: if every owner the import finds for a stored confirm is the oracle it is stored under, the import
   invents nothing and moves nothing *)
Definition owners_agree (by_ext : bool) (st : cstate) : Prop :=
  forall k m oa, In (k, m) (st_conf st) -> In oa (owners by_ext st m) -> k = (msg_okey m, oa).

Lemma import_sound_gen : forall by_ext st, owners_agree by_ext st ->
  forall e, In e (import_conf by_ext st) -> In e (st_conf st).
Proof.
  intros by_ext st B. unfold import_conf.
  assert (X : forall e, In e (exported st) -> In e (st_conf st)).
  { intros e H. apply filter_In in H. tauto. }
  assert (G : forall (es : list (ckey * cmsg)) acc,
            (forall e, In e es -> In e (st_conf st)) -> (forall e, In e acc -> In e (st_conf st)) ->
            forall e, In e (fold_left (fun acc e =>
               fold_left (fun acc oa => kv_set ckey_eqb (msg_okey (snd e), oa) (snd e) acc)
                         (owners by_ext st (snd e)) acc) es acc) -> In e (st_conf st)).
  { induction es as [|x es IH]; intros acc Hes Hacc e H; cbn [fold_left] in H; auto.
    apply (IH _ (fun e He => Hes e (or_intror He))) in H; auto. clear H e.
    assert (Hx : In x (st_conf st)) by (apply Hes; left; auto). destruct x as [k m]. cbn [snd] in *.
    assert (R : forall oa, In oa (owners by_ext st m) -> (msg_okey m, oa) = k).
    { intros oa Ho. symmetry. eapply B; eauto. }
    revert R Hacc. generalize (owners by_ext st m). intros os. revert acc.
    induction os as [|oa os IHo]; intros acc R Hacc e H; cbn [fold_left] in H; auto.
    apply IHo in H; auto.
    - intros oa' Ho. apply R. right. exact Ho.
    - intros e' He'. apply In_kv_set in He'. destruct He' as [->|He']; auto.
      rewrite (R oa (or_introl eq_refl)). exact Hx. }
  apply G; auto. intros e [].
Qed.

(* the tree as it is (owner by bridger): sound only while the bridger written in a stored confirm still resolves to
   the oracle the confirm is stored under, or to none *)
Definition bridgers_resolve_to_key (st : cstate) : Prop := owners_agree false st.

Theorem import_sound_by_bridger : forall st, bridgers_resolve_to_key st ->
  forall e, In e (import_conf false st) -> In e (st_conf st).
Proof. intros st. apply import_sound_gen. Qed.

(* the repaired variant (owner by external address): no condition on bridgers at all.  What it uses is the invariant
   the handlers establish - every stored confirm sits, under the key its own fields name, with an oracle whose
   registered external address is the one written in it - and that external addresses are registered once. *)
Definition conf_attributed (st : cstate) : Prop :=
  forall k m, In (k, m) (st_conf st) ->
    k = (msg_okey m, snd k) /\ exists o, In (snd k, o) (st_oracles st) /\ o_external o = m_external m.
Definition ext_unique (st : cstate) : Prop :=
  forall p q, In p (st_oracles st) -> In q (st_oracles st) -> o_external (snd p) = o_external (snd q) -> fst p = fst q.

Theorem import_sound_by_external : forall st, conf_attributed st -> ext_unique st ->
  forall e, In e (import_conf true st) -> In e (st_conf st).
Proof.
  intros st A U. apply import_sound_gen. intros k m oa Hk Ho.
  destruct (A k m Hk) as (EK & o & Io & Eo). rewrite EK. f_equal.
  unfold owners, resolve_ext in Ho.
  destruct (rev (filter (fun p => o_external (snd p) =? m_external m) (st_oracles st))) as [|p r] eqn:ER; [contradiction|].
  destruct Ho as [<-|[]].
  assert (Ip : In p (filter (fun p => o_external (snd p) =? m_external m) (st_oracles st))).
  { apply in_rev. rewrite ER. left. reflexivity. }
  apply filter_In in Ip. destruct Ip as [Ip Ep]. apply Z.eqb_eq in Ep.
  apply (U (snd k, o) p Io Ip). cbn [snd]. congruence.
Qed.

(* whichever of the two a tree does (general lemma over the generated fact; not what props/ pins) *)
Lemma import_sound_either : forall st,
  (if genesis_confirm_owner_by_external then conf_attributed st /\ ext_unique st else bridgers_resolve_to_key st) ->
  forall e, In e (import_conf genesis_confirm_owner_by_external st) -> In e (st_conf st).
Proof.
  intros st. destruct genesis_confirm_owner_by_external.
  - intros [A U]. apply import_sound_by_external; auto.
  - apply import_sound_by_bridger.
Qed.

(* C12-1 is repaired: THIS tree looks the owner up by external address.  Pinned, so that going back to the bridger
   look-up breaks an obligation (and not merely flips which branch of a conditional is used) *)
Theorem tree_genesis_owner_by_external : genesis_confirm_owner_by_external = true.
Proof. reflexivity. Qed.

Theorem import_sound_on_tree : forall st, conf_attributed st -> ext_unique st ->
  forall e, In e (import_conf genesis_confirm_owner_by_external st) -> In e (st_conf st).
Proof. rewrite tree_genesis_owner_by_external. exact import_sound_by_external. Qed.

(* C12-1: by bridger, without the guard, the faithful model misattributes: oracle 11 confirmed through bridger 21, then
   moved to bridger 23, and oracle 12 took over the released account 21: the import files 11's confirm (external key 31)
   under oracle 12.  By external address the confirm stays where it was. *)
Definition ex_reuse_state : cstate :=
  {| st_tron := false; st_gid := bytes_of_string "fx-gravity-id";
     st_ext_index := [(31, 11); (32, 12)];
     st_oracles := [(11, {| o_bridger := 23; o_external := 31 |}); (12, {| o_bridger := 21; o_external := 32 |})];
     st_objs := [((KOracleSet, 0, 3), ex_set)];
     st_conf := [(((KOracleSet, 0, 3), 11), ex_msg)] |}.

Theorem import_by_bridger_refuted :
  import_conf false ex_reuse_state = [(((KOracleSet, 0, 3), 12), ex_msg)] /\ m_external ex_msg = 31 /\
  assoc Z.eqb 12 (st_oracles ex_reuse_state) = Some {| o_bridger := 21; o_external := 32 |} /\
  import_conf true ex_reuse_state = st_conf ex_reuse_state.
Proof. repeat split; vm_compute; reflexivity. Qed.

(* ================= the recovery byte V ================= *)

Lemma vnorm_strict_spec : forall n, vnorm_strict n = true ->
  forall v, 0 <= v < 256 -> apply_vnorm n v = 0 \/ apply_vnorm n v = 1 -> contract_v v <> None.
Proof.
  intros n S v R H. unfold vnorm_strict in S. rewrite forallb_forall in S.
  assert (I : In v (map Z.of_nat (seq 0 256))).
  { apply in_map_iff. exists (Z.to_nat v). split; [lia|]. apply in_seq. lia. }
  specialize (S v I). cbv zeta in S.
  assert (E : (apply_vnorm n v =? 0) || (apply_vnorm n v =? 1) = true).
  { destruct H as [-> | ->]; reflexivity. }
  rewrite E in S. cbn [implb] in S. destruct (contract_v v); [discriminate|discriminate S].
Qed.

(* the helpers of this tree (generated) are strict, on both signer families *)
Theorem tree_vnorm_strict : vnorm_strict eth_vnorm = true /\ vnorm_strict tron_vnorm = true.
Proof. split; vm_compute; reflexivity. Qed.

Lemma norm_v_length : forall n sig, length (norm_v n sig) = length sig.
Proof.
  intros n sig. unfold norm_v. destruct (nth_error sig 64) as [v|] eqn:E; auto.
  assert (L : (64 < length sig)%nat) by (apply nth_error_Some; congruence).
  rewrite !app_length, firstn_length, skipn_length. cbn [length]. lia.
Qed.

Lemma norm_v_byte64 : forall n sig v, nth_error sig 64 = Some v ->
  nth_error (norm_v n sig) 64 = Some (apply_vnorm n v).
Proof.
  intros n sig v E. unfold norm_v. rewrite E.
  assert (L : (64 < length sig)%nat) by (apply nth_error_Some; congruence).
  rewrite nth_error_app2; rewrite firstn_length; [|lia].
  replace (64 - Nat.min 64 (length sig))%nat with 0%nat by lia. reflexivity.
Qed.

Section VProofs.
  Variable recover : bool -> list Z -> list Z -> option Z.
  (* go-ethereum recovers only from 65 bytes whose last one is 0 or 1 (recovery ids 2 and 3 exist but need r + n < p,
     probability ~2^-128; the contract's ecrecover does not know them at all) *)
  Hypothesis recover_v01 : forall t pre s a, recover t pre s = Some a ->
    length s = 65%nat /\ (nth_error s 64 = Some 0 \/ nth_error s 64 = Some 1).

  (* an accepted (hence stored) confirmation is one the contract's rule can verify: 65 bytes, and V is 0|1|27|28 so that
     the documented normalisation yields v in {27, 28} - provided the chain's helper normalises strictly *)
  Theorem accepted_v_usable : forall st m k,
    vnorm_strict (chain_vnorm (st_tron st)) = true ->
    handle recover st m = Accepted k ->
    exists sig v, m_sig m = Some sig /\ length sig = 65%nat /\ nth_error sig 64 = Some v /\
                  (0 <= v < 256 -> contract_v v <> None).
  Proof.
    intros st m k S H. apply handle_accept_iff in H.
    destruct H as (o & pre & sig & orc & _ & _ & ES & _ & _ & _ & _ & EG & _).
    unfold sig_signer in EG. destruct (zlen sig <? chain_minlen (st_tron st)); [discriminate|].
    apply recover_v01 in EG. destruct EG as [L V]. rewrite norm_v_length in L.
    destruct (nth_error sig 64) as [v|] eqn:E64.
    - exists sig, v. repeat split; auto. intros R.
      rewrite (norm_v_byte64 _ _ _ E64) in V.
      apply (vnorm_strict_spec _ S v R). destruct V as [V|V]; injection V as V; auto.
    - exfalso. apply nth_error_None in E64. lia.
  Qed.

  Theorem accepted_v_usable_on_tree : forall st m k,
    handle recover st m = Accepted k ->
    exists sig v, m_sig m = Some sig /\ length sig = 65%nat /\ nth_error sig 64 = Some v /\
                  (0 <= v < 256 -> contract_v v <> None).
  Proof.
    intros st m k. apply accepted_v_usable. destruct tree_vnorm_strict as [A B].
    unfold chain_vnorm. destruct (st_tron st); assumption.
  Qed.
End VProofs.

(* the kind of normalisation that is NOT strict: v %= 27 folds 54, 55, 81, ... onto 0 and 1 *)
Theorem vmod_not_strict : vnorm_strict (VMod 27) = false /\ apply_vnorm (VMod 27) 54 = 0 /\ contract_v 54 = None.
Proof. repeat split; vm_compute; reflexivity. Qed.
