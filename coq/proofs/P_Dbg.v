(* P_Precompile — proofs for C10 over model.M_Precompile and the generated method table. *)
From Coq Require Import ZArith List Bool String Lia.
From FxV Require Import gen.Gen_Precompiles model.M_Precompile.
Import ListNotations.
Open Scope Z_scope.

(* ------------------------------------------------------------------ *)
(* what may happen to an account that is not the direct caller *)

Definition rwd_nonneg (s : pst) : Prop := forall a v, 0 <= rwd s a v.

Definition tp_ok (caller : acct) (c : call) (s s' : pst) : Prop :=
  forall a, a <> caller ->
    bal s a <= bal s' a /\
    (forall v, unb s a v <= unb s' a v) /\
    (forall v, dlg s a v <= dlg s' a v \/
               exists to sh, c = CTransferFromShares v a to sh /\ dlg s a v - sh <= dlg s' a v /\
                             0 < sh <= alw s v a caller /\ alw s' v a caller = alw s v a caller - sh) /\
    (forall v, rwd s' a v = rwd s a v \/
               (rwd s' a v = 0 /\ bal s (wdr s a) + rwd s a v <= bal s' (wdr s a))) /\
    (forall v sp, alw s' v a sp = alw s v a sp \/
                  (sp = caller /\ exists to sh, c = CTransferFromShares v a to sh /\
                                 0 < sh <= alw s v a sp /\ alw s' v a sp = alw s v a sp - sh)) /\
    pool_kept s s' a /\ bcalls_kept s s' a.

Ltac zb :=
  repeat match goal with
         | H : Z.eqb _ _ = true |- _ => apply Z.eqb_eq in H
         | H : Z.eqb _ _ = false |- _ => apply Z.eqb_neq in H
         | H : Z.ltb _ _ = true |- _ => apply Z.ltb_lt in H
         | H : Z.ltb _ _ = false |- _ => apply Z.ltb_ge in H
         | H : Z.leb _ _ = true |- _ => apply Z.leb_le in H
         | H : Z.leb _ _ = false |- _ => apply Z.leb_gt in H
         | H : negb _ = true |- _ => apply negb_true_iff in H
         | H : negb _ = false |- _ => apply negb_false_iff in H
         | H : _ && _ = true |- _ => apply andb_true_iff in H; destruct H
         | H : _ || _ = false |- _ => apply orb_false_iff in H; destruct H
         end.

Lemma pool_kept_refl s a : pool_kept s s a.
Proof. intros id amt fee H. exists fee. split; [exact H|lia]. Qed.
Lemma bcalls_kept_refl s a : bcalls_kept s s a.
Proof. intros n r x H. exact H. Qed.

Lemma pool_kept_eq s s' a : pool s' = pool s -> pool_kept s s' a.
Proof. intros E id amt fee H. exists fee. rewrite E. split; [exact H|lia]. Qed.
Lemma bcalls_kept_eq s s' a : bcalls s' = bcalls s -> bcalls_kept s s' a.
Proof. intros E n r x H. rewrite E. exact H. Qed.

(* a state change that leaves everything of third parties alone *)
Lemma tp_ok_same caller c s : tp_ok caller c s s.
Proof.
  intros a _. repeat split; try lia; try (intros; left; reflexivity); try (intros; left; lia).
  - apply pool_kept_refl.
  - apply bcalls_kept_refl.
Qed.

(* ---- building blocks ---- *)

Lemma pay_bal s x k a : bal (pay s x k) a = if Z.eqb a x then bal s x + k else bal s a.
Proof. unfold pay, set_bal, up1. cbn. destruct (Z.eqb a x) eqn:E; [apply Z.eqb_eq in E; subst|]; reflexivity. Qed.

Lemma wr_bal s d v a : rwd_nonneg s -> bal s a <= bal (withdraw_rewards s d v) a.
Proof.
  intro N. unfold withdraw_rewards. cbn. unfold up1. destruct (Z.eqb a (wdr s d)) eqn:E.
  - apply Z.eqb_eq in E. subst. specialize (N d v). lia.
  - lia.
Qed.

Lemma wr_nonneg s d v : rwd_nonneg s -> rwd_nonneg (withdraw_rewards s d v).
Proof.
  intros N a v'. unfold withdraw_rewards. cbn. unfold up2.
  destruct (Z.eqb a d && Z.eqb v' v); [lia|apply N].
Qed.

(* ---- transfer_shares ---- *)

Ltac ifs H :=
  repeat match type of H with
         | context [if ?b then _ else _] => let E := fresh "E" in destruct b eqn:E; try discriminate H
         end.

Ltac eqbs :=
  repeat match goal with
         | |- context [Z.eqb ?a ?b] => let E := fresh "Q" in destruct (Z.eqb a b) eqn:E
         end.

Ltac fin :=
  zb; subst; cbn;
  repeat match goal with
         | H : ?x = ?y |- _ => first [subst x | subst y | (rewrite H in *; clear H)]
         end;
  try lia.

Lemma ts_spec s v from to sh s' :
  rwd_nonneg s -> 0 < sh -> transfer_shares s v from to sh = Ok s' ->
  (forall a, bal s a <= bal s' a) /\
  unb s' = unb s /\ alw s' = alw s /\ pool s' = pool s /\ bcalls s' = bcalls s /\ wdr s' = wdr s /\
  (forall a v', (a <> from \/ v' <> v) -> dlg s a v' <= dlg s' a v') /\
  dlg s from v - sh <= dlg s' from v /\
  (forall a v', rwd s' a v' = rwd s a v' \/
                (rwd s' a v' = 0 /\ bal s (wdr s a) + rwd s a v' <= bal s' (wdr s a))).
Proof.
  intros N Hsh H. unfold transfer_shares in H. ifs H; inversion H; subst s'; clear H; zb;
    pose proof (N from v) as Nf; pose proof (N to v) as Nt; repeat split.
  (* balances only grow *)
  1,5: intro a; cbn; unfold up1, up2; eqbs; fin.
  (* other delegations *)
  1,4: intros a v' D; cbn; unfold up1, up2; cbn;
      destruct (Z.eqb a to && Z.eqb v' v) eqn:A1; destruct (Z.eqb a from && Z.eqb v' v) eqn:A2; zb; subst; try lia;
      try (destruct D; congruence).
  (* the source delegation *)
  1,3: cbn; unfold up1, up2; cbn; destruct (Z.eqb from to && Z.eqb v v) eqn:A1; rewrite ?Z.eqb_refl; cbn; zb; subst; try lia.
  (* rewards *)
  all: intros a v'; cbn; unfold up1, up2; cbn;
    destruct (Z.eqb a to && Z.eqb v' v) eqn:A1; destruct (Z.eqb a from && Z.eqb v' v) eqn:A2; cbn;
    first [ left; reflexivity
          | right; split; [reflexivity | zb; subst; rewrite ?Z.eqb_refl; cbn; eqbs; fin ] ].
Qed.

(* ------------------------------------------------------------------ *)
(* every method, every argument: third parties *)

Definition wf_state (s : pst) : Prop :=
  rwd_nonneg s /\ (forall id, next_tx s < id -> pool s id = None) /\ (forall n, next_bc s < n -> bcalls s n = None).

Ltac unf_all := unfold withdraw_rewards, pay, set_bal, set_dlg, set_rwd, set_alw, set_unb, set_rrd, set_pool, set_bcalls,
                       up1, up2, up3 in *; cbn in *.

(* third-party clauses when only entries keyed by the caller (and balances upward) change *)
Ltac tp_simple N :=
  let a := fresh "a" in let Ha := fresh "Ha" in
  intros a Ha; repeat split;
  [ unf_all; eqbs; try (pose proof (N a 0)); fin; try (match goal with |- context [rwd ?s ?x ?v] => pose proof (N x v) end; lia)
  | intros ?; unf_all; eqbs; fin
  | intros ?; left; unf_all; eqbs; fin
  | intros ?; left; unf_all; eqbs; fin
  | intros ? ?; left; unf_all; eqbs; fin
  | idtac | idtac ].

Lemma method_run_tp caller value c s s' :
  0 <= value -> wf_state s -> method_run caller value c s = Ok s' -> tp_ok caller c s s'.
Proof.
  intros Hv (N & PF & BF) H. destruct c; cbn [method_run] in H.
  1-3,11-15: (inversion H; subst; apply tp_ok_same).
  - (* approveShares *)
    ifs H. inversion H; subst; clear H. tp_simple N; [apply pool_kept_eq; reflexivity|apply bcalls_kept_eq; reflexivity].
  - (* transferShares *)
    ifs H. zb. destruct (ts_spec _ _ _ _ _ _ N E H) as (B & U & A & P & BC & W & D & DS & R).
    intros a Ha. repeat split.
    + apply B.
    + intro v0. rewrite U. lia.
    + intro v0. left. apply D. left. exact Ha.
    + intro v0. apply R.
    + intros v0 sp. left. rewrite A. reflexivity.
    + intros id amt fee Hp. exists fee. rewrite P. split; [exact Hp|lia].
    + intros n r x Hb. rewrite BC. exact Hb.
  - (* transferFromShares *)
    ifs H. zb.
    set (s0 := set_alw s (up3 (alw s) v from caller (alw s v from caller - sh))) in *.
    assert (N0 : rwd_nonneg s0) by exact N.
    destruct (ts_spec _ _ _ _ _ _ N0 E H) as (B & U & A & P & BC & W & D & DS & R).
    intros a Ha. repeat split.
    + apply (B a).
    + intro v0. rewrite U. cbn. lia.
    + intro v0. destruct (Z.eq_dec a from) as [->|Na]; [destruct (Z.eq_dec v0 v) as [->|Nv]|].
      * right. exists to, sh. split; [reflexivity|]. split; [exact DS|]. split; [lia|].
        rewrite A. unfold s0. cbn. unfold up3. rewrite !Z.eqb_refl. reflexivity.
      * left. apply (D from v0). right. exact Nv.
      * left. apply (D a v0). left. exact Na.
    + intro v0. apply (R a v0).
    + intros v0 sp. rewrite A. unfold s0. cbn. unfold up3.
      destruct (Z.eqb v0 v && Z.eqb a from && Z.eqb sp caller) eqn:K.
      * right. zb. subst. split; [reflexivity|]. exists to, sh. repeat split; lia.
      * left. reflexivity.
    + intros id amt fee Hp. exists fee. rewrite P. split; [exact Hp|lia].
    + intros n r x Hb. rewrite BC. exact Hb.
  - (* withdraw *)
    ifs H. inversion H; subst; clear H. tp_simple N; [apply pool_kept_eq; reflexivity|apply bcalls_kept_eq; reflexivity].
  - (* delegateV2 *)
    ifs H; inversion H; subst; clear H; tp_simple N; try (apply pool_kept_eq; reflexivity); try (apply bcalls_kept_eq; reflexivity).
  - (* redelegateV2 *)
    ifs H; inversion H; subst; clear H; tp_simple N; try (apply pool_kept_eq; reflexivity); try (apply bcalls_kept_eq; reflexivity).
Abort.
