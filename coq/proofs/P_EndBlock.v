From Coq Require Import ZArith List Bool Lia.
From FxV Require Import model.M_EndBlock.
Import ListNotations.
Open Scope Z_scope.

Definition ids (l : list oracle) : list Z := map o_id l.
Definition powers (l : list oracle) : list Z := map o_power l.

Definition all_addr (a : slash_args) : Prop :=
  sa_oracle_set a = ArgOracleAddress /\ sa_batch a = ArgOracleAddress /\ sa_bridge_call a = ArgOracleAddress.

Definition all_addrb (a : slash_args) : bool :=
  match sa_oracle_set a, sa_batch a, sa_bridge_call a with
  | ArgOracleAddress, ArgOracleAddress, ArgOracleAddress => true
  | _, _, _ => false
  end.

Lemma all_addrb_spec a : all_addrb a = true -> all_addr a.
Proof.
  unfold all_addrb, all_addr.
  destruct (sa_oracle_set a), (sa_batch a), (sa_bridge_call a); intro H; try discriminate; auto.
Qed.

(* ---- SlashOracle on the list ---- *)

Lemma slash_in_some id h l : In id (ids l) -> exists r, slash_in id h l = Some r.
Proof.
  induction l as [|o r IH]; cbn [ids map In slash_in]; intro H; [contradiction|].
  destruct (o_id o =? id) eqn:E.
  - destruct (o_online o); eauto.
  - destruct H as [H|H]; [apply Z.eqb_neq in E; congruence|].
    destruct (IH H) as [[r' b] Hr]. rewrite Hr. eauto.
Qed.

Lemma slash_in_keeps id h l l' b :
  slash_in id h l = Some (l', b) -> ids l' = ids l /\ powers l' = powers l.
Proof.
  revert l' b. induction l as [|o r IH]; cbn [slash_in]; intros l' b H; [discriminate|].
  destruct (o_id o =? id).
  - destruct (o_online o); inversion H; subst; split; reflexivity.
  - destruct (slash_in id h r) as [[r' b']|] eqn:E; [|discriminate].
    inversion H; subst. destruct (IH r' b eq_refl) as [H1 H2].
    unfold ids, powers in *. cbn [map]. rewrite H1, H2. split; reflexivity.
Qed.

Lemma slash_oracle_addr id h s :
  In id (ids (fst s)) ->
  exists s', slash_oracle ArgOracleAddress id h s = Ok s' /\
             ids (fst s') = ids (fst s) /\ powers (fst s') = powers (fst s).
Proof.
  intro H. unfold slash_oracle. destruct (slash_in_some id h (fst s) H) as [[l' b] Hr].
  rewrite Hr. destruct (slash_in_keeps _ _ _ _ _ Hr) as [H1 H2].
  destruct b; eexists; (split; [reflexivity|]); cbn [fst]; auto.
Qed.

Lemma slash_missing_total h x snapshot : forall s slashed,
  incl (ids snapshot) (ids (fst s)) ->
  exists s' b, slash_missing ArgOracleAddress h x snapshot s slashed = Ok (s', b) /\
               ids (fst s') = ids (fst s) /\ powers (fst s') = powers (fst s).
Proof.
  induction snapshot as [|o r IH]; intros s slashed Hin; cbn [slash_missing].
  - eauto.
  - assert (Hr : incl (ids r) (ids (fst s))).
    { intros y Hy. apply Hin. right. exact Hy. }
    destruct (ob_height x <? o_start o); [apply IH; exact Hr|].
    destruct (memZ (o_id o) (ob_confirms x)); [apply IH; exact Hr|].
    assert (Ho : In (o_id o) (ids (fst s))) by (apply Hin; left; reflexivity).
    destruct (slash_oracle_addr (o_id o) h s Ho) as [s' [E [H1 H2]]]. rewrite E.
    destruct (IH s' true) as [s'' [b [E2 [H3 H4]]]].
    { rewrite H1. exact Hr. }
    exists s'', b. rewrite E2. split; [reflexivity|]. split; congruence.
Qed.

Lemma slash_objs_total h snapshot xs : forall s cursor slashed,
  incl (ids snapshot) (ids (fst s)) ->
  exists s' c b, slash_objs ArgOracleAddress h xs snapshot s cursor slashed = Ok (s', c, b) /\
                 ids (fst s') = ids (fst s) /\ powers (fst s') = powers (fst s).
Proof.
  induction xs as [|x r IH]; intros s cursor slashed Hin; cbn [slash_objs].
  - eauto 6.
  - destruct (slash_missing_total h x snapshot s slashed Hin) as [s' [b [E [H1 H2]]]].
    rewrite E. destruct (IH s' (ob_key x) b) as [s'' [c [b' [E2 [H3 H4]]]]].
    { rewrite H1. exact Hin. }
    exists s'', c, b'. rewrite E2. split; [reflexivity|]. split; congruence.
Qed.

Lemma filter_ids_incl (f : oracle -> bool) l : incl (ids (filter f l)) (ids l).
Proof.
  intros y Hy. unfold ids in *. apply in_map_iff in Hy. destruct Hy as [o [Ho Hin]].
  apply filter_In in Hin. apply in_map_iff. exists o. tauto.
Qed.

(* the slashing phase never panics when every loop hands SlashOracle an account address *)
Lemma slashing_total a s h :
  all_addr a ->
  exists r, slashing a s h = Ok r /\ powers (r_oracles r) = powers (oracles s).
Proof.
  intros [Ha [Hb Hc]]. unfold slashing. rewrite Ha, Hb, Hc.
  destruct (h <=? window s); [eexists; split; reflexivity|].
  set (snap := filter o_online (oracles s)).
  assert (H0 : incl (ids snap) (ids (oracles s))) by apply filter_ids_incl.
  destruct (slash_objs_total h snap (unslashed_osets s h) (oracles s, last_slash_height s)
              (last_slashed_oset s) false H0) as [s1 [c1 [b1 [E1 [I1 P1]]]]].
  rewrite E1.
  destruct (slash_objs_total h snap (unslashed_batches s h) s1 (last_slashed_batch_block s) false)
    as [s2 [c2 [b2 [E2 [I2 P2]]]]]; [rewrite I1; exact H0|]. rewrite E2.
  destruct (slash_objs_total h snap (unslashed_bcalls s h) s2 (last_slashed_bcall s) false)
    as [s3 [c3 [b3 [E3 [I3 P3]]]]]; [rewrite I2, I1; exact H0|]. rewrite E3.
  eexists. split; [reflexivity|]. cbn [r_oracles]. cbn [fst] in *. congruence.
Qed.

(* ---- current oracle set ---- *)

Definition sumZ (l : list Z) : Z := fold_right Z.add 0 l.

Definition powers_ok (l : list oracle) : Prop :=
  Forall (fun p => 0 <= p) (powers l) /\ sumZ (powers l) < two64.

Lemma fold_left_add_acc (f : oracle -> Z) l acc :
  fold_left (fun a o => a + f o) l acc = acc + sumZ (map f l).
Proof.
  revert acc. induction l as [|o r IH]; intro acc; cbn [fold_left map sumZ fold_right]; [lia|].
  rewrite IH. unfold sumZ. lia.
Qed.

Lemma sum_filter_le (f : oracle -> bool) l :
  Forall (fun p => 0 <= p) (powers l) -> sumZ (powers (filter f l)) <= sumZ (powers l).
Proof.
  unfold powers. induction l as [|o r IH]; cbn [filter map sumZ fold_right]; intro H; [lia|].
  inversion H as [|p ps Hp Hps]; subst. specialize (IH Hps).
  destruct (f o); cbn [map sumZ fold_right]; unfold sumZ in *; lia.
Qed.

Lemma filter_pos_sum l :
  let m := filter (fun o => o_online o && (0 <? o_power o)) l in
  m <> [] -> 0 < sumZ (powers m).
Proof.
  cbn zeta. unfold powers.
  induction l as [|o r IH]; cbn [filter]; intro H; [congruence|].
  destruct (o_online o && (0 <? o_power o)) eqn:E.
  - cbn [map sumZ fold_right]. apply andb_true_iff in E. destruct E as [_ E]. apply Z.ltb_lt in E.
    destruct (filter (fun o0 => o_online o0 && (0 <? o_power o0)) r) as [|y ys] eqn:F.
    + cbn. lia.
    + assert (0 < sumZ (map o_power (y :: ys))) by (apply IH; discriminate).
      unfold sumZ in *. lia.
  - apply IH. exact H.
Qed.

Lemma current_oracle_set_total l : powers_ok l -> exists m, current_oracle_set l = Ok m.
Proof.
  intros [Hnn Hsum]. unfold current_oracle_set.
  set (members := filter (fun o => o_online o && (0 <? o_power o)) l).
  assert (Hle : sumZ (powers members) <= sumZ (powers l)) by (apply sum_filter_le; exact Hnn).
  assert (Hmnn : Forall (fun p => 0 <= p) (powers members)).
  { unfold powers, members. apply Forall_forall. intros p Hp. apply in_map_iff in Hp.
    destruct Hp as [o [<- Ho]]. apply filter_In in Ho. destruct Ho as [_ Ho].
    apply andb_true_iff in Ho. destruct Ho as [_ Ho]. apply Z.ltb_lt in Ho. lia. }
  destruct (existsb (fun o => two64 <=? o_power o) members) eqn:E.
  - exfalso. apply existsb_exists in E. destruct E as [o [Ho Hb]]. apply Z.leb_le in Hb.
    assert (o_power o <= sumZ (powers members)).
    { clear -Ho Hmnn. unfold powers in *. induction members as [|x r IH]; [contradiction|].
      cbn [map sumZ fold_right] in *. inversion Hmnn as [|p ps Hp Hps]; subst.
      destruct Ho as [->|Ho].
      - assert (0 <= sumZ (map o_power r)).
        { clear -Hps. induction r as [|y r IH]; cbn; [lia|]. inversion Hps; subst.
          specialize (IH H2). unfold sumZ in *. lia. }
        unfold sumZ in *. lia.
      - specialize (IH Hps Ho). unfold sumZ in *. lia. }
    lia.
  - rewrite fold_left_add_acc. fold (powers members). rewrite Z.add_0_l.
    destruct members as [|o r] eqn:M; [eexists; reflexivity|].
    assert (Hpos : 0 < sumZ (powers (o :: r))).
    { rewrite <- M. apply (filter_pos_sum l). fold members. rewrite M. discriminate. }
    rewrite Z.mod_small by (unfold two64 in *; lia).
    destruct (sumZ (powers (o :: r)) =? 0) eqn:Z0; [apply Z.eqb_eq in Z0; lia|].
    eexists; reflexivity.
Qed.

(* ---- the end-block theorem ---- *)

Lemma endblock_total a s h :
  all_addr a -> powers_ok (oracles s) -> exists r, endblock a s h = Ok r.
Proof.
  intros Ha Hp. unfold endblock.
  destruct (slashing_total a s h Ha) as [r [E P]]. rewrite E.
  assert (Hp' : powers_ok (r_oracles r)) by (unfold powers_ok in *; rewrite P; exact Hp).
  destruct (current_oracle_set_total _ Hp') as [m Em]. rewrite Em. eauto.
Qed.

Lemma endblock_never_panics a s h :
  all_addrb a = true -> powers_ok (oracles s) -> endblock a s h <> Panic.
Proof.
  intros Ha Hp. destruct (endblock_total a s h (all_addrb_spec a Ha) Hp) as [r E].
  rewrite E. discriminate.
Qed.

(* ---- the defect, as a statement about the model: with the proto-rendered record handed
   to SlashOracle by the bridge-call loop, a reachable-looking state panics ---- *)

Definition bad_args := {| sa_oracle_set := ArgOracleAddress; sa_batch := ArgOracleAddress;
                          sa_bridge_call := ArgProtoString |}.
Definition good_args := {| sa_oracle_set := ArgOracleAddress; sa_batch := ArgOracleAddress;
                           sa_bridge_call := ArgOracleAddress |}.

Definition ex_state : xstate := {|
  oracles := [ {| o_id := 0; o_online := true; o_start := 1; o_slash_times := 0; o_power := 100 |};
               {| o_id := 1; o_online := true; o_start := 1; o_slash_times := 0; o_power := 200 |} ];
  osets := [ {| ob_key := 1; ob_height := 2; ob_confirms := [0; 1] |} ];
  last_slashed_oset := 0;
  batches := []; last_slashed_batch_block := 0;
  bcalls := [ {| ob_key := 1; ob_height := 5; ob_confirms := [0] |} ];   (* oracle 1 did not confirm *)
  last_slashed_bcall := 0; last_slash_height := 0; window := 3 |}.

Lemma proto_string_arg_panics :
  powers_ok (oracles ex_state) /\ endblock bad_args ex_state 8 = Panic.
Proof.
  split; [|vm_compute; reflexivity].
  unfold powers_ok. split; [repeat constructor; cbn; lia|vm_compute; reflexivity].
Qed.

(* non-vacuity of the main theorem: the same state is processed (oracle 1 goes offline) *)
Lemma good_args_example :
  exists r m, endblock good_args ex_state 8 = Ok (r, m) /\
              map o_online (r_oracles r) = [true; false] /\ r_bcall_cursor r = 1 /\ r_any r = true.
Proof. eexists. eexists. split; [vm_compute; reflexivity|]. cbn. auto. Qed.

(* slashing is monotone: it only ever switches oracles offline, never changes stake *)
Lemma slashing_keeps_powers a s h r :
  all_addr a -> slashing a s h = Ok r -> powers (r_oracles r) = powers (oracles s).
Proof.
  intros Ha E. destruct (slashing_total a s h Ha) as [r' [E' P]]. rewrite E in E'.
  inversion E'; subst. exact P.
Qed.
