(* P_Erc20.v — proofs about M_Erc20.v: (B) the mixed EVM transaction over the two-level token store,
   (A) the consistency of the token-pair indexes. *)
From Coq Require Import ZArith List Bool Lia.
From FxV Require Import model.M_Erc20.
Import ListNotations.
Open Scope Z_scope.

(* ======================================================================================================= *)
(** * PART B: the two-level store *)

Lemma slot_eqb_eq x y : slot_eqb x y = true <-> x = y.
Proof.
  destruct x, y; cbn; try (split; [discriminate|congruence]); try tauto.
  - rewrite Z.eqb_eq. split; congruence.
  - rewrite andb_true_iff, !Z.eqb_eq. split; [intros [-> ->]; reflexivity|intros [= -> ->]; auto].
Qed.
Lemma slot_eqb_refl x : slot_eqb x x = true.
Proof. apply slot_eqb_eq. reflexivity. Qed.
Lemma slot_eqb_sym x y : slot_eqb x y = slot_eqb y x.
Proof.
  destruct (slot_eqb x y) eqn:E.
  - apply slot_eqb_eq in E. subst. symmetry. apply slot_eqb_refl.
  - destruct (slot_eqb y x) eqn:E2; [|reflexivity]. apply slot_eqb_eq in E2. subst. rewrite slot_eqb_refl in E. discriminate.
Qed.

(* what the running EVM sees *)
Definition view (s : mstate) (k : slot) : Z :=
  match sget k (dirty s) with
  | Some v => v
  | None => match sget k (origin s) with Some v => v | None => sval k (committed s) end
  end.
(* the outer cache is coherent with the keeper storage *)
Definition coh (s : mstate) : Prop := forall k v, sget k (origin s) = Some v -> v = sval k (committed s).
Definition same_rest (s s' : mstate) : Prop := committed s' = committed s /\ escrow s' = escrow s /\ out s' = out s.

Lemma oread_spec k s :
  fst (oread k s) = view s k /\ (forall k', view (snd (oread k s)) k' = view s k') /\
  (coh s -> coh (snd (oread k s))) /\ same_rest s (snd (oread k s)).
Proof.
  unfold oread, view, same_rest. destruct (sget k (dirty s)) eqn:Ed; cbn [fst snd]; [tauto|].
  destruct (sget k (origin s)) eqn:Eo; cbn [fst snd]; [tauto|].
  cbn [dirty origin committed escrow out]. repeat split; try reflexivity.
  - intros k'. destruct (sget k' (dirty s)); [reflexivity|]. cbn [sget]. rewrite slot_eqb_sym.
    destruct (slot_eqb k k') eqn:E; [|reflexivity]. apply slot_eqb_eq in E. subst. rewrite Eo. reflexivity.
  - intros H k' v. cbn [sget origin committed]. destruct (slot_eqb k' k) eqn:E; [|exact (H k' v)].
    apply slot_eqb_eq in E. subst. intros [= <-]. reflexivity.
Qed.

Lemma owrite_spec k v s :
  (forall k', view (owrite k v s) k' = if slot_eqb k' k then v else view s k') /\
  (coh s -> coh (owrite k v s)) /\ same_rest s (owrite k v s).
Proof.
  unfold owrite. destruct (oread k s) as [cur s1] eqn:E.
  pose proof (oread_spec k s) as [H1 [H2 [H3 H4]]]. rewrite E in *. cbn [fst snd] in *.
  destruct (Z.eqb_spec cur v).
  - subst. repeat split; try tauto; try apply H4.
    intros k'. rewrite H2. destruct (slot_eqb k' k) eqn:Ek; [|reflexivity]. apply slot_eqb_eq in Ek. subst. reflexivity.
  - repeat split; try apply H4.
    + intros k'. unfold view at 1. cbn [dirty origin committed sget]. destruct (slot_eqb k' k); [reflexivity|]. apply H2.
    + intros Hc. specialize (H3 Hc). unfold coh in *. cbn [origin committed]. assumption.
Qed.

Lemma same_rest_trans a b c : same_rest a b -> same_rest b c -> same_rest a c.
Proof. unfold same_rest. intros [-> [-> ->]] [-> [-> ->]]. auto. Qed.
Lemma same_rest_refl a : same_rest a a.
Proof. unfold same_rest. auto. Qed.

Definition upd (f : slot -> Z) (k : slot) (v : Z) : slot -> Z := fun k' => if slot_eqb k' k then v else f k'.

Lemma o_transfer_spec a b x s s' : o_transfer a b x s = Some s' ->
  x <= view s (SBal a) /\
  (forall k, view s' k = upd (upd (view s) (SBal a) (view s (SBal a) - x)) (SBal b)
                           (upd (view s) (SBal a) (view s (SBal a) - x) (SBal b) + x) k) /\
  (coh s -> coh s') /\ same_rest s s'.
Proof.
  unfold o_transfer. destruct (oread (SBal a) s) as [bf s1] eqn:E1.
  pose proof (oread_spec (SBal a) s) as [A1 [A2 [A3 A4]]]. rewrite E1 in *. cbn [fst snd] in *.
  destruct (Z.ltb_spec bf x); [discriminate|].
  pose proof (owrite_spec (SBal a) (bf - x) s1) as [B1 [B2 B3]].
  destruct (oread (SBal b) (owrite (SBal a) (bf - x) s1)) as [bt s3] eqn:E3.
  pose proof (oread_spec (SBal b) (owrite (SBal a) (bf - x) s1)) as [C1 [C2 [C3 C4]]]. rewrite E3 in *. cbn [fst snd] in *.
  pose proof (owrite_spec (SBal b) (bt + x) s3) as [D1 [D2 D3]].
  intros [= <-]. subst bf. split; [lia|]. split; [|split].
  - intros k. rewrite D1. unfold upd. destruct (slot_eqb k (SBal b)) eqn:Ekb.
    + subst bt. rewrite B1. rewrite (slot_eqb_refl) || idtac. destruct (slot_eqb (SBal b) (SBal a)); rewrite ?A2; reflexivity.
    + rewrite C2, B1. destruct (slot_eqb k (SBal a)); rewrite ?A2; reflexivity.
  - tauto.
  - eapply same_rest_trans; [exact A4|]. eapply same_rest_trans; [exact B3|]. eapply same_rest_trans; [exact C4|exact D3].
Qed.

(* sums over the holders *)
Fixpoint hsum (f : slot -> Z) (H : list Z) : Z := match H with [] => 0 | a :: r => f (SBal a) + hsum f r end.
Lemma hsum_ext f g H : (forall a, In a H -> f (SBal a) = g (SBal a)) -> hsum f H = hsum g H.
Proof. induction H as [|a H IH]; intros E; [reflexivity|]. cbn. rewrite (E a), IH by (intros; try apply E; cbn; auto). reflexivity. Qed.
Lemma hsum_upd_other f k v H : (forall a, k <> SBal a) -> hsum (upd f k v) H = hsum f H.
Proof.
  intros Hk. apply hsum_ext. intros a _. unfold upd. destruct (slot_eqb (SBal a) k) eqn:E; [|reflexivity].
  apply slot_eqb_eq in E. exfalso. apply (Hk a). congruence.
Qed.
Lemma hsum_upd f a v H : NoDup H -> hsum (upd f (SBal a) v) H = hsum f H + (if existsb (Z.eqb a) H then v - f (SBal a) else 0).
Proof.
  induction 1 as [|b H Hn Hd IH]; [reflexivity|]. cbn [hsum existsb]. rewrite IH. unfold upd at 1. cbn [slot_eqb].
  rewrite (Z.eqb_sym a b). destruct (Z.eqb_spec b a); cbn [orb].
  - subst. destruct (existsb (Z.eqb a) H) eqn:E; [|lia]. apply existsb_exists in E as [y [Hy Hyy]]. apply Z.eqb_eq in Hyy. subst. contradiction.
  - lia.
Qed.
Lemma existsb_in a H : In a H -> existsb (Z.eqb a) H = true.
Proof. intros Hin. apply existsb_exists. exists a. split; [assumption|apply Z.eqb_refl]. Qed.

(* the pair books as the running EVM sees them *)
Definition booksV (H : list Z) (s : mstate) : Prop := view s STotal = escrow s /\ hsum (view s) H = view s STotal.

Definition outer_only (i : instr) : bool := match i with MBridgeCall _ | MCancel | MExecClaim => false | _ => true end.
Definition targets_in (H : list Z) (i : instr) : bool := match i with MTransfer to _ => existsb (Z.eqb to) H | _ => true end.

Lemma mexec_outer H i s s' : NoDup H -> In C H -> In Md H -> outer_only i = true -> targets_in H i = true ->
  mexec i s = Some s' -> coh s -> booksV H s -> coh s' /\ booksV H s' /\ committed s' = committed s.
Proof.
  intros HN HC HM Ho Ht Hrun Hc [B1 B2]. destruct i; cbn [mexec outer_only targets_in] in *; try discriminate.
  - (* transfer *)
    destruct (to =? 0); [discriminate|].
    destruct (o_transfer_spec _ _ _ _ _ Hrun) as [Hx [Hv [Hco Hr]]]. destruct Hr as [Rc [Re Ro]].
    split; [auto|]. split; [|assumption]. unfold booksV. rewrite Re.
    assert (Ht1 : view s' STotal = view s STotal) by (rewrite Hv; unfold upd; reflexivity).
    rewrite Ht1. split; [assumption|]. rewrite <- B2.
    rewrite (hsum_ext (view s') _ H (fun a _ => Hv (SBal a))).
    rewrite hsum_upd by assumption. rewrite Ht. rewrite hsum_upd by assumption. rewrite (existsb_in C H HC). lia.
  - (* approve *)
    injection Hrun as <-. pose proof (owrite_spec (SAllow C sp) x s) as [W1 [W2 [Rc [Re Ro]]]].
    split; [auto|]. split; [|assumption]. unfold booksV. rewrite Re, W1. cbn [slot_eqb]. split; [assumption|].
    rewrite <- B2. apply hsum_ext. intros a _. rewrite W1. reflexivity.
  - (* balanceOf *)
    injection Hrun as <-. pose proof (oread_spec (SBal a) s) as [R1 [R2 [R3 [Rc [Re Ro]]]]].
    split; [auto|]. split; [|assumption]. unfold booksV. rewrite Re, R2. split; [assumption|].
    rewrite <- B2. apply hsum_ext. intros a0 _. apply R2.
  - (* crossChain *)
    destruct (oread (SAllow C Pc) s) as [al s1] eqn:E1.
    pose proof (oread_spec (SAllow C Pc) s) as [A1 [A2 [A3 A4]]]. rewrite E1 in *. cbn [fst snd] in *.
    destruct (al <? x); [discriminate|].
    pose proof (owrite_spec (SAllow C Pc) (al - x) s1) as [W1 [W2 W3]].
    destruct (o_transfer C Md x (owrite (SAllow C Pc) (al - x) s1)) as [s3|] eqn:E3; [|discriminate].
    destruct (o_transfer_spec _ _ _ _ _ E3) as [Hx [Hv [Hco Hr]]].
    destruct (oread (SBal Md) s3) as [bm s4] eqn:E4.
    pose proof (oread_spec (SBal Md) s3) as [M1 [M2 [M3 M4]]]. rewrite E4 in *. cbn [fst snd] in *.
    destruct (Z.ltb_spec bm x); [discriminate|].
    pose proof (owrite_spec (SBal Md) (bm - x) s4) as [N1 [N2 N3]].
    destruct (oread STotal (owrite (SBal Md) (bm - x) s4)) as [tt s6] eqn:E6.
    pose proof (oread_spec STotal (owrite (SBal Md) (bm - x) s4)) as [T1 [T2 [T3 T4]]]. rewrite E6 in *. cbn [fst snd] in *.
    pose proof (owrite_spec STotal (tt - x) s6) as [Q1 [Q2 Q3]].
    destruct (escrow (owrite STotal (tt - x) s6) <? x); [discriminate|]. injection Hrun as <-.
    assert (Rall : same_rest s (owrite STotal (tt - x) s6)).
    { eapply same_rest_trans; [exact A4|]. eapply same_rest_trans; [exact W3|]. eapply same_rest_trans; [exact Hr|].
      eapply same_rest_trans; [exact M4|]. eapply same_rest_trans; [exact N3|]. eapply same_rest_trans; [exact T4|exact Q3]. }
    destruct Rall as [Rc [Re Ro]].
    split; [unfold coh, coins, set_pend; cbn [origin committed]; apply Q2, T3, N2, M3, Hco, W2, A3, Hc|].
    split; [|unfold coins, set_pend; cbn [committed]; assumption].
    (* the view after the instruction *)
    assert (Vtot3 : view s3 STotal = view s STotal).
    { rewrite Hv. unfold upd. cbn [slot_eqb]. rewrite W1. cbn [slot_eqb]. apply A2. }
    assert (Vb3 : forall a, view s3 (SBal a) = upd (upd (view s) (SBal C) (view s (SBal C) - x)) (SBal Md)
                                                (upd (view s) (SBal C) (view s (SBal C) - x) (SBal Md) + x) (SBal a)).
    { intros a. rewrite Hv. unfold upd. cbn [slot_eqb]. rewrite !W1. cbn [slot_eqb]. rewrite !A2. reflexivity. }
    subst tt bm.
    set (sF := owrite STotal (view (owrite (SBal Md) (view s3 (SBal Md) - x) s4) STotal - x) s6) in *.
    assert (VF : forall k, view sF k = if slot_eqb k STotal then view s STotal - x
                                       else if slot_eqb k (SBal Md) then view s3 (SBal Md) - x else view s3 k).
    { intros k. unfold sF. rewrite Q1. rewrite N1. cbn [slot_eqb]. rewrite M2, Vtot3.
      destruct (slot_eqb k STotal); [reflexivity|]. rewrite T2, N1. destruct (slot_eqb k (SBal Md)); [reflexivity|]. apply M2. }
    unfold booksV. change (view (set_pend (x :: pend sF) (coins (- x) x sF))) with (view sF).
    change (escrow (set_pend (x :: pend sF) (coins (- x) x sF))) with (escrow sF + - x).
    rewrite VF. cbn [slot_eqb]. split; [lia|].
    rewrite (hsum_ext (view sF) (upd (view s3) (SBal Md) (view s3 (SBal Md) - x)) H).
    2:{ intros a _. rewrite VF. cbn [slot_eqb]. unfold upd. cbn [slot_eqb]. reflexivity. }
    rewrite hsum_upd by assumption. rewrite (existsb_in Md H HM).
    rewrite (hsum_ext (view s3) _ H (fun a _ => Vb3 a)).
    rewrite hsum_upd by assumption. rewrite (existsb_in Md H HM). rewrite hsum_upd by assumption. rewrite (existsb_in C H HC).
    rewrite Vb3. lia.
Qed.

Lemma mrun_outer H p : NoDup H -> In C H -> In Md H -> forallb outer_only p = true -> forallb (targets_in H) p = true ->
  forall s s', mrun p s = Some s' -> coh s -> booksV H s -> coh s' /\ booksV H s' /\ committed s' = committed s.
Proof.
  intros HN HC HM. induction p as [|i p IH]; cbn [mrun forallb]; intros Ho Ht s s' Hrun Hc Hb.
  - injection Hrun as <-. auto.
  - apply andb_true_iff in Ho as [Ho1 Ho2]. apply andb_true_iff in Ht as [Ht1 Ht2].
    destruct (mexec i s) as [s1|] eqn:E; [|discriminate].
    destruct (mexec_outer H i s s1 HN HC HM Ho1 Ht1 E Hc Hb) as [Hc1 [Hb1 Ec1]].
    destruct (IH Ho2 Ht2 s1 s' Hrun Hc1 Hb1) as [Hc2 [Hb2 Ec2]]. split; [assumption|split; [assumption|]].
    rewrite Ec2. exact Ec1.
Qed.

(* StateDB.Commit writes the view *)
Lemma commit_slots_spec d : forall seen og c k,
  (forall k' o, sget k' og = Some o -> ~ In k' seen -> o = sval k' c) ->
  sval k (commit_slots d seen og c) =
  if existsb (slot_eqb k) seen then sval k c
  else match sget k d with
       | Some v => v
       | None => sval k c
       end.
Proof.
  induction d as [|[k0 v0] d IH]; intros seen og c k Hcoh; cbn [commit_slots sget].
  - destruct (existsb (slot_eqb k) seen); reflexivity.
  - destruct (existsb (slot_eqb k0) seen) eqn:Es.
    + rewrite IH by assumption. destruct (existsb (slot_eqb k) seen) eqn:Ek; [reflexivity|].
      destruct (slot_eqb k k0) eqn:E; [|reflexivity]. apply slot_eqb_eq in E. subst. congruence.
    + assert (Hns : ~ In k0 seen).
      { intros Hin. assert (existsb (slot_eqb k0) seen = true) by (apply existsb_exists; exists k0; split; [assumption|apply slot_eqb_refl]). congruence. }
      destruct (sget k0 og) as [o|] eqn:Eo.
      * destruct (Z.eqb_spec o v0).
        -- subst. rewrite IH.
           2:{ intros k' o' Hk' Hn. apply Hcoh; [assumption|]. intros Hin. apply Hn. right. assumption. }
           cbn [existsb]. rewrite (slot_eqb_sym k k0). destruct (slot_eqb k0 k) eqn:E; cbn [orb].
           ++ apply slot_eqb_eq in E. subst. rewrite Es. symmetry. apply Hcoh; assumption.
           ++ reflexivity.
        -- rewrite IH.
           2:{ intros k' o' Hk' Hn. unfold sval. cbn [sget]. destruct (slot_eqb k' k0) eqn:E.
               - apply slot_eqb_eq in E. subst. exfalso. apply Hn. left. reflexivity.
               - apply Hcoh; [assumption|]. intros Hin. apply Hn. right. assumption. }
           cbn [existsb]. rewrite (slot_eqb_sym k k0). destruct (slot_eqb k0 k) eqn:E; cbn [orb].
           ++ apply slot_eqb_eq in E. subst. rewrite Es. unfold sval. cbn [sget]. rewrite slot_eqb_refl. reflexivity.
           ++ assert (Hs : sval k ((k0, v0) :: c) = sval k c) by (unfold sval; cbn [sget]; rewrite (slot_eqb_sym k k0), E; reflexivity).
              rewrite !Hs. reflexivity.
      * rewrite IH.
        2:{ intros k' o' Hk' Hn. unfold sval. cbn [sget]. destruct (slot_eqb k' k0) eqn:E.
            - apply slot_eqb_eq in E. subst. congruence.
            - apply Hcoh; [assumption|]. intros Hin. apply Hn. right. assumption. }
        cbn [existsb]. rewrite (slot_eqb_sym k k0). destruct (slot_eqb k0 k) eqn:E; cbn [orb].
        ++ apply slot_eqb_eq in E. subst. rewrite Es. unfold sval. cbn [sget]. rewrite slot_eqb_refl. reflexivity.
        ++ assert (Hs : sval k ((k0, v0) :: c) = sval k c) by (unfold sval; cbn [sget]; rewrite (slot_eqb_sym k k0), E; reflexivity).
           rewrite !Hs. reflexivity.
Qed.

Lemma commit_view s k : coh s -> sval k (committed (commit s)) = view s k.
Proof.
  intros Hc. unfold commit. cbn [committed]. rewrite commit_slots_spec.
  - cbn [existsb]. unfold view. destruct (sget k (dirty s)); [reflexivity|].
    destruct (sget k (origin s)) eqn:E; [|reflexivity]. symmetry. apply Hc. assumption.
  - intros k' o Hk _. apply Hc. assumption.
Qed.

Definition clean (s : mstate) : Prop := origin s = [] /\ dirty s = [].
Definition booksC (H : list Z) (s : mstate) : Prop :=
  sval STotal (committed s) = escrow s /\ hsum (fun k => sval k (committed s)) H = sval STotal (committed s).

Lemma clean_view s k : clean s -> view s k = sval k (committed s).
Proof. intros [Ho Hd]. unfold view. rewrite Ho, Hd. reflexivity. Qed.
Lemma clean_coh s : clean s -> coh s.
Proof. intros [Ho _] k v. rewrite Ho. discriminate. Qed.

(* B2: transactions that only go through the running EVM keep the books *)
Theorem outer_only_keeps_books H p s : NoDup H -> In C H -> In Md H ->
  forallb outer_only p = true -> forallb (targets_in H) p = true -> clean s -> booksC H s ->
  booksC H (fst (mtx p s)) /\ clean (fst (mtx p s)).
Proof.
  intros HN HC HM Ho Ht Hcl [B1 B2]. unfold mtx. destruct (mrun p s) as [s'|] eqn:E; cbn [fst]; [|split; [split|]; assumption].
  assert (Hb : booksV H s).
  { split; [rewrite clean_view; assumption|]. rewrite (hsum_ext (view s) (fun k => sval k (committed s)) H), clean_view; auto.
    intros; apply clean_view; assumption. }
  destruct (mrun_outer H p HN HC HM Ho Ht s s' E (clean_coh s Hcl) Hb) as [Hc' [[V1 V2] _]].
  split; [|split; reflexivity].
  split.
  - rewrite commit_view by assumption. cbn [escrow commit]. assumption.
  - rewrite (hsum_ext _ (view s') H); [rewrite commit_view by assumption; assumption|].
    intros a _. apply commit_view. assumption.
Qed.

(* B3: nested conversions (bridgeCall burn, cancel / executeClaim mint) that run before the contract has touched the token
   keep the books as well *)
Definition nested (i : instr) : bool := match i with MBridgeCall _ | MCancel | MExecClaim => true | _ => false end.

Lemma sval_cons k k' v m : sval k ((k', v) :: m) = if slot_eqb k k' then v else sval k m.
Proof. unfold sval. cbn [sget]. destruct (slot_eqb k k'); reflexivity. Qed.

Lemma nested_mint_books H x s : NoDup H -> In C H -> clean s -> booksC H s ->
  clean (nested_mint x s) /\ sval STotal (committed (nested_mint x s)) = sval STotal (committed s) + x /\
  hsum (fun k => sval k (committed (nested_mint x s))) H = hsum (fun k => sval k (committed s)) H + x /\
  escrow (nested_mint x s) = escrow s /\ pend (nested_mint x s) = pend s /\ claim (nested_mint x s) = claim s.
Proof.
  intros HN HC [Ho Hd] [B1 B2]. unfold nested_mint, cwrite. cbn [committed origin dirty escrow pend claim].
  split; [split; assumption|]. split; [rewrite !sval_cons; cbn [slot_eqb]; reflexivity|]. split; [|auto].
  rewrite (hsum_ext _ (upd (fun k => sval k (committed s)) (SBal C) (sval (SBal C) (committed s) + x)) H).
  - rewrite hsum_upd by assumption. rewrite (existsb_in C H HC). lia.
  - intros a _. rewrite !sval_cons. unfold upd. cbn [slot_eqb]. destruct (a =? C); reflexivity.
Qed.

Lemma nested_clean H i s s' : NoDup H -> In C H -> nested i = true -> clean s -> booksC H s -> mexec i s = Some s' ->
  clean s' /\ booksC H s'.
Proof.
  intros HN HC Hn Hcl Hb Hrun. destruct i; try discriminate Hn; cbn [mexec] in Hrun.
  - (* bridgeCall: nested burn *)
    destruct Hcl as [Ho Hd]. destruct Hb as [B1 B2].
    destruct (sval (SBal C) (committed s) <? x); [discriminate|].
    cbn [cwrite committed escrow] in Hrun.
    match type of Hrun with (if ?b then _ else _) = _ => destruct b; [discriminate|] end.
    injection Hrun as <-. split; [split; assumption|].
    unfold booksC, coins, cwrite. cbn [committed escrow].
    assert (S1 : forall k, sval k ((STotal, sval STotal ((SBal C, sval (SBal C) (committed s) - x) :: committed s) - x)
                                     :: (SBal C, sval (SBal C) (committed s) - x) :: committed s)
                           = upd (upd (fun k => sval k (committed s)) (SBal C) (sval (SBal C) (committed s) - x)) STotal
                                 (sval STotal (committed s) - x) k).
    { intros k. rewrite !sval_cons. unfold upd. cbn [slot_eqb]. destruct (slot_eqb k STotal) eqn:E1; [reflexivity|].
      destruct (slot_eqb k (SBal C)); reflexivity. }
    rewrite S1. unfold upd at 1. cbn [slot_eqb]. split; [lia|].
    rewrite (hsum_ext _ _ H (fun a _ => S1 (SBal a))).
    rewrite hsum_upd_other by (intros; discriminate). rewrite hsum_upd by assumption. rewrite (existsb_in C H HC).
    unfold upd. cbn [slot_eqb]. lia.
  - (* cancel: nested mint of the refund *)
    destruct (pend s) as [|x r]; [discriminate|]. injection Hrun as <-.
    destruct (nested_mint_books H x s HN HC Hcl Hb) as [Hc1 [T1 [S1 [E1 _]]]]. destruct Hb as [B1 B2].
    split; [exact Hc1|]. unfold booksC, set_pend, coins. cbn [committed escrow]. rewrite T1, S1, E1. lia.
  - (* executeClaim: nested mint of the deposit *)
    destruct (claim s) as [q|]; [|discriminate]. injection Hrun as <-.
    destruct (nested_mint_books H q s HN HC Hcl Hb) as [Hc1 [T1 [S1 [E1 _]]]]. destruct Hb as [B1 B2].
    split; [exact Hc1|]. unfold booksC, set_claim, coins. cbn [committed escrow]. rewrite T1, S1, E1. lia.
Qed.

Theorem nested_first_keep_books H pre q s : NoDup H -> In C H -> In Md H ->
  forallb nested pre = true -> forallb outer_only q = true -> forallb (targets_in H) q = true -> clean s -> booksC H s ->
  booksC H (fst (mtx (pre ++ q) s)) /\ clean (fst (mtx (pre ++ q) s)).
Proof.
  intros HN HC HM Hpre Ho Ht. unfold mtx.
  assert (G : forall pre s, forallb nested pre = true -> clean s -> booksC H s ->
              match mrun (pre ++ q) s with
              | Some s' => exists s1, clean s1 /\ booksC H s1 /\ mrun q s1 = Some s'
              | None => True end).
  { induction pre0 as [|i pre0 IH]; intros s0 Hp Hcl Hb; cbn [app mrun].
    - destruct (mrun q s0) eqn:E; [eauto|exact I].
    - cbn [forallb] in Hp. apply andb_true_iff in Hp as [Hi Hp].
      destruct (mexec i s0) as [s1|] eqn:E; [|exact I].
      destruct (nested_clean H i s0 s1 HN HC Hi Hcl Hb E) as [Hcl1 Hb1]. apply IH; assumption. }
  intros Hcl Hb. specialize (G pre s Hpre Hcl Hb).
  destruct (mrun (pre ++ q) s) as [s'|] eqn:E; cbn [fst]; [|split; assumption].
  destruct G as [s1 [Hcl1 [Hb1 Hq]]].
  pose proof (outer_only_keeps_books H q s1 HN HC HM Ho Ht Hcl1 Hb1) as R. unfold mtx in R. rewrite Hq in R. exact R.
Qed.

(* B1: the general statement is FALSE of the faithful model: transfer, then bridgeCall of the same token *)
Definition mix_s0 : mstate :=
  {| committed := [(STotal, 100); (SBal C, 100)]; origin := []; dirty := []; escrow := 100; out := 40; pend := [40]; claim := Some 25 |}.
Definition mix_prog : list instr := [MTransfer 300 30; MBridgeCall 50].

Theorem mixed_bridgecall_refuted :
  exists p s, clean s /\ books_ok [C; 300; Md] s = true /\
    let s' := fst (mtx p s) in
    snd (mtx p s) = true /\ books_ok [C; 300; Md] s' = false /\
    (* the contract bridged 50 out and still holds 70 of its 100: 50 tokens were created *)
    sval (SBal C) (committed s') = 70 /\ sval (SBal 300) (committed s') = 30 /\ sval STotal (committed s') = 50 /\
    escrow s' = 50 /\ out s' = 90.
Proof. exists mix_prog, mix_s0. vm_compute. repeat split; reflexivity. Qed.

(* the same hazard through a nested MINT: token.transfer(X,30) then cancelSendToExternal of the contract's own transfer of 40
   (or executeClaim of a deposit of 25 for the contract): the minted refund / deposit is overwritten, the contract loses it *)
Theorem mixed_mint_refuted :
  books_ok [C; 300; Md] (fst (mtx [MTransfer 300 30; MCancel] mix_s0)) = false /\
  sval (SBal C) (committed (fst (mtx [MTransfer 300 30; MCancel] mix_s0))) = 70 /\
  sval STotal (committed (fst (mtx [MTransfer 300 30; MCancel] mix_s0))) = 140 /\
  books_ok [C; 300; Md] (fst (mtx [MBalanceOf C; MExecClaim; MTransfer 300 1] mix_s0)) = false /\
  sval (SBal C) (committed (fst (mtx [MBalanceOf C; MExecClaim; MTransfer 300 1] mix_s0))) = 99 /\
  sval STotal (committed (fst (mtx [MBalanceOf C; MExecClaim; MTransfer 300 1] mix_s0))) = 125.
Proof. vm_compute. repeat split; reflexivity. Qed.

Example mixed_nonvacuous :
  let s' := fst (mtx [MApprove Pc 40; MTransfer 300 30; MCrossChain 40; MBalanceOf C] mix_s0) in
  snd (mtx [MApprove Pc 40; MTransfer 300 30; MCrossChain 40; MBalanceOf C] mix_s0) = true /\
  books_ok [C; 300; Md] s' = true /\ sval (SBal C) (committed s') = 30 /\ sval STotal (committed s') = 60 /\ out s' = 80 /\
  (let s2 := fst (mtx [MBridgeCall 50; MTransfer 300 30] mix_s0) in
   books_ok [C; 300; Md] s2 = true /\ sval (SBal C) (committed s2) = 20).
Proof. vm_compute. repeat split; reflexivity. Qed.

(* ======================================================================================================= *)
(** * PART A: the denom, contract and alias indexes describe the same set of pairs *)

Lemma oget_oset {V} k k' (v : V) m : oget k (oset k' v m) = if k =? k' then Some v else oget k m.
Proof. reflexivity. Qed.
Lemma oget_odel {V} k k' (m : omap V) : oget k (odel k' m) = if k =? k' then None else oget k m.
Proof. reflexivity. Qed.
Lemma inZ_In x l : inZ x l = true <-> In x l.
Proof.
  unfold inZ. rewrite existsb_exists. split.
  - intros [y [Hy E]]. apply Z.eqb_eq in E. subst. assumption.
  - intros H. exists x. split; [assumption|apply Z.eqb_refl].
Qed.
Lemma inZ_false x l : inZ x l = false <-> ~ In x l.
Proof. rewrite <- inZ_In. destruct (inZ x l); intuition congruence. Qed.
Lemma set_aliases_spec d l : forall m a, oget a (set_aliases d l m) = if inZ a l then Some d else oget a m.
Proof.
  unfold set_aliases. induction l as [|x l IH]; intros m a; cbn [fold_left inZ existsb]; [reflexivity|].
  rewrite IH. fold (inZ a l). rewrite oget_oset. destruct (inZ a l); [rewrite orb_true_r; reflexivity|].
  rewrite orb_false_r. reflexivity.
Qed.
Lemma del_aliases_spec l : forall m a, oget a (del_aliases l m) = if inZ a l then None else oget a m.
Proof.
  unfold del_aliases. induction l as [|x l IH]; intros m a; cbn [fold_left inZ existsb]; [reflexivity|].
  rewrite IH. fold (inZ a l). rewrite (@oget_odel Z). destruct (inZ a l); [rewrite orb_true_r; reflexivity|].
  rewrite orb_false_r. reflexivity.
Qed.
Lemma pid_eqb_eq a b : pid_eqb a b = true <-> a = b.
Proof. destruct a, b. unfold pid_eqb. cbn. rewrite andb_true_iff, !Z.eqb_eq. split; [intros [-> ->]|intros [= -> ->]]; auto. Qed.
Lemma eq_aliases_eq a : forall b, eq_aliases a b = true -> a = b.
Proof.
  unfold eq_aliases. induction a as [|x a IH]; intros [|y b] H.
  - reflexivity.
  - apply andb_true_iff in H as [H1 _]. apply Z.eqb_eq in H1. cbn [length] in H1. lia.
  - apply andb_true_iff in H as [H1 _]. apply Z.eqb_eq in H1. cbn [length] in H1. lia.
  - apply andb_true_iff in H as [H1 H2]. apply Z.eqb_eq in H1. cbn [length] in H1. cbn [combine forallb fst snd] in H2.
    apply andb_true_iff in H2 as [H2 H3]. apply Z.eqb_eq in H2. subst. f_equal. apply IH.
    apply andb_true_iff. split; [apply Z.eqb_eq; lia|assumption].
Qed.
Lemma ohas_true {V} k (m : omap V) : ohas k m = true <-> exists v, oget k m = Some v.
Proof. unfold ohas. destruct (oget k m); split; eauto; try discriminate. intros [v [=]]. Qed.
Lemma ohas_false {V} k (m : omap V) : ohas k m = false <-> oget k m = None.
Proof. unfold ohas. destruct (oget k m); split; congruence. Qed.

Definition metal (s : istate) (d : Z) : list Z := match oget d (meta s) with Some l => l | None => [] end.

Record idx_ok (s : istate) : Prop := {
  I_pair : forall id p, pget id (pairs s) = Some p ->
             id = (pr_erc p, pr_denom p) /\ oget (pr_denom p) (by_denom s) = Some id /\ oget (pr_erc p) (by_erc s) = Some id;
  I_denom : forall d id, oget d (by_denom s) = Some id -> exists p, pget id (pairs s) = Some p /\ pr_denom p = d;
  I_erc : forall e id, oget e (by_erc s) = Some id -> exists p, pget id (pairs s) = Some p /\ pr_erc p = e;
  I_alias : forall a d, oget a (alias s) = Some d -> ohas d (by_denom s) = true /\ In a (metal s d) /\ ohas a (by_denom s) = false;
  I_meta : forall d a, ohas d (by_denom s) = true -> In a (metal s d) -> oget a (alias s) = Some d
}.

Record pidx_ok (s : istate) : Prop := {
  PI_pair : forall id p, pget id (pairs s) = Some p ->
             id = (pr_erc p, pr_denom p) /\ oget (pr_denom p) (by_denom s) = Some id /\ oget (pr_erc p) (by_erc s) = Some id;
  PI_denom : forall d id, oget d (by_denom s) = Some id -> exists p, pget id (pairs s) = Some p /\ pr_denom p = d;
  PI_erc : forall e id, oget e (by_erc s) = Some id -> exists p, pget id (pairs s) = Some p /\ pr_erc p = e
}.
Lemma idx_ok_pidx s : idx_ok s -> pidx_ok s.
Proof. intros [P1 P2 P3 _ _]. constructor; assumption. Qed.

Definition i_empty : istate := {| pairs := []; by_denom := []; by_erc := []; alias := []; meta := []; mstyle := [] |}.
Lemma idx_ok_empty : idx_ok i_empty.
Proof. constructor; cbn; intros; try discriminate. Qed.

(* registering a fresh pair (denom, contract) together with its alias list *)
Lemma idx_ok_register s base al c mo newmeta st :
  idx_ok s -> ohas base (by_denom s) = false -> ohas base (alias s) = false -> ohas c (by_erc s) = false ->
  forallb (alias_free s base) al = true ->
  (newmeta = oset base al (meta s) \/ (newmeta = meta s /\ oget base (meta s) = Some al)) ->
  idx_ok (add_pair {| pr_erc := c; pr_denom := base; pr_enabled := true; pr_module_owned := mo |}
            {| pairs := pairs s; by_denom := by_denom s; by_erc := by_erc s; alias := set_aliases base al (alias s); meta := newmeta; mstyle := st |}).
Proof.
  intros [P1 P2 P3 P4 P5] Hb Hba Hc Hal Hm.
  apply ohas_false in Hb, Hba, Hc.
  assert (Hfree : forall a, In a al -> a <> base /\ oget a (by_denom s) = None /\ oget a (alias s) = None).
  { intros a Ha. rewrite forallb_forall in Hal. specialize (Hal a Ha). unfold alias_free in Hal.
    apply andb_true_iff in Hal as [Hal H3]. apply andb_true_iff in Hal as [H1 H2].
    apply negb_true_iff in H1, H2, H3. apply Z.eqb_neq in H1. apply ohas_false in H2, H3. auto. }
  assert (Hmetal : forall d, metal {| pairs := pairs s; by_denom := by_denom s; by_erc := by_erc s; alias := alias s; meta := newmeta; mstyle := st |} d
                             = if d =? base then al else metal s d).
  { intros d. unfold metal. cbn [meta]. destruct Hm as [->|[-> E]].
    - rewrite oget_oset. destruct (d =? base); reflexivity.
    - destruct (Z.eqb_spec d base); [subst; rewrite E|]; reflexivity. }
  unfold add_pair. cbn [pr_erc pr_denom pairs by_denom by_erc alias meta mstyle].
  constructor; cbn [pairs by_denom by_erc alias meta pget].
  - intros id p. destruct (pid_eqb id (c, base)) eqn:E.
    + apply pid_eqb_eq in E. subst. intros [= <-]. cbn [pr_erc pr_denom]. rewrite !oget_oset, !Z.eqb_refl. auto.
    + intros Hp. destruct (P1 id p Hp) as [E1 [E2 E3]]. split; [assumption|]. rewrite !oget_oset.
      destruct (Z.eqb_spec (pr_denom p) base) as [Ed|Ed]; [rewrite Ed in E2; congruence|].
      destruct (Z.eqb_spec (pr_erc p) c) as [Ee|Ee]; [rewrite Ee in E3; congruence|]. auto.
  - intros d id. rewrite oget_oset. destruct (Z.eqb_spec d base).
    + intros [= <-]. subst. rewrite (proj2 (pid_eqb_eq (c, base) (c, base)) eq_refl). eauto.
    + intros Hd. destruct (P2 d id Hd) as [p [Hp Ep]]. exists p. split; [|assumption].
      destruct (pid_eqb id (c, base)) eqn:E; [|assumption]. apply pid_eqb_eq in E. subst.
      destruct (P1 _ _ Hp) as [E1 _]. injection E1 as E1 E2. congruence.
  - intros e id. rewrite oget_oset. destruct (Z.eqb_spec e c).
    + intros [= <-]. subst. rewrite (proj2 (pid_eqb_eq (c, base) (c, base)) eq_refl). eauto.
    + intros He. destruct (P3 e id He) as [p [Hp Ep]]. exists p. split; [|assumption].
      destruct (pid_eqb id (c, base)) eqn:E; [|assumption]. apply pid_eqb_eq in E. subst.
      destruct (P1 _ _ Hp) as [E1 _]. injection E1 as E1 E2. congruence.
  - intros a d. rewrite set_aliases_spec. unfold ohas. rewrite !oget_oset.
    fold (metal {| pairs := pairs s; by_denom := by_denom s; by_erc := by_erc s; alias := alias s; meta := newmeta; mstyle := st |} d).
    unfold metal at 1. cbn [meta]. 
    change (match oget d newmeta with Some l => l | None => [] end)
      with (metal {| pairs := pairs s; by_denom := by_denom s; by_erc := by_erc s; alias := alias s; meta := newmeta; mstyle := st |} d).
    rewrite Hmetal.
    destruct (inZ a al) eqn:Ea.
    + intros [= <-]. rewrite Z.eqb_refl. apply inZ_In in Ea. destruct (Hfree a Ea) as [F1 [F2 F3]].
      rewrite (proj2 (Z.eqb_neq a base) F1), F2. auto.
    + intros Ha. destruct (P4 a d Ha) as [Q1 [Q2 Q3]]. apply ohas_true in Q1 as [v Q1]. apply ohas_false in Q3.
      destruct (Z.eqb_spec d base); [subst; congruence|]. rewrite Q1.
      destruct (Z.eqb_spec a base); [subst; congruence|]. rewrite Q3. auto.
  - intros d a. unfold ohas. rewrite oget_oset, set_aliases_spec.
    change (metal {| pairs := (c, base, Some {| pr_erc := c; pr_denom := base; pr_enabled := true; pr_module_owned := mo |}) :: pairs s;
                     by_denom := oset base (c, base) (by_denom s); by_erc := oset c (c, base) (by_erc s);
                     alias := set_aliases base al (alias s); meta := newmeta; mstyle := st |} d)
      with (metal {| pairs := pairs s; by_denom := by_denom s; by_erc := by_erc s; alias := alias s; meta := newmeta; mstyle := st |} d).
    rewrite Hmetal. destruct (Z.eqb_spec d base).
    + subst. intros _ Ha. rewrite (proj2 (inZ_In a al) Ha). reflexivity.
    + intros Hd Ha. assert (Hd' : ohas d (by_denom s) = true) by (unfold ohas; destruct (oget d (by_denom s)); [reflexivity|discriminate]).
      pose proof (P5 d a Hd' Ha) as Q. destruct (inZ a al) eqn:Ea; [|assumption].
      apply inZ_In in Ea. destruct (Hfree a Ea) as [_ [_ F3]]. congruence.
Qed.

(* an operation that is not an export + import of the variant that drops the alias index *)
Definition no_export (o : iop) : bool := match o with IExportImport false => false | _ => true end.

(* --- the rebuilt alias index is, on consistent indexes, exactly the alias index that was exported --- *)
Lemma metal_meta_aliases s d : meta_aliases s d = metal s d.
Proof. reflexivity. Qed.
Lemma rebuild_sound s l a d : oget a (rebuild_from s l) = Some d -> ohas d (by_denom s) = true /\ In a (metal s d).
Proof.
  induction l as [|[d0 v] l IH]; cbn [rebuild_from fold_right fst]; [discriminate|].
  fold (rebuild_from s l). destruct (ohas d0 (by_denom s)) eqn:E; [|exact IH].
  rewrite set_aliases_spec. destruct (inZ a (meta_aliases s d0)) eqn:Ea; [|exact IH].
  intros [= <-]. split; [assumption|]. apply inZ_In. exact Ea.
Qed.
Lemma rebuild_complete s l a d v : In (d, v) l -> ohas d (by_denom s) = true -> In a (metal s d) ->
  exists d', oget a (rebuild_from s l) = Some d'.
Proof.
  induction l as [|[d0 v0] l IH]; intros Hin Hd Ha; [destruct Hin|]. cbn [rebuild_from fold_right fst]. fold (rebuild_from s l).
  destruct (ohas d0 (by_denom s)) eqn:E.
  - rewrite set_aliases_spec. destruct (inZ a (meta_aliases s d0)) eqn:Ea; [eauto|].
    destruct Hin as [[= -> ->]|Hin]; [|eauto]. apply inZ_false in Ea. contradiction.
  - destruct Hin as [[= -> ->]|Hin]; [congruence|eauto].
Qed.
Lemma oget_some_in {V} k (m : omap V) v : oget k m = Some v -> exists w, In (k, w) m.
Proof.
  induction m as [|[k' w] m IH]; cbn [oget]; [discriminate|]. destruct (Z.eqb_spec k k').
  - subst. intros _. exists w. left. reflexivity.
  - intros H. destruct (IH H) as [w' Hw]. exists w'. right. assumption.
Qed.
Lemma rebuild_identity s a : idx_ok s -> oget a (rebuild_aliases s) = oget a (alias s).
Proof.
  intros [P1 P2 P3 P4 P5]. unfold rebuild_aliases. destruct (oget a (rebuild_from s (by_denom s))) as [d|] eqn:E.
  - apply rebuild_sound in E as [Hd Ha]. symmetry. apply P5; assumption.
  - destruct (oget a (alias s)) as [d|] eqn:Ea; [|reflexivity]. exfalso.
    destruct (P4 a d Ea) as [Hd [Ha _]]. pose proof Hd as Hd'. apply ohas_true in Hd' as [id Hid].
    destruct (oget_some_in _ _ _ Hid) as [w Hw].
    destruct (rebuild_complete s (by_denom s) a d w Hw Hd Ha) as [d' Hd'']. congruence.
Qed.
Lemma idx_ok_rebuild s : idx_ok s ->
  idx_ok {| pairs := pairs s; by_denom := by_denom s; by_erc := by_erc s; alias := rebuild_aliases s; meta := meta s; mstyle := mstyle s |}.
Proof.
  intros Hok. pose proof (fun a => rebuild_identity s a Hok) as R. destruct Hok as [P1 P2 P3 P4 P5].
  constructor; cbn [pairs by_denom by_erc alias meta]; try assumption.
  - intros a d. rewrite R. intros H. destruct (P4 a d H) as [Q1 [Q2 Q3]]. auto.
  - intros d a Hd Ha. rewrite R. apply P5; assumption.
Qed.

Lemma irun_ok o s s' : no_export o = true -> idx_ok s -> irun o s = Some s' -> idx_ok s'.
Proof.
  intros Hnx Hok H. destruct o; cbn [irun] in H.
  - (* RegisterCoin *)
    destruct (ohas base (by_denom s)) eqn:E1; [discriminate|]. destruct (ohas base (alias s)) eqn:E2; [discriminate|].
    destruct (forallb (alias_free s base) aliases) eqn:E3; [|discriminate]. destruct (nodupZ aliases); [|discriminate].
    destruct (ohas contract (by_erc s)) eqn:E4; [discriminate|]. cbn [orb negb] in H.
    destruct (oget base (meta s)) as [old|] eqn:Em.
    + destruct (eq_aliases old aliases) eqn:Ee; [|discriminate]. apply eq_aliases_eq in Ee. subst old.
      cbn [andb] in H. destruct (match oget base (mstyle s) with Some 1 => true | _ => false end); [|discriminate].
      injection H as <-. apply idx_ok_register; auto.
    + injection H as <-. apply idx_ok_register; auto.
  - (* RegisterERC20 *)
    destruct (ohas contract (by_erc s)) eqn:E4; [discriminate|]. destruct (ohas base (by_denom s)) eqn:E1; [discriminate|].
    destruct (ohas base (alias s)) eqn:E2; [discriminate|].
    destruct (forallb (alias_free s base) aliases) eqn:E3; [|discriminate]. destruct (nodupZ aliases); [|discriminate].
    destruct (ohas base (meta s)); [discriminate|]. cbn [orb negb] in H. injection H as <-. apply idx_ok_register; auto.
  - (* Toggle *)
    destruct (oget k (if by_contract then by_erc s else by_denom s)) as [id|] eqn:Ek; [|discriminate].
    destruct (pget id (pairs s)) as [p|] eqn:Ep; [|discriminate]. injection H as <-.
    destruct Hok as [P1 P2 P3 P4 P5]. constructor; cbn [pairs by_denom by_erc alias meta pget]; try assumption.
    + intros id' p'. destruct (pid_eqb id' id) eqn:E.
      * apply pid_eqb_eq in E. subst. intros [= <-]. cbn [pr_erc pr_denom]. apply P1. assumption.
      * apply P1.
    + intros d id' Hd. destruct (P2 d id' Hd) as [p' [Hp' Ed]]. destruct (pid_eqb id' id) eqn:E.
      * apply pid_eqb_eq in E. subst. rewrite Ep in Hp'. injection Hp' as <-. eexists. split; [reflexivity|reflexivity].
      * eauto.
    + intros e id' He. destruct (P3 e id' He) as [p' [Hp' Ee]]. destruct (pid_eqb id' id) eqn:E.
      * apply pid_eqb_eq in E. subst. rewrite Ep in Hp'. injection Hp' as <-. eexists. split; [reflexivity|reflexivity].
      * eauto.
  - (* UpdateAlias *)
    destruct (ohas denom (by_denom s)) eqn:E1; [|discriminate]. destruct (ohas a (by_denom s)) eqn:E2; [discriminate|].
    cbn [negb orb] in H. destruct (oget denom (meta s)) as [old|] eqn:Em; [|discriminate].
    destruct Hok as [P1 P2 P3 P4 P5].
    assert (Hold : metal s denom = old) by (unfold metal; rewrite Em; reflexivity).
    destruct (oget a (alias s)) as [d'|] eqn:Ea.
    + destruct (Z.eqb_spec d' denom); [|discriminate]. subst d'. injection H as <-.
      constructor; cbn [pairs by_denom by_erc alias meta]; try assumption.
      * intros a' d. rewrite (@oget_odel Z). destruct (Z.eqb_spec a' a); [discriminate|]. intros Ha'.
        destruct (P4 a' d Ha') as [Q1 [Q2 Q3]]. split; [assumption|]. split; [|assumption].
        unfold metal. cbn [meta]. rewrite oget_oset. destruct (Z.eqb_spec d denom); [|exact Q2].
        subst d. rewrite Hold in Q2. apply filter_In. split; [assumption|]. apply negb_true_iff, Z.eqb_neq. assumption.
      * intros d a' Hd. unfold metal. cbn [meta]. rewrite oget_oset, (@oget_odel Z). destruct (Z.eqb_spec d denom).
        -- subst d. intros Hin. apply filter_In in Hin as [Hin Hne]. apply negb_true_iff, Z.eqb_neq in Hne.
           rewrite (proj2 (Z.eqb_neq a' a) Hne). apply P5; [assumption|]. rewrite Hold. assumption.
        -- intros Hin. pose proof (P5 d a' Hd Hin) as Q. destruct (Z.eqb_spec a' a); [subst; congruence|assumption].
    + injection H as <-. constructor; cbn [pairs by_denom by_erc alias meta]; try assumption.
      * intros a' d. rewrite oget_oset. destruct (Z.eqb_spec a' a).
        -- subst a'. intros [= <-]. split; [assumption|]. split; [|assumption]. unfold metal. cbn [meta]. rewrite oget_oset, Z.eqb_refl.
           apply in_or_app. right. left. reflexivity.
        -- intros Ha'. destruct (P4 a' d Ha') as [Q1 [Q2 Q3]]. split; [assumption|]. split; [|assumption].
           unfold metal. cbn [meta]. rewrite oget_oset. destruct (Z.eqb_spec d denom); [|exact Q2].
           subst d. rewrite Hold in Q2. apply in_or_app. left. assumption.
      * intros d a' Hd. unfold metal. cbn [meta]. rewrite !oget_oset. destruct (Z.eqb_spec d denom).
        -- subst d. intros Hin. apply in_app_or in Hin as [Hin|[<-|[]]]; [|rewrite Z.eqb_refl; reflexivity].
           pose proof (P5 denom a' Hd) as Q. rewrite Hold in Q. specialize (Q Hin).
           destruct (Z.eqb_spec a' a); [subst; congruence|assumption].
        -- intros Hin. pose proof (P5 d a' Hd Hin) as Q. destruct (Z.eqb_spec a' a); [subst; congruence|assumption].
  - (* Remove *)
    destruct (oget denom (by_denom s)) as [id|] eqn:Ed; [|discriminate].
    destruct (pget id (pairs s)) as [p|] eqn:Ep; [|discriminate]. destruct (negb (pr_enabled p)); [discriminate|]. injection H as <-.
    destruct Hok as [P1 P2 P3 P4 P5].
    destruct (P1 id p Ep) as [Eid [Ebd Ebe]].
    assert (Hdel : forall a', oget a' (match oget (pr_denom p) (meta s) with Some (a0 :: al) => del_aliases (a0 :: al) (alias s) | _ => alias s end)
                             = if inZ a' (metal s (pr_denom p)) then None else oget a' (alias s)).
    { intros a'. unfold metal. destruct (oget (pr_denom p) (meta s)) as [[|a0 al]|]; [reflexivity| |reflexivity].
      apply del_aliases_spec. }
    constructor; cbn [pairs by_denom by_erc alias meta pget].
    + intros id' p'. destruct (pid_eqb id' id) eqn:E; [discriminate|]. intros Hp'.
      destruct (P1 id' p' Hp') as [E1 [E2 E3]]. split; [assumption|]. rewrite !(@oget_odel pid).
      destruct (Z.eqb_spec (pr_denom p') (pr_denom p)) as [Eq|Eq]; [rewrite Eq in E2; rewrite E2 in Ebd; injection Ebd as ->; rewrite (proj2 (pid_eqb_eq id id) eq_refl) in E; discriminate|].
      destruct (Z.eqb_spec (pr_erc p') (pr_erc p)) as [Eq2|Eq2]; [rewrite Eq2 in E3; rewrite E3 in Ebe; injection Ebe as ->; rewrite (proj2 (pid_eqb_eq id id) eq_refl) in E; discriminate|].
      auto.
    + intros d id'. rewrite (@oget_odel pid). destruct (Z.eqb_spec d (pr_denom p)); [discriminate|]. intros Hd.
      destruct (P2 d id' Hd) as [p' [Hp' Ed']]. exists p'. split; [|assumption].
      destruct (pid_eqb id' id) eqn:E; [|assumption]. apply pid_eqb_eq in E. subst id'. rewrite Ep in Hp'. injection Hp' as <-. congruence.
    + intros e id'. rewrite (@oget_odel pid). destruct (Z.eqb_spec e (pr_erc p)); [discriminate|]. intros He.
      destruct (P3 e id' He) as [p' [Hp' Ee']]. exists p'. split; [|assumption].
      destruct (pid_eqb id' id) eqn:E; [|assumption]. apply pid_eqb_eq in E. subst id'. rewrite Ep in Hp'. injection Hp' as <-. congruence.
    + intros a' d. rewrite Hdel. destruct (inZ a' (metal s (pr_denom p))) eqn:Ein; [discriminate|]. intros Ha'.
      destruct (P4 a' d Ha') as [Q1 [Q2 Q3]]. unfold ohas. rewrite !(@oget_odel pid).
      destruct (Z.eqb_spec d (pr_denom p)).
      * subst. apply inZ_false in Ein. contradiction.
      * apply ohas_true in Q1 as [v Q1]. rewrite Q1. apply ohas_false in Q3.
        destruct (Z.eqb_spec a' (pr_denom p)); [|rewrite Q3]; auto.
    + intros d a'. unfold ohas. rewrite (@oget_odel pid). destruct (Z.eqb_spec d (pr_denom p)); [discriminate|]. intros Hd Hin.
      assert (Hd' : ohas d (by_denom s) = true) by (unfold ohas; destruct (oget d (by_denom s)); [reflexivity|discriminate]).
      pose proof (P5 d a' Hd' Hin) as Q. rewrite Hdel. destruct (inZ a' (metal s (pr_denom p))) eqn:Ein; [|assumption].
      apply inZ_In in Ein. assert (Hr : ohas (pr_denom p) (by_denom s) = true) by (apply ohas_true; eauto).
      pose proof (P5 _ _ Hr Ein). congruence.
  - (* ExportImport *) destruct rebuild; [|cbn [no_export] in Hnx; discriminate]. injection H as <-. apply idx_ok_rebuild. assumption.
Qed.

(* over every history whose genesis exports + imports (if any) rebuild the alias index from the bank metadata, all four
   indexes and the bank metadata stay consistent *)
Theorem indexes_consistent ops : forallb no_export ops = true -> forall s, idx_ok s -> idx_ok (isteps s ops).
Proof.
  induction ops as [|o ops IH]; intros Hne s Hs; cbn [isteps fold_left]; [assumption|].
  cbn [forallb] in Hne. apply andb_true_iff in Hne as [Ho Hne].
  fold (isteps (fst (istep s o)) ops). apply IH; [assumption|]. unfold istep. destruct (irun o s) eqn:E; cbn [fst]; [|assumption].
  eapply irun_ok; eassumption.
Qed.

(* the pair store, the denom index and the contract index stay consistent over EVERY history, exports + imports included *)
Lemma pidx_ok_register s base c mo al' meta' st :
  pidx_ok s -> ohas base (by_denom s) = false -> ohas c (by_erc s) = false ->
  pidx_ok (add_pair {| pr_erc := c; pr_denom := base; pr_enabled := true; pr_module_owned := mo |}
             {| pairs := pairs s; by_denom := by_denom s; by_erc := by_erc s; alias := al'; meta := meta'; mstyle := st |}).
Proof.
  intros [P1 P2 P3] Hb Hc. apply ohas_false in Hb, Hc.
  unfold add_pair. cbn [pr_erc pr_denom pairs by_denom by_erc alias meta mstyle].
  constructor; cbn [pairs by_denom by_erc alias meta pget].
  - intros id p. destruct (pid_eqb id (c, base)) eqn:E.
    + apply pid_eqb_eq in E. subst. intros [= <-]. cbn [pr_erc pr_denom]. rewrite !oget_oset, !Z.eqb_refl. auto.
    + intros Hp. destruct (P1 id p Hp) as [E1 [E2 E3]]. split; [assumption|]. rewrite !oget_oset.
      destruct (Z.eqb_spec (pr_denom p) base) as [Ed|Ed]; [rewrite Ed in E2; congruence|].
      destruct (Z.eqb_spec (pr_erc p) c) as [Ee|Ee]; [rewrite Ee in E3; congruence|]. auto.
  - intros d id. rewrite oget_oset. destruct (Z.eqb_spec d base).
    + intros [= <-]. subst. rewrite (proj2 (pid_eqb_eq (c, base) (c, base)) eq_refl). eauto.
    + intros Hd. destruct (P2 d id Hd) as [p [Hp Ep]]. exists p. split; [|assumption].
      destruct (pid_eqb id (c, base)) eqn:E; [|assumption]. apply pid_eqb_eq in E. subst.
      destruct (P1 _ _ Hp) as [E1 _]. injection E1 as E1 E2. congruence.
  - intros e id. rewrite oget_oset. destruct (Z.eqb_spec e c).
    + intros [= <-]. subst. rewrite (proj2 (pid_eqb_eq (c, base) (c, base)) eq_refl). eauto.
    + intros He. destruct (P3 e id He) as [p [Hp Ep]]. exists p. split; [|assumption].
      destruct (pid_eqb id (c, base)) eqn:E; [|assumption]. apply pid_eqb_eq in E. subst.
      destruct (P1 _ _ Hp) as [E1 _]. injection E1 as E1 E2. congruence.
Qed.

Lemma irun_pidx_ok o s s' : pidx_ok s -> irun o s = Some s' -> pidx_ok s'.
Proof.
  intros Hok H. destruct o; cbn [irun] in H.
  - (* RegisterCoin *)
    destruct (ohas base (by_denom s)) eqn:E1; [discriminate|]. destruct (ohas base (alias s)) eqn:E2; [discriminate|].
    destruct (forallb (alias_free s base) aliases) eqn:E3; [|discriminate]. destruct (nodupZ aliases); [|discriminate].
    destruct (ohas contract (by_erc s)) eqn:E4; [discriminate|]. cbn [orb negb] in H.
    destruct (oget base (meta s)) as [old|] eqn:Em.
    + destruct (eq_aliases old aliases && match oget base (mstyle s) with Some 1 => true | _ => false end); [|discriminate].
      injection H as <-. apply pidx_ok_register; auto.
    + injection H as <-. apply pidx_ok_register; auto.
  - (* RegisterERC20 *)
    destruct (ohas contract (by_erc s)) eqn:E4; [discriminate|]. destruct (ohas base (by_denom s)) eqn:E1; [discriminate|].
    destruct (ohas base (alias s)) eqn:E2; [discriminate|].
    destruct (forallb (alias_free s base) aliases) eqn:E3; [|discriminate]. destruct (nodupZ aliases); [|discriminate].
    destruct (ohas base (meta s)); [discriminate|]. cbn [orb negb] in H. injection H as <-. apply pidx_ok_register; auto.
  - (* Toggle *)
    destruct (oget k (if by_contract then by_erc s else by_denom s)) as [id|] eqn:Ek; [|discriminate].
    destruct (pget id (pairs s)) as [p|] eqn:Ep; [|discriminate]. injection H as <-.
    destruct Hok as [P1 P2 P3]. constructor; cbn [pairs by_denom by_erc alias meta pget]; try assumption.
    + intros id' p'. destruct (pid_eqb id' id) eqn:E.
      * apply pid_eqb_eq in E. subst. intros [= <-]. cbn [pr_erc pr_denom]. apply P1. assumption.
      * apply P1.
    + intros d id' Hd. destruct (P2 d id' Hd) as [p' [Hp' Ed]]. destruct (pid_eqb id' id) eqn:E.
      * apply pid_eqb_eq in E. subst. rewrite Ep in Hp'. injection Hp' as <-. eexists. split; [reflexivity|reflexivity].
      * eauto.
    + intros e id' He. destruct (P3 e id' He) as [p' [Hp' Ee]]. destruct (pid_eqb id' id) eqn:E.
      * apply pid_eqb_eq in E. subst. rewrite Ep in Hp'. injection Hp' as <-. eexists. split; [reflexivity|reflexivity].
      * eauto.
  - (* UpdateAlias *)
    destruct (negb (ohas denom (by_denom s)) || ohas a (by_denom s)); [discriminate|].
    destruct (oget denom (meta s)) as [old|]; [|discriminate].
    destruct Hok as [P1 P2 P3].
    destruct (oget a (alias s)) as [d'|].
    + destruct (d' =? denom); [|discriminate]. injection H as <-. constructor; assumption.
    + injection H as <-. constructor; assumption.
  - (* Remove *)
    destruct (oget denom (by_denom s)) as [id|] eqn:Ed; [|discriminate].
    destruct (pget id (pairs s)) as [p|] eqn:Ep; [|discriminate]. destruct (negb (pr_enabled p)); [discriminate|]. injection H as <-.
    destruct Hok as [P1 P2 P3].
    destruct (P1 id p Ep) as [Eid [Ebd Ebe]].
    constructor; cbn [pairs by_denom by_erc alias meta pget].
    + intros id' p'. destruct (pid_eqb id' id) eqn:E; [discriminate|]. intros Hp'.
      destruct (P1 id' p' Hp') as [E1 [E2 E3]]. split; [assumption|]. rewrite !(@oget_odel pid).
      destruct (Z.eqb_spec (pr_denom p') (pr_denom p)) as [Eq|Eq]; [rewrite Eq in E2; rewrite E2 in Ebd; injection Ebd as ->; rewrite (proj2 (pid_eqb_eq id id) eq_refl) in E; discriminate|].
      destruct (Z.eqb_spec (pr_erc p') (pr_erc p)) as [Eq2|Eq2]; [rewrite Eq2 in E3; rewrite E3 in Ebe; injection Ebe as ->; rewrite (proj2 (pid_eqb_eq id id) eq_refl) in E; discriminate|].
      auto.
    + intros d id'. rewrite (@oget_odel pid). destruct (Z.eqb_spec d (pr_denom p)); [discriminate|]. intros Hd.
      destruct (P2 d id' Hd) as [p' [Hp' Ed']]. exists p'. split; [|assumption].
      destruct (pid_eqb id' id) eqn:E; [|assumption]. apply pid_eqb_eq in E. subst id'. rewrite Ep in Hp'. injection Hp' as <-. congruence.
    + intros e id'. rewrite (@oget_odel pid). destruct (Z.eqb_spec e (pr_erc p)); [discriminate|]. intros He.
      destruct (P3 e id' He) as [p' [Hp' Ee']]. exists p'. split; [|assumption].
      destruct (pid_eqb id' id) eqn:E; [|assumption]. apply pid_eqb_eq in E. subst id'. rewrite Ep in Hp'. injection Hp' as <-. congruence.
  - (* ExportImport *) injection H as <-. destruct Hok as [P1 P2 P3]. constructor; assumption.
Qed.

Theorem pair_indexes_consistent ops : forall s, pidx_ok s -> pidx_ok (isteps s ops).
Proof.
  induction ops as [|o ops IH]; intros s Hs; cbn [isteps fold_left]; [assumption|].
  fold (isteps (fst (istep s o)) ops). apply IH. unfold istep. destruct (irun o s) eqn:E; cbn [fst]; [|assumption].
  eapply irun_pidx_ok; eassumption.
Qed.

(* with an InitGenesis that does not rebuild the alias index (the code when C08-2 was found; the harness probes which
   variant the code under check is) the full reading is false: after a genesis export + import the alias index is empty although
   the bank metadata of a registered denom still lists its aliases (known/C08.json: C08-2); the harness replays this
   history on the real application *)
Definition ex_export_hist : list iop := [IRegisterCoin 10 [11; 12] 500; IExportImport false].
Theorem indexes_export_import_refuted :
  idx_ok i_empty /\ forallb no_export ex_export_hist = false /\
  let s := isteps i_empty ex_export_hist in
  ohas 10 (by_denom s) = true /\ In 11 (metal s 10) /\ oget 11 (alias s) = None /\ ~ idx_ok s.
Proof.
  split; [apply idx_ok_empty|]. split; [reflexivity|]. cbn zeta.
  assert (H1 : ohas 10 (by_denom (isteps i_empty ex_export_hist)) = true) by (vm_compute; reflexivity).
  assert (H2 : In 11 (metal (isteps i_empty ex_export_hist) 10)) by (vm_compute; left; reflexivity).
  assert (H3 : oget 11 (alias (isteps i_empty ex_export_hist)) = None) by (vm_compute; reflexivity).
  split; [exact H1|]. split; [exact H2|]. split; [exact H3|].
  intros [_ _ _ _ P5]. specialize (P5 10 11 H1 H2). rewrite H3 in P5. discriminate.
Qed.
(* ... and with the rebuilding InitGenesis the same history keeps them, and the alias stays refused for another denom *)
Theorem export_import_rebuilt_witness :
  let s := isteps i_empty [IRegisterCoin 10 [11; 12] 500; IExportImport true] in
  oget 11 (alias s) = Some 10 /\ oget 12 (alias s) = Some 10 /\ idx_ok s /\ snd (istep s (IRegisterCoin 20 [11] 501)) = false.
Proof.
  cbn zeta. split; [vm_compute; reflexivity|]. split; [vm_compute; reflexivity|]. split; [|vm_compute; reflexivity].
  apply indexes_consistent; [reflexivity|apply idx_ok_empty].
Qed.
(* consequences on the real application (each exercised by the harness after the import): the alias can be registered
   again as a denom of its own or as an alias of ANOTHER denom *)
Theorem alias_reusable_after_export_import :
  let s := isteps i_empty ex_export_hist in
  snd (istep s (IRegisterCoin 20 [11] 501)) = true /\ snd (istep (isteps i_empty [IRegisterCoin 10 [11; 12] 500]) (IRegisterCoin 20 [11] 501)) = false.
Proof. vm_compute. split; reflexivity. Qed.

Example indexes_nonvacuous :
  let s := isteps i_empty [IRegisterCoin 10 [11; 12] 500; IRegisterERC20 501 20 [21]; IToggle true 500; IUpdateAlias 10 13;
                           IUpdateAlias 10 11; IRemove 20; IRegisterERC20 502 20 [21]; IRegisterCoin 30 [12] 503] in
  (oget 10 (by_denom s), oget 501 (by_erc s), oget 21 (alias s), oget 13 (alias s), oget 11 (alias s), oget 20 (by_denom s), oget 30 (by_denom s))
  = (Some (500, 10), None, None, Some 10, None, None, None).
Proof. vm_compute. reflexivity. Qed.

(* ======================================================================================================= *)
(** * PART C: a token that signals a failed transfer by returning false (or nothing) cannot unbalance the books *)
Lemma lrun_books f o s s' : lrun f o s = Some s' -> l_esc s' - l_sup s' = l_esc s - l_sup s.
Proof.
  destruct o; cbn [lrun]; intros H.
  - destruct (transfer_accepted f (x <=? lget a (l_tok s))); [|discriminate]. injection H as <-. cbn. lia.
  - destruct ((x <=? lget a (l_coin s)) && transfer_accepted f (x <=? l_esc s)); [|discriminate]. injection H as <-. cbn. lia.
Qed.
Theorem legacy_books f ops : forall s, l_esc (lsteps f s ops) - l_sup (lsteps f s ops) = l_esc s - l_sup s.
Proof.
  induction ops as [|o ops IH]; intros s; cbn [lsteps fold_left]; [reflexivity|].
  fold (lsteps f (fst (lstep f s o)) ops). rewrite IH. unfold lstep. destruct (lrun f o s) eqn:E; cbn [fst]; [|reflexivity].
  eapply lrun_books; eassumption.
Qed.
(* a conversion whose underlying transfer does not happen is refused, whatever way the token signals it *)
Theorem legacy_failed_transfer_refused f a r x s : lget a (l_tok s) < x -> snd (lstep f s (LConvertERC20 a r x)) = false.
Proof.
  intros H. unfold lstep. cbn [lrun]. destruct (Z.leb_spec x (lget a (l_tok s))); [lia|]. destruct f; reflexivity.
Qed.
