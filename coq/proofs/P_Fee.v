From Coq Require Import ZArith List Bool Lia.
From FxV Require Import model.M_Fee.
Import ListNotations.
Open Scope Z_scope.

(* ---------- specification vocabulary (independent of the code's shape) ---------- *)

Definition all_exempt (c : feecfg) (ms : list Z) : Prop :=
  forall m, In m ms -> In m (exempt c).

(* the true (unbounded) per-message allowance *)
Definition within_allowance (c : feecfg) (t : feetx) : Prop :=
  gas t <= Z.of_nat (length (msgs t)) * allowance c.

(* "pays at least the minimum price in some denomination the node prices" *)
Definition meets_min (x : nodectx) (t : feetx) : Prop :=
  exists d a, In (d, a) (fee t) /\
              amount_of d (required (gas t) (min_prices x)) <> 0 /\
              amount_of d (required (gas t) (min_prices x)) <= a.

Definition node_has_min (x : nodectx) : Prop :=
  exists p, In p (min_prices x) /\ snd p <> 0.

Lemma memZ_In x l : memZ x l = true <-> In x l.
Proof.
  unfold memZ. rewrite existsb_exists. split.
  - intros [y [Hy He]]. apply Z.eqb_eq in He. subst. exact Hy.
  - intro H. exists x. split; [exact H|apply Z.eqb_refl].
Qed.

Lemma bypass_msgs_spec c ms :
  bypass_msgs c ms = true <-> ms <> [] /\ all_exempt c ms.
Proof.
  unfold bypass_msgs, all_exempt. destruct ms as [|m r].
  - split; [discriminate|intros [H _]; congruence].
  - rewrite forallb_forall. split.
    + intro H. split; [discriminate|]. intros x Hx. apply memZ_In, H, Hx.
    + intros [_ H] x Hx. apply memZ_In, H, Hx.
Qed.

Lemma bypass_gas_sound c ms g :
  0 <= allowance c -> bypass_gas c ms g = true ->
  g <= Z.of_nat (length ms) * allowance c.
Proof.
  unfold bypass_gas, two64. intros Ha H. apply Z.leb_le in H.
  assert (0 <= Z.of_nat (length ms) * allowance c) by lia.
  pose proof (Z.mod_le (Z.of_nat (length ms) * allowance c) (2^64) H0 ltac:(lia)). lia.
Qed.

Lemma bypass_gas_complete c ms g :
  0 <= Z.of_nat (length ms) * allowance c < two64 ->
  g <= Z.of_nat (length ms) * allowance c -> bypass_gas c ms g = true.
Proof.
  unfold bypass_gas. intros Hr H. rewrite Z.mod_small by exact Hr. apply Z.leb_le. exact H.
Qed.

Lemma is_any_gte_spec fees req :
  is_any_gte fees req = true ->
  exists d a, In (d, a) fees /\ amount_of d req <> 0 /\ amount_of d req <= a.
Proof.
  unfold is_any_gte. destruct req as [|r0 rq]; [discriminate|].
  rewrite existsb_exists. intros [[d a] [Hin H]]. cbn [fst snd] in H.
  apply andb_true_iff in H. destruct H as [H1 H2].
  exists d, a. split; [exact Hin|]. split.
  - apply negb_true_iff in H2. apply Z.eqb_neq in H2. exact H2.
  - apply Z.leb_le. exact H1.
Qed.

Lemma is_any_gte_complete fees req :
  (exists d a, In (d, a) fees /\ amount_of d req <> 0 /\ amount_of d req <= a) ->
  is_any_gte fees req = true.
Proof.
  intros [d [a [Hin [Hnz Hle]]]]. unfold is_any_gte.
  destruct req as [|r0 rq]; [cbn in Hnz; congruence|].
  apply existsb_exists. exists (d, a). split; [exact Hin|]. cbn [fst snd].
  apply andb_true_iff. split; [apply Z.leb_le; exact Hle|].
  apply negb_true_iff, Z.eqb_neq. exact Hnz.
Qed.

Lemma prices_zero_false ps : prices_zero ps = false <-> exists p, In p ps /\ snd p <> 0.
Proof.
  unfold prices_zero. split.
  - intro H. induction ps as [|p r IH]; [discriminate|]. cbn in H.
    apply andb_false_iff in H. destruct H as [H|H].
    + exists p. split; [left; reflexivity|apply Z.eqb_neq; exact H].
    + destruct (IH H) as [q [Hq Hn]]. exists q. split; [right; exact Hq|exact Hn].
  - intros [p [Hp Hn]]. apply not_true_is_false. intro H.
    rewrite forallb_forall in H. specialize (H p Hp). apply Z.eqb_eq in H. contradiction.
Qed.

(* ---------- the property ---------- *)

(* (a) a transaction admitted in CheckTx while the node has a minimum price either
   meets that price or is a genuine bypass: non-empty, every message exempt,
   gas within n * allowance (the TRUE product: the uint64 wrap only makes the
   coded test stricter). *)
Lemma admit_only_if c x t :
  0 <= allowance c ->
  is_check x = true -> node_has_min x ->
  check c x t = Admit ->
  meets_min x t \/ (msgs t <> [] /\ all_exempt c (msgs t) /\ within_allowance c t).
Proof.
  intros Ha Hc Hmin H. unfold check in H. rewrite Hc in H.
  destruct (is_bypass c t) eqn:Hb.
  - clear H. right. unfold is_bypass in Hb. apply andb_true_iff in Hb. destruct Hb as [Hm Hg].
    apply bypass_msgs_spec in Hm. destruct Hm as [Hne Hall].
    split; [exact Hne|]. split; [exact Hall|]. apply bypass_gas_sound; assumption.
  - destruct (prices_zero (min_prices x)) eqn:Hz.
    + exfalso. apply prices_zero_false in Hmin. congruence.
    + destruct (required_panics (gas t) (min_prices x)); [discriminate|].
      destruct (is_any_gte (fee t) (required (gas t) (min_prices x))) eqn:Hg; [|discriminate].
      left. apply is_any_gte_spec. exact Hg.
Qed.

(* (b) any other transaction below the minimum price is not admitted *)
Lemma reject_otherwise c x t :
  is_check x = true -> node_has_min x ->
  ~ meets_min x t ->
  ~ (msgs t <> [] /\ all_exempt c (msgs t)) \/
    ~ (gas t <= (Z.of_nat (length (msgs t)) * allowance c) mod two64) ->
  check c x t <> Admit.
Proof.
  intros Hc Hmin Hnm Hnb H. unfold check in H. rewrite Hc in H.
  destruct (is_bypass c t) eqn:Hb.
  - unfold is_bypass in Hb. apply andb_true_iff in Hb. destruct Hb as [Hm Hg].
    apply bypass_msgs_spec in Hm. unfold bypass_gas in Hg. apply Z.leb_le in Hg.
    destruct Hnb as [Hn|Hn]; [apply Hn; exact Hm|apply Hn; exact Hg].
  - destruct (prices_zero (min_prices x)) eqn:Hz.
    + apply prices_zero_false in Hmin. congruence.
    + destruct (required_panics (gas t) (min_prices x)); [discriminate|].
      destruct (is_any_gte (fee t) (required (gas t) (min_prices x))) eqn:Hg; [|discriminate].
      apply Hnm. apply is_any_gte_spec. exact Hg.
Qed.

Lemma priority_ok t : 0 < gas t < two63 -> priority t = Admit.
Proof.
  intro Hg. unfold priority, to_int64. destruct (fee t); [reflexivity|].
  destruct (gas t <? two63) eqn:E; [|apply Z.ltb_ge in E; lia].
  destruct (gas t =? 0) eqn:E2; [apply Z.eqb_eq in E2; lia|reflexivity].
Qed.

(* (c) a genuine bypass with a non-wrapping product is admitted: the rule is not vacuous *)
Lemma bypass_admitted c x t :
  0 < gas t < two63 ->
  msgs t <> [] -> all_exempt c (msgs t) ->
  0 <= Z.of_nat (length (msgs t)) * allowance c < two64 ->
  within_allowance c t -> check c x t = Admit.
Proof.
  intros Hg0 Hne Hall Hr Hw. unfold check. rewrite (priority_ok t Hg0).
  destruct (is_check x); [|reflexivity].
  assert (is_bypass c t = true) as ->; [|reflexivity].
  unfold is_bypass. apply andb_true_iff. split.
  - apply bypass_msgs_spec. split; assumption.
  - apply bypass_gas_complete; assumption.
Qed.

(* (d) with a sane gas limit (< 2^63, enforced upstream by the block gas limit) the
   checker never panics *)
Lemma no_panic c x t :
  0 < gas t < two63 -> (forall p, In p (min_prices x) -> 0 <= snd p) ->
  check c x t <> Panic.
Proof.
  intros Hg Hp H. unfold check in H. rewrite (priority_ok t Hg) in H.
  destruct (is_check x); [|discriminate].
  destruct (is_bypass c t); [discriminate|].
  destruct (prices_zero (min_prices x)); [discriminate|].
  destruct (required_panics (gas t) (min_prices x)) eqn:E.
  - unfold required_panics, required in E. apply existsb_exists in E.
    destruct E as [q [Hq Hneg]]. apply in_map_iff in Hq. destruct Hq as [p [<- Hp']].
    cbn [snd] in Hneg. apply Z.ltb_lt in Hneg. specialize (Hp p Hp').
    unfold required_one, ceil_dec, to_int64, dec_one in Hneg.
    destruct (gas t <? two63) eqn:E2; [|apply Z.ltb_ge in E2; lia].
    assert (0 <= snd p * gas t) by lia.
    assert (- (snd p * gas t) / 10 ^ 18 <= 0).
    { apply Z.div_le_upper_bound; lia. }
    lia.
  - destruct (is_any_gte _ _); discriminate.
Qed.

(* non-vacuity: concrete transactions meeting the hypotheses, both ways *)
Definition ex_cfg := {| exempt := [1; 2]; allowance := 50000 |}.
Definition ex_ctx := {| is_check := true; min_prices := [(7, 4 * 10 ^ 12 * 10 ^ 18)] |}.
Definition ex_bypass := {| msgs := [1; 2; 1]; gas := 150000; fee := [] |}.
Definition ex_mixed := {| msgs := [1; 3]; gas := 1000; fee := [] |}.
Definition ex_overgas := {| msgs := [1]; gas := 50001; fee := [] |}.
Definition ex_pays := {| msgs := [3]; gas := 100; fee := [(7, 4 * 10 ^ 14)] |}.
Definition ex_wrap := {| msgs := [1; 1]; gas := 5; fee := [] |}.
Definition ex_wrapcfg := {| exempt := [1]; allowance := 2 ^ 63 |}.

Lemma examples :
  check ex_cfg ex_ctx ex_bypass = Admit /\ check ex_cfg ex_ctx ex_mixed = Reject /\
  check ex_cfg ex_ctx ex_overgas = Reject /\ check ex_cfg ex_ctx ex_pays = Admit /\
  check ex_wrapcfg ex_ctx ex_wrap = Reject.
Proof. vm_compute. repeat split. Qed.
