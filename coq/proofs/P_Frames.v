(* P_Frames — proofs for C09: the journal refines "a failed frame has no effect", for every call tree. *)
From Coq Require Import ZArith List Bool Lia.
From FxV Require Import model.M_Frames.
Import ListNotations.
Open Scope Z_scope.

Scheme node_mut := Induction for M_Frames.node Sort Prop
  with nodes_mut := Induction for M_Frames.nodes Sort Prop.
Combined Scheme node_all from node_mut, nodes_mut.
Scheme cut_mut := Induction for cut Sort Prop
  with cut_list_mut := Induction for cut_list Sort Prop
  with cut_inner_mut := Induction for cut_inner_list Sort Prop.
Combined Scheme cut_all from cut_mut, cut_list_mut, cut_inner_mut.

Section Proofs.
Variable N : Type.
Variable eff : Type.
Variable apply : eff -> N -> N * status.

Notation node := (node eff).
Notation nodes := (nodes eff).
Notation st := (st N).
Notation jentry := (jentry N).
Notation exec := (exec N eff apply).
Notation exec_list := (exec_list N eff apply).
Notation spec := (spec N eff apply).
Notation spec_list := (spec_list N eff apply).
Notation undo := (undo N).
Notation revert_to := (revert_to N).



(* unfolding equations (mutual fixpoints do not refold under cbn) *)
Lemma exec_NStep e s jr : exec (NStep e) (s, jr) =
  let '(n', r) := apply e (s_nat s) in ((mkst n' (s_logs s) (s_evs s) (s_stor s), jr), r).
Proof. reflexivity. Qed.
Lemma exec_Write k v s jr : exec (Write k v) (s, jr) =
  if Z.eqb (s_stor s k) v then ((s, jr), Go)
  else ((mkst (s_nat s) (s_logs s) (s_evs s) (upd (s_stor s) k v), JStorage N k (s_stor s k) :: jr), Go).
Proof. reflexivity. Qed.
Lemma exec_Log t s jr : exec (Log t) (s, jr) =
  ((mkst (s_nat s) (t :: s_logs s) (s_evs s) (s_stor s), JLog N :: jr), Go).
Proof. reflexivity. Qed.
Lemma exec_Action body evs s jr : exec (Action body evs) (s, jr) =
  let '((s1, jr1), r) := exec_list body (s, jr) in
  match r with
  | Go => ((mkst (s_nat s1) (s_logs s1) (rev evs ++ s_evs s1) (s_stor s1),
            JNative N (s_nat s) (length evs) :: jr1), Go)
  | Stop => ((mkst (s_nat s) (s_logs s1) (s_evs s1) (s_stor s1), jr1), Stop)
  | Panic => ((s1, jr1), Panic)
  end.
Proof. reflexivity. Qed.
Lemma exec_Frame body en caught s jr : exec (Frame body en caught) (s, jr) =
  let '((s1, jr1), r) := exec_list body (s, jr) in
  match r with
  | Panic => ((s1, jr1), Panic)
  | Go => if endk_ok en then ((s1, jr1), Go) else (revert_to (length jr) s1 jr1, caught_status caught)
  | Stop => (revert_to (length jr) s1 jr1, caught_status caught)
  end.
Proof. reflexivity. Qed.
Lemma exec_nil d : exec_list (nnil) d = (d, Go).
Proof. reflexivity. Qed.
Lemma exec_cons t r d : exec_list (ncons t r) d =
  let '(d1, st) := exec t d in match st with Go => exec_list r d1 | _ => (d1, st) end.
Proof. reflexivity. Qed.
Lemma spec_NStep e s : spec (NStep e) s =
  let '(n', r) := apply e (s_nat s) in (mkst n' (s_logs s) (s_evs s) (s_stor s), r).
Proof. reflexivity. Qed.
Lemma spec_Write k v s : spec (Write k v) s = (mkst (s_nat s) (s_logs s) (s_evs s) (upd (s_stor s) k v), Go).
Proof. reflexivity. Qed.
Lemma spec_Log t s : spec (Log t) s = (mkst (s_nat s) (t :: s_logs s) (s_evs s) (s_stor s), Go).
Proof. reflexivity. Qed.
Lemma spec_Action body evs s : spec (Action body evs) s =
  let '(s1, r) := spec_list body s in
  match r with
  | Go => (mkst (s_nat s1) (s_logs s1) (rev evs ++ s_evs s1) (s_stor s1), Go)
  | _ => (s1, r)
  end.
Proof. reflexivity. Qed.
Lemma spec_Frame body en caught s : spec (Frame body en caught) s =
  let '(s1, r) := spec_list body s in
  match r with
  | Panic => (s1, Panic)
  | Go => if endk_ok en then (s1, Go) else (s, caught_status caught)
  | Stop => (s, caught_status caught)
  end.
Proof. reflexivity. Qed.
Lemma spec_nil s : spec_list (nnil) s = (s, Go).
Proof. reflexivity. Qed.
Lemma spec_cons t r s : spec_list (ncons t r) s =
  let '(s1, st) := spec t s in match st with Go => spec_list r s1 | _ => (s1, st) end.
Proof. reflexivity. Qed.

Ltac unf H := rewrite ?exec_NStep, ?exec_Write, ?exec_Log, ?exec_Action, ?exec_Frame, ?exec_nil, ?exec_cons,
                      ?spec_NStep, ?spec_Write, ?spec_Log, ?spec_Action, ?spec_Frame, ?spec_nil, ?spec_cons in H.

Lemma wf_f_Action b evs : wf_f eff (Action b evs) = wf_a eff b false.
Proof. reflexivity. Qed.
Lemma wf_f_Frame b en c : wf_f eff (Frame b en c) = wf_fl eff b.
Proof. reflexivity. Qed.
Lemma wf_fl_cons t r : wf_fl eff (ncons t r) = wf_f eff t && wf_fl eff r.
Proof. reflexivity. Qed.
Lemma wf_a_NStep e r d : wf_a eff (ncons (NStep e) r) d = wf_a eff r true.
Proof. reflexivity. Qed.
Lemma wf_a_Write k v r d : wf_a eff (ncons (Write k v) r) d = wf_a eff r d.
Proof. reflexivity. Qed.
Lemma wf_a_Log t r d : wf_a eff (ncons (Log t) r) d = wf_a eff r d.
Proof. reflexivity. Qed.
Lemma wf_a_Action b evs r d : wf_a eff (ncons (Action b evs) r) d =
  wf_f eff (Action b evs) && (if d then negb (has_action eff (Action b evs)) else true) && wf_a eff r d.
Proof. reflexivity. Qed.
Lemma wf_a_Frame b en c r d : wf_a eff (ncons (Frame b en c) r) d =
  wf_f eff (Frame b en c) && (if d then negb (has_action eff (Frame b en c)) else true) && wf_a eff r d.
Proof. reflexivity. Qed.
Ltac unfw W := rewrite ?wf_fl_cons, ?wf_a_NStep, ?wf_a_Write, ?wf_a_Log, ?wf_a_Action, ?wf_a_Frame in W.

(* ------------------------------------------------------------------ *)
(* replaying a journal segment *)

Definition undo_all (es : list jentry) (s : st) : st := fold_left (fun s j => undo j s) es s.

Lemma undo_all_app es1 es2 s : undo_all (es2 ++ es1) s = undo_all es1 (undo_all es2 s).
Proof. unfold undo_all. apply fold_left_app. Qed.

Lemma revert_to_app : forall es jr s, revert_to (length jr) s (es ++ jr) = (undo_all es s, jr).
Proof.
  induction es as [|a es IH]; intros jr s; cbn [app].
  - destruct jr as [|j jr']; [reflexivity|]. cbn [M_Frames.revert_to]. rewrite Nat.leb_refl. reflexivity.
  - cbn [M_Frames.revert_to].
    destruct (Nat.leb_spec (length (a :: es ++ jr)) (length jr)) as [H|H].
    + cbn [length] in H. rewrite app_length in H. lia.
    + rewrite IH. reflexivity.
Qed.

(* the four components are undone independently *)
Definition unat (es : list jentry) (n : N) : N :=
  fold_left (fun n j => match j with JNative _ s _ => s | _ => n end) es n.
Definition ulogs (es : list jentry) (l : list Z) : list Z :=
  fold_left (fun l j => match j with JLog _ => tl l | _ => l end) es l.
Definition uevs (es : list jentry) (l : list Z) : list Z :=
  fold_left (fun l j => match j with JNative _ _ n => skipn n l | _ => l end) es l.
Definition ustor (es : list jentry) (f : Z -> Z) : Z -> Z :=
  fold_left (fun f j => match j with JStorage _ k p => upd f k p | _ => f end) es f.

Lemma undo_all_proj : forall es s,
  s_nat (undo_all es s) = unat es (s_nat s) /\
  s_logs (undo_all es s) = ulogs es (s_logs s) /\
  s_evs (undo_all es s) = uevs es (s_evs s) /\
  s_stor (undo_all es s) = ustor es (s_stor s).
Proof.
  induction es as [|j es IH]; intro s; [repeat split|].
  unfold undo_all, unat, ulogs, uevs, ustor in *. cbn [fold_left].
  specialize (IH (undo j s)). destruct j; cbn [M_Frames.undo s_nat s_logs s_evs s_stor] in *; exact IH.
Qed.

Lemma unat_app es1 es2 n : unat (es2 ++ es1) n = unat es1 (unat es2 n).
Proof. apply fold_left_app. Qed.
Lemma ulogs_app es1 es2 n : ulogs (es2 ++ es1) n = ulogs es1 (ulogs es2 n).
Proof. apply fold_left_app. Qed.
Lemma uevs_app es1 es2 n : uevs (es2 ++ es1) n = uevs es1 (uevs es2 n).
Proof. apply fold_left_app. Qed.
Lemma ustor_app es1 es2 n : ustor (es2 ++ es1) n = ustor es1 (ustor es2 n).
Proof. apply fold_left_app. Qed.

Lemma ustor_ext : forall es f g, (forall k, f k = g k) -> forall k, ustor es f k = ustor es g k.
Proof.
  induction es as [|j es IH]; intros f g H k; [apply H|].
  unfold ustor in *. cbn [fold_left]. apply IH. intro x.
  destruct j as [sn ne| |k0 p0]; try apply H. unfold upd. destruct (Z.eqb x k0); [reflexivity|apply H].
Qed.

(* no nativeChange in the segment *)
Definition nojn (es : list jentry) : bool :=
  forallb (fun j => match j with JNative _ _ _ => false | _ => true end) es.

Lemma nojn_app es1 es2 : nojn (es2 ++ es1) = nojn es2 && nojn es1.
Proof. apply forallb_app. Qed.

Lemma unat_nojn : forall es n, nojn es = true -> unat es n = n.
Proof.
  induction es as [|j es IH]; intros n H; [reflexivity|].
  cbn in H. apply andb_true_iff in H as [Hj H]. unfold unat in *. cbn [fold_left].
  destruct j; try discriminate; apply IH; exact H.
Qed.

(* with a nativeChange in it, the oldest snapshot decides *)
Lemma unat_const : forall es n m, nojn es = false -> unat es n = unat es m.
Proof.
  induction es as [|j es IH]; intros n m H; [discriminate|].
  cbn in H. unfold unat in *. cbn [fold_left].
  destruct j; cbn in H; try (apply IH; exact H).
  destruct (nojn es) eqn:E.
  - fold (unat es snap). reflexivity.
  - reflexivity.
Qed.

(* ------------------------------------------------------------------ *)
(* state equivalence: storage compared pointwise *)

Definition seq (a b : st) : Prop :=
  s_nat a = s_nat b /\ s_logs a = s_logs b /\ s_evs a = s_evs b /\ forall k, s_stor a k = s_stor b k.

Lemma seq_refl a : seq a a.
Proof. repeat split. Qed.
Lemma seq_trans a b c : seq a b -> seq b c -> seq a c.
Proof. intros (A1&A2&A3&A4) (B1&B2&B3&B4). repeat split; try congruence. all: intro k; rewrite A4; apply B4. Qed.
Lemma seq_sym a b : seq a b -> seq b a.
Proof. intros (A1&A2&A3&A4). repeat split; try congruence. all: intro k; symmetry; apply A4. Qed.

(* "the journal segment es, replayed on s', gives back s" *)
Definition full (s : st) (es : list jentry) (s' : st) : Prop := seq (undo_all es s') s.

(* the EVM-side part of it (everything but the native store) *)
Definition epart (s : st) (es : list jentry) (s' : st) : Prop :=
  ulogs es (s_logs s') = s_logs s /\ uevs es (s_evs s') = s_evs s /\
  forall k, ustor es (s_stor s') k = s_stor s k.

Lemma full_epart s es s' : full s es s' -> epart s es s'.
Proof.
  unfold full, seq, epart. destruct (undo_all_proj es s') as (_&H2&H3&H4).
  rewrite H2, H3, H4. intros (_&A&B&C). auto.
Qed.

Lemma full_nat s es s' : full s es s' -> unat es (s_nat s') = s_nat s.
Proof. unfold full, seq. destruct (undo_all_proj es s') as (H1&_). rewrite H1. intros (A&_). exact A. Qed.

Lemma full_intro s es s' : epart s es s' -> unat es (s_nat s') = s_nat s -> full s es s'.
Proof.
  unfold full, seq, epart. destruct (undo_all_proj es s') as (H1&H2&H3&H4).
  rewrite H1, H2, H3, H4. intros (A&B&C) D. auto.
Qed.

Lemma epart_nil s s' :
  s_logs s' = s_logs s -> s_evs s' = s_evs s -> (forall k, s_stor s' k = s_stor s k) -> epart s [] s'.
Proof. intros. repeat split; assumption. Qed.

Lemma epart_trans s es1 s1 es2 s2 : epart s es1 s1 -> epart s1 es2 s2 -> epart s (es2 ++ es1) s2.
Proof.
  intros (A1&A2&A3) (B1&B2&B3). unfold epart.
  rewrite ulogs_app, uevs_app, ustor_app, B1, B2. repeat split; try assumption.
  intro k. rewrite (ustor_ext es1 _ (s_stor s1)); [apply A3|exact B3].
Qed.

Lemma full_trans s es1 s1 es2 s2 : full s es1 s1 -> full s1 es2 s2 -> full s (es2 ++ es1) s2.
Proof.
  intros A B. apply full_intro.
  - eapply epart_trans; eapply full_epart; eassumption.
  - rewrite unat_app, (full_nat _ _ _ B). apply (full_nat _ _ _ A).
Qed.

(* clean closure body (no native write yet): either no nativeChange at all, or the oldest one
   holds the store the closure started from *)
Definition clean (s : st) (es : list jentry) : Prop :=
  nojn es = true \/ forall n, unat es n = s_nat s.

Lemma full_clean s es s' : full s es s' -> clean s es.
Proof.
  intro F. destruct (nojn es) eqn:E; [left; exact E|right].
  intro n. rewrite (unat_const es n (s_nat s') E). apply full_nat. exact F.
Qed.

Lemma clean_trans s es1 s1 es2 :
  full s es1 s1 -> clean s1 es2 -> clean s (es2 ++ es1).
Proof.
  intros F [C|C].
  - destruct (full_clean _ _ _ F) as [D|D].
    + left. rewrite nojn_app, C, D. reflexivity.
    + right. intro n. rewrite unat_app. apply D.
  - right. intro n. rewrite unat_app, C. apply full_nat. exact F.
Qed.

(* ------------------------------------------------------------------ *)
(* 1. shape of the journal after running a subtree; no action => no nativeChange *)

Definition shape_node (t : node) : Prop :=
  forall s jr s' jr' r, exec t (s, jr) = ((s', jr'), r) ->
  exists es, jr' = es ++ jr /\ (has_action eff t = false -> nojn es = true).
Definition shape_nodes (l : nodes) : Prop :=
  forall s jr s' jr' r, exec_list l (s, jr) = ((s', jr'), r) ->
  exists es, jr' = es ++ jr /\ (has_action_list eff l = false -> nojn es = true).

Lemma shape : (forall t, shape_node t) /\ (forall l, shape_nodes l).
Proof.
  apply (node_all eff shape_node shape_nodes); unfold shape_node, shape_nodes.
  - (* NStep *)
    intros e s jr s' jr' r H. unf H. destruct (apply e (s_nat s)) as [n' o]. inversion H; subst.
    exists []. split; [reflexivity|reflexivity].
  - (* Write *)
    intros k v s jr s' jr' r H. unf H. destruct (Z.eqb (s_stor s k) v); inversion H; subst.
    + exists []. split; reflexivity.
    + exists [JStorage N k (s_stor s k)]. split; reflexivity.
  - (* Log *)
    intros t s jr s' jr' r H. unf H. inversion H; subst. exists [JLog N]. split; reflexivity.
  - (* Action *)
    intros body IH evs s jr s' jr' r H. unf H.
    destruct (exec_list body (s, jr)) as [[s1 jr1] r1] eqn:E.
    destruct (IH _ _ _ _ _ E) as (es & -> & _).
    destruct r1; inversion H; subst.
    + exists (JNative N (s_nat s) (length evs) :: es). split; [reflexivity|discriminate].
    + exists es. split; [reflexivity|discriminate].
    + exists es. split; [reflexivity|discriminate].
  - (* Frame *)
    intros body IH en caught s jr s' jr' r H. unf H.
    destruct (exec_list body (s, jr)) as [[s1 jr1] r1] eqn:E.
    destruct (IH _ _ _ _ _ E) as (es & -> & Hn).
    destruct r1; [destruct (endk_ok en)| |].
    + inversion H; subst. exists es. split; [reflexivity|exact Hn].
    + rewrite revert_to_app in H. inversion H; subst. exists []. split; reflexivity.
    + rewrite revert_to_app in H. inversion H; subst. exists []. split; reflexivity.
    + inversion H; subst. exists es. split; [reflexivity|exact Hn].
  - (* nnil *)
    intros s jr s' jr' r H. inversion H; subst. exists []. split; reflexivity.
  - (* ncons *)
    intros t IHt l IHl s jr s' jr' r H. unf H.
    destruct (exec t (s, jr)) as [[s1 jr1] r1] eqn:E.
    destruct (IHt _ _ _ _ _ E) as (es1 & -> & Hn1).
    destruct r1.
    + destruct (IHl _ _ _ _ _ H) as (es2 & -> & Hn2).
      exists (es2 ++ es1). split; [apply app_assoc|].
      intro Ha. apply orb_false_iff in Ha as [A B]. rewrite nojn_app, Hn1, Hn2; auto.
    + inversion H; subst. exists es1. split; [reflexivity|].
      intro Ha. apply orb_false_iff in Ha as [A B]. auto.
    + inversion H; subst. exists es1. split; [reflexivity|].
      intro Ha. apply orb_false_iff in Ha as [A B]. auto.
Qed.

(* ------------------------------------------------------------------ *)
(* 2. the journal invariant: unless Go code panicked, the segment written by a well-formed subtree undoes
      exactly what the subtree did *)

Definition inv_node (t : node) : Prop :=
  forall s jr s' jr' r, wf_f eff t = true -> exec t (s, jr) = ((s', jr'), r) -> r <> Panic ->
  exists es, jr' = es ++ jr /\ full s es s'.

Definition inv_nodes (l : nodes) : Prop :=
  (forall s jr s' jr' r, wf_fl eff l = true -> exec_list l (s, jr) = ((s', jr'), r) -> r <> Panic ->
     exists es, jr' = es ++ jr /\ full s es s') /\
  (forall dirty s jr s' jr' r, wf_a eff l dirty = true -> exec_list l (s, jr) = ((s', jr'), r) -> r <> Panic ->
     exists es, jr' = es ++ jr /\ epart s es s' /\ (if dirty then nojn es = true else clean s es)).

Lemma full_nil_same s : full s [] s.
Proof. apply seq_refl. Qed.

Lemma go_np : Go <> Panic. Proof. discriminate. Qed.
Lemma stop_np : Stop <> Panic. Proof. discriminate. Qed.

(* a step sequence t; rest inside a closure, where t is a frame-level node (Action / Frame) *)
Lemma inv_a_step (t : node) (l : nodes) :
  inv_node t -> inv_nodes l -> (forall t', shape_node t') ->
  forall dirty s jr s' jr' r,
    wf_f eff t = true -> (dirty = true -> has_action eff t = false) -> wf_a eff l dirty = true ->
    (let '(d1, st) := exec t (s, jr) in match st with Go => exec_list l d1 | _ => (d1, st) end) = ((s', jr'), r) ->
    r <> Panic ->
    exists es, jr' = es ++ jr /\ epart s es s' /\ (if dirty then nojn es = true else clean s es).
Proof.
  intros IHt [_ IHa] SH dirty s jr s' jr' r Wt Wd Wr H NP.
  destruct (exec t (s, jr)) as [[s1 jr1] r1] eqn:E.
  assert (NP1 : r1 <> Panic) by (destruct r1; try discriminate; inversion H; subst; exact NP).
  destruct (IHt _ _ _ _ _ Wt E NP1) as (es1 & -> & F1).
  assert (NJ1 : dirty = true -> nojn es1 = true).
  { intro D. destruct (SH t _ _ _ _ _ E) as (es' & EQ & Hn).
    apply app_inv_tail in EQ. subst es'. apply Hn. apply Wd. exact D. }
  destruct r1.
  - destruct (IHa dirty _ _ _ _ _ Wr H NP) as (es2 & -> & EP & CL).
    exists (es2 ++ es1). split; [apply app_assoc|]. split.
    + eapply epart_trans; [eapply full_epart; exact F1|exact EP].
    + destruct dirty; [rewrite nojn_app, CL, NJ1; reflexivity|eapply clean_trans; eassumption].
  - inversion H; subst. exists es1. split; [reflexivity|]. split; [eapply full_epart; exact F1|].
    destruct dirty; [apply NJ1; reflexivity|eapply full_clean; exact F1].
  - exfalso. apply NP1. reflexivity.
Qed.

Lemma inv : (forall t, inv_node t) /\ (forall l, inv_nodes l).
Proof.
  apply (node_all eff inv_node inv_nodes); unfold inv_node, inv_nodes.
  - (* NStep: not allowed in contract code *)
    intros e s jr s' jr' r W. discriminate.
  - (* Write *)
    intros k v s jr s' jr' r _ H _. unf H.
    destruct (Z.eqb (s_stor s k) v) eqn:E; inversion H; subst.
    + exists []. split; [reflexivity|apply full_nil_same].
    + exists [JStorage N k (s_stor s k)]. split; [reflexivity|].
      unfold full, undo_all. cbn. repeat split. intro x. cbn. unfold upd.
      destruct (Z.eqb x k) eqn:X; [apply Z.eqb_eq in X; subst; reflexivity|reflexivity].
  - (* Log *)
    intros t s jr s' jr' r _ H _. unf H. inversion H; subst.
    exists [JLog N]. split; [reflexivity|]. unfold full, undo_all. cbn. repeat split.
  - (* Action *)
    intros body [_ IHa] evs s jr s' jr' r W H NP. rewrite ?wf_f_Action, ?wf_f_Frame in W. unf H.
    destruct (exec_list body (s, jr)) as [[s1 jr1] r1] eqn:E.
    assert (NP1 : r1 <> Panic) by (destruct r1; try discriminate; inversion H; subst; exact NP).
    destruct (IHa false _ _ _ _ _ W E NP1) as (es & -> & EP & CL).
    destruct r1; inversion H; subst; clear H.
    + exists (JNative N (s_nat s) (length evs) :: es). split; [reflexivity|].
      apply full_intro.
      * destruct EP as (A&B&C). unfold epart, ulogs, uevs, ustor. cbn [fold_left s_logs s_evs s_stor].
        rewrite skipn_app, rev_length, Nat.sub_diag, skipn_all2 by (rewrite rev_length; lia).
        cbn [skipn app]. auto.
      * unfold unat. cbn [fold_left s_nat]. fold (unat es (s_nat s)).
        destruct CL as [C|C]; [apply unat_nojn; exact C|apply C].
    + exists es. split; [reflexivity|]. apply full_intro.
      * exact EP.
      * cbn [s_nat]. destruct CL as [C|C]; [apply unat_nojn; exact C|apply C].
    + exfalso. apply NP1. reflexivity.
  - (* Frame *)
    intros body [IHf _] en caught s jr s' jr' r W H NP. rewrite ?wf_f_Action, ?wf_f_Frame in W. unf H.
    destruct (exec_list body (s, jr)) as [[s1 jr1] r1] eqn:E.
    assert (NP1 : r1 <> Panic) by (destruct r1; try discriminate; inversion H; subst; exact NP).
    destruct (IHf _ _ _ _ _ W E NP1) as (es & -> & F).
    destruct r1; [destruct (endk_ok en)| |].
    + inversion H; subst. exists es. split; [reflexivity|exact F].
    + rewrite revert_to_app in H. inversion H; subst. exists []. split; [reflexivity|].
      unfold full. cbn. exact F.
    + rewrite revert_to_app in H. inversion H; subst. exists []. split; [reflexivity|].
      unfold full. cbn. exact F.
    + exfalso. apply NP1. reflexivity.
  - (* nnil *)
    split.
    + intros s jr s' jr' r _ H _. inversion H; subst. exists []. split; [reflexivity|apply full_nil_same].
    + intros dirty s jr s' jr' r _ H _. inversion H; subst. exists []. split; [reflexivity|].
      split; [repeat split|]. destruct dirty; [reflexivity|left; reflexivity].
  - (* ncons *)
    intros t IHt l IHl. pose proof IHl as [IHf IHa]. split.
    + intros s jr s' jr' r W H NP. unfw W. apply andb_true_iff in W as [Wt Wr].
      unf H.
      destruct (exec t (s, jr)) as [[s1 jr1] r1] eqn:E.
      assert (NP1 : r1 <> Panic) by (destruct r1; try discriminate; inversion H; subst; exact NP).
      destruct (IHt _ _ _ _ _ Wt E NP1) as (es1 & -> & F1).
      destruct r1.
      * destruct (IHf _ _ _ _ _ Wr H NP) as (es2 & -> & F2).
        exists (es2 ++ es1). split; [apply app_assoc|eapply full_trans; eassumption].
      * inversion H; subst. exists es1. split; [reflexivity|exact F1].
      * exfalso. apply NP1. reflexivity.
    + intros dirty s jr s' jr' r W H NP. unf H.
      destruct t as [e|k v|tg|ab aevs|fb fen fc].
      * (* NStep: the closure is dirty from here on *)
        unfw W. unf H.
        destruct (apply e (s_nat s)) as [n' o].
        destruct o.
        -- destruct (IHa true _ _ _ _ _ W H NP) as (es2 & -> & EP & NJ).
           exists es2. split; [reflexivity|]. split; [exact EP|].
           destruct dirty; [exact NJ|left; exact NJ].
        -- inversion H; subst. exists []. split; [reflexivity|]. split; [repeat split|].
           destruct dirty; [reflexivity|left; reflexivity].
        -- inversion H; subst. exfalso. apply NP. reflexivity.
      * (* Write *)
        unfw W. apply (inv_a_step (Write k v) l IHt IHl (proj1 shape) dirty s jr s' jr' r eq_refl (fun _ => eq_refl) W H NP).
      * (* Log *)
        unfw W. apply (inv_a_step (Log tg) l IHt IHl (proj1 shape) dirty s jr s' jr' r eq_refl (fun _ => eq_refl) W H NP).
      * (* nested Action *)
        unfw W. apply andb_true_iff in W as [W Wr]. apply andb_true_iff in W as [Wt Wd].
        apply (inv_a_step (Action ab aevs) l IHt IHl (proj1 shape) dirty s jr s' jr' r Wt); try assumption.
        intro D. subst dirty. apply negb_true_iff in Wd. exact Wd.
      * (* EVM call made by the closure *)
        unfw W. apply andb_true_iff in W as [W Wr]. apply andb_true_iff in W as [Wt Wd].
        apply (inv_a_step (Frame fb fen fc) l IHt IHl (proj1 shape) dirty s jr s' jr' r Wt); try assumption.
        intro D. subst dirty. apply negb_true_iff in Wd. exact Wd.
Qed.

(* ------------------------------------------------------------------ *)
(* 3. simulation: implementation and specification proceed in step *)

Definition sim_node (t : node) : Prop :=
  forall si jr ss si' jr' ri ss' rs, wf_f eff t = true -> seq si ss ->
  exec t (si, jr) = ((si', jr'), ri) -> spec t ss = (ss', rs) ->
  ri = rs /\ (ri = Go -> seq si' ss').

Definition sim_nodes (l : nodes) : Prop :=
  (forall si jr ss si' jr' ri ss' rs, wf_fl eff l = true -> seq si ss ->
     exec_list l (si, jr) = ((si', jr'), ri) -> spec_list l ss = (ss', rs) ->
     ri = rs /\ (ri = Go -> seq si' ss')) /\
  (forall dirty si jr ss si' jr' ri ss' rs, wf_a eff l dirty = true -> seq si ss ->
     exec_list l (si, jr) = ((si', jr'), ri) -> spec_list l ss = (ss', rs) ->
     ri = rs /\ (ri = Go -> seq si' ss')).

Lemma sim_write si ss k v :
  seq si ss ->
  seq (if Z.eqb (s_stor si k) v then si else mkst (s_nat si) (s_logs si) (s_evs si) (upd (s_stor si) k v))
      (mkst (s_nat ss) (s_logs ss) (s_evs ss) (upd (s_stor ss) k v)).
Proof.
  intros (A&B&C&D). destruct (Z.eqb (s_stor si k) v) eqn:E; repeat split; cbn; try assumption.
  - intro x. unfold upd. destruct (Z.eqb x k) eqn:X; [|apply D].
    apply Z.eqb_eq in X. subst x. apply Z.eqb_eq in E. exact E.
  - intro x. unfold upd. destruct (Z.eqb x k); [reflexivity|apply D].
Qed.

(* one frame-level node followed by the rest of a closure body *)
Lemma sim_a_step (t : node) (l : nodes) :
  sim_node t -> sim_nodes l ->
  forall dirty si jr ss si' jr' ri ss' rs,
    wf_f eff t = true -> wf_a eff l dirty = true -> seq si ss ->
    (let '(d1, st) := exec t (si, jr) in match st with Go => exec_list l d1 | _ => (d1, st) end) = ((si', jr'), ri) ->
    (let '(s1, st) := spec t ss in match st with Go => spec_list l s1 | _ => (s1, st) end) = (ss', rs) ->
    ri = rs /\ (ri = Go -> seq si' ss').
Proof.
  intros IHt [_ IHa] dirty si jr ss si' jr' ri ss' rs Wt Wr Q HI HS.
  destruct (exec t (si, jr)) as [[s1 jr1] r1] eqn:EI.
  destruct (spec t ss) as [t1 r2] eqn:ES.
  destruct (IHt _ _ _ _ _ _ _ _ Wt Q EI ES) as [-> HQ].
  destruct r2.
  - exact (IHa dirty _ _ _ _ _ _ _ _ Wr (HQ eq_refl) HI HS).
  - inversion HI; inversion HS; subst. split; [reflexivity|discriminate].
  - inversion HI; inversion HS; subst. split; [reflexivity|discriminate].
Qed.

Lemma sim : (forall t, sim_node t) /\ (forall l, sim_nodes l).
Proof.
  apply (node_all eff sim_node sim_nodes); unfold sim_node, sim_nodes.
  - intros e si jr ss si' jr' ri ss' rs W. discriminate.
  - (* Write *)
    intros k v si jr ss si' jr' ri ss' rs _ Q HI HS. unf HI. unf HS. inversion HS; subst.
    pose proof (sim_write si ss k v Q) as SW.
    destruct (Z.eqb (s_stor si k) v); inversion HI; subst; split; auto.
  - (* Log *)
    intros t si jr ss si' jr' ri ss' rs _ (A&B&C&D) HI HS. unf HI. unf HS. inversion HI; inversion HS; subst.
    split; [reflexivity|]. intros _. repeat split; cbn; congruence.
  - (* Action *)
    intros body [_ IHa] evs si jr ss si' jr' ri ss' rs W Q HI HS.
    rewrite ?wf_f_Action, ?wf_f_Frame in W. unf HI. unf HS.
    destruct (exec_list body (si, jr)) as [[s1 jr1] r1] eqn:EI.
    destruct (spec_list body ss) as [t1 r2] eqn:ES.
    destruct (IHa false _ _ _ _ _ _ _ _ W Q EI ES) as [-> HQ].
    destruct r2; inversion HI; inversion HS; subst; split; try reflexivity; try discriminate.
    intros _. destruct (HQ eq_refl) as (A&B&C&D). repeat split; cbn; congruence.
  - (* Frame *)
    intros body [IHf _] en caught si jr ss si' jr' ri ss' rs W Q HI HS.
    rewrite ?wf_f_Action, ?wf_f_Frame in W. unf HI. unf HS.
    destruct (exec_list body (si, jr)) as [[s1 jr1] r1] eqn:EI.
    destruct (spec_list body ss) as [t1 r2] eqn:ES.
    destruct (IHf _ _ _ _ _ _ _ _ W Q EI ES) as [-> HQ].
    destruct r2; [destruct (endk_ok en)| |].
    + inversion HI; inversion HS; subst. split; [reflexivity|]. intros _. apply HQ. reflexivity.
    + destruct (proj1 (proj2 inv body) _ _ _ _ _ W EI go_np) as (es & -> & F).
      rewrite revert_to_app in HI. inversion HI; inversion HS; subst. split; [reflexivity|].
      intros _. eapply seq_trans; [exact F|exact Q].
    + destruct (proj1 (proj2 inv body) _ _ _ _ _ W EI stop_np) as (es & -> & F).
      rewrite revert_to_app in HI. inversion HI; inversion HS; subst. split; [reflexivity|].
      intros _. eapply seq_trans; [exact F|exact Q].
    + inversion HI; inversion HS; subst. split; [reflexivity|discriminate].
  - (* nnil *)
    split.
    + intros si jr ss si' jr' ri ss' rs _ Q HI HS. inversion HI; inversion HS; subst. auto.
    + intros dirty si jr ss si' jr' ri ss' rs _ Q HI HS. inversion HI; inversion HS; subst. auto.
  - (* ncons *)
    intros t IHt l IHl. pose proof IHl as [IHf IHa]. split.
    + intros si jr ss si' jr' ri ss' rs W Q HI HS.
      unfw W. apply andb_true_iff in W as [Wt Wr].
      unf HI. unf HS.
      destruct (exec t (si, jr)) as [[s1 jr1] r1] eqn:EI.
      destruct (spec t ss) as [t1 r2] eqn:ES.
      destruct (IHt _ _ _ _ _ _ _ _ Wt Q EI ES) as [-> HQ].
      destruct r2.
      * exact (IHf _ _ _ _ _ _ _ _ Wr (HQ eq_refl) HI HS).
      * inversion HI; inversion HS; subst. split; [reflexivity|discriminate].
      * inversion HI; inversion HS; subst. split; [reflexivity|discriminate].
    + intros dirty si jr ss si' jr' ri ss' rs W Q HI HS.
      unf HI. unf HS.
      destruct t as [e|k v|tg|ab aevs|fb fen fc].
      * (* NStep *)
        unfw W. unf HI. unf HS.
        destruct Q as (A&B&C&D). rewrite A in HI.
        destruct (apply e (s_nat ss)) as [n' o].
        destruct o.
        -- refine (IHa true _ _ _ _ _ _ _ _ W _ HI HS). repeat split; cbn; assumption.
        -- inversion HI; inversion HS; subst. split; [reflexivity|discriminate].
        -- inversion HI; inversion HS; subst. split; [reflexivity|discriminate].
      * unfw W. exact (sim_a_step (Write k v) l IHt IHl dirty _ _ _ _ _ _ _ _ eq_refl W Q HI HS).
      * unfw W. exact (sim_a_step (Log tg) l IHt IHl dirty _ _ _ _ _ _ _ _ eq_refl W Q HI HS).
      * unfw W. apply andb_true_iff in W as [W Wr]. apply andb_true_iff in W as [Wt Wd].
        exact (sim_a_step (Action ab aevs) l IHt IHl dirty _ _ _ _ _ _ _ _ Wt Wr Q HI HS).
      * unfw W. apply andb_true_iff in W as [W Wr]. apply andb_true_iff in W as [Wt Wd].
        exact (sim_a_step (Frame fb fen fc) l IHt IHl dirty _ _ _ _ _ _ _ _ Wt Wr Q HI HS).
Qed.

(* ------------------------------------------------------------------ *)
(* 4. the transaction level *)

Theorem journal_refines_spec : forall body en s,
  wf_fl eff body = true ->
  let '(si, oki) := run_impl N eff apply body en s in
  let '(ss, oks) := run_spec N eff apply body en s in
  oki = oks /\ s_nat si = s_nat ss /\ s_logs si = s_logs ss /\ s_evs si = s_evs ss /\
  (forall k, s_stor si k = s_stor ss k).
Proof.
  intros body en s W. unfold run_impl, run_spec.
  rewrite exec_Frame, spec_Frame.
  destruct (exec_list body (s, [])) as [[s1 jr1] r1] eqn:LI.
  destruct (spec_list body s) as [t1 r2] eqn:LS.
  destruct (proj1 (proj2 sim body) _ _ _ _ _ _ _ _ W (seq_refl s) LI LS) as [-> HQ].
  destruct r2; [destruct (endk_ok en)| |].
  - destruct (HQ eq_refl) as (A&B&C&D). auto.
  - destruct (proj1 (proj2 inv body) _ _ _ _ _ W LI go_np) as (es & -> & F).
    rewrite (revert_to_app es [] s1). cbn. destruct F as (A&B&C&D). auto.
  - destruct (proj1 (proj2 inv body) _ _ _ _ _ W LI stop_np) as (es & -> & F).
    rewrite (revert_to_app es [] s1). cbn. destruct F as (A&B&C&D). auto.
  - repeat split.
Qed.

(* a failed transaction hands Commit exactly the state it started from (an aborted one commits nothing at all) *)
Theorem failed_tx_no_effect : forall body en s,
  wf_fl eff body = true ->
  snd (run_impl N eff apply body en s) = false ->
  seq (fst (run_impl N eff apply body en s)) s.
Proof.
  intros body en s W. unfold run_impl. rewrite exec_Frame.
  destruct (exec_list body (s, [])) as [[s1 jr1] r1] eqn:LI.
  destruct r1; [destruct (endk_ok en)| |]; cbn [fst snd].
  - discriminate.
  - intros _. destruct (proj1 (proj2 inv body) _ _ _ _ _ W LI go_np) as (es & -> & F).
    rewrite (revert_to_app es [] s1). cbn. exact F.
  - intros _. destruct (proj1 (proj2 inv body) _ _ _ _ _ W LI stop_np) as (es & -> & F).
    rewrite (revert_to_app es [] s1). cbn. exact F.
  - intros _. apply seq_refl.
Qed.

(* ------------------------------------------------------------------ *)
(* 5. gas: cutting execution short anywhere keeps the tree well-formed, so the theorem covers it *)

Lemma cut_props :
  (forall t t', cut eff t t' -> (wf_f eff t = true -> wf_f eff t' = true) /\
                               (has_action eff t = false -> has_action eff t' = false)) /\
  (forall l l', cut_list eff l l' ->
      (wf_fl eff l = true -> wf_fl eff l' = true) /\
      (has_action_list eff l = false -> has_action_list eff l' = false)) /\
  (forall l l', cut_inner_list eff l l' ->
      (wf_fl eff l = true -> wf_fl eff l' = true) /\
      (forall d, wf_a eff l d = true -> wf_a eff l' d = true) /\
      (has_action_list eff l = false -> has_action_list eff l' = false)).
Proof.
  pose (P := fun t t' (_ : cut eff t t') =>
     (wf_f eff t = true -> wf_f eff t' = true) /\ (has_action eff t = false -> has_action eff t' = false)).
  pose (PL := fun l l' (_ : cut_list eff l l') =>
     (wf_fl eff l = true -> wf_fl eff l' = true) /\
     (has_action_list eff l = false -> has_action_list eff l' = false)).
  pose (PI := fun l l' (_ : cut_inner_list eff l l') =>
     (wf_fl eff l = true -> wf_fl eff l' = true) /\
     (forall d, wf_a eff l d = true -> wf_a eff l' d = true) /\
     (has_action_list eff l = false -> has_action_list eff l' = false)).
  change ((forall t t' c, P t t' c) /\ (forall l l' c, PL l l' c) /\ (forall l l' c, PI l l' c)).
  apply (cut_all eff P PL PI); unfold P, PL, PI; clear P PL PI.
  - auto.
  - intros b b' en c _ [A B]. split; [exact A|exact B].
  - intros b b' en c _ (A&_&B). split; [exact A|exact B].
  - intros b b' evs _ (_&A&_). split; [exact (A false)|auto].
  - intro l. split; reflexivity.
  - intros t t' r r' _ [A B] _ [C D]. rewrite !wf_fl_cons. split.
    + intro W. apply andb_true_iff in W as [Wt Wr]. rewrite (A Wt), (C Wr). reflexivity.
    + change (has_action eff t || has_action_list eff r = false ->
              has_action eff t' || has_action_list eff r' = false).
      intro H. apply orb_false_iff in H as [Ht Hr]. rewrite (B Ht), (D Hr). reflexivity.
  - repeat split; auto.
  - intros t t' r r' ct [A B] _ (C&D&E). rewrite !wf_fl_cons. repeat split.
    + intro W. apply andb_true_iff in W as [Wt Wr]. rewrite (A Wt), (C Wr). reflexivity.
    + intros d W.
      assert (G : forall x y, wf_f eff x = true -> (has_action eff x = false -> has_action eff y = false) ->
                  (wf_f eff x = true -> wf_f eff y = true) ->
                  wf_f eff x && (if d then negb (has_action eff x) else true) && wf_a eff r d = true ->
                  wf_f eff y && (if d then negb (has_action eff y) else true) && wf_a eff r' d = true).
      { intros x y _ HB HA W0. apply andb_true_iff in W0 as [W0 Wr]. apply andb_true_iff in W0 as [Wt Wd].
        rewrite (HA Wt), (D _ Wr). destruct d; [|reflexivity].
        apply negb_true_iff in Wd. rewrite (HB Wd). reflexivity. }
      destruct ct.
      * destruct t; unfw W; unfw W; rewrite ?wf_a_NStep, ?wf_a_Write, ?wf_a_Log, ?wf_a_Action, ?wf_a_Frame;
          try (apply D; exact W).
        -- apply andb_true_iff in W as [W0 Wr]. rewrite W0, (D _ Wr). reflexivity.
        -- apply andb_true_iff in W as [W0 Wr]. rewrite W0, (D _ Wr). reflexivity.
      * rewrite wf_a_Frame in *. apply (G _ _ (proj1 (proj1 (andb_true_iff _ _) (proj1 (proj1 (andb_true_iff _ _) W)))) B A W).
      * rewrite wf_a_Frame in *. apply (G _ _ (proj1 (proj1 (andb_true_iff _ _) (proj1 (proj1 (andb_true_iff _ _) W)))) B A W).
      * rewrite wf_a_Action in *. apply (G _ _ (proj1 (proj1 (andb_true_iff _ _) (proj1 (proj1 (andb_true_iff _ _) W)))) B A W).
    + change (has_action eff t || has_action_list eff r = false ->
              has_action eff t' || has_action_list eff r' = false).
      intro H. apply orb_false_iff in H as [Ht Hr]. rewrite (B Ht), (E Hr). reflexivity.
Qed.

(* gas exhaustion at any point(s) of any frame(s) is one of the trees the theorem covers *)
Theorem cut_refines : forall body en body' en' s,
  wf_fl eff body = true ->
  cut eff (Frame body en false) (Frame body' en' false) ->
  let '(si, oki) := run_impl N eff apply body' en' s in
  let '(ss, oks) := run_spec N eff apply body' en' s in
  oki = oks /\ s_nat si = s_nat ss /\ s_logs si = s_logs ss /\ s_evs si = s_evs ss /\
  (forall k, s_stor si k = s_stor ss k).
Proof.
  intros body en body' en' s W C. apply journal_refines_spec.
  destruct (proj1 cut_props _ _ C) as [A _]. apply (A W).
Qed.

End Proofs.

(* ================================================================== *)
(* the marker instance: which effects survive, in the words of the property *)

Definition mspec := M_Frames.spec mstore meff mapply.
Definition mspec_list := M_Frames.spec_list mstore meff mapply.

Definition st_of (b : bool) : status := if b then Go else Stop.

Lemma spec_surv :
  (forall (t : mnode) s s' r, no_panic t = true -> mspec t s = (s', r) ->
     r = st_of (fok t) /\ (r = Go -> s_nat s' = surv t ++ s_nat s)) /\
  (forall (l : mnodes) s s' r, no_panic_list l = true -> mspec_list l s = (s', r) ->
     r = st_of (fok_list l) /\ (r = Go -> s_nat s' = surv_list l ++ s_nat s)).
Proof.
  apply (node_all meff
    (fun t => forall s s' r, no_panic t = true -> mspec t s = (s', r) ->
                r = st_of (fok t) /\ (r = Go -> s_nat s' = surv t ++ s_nat s))
    (fun l => forall s s' r, no_panic_list l = true -> mspec_list l s = (s', r) ->
                r = st_of (fok_list l) /\ (r = Go -> s_nat s' = surv_list l ++ s_nat s)));
    unfold mspec, mspec_list.
  - intros e s s' r NP H. rewrite spec_NStep in H. unfold mapply in H. cbn [fok surv]. cbn [no_panic] in NP.
    destruct (m_ok e); [|destruct (m_panic e); [discriminate|]; destruct (m_partial e)];
      inversion H; subst; cbn; split; auto; discriminate.
  - intros k v s s' r _ H. rewrite spec_Write in H. inversion H; subst. cbn. auto.
  - intros t s s' r _ H. rewrite spec_Log in H. inversion H; subst. cbn. auto.
  - intros b IH evs s s' r NP H. rewrite spec_Action in H.
    destruct (M_Frames.spec_list mstore meff mapply b s) as [s1 r1] eqn:E.
    destruct (IH _ _ _ NP E) as [-> HN]. change (fok (Action b evs)) with (fok_list b).
    change (surv (Action b evs)) with (if fok_list b then surv_list b else []).
    destruct (fok_list b); cbn [st_of] in *; inversion H; subst; split; auto; try discriminate.
    all: intros _; cbn; apply HN; reflexivity.
  - intros b IH en c s s' r NP H. rewrite spec_Frame in H.
    destruct (M_Frames.spec_list mstore meff mapply b s) as [s1 r1] eqn:E.
    destruct (IH _ _ _ NP E) as [-> HN].
    change (fok (Frame b en c)) with ((fok_list b && endk_ok en) || c).
    change (surv (Frame b en c)) with (if frame_kept b en then surv_list b else []).
    unfold frame_kept. destruct (fok_list b); cbn [st_of andb] in *; [destruct (endk_ok en)|];
      inversion H; subst; cbn [orb]; split; auto; try (destruct c; reflexivity).
    all: intros _; apply HN; reflexivity.
  - intros s s' r _ H. rewrite spec_nil in H. inversion H; subst. cbn. auto.
  - intros t IHt l IHl s s' r NP H. rewrite spec_cons in H.
    change (no_panic_list (ncons t l)) with (no_panic t && no_panic_list l) in NP.
    apply andb_true_iff in NP as [NPt NPl].
    destruct (M_Frames.spec mstore meff mapply t s) as [s1 r1] eqn:E.
    destruct (IHt _ _ _ NPt E) as [-> HN].
    change (fok_list (ncons t l)) with (fok t && fok_list l).
    change (surv_list (ncons t l)) with (if fok t then surv_list l ++ surv t else surv t).
    destruct (fok t); cbn [st_of andb] in *.
    + destruct (IHl _ _ _ NPl H) as [-> HR]. split; [reflexivity|]. intro K.
      rewrite (HR K), (HN eq_refl), app_assoc. reflexivity.
    + inversion H; subst. split; [reflexivity|discriminate].
Qed.

Scheme kept_mut := Induction for kept_in Sort Prop
  with kept_list_mut := Induction for kept_in_list Sort Prop.

Lemma surv_kept :
  (forall (t : mnode) m, In m (surv t) <-> kept_in m t) /\
  (forall (l : mnodes) m, fok_list l = true -> (In m (surv_list l) <-> kept_in_list m l)).
Proof.
  apply (node_all meff
    (fun t => forall m, In m (surv t) <-> kept_in m t)
    (fun l => forall m, fok_list l = true -> (In m (surv_list l) <-> kept_in_list m l))).
  - intros e m. cbn [surv]. split.
    + destruct (m_ok e) eqn:O; [|intros []]. intros [H|[]]. constructor; assumption.
    + intro K. inversion K as [e' Ho Hi | | ]; subst. rewrite Ho. left. reflexivity.
  - intros k v m. split; [intros []|intro K; inversion K].
  - intros t m. split; [intros []|intro K; inversion K].
  - intros b IH evs m. change (surv (Action b evs)) with (if fok_list b then surv_list b else []). split.
    + destruct (fok_list b) eqn:F; [|intros []]. intro H. constructor; [exact F|]. apply (proj1 (IH m eq_refl)); exact H.
    + intro K. inversion K as [ | b' evs' Hf Hk | ]; subst. rewrite Hf. apply (proj2 (IH m Hf)); exact Hk.
  - intros b IH en c m. change (surv (Frame b en c)) with (if frame_kept b en then surv_list b else []). split.
    + destruct (frame_kept b en) eqn:F; [|intros []]. intro H. constructor; [exact F|].
      unfold frame_kept in F. apply andb_true_iff in F as [F _]. apply (proj1 (IH m F)); exact H.
    + intro K. inversion K as [ | | b' en' c' Hf Hk ]; subst. rewrite Hf.
      unfold frame_kept in Hf. apply andb_true_iff in Hf as [F _]. apply (proj2 (IH m F)); exact Hk.
  - intros m _. split; [intros []|intro K; inversion K].
  - intros t IHt r IHr m F. change (fok_list (ncons t r)) with (fok t && fok_list r) in F.
    apply andb_true_iff in F as [Ft Fr].
    change (surv_list (ncons t r)) with (if fok t then surv_list r ++ surv t else surv t). rewrite Ft.
    rewrite in_app_iff, IHt, (IHr m Fr). split.
    + intros [H|H]; [apply k_later|apply k_here]; assumption.
    + intro K. inversion K; subst; [right|left]; assumption.
Qed.

Definition mwf := wf_fl meff.

Theorem impl_survivors : forall body en, mwf body = true -> no_panic_list body = true ->
  snd (m_run_impl body en) = frame_kept body en /\
  s_nat (fst (m_run_impl body en)) = if frame_kept body en then surv_list body else [].
Proof.
  intros body en W NP. pose proof (journal_refines_spec mstore meff mapply body en st0 W) as H.
  unfold m_run_impl. destruct (run_impl mstore meff mapply body en st0) as [si oki].
  unfold run_spec in H. rewrite spec_Frame in H.
  destruct (M_Frames.spec_list mstore meff mapply body st0) as [s1 r1] eqn:E.
  destruct (proj2 spec_surv body _ _ _ NP E) as [-> HN].
  cbn [fst snd]. unfold frame_kept.
  destruct (fok_list body); cbn [st_of andb] in *; [destruct (endk_ok en)|];
    destruct H as (A&B&_); subst oki; split; auto.
  rewrite B, (HN eq_refl). cbn. apply app_nil_r.
Qed.

Theorem effect_survives_iff : forall body en m, mwf body = true -> no_panic_list body = true ->
  (In m (s_nat (fst (m_run_impl body en))) <-> frame_kept body en = true /\ kept_in_list m body).
Proof.
  intros body en m W NP. destruct (impl_survivors body en W NP) as [_ ->].
  destruct (frame_kept body en) eqn:K.
  - assert (F : fok_list body = true) by (unfold frame_kept in K; apply andb_true_iff in K as [F _]; exact F).
    rewrite (proj2 surv_kept body m F). tauto.
  - split; [intros []|intros [H _]; discriminate].
Qed.

(* a keeper call that panics — even after partial writes, even under frames whose failures are caught — aborts
   the transaction: nothing at all is published *)
Theorem panic_aborts_everything :
  mwf ex_panic = true /\ no_panic_list ex_panic = false /\
  snd (m_run_impl ex_panic Return) = false /\
  s_nat (fst (m_run_impl ex_panic Return)) = [] /\ s_logs (fst (m_run_impl ex_panic Return)) = [] /\
  s_stor (fst (m_run_impl ex_panic Return)) 1 = 0 /\ s_stor (fst (m_run_impl ex_panic Return)) 2 = 0.
Proof. vm_compute. repeat split. Qed.

(* the guards are needed: without them the journal does NOT give all-or-nothing *)
Theorem unjournaled_write_survives_revert :
  mwf ex_unjournaled = false /\
  s_nat (fst (m_run_impl ex_unjournaled Return)) = [1] /\
  s_nat (fst (m_run_spec ex_unjournaled Return)) = [].
Proof. vm_compute. repeat split. Qed.

Theorem write_before_nested_action_survives_revert :
  mwf ex_write_before_nested = false /\
  s_nat (fst (m_run_impl ex_write_before_nested Return)) = [1] /\
  s_nat (fst (m_run_spec ex_write_before_nested Return)) = [].
Proof. vm_compute. repeat split. Qed.

Theorem frames_nonvacuous :
  mwf ex_mixed = true /\
  snd (m_run_impl ex_mixed Return) = true /\
  s_nat (fst (m_run_impl ex_mixed Return)) = [13; 10] /\
  rev (s_logs (fst (m_run_impl ex_mixed Return))) = [110; 113] /\
  s_evs (fst (m_run_impl ex_mixed Return)) = [10] /\
  s_stor (fst (m_run_impl ex_mixed Return)) 1 = 7 /\
  s_nat (fst (m_run_impl ex_mixed Revert)) = [] /\ snd (m_run_impl ex_mixed Revert) = false.
Proof. vm_compute. repeat split. Qed.
