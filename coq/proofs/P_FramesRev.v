(* P_FramesRev — C09: the real revision bookkeeping (validRevisions / nextRevisionID) refines
   "Snapshot = journal length" of M_Frames.exec, for every call tree; RevertToSnapshot never panics. *)
From Coq Require Import ZArith List Bool Lia Arith.
From FxV Require Import model.M_Frames model.M_FramesRev proofs.P_Frames.
Import ListNotations.
Open Scope nat_scope.

Section Proofs.
Variable N : Type.
Variable eff : Type.
Variable apply : eff -> N -> N * status.

Notation node := (node eff).
Notation nodes := (nodes eff).
Notation exec := (exec N eff apply).
Notation exec_list := (exec_list N eff apply).
Notation exec_r := (exec_r N eff apply).
Notation exec_list_r := (exec_list_r N eff apply).

Lemma rsorted_mono : forall vr lo nx nx', rsorted lo vr nx -> nx <= nx' -> rsorted lo vr nx'.
Proof.
  induction vr as [|[i k] r IH]; cbn; intros lo nx nx' H L; [lia|].
  destruct H as [H1 H2]. split; [exact H1|]. eapply IH; eauto.
Qed.

Lemma rsorted_snoc : forall vr lo nx k, rsorted lo vr nx -> rsorted lo (vr ++ [(nx, k)]) (S nx).
Proof.
  induction vr as [|[i j] r IH]; cbn; intros lo nx k H.
  - split; [exact H|lia].
  - destruct H as [H1 H2]. split; [exact H1|]. apply IH; exact H2.
Qed.

Lemma rsorted_prefix : forall vr extra lo nx, rsorted lo (vr ++ extra) nx -> rsorted lo vr nx.
Proof.
  induction vr as [|[i j] r IH]; cbn; intros extra lo nx H.
  - revert lo H. induction extra as [|[i j] e IHe]; cbn; intros lo H; [exact H|].
    destruct H as [H1 H2]. apply IHe in H2. lia.
  - destruct H as [H1 H2]. split; [exact H1|]. eapply IH; eauto.
Qed.

Lemma rsorted_lo_le : forall vr lo nx, rsorted lo vr nx -> lo <= nx.
Proof.
  induction vr as [|[i j] r IH]; cbn; intros lo nx H; [exact H|].
  destruct H as [H1 H2]. apply IH in H2. lia.
Qed.

(* the frame's own revision is found below those of its successful children *)
Lemma rsearch_own : forall vr lo nx k extra, rsorted lo vr nx ->
  rsearch nx (vr ++ (nx, k) :: extra) = length vr /\
  nth_error (vr ++ (nx, k) :: extra) (length vr) = Some (nx, k) /\
  firstn (length vr) (vr ++ (nx, k) :: extra) = vr.
Proof.
  induction vr as [|[i j] r IH]; cbn -[Nat.leb]; intros lo nx k extra H.
  - rewrite Nat.leb_refl. repeat split.
  - destruct H as [H1 H2]. pose proof (rsorted_lo_le _ _ _ H2) as L.
    destruct (Nat.leb nx i) eqn:E; [apply Nat.leb_le in E; lia|].
    destruct (IH _ _ k extra H2) as (A & B & C). rewrite A, C. repeat split. exact B.
Qed.

Lemma revert_r_own : forall vr lo nx k extra s jr, rsorted lo vr nx ->
  revert_r N nx s jr (vr ++ (nx, k) :: extra) =
  let '(s', jr') := revert_to N k s jr in Some (s', jr', vr).
Proof.
  intros vr lo nx k extra s jr H. unfold revert_r.
  destruct (rsearch_own vr lo nx k extra H) as (A & B & C).
  rewrite A, B, Nat.eqb_refl, C. reflexivity.
Qed.

Definition rinv_node (t : node) : Prop :=
  forall s jr vr nx lo s' jr' vr' nx' r, rsorted lo vr nx ->
  exec_r t (s, jr, vr, nx) = ((s', jr', vr', nx'), r) ->
  exec t (s, jr) = ((s', jr'), r) /\ (exists extra, vr' = vr ++ extra) /\ rsorted lo vr' nx' /\ nx <= nx'.
Definition rinv_nodes (l : nodes) : Prop :=
  forall s jr vr nx lo s' jr' vr' nx' r, rsorted lo vr nx ->
  exec_list_r l (s, jr, vr, nx) = ((s', jr', vr', nx'), r) ->
  exec_list l (s, jr) = ((s', jr'), r) /\ (exists extra, vr' = vr ++ extra) /\ rsorted lo vr' nx' /\ nx <= nx'.

Lemma exec_r_Action body evs s jr vr nx : exec_r (Action body evs) (s, jr, vr, nx) =
  let '((s1, jr1, vr1, nx1), r) := exec_list_r body (s, jr, vr, nx) in
  match r with
  | Go => ((mkst (s_nat s1) (s_logs s1) (rev evs ++ s_evs s1) (s_stor s1),
            JNative N (s_nat s) (length evs) :: jr1, vr1, nx1), Go)
  | Stop => ((mkst (s_nat s) (s_logs s1) (s_evs s1) (s_stor s1), jr1, vr1, nx1), Stop)
  | Panic => ((s1, jr1, vr1, nx1), Panic)
  end.
Proof. reflexivity. Qed.
Lemma exec_r_Frame body en caught s jr vr nx : exec_r (Frame body en caught) (s, jr, vr, nx) =
  let '((s1, jr1, vr1, nx1), r) := exec_list_r body (s, jr, vr ++ [(nx, length jr)], S nx) in
  match r with
  | Panic => ((s1, jr1, vr1, nx1), Panic)
  | Go => if endk_ok en then ((s1, jr1, vr1, nx1), Go) else fail_r N nx caught s1 jr1 vr1 nx1
  | Stop => fail_r N nx caught s1 jr1 vr1 nx1
  end.
Proof. reflexivity. Qed.
Lemma exec_r_cons t l d : exec_list_r (ncons t l) d =
  let '(d1, st) := exec_r t d in match st with Go => exec_list_r l d1 | _ => (d1, st) end.
Proof. reflexivity. Qed.

Lemma fail_r_own : forall vr lo nx k extra caught s1 jr1 nx1 s' jr' vr' nx' r,
  rsorted lo vr nx -> nx <= nx1 ->
  fail_r N nx caught s1 jr1 (vr ++ (nx, k) :: extra) nx1 = ((s', jr', vr', nx'), r) ->
  (revert_to N k s1 jr1, caught_status caught) = ((s', jr'), r) /\ vr' = vr /\ nx' = nx1.
Proof.
  intros vr lo nx k extra caught s1 jr1 nx1 s' jr' vr' nx' r H L E.
  unfold fail_r in E. rewrite (revert_r_own vr lo nx k extra s1 jr1 H) in E.
  destruct (revert_to N k s1 jr1) as [s2 jr2]. inversion E; subst. repeat split.
Qed.

Lemma rinv : (forall t, rinv_node t) /\ (forall l, rinv_nodes l).
Proof.
  apply (node_all eff rinv_node rinv_nodes); unfold rinv_node, rinv_nodes.
  - (* NStep *)
    intros e s jr vr nx lo s' jr' vr' nx' r HS H. cbn in H. rewrite exec_NStep.
    destruct (apply e (s_nat s)) as [n' o]. inversion H; subst.
    repeat split; [exists []; rewrite app_nil_r; reflexivity|exact HS|lia].
  - (* Write *)
    intros k v s jr vr nx lo s' jr' vr' nx' r HS H. cbn in H. rewrite exec_Write.
    destruct (Z.eqb (s_stor s k) v); inversion H; subst;
    (repeat split; [exists []; rewrite app_nil_r; reflexivity|exact HS|lia]).
  - (* Log *)
    intros t s jr vr nx lo s' jr' vr' nx' r HS H. cbn in H. rewrite exec_Log. inversion H; subst.
    repeat split; [exists []; rewrite app_nil_r; reflexivity|exact HS|lia].
  - (* Action *)
    intros body IH evs s jr vr nx lo s' jr' vr' nx' r HS H. rewrite exec_r_Action in H. rewrite exec_Action.
    destruct (exec_list_r body (s, jr, vr, nx)) as [[[[s1 jr1] vr1] nx1] r1] eqn:E.
    destruct (IH _ _ _ _ _ _ _ _ _ _ HS E) as (A & B & C & D). rewrite A.
    destruct r1; inversion H; subst; repeat split; assumption.
  - (* Frame *)
    intros body IH en caught s jr vr nx lo s' jr' vr' nx' r HS H. rewrite exec_r_Frame in H. rewrite exec_Frame.
    destruct (exec_list_r body (s, jr, vr ++ [(nx, length jr)], S nx)) as [[[[s1 jr1] vr1] nx1] r1] eqn:E.
    pose proof (rsorted_snoc vr lo nx (length jr) HS) as S0.
    destruct (IH _ _ _ _ _ _ _ _ _ _ S0 E) as (A & (extra & B) & C & D). rewrite A.
    rewrite <- app_assoc in B. cbn in B. subst vr1.
    assert (Hfail : forall s' jr' vr' nx' r,
              fail_r N nx caught s1 jr1 (vr ++ (nx, length jr) :: extra) nx1 = (s', jr', vr', nx', r) ->
              (revert_to N (length jr) s1 jr1, caught_status caught) = (s', jr', r) /\
              (exists extra0, vr' = vr ++ extra0) /\ rsorted lo vr' nx' /\ nx <= nx').
    { intros s2 jr2 vr2 nx2 r2 F.
      destruct (fail_r_own vr lo nx (length jr) extra caught s1 jr1 nx1 _ _ _ _ _ HS ltac:(lia) F) as (F1 & -> & ->).
      repeat split; [exact F1|exists []; rewrite app_nil_r; reflexivity| |lia].
      eapply rsorted_mono; [exact HS|lia]. }
    destruct r1.
    + destruct (endk_ok en).
      * inversion H; subst. repeat split; [eexists; reflexivity|exact C|lia].
      * apply Hfail; exact H.
    + apply Hfail; exact H.
    + inversion H; subst. repeat split; [eexists; reflexivity|exact C|lia].
  - (* nil *)
    intros s jr vr nx lo s' jr' vr' nx' r HS H. cbn in H. rewrite exec_nil. inversion H; subst.
    repeat split; [exists []; rewrite app_nil_r; reflexivity|exact HS|lia].
  - (* cons *)
    intros t IHt l IHl s jr vr nx lo s' jr' vr' nx' r HS H. rewrite exec_r_cons in H. rewrite exec_cons.
    destruct (exec_r t (s, jr, vr, nx)) as [[[[s1 jr1] vr1] nx1] r1] eqn:E.
    destruct (IHt _ _ _ _ _ _ _ _ _ _ HS E) as (A & (e1 & B) & C & D). rewrite A.
    destruct r1.
    + destruct (IHl _ _ _ _ _ _ _ _ _ _ C H) as (A2 & (e2 & B2) & C2 & D2).
      repeat split; [exact A2|exists (e1 ++ e2); subst; rewrite app_assoc; reflexivity|exact C2|lia].
    + inversion H; subst. repeat split; [eexists; reflexivity|exact C|lia].
    + inversion H; subst. repeat split; [eexists; reflexivity|exact C|lia].
Qed.

(* every tree (no well-formedness needed), every keeper semantics: the state DB with the real revision stack
   publishes exactly what the journal-length machine publishes *)
Theorem revisions_refine_journal_length : forall body en s,
  run_impl_r N eff apply body en s = run_impl N eff apply body en s.
Proof.
  intros body en s. unfold run_impl_r, run_impl.
  destruct (exec_r (Frame body en false) (s, [], [], 0)) as [[[[s1 jr1] vr1] nx1] r1] eqn:E.
  destruct (proj1 rinv (Frame body en false) s [] [] 0 0 _ _ _ _ _ (le_n 0) E) as (A & _). rewrite A.
  reflexivity.
Qed.

(* RevertToSnapshot's panic("revision id cannot be reverted") is unreachable from ApplyMessage: a reverting
   frame always finds its own revision, at any depth, whatever happened inside it; afterwards the stack is the
   one the frame was entered with. Stated on the lookup itself, for any reachable stack. *)
Theorem revert_finds_own_revision : forall (body : nodes) s jr vr nx lo s1 jr1 vr1 nx1 r,
  rsorted lo vr nx ->
  exec_list_r body (s, jr, vr ++ [(nx, length jr)], S nx) = ((s1, jr1, vr1, nx1), r) ->
  revert_r N nx s1 jr1 vr1 = (let '(s', jr') := revert_to N (length jr) s1 jr1 in Some (s', jr', vr)) /\
  rsorted lo vr1 nx1.
Proof.
  intros body s jr vr nx lo s1 jr1 vr1 nx1 r HS E.
  destruct (proj2 rinv body _ _ _ _ _ _ _ _ _ _ (rsorted_snoc vr lo nx (length jr) HS) E) as (_ & (extra & B) & C & _).
  rewrite <- app_assoc in B. cbn in B. subst vr1. split; [|exact C].
  eapply revert_r_own; exact HS.
Qed.

Theorem revision_machine_refines_spec : forall body en s,
  wf_fl eff body = true ->
  let '(si, oki) := run_impl_r N eff apply body en s in
  let '(ss, oks) := run_spec N eff apply body en s in
  oki = oks /\ s_nat si = s_nat ss /\ s_logs si = s_logs ss /\ s_evs si = s_evs ss /\
  (forall k, s_stor si k = s_stor ss k).
Proof.
  intros body en s W. rewrite revisions_refine_journal_length. exact (journal_refines_spec N eff apply body en s W).
Qed.

End Proofs.

(* the stack really grows along successful frames, and a revert under them still finds its entry *)
Definition ex_rev : mnodes :=
  ncons (Frame (ncons (Frame (ncons (Write 1 1) nnil) Return false)
               (ncons (Frame (ncons (Write 2 2) nnil) Return false)
               (ncons (Write 3 3) nnil))) Revert true)
 (ncons (Frame (ncons (Write 4 4) nnil) Return false) nnil).

Lemma revisions_nonvacuous :
  (let '((_, _, vr, nx), r) := exec_list_r mstore meff mapply ex_rev (st0, [], [], 0) in (vr, nx, r))
    = ([(3, 0)], 4, Go) /\
  (let '((_, _, vr, nx), r) :=
     exec_list_r mstore meff mapply
       (ncons (Frame (ncons (Write 1 1) nnil) Return false) (ncons (Frame (ncons (Write 2 2) nnil) Return false) nnil))
       (st0, [], [(0, 0)], 1) in (vr, nx, r))
    = ([(0, 0); (1, 0); (2, 1)], 3, Go) /\
  (* a stale or foreign id is refused: the panic branch exists in the model *)
  revert_r mstore 1 st0 [] [(0, 0); (2, 0)] = None.
Proof. vm_compute. repeat split. Qed.
