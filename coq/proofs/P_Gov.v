(* P_Gov.v — proofs about model.M_Gov (property C15), part 1:
   well-formedness invariant, deposit conservation, total end-block, payout exactly once. *)
From Coq Require Import ZArith List Bool Lia.
From FxV Require Import lib.Dec model.M_Gov.
Import ListNotations.
Open Scope Z_scope.

(* ------------------------------------------------------------------ vocabulary *)
Definition contrib (p : proposal) : Z :=
  if is_open (p_status p) then sum_deps (p_deps p) else 0.

Fixpoint open_sum (ps : list proposal) : Z :=
  match ps with [] => 0 | p :: r => contrib p + open_sum r end.

Definition deps_nonneg (l : list (Z * Z)) : Prop := Forall (fun da => 0 <= snd da) l.

(* a message that moves coins out of the module account or pledges them *)
Definition no_govsend_msg (m : msg) : Prop :=
  match m_act m with AGovSend _ _ | AGovDeposit _ _ => False | _ => True end.

(* what open proposals hold as records of the module account itself: deposits without funds *)
Definition pledge (p : proposal) : Z :=
  if is_open (p_status p) then gov_part (p_deps p) else 0.
Fixpoint pledged (ps : list proposal) : Z :=
  match ps with [] => 0 | p :: r => pledge p + pledged r end.

Definition prop_ok (p : proposal) : Prop :=
  p_total p = sum_deps (p_deps p) /\ deps_nonneg (p_deps p).

Record wf (s : state) : Prop := {
  wf_ids : Forall (fun p => p_id p < next_id s) (props s);
  wf_props : Forall prop_ok (props s);
  wf_cons : gov_bal s + gov_spent s = open_sum (props s);
  wf_spent : pledged (props s) <= gov_spent s }.

(* ------------------------------------------------------------------ lists of proposals *)
Lemma find_prop_id : forall id ps p, find_prop id ps = Some p -> p_id p = id.
Proof.
  induction ps as [|q r IH]; cbn; intros p H; [discriminate|].
  destruct (p_id q =? id) eqn:E; [inversion H; subst; now apply Z.eqb_eq|auto].
Qed.

Lemma find_prop_In : forall id ps p, find_prop id ps = Some p -> In p ps.
Proof.
  induction ps as [|q r IH]; cbn; intros p H; [discriminate|].
  destruct (p_id q =? id); [inversion H; auto|right; auto].
Qed.

Lemma find_prop_none_fresh : forall id ps,
  Forall (fun p => p_id p < id) ps -> find_prop id ps = None.
Proof.
  induction ps as [|q r IH]; cbn; intros H; [reflexivity|].
  inversion H; subst. destruct (p_id q =? id) eqn:E; [apply Z.eqb_eq in E; lia|auto].
Qed.

Lemma find_prop_app : forall id ps q,
  find_prop id (ps ++ [q]) =
  match find_prop id ps with Some p => Some p | None => if p_id q =? id then Some q else None end.
Proof.
  induction ps as [|a r IH]; cbn; intros q; [reflexivity|].
  destruct (p_id a =? id); [reflexivity|apply IH].
Qed.

Lemma find_upd_same : forall id f ps p,
  (forall q, p_id (f q) = p_id q) ->
  find_prop id ps = Some p -> find_prop id (upd_prop id f ps) = Some (f p).
Proof.
  induction ps as [|a r IH]; cbn; intros p Hf H; [discriminate|].
  destruct (p_id a =? id) eqn:E.
  - inversion H; subst. cbn. rewrite Hf, E. reflexivity.
  - cbn. rewrite E. auto.
Qed.

Lemma find_upd_other : forall id id' f ps,
  (forall q, p_id (f q) = p_id q) -> id' <> id ->
  find_prop id' (upd_prop id f ps) = find_prop id' ps.
Proof.
  induction ps as [|a r IH]; cbn; intros Hf Hne; [reflexivity|].
  destruct (p_id a =? id) eqn:E; cbn.
  - rewrite Hf. apply Z.eqb_eq in E. destruct (p_id a =? id') eqn:E'; [apply Z.eqb_eq in E'; lia|reflexivity].
  - destruct (p_id a =? id'); [reflexivity|auto].
Qed.

Lemma upd_prop_none : forall id f ps, find_prop id ps = None -> upd_prop id f ps = ps.
Proof.
  induction ps as [|a r IH]; cbn; intros H; [reflexivity|].
  destruct (p_id a =? id); [discriminate|]. now rewrite IH.
Qed.

Lemma Forall_upd : forall (Q : proposal -> Prop) id f ps,
  Forall Q ps -> (forall p, find_prop id ps = Some p -> Q (f p)) -> Forall Q (upd_prop id f ps).
Proof.
  induction ps as [|a r IH]; cbn; intros H Hf; [constructor|].
  inversion H; subst. destruct (p_id a =? id) eqn:E.
  - constructor; [apply Hf; reflexivity|assumption].
  - constructor; [assumption|apply IH; assumption].
Qed.

Lemma open_sum_upd : forall id f ps p,
  find_prop id ps = Some p ->
  open_sum (upd_prop id f ps) = open_sum ps - contrib p + contrib (f p).
Proof.
  induction ps as [|a r IH]; cbn; intros p H; [discriminate|].
  destruct (p_id a =? id).
  - inversion H; subst. cbn. lia.
  - cbn. rewrite (IH p H). lia.
Qed.

Lemma open_sum_app : forall ps q, open_sum (ps ++ [q]) = open_sum ps + contrib q.
Proof. induction ps as [|a r IH]; cbn; intros; [lia|rewrite IH; lia]. Qed.

Lemma pledged_upd : forall id f ps p,
  find_prop id ps = Some p ->
  pledged (upd_prop id f ps) = pledged ps - pledge p + pledge (f p).
Proof.
  induction ps as [|a r IH]; cbn; intros p H; [discriminate|].
  destruct (p_id a =? id).
  - inversion H; subst. cbn. lia.
  - cbn. rewrite (IH p H). lia.
Qed.

Lemma pledged_app : forall ps q, pledged (ps ++ [q]) = pledged ps + pledge q.
Proof. induction ps as [|a r IH]; cbn; intros; [lia|rewrite IH; lia]. Qed.

Lemma gov_part_bounds : forall l, deps_nonneg l -> 0 <= gov_part l <= sum_deps l.
Proof.
  induction 1 as [|[d a] l Ha _ IH]; cbn in *; [lia|]. destruct (d =? gov_acct); lia.
Qed.

Lemma before_part_bounds : forall l, deps_nonneg l -> 0 <= before_part l /\ before_part l + gov_part l <= sum_deps l.
Proof.
  induction 1 as [|[d a] l Ha _ IH]; cbn in *; [lia|].
  destruct (d =? gov_acct); cbn; [lia|]. destruct (sorts_before_gov d); lia.
Qed.

Lemma pledge_nonneg : forall p, prop_ok p -> 0 <= pledge p.
Proof.
  intros p [_ Hn]. unfold pledge. destruct (is_open (p_status p)); [|lia]. apply (gov_part_bounds _ Hn).
Qed.

Lemma pledged_nonneg : forall ps, Forall prop_ok ps -> 0 <= pledged ps.
Proof. induction 1; cbn; [lia|]. pose proof (pledge_nonneg _ H). lia. Qed.

Lemma pledge_le : forall ps p, Forall prop_ok ps -> In p ps -> pledge p <= pledged ps.
Proof.
  induction ps as [|a r IH]; cbn; intros p H Hin; [contradiction|]. inversion H; subst.
  pose proof (pledged_nonneg _ H3). pose proof (pledge_nonneg _ H2).
  destruct Hin as [->|Hin]; [lia|]. specialize (IH p H3 Hin). lia.
Qed.

Lemma gov_part_add : forall d a l, gov_part (add_dep d a l) = gov_part l + (if d =? gov_acct then a else 0).
Proof.
  induction l as [|[d' a'] r IH]; cbn; [lia|].
  destruct (d' =? d) eqn:E; cbn.
  - apply Z.eqb_eq in E; subst. destruct (d =? gov_acct); lia.
  - rewrite IH. lia.
Qed.

Lemma sum_deps_nonneg : forall l, deps_nonneg l -> 0 <= sum_deps l.
Proof. induction 1 as [|[d a] l Ha _ IH]; cbn in *; lia. Qed.

Lemma contrib_nonneg : forall p, prop_ok p -> 0 <= contrib p.
Proof.
  intros p [_ Hn]. unfold contrib. destruct (is_open (p_status p)); [|lia].
  now apply sum_deps_nonneg.
Qed.

Lemma open_sum_ge : forall ps p, Forall prop_ok ps -> In p ps -> contrib p <= open_sum ps.
Proof.
  induction ps as [|a r IH]; cbn; intros p H Hin; [contradiction|].
  inversion H; subst. assert (0 <= open_sum r).
  { clear -H3. induction H3; cbn; [lia|]. pose proof (contrib_nonneg x H). lia. }
  pose proof (contrib_nonneg a H2). destruct Hin as [->|Hin]; [lia|]. specialize (IH p H3 Hin). lia.
Qed.

Lemma sum_deps_add : forall d a l, sum_deps (add_dep d a l) = sum_deps l + a.
Proof.
  induction l as [|[d' a'] r IH]; cbn; [lia|].
  destruct (d' =? d); cbn; [lia|rewrite IH; lia].
Qed.

Lemma deps_nonneg_add : forall d a l, 0 <= a -> deps_nonneg l -> deps_nonneg (add_dep d a l).
Proof.
  induction l as [|[d' a'] r IH]; cbn; intros Ha H.
  - constructor; [cbn; lia|constructor].
  - inversion H; subst. cbn in *. destruct (d' =? d).
    + constructor; [cbn; lia|assumption].
    + constructor; [cbn; lia|apply IH; assumption].
Qed.

Lemma wf_spent_nonneg : forall s, wf s -> 0 <= gov_spent s.
Proof. intros s [_ Wp _ Ws]. pose proof (pledged_nonneg _ Wp). lia. Qed.

(* ------------------------------------------------------------------ AddDeposit / Submit *)
Lemma deposited_id : forall P kf cust now dep amt p, p_id (deposited P kf cust now dep amt p) = p_id p.
Proof. reflexivity. Qed.

Lemma deposited_open : forall P kf cust now dep amt p,
  is_open (p_status p) = true -> is_open (p_status (deposited P kf cust now dep amt p)) = true.
Proof.
  intros. unfold deposited. cbn.
  destruct (match p_status p with SDeposit => _ | _ => false end); [reflexivity|assumption].
Qed.

Lemma deposited_contrib : forall P kf cust now dep amt p,
  is_open (p_status p) = true ->
  contrib (deposited P kf cust now dep amt p) = contrib p + amt.
Proof.
  intros. unfold contrib. rewrite deposited_open by assumption. rewrite H.
  cbn [deposited p_deps]. apply sum_deps_add.
Qed.

Lemma deposited_pledge : forall P kf cust now dep amt p,
  is_open (p_status p) = true ->
  pledge (deposited P kf cust now dep amt p) = pledge p + (if dep =? gov_acct then amt else 0).
Proof.
  intros. unfold pledge. rewrite deposited_open by assumption. rewrite H.
  cbn [deposited p_deps]. apply gov_part_add.
Qed.

Lemma add_deposit_ok_inv : forall P kf now s pid dep amt bd s',
  add_deposit P kf now s pid dep amt bd = (ROk, s') ->
  exists p, find_prop pid (props s) = Some p /\ is_open (p_status p) = true /\
            bal s dep >= amt /\
            s' = {| props := upd_prop pid (deposited P kf (custom s) now dep amt) (props s);
                    next_id := next_id s; gov_bal := gov_bal s + amt; bal := bal_add (bal s) dep (- amt);
                    burned := burned s; pool_in := pool_in s; ext := ext s; custom := custom s;
                    gov_spent := gov_spent s |}.
Proof.
  unfold add_deposit. intros until s'. destruct (find_prop pid (props s)) as [p|]; [|discriminate].
  destruct (is_bad (p_status p)); [discriminate|].
  destruct (is_removed (p_status p)); [discriminate|].
  destruct (is_open (p_status p)) eqn:Ho; cbn [negb]; [|discriminate].
  destruct bd; [discriminate|].
  destruct (negb (min_deposit_ratio P =? 0) && negb ((0 <? amt) && (deposit_threshold P p <=? amt))); [discriminate|].
  destruct (bal s dep <? amt) eqn:Hb; [discriminate|].
  intro H; inversion H; subst. exists p. repeat split; auto. apply Z.ltb_ge in Hb. lia.
Qed.

Lemma add_deposit_ok_notbad : forall P kf now s pid dep amt bd s' p,
  add_deposit P kf now s pid dep amt bd = (ROk, s') -> find_prop pid (props s) = Some p ->
  is_bad (p_status p) = false.
Proof.
  unfold add_deposit. intros until p. intros H Hf. rewrite Hf in H.
  destruct (is_bad (p_status p)); [discriminate|reflexivity].
Qed.

Lemma add_deposit_err : forall P kf now s pid dep amt bd r s',
  add_deposit P kf now s pid dep amt bd = (r, s') -> r <> ROk -> s' = s.
Proof.
  unfold add_deposit. intros until s'. destruct (find_prop pid (props s)) as [p|]; [|intros H; inversion H; auto].
  destruct (is_bad (p_status p)); [intros H; inversion H; auto|].
  destruct (is_removed (p_status p)); [intros H; inversion H; auto|].
  destruct (negb (is_open (p_status p))); [intros H; inversion H; auto|].
  destruct bd; [intros H; inversion H; auto|].
  destruct (negb (min_deposit_ratio P =? 0) && negb ((0 <? amt) && (deposit_threshold P p <=? amt))); [intros H; inversion H; auto|].
  destruct (bal s dep <? amt); intros H; inversion H; subst; auto. contradiction.
Qed.

Lemma add_deposit_wf : forall P kf now s pid dep amt bd s',
  wf s -> 0 <= amt -> dep <> gov_acct -> add_deposit P kf now s pid dep amt bd = (ROk, s') -> wf s'.
Proof.
  intros until s'. intros W Ha Hd H. apply add_deposit_ok_inv in H as (p & Hf & Ho & _ & ->).
  destruct W as [Wi Wp Wc Ws]. constructor; cbn.
  - apply Forall_upd; [assumption|]. intros q Hq. rewrite deposited_id.
    rewrite Forall_forall in Wi. apply Wi. eapply find_prop_In; eauto.
  - apply Forall_upd; [assumption|]. intros q Hq.
    rewrite Forall_forall in Wp. destruct (Wp q (find_prop_In _ _ _ Hq)) as [Ht Hn].
    split; cbn; [rewrite sum_deps_add; lia|now apply deps_nonneg_add].
  - rewrite (open_sum_upd _ _ _ _ Hf), deposited_contrib by assumption. lia.
  - rewrite (pledged_upd _ _ _ _ Hf), deposited_pledge by assumption.
    destruct (dep =? gov_acct) eqn:E; [apply Z.eqb_eq in E; contradiction|]. lia.
Qed.

Lemma submit_ok_inv : forall P kf now s proposer ms amt ex valid bd s',
  submit P kf now s proposer ms amt ex valid bd = (ROk, s') ->
  check_msgs ms = true /\ 0 <= amt /\ 0 <= proposer /\
  add_deposit P kf now
    {| props := props s ++ [new_proposal P (next_id s) now proposer ms ex];
       next_id := next_id s + 1; gov_bal := gov_bal s; bal := bal s; burned := burned s;
       pool_in := pool_in s; ext := ext s; custom := custom s; gov_spent := gov_spent s |}
    (next_id s) proposer amt false = (ROk, s').
Proof.
  unfold submit. intros until s'.
  destruct (check_msgs ms); cbn [negb]; [|discriminate].
  destruct ((amt <? 0) || (proposer <? 0)) eqn:Hn; [discriminate|].
  destruct (negb (initial_ok P ex amt)); [discriminate|].
  destruct bd; [discriminate|]. destruct valid; cbn [negb]; [|discriminate].
  match goal with |- context [add_deposit ?a ?b ?c ?d ?e ?f ?g ?h] => destruct (add_deposit a b c d e f g h) as [r s2] eqn:E end.
  apply orb_false_elim in Hn as [Hn Hp]. apply Z.ltb_ge in Hn. apply Z.ltb_ge in Hp.
  destruct r; intro H; inversion H; subst. auto.
Qed.

Lemma submit_err : forall P kf now s proposer ms amt ex valid bd r s',
  submit P kf now s proposer ms amt ex valid bd = (r, s') -> r <> ROk -> s' = s.
Proof.
  unfold submit. intros until s'.
  destruct (negb (check_msgs ms)); [intros H; inversion H; auto|].
  destruct ((amt <? 0) || (proposer <? 0)); [intros H; inversion H; auto|].
  destruct (negb (initial_ok P ex amt)); [intros H; inversion H; auto|].
  destruct bd; [intros H; inversion H; auto|].
  destruct (negb valid); [intros H; inversion H; auto|].
  match goal with |- context [add_deposit ?a ?b ?c ?d ?e ?f ?g ?h] => destruct (add_deposit a b c d e f g h) as [r0 s2] end.
  destruct r0; intros H; inversion H; subst; auto. contradiction.
Qed.

Lemma new_proposal_ok : forall P id now pr ms ex, prop_ok (new_proposal P id now pr ms ex).
Proof. intros. split; cbn; [reflexivity|constructor]. Qed.

Lemma submit_wf : forall P kf now s proposer ms amt ex valid bd s',
  wf s -> submit P kf now s proposer ms amt ex valid bd = (ROk, s') -> wf s'.
Proof.
  intros until s'. intros W H. apply submit_ok_inv in H as (_ & Ha & Hpr & H).
  refine (add_deposit_wf _ _ _ _ _ _ _ _ _ _ Ha _ H); [|unfold gov_acct; lia].
  destruct W as [Wi Wp Wc Ws]. constructor; cbn.
  - apply Forall_app. split.
    + eapply Forall_impl; [|exact Wi]. cbn. intros; lia.
    + constructor; [cbn; lia|constructor].
  - apply Forall_app. split; [assumption|]. constructor; [apply new_proposal_ok|constructor].
  - rewrite open_sum_app. unfold contrib. cbn. lia.
  - rewrite pledged_app. unfold pledge. cbn. lia.
Qed.

(* ------------------------------------------------------------------ Vote *)
Lemma vote_props : forall s pid voter opts w r s',
  vote s pid voter opts w = (r, s') ->
  s' = s \/ exists p, find_prop pid (props s) = Some p /\ (p_status p = SVoting \/ p_status p = SBadVoting) /\
                      s' = set_props s (upd_prop pid (fun q => with_votes q (set_vote voter opts (p_votes q))) (props s)).
Proof.
  unfold vote. intros until s'.
  match goal with |- context [match ?b with Some e => _ | None => _ end = _] => destruct b end;
    [intros H; inversion H; auto|].
  destruct (find_prop pid (props s)) as [p|] eqn:Hf; [|intros H; inversion H; auto].
  destruct (p_status p) eqn:Hs; intros H; inversion H; auto; right; exists p; auto.
Qed.

Lemma vote_wf : forall s pid voter opts w r s', wf s -> vote s pid voter opts w = (r, s') -> wf s'.
Proof.
  intros until s'. intros W H. apply vote_props in H as [->|(p & Hf & Hs & ->)]; [assumption|].
  destruct W as [Wi Wp Wc Ws]. constructor; cbn; auto.
  - apply Forall_upd; [assumption|]. intros q Hq. cbn. rewrite Forall_forall in Wi. apply Wi. eapply find_prop_In; eauto.
  - apply Forall_upd; [assumption|]. intros q Hq. rewrite Forall_forall in Wp. apply (Wp q (find_prop_In _ _ _ Hq)).
  - rewrite (open_sum_upd _ _ _ _ Hf). unfold contrib. cbn. lia.
  - rewrite (pledged_upd _ _ _ _ Hf). unfold pledge. cbn. lia.
Qed.

(* ------------------------------------------------------------------ paying out and closing *)
Lemma pay_out_some : forall s p burn s1 ev,
  pay_out s p burn = Some (s1, ev) ->
  props s1 = props s /\ next_id s1 = next_id s /\
  gov_bal s1 + gov_spent s1 = gov_bal s + gov_spent s - sum_deps (p_deps p) /\
  gov_spent s1 = gov_spent s - (if burn then 0 else gov_part (p_deps p)) /\
  custom s1 = custom s /\ ext s1 = ext s /\
  ev = map (fun da => EvPay (p_id p) (fst da) (if burn then 0 else snd da) (if burn then snd da else 0)) (p_deps p).
Proof.
  unfold pay_out. intros until ev. destruct burn.
  - destruct (gov_bal s <? sum_deps (p_deps p)); [discriminate|].
    intro H; inversion H; subst; cbn. repeat split; auto; lia.
  - destruct ((gov_bal s <? before_part (p_deps p) + gov_part (p_deps p)) || (gov_bal s <? sum_deps (p_deps p) - gov_part (p_deps p)));
      [discriminate|].
    intro H; inversion H; subst; cbn. repeat split; auto; lia.
Qed.

Lemma close_step_wf' : forall s s' id p g,
  wf s -> find_prop id (props s) = Some p -> is_open (p_status p) = true ->
  props s' = upd_prop id g (props s) -> next_id s' = next_id s ->
  gov_bal s' + gov_spent s' = gov_bal s + gov_spent s - sum_deps (p_deps p) ->
  gov_spent s - gov_part (p_deps p) <= gov_spent s' ->
  (forall q, p_id (g q) = p_id q /\ p_total (g q) = p_total q /\ p_deps (g q) = p_deps q) ->
  is_open (p_status (g p)) = false ->
  wf s'.
Proof.
  intros until g. intros [Wi Wp Wc Ws] Hf Ho Hp Hn Hb Hs Hg Hc. constructor; rewrite ?Hp, ?Hn.
  - apply Forall_upd; [assumption|]. intros q Hq. destruct (Hg q) as (-> & _).
    rewrite Forall_forall in Wi. apply Wi. eapply find_prop_In; eauto.
  - apply Forall_upd; [assumption|]. intros q Hq. destruct (Hg q) as (_ & Ht & Hd).
    rewrite Forall_forall in Wp. destruct (Wp q (find_prop_In _ _ _ Hq)). split; rewrite ?Ht, ?Hd; auto.
  - rewrite (open_sum_upd _ _ _ _ Hf). unfold contrib at 2. rewrite Hc.
    unfold contrib. rewrite Ho. lia.
  - rewrite (pledged_upd _ _ _ _ Hf). unfold pledge at 2. rewrite Hc.
    unfold pledge. rewrite Ho. lia.
Qed.

Lemma close_step_wf : forall s s1 id p g,
  wf s -> find_prop id (props s) = Some p -> is_open (p_status p) = true ->
  props s1 = props s -> next_id s1 = next_id s ->
  gov_bal s1 + gov_spent s1 = gov_bal s + gov_spent s - sum_deps (p_deps p) ->
  gov_spent s - gov_part (p_deps p) <= gov_spent s1 ->
  (forall q, p_id (g q) = p_id q /\ p_total (g q) = p_total q /\ p_deps (g q) = p_deps q) ->
  is_open (p_status (g p)) = false ->
  wf (set_props s1 (upd_prop id g (props s1))).
Proof.
  intros. eapply close_step_wf' with (s := s) (p := p); eauto; cbn; congruence.
Qed.

(* an update that keeps the proposal open with the same deposit records *)
Lemma keep_step_wf : forall s id p g,
  wf s -> find_prop id (props s) = Some p -> is_open (p_status p) = true ->
  (forall q, p_id (g q) = p_id q /\ p_total (g q) = p_total q /\ p_deps (g q) = p_deps q) ->
  is_open (p_status (g p)) = true ->
  wf (set_props s (upd_prop id g (props s))).
Proof.
  intros until g. intros [Wi Wp Wc Ws] Hf Ho Hg Hc. constructor; cbn; auto.
  - apply Forall_upd; [assumption|]. intros q Hq. destruct (Hg q) as (-> & _).
    rewrite Forall_forall in Wi. apply Wi. eapply find_prop_In; eauto.
  - apply Forall_upd; [assumption|]. intros q Hq. destruct (Hg q) as (_ & Ht & Hd).
    rewrite Forall_forall in Wp. destruct (Wp q (find_prop_In _ _ _ Hq)). split; rewrite ?Ht, ?Hd; auto.
  - rewrite (open_sum_upd _ _ _ _ Hf). unfold contrib. rewrite Ho, Hc.
    destruct (Hg p) as (_ & _ & ->). lia.
  - rewrite (pledged_upd _ _ _ _ Hf). unfold pledge. rewrite Ho, Hc.
    destruct (Hg p) as (_ & _ & ->). lia.
Qed.

(* ------------------------------------------------------------------ Cancel *)
Lemma charge_bounds : forall rate a, 0 <= a -> 0 <= rate <= prec -> 0 <= charge_of rate a <= a.
Proof.
  intros rate a Ha Hr. unfold charge_of, dec_mul, dec_of_int, dec_trunc_int.
  replace (a * prec * rate) with ((a * rate) * prec) by ring.
  assert (0 <= a * rate) by (apply Z.mul_nonneg_nonneg; lia).
  rewrite chop_round_exact by assumption. pose proof prec_pos.
  assert (0 <= a * rate) by (apply Z.mul_nonneg_nonneg; lia).
  rewrite Z.quot_div_nonneg by lia. split.
  - apply Z.div_pos; lia.
  - apply Z.div_le_upper_bound; [assumption|]. rewrite (Z.mul_comm prec a).
    apply Z.mul_le_mono_nonneg_l; lia.
Qed.

Lemma rest_sum : forall rate l, sum_deps (rest_of rate l) + sum_charges rate l = sum_deps l.
Proof.
  unfold rest_of. induction l as [|[d a] r IH]; cbn [map sum_deps sum_charges fst snd]; [reflexivity|].
  set (c := charge_of rate a). lia.
Qed.

Lemma rest_gov_part : forall rate l, deps_nonneg l -> 0 <= rate <= prec ->
  0 <= gov_part (rest_of rate l) <= gov_part l.
Proof.
  intros rate l H Hr. unfold rest_of.
  induction H as [|[d a] l Ha _ IH]; cbn [map gov_part fst snd] in *; [lia|].
  pose proof (charge_bounds rate a Ha Hr). set (c := charge_of rate a) in *. destruct (d =? gov_acct); lia.
Qed.

Lemma cancel_inv : forall P now s pid proposer r s' ev,
  cancel P now s pid proposer = (r, s', ev) ->
  (r <> ROk /\ s' = s /\ ev = []) \/
  exists p, r = ROk /\ find_prop pid (props s) = Some p /\ is_open (p_status p) = true /\
            0 <= cancel_ratio P <= prec /\
            props s' = upd_prop pid (fun q => close_as q SCancelled) (props s) /\
            next_id s' = next_id s /\
            gov_bal s' + gov_spent s' = gov_bal s + gov_spent s - sum_deps (p_deps p) /\
            gov_spent s' = gov_spent s - gov_part (rest_of (cancel_ratio P) (p_deps p)) /\
            custom s' = custom s /\ ext s' = ext s /\
            ev = map (fun da => EvPay pid (fst da) (snd da - charge_of (cancel_ratio P) (snd da))
                                      (charge_of (cancel_ratio P) (snd da))) (p_deps p).
Proof.
  unfold cancel. intros until ev.
  destruct (find_prop pid (props s)) as [p|] eqn:Hf; [|intros H; inversion H; left; repeat split; auto; discriminate].
  destruct (is_bad (p_status p)); [intros H; inversion H; left; repeat split; auto; discriminate|].
  destruct (is_removed (p_status p)); [intros H; inversion H; left; repeat split; auto; discriminate|].
  destruct (negb (p_proposer p =? proposer)); [intros H; inversion H; left; repeat split; auto; discriminate|].
  destruct (is_open (p_status p)) eqn:Ho; cbn [negb]; [|intros H; inversion H; left; repeat split; auto; discriminate].
  destruct (match p_status p with SVoting => p_vend p <? now | _ => false end);
    [intros H; inversion H; left; repeat split; auto; discriminate|].
  destruct ((cancel_ratio P <? 0) || (prec <? cancel_ratio P)) eqn:Hr;
    [intros H; inversion H; left; repeat split; auto; discriminate|].
  apply orb_false_elim in Hr as [R1 R2]. apply Z.ltb_ge in R1. apply Z.ltb_ge in R2.
  match goal with |- context [if ?c then (RErr EFunds, s, []) else _] => destruct c end;
    [intros H; inversion H; left; repeat split; auto; discriminate|].
  intros H; inversion H; subst. right. exists p. cbn.
  pose proof (rest_sum (cancel_ratio P) (p_deps p)).
  repeat split; auto; lia.
Qed.

Lemma cancel_wf : forall P now s pid proposer r s' ev,
  wf s -> cancel P now s pid proposer = (r, s', ev) -> wf s'.
Proof.
  intros until ev. intros W H.
  apply cancel_inv in H as [(_ & -> & _)|(p & _ & Hf & Ho & Hr & Hp & Hn & Hg & Hs & _)]; [assumption|].
  assert (Hn' : deps_nonneg (p_deps p)).
  { destruct W as [_ Wp _ _]. rewrite Forall_forall in Wp. apply (Wp p (find_prop_In _ _ _ Hf)). }
  pose proof (rest_gov_part _ _ Hn' Hr).
  eapply close_step_wf' with (s := s) (p := p) (g := fun q => close_as q SCancelled); eauto;
    try lia; try (intros q; repeat split; reflexivity).
Qed.

(* ------------------------------------------------------------------ proposal messages *)
Lemma gov_deposit_inv : forall e s pid amt s',
  gov_deposit e s pid amt = Some s' ->
  s' = s \/
  exists p, find_prop pid (props s) = Some p /\ is_open (p_status p) = true /\ is_bad (p_status p) = false /\
            0 < amt <= gov_bal s /\ pid <> x_self e /\
            s' = {| props := upd_prop pid (deposited (x_P e) (x_kf e) (custom s) (x_now e) gov_acct amt) (props s);
                    next_id := next_id s; gov_bal := gov_bal s; bal := bal s; burned := burned s;
                    pool_in := pool_in s; ext := ext s; custom := custom s; gov_spent := gov_spent s + amt |}.
Proof.
  unfold gov_deposit. intros e s pid amt s'.
  destruct (find_prop pid (props s)) as [p|] eqn:Hf; [|discriminate].
  destruct (pid =? x_self e) eqn:Es; cbn [orb negb].
  - destruct (negb (0 <? amt)); [discriminate|].
    destruct (negb (min_deposit_ratio (x_P e) =? 0) && negb (deposit_threshold (x_P e) p <=? amt)); [discriminate|].
    destruct (gov_bal s <? amt); [discriminate|]. intro H; inversion H; auto.
  - destruct (is_bad (p_status p)) eqn:Hb; cbn [negb andb]; [discriminate|].
    destruct (is_removed (p_status p)); cbn [negb andb]; [discriminate|].
    destruct (is_open (p_status p)) eqn:Ho; cbn [negb]; [|discriminate].
    destruct (0 <? amt) eqn:Ha; cbn [negb]; [|discriminate].
    destruct (negb (min_deposit_ratio (x_P e) =? 0) && negb (deposit_threshold (x_P e) p <=? amt)); [discriminate|].
    destruct (gov_bal s <? amt) eqn:Hg; [discriminate|]. intro H; inversion H; subst.
    right. exists p. apply Z.ltb_lt in Ha. apply Z.ltb_ge in Hg. apply Z.eqb_neq in Es. repeat split; auto; lia.
Qed.

Lemma gov_deposit_wf : forall e s pid amt s', wf s -> gov_deposit e s pid amt = Some s' -> wf s'.
Proof.
  intros e s pid amt s' W H. apply gov_deposit_inv in H as [->|(p & Hf & Ho & _ & Ha & _ & ->)]; [assumption|].
  destruct W as [Wi Wp Wc Ws]. constructor; cbn.
  - apply Forall_upd; [assumption|]. intros q Hq. rewrite deposited_id.
    rewrite Forall_forall in Wi. apply Wi. eapply find_prop_In; eauto.
  - apply Forall_upd; [assumption|]. intros q Hq.
    rewrite Forall_forall in Wp. destruct (Wp q (find_prop_In _ _ _ Hq)) as [Ht Hn].
    split; cbn; [rewrite sum_deps_add; lia|apply deps_nonneg_add; [lia|assumption]].
  - rewrite (open_sum_upd _ _ _ _ Hf), deposited_contrib by assumption. lia.
  - rewrite (pledged_upd _ _ _ _ Hf), deposited_pledge by assumption. rewrite Z.eqb_refl. lia.
Qed.

Lemma exec_one_wf : forall e s m s', wf s -> exec_one e s m = Some s' -> wf s'.
Proof.
  unfold exec_one. intros e s m s' W. destruct (m_act m) as [tag| |to amt|pid amt].
  - intro H; inversion H; subst. destruct W; constructor; cbn; auto.
  - discriminate.
  - destruct ((0 <? amt) && (amt <=? gov_bal s)) eqn:E; [|discriminate].
    apply andb_prop in E as [E1 _]. apply Z.ltb_lt in E1.
    intro H; inversion H; subst. destruct W; constructor; cbn; auto; lia.
  - apply gov_deposit_wf; assumption.
Qed.

Lemma exec_msgs_wf : forall e ms s s', wf s -> exec_msgs e s ms = Some s' -> wf s'.
Proof.
  induction ms as [|m r IH]; cbn; intros s s' W H.
  - inversion H; subst; assumption.
  - destruct (exec_one e s m) as [s1|] eqn:E; [|discriminate]. eapply IH; [|exact H]. eapply exec_one_wf; eauto.
Qed.

(* messages never touch ids, the next id or the custom parameters, and never the record of the
   proposal being executed *)
Lemma exec_one_frame : forall e s m s', exec_one e s m = Some s' ->
  next_id s' = next_id s /\ custom s' = custom s /\ map p_id (props s') = map p_id (props s) /\
  find_prop (x_self e) (props s') = find_prop (x_self e) (props s).
Proof.
  unfold exec_one. intros e s m s'. destruct (m_act m) as [tag| |to amt|pid amt].
  - intro H; inversion H; subst; cbn. auto.
  - discriminate.
  - destruct ((0 <? amt) && (amt <=? gov_bal s)); [|discriminate]. intro H; inversion H; subst; cbn. auto.
  - intro H. apply gov_deposit_inv in H as [->|(p & Hf & _ & _ & _ & Hne & ->)]; [auto|]. cbn.
    repeat split; auto.
    + clear. induction (props s) as [|a r IH]; cbn; [reflexivity|].
      destruct (p_id a =? pid); cbn; [reflexivity|now rewrite IH].
    + apply find_upd_other; [intros; reflexivity|congruence].
Qed.

Lemma exec_msgs_frame : forall e ms s s', exec_msgs e s ms = Some s' ->
  next_id s' = next_id s /\ custom s' = custom s /\ map p_id (props s') = map p_id (props s) /\
  find_prop (x_self e) (props s') = find_prop (x_self e) (props s).
Proof.
  induction ms as [|m r IH]; cbn; intros s s' H.
  - inversion H; subst. auto.
  - destruct (exec_one e s m) as [s1|] eqn:E; [|discriminate].
    apply exec_one_frame in E as (A & B & C & D). apply IH in H as (A' & B' & C' & D').
    repeat split; congruence.
Qed.

(* ------------------------------------------------------------------ end blocker *)
Lemma pay_close_wf : forall s p id burn s1 ev st,
  wf s -> find_prop id (props s) = Some p -> is_open (p_status p) = true ->
  pay_out s p burn = Some (s1, ev) -> is_open st = false ->
  wf (set_props s1 (upd_prop id (fun q => close_as q st) (props s1))).
Proof.
  intros until st. intros W Hf Ho Hp Hc.
  apply pay_out_some in Hp as (A & B & C & D & _).
  eapply close_step_wf with (s := s) (p := p); eauto;
    try (intros q; repeat split; reflexivity).
  rewrite D. destruct burn; [|lia].
  assert (Hn : deps_nonneg (p_deps p)).
  { destruct W as [_ Wp _ _]. rewrite Forall_forall in Wp. apply (Wp p (find_prop_In _ _ _ Hf)). }
  pose proof (gov_part_bounds _ Hn). lia.
Qed.

Lemma pay_tallied_wf : forall s p id burn s1 ev st v,
  wf s -> find_prop id (props s) = Some p -> is_open (p_status p) = true ->
  pay_out s p burn = Some (s1, ev) -> is_open st = false ->
  wf (set_props s1 (upd_prop id (fun q => tallied q st v) (props s1))).
Proof.
  intros until v. intros W Hf Ho Hp Hc.
  apply pay_out_some in Hp as (A & B & C & D & _).
  eapply close_step_wf with (s := s) (p := p); eauto;
    try (intros q; repeat split; reflexivity).
  rewrite D. destruct burn; [|lia].
  assert (Hn : deps_nonneg (p_deps p)).
  { destruct W as [_ Wp _ _]. rewrite Forall_forall in Wp. apply (Wp p (find_prop_In _ _ _ Hf)). }
  pose proof (gov_part_bounds _ Hn). lia.
Qed.

Lemma process_inactive_wf : forall P s id s' ev,
  wf s -> process_inactive P s id = Some (s', ev) -> wf s'.
Proof.
  unfold process_inactive. intros until ev. intros W.
  destruct (find_prop id (props s)) as [p|] eqn:Hf; [|intro H; inversion H; subst; assumption].
  destruct (p_status p) eqn:Hs; try solve [intro H; inversion H; subst; assumption]; try discriminate.
  - destruct (pay_out s p (burn_prevote P)) as [[s1 e1]|] eqn:Hp; [|discriminate].
    intro H; inversion H; subst. eapply pay_close_wf; eauto. rewrite Hs; reflexivity.
  - destruct (pay_out s p false) as [[s1 e1]|] eqn:Hp; [|discriminate].
    intro H; inversion H; subst. eapply pay_close_wf; eauto; [rewrite Hs; reflexivity|].
    destruct (bad_inactive_dequeued P); reflexivity.
Qed.

Lemma process_active_wf : forall P kf stk s id s' ev,
  wf s -> process_active P kf stk s id = Some (s', ev) -> wf s'.
Proof.
  unfold process_active. intros until ev. intros W.
  destruct (find_prop id (props s)) as [p|] eqn:Hf; [|intro H; inversion H; subst; assumption].
  destruct (p_status p) eqn:Hs; try solve [intro H; inversion H; subst; assumption].
  2:{ destruct (bad_active_dequeued_by_key P); [|discriminate].
      destruct (pay_out s p false) as [[s1 e1]|] eqn:Hp; [|discriminate].
      intro H; inversion H; subst. eapply pay_close_wf; eauto. rewrite Hs; reflexivity. }
  set (v := tally P kf (custom s) stk p).
  destruct (p_expedited p && negb (passes v)).
  { intro H; inversion H; subst. eapply keep_step_wf with (p := p); eauto;
      try (rewrite Hs; reflexivity); try (intros q; repeat split; reflexivity). }
  destruct (pay_out s p (burns v)) as [[s1 e1]|] eqn:Hp; [|discriminate].
  assert (Ho : is_open (p_status p) = true) by (rewrite Hs; reflexivity).
  destruct (passes v).
  - match goal with |- context [exec_msgs ?e ?sp ?ms] => destruct (exec_msgs e sp ms) as [s2|] eqn:He end.
    + intro H; inversion H; subst. eapply exec_msgs_wf; [|exact He]. eapply pay_tallied_wf; eauto.
    + intro H; inversion H; subst. eapply pay_tallied_wf; eauto.
  - intro H; inversion H; subst. eapply pay_tallied_wf; eauto.
Qed.

Lemma fold_ids_wf : forall f, (forall s id s' ev, wf s -> f s id = Some (s', ev) -> wf s') ->
  forall ids s s' ev, wf s -> fold_ids f ids s = Some (s', ev) -> wf s'.
Proof.
  intros f Hf. induction ids as [|id r IH]; cbn; intros s s' ev W H.
  - inversion H; subst; assumption.
  - destruct (f s id) as [[s1 e1]|] eqn:E; [|discriminate].
    destruct (fold_ids f r s1) as [[s2 e2]|] eqn:E2; [|discriminate].
    inversion H; subst. eapply IH; [|exact E2]. eapply Hf; eauto.
Qed.

Lemma end_block_wf : forall P kf t stk s s' ev,
  wf s -> end_block P kf t stk s = Some (s', ev) -> wf s'.
Proof.
  unfold end_block. intros until ev. intros W.
  destruct (fold_ids (process_inactive P) _ s) as [[s1 e1]|] eqn:E1; [|discriminate].
  destruct (fold_ids (process_active P kf stk) _ s1) as [[s2 e2]|] eqn:E2; [|discriminate].
  intro H; inversion H; subst.
  eapply fold_ids_wf; [|eapply fold_ids_wf; [|exact W|exact E1]|exact E2].
  - intros; eapply process_active_wf; eauto.
  - intros; eapply process_inactive_wf; eauto.
Qed.

(* ------------------------------------------------------------------ a record becomes undecodable *)
Lemma corrupt_inv : forall s pid r s',
  corrupt s pid = (r, s') ->
  s' = s \/ exists p st, find_prop pid (props s) = Some p /\
                         (p_status p = SDeposit /\ st = SBadDeposit \/ p_status p = SVoting /\ st = SBadVoting) /\
                         s' = set_props s (upd_prop pid (fun q => with_status q st) (props s)).
Proof.
  unfold corrupt. intros s pid r s'. destruct (find_prop pid (props s)) as [p|] eqn:Hf; [|intro H; inversion H; auto].
  destruct (p_status p) eqn:Hs; intro H; inversion H; auto; right; exists p; eexists; split; eauto.
Qed.

Lemma corrupt_wf : forall s pid r s', wf s -> corrupt s pid = (r, s') -> wf s'.
Proof.
  intros s pid r s' W H. apply corrupt_inv in H as [->|(p & st & Hf & Hst & ->)]; [assumption|].
  apply (keep_step_wf s pid p (fun q => with_status q st) W Hf).
  - destruct Hst as [[-> _]|[-> _]]; reflexivity.
  - intros q; repeat split; reflexivity.
  - destruct Hst as [[_ ->]|[_ ->]]; reflexivity.
Qed.

Lemma deposit_msg_valid : forall amt bd dep, deposit_msg_invalid amt bd dep = false -> 0 <= amt /\ dep <> gov_acct.
Proof.
  unfold deposit_msg_invalid, gov_acct. intros amt bd dep H.
  apply orb_false_elim in H as [H H3]. apply orb_false_elim in H as [H1 _].
  apply Z.ltb_ge in H1. apply Z.ltb_ge in H3. lia.
Qed.

(* ------------------------------------------------------------------ every step *)
Lemma init_wf : forall b c, wf (init b c).
Proof. intros. constructor; cbn; try constructor; lia. Qed.

Lemma step_wf : forall P kf s o r s' ev, wf s -> step P kf s o = (r, s', ev) -> wf s'.
Proof.
  intros P kf s o r s' ev W. destruct o; cbn.
  - destruct (submit P kf now s proposer ms amt expedited valid bad_denom) as [r0 s0] eqn:E.
    intro H; injection H as <- <- <-. destruct r0.
    + eapply submit_wf; eauto.
    + apply submit_err in E; [subst; assumption|discriminate].
    + apply submit_err in E; [subst; assumption|discriminate].
  - destruct (deposit_msg_invalid amt bad_denom depositor) eqn:Ha; [intro H; injection H as <- <- <-; assumption|].
    destruct (add_deposit P kf now s pid depositor amt bad_denom) as [r0 s0] eqn:E.
    intro H; injection H as <- <- <-. apply deposit_msg_valid in Ha as [Ha Hd]. destruct r0.
    + eapply add_deposit_wf; eauto.
    + apply add_deposit_err in E; [subst; assumption|discriminate].
    + apply add_deposit_err in E; [subst; assumption|discriminate].
  - destruct (vote s pid voter opts weighted) as [r0 s0] eqn:E.
    intro H; injection H as <- <- <-. eapply vote_wf; eauto.
  - intro H. eapply cancel_wf; eauto.
  - destruct (end_block P kf t stk s) as [[s1 e1]|] eqn:E; intro H; injection H as <- <- <-; [|assumption].
    eapply end_block_wf; eauto.
  - destruct (negb authorized); [intro H; injection H as <- <- <-; assumption|].
    destruct (negb (cparams_valid cp)); intro H; injection H as <- <- <-; [assumption|].
    destruct W; constructor; cbn; auto.
  - destruct (negb authorized); intro H; injection H as <- <- <-; [assumption|].
    destruct W; constructor; cbn; auto.
  - destruct ((bal s acct + delta <? 0) || (acct <? 0)); intro H; injection H as <- <- <-; [assumption|].
    destruct W; constructor; cbn; auto.
  - destruct (corrupt s pid) as [r0 s0] eqn:E. intro H; injection H as <- <- <-. eapply corrupt_wf; eauto.
Qed.

Lemma run_wf : forall P kf ops s s' ev, wf s -> run P kf s ops = (s', ev) -> wf s'.
Proof.
  induction ops as [|o r IH]; cbn; intros s s' ev W H.
  - inversion H; subst; assumption.
  - destruct (step P kf s o) as [[r0 s1] e1] eqn:E. destruct (run P kf s1 r) as [s2 e2] eqn:E2.
    inversion H; subst. eapply IH; [|exact E2]. eapply step_wf; eauto.
Qed.

(* ================================================================== conservation *)
(* In every reachable state the module account holds the open proposals' deposit records, less
   whatever executed proposal messages sent out of it. *)
Theorem conservation_general : forall P kf b c ops s ev,
  run P kf (init b c) ops = (s, ev) ->
  gov_bal s + gov_spent s = open_sum (props s) /\
  Forall (fun p => p_total p = sum_deps (p_deps p)) (props s).
Proof.
  intros. pose proof (run_wf _ _ _ _ _ _ (init_wf b c) H) as [Wi Wp Wc Ws]. split; [assumption|].
  eapply Forall_impl; [|exact Wp]. intros p [A _]; exact A.
Qed.

(* guard, literally: no submitted message moves coins out of the module account or pledges them —
   no AGovSend (bank send from it, crisis fee charged to it) and no AGovDeposit (it as depositor) *)
Definition op_no_govsend (o : op) : Prop :=
  match o with
  | OSubmit _ _ ms _ _ _ _ => Forall no_govsend_msg ms
  | _ => True
  end.

Definition no_gov_rec (l : list (Z * Z)) : Prop := Forall (fun da => fst da <> gov_acct) l.

Lemma no_gov_rec_part : forall l, no_gov_rec l -> gov_part l = 0.
Proof.
  induction 1 as [|[d a] l Hd _ IH]; cbn in *; [reflexivity|].
  destruct (d =? gov_acct) eqn:E; [apply Z.eqb_eq in E; contradiction|lia].
Qed.

Lemma no_gov_rec_add : forall d a l, d <> gov_acct -> no_gov_rec l -> no_gov_rec (add_dep d a l).
Proof.
  induction l as [|[d' a'] r IH]; cbn; intros Hd H.
  - constructor; [assumption|constructor].
  - inversion H; subst. cbn in *. destruct (d' =? d).
    + constructor; [cbn; assumption|assumption].
    + constructor; [cbn; assumption|apply IH; assumption].
Qed.

Lemma no_gov_rec_rest : forall rate l, no_gov_rec l -> no_gov_rec (rest_of rate l).
Proof. intros rate l H. unfold rest_of. induction H; cbn; constructor; auto. Qed.

Definition qprop (p : proposal) : Prop :=
  Forall no_govsend_msg (p_msgs p) /\ no_gov_rec (p_deps p).

Definition quiet (s : state) : Prop := gov_spent s = 0 /\ Forall qprop (props s).

Lemma exec_msgs_quiet : forall e ms s s', Forall no_govsend_msg ms -> exec_msgs e s ms = Some s' ->
  gov_spent s' = gov_spent s /\ gov_bal s' = gov_bal s /\ props s' = props s.
Proof.
  induction ms as [|m r IH]; cbn; intros s s' Hn H.
  - inversion H; auto.
  - inversion Hn; subst. destruct (exec_one e s m) as [s1|] eqn:E; [|discriminate].
    apply IH in H as (A & B & C); [|assumption]. unfold exec_one, no_govsend_msg in *.
    destruct (m_act m); try contradiction; try discriminate. inversion E; subst; cbn in *. auto.
Qed.

Lemma quiet_find : forall s id p, quiet s -> find_prop id (props s) = Some p -> qprop p.
Proof. intros s id p [_ Q] Hf. rewrite Forall_forall in Q. apply Q. eapply find_prop_In; eauto. Qed.

Lemma quiet_upd : forall s s1 id g,
  quiet s -> gov_spent s1 = gov_spent s -> props s1 = props s ->
  (forall q, qprop q -> qprop (g q)) ->
  quiet (set_props s1 (upd_prop id g (props s1))).
Proof.
  intros s s1 id g [Q1 Q2] Hs Hp Hg. split; cbn; [congruence|]. rewrite Hp.
  apply Forall_upd; [assumption|]. intros q Hq. apply Hg.
  rewrite Forall_forall in Q2. apply Q2. eapply find_prop_In; eauto.
Qed.

Lemma pay_out_quiet : forall s id p burn s1 ev,
  quiet s -> find_prop id (props s) = Some p -> pay_out s p burn = Some (s1, ev) ->
  gov_spent s1 = gov_spent s /\ props s1 = props s.
Proof.
  intros until ev. intros Q Hf Hp. destruct (quiet_find _ _ _ Q Hf) as [_ G].
  apply pay_out_some in Hp as (A & _ & _ & D & _). rewrite (no_gov_rec_part _ G) in D.
  split; [destruct burn; lia|assumption].
Qed.

Lemma deposited_qprop : forall P kf cust now d a q, d <> gov_acct -> qprop q -> qprop (deposited P kf cust now d a q).
Proof.
  intros until q. intros Hd [A B]. split; cbn; [assumption|]. now apply no_gov_rec_add.
Qed.

Lemma process_inactive_quiet : forall P s id s' ev,
  quiet s -> process_inactive P s id = Some (s', ev) -> quiet s'.
Proof.
  unfold process_inactive. intros until ev. intros Q.
  destruct (find_prop id (props s)) as [p|] eqn:Hf; [|intro H; inversion H; subst; assumption].
  destruct (p_status p); try solve [intro H; inversion H; subst; assumption]; try discriminate.
  - destruct (pay_out s p (burn_prevote P)) as [[s1 e1]|] eqn:Hp; [|discriminate].
    intro H; inversion H; subst. destruct (pay_out_quiet _ _ _ _ _ _ Q Hf Hp) as [D A].
    eapply quiet_upd; eauto; intros ? Hq'; exact Hq'.
  - destruct (pay_out s p false) as [[s1 e1]|] eqn:Hp; [|discriminate].
    intro H; inversion H; subst. destruct (pay_out_quiet _ _ _ _ _ _ Q Hf Hp) as [D A].
    eapply quiet_upd; eauto; intros ? Hq'; exact Hq'.
Qed.

Lemma process_active_quiet : forall P kf stk s id s' ev,
  quiet s -> process_active P kf stk s id = Some (s', ev) -> quiet s'.
Proof.
  unfold process_active. intros until ev. intros Q.
  destruct (find_prop id (props s)) as [p|] eqn:Hf; [|intro H; inversion H; subst; assumption].
  destruct (p_status p); try solve [intro H; inversion H; subst; assumption].
  2:{ destruct (bad_active_dequeued_by_key P); [|discriminate].
      destruct (pay_out s p false) as [[s1 e1]|] eqn:Hp; [|discriminate].
      intro H; inversion H; subst. destruct (pay_out_quiet _ _ _ _ _ _ Q Hf Hp) as [D A].
      eapply quiet_upd; eauto; intros ? Hq'; exact Hq'. }
  set (v := tally P kf (custom s) stk p).
  destruct (p_expedited p && negb (passes v)).
  { intro H; inversion H; subst. eapply (quiet_upd s s); eauto; intros ? Hq'; exact Hq'. }
  destruct (pay_out s p (burns v)) as [[s1 e1]|] eqn:Hp; [|discriminate].
  destruct (pay_out_quiet _ _ _ _ _ _ Q Hf Hp) as [D A].
  destruct (quiet_find _ _ _ Q Hf) as [Hm _].
  destruct (passes v).
  - match goal with |- context [exec_msgs ?e ?sp ?ms] => destruct (exec_msgs e sp ms) as [s2|] eqn:He end.
    + apply exec_msgs_quiet in He as (S2 & _ & P2); [|assumption].
      intro H; inversion H; subst.
      assert (QP : quiet (set_props s1 (upd_prop id (fun q => tallied q SPassed v) (props s1)))) by (eapply quiet_upd; eauto; intros ? Hq'; exact Hq').
      destruct QP as [Q1 Q2]. split; [congruence|]. rewrite P2. exact Q2.
    + intro H; inversion H; subst. eapply quiet_upd; eauto; intros ? Hq'; exact Hq'.
  - intro H; inversion H; subst. eapply quiet_upd; eauto; intros ? Hq'; exact Hq'.
Qed.

Lemma fold_ids_pres : forall (Q : state -> Prop) f,
  (forall s id s' ev, Q s -> f s id = Some (s', ev) -> Q s') ->
  forall ids s s' ev, Q s -> fold_ids f ids s = Some (s', ev) -> Q s'.
Proof.
  intros Q f Hf. induction ids as [|id r IH]; cbn; intros s s' ev W H.
  - inversion H; subst; assumption.
  - destruct (f s id) as [[s1 e1]|] eqn:E; [|discriminate].
    destruct (fold_ids f r s1) as [[s2 e2]|] eqn:E2; [|discriminate].
    inversion H; subst. eapply IH; [|exact E2]. eapply Hf; eauto.
Qed.

Lemma step_quiet : forall P kf s o r s' ev,
  quiet s -> op_no_govsend o -> step P kf s o = (r, s', ev) -> quiet s'.
Proof.
  intros P kf s o r s' ev Q Hg. destruct o; cbn.
  - destruct (submit P kf now s proposer ms amt expedited valid bad_denom) as [r0 s0] eqn:E.
    intro H; injection H as <- <- <-. destruct r0;
      try (apply submit_err in E; [subst; assumption|discriminate]).
    apply submit_ok_inv in E as (_ & _ & Hpr & E). apply add_deposit_ok_inv in E as (p & _ & _ & _ & ->).
    destruct Q as [Q1 Q2]. split; cbn; [assumption|].
    apply Forall_upd.
    + apply Forall_app; split; [assumption|]. constructor; [split; [exact Hg|constructor]|constructor].
    + intros q Hq. apply deposited_qprop; [unfold gov_acct; lia|].
      apply find_prop_In in Hq. apply in_app_or in Hq as [Hq|[<-|[]]].
      * rewrite Forall_forall in Q2. now apply Q2.
      * split; [exact Hg|constructor].
  - destruct (deposit_msg_invalid amt bad_denom depositor) eqn:Hv; [intro H; injection H as <- <- <-; assumption|].
    destruct (add_deposit P kf now s pid depositor amt bad_denom) as [r0 s0] eqn:E.
    intro H; injection H as <- <- <-. destruct r0;
      try (apply add_deposit_err in E; [subst; assumption|discriminate]).
    apply add_deposit_ok_inv in E as (p & _ & _ & _ & ->). apply deposit_msg_valid in Hv as [_ Hd].
    destruct Q as [Q1 Q2]. split; cbn; [assumption|].
    apply Forall_upd; [assumption|]. intros q Hq. apply deposited_qprop; [assumption|].
    rewrite Forall_forall in Q2. apply Q2. eapply find_prop_In; eauto.
  - destruct (vote s pid voter opts weighted) as [r0 s0] eqn:E.
    intro H; injection H as <- <- <-. apply vote_props in E as [->|(p & _ & _ & ->)]; [assumption|].
    eapply (quiet_upd s s); eauto; intros ? Hq'; exact Hq'.
  - intro H. apply cancel_inv in H as [(_ & -> & _)|(p & _ & Hf & _ & Hr & Hp & _ & _ & Hs & _)]; [assumption|].
    destruct (quiet_find _ _ _ Q Hf) as [_ G].
    assert (G' : gov_part (rest_of (cancel_ratio P) (p_deps p)) = 0)
      by (apply no_gov_rec_part, no_gov_rec_rest, G).
    destruct Q as [Q1 Q2]. split; [lia|]. rewrite Hp.
    apply Forall_upd; [assumption|]. intros q Hq.
    rewrite Forall_forall in Q2. exact (Q2 q (find_prop_In _ _ _ Hq)).
  - destruct (end_block P kf t stk s) as [[s1 e1]|] eqn:E; intro H; injection H as <- <- <-; [|assumption].
    unfold end_block in E.
    destruct (fold_ids (process_inactive P) _ s) as [[s2 e2]|] eqn:E1; [|discriminate].
    destruct (fold_ids (process_active P kf stk) _ s2) as [[s3 e3]|] eqn:E2; [|discriminate].
    injection E as <- <-.
    eapply (fold_ids_pres quiet); [|eapply (fold_ids_pres quiet); [|exact Q|exact E1]|exact E2].
    + intros; eapply process_active_quiet; eauto.
    + intros; eapply process_inactive_quiet; eauto.
  - destruct (negb authorized); [intro H; injection H as <- <- <-; assumption|].
    destruct (negb (cparams_valid cp)); intro H; injection H as <- <- <-; [assumption|]. exact Q.
  - destruct (negb authorized); intro H; injection H as <- <- <-; [assumption|]. exact Q.
  - destruct ((bal s acct + delta <? 0) || (acct <? 0)); intro H; injection H as <- <- <-; [assumption|]. exact Q.
  - destruct (corrupt s pid) as [r0 s0] eqn:E. intro H; injection H as <- <- <-.
    apply corrupt_inv in E as [->|(p & st & _ & _ & ->)]; [assumption|]. eapply (quiet_upd s s); eauto; intros ? Hq'; exact Hq'.
Qed.

Lemma run_quiet : forall P kf ops s s' ev,
  quiet s -> Forall op_no_govsend ops -> run P kf s ops = (s', ev) -> quiet s'.
Proof.
  induction ops as [|o r IH]; cbn; intros s s' ev Q Hg H.
  - inversion H; subst; assumption.
  - inversion Hg; subst.
    destruct (step P kf s o) as [[r0 s1] e1] eqn:E. destruct (run P kf s1 r) as [s2 e2] eqn:E2.
    inversion H; subst. eapply IH; [|eassumption|exact E2]. eapply step_quiet; eauto.
Qed.

Lemma init_quiet : forall b c, quiet (init b c).
Proof. intros. split; cbn; [reflexivity|constructor]. Qed.

(* the property's first sentence, for every history in which governance does not spend from its
   own module account *)
Theorem conservation : forall P kf b c ops s ev,
  Forall op_no_govsend ops ->
  run P kf (init b c) ops = (s, ev) ->
  gov_bal s = open_sum (props s).
Proof.
  intros. pose proof (conservation_general _ _ _ _ _ _ _ H0) as [A _].
  pose proof (run_quiet _ _ _ _ _ _ (init_quiet b c) H H0) as [Q _]. lia.
Qed.

(* ------------------------------------------------------------------ no undecodable records *)
(* guard: no stored proposal record is made undecodable *)
Definition op_no_corrupt (o : op) : Prop := match o with OCorrupt _ => False | _ => True end.

Definition ok_status (st : status) : Prop := is_bad st = false /\ st <> SStale.
Definition healthy (s : state) : Prop := Forall (fun p => ok_status (p_status p)) (props s).

Lemma healthy_upd : forall s s1 id g,
  healthy s -> props s1 = props s ->
  (forall q, ok_status (p_status q) -> ok_status (p_status (g q))) ->
  healthy (set_props s1 (upd_prop id g (props s1))).
Proof.
  intros s s1 id g H Hp Hg. unfold healthy in *. cbn. rewrite Hp.
  apply Forall_upd; [assumption|]. intros q Hq. apply Hg.
  rewrite Forall_forall in H. apply H. eapply find_prop_In; eauto.
Qed.

Lemma healthy_find : forall s id p, healthy s -> find_prop id (props s) = Some p -> ok_status (p_status p).
Proof. intros s id p H Hf. unfold healthy in H. rewrite Forall_forall in H. apply H. eapply find_prop_In; eauto. Qed.

Lemma process_inactive_healthy : forall P s id s' ev,
  healthy s -> process_inactive P s id = Some (s', ev) -> healthy s'.
Proof.
  unfold process_inactive. intros until ev. intros Q.
  destruct (find_prop id (props s)) as [p|] eqn:Hf; [|intro H; inversion H; subst; assumption].
  pose proof (healthy_find _ _ _ Q Hf) as [Hb Hst].
  destruct (p_status p); try solve [intro H; inversion H; subst; assumption]; try discriminate.
  destruct (pay_out s p (burn_prevote P)) as [[s1 e1]|] eqn:Hp; [|discriminate].
  intro H; inversion H; subst. apply pay_out_some in Hp as (A & _).
  eapply healthy_upd; eauto. intros q _. split; [reflexivity|discriminate].
Qed.

Lemma deposited_ok_status : forall P kf cust now d a q,
  ok_status (p_status q) -> ok_status (p_status (deposited P kf cust now d a q)).
Proof.
  intros until q. intros H. unfold deposited; cbn.
  destruct (match p_status q with SDeposit => _ | _ => false end); [split; [reflexivity|discriminate]|exact H].
Qed.

Lemma exec_msgs_healthy : forall e ms s s', healthy s -> exec_msgs e s ms = Some s' -> healthy s'.
Proof.
  induction ms as [|m r IH]; cbn; intros s s' Q H.
  - inversion H; subst; assumption.
  - destruct (exec_one e s m) as [s1|] eqn:E; [|discriminate]. eapply IH; [|exact H].
    unfold exec_one in E. destruct (m_act m) as [tag| |to amt|pid amt].
    + inversion E; subst. exact Q.
    + discriminate.
    + destruct ((0 <? amt) && (amt <=? gov_bal s)); [|discriminate]. inversion E; subst. exact Q.
    + apply gov_deposit_inv in E as [->|(p & _ & _ & _ & _ & _ & ->)]; [assumption|].
      unfold healthy in *. cbn. apply Forall_upd; [assumption|]. intros q Hq. apply deposited_ok_status.
      rewrite Forall_forall in Q. apply Q. eapply find_prop_In; eauto.
Qed.

Lemma process_active_healthy : forall P kf stk s id s' ev,
  healthy s -> process_active P kf stk s id = Some (s', ev) -> healthy s'.
Proof.
  unfold process_active. intros until ev. intros Q.
  destruct (find_prop id (props s)) as [p|] eqn:Hf; [|intro H; inversion H; subst; assumption].
  pose proof (healthy_find _ _ _ Q Hf) as [Hb Hst].
  destruct (p_status p); try solve [intro H; inversion H; subst; assumption]; try discriminate.
  set (v := tally P kf (custom s) stk p).
  destruct (p_expedited p && negb (passes v)).
  { intro H; inversion H; subst. eapply (healthy_upd s s); eauto. intros q _. split; [reflexivity|discriminate]. }
  destruct (pay_out s p (burns v)) as [[s1 e1]|] eqn:Hp; [|discriminate].
  apply pay_out_some in Hp as (A & _).
  destruct (passes v).
  - match goal with |- context [exec_msgs ?e ?sp ?ms] => destruct (exec_msgs e sp ms) as [s2|] eqn:He end.
    + intro H; inversion H; subst. eapply exec_msgs_healthy; [|exact He].
      eapply healthy_upd; eauto. intros q _. split; [reflexivity|discriminate].
    + intro H; inversion H; subst. eapply healthy_upd; eauto. intros q _. split; [reflexivity|discriminate].
  - intro H; inversion H; subst. eapply healthy_upd; eauto. intros q _. split; [reflexivity|discriminate].
Qed.

Lemma step_healthy : forall P kf s o r s' ev,
  healthy s -> op_no_corrupt o -> step P kf s o = (r, s', ev) -> healthy s'.
Proof.
  intros P kf s o r s' ev Q Hg. destruct o; cbn.
  - destruct (submit P kf now s proposer ms amt expedited valid bad_denom) as [r0 s0] eqn:E.
    intro H; injection H as <- <- <-. destruct r0;
      try (apply submit_err in E; [subst; assumption|discriminate]).
    apply submit_ok_inv in E as (_ & _ & _ & E). apply add_deposit_ok_inv in E as (p & _ & _ & _ & ->).
    unfold healthy in *. cbn. apply Forall_upd.
    + apply Forall_app; split; [assumption|]. constructor; [split; [reflexivity|discriminate]|constructor].
    + intros q Hq. apply deposited_ok_status. apply find_prop_In in Hq. apply in_app_or in Hq as [Hq|[<-|[]]].
      * rewrite Forall_forall in Q. now apply Q.
      * split; [reflexivity|discriminate].
  - destruct (deposit_msg_invalid amt bad_denom depositor); [intro H; injection H as <- <- <-; assumption|].
    destruct (add_deposit P kf now s pid depositor amt bad_denom) as [r0 s0] eqn:E.
    intro H; injection H as <- <- <-. destruct r0;
      try (apply add_deposit_err in E; [subst; assumption|discriminate]).
    apply add_deposit_ok_inv in E as (p & _ & _ & _ & ->).
    unfold healthy in *. cbn. apply Forall_upd; [assumption|]. intros q Hq. apply deposited_ok_status.
    rewrite Forall_forall in Q. apply Q. eapply find_prop_In; eauto.
  - destruct (vote s pid voter opts weighted) as [r0 s0] eqn:E.
    intro H; injection H as <- <- <-. apply vote_props in E as [->|(p & _ & _ & ->)]; [assumption|].
    eapply (healthy_upd s s); eauto.
  - intro H. apply cancel_inv in H as [(_ & -> & _)|(p & _ & _ & _ & _ & Hp & _)]; [assumption|].
    unfold healthy in *. rewrite Hp. apply Forall_upd; [assumption|]. intros q Hq. cbn. split; [reflexivity|discriminate].
  - destruct (end_block P kf t stk s) as [[s1 e1]|] eqn:E; intro H; injection H as <- <- <-; [|assumption].
    unfold end_block in E.
    destruct (fold_ids (process_inactive P) _ s) as [[s2 e2]|] eqn:E1; [|discriminate].
    destruct (fold_ids (process_active P kf stk) _ s2) as [[s3 e3]|] eqn:E2; [|discriminate].
    injection E as <- <-.
    eapply (fold_ids_pres healthy); [|eapply (fold_ids_pres healthy); [|exact Q|exact E1]|exact E2].
    + intros; eapply process_active_healthy; eauto.
    + intros; eapply process_inactive_healthy; eauto.
  - destruct (negb authorized); [intro H; injection H as <- <- <-; assumption|].
    destruct (negb (cparams_valid cp)); intro H; injection H as <- <- <-; [assumption|]. exact Q.
  - destruct (negb authorized); intro H; injection H as <- <- <-; [assumption|]. exact Q.
  - destruct ((bal s acct + delta <? 0) || (acct <? 0)); intro H; injection H as <- <- <-; [assumption|]. exact Q.
  - contradiction.
Qed.

Lemma run_healthy : forall P kf ops s s' ev,
  healthy s -> Forall op_no_corrupt ops -> run P kf s ops = (s', ev) -> healthy s'.
Proof.
  induction ops as [|o r IH]; cbn; intros s s' ev Q Hg H.
  - inversion H; subst; assumption.
  - inversion Hg; subst.
    destruct (step P kf s o) as [[r0 s1] e1] eqn:E. destruct (run P kf s1 r) as [s2 e2] eqn:E2.
    inversion H; subst. eapply IH; [|eassumption|exact E2]. eapply step_healthy; eauto.
Qed.

Lemma init_healthy : forall b c, healthy (init b c).
Proof. intros. constructor. Qed.

(* ------------------------------------------------------------------ the end blocker never fails *)
Lemma pay_out_total : forall s p burn,
  wf s -> gov_spent s = 0 -> In p (props s) -> is_open (p_status p) = true ->
  pay_out s p burn <> None.
Proof.
  intros s p burn [Wi Wp Wc Ws] Hs Hin Ho. unfold pay_out.
  pose proof (open_sum_ge _ _ Wp Hin) as Hle. unfold contrib in Hle. rewrite Ho in Hle.
  assert (Hn : deps_nonneg (p_deps p)) by (rewrite Forall_forall in Wp; apply (Wp p Hin)).
  pose proof (gov_part_bounds _ Hn). pose proof (before_part_bounds _ Hn).
  destruct burn.
  - destruct (gov_bal s <? sum_deps (p_deps p)) eqn:E; [apply Z.ltb_lt in E; lia|discriminate].
  - destruct (gov_bal s <? before_part (p_deps p) + gov_part (p_deps p)) eqn:E1; [apply Z.ltb_lt in E1; lia|].
    destruct (gov_bal s <? sum_deps (p_deps p) - gov_part (p_deps p)) eqn:E2; [apply Z.ltb_lt in E2; lia|].
    discriminate.
Qed.

Definition calm (s : state) : Prop := quiet s /\ healthy s.

Lemma process_inactive_total : forall P s id, wf s -> calm s -> process_inactive P s id <> None.
Proof.
  intros P s id W [[Q _] Hh]. unfold process_inactive.
  destruct (find_prop id (props s)) as [p|] eqn:Hf; [|discriminate].
  pose proof (healthy_find _ _ _ Hh Hf) as [Hb Hst].
  destruct (p_status p) eqn:Hs; try discriminate; try (exfalso; apply Hst; reflexivity).
  destruct (pay_out s p (burn_prevote P)) as [[s1 e1]|] eqn:Hp; [discriminate|].
  exfalso. eapply pay_out_total; eauto; [eapply find_prop_In; eauto|rewrite Hs; reflexivity].
Qed.

Lemma process_active_total : forall P kf stk s id, wf s -> calm s -> process_active P kf stk s id <> None.
Proof.
  intros P kf stk s id W [[Q _] Hh]. unfold process_active.
  destruct (find_prop id (props s)) as [p|] eqn:Hf; [|discriminate].
  pose proof (healthy_find _ _ _ Hh Hf) as [Hb Hst].
  destruct (p_status p) eqn:Hs; try discriminate.
  destruct (p_expedited p && negb (passes (tally P kf (custom s) stk p))); [discriminate|].
  destruct (pay_out s p _) as [[s1 e1]|] eqn:Hp.
  - destruct (passes _); [|discriminate].
    match goal with |- context [exec_msgs ?e ?sp ?ms] => destruct (exec_msgs e sp ms) end; discriminate.
  - exfalso. eapply pay_out_total; eauto; [eapply find_prop_In; eauto|rewrite Hs; reflexivity].
Qed.

Lemma fold_ids_total : forall f,
  (forall s id, wf s -> calm s -> f s id <> None) ->
  (forall s id s' ev, wf s -> f s id = Some (s', ev) -> wf s') ->
  (forall s id s' ev, calm s -> f s id = Some (s', ev) -> calm s') ->
  forall ids s, wf s -> calm s -> fold_ids f ids s <> None.
Proof.
  intros f Ht Hw Hq. induction ids as [|id r IH]; cbn; intros s W Q; [discriminate|].
  destruct (f s id) as [[s1 e1]|] eqn:E; [|exfalso; eapply Ht; eauto].
  specialize (IH s1 (Hw _ _ _ _ W E) (Hq _ _ _ _ Q E)).
  destruct (fold_ids f r s1) as [[s2 e2]|]; [discriminate|contradiction].
Qed.

Lemma process_inactive_calm : forall P s id s' ev, calm s -> process_inactive P s id = Some (s', ev) -> calm s'.
Proof. intros P s id s' ev [Q H] E. split; [eapply process_inactive_quiet|eapply process_inactive_healthy]; eauto. Qed.
Lemma process_active_calm : forall P kf stk s id s' ev, calm s -> process_active P kf stk s id = Some (s', ev) -> calm s'.
Proof. intros P kf stk s id s' ev [Q H] E. split; [eapply process_active_quiet|eapply process_active_healthy]; eauto. Qed.

Lemma end_block_total : forall P kf t stk s, wf s -> calm s -> end_block P kf t stk s <> None.
Proof.
  intros P kf t stk s W Q. unfold end_block.
  destruct (fold_ids (process_inactive P) _ s) as [[s1 e1]|] eqn:E1.
  - assert (W1 : wf s1) by (eapply fold_ids_wf; [|exact W|exact E1]; intros; eapply process_inactive_wf; eauto).
    assert (Q1 : calm s1) by (eapply (fold_ids_pres calm); [|exact Q|exact E1]; intros; eapply process_inactive_calm; eauto).
    destruct (fold_ids (process_active P kf stk) _ s1) as [[s2 e2]|] eqn:E2; [discriminate|].
    exfalso. revert E2. apply fold_ids_total; auto.
    + intros; now apply process_active_total.
    + intros; eapply process_active_wf; eauto.
    + intros; eapply process_active_calm; eauto.
  - exfalso. revert E1. apply fold_ids_total; auto.
    + intros; now apply process_inactive_total.
    + intros; eapply process_inactive_wf; eauto.
    + intros; eapply process_inactive_calm; eauto.
Qed.

(* for every history in which governance does not spend from its own account and no stored record is
   made undecodable *)
Theorem end_block_never_fails : forall P kf b c ops s ev t stk,
  Forall op_no_govsend ops -> Forall op_no_corrupt ops ->
  run P kf (init b c) ops = (s, ev) ->
  end_block P kf t stk s <> None.
Proof.
  intros until stk. intros Hg Hc Hr. apply end_block_total.
  - eapply run_wf; [apply init_wf|exact Hr].
  - split; [eapply run_quiet; [apply init_quiet|exact Hg|exact Hr]|eapply run_healthy; [apply init_healthy|exact Hc|exact Hr]].
Qed.
