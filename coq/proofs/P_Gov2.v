(* P_Gov2.v — proofs about model.M_Gov (property C15), part 2:
   payout exactly once, how a proposal record can evolve, activation rule, per-type rules,
   single message type, all-or-nothing execution. *)
From Coq Require Import ZArith List Bool Lia.
From FxV Require Import lib.Dec model.M_Gov proofs.P_Gov.
Import ListNotations.
Open Scope Z_scope.

(* ================================================================== payout exactly once *)
(* what the events of a history paid on the records of proposal pid: (depositor, refund + burn) *)
Definition pays (pid : Z) (evs : list event) : list (Z * Z) :=
  flat_map (fun e => match e with EvPay i d r b => if i =? pid then [(d, r + b)] else [] end) evs.

Definition ev_inv (ps : list proposal) (evs : list event) : Prop :=
  forall pid, pays pid evs = match find_prop pid ps with
                             | None => []
                             | Some p => if is_open (p_status p) then [] else p_deps p
                             end.

Lemma pays_app : forall pid a b, pays pid (a ++ b) = pays pid a ++ pays pid b.
Proof. intros. unfold pays. apply flat_map_app. Qed.

Lemma pays_map : forall pid id (f g : Z * Z -> Z) l,
  (forall da, f da + g da = snd da) ->
  pays pid (map (fun da => EvPay id (fst da) (f da) (g da)) l) = if id =? pid then l else [].
Proof.
  intros pid id f g l H. induction l as [|[d a] r IH]; cbn.
  - destruct (id =? pid); reflexivity.
  - fold (pays pid (map (fun da => EvPay id (fst da) (f da) (g da)) r)). rewrite IH.
    destruct (id =? pid); cbn; [|reflexivity]. rewrite (H (d, a)). reflexivity.
Qed.

Lemma ev_keep : forall ps ps' id g p evs,
  ev_inv ps evs -> find_prop id ps = Some p -> is_open (p_status p) = true ->
  is_open (p_status (g p)) = true -> (forall q, p_id (g q) = p_id q) ->
  ps' = upd_prop id g ps -> ev_inv ps' evs.
Proof.
  intros until evs. intros I Hf Ho Ho' Hg -> pid. rewrite (I pid).
  destruct (Z.eq_dec pid id) as [->|Hne].
  - rewrite (find_upd_same _ _ _ _ Hg Hf), Hf, Ho, Ho'. reflexivity.
  - rewrite (find_upd_other _ _ _ _ Hg Hne). reflexivity.
Qed.

Lemma ev_close : forall ps ps' id g p evs e,
  ev_inv ps evs -> find_prop id ps = Some p -> is_open (p_status p) = true ->
  is_open (p_status (g p)) = false -> p_deps (g p) = p_deps p -> (forall q, p_id (g q) = p_id q) ->
  ps' = upd_prop id g ps ->
  (forall pid, pays pid e = if id =? pid then p_deps p else []) ->
  ev_inv ps' (evs ++ e).
Proof.
  intros until e. intros I Hf Ho Hc Hd Hg -> He pid. rewrite pays_app, (I pid), (He pid).
  destruct (Z.eq_dec pid id) as [->|Hne].
  - rewrite (find_upd_same _ _ _ _ Hg Hf), Hf, Ho, Hc, Hd, Z.eqb_refl. reflexivity.
  - rewrite (find_upd_other _ _ _ _ Hg Hne).
    destruct (id =? pid) eqn:E; [apply Z.eqb_eq in E; congruence|]. apply app_nil_r.
Qed.

Lemma ev_fresh : forall ps q evs,
  ev_inv ps evs -> Forall (fun p => p_id p < p_id q) ps -> is_open (p_status q) = true ->
  ev_inv (ps ++ [q]) evs.
Proof.
  intros ps q evs I Hfr Ho pid. rewrite (I pid), find_prop_app.
  destruct (find_prop pid ps) as [p|] eqn:Hf; [reflexivity|].
  destruct (p_id q =? pid); [rewrite Ho|]; reflexivity.
Qed.

Lemma pay_close_ev : forall ps s p id burn s1 e evs st,
  ev_inv ps evs -> ps = props s -> find_prop id ps = Some p -> is_open (p_status p) = true ->
  pay_out s p burn = Some (s1, e) -> is_open st = false ->
  ev_inv (upd_prop id (fun q => close_as q st) ps) (evs ++ e).
Proof.
  intros until st. intros I -> Hf Ho Hp Hc.
  apply pay_out_some in Hp as (A & _ & _ & _ & _ & _ & ->).
  eapply ev_close with (p := p) (g := fun q => close_as q st); eauto.
  intro pid. rewrite (find_prop_id _ _ _ Hf). apply pays_map. intros da. destruct burn; lia.
Qed.

Lemma process_inactive_ev : forall P s id s' e evs,
  ev_inv (props s) evs -> process_inactive P s id = Some (s', e) -> ev_inv (props s') (evs ++ e).
Proof.
  unfold process_inactive. intros until evs. intros I.
  destruct (find_prop id (props s)) as [p|] eqn:Hf; [|intro H; inversion H; subst; now rewrite app_nil_r].
  destruct (p_status p) eqn:Hs; try solve [intro H; inversion H; subst; now rewrite app_nil_r]; try discriminate.
  - destruct (pay_out s p (burn_prevote P)) as [[s1 e1]|] eqn:Hp; [|discriminate].
    intro H; inversion H; subst. pose proof (pay_out_some _ _ _ _ _ Hp) as (A & _).
    cbn [props set_props]. rewrite A. eapply pay_close_ev; eauto. rewrite Hs; reflexivity.
  - destruct (pay_out s p false) as [[s1 e1]|] eqn:Hp; [|discriminate].
    intro H; inversion H; subst. pose proof (pay_out_some _ _ _ _ _ Hp) as (A & _).
    cbn [props set_props]. rewrite A. eapply pay_close_ev; eauto; [rewrite Hs; reflexivity|].
    destruct (bad_inactive_dequeued P); reflexivity.
Qed.

Lemma exec_msgs_ev : forall e ms s s' evs,
  ev_inv (props s) evs -> exec_msgs e s ms = Some s' -> ev_inv (props s') evs.
Proof.
  induction ms as [|m r IH]; cbn; intros s s' evs I H.
  - inversion H; subst; assumption.
  - destruct (exec_one e s m) as [s1|] eqn:E; [|discriminate]. eapply IH; [|exact H].
    unfold exec_one in E. destruct (m_act m) as [tag| |to amt|pid amt].
    + inversion E; subst. exact I.
    + discriminate.
    + destruct ((0 <? amt) && (amt <=? gov_bal s)); [|discriminate]. inversion E; subst. exact I.
    + apply gov_deposit_inv in E as [->|(p & Hf & Ho & _ & _ & _ & ->)]; [assumption|]. cbn [props].
      eapply (ev_keep _ _ _ _ p evs); [exact I|exact Hf|exact Ho|now apply deposited_open|intros; reflexivity|reflexivity].
Qed.

Lemma process_active_ev : forall P kf stk s id s' e evs,
  ev_inv (props s) evs -> process_active P kf stk s id = Some (s', e) -> ev_inv (props s') (evs ++ e).
Proof.
  unfold process_active. intros until evs. intros I.
  destruct (find_prop id (props s)) as [p|] eqn:Hf; [|intro H; inversion H; subst; now rewrite app_nil_r].
  destruct (p_status p) eqn:Hs; try solve [intro H; inversion H; subst; now rewrite app_nil_r].
  2:{ destruct (bad_active_dequeued_by_key P); [|discriminate].
      destruct (pay_out s p false) as [[s1 e1]|] eqn:Hp; [|discriminate].
      intro H; inversion H; subst. pose proof (pay_out_some _ _ _ _ _ Hp) as (A & _).
      cbn [props set_props]. rewrite A. eapply pay_close_ev; eauto. rewrite Hs; reflexivity. }
  set (v := tally P kf (custom s) stk p).
  assert (Ho : is_open (p_status p) = true) by (rewrite Hs; reflexivity).
  destruct (p_expedited p && negb (passes v)).
  { intro H; inversion H; subst. rewrite app_nil_r. cbn [props set_props].
    eapply ev_keep with (p := p) (g := fun q => converted P q v); eauto. }
  destruct (pay_out s p (burns v)) as [[s1 e1]|] eqn:Hp; [|discriminate].
  apply pay_out_some in Hp as (A & _ & _ & _ & _ & _ & ->).
  assert (Hpays : forall pid,
            pays pid (map (fun da => EvPay (p_id p) (fst da) (if burns v then 0 else snd da)
                                           (if burns v then snd da else 0)) (p_deps p))
            = if id =? pid then p_deps p else []).
  { intro pid. rewrite (find_prop_id _ _ _ Hf). apply pays_map. intros da. destruct (burns v); lia. }
  destruct (passes v).
  - match goal with |- context [exec_msgs ?e ?sp ?ms] => destruct (exec_msgs e sp ms) as [s2|] eqn:He end.
    + intro H; inversion H; subst. eapply exec_msgs_ev; [|exact He]. cbn [props set_props]. rewrite A.
      eapply ev_close with (p := p) (g := fun q => tallied q SPassed v); eauto.
    + intro H; inversion H; subst. cbn [props set_props]. rewrite A.
      eapply ev_close with (p := p) (g := fun q => tallied q SFailed v); eauto.
  - intro H; inversion H; subst. cbn [props set_props]. rewrite A.
    eapply ev_close with (p := p) (g := fun q => tallied q SRejected v); eauto.
Qed.

Lemma fold_ids_ev : forall f,
  (forall s id s' e evs, ev_inv (props s) evs -> f s id = Some (s', e) -> ev_inv (props s') (evs ++ e)) ->
  forall ids s s' e evs, ev_inv (props s) evs -> fold_ids f ids s = Some (s', e) -> ev_inv (props s') (evs ++ e).
Proof.
  intros f Hf. induction ids as [|id r IH]; cbn; intros s s' e evs I H.
  - inversion H; subst. now rewrite app_nil_r.
  - destruct (f s id) as [[s1 e1]|] eqn:E; [|discriminate].
    destruct (fold_ids f r s1) as [[s2 e2]|] eqn:E2; [|discriminate].
    inversion H; subst. rewrite app_assoc. eapply IH; [|exact E2]. eapply Hf; eauto.
Qed.

Lemma step_ev : forall P kf s o r s' e evs,
  wf s -> ev_inv (props s) evs -> step P kf s o = (r, s', e) -> ev_inv (props s') (evs ++ e).
Proof.
  intros P kf s o r s' e evs W I. destruct o; cbn.
  - destruct (submit P kf now s proposer ms amt expedited valid bad_denom) as [r0 s0] eqn:E.
    intro H; injection H as <- <- <-. rewrite app_nil_r. destruct r0;
      try (apply submit_err in E; [subst; assumption|discriminate]).
    apply submit_ok_inv in E as (_ & _ & _ & E). apply add_deposit_ok_inv in E as (p & Hf & Ho & _ & ->).
    cbn [props] in *.
    eapply (ev_keep _ _ _ _ p evs); [|exact Hf|exact Ho|now apply deposited_open|intros; reflexivity|reflexivity].
    apply ev_fresh; [assumption|apply (wf_ids _ W)|reflexivity].
  - destruct (deposit_msg_invalid amt bad_denom depositor); [intro H; injection H as <- <- <-; now rewrite app_nil_r|].
    destruct (add_deposit P kf now s pid depositor amt bad_denom) as [r0 s0] eqn:E.
    intro H; injection H as <- <- <-. rewrite app_nil_r. destruct r0;
      try (apply add_deposit_err in E; [subst; assumption|discriminate]).
    apply add_deposit_ok_inv in E as (p & Hf & Ho & _ & ->). cbn [props].
    eapply (ev_keep _ _ _ _ p evs); [exact I|exact Hf|exact Ho|now apply deposited_open|intros; reflexivity|reflexivity].
  - destruct (vote s pid voter opts weighted) as [r0 s0] eqn:E.
    intro H; injection H as <- <- <-. rewrite app_nil_r.
    apply vote_props in E as [->|(p & Hf & Hs & ->)]; [assumption|]. cbn [props set_props].
    eapply ev_keep with (p := p) (g := fun q => with_votes q (set_vote voter opts (p_votes q))); eauto;
      cbn; destruct Hs as [-> | ->]; reflexivity.
  - intro H. apply cancel_inv in H as [(_ & -> & ->)|(p & _ & Hf & Ho & _ & Hp & _ & _ & _ & _ & _ & ->)];
      [now rewrite app_nil_r|].
    eapply ev_close with (p := p) (g := fun q => close_as q SCancelled); eauto.
    intro pid'. apply (pays_map pid' pid). intros da. lia.
  - destruct (end_block P kf t stk s) as [[s1 e1]|] eqn:E; intro H; injection H as <- <- <-;
      [|now rewrite app_nil_r].
    unfold end_block in E.
    destruct (fold_ids (process_inactive P) _ s) as [[s2 e2]|] eqn:E1; [|discriminate].
    destruct (fold_ids (process_active P kf stk) _ s2) as [[s3 e3]|] eqn:E2; [|discriminate].
    injection E as <- <-. rewrite app_assoc.
    eapply fold_ids_ev; [|eapply fold_ids_ev; [|exact I|exact E1]|exact E2].
    + intros; eapply process_active_ev; eauto.
    + intros; eapply process_inactive_ev; eauto.
  - destruct (negb authorized); [intro H; injection H as <- <- <-; now rewrite app_nil_r|].
    destruct (negb (cparams_valid cp)); intro H; injection H as <- <- <-; now rewrite app_nil_r.
  - destruct (negb authorized); intro H; injection H as <- <- <-; now rewrite app_nil_r.
  - destruct ((bal s acct + delta <? 0) || (acct <? 0)); intro H; injection H as <- <- <-; now rewrite app_nil_r.
  - destruct (corrupt s pid) as [r0 s0] eqn:E. intro H; injection H as <- <- <-. rewrite app_nil_r.
    apply corrupt_inv in E as [->|(p & st & Hf & Hst & ->)]; [assumption|]. cbn [props set_props].
    eapply ev_keep with (p := p) (g := fun q => with_status q st); eauto.
    + destruct Hst as [[-> _]|[-> _]]; reflexivity.
    + cbn. destruct Hst as [[_ ->]|[_ ->]]; reflexivity.
Qed.

Lemma run_ev : forall P kf ops s s' e evs,
  wf s -> ev_inv (props s) evs -> run P kf s ops = (s', e) -> ev_inv (props s') (evs ++ e).
Proof.
  induction ops as [|o r IH]; cbn; intros s s' e evs W I H.
  - inversion H; subst. now rewrite app_nil_r.
  - destruct (step P kf s o) as [[r0 s1] e1] eqn:E. destruct (run P kf s1 r) as [s2 e2] eqn:E2.
    inversion H; subst. rewrite app_assoc. eapply IH; [| |exact E2].
    + eapply step_wf; eauto.
    + eapply step_ev; eauto.
Qed.

(* Over every history: nothing has been paid on an open proposal's records, and on a closed
   proposal exactly its deposit records have been paid, each once and in full. *)
Theorem payout_exactly_once : forall P kf b c ops s evs,
  run P kf (init b c) ops = (s, evs) ->
  forall pid,
    pays pid evs = match find_prop pid (props s) with
                   | None => []
                   | Some p => if is_open (p_status p) then [] else p_deps p
                   end.
Proof.
  intros. pose proof (run_ev P kf ops (init b c) s evs [] (init_wf b c)) as R.
  cbn in R. apply R; [|assumption]. intro; reflexivity.
Qed.

(* ... and all of it in the step that closes the proposal *)
Theorem payout_in_closing_step : forall P kf b c pre o s1 e1 r s2 e2 pid p1 p2,
  run P kf (init b c) pre = (s1, e1) ->
  step P kf s1 o = (r, s2, e2) ->
  find_prop pid (props s1) = Some p1 -> is_open (p_status p1) = true ->
  find_prop pid (props s2) = Some p2 -> is_open (p_status p2) = false ->
  pays pid e1 = [] /\ pays pid e2 = p_deps p2.
Proof.
  intros until p2. intros R1 S F1 O1 F2 O2.
  pose proof (payout_exactly_once _ _ _ _ _ _ _ R1 pid) as A. rewrite F1, O1 in A.
  assert (W1 : wf s1) by (eapply run_wf; [apply init_wf|exact R1]).
  assert (I1 : ev_inv (props s1) e1) by (intro; eapply payout_exactly_once; eauto).
  pose proof (step_ev _ _ _ _ _ _ _ _ W1 I1 S pid) as B. rewrite F2, O2, pays_app, A in B.
  split; assumption.
Qed.

(* the end blocker refunds or burns a record, never splits it *)
Definition ev_whole (e : event) : Prop := match e with EvPay _ _ r b => r = 0 \/ b = 0 end.

Lemma pay_out_whole : forall s p burn s1 ev, pay_out s p burn = Some (s1, ev) -> Forall ev_whole ev.
Proof.
  intros. apply pay_out_some in H as (_ & _ & _ & _ & _ & _ & ->).
  apply Forall_forall. intros e He. apply in_map_iff in He as (da & <- & _). cbn. destruct burn; auto.
Qed.

Lemma fold_ids_whole : forall f,
  (forall s id s' e, f s id = Some (s', e) -> Forall ev_whole e) ->
  forall ids s s' e, fold_ids f ids s = Some (s', e) -> Forall ev_whole e.
Proof.
  intros f Hf. induction ids as [|id r IH]; cbn; intros s s' e H.
  - inversion H; constructor.
  - destruct (f s id) as [[s1 e1]|] eqn:E; [|discriminate].
    destruct (fold_ids f r s1) as [[s2 e2]|] eqn:E2; [|discriminate].
    inversion H; subst. apply Forall_app; split; eauto.
Qed.

Theorem end_block_refund_xor_burn : forall P kf t stk s s' ev,
  end_block P kf t stk s = Some (s', ev) -> Forall ev_whole ev.
Proof.
  unfold end_block. intros until ev.
  destruct (fold_ids (process_inactive P) _ s) as [[s1 e1]|] eqn:E1; [|discriminate].
  destruct (fold_ids (process_active P kf stk) _ s1) as [[s2 e2]|] eqn:E2; [|discriminate].
  intro H; inversion H; subst. apply Forall_app; split.
  - eapply fold_ids_whole; [|exact E1]. unfold process_inactive. intros s0 id s0' e.
    destruct (find_prop id (props s0)) as [p|]; [|intro X; inversion X; constructor].
    destruct (p_status p); try solve [intro X; inversion X; constructor]; try discriminate.
    + destruct (pay_out s0 p (burn_prevote P)) as [[s3 e3]|] eqn:Hp; [|discriminate].
      intro X; inversion X; subst. eapply pay_out_whole; eauto.
    + destruct (pay_out s0 p false) as [[s3 e3]|] eqn:Hp; [|discriminate].
      intro X; inversion X; subst. eapply pay_out_whole; eauto.
  - eapply fold_ids_whole; [|exact E2]. unfold process_active. intros s0 id s0' e.
    destruct (find_prop id (props s0)) as [p|]; [|intro X; inversion X; constructor].
    destruct (p_status p); try solve [intro X; inversion X; constructor].
    2:{ destruct (bad_active_dequeued_by_key P); [|discriminate].
        destruct (pay_out s0 p false) as [[s3 e3]|] eqn:Hp; [|discriminate].
        intro X; inversion X; subst. eapply pay_out_whole; eauto. }
    destruct (p_expedited p && negb (passes _)); [intro X; inversion X; constructor|].
    destruct (pay_out s0 p _) as [[s3 e3]|] eqn:Hp; [|discriminate].
    destruct (passes _);
      [match goal with |- context [exec_msgs ?e ?sp ?ms] => destruct (exec_msgs e sp ms) end|];
      intro X; inversion X; subst; eapply pay_out_whole; eauto.
Qed.

(* ================================================================== how a proposal record evolves *)
Section Evolve.
Variable P : params.
Variable kf : keyfun.

Inductive evolve1 : proposal -> proposal -> Prop :=
| E_dep : forall cust now d a p, is_open (p_status p) = true -> is_bad (p_status p) = false -> 0 <= a ->
    evolve1 p (deposited P kf cust now d a p)
| E_vote : forall p v, p_status p = SVoting \/ p_status p = SBadVoting -> evolve1 p (with_votes p v)
| E_corrupt : forall p st, (p_status p = SDeposit /\ st = SBadDeposit \/ p_status p = SVoting /\ st = SBadVoting) ->
    evolve1 p (with_status p st)
| E_bad_close : forall p st, is_bad (p_status p) = true ->
    (st = (if bad_inactive_dequeued P then SDropped else SStale) \/ st = SFailedBad) ->
    evolve1 p (close_as p st)
| E_drop : forall p, p_status p = SDeposit -> evolve1 p (close_as p SDropped)
| E_cancel : forall p, is_open (p_status p) = true -> evolve1 p (close_as p SCancelled)
| E_tallied : forall p st cust stk, p_status p = SVoting ->
    (st = SRejected /\ passes (tally P kf cust stk p) = false
     \/ (st = SPassed \/ st = SFailed) /\ passes (tally P kf cust stk p) = true) ->
    evolve1 p (tallied p st (tally P kf cust stk p))
| E_conv : forall p cust stk, p_status p = SVoting -> p_expedited p = true ->
    passes (tally P kf cust stk p) = false ->
    evolve1 p (converted P p (tally P kf cust stk p)).

Variable Q : proposal -> Prop.
Hypothesis Q_evolve : forall p p', Q p -> evolve1 p p' -> Q p'.
Hypothesis Q_new : forall id now pr ms ex, check_msgs ms = true -> Q (new_proposal P id now pr ms ex).

Lemma Forall_upd_Q : forall id g ps p,
  Forall Q ps -> find_prop id ps = Some p -> evolve1 p (g p) -> Forall Q (upd_prop id g ps).
Proof.
  intros id g ps p F Hf He. apply Forall_upd; [assumption|]. intros q Hq.
  rewrite Hf in Hq; inversion Hq; subst q. eapply Q_evolve; eauto.
  rewrite Forall_forall in F. apply F. eapply find_prop_In; eauto.
Qed.

Lemma process_inactive_Q : forall s id s' e,
  Forall Q (props s) -> process_inactive P s id = Some (s', e) -> Forall Q (props s').
Proof.
  unfold process_inactive. intros until e. intros F.
  destruct (find_prop id (props s)) as [p|] eqn:Hf; [|intro H; inversion H; subst; assumption].
  destruct (p_status p) eqn:Hs; try solve [intro H; inversion H; subst; assumption]; try discriminate.
  - destruct (pay_out s p (burn_prevote P)) as [[s1 e1]|] eqn:Hp; [|discriminate].
    intro H; inversion H; subst. apply pay_out_some in Hp as (A & _). cbn [props set_props]. rewrite A.
    eapply Forall_upd_Q; eauto. now constructor.
  - destruct (pay_out s p false) as [[s1 e1]|] eqn:Hp; [|discriminate].
    intro H; inversion H; subst. apply pay_out_some in Hp as (A & _). cbn [props set_props]. rewrite A.
    eapply Forall_upd_Q; eauto. apply E_bad_close; [rewrite Hs; reflexivity|auto].
Qed.

Lemma exec_msgs_Q : forall e ms s s', x_P e = P -> x_kf e = kf ->
  Forall Q (props s) -> exec_msgs e s ms = Some s' -> Forall Q (props s').
Proof.
  intros e ms. induction ms as [|m r IH]; cbn; intros s s' HP Hk F H.
  - inversion H; subst; assumption.
  - destruct (exec_one e s m) as [s1|] eqn:E; [|discriminate]. apply (IH s1 s' HP Hk); [|exact H].
    unfold exec_one in E. destruct (m_act m) as [tag| |to amt|pid amt].
    + inversion E; subst. exact F.
    + discriminate.
    + destruct ((0 <? amt) && (amt <=? gov_bal s)); [|discriminate]. inversion E; subst. exact F.
    + apply gov_deposit_inv in E as [->|(p & Hf & Ho & Hb & Ha & _ & ->)]; [assumption|]. cbn [props].
      rewrite HP, Hk. eapply Forall_upd_Q; eauto. constructor; auto; lia.
Qed.

Lemma process_active_Q : forall stk s id s' e,
  Forall Q (props s) -> process_active P kf stk s id = Some (s', e) -> Forall Q (props s').
Proof.
  unfold process_active. intros until e. intros F.
  destruct (find_prop id (props s)) as [p|] eqn:Hf; [|intro H; inversion H; subst; assumption].
  destruct (p_status p) eqn:Hs; try solve [intro H; inversion H; subst; assumption].
  2:{ destruct (bad_active_dequeued_by_key P); [|discriminate].
      destruct (pay_out s p false) as [[s1 e1]|] eqn:Hp; [|discriminate].
      intro H; inversion H; subst. apply pay_out_some in Hp as (A & _). cbn [props set_props]. rewrite A.
      eapply Forall_upd_Q; eauto. apply E_bad_close; [rewrite Hs; reflexivity|auto]. }
  destruct (p_expedited p && negb (passes (tally P kf (custom s) stk p))) eqn:Hx.
  { intro H; inversion H; subst. cbn [props set_props]. apply andb_prop in Hx as [X1 X2].
    apply negb_true_iff in X2. eapply Forall_upd_Q; eauto. now constructor. }
  destruct (pay_out s p _) as [[s1 e1]|] eqn:Hp; [|discriminate].
  apply pay_out_some in Hp as (A & _).
  destruct (passes (tally P kf (custom s) stk p)) eqn:Hv.
  - match goal with |- context [exec_msgs ?e ?sp ?ms] => destruct (exec_msgs e sp ms) as [s2|] eqn:He end.
    + intro H; inversion H; subst. eapply exec_msgs_Q; [| | |exact He]; try reflexivity.
      cbn [props set_props]. rewrite A. eapply Forall_upd_Q; eauto. constructor; auto.
    + intro H; inversion H; subst. cbn [props set_props]. rewrite A.
      eapply Forall_upd_Q; eauto. constructor; auto.
  - intro H; inversion H; subst. cbn [props set_props]. rewrite A.
    eapply Forall_upd_Q; eauto. constructor; auto.
Qed.

Lemma step_Q : forall s o r s' e,
  Forall Q (props s) -> step P kf s o = (r, s', e) -> Forall Q (props s').
Proof.
  intros s o r s' e F. destruct o; cbn.
  - destruct (submit P kf now s proposer ms amt expedited valid bad_denom) as [r0 s0] eqn:E.
    intro H; injection H as <- <- <-. destruct r0;
      try (apply submit_err in E; [subst; assumption|discriminate]).
    apply submit_ok_inv in E as (Hc & Ha & _ & E). pose proof E as E0.
    apply add_deposit_ok_inv in E as (p & Hf & Ho & _ & ->).
    pose proof (add_deposit_ok_notbad _ _ _ _ _ _ _ _ _ _ E0 Hf) as Hnb.
    cbn [props] in *. eapply Forall_upd_Q; eauto.
    + apply Forall_app; split; [assumption|]. constructor; [now apply Q_new|constructor].
    + now constructor.
  - destruct (deposit_msg_invalid amt bad_denom depositor) eqn:Ha; [intro H; injection H as <- <- <-; assumption|].
    destruct (add_deposit P kf now s pid depositor amt bad_denom) as [r0 s0] eqn:E.
    intro H; injection H as <- <- <-. destruct r0;
      try (apply add_deposit_err in E; [subst; assumption|discriminate]).
    pose proof E as E0. apply add_deposit_ok_inv in E as (p & Hf & Ho & _ & ->). cbn [props].
    pose proof (add_deposit_ok_notbad _ _ _ _ _ _ _ _ _ _ E0 Hf) as Hnb.
    apply deposit_msg_valid in Ha as [Ha _].
    eapply Forall_upd_Q; eauto. now constructor.
  - destruct (vote s pid voter opts weighted) as [r0 s0] eqn:E.
    intro H; injection H as <- <- <-.
    apply vote_props in E as [->|(p & Hf & Hs & ->)]; [assumption|]. cbn [props set_props].
    eapply Forall_upd_Q; eauto. now constructor.
  - intro H. apply cancel_inv in H as [(_ & -> & _)|(p & _ & Hf & Ho & _ & Hp & _)]; [assumption|].
    rewrite Hp. eapply Forall_upd_Q; eauto. now constructor.
  - destruct (end_block P kf t stk s) as [[s1 e1]|] eqn:E; intro H; injection H as <- <- <-; [|assumption].
    unfold end_block in E.
    destruct (fold_ids (process_inactive P) _ s) as [[s2 e2]|] eqn:E1; [|discriminate].
    destruct (fold_ids (process_active P kf stk) _ s2) as [[s3 e3]|] eqn:E2; [|discriminate].
    injection E as <- <-.
    eapply (fold_ids_pres (fun s => Forall Q (props s)));
      [|eapply (fold_ids_pres (fun s => Forall Q (props s))); [|exact F|exact E1]|exact E2].
    + intros; eapply process_active_Q; eauto.
    + intros; eapply process_inactive_Q; eauto.
  - destruct (negb authorized); [intro H; injection H as <- <- <-; assumption|].
    destruct (negb (cparams_valid cp)); intro H; injection H as <- <- <-; assumption.
  - destruct (negb authorized); intro H; injection H as <- <- <-; assumption.
  - destruct ((bal s acct + delta <? 0) || (acct <? 0)); intro H; injection H as <- <- <-; assumption.
  - destruct (corrupt s pid) as [r0 s0] eqn:E. intro H; injection H as <- <- <-.
    apply corrupt_inv in E as [->|(p & st & Hf & Hst & ->)]; [assumption|]. cbn [props set_props].
    eapply Forall_upd_Q; eauto. now constructor.
Qed.

Theorem props_invariant : forall b c ops s ev,
  run P kf (init b c) ops = (s, ev) -> Forall Q (props s).
Proof.
  intros b c ops. assert (G : forall s0, Forall Q (props s0) -> forall s ev, run P kf s0 ops = (s, ev) -> Forall Q (props s)).
  { induction ops as [|o r IH]; cbn; intros s0 F s ev H.
    - inversion H; subst; assumption.
    - destruct (step P kf s0 o) as [[r0 s1] e1] eqn:E. destruct (run P kf s1 r) as [s2 e2] eqn:E2.
      inversion H; subst. eapply IH; [|exact E2]. eapply step_Q; eauto. }
  apply G. constructor.
Qed.
End Evolve.

(* ------------------------------------------------------------------ with the ErrEncoding branches repaired *)
(* If both undecodable-record branches remove the queue entry by the walk's own key (the proposed
   patch of finding C15-3; the flags are generated facts), making records undecodable can no longer
   stop the end blocker: the guard of end_block_never_fails reduces to "no spend from the module
   account". *)
Definition not_stale (p : proposal) : Prop := p_status p <> SStale.

Lemma not_stale_evolve : forall P kf p p', bad_inactive_dequeued P = true ->
  not_stale p -> evolve1 P kf p p' -> not_stale p'.
Proof.
  intros P kf p p' Hfix Hq He. unfold not_stale in *. destruct He; cbn.
  - destruct (match p_status p with SDeposit => _ | _ => false end); [discriminate|assumption].
  - assumption.
  - destruct H as [[_ ->]|[_ ->]]; discriminate.
  - rewrite Hfix in H0. destruct H0 as [->| ->]; discriminate.
  - discriminate.
  - discriminate.
  - destruct H0 as [[-> _]|[[-> | ->] _]]; discriminate.
  - discriminate.
Qed.

Lemma process_inactive_total_fixed : forall P s id,
  bad_inactive_dequeued P = true -> wf s -> quiet s -> Forall not_stale (props s) ->
  process_inactive P s id <> None.
Proof.
  intros P s id Hfix W [Q _] NS. unfold process_inactive.
  destruct (find_prop id (props s)) as [p|] eqn:Hf; [|discriminate].
  assert (Hns : not_stale p) by (rewrite Forall_forall in NS; apply NS; eapply find_prop_In; eauto).
  destruct (p_status p) eqn:Hs; try discriminate; try (exfalso; apply Hns; assumption).
  - destruct (pay_out s p (burn_prevote P)) as [[s1 e1]|] eqn:Hp; [discriminate|].
    exfalso. eapply pay_out_total; eauto; [eapply find_prop_In; eauto|rewrite Hs; reflexivity].
  - destruct (pay_out s p false) as [[s1 e1]|] eqn:Hp; [discriminate|].
    exfalso. eapply pay_out_total; eauto; [eapply find_prop_In; eauto|rewrite Hs; reflexivity].
Qed.

Lemma process_active_total_fixed : forall P kf stk s id,
  bad_active_dequeued_by_key P = true -> wf s -> quiet s -> process_active P kf stk s id <> None.
Proof.
  intros P kf stk s id Hfix W [Q _]. unfold process_active.
  destruct (find_prop id (props s)) as [p|] eqn:Hf; [|discriminate].
  destruct (p_status p) eqn:Hs; try discriminate.
  - destruct (p_expedited p && negb (passes (tally P kf (custom s) stk p))); [discriminate|].
    destruct (pay_out s p _) as [[s1 e1]|] eqn:Hp.
    + destruct (passes _); [|discriminate].
      match goal with |- context [exec_msgs ?e ?sp ?ms] => destruct (exec_msgs e sp ms) end; discriminate.
    + exfalso. eapply pay_out_total; eauto; [eapply find_prop_In; eauto|rewrite Hs; reflexivity].
  - rewrite Hfix. destruct (pay_out s p false) as [[s1 e1]|] eqn:Hp; [discriminate|].
    exfalso. eapply pay_out_total; eauto; [eapply find_prop_In; eauto|rewrite Hs; reflexivity].
Qed.

Definition settled (s : state) : Prop := wf s /\ quiet s /\ Forall not_stale (props s).

Lemma fold_ids_total_gen : forall (I : state -> Prop) f,
  (forall s id, I s -> f s id <> None) ->
  (forall s id s' ev, I s -> f s id = Some (s', ev) -> I s') ->
  forall ids s, I s -> fold_ids f ids s <> None.
Proof.
  intros I f Ht Hp. induction ids as [|id r IH]; cbn; intros s Hs; [discriminate|].
  destruct (f s id) as [[s1 e1]|] eqn:E; [|exfalso; eapply Ht; eauto].
  specialize (IH s1 (Hp _ _ _ _ Hs E)). destruct (fold_ids f r s1) as [[s2 e2]|]; [discriminate|contradiction].
Qed.

Theorem end_block_never_fails_when_dequeued : forall P kf b c ops s ev t stk,
  bad_inactive_dequeued P = true -> bad_active_dequeued_by_key P = true ->
  Forall op_no_govsend ops ->
  run P kf (init b c) ops = (s, ev) ->
  end_block P kf t stk s <> None.
Proof.
  intros until stk. intros F1 F2 Hg Hr.
  assert (S0 : settled s).
  { split; [eapply run_wf; [apply init_wf|exact Hr]|]. split; [eapply run_quiet; [apply init_quiet|exact Hg|exact Hr]|].
    eapply (props_invariant P kf not_stale); [| |exact Hr].
    - intros p p' Hq He. eapply not_stale_evolve; eauto.
    - intros. unfold not_stale. cbn. discriminate. }
  assert (PI : forall s0 id s0' e0, settled s0 -> process_inactive P s0 id = Some (s0', e0) -> settled s0').
  { intros s0 id s0' e0 (W & Q & NS) E. split; [eapply process_inactive_wf; eauto|].
    split; [eapply process_inactive_quiet; eauto|].
    eapply (process_inactive_Q P kf not_stale); eauto. intros p p' Hq He. eapply not_stale_evolve; eauto. }
  assert (PA : forall s0 id s0' e0, settled s0 -> process_active P kf stk s0 id = Some (s0', e0) -> settled s0').
  { intros s0 id s0' e0 (W & Q & NS) E. split; [eapply process_active_wf; eauto|].
    split; [eapply process_active_quiet; eauto|].
    eapply (process_active_Q P kf not_stale); eauto. intros p p' Hq He. eapply not_stale_evolve; eauto. }
  unfold end_block.
  destruct (fold_ids (process_inactive P) _ s) as [[s1 e1]|] eqn:E1.
  - assert (S1 : settled s1) by (eapply (fold_ids_pres settled); [|exact S0|exact E1]; exact PI).
    destruct (fold_ids (process_active P kf stk) _ s1) as [[s2 e2]|] eqn:E2; [discriminate|].
    exfalso. revert E2. apply (fold_ids_total_gen settled); auto.
    intros s0 id (W & Q & _). now apply process_active_total_fixed.
  - exfalso. revert E1. apply (fold_ids_total_gen settled); auto.
    intros s0 id (W & Q & NS). now apply process_inactive_total_fixed.
Qed.

(* ================================================================== single message type *)
Definition same_type (ms : list msg) : Prop :=
  forall m m', In m ms -> In m' ms -> m_type m = m_type m'.

Lemma check_msgs_from_spec : forall ms t,
  check_msgs_from (Some t) ms = true <-> (forall m, In m ms -> m_type m = t).
Proof.
  induction ms as [|m r IH]; cbn; intros t.
  - split; [intros _ m []|reflexivity].
  - destruct (t =? m_type m) eqn:E; cbn.
    + apply Z.eqb_eq in E. rewrite IH. split.
      * intros H x [<-|Hx]; [auto|]. rewrite E. now apply H.
      * intros H x Hx. rewrite <- E. apply H. now right.
    + apply Z.eqb_neq in E. split; [discriminate|]. intro H. exfalso. apply E. symmetry. apply H. now left.
Qed.

Theorem check_msgs_spec : forall ms, check_msgs ms = true <-> same_type ms.
Proof.
  unfold check_msgs, same_type. destruct ms as [|m r]; cbn.
  - split; [intros _ ? ? []|reflexivity].
  - rewrite check_msgs_from_spec. split.
    + intros H a b [<-|Ha] [<-|Hb]; auto.
      * symmetry; auto.
      * rewrite (H a Ha), (H b Hb); reflexivity.
    + intros H x Hx. apply H; [now right|now left].
Qed.

(* submit refuses mixed types, without touching the state ... *)
Theorem submit_rejects_mixed : forall P kf now s proposer ms amt ex valid bd,
  ~ same_type ms -> submit P kf now s proposer ms amt ex valid bd = (RErr EMixed, s).
Proof.
  intros. unfold submit. destruct (check_msgs ms) eqn:E; [|reflexivity].
  apply check_msgs_spec in E. contradiction.
Qed.

(* ... so every proposal of every reachable state has messages of one type *)
Theorem single_type : forall P kf b c ops s ev,
  run P kf (init b c) ops = (s, ev) -> Forall (fun p => same_type (p_msgs p)) (props s).
Proof.
  intros P kf. apply (props_invariant P kf (fun p => same_type (p_msgs p))).
  - intros p p' Hq He. destruct He; cbn; assumption.
  - intros. cbn. now apply check_msgs_spec.
Qed.

(* ================================================================== activation *)
Definition decided_or_voting (st : status) : bool :=
  match st with SVoting | SPassed | SRejected | SFailed => true | _ => false end.

(* the step that moves a proposal from the deposit period into voting *)
Theorem activation_step : forall P kf cust now d a p,
  p_status p = SDeposit -> p_status (deposited P kf cust now d a p) = SVoting ->
  let p' := deposited P kf cust now d a p in
  is_all_gte (coins_of_fx (p_total p')) (egf_min kf cust [(fx, min_for P p)] (p_msgs p)) = true /\
  p_vstart p' = now /\ p_vend p' = now + period_for P kf cust p /\
  p_act_total p' = p_total p' /\ p_act_req p' = egf_min kf cust [(fx, min_for P p)] (p_msgs p) /\
  p_act_period p' = period_for P kf cust p.
Proof.
  intros P kf cust now d a p Hs. unfold deposited; cbn. rewrite Hs.
  destruct (is_all_gte _ _) eqn:G; [|discriminate]. intros _. repeat split; reflexivity.
Qed.

(* nothing else creates the voting status *)
Theorem voting_only_by_activation : forall P kf p p',
  evolve1 P kf p p' -> p_status p' = SVoting ->
  p_status p = SVoting \/
  (p_status p = SDeposit /\ exists cust now d a, 0 <= a /\ p' = deposited P kf cust now d a p).
Proof.
  intros P kf p p' He Hs. destruct He.
  - destruct (p_status p) eqn:E; try discriminate; auto.
    right. split; [reflexivity|]. exists cust, now, d, a. auto.
  - left; exact Hs.
  - cbn in Hs. destruct H as [[_ ->]|[_ ->]]; discriminate.
  - cbn in Hs. destruct H0 as [->| ->]; [destruct (bad_inactive_dequeued P)|]; discriminate.
  - discriminate.
  - discriminate.
  - left; assumption.
  - left; assumption.
Qed.

(* invariant over histories: what was recorded at activation justifies being in (or past) voting *)
Definition act_ok (P : params) (p : proposal) : Prop :=
  decided_or_voting (p_status p) = true ->
  is_all_gte (coins_of_fx (p_act_total p)) (p_act_req p) = true /\
  p_act_total p <= p_total p /\
  (p_vend p = p_vstart p + p_act_period p \/
   (p_expedited p = false /\ p_vend p = p_vstart p + voting_period P)).

Theorem activation_invariant : forall P kf b c ops s ev,
  run P kf (init b c) ops = (s, ev) -> Forall (act_ok P) (props s).
Proof.
  intros P kf. apply (props_invariant P kf (act_ok P)).
  - intros p p' Hq He. unfold act_ok in *. destruct He; cbn in *.
    + (* deposit *)
      destruct (p_status p) eqn:Hs; try discriminate; cbn.
      * destruct (is_all_gte (coins_of_fx (p_total p + a)) (egf_min kf cust [(fx, min_for P p)] (p_msgs p))) eqn:G;
          cbn; [|discriminate].
        intros _. repeat split; auto; lia.
      * intros _. destruct (Hq eq_refl) as (A & B & C). repeat split; auto; lia.
    + exact Hq.
    + destruct H as [[_ ->]|[_ ->]]; discriminate.
    + destruct H0 as [->| ->]; [destruct (bad_inactive_dequeued P)|]; discriminate.
    + discriminate.
    + discriminate.
    + rewrite H in Hq. intros _. destruct (Hq eq_refl) as (A & B & C). auto.
    + rewrite H in Hq. intros _. destruct (Hq eq_refl) as (A & B & C). repeat split; auto.
  - intros. unfold act_ok. cbn. discriminate.
Qed.

(* ------------------------------------------------------------------ the code's key function *)
(* GetMinDepositAmountFromProposalMsgs never returns anything but the default *)
Theorem code_min_is_default : forall cust m ms, egf_min kf_code cust [(fx, m)] ms = [(fx, m)].
Proof.
  intros. unfold egf_min. destruct ms as [|x r]; cbn; [|reflexivity].
  destruct (lookup ty_egf cust) as [cp|]; [|reflexivity].
  destruct (c_ratio cp =? 0); reflexivity.
Qed.

(* the message type has no influence on the voting period and the quorum *)
Theorem code_type_blind : forall P cust p q,
  (p_msgs p = [] <-> p_msgs q = []) -> p_expedited p = p_expedited q ->
  period_for P kf_code cust p = period_for P kf_code cust q /\
  quorum_for P kf_code cust p = quorum_for P kf_code cust q.
Proof.
  intros P cust p q Hm He. unfold period_for, quorum_for. cbn. rewrite He.
  destruct (p_msgs p) as [|a r], (p_msgs q) as [|a' r']; auto.
  - destruct Hm as [Hm _]. discriminate (Hm eq_refl).
  - destruct Hm as [_ Hm]. discriminate (Hm eq_refl).
Qed.

(* so, as the code is: a proposal is in (or past) voting only if its total deposit reached the
   default minimum (regular or expedited) — and nothing more is ever required *)
Definition act_default (P : params) (p : proposal) : Prop :=
  decided_or_voting (p_status p) = true ->
  (p_act_req p = [(fx, min_deposit P)] \/ p_act_req p = [(fx, exp_min_deposit P)]) /\
  (p_expedited p = true -> p_act_req p = [(fx, exp_min_deposit P)]).

Theorem code_activation_default : forall P b c ops s ev,
  run P kf_code (init b c) ops = (s, ev) -> Forall (act_default P) (props s).
Proof.
  intros P. apply (props_invariant P kf_code (act_default P)).
  - intros p p' Hq He. unfold act_default in *. destruct He; cbn in *.
    + destruct (p_status p) eqn:Hs; try discriminate; cbn.
      * rewrite code_min_is_default.
        destruct (is_all_gte (coins_of_fx (p_total p + a)) [(fx, min_for P p)]); cbn; [|discriminate].
        intros _. unfold min_for. destruct (p_expedited p); split; auto; discriminate.
      * intros _. apply (Hq eq_refl).
    + exact Hq.
    + destruct H as [[_ ->]|[_ ->]]; discriminate.
    + destruct H0 as [->| ->]; [destruct (bad_inactive_dequeued P)|]; discriminate.
    + discriminate.
    + discriminate.
    + rewrite H in Hq. intros _. apply (Hq eq_refl).
    + rewrite H in Hq. intros _. destruct (Hq eq_refl) as [A B]. split; [assumption|discriminate].
  - intros. unfold act_default. cbn. discriminate.
Qed.

Lemma is_all_gte_fx : forall t m, 0 < m -> is_all_gte (coins_of_fx t) [(fx, m)] = true -> m <= t.
Proof.
  intros t m Hm. unfold coins_of_fx, is_all_gte. destruct (t =? 0) eqn:E; [discriminate|].
  cbn. destruct (t <? m) eqn:L; [discriminate|]. intros _. apply Z.ltb_ge in L. lia.
Qed.

Theorem code_activation_amount : forall P b c ops s ev p,
  0 < min_deposit P -> 0 < exp_min_deposit P ->
  run P kf_code (init b c) ops = (s, ev) -> In p (props s) ->
  decided_or_voting (p_status p) = true ->
  Z.min (min_deposit P) (exp_min_deposit P) <= p_act_total p <= p_total p.
Proof.
  intros P b c ops s ev p H1 H2 R Hin Hd.
  pose proof (code_activation_default _ _ _ _ _ _ R) as A.
  pose proof (activation_invariant _ _ _ _ _ _ _ R) as B.
  rewrite Forall_forall in A, B. destruct (A p Hin Hd) as [[E|E] _]; destruct (B p Hin Hd) as (G & L & _);
    rewrite E in G; apply is_all_gte_fx in G; lia.
Qed.

(* ------------------------------------------------------------------ the intended key function *)
Definition first_type (ms : list msg) : Z := match ms with [] => ty_none | m :: _ => m_type m end.

Theorem fixed_period_by_type : forall P cust p,
  period_for P kf_fixed cust p =
  match lookup (first_type (p_msgs p)) cust with
  | Some cp => c_period cp
  | None => if p_expedited p then exp_voting_period P else voting_period P
  end /\
  quorum_for P kf_fixed cust p =
  match lookup (first_type (p_msgs p)) cust with
  | Some cp => c_quorum cp
  | None => quorum P
  end.
Proof. intros. split; reflexivity. Qed.

(* community-pool spends that request only the deposit denomination *)
Definition fx_request (m : msg) : Prop :=
  m_type m = ty_egf /\ (m_spend m = [] \/ exists a, 0 < a /\ m_spend m = [(fx, a)]).

Fixpoint requested (ms : list msg) : Z :=
  match ms with [] => 0 | m :: r => amount_of fx (m_spend m) + requested r end.

Lemma coins_add_fx : forall t m, 0 <= t -> fx_request m ->
  coins_add (coins_of_fx t) (m_spend m) = coins_of_fx (t + amount_of fx (m_spend m)).
Proof.
  intros t m Ht [_ [E|(a & Ha & E)]]; rewrite E; unfold coins_add, coins_of_fx; cbn.
  - rewrite Z.add_0_r. destruct (t =? 0) eqn:T; cbn; [reflexivity|rewrite T; reflexivity].
  - destruct (t =? 0) eqn:T; cbn.
    + apply Z.eqb_eq in T. subst. cbn. destruct (a =? 0) eqn:A; [apply Z.eqb_eq in A; lia|reflexivity].
    + destruct (t + a =? 0) eqn:A; [apply Z.eqb_eq in A; lia|]. reflexivity.
Qed.

Lemma requested_nonneg : forall ms, Forall fx_request ms -> 0 <= requested ms.
Proof.
  induction 1 as [|m r [_ [E|(a & Ha & E)]] _ IH]; cbn; [lia| |]; rewrite E; cbn; lia.
Qed.

Lemma fold_requests : forall ms t, 0 <= t -> Forall fx_request ms ->
  fold_left (fun acc m => coins_add acc (m_spend m)) ms (coins_of_fx t) = coins_of_fx (t + requested ms).
Proof.
  induction ms as [|m r IH]; cbn; intros t Ht F.
  - now rewrite Z.add_0_r.
  - inversion F; subst. rewrite coins_add_fx by assumption.
    assert (0 <= amount_of fx (m_spend m)).
    { destruct H1 as [_ [E|(a & Ha & E)]]; rewrite E; cbn; lia. }
    rewrite IH by (auto; lia). f_equal. lia.
Qed.

Definition share_of (r total : Z) : Z := dec_round_int (dec_mul (dec_of_int total) r).

(* with the intended key function the rule of the property holds exactly for such requests:
   required = max(default, configured share of the requested amount) *)
Theorem fixed_egf_min : forall cust m ms cp,
  0 < m -> Forall fx_request ms -> lookup ty_egf cust = Some cp -> c_ratio cp <> 0 ->
  egf_min kf_fixed cust [(fx, m)] ms = [(fx, Z.max m (share_of (c_ratio cp) (requested ms)))].
Proof.
  intros cust m ms cp Hm F L R. unfold egf_min.
  assert (A : forallb (kf_is_egf kf_fixed) ms = true).
  { apply forallb_forall. intros x Hx. rewrite Forall_forall in F. destruct (F x Hx) as [E _].
    cbn. rewrite E. reflexivity. }
  assert (Htot : fold_left (fun acc m => coins_add acc (m_spend m)) ms [] = coins_of_fx (requested ms)).
  { change (@nil (Z * Z)) with (coins_of_fx 0). rewrite fold_requests by (auto; lia). reflexivity. }
  rewrite A. cbn [negb]. rewrite L, Htot. destruct (c_ratio cp =? 0) eqn:Z0; [apply Z.eqb_eq in Z0; contradiction|].
  pose proof (requested_nonneg _ F) as Hr. unfold coins_of_fx.
  destruct (requested ms =? 0) eqn:E0.
  - apply Z.eqb_eq in E0. rewrite E0. cbn.
    unfold share_of, dec_round_int, dec_mul, dec_of_int. cbn. f_equal. f_equal. lia.
  - cbn. fold (share_of (c_ratio cp) (requested ms)). set (sh := share_of (c_ratio cp) (requested ms)).
    unfold is_all_lt, is_all_gt, denoms_subset. cbn.
    destruct (m =? 0) eqn:M0; [apply Z.eqb_eq in M0; lia|]. cbn.
    destruct (sh <? m) eqn:L1; cbn.
    + apply Z.ltb_lt in L1. f_equal. f_equal. lia.
    + apply Z.ltb_ge in L1. f_equal. f_equal. lia.
Qed.

Theorem fixed_activation_egf : forall P cust now d a p cp,
  p_status p = SDeposit -> p_status (deposited P kf_fixed cust now d a p) = SVoting ->
  0 < min_for P p -> Forall fx_request (p_msgs p) -> lookup ty_egf cust = Some cp -> c_ratio cp <> 0 ->
  Z.max (min_for P p) (share_of (c_ratio cp) (requested (p_msgs p))) <= p_total p + a.
Proof.
  intros until cp. intros Hs Hv Hm F L R.
  destruct (activation_step _ _ _ _ _ _ _ Hs Hv) as (G & _). cbn in G.
  rewrite (fixed_egf_min _ _ _ _ Hm F L R) in G.
  apply is_all_gte_fx in G; lia.
Qed.

(* ================================================================== quorum at tally *)
Theorem tally_uses_type_quorum : forall P kf cust stk p,
  q_used (tally P kf cust stk p) = quorum_for P kf cust p /\
  (passes (tally P kf cust stk p) = true ->
   st_total_bonded stk <> 0 /\ quorum_for P kf cust p <= participation stk p).
Proof.
  intros. unfold tally.
  destruct (st_total_bonded stk =? 0) eqn:B; [split; [reflexivity|discriminate]|].
  destruct (participation stk p <? quorum_for P kf cust p) eqn:Q; [split; [reflexivity|discriminate]|].
  apply Z.eqb_neq in B. apply Z.ltb_ge in Q.
  destruct (_ =? 0); [split; [reflexivity|discriminate]|].
  destruct (veto_threshold P <? _); [split; [reflexivity|discriminate]|].
  destruct (_ <? _); split; auto; discriminate.
Qed.

(* the proposal record after the end blocker tallied it carries the quorum looked up in the
   state of that very block *)
Theorem tallied_records_quorum : forall P kf stk s id s' e p p',
  process_active P kf stk s id = Some (s', e) ->
  find_prop id (props s) = Some p -> p_status p = SVoting ->
  find_prop id (props s') = Some p' ->
  p_quorum_used p' = quorum_for P kf (custom s) p /\
  (p_status p' = SPassed \/ p_status p' = SFailed -> quorum_for P kf (custom s) p <= participation stk p).
Proof.
  unfold process_active. intros until p'. intros H Hf Hs Hf'. rewrite Hf, Hs in H.
  pose proof (tally_uses_type_quorum P kf (custom s) stk p) as [TQ TP].
  set (v := tally P kf (custom s) stk p) in *.
  destruct (p_expedited p && negb (passes v)).
  { inversion H; subst. cbn [props set_props] in Hf'.
    rewrite (find_upd_same id (fun q => converted P q v) _ p) in Hf' by (auto; intros; reflexivity).
    inversion Hf'; subst. cbn. split; [assumption|]. intros [X|X]; discriminate. }
  destruct (pay_out s p (burns v)) as [[s1 e1]|] eqn:Hp; [|discriminate].
  apply pay_out_some in Hp as (A & _).
  destruct (passes v) eqn:Pv.
  - match type of H with context [exec_msgs ?e ?sp ?ms] => destruct (exec_msgs e sp ms) as [s2|] eqn:He end.
    + apply exec_msgs_frame in He as (_ & _ & _ & A2). cbn [x_self props set_props] in A2. inversion H; subst.
      rewrite A2, A, (find_upd_same id (fun q => tallied q SPassed v) _ p) in Hf' by (auto; intros; reflexivity).
      inversion Hf'; subst. cbn. split; [assumption|]. intros _. now apply TP.
    + inversion H; subst. cbn [props set_props] in Hf'.
      rewrite A, (find_upd_same id (fun q => tallied q SFailed v) _ p) in Hf' by (auto; intros; reflexivity).
      inversion Hf'; subst. cbn. split; [assumption|]. intros _. now apply TP.
  - inversion H; subst. cbn [props set_props] in Hf'.
    rewrite A, (find_upd_same id (fun q => tallied q SRejected v) _ p) in Hf' by (auto; intros; reflexivity).
    inversion Hf'; subst. cbn. split; [assumption|]. intros [X|X]; discriminate.
Qed.

(* ================================================================== all-or-nothing execution *)
Lemma exec_msgs_none : forall e ms s, exec_msgs e s ms = None <->
  exists pre m post si, ms = pre ++ m :: post /\ exec_msgs e s pre = Some si /\ exec_one e si m = None.
Proof.
  intros e. induction ms as [|m r IH]; cbn; intros s.
  - split; [discriminate|]. intros (pre & m & post & si & E & _). destruct pre; discriminate.
  - destruct (exec_one e s m) as [s1|] eqn:E1.
    + rewrite IH. split.
      * intros (pre & x & post & si & -> & A & B). exists (m :: pre), x, post, si. cbn. rewrite E1. auto.
      * intros (pre & x & post & si & E & A & B). destruct pre as [|y pre]; cbn in *.
        -- inversion E; subst. inversion A; subst. congruence.
        -- inversion E; subst. rewrite E1 in A. exists pre, x, post, si. auto.
    + split; [|reflexivity]. intros _. exists [], m, r, s. cbn. auto.
Qed.

(* the part of the state that is not the proposal list *)
Definition world (s : state) := (ext s, gov_bal s, bal s, burned s, pool_in s, gov_spent s, custom s).

(* the environment the end blocker gives the messages of proposal id, and the state they start on:
   deposits paid out, the proposal recorded as PASSED (see the remark in M_Gov.process_active) *)
Definition xenv_of (P : params) (kf : keyfun) (stk : staking) (id : Z) : xenv :=
  {| x_P := P; x_kf := kf; x_now := st_time stk; x_self := id |}.
Definition passed_state (s1 : state) (id : Z) (v : verdict) : state :=
  set_props s1 (upd_prop id (fun q => tallied q SPassed v) (props s1)).

(* A passed proposal one of whose messages fails — after any number of its earlier messages
   succeeded on the branch, whatever they did (sends from the module account and deposits into other
   proposals included) — ends as failed, and the state is exactly the one right after its deposits
   were paid out: no write of any of its messages survives, no other proposal is touched. *)
Theorem atomic_execution : forall P kf stk s id p s1 ev pre m post si,
  find_prop id (props s) = Some p -> p_status p = SVoting ->
  passes (tally P kf (custom s) stk p) = true ->
  pay_out s p (burns (tally P kf (custom s) stk p)) = Some (s1, ev) ->
  p_msgs p = pre ++ m :: post ->
  exec_msgs (xenv_of P kf stk id) (passed_state s1 id (tally P kf (custom s) stk p)) pre = Some si ->
  exec_one (xenv_of P kf stk id) si m = None ->
  exists s', process_active P kf stk s id = Some (s', ev) /\
             world s' = world s1 /\
             exists p', find_prop id (props s') = Some p' /\ p_status p' = SFailed /\
                        forall id', id' <> id -> find_prop id' (props s') = find_prop id' (props s).
Proof.
  intros until si. intros Hf Hs Hp Hpay Hm Hpre Hone.
  assert (He : exec_msgs (xenv_of P kf stk id) (passed_state s1 id (tally P kf (custom s) stk p)) (p_msgs p) = None).
  { apply exec_msgs_none. exists pre, m, post, si. auto. }
  unfold process_active. rewrite Hf, Hs, Hp. rewrite andb_false_r. rewrite Hpay.
  unfold xenv_of, passed_state in He. rewrite He.
  eexists. split; [reflexivity|]. split; [reflexivity|].
  apply pay_out_some in Hpay as (A & _). cbn [props set_props]. rewrite A.
  eexists. split; [apply find_upd_same; [intros; reflexivity|exact Hf]|]. split; [reflexivity|].
  intros id' Hne. apply find_upd_other; [intros; reflexivity|assumption].
Qed.

(* and when every message succeeds, all their writes are applied together *)
Theorem all_applied : forall P kf stk s id p s1 ev s2,
  find_prop id (props s) = Some p -> p_status p = SVoting ->
  passes (tally P kf (custom s) stk p) = true ->
  pay_out s p (burns (tally P kf (custom s) stk p)) = Some (s1, ev) ->
  exec_msgs (xenv_of P kf stk id) (passed_state s1 id (tally P kf (custom s) stk p)) (p_msgs p) = Some s2 ->
  process_active P kf stk s id = Some (s2, ev) /\
  exists p', find_prop id (props s2) = Some p' /\ p_status p' = SPassed.
Proof.
  intros until s2. intros Hf Hs Hp Hpay He.
  unfold process_active. rewrite Hf, Hs, Hp. rewrite andb_false_r. rewrite Hpay.
  pose proof He as He'. unfold xenv_of, passed_state in He. rewrite He. split; [reflexivity|].
  apply exec_msgs_frame in He' as (_ & _ & _ & A2). cbn [x_self xenv_of] in A2. rewrite A2.
  apply pay_out_some in Hpay as (A & _). unfold passed_state. cbn [props set_props]. rewrite A.
  eexists. split; [apply find_upd_same; [intros; reflexivity|exact Hf]|reflexivity].
Qed.

(* ================================================================== what a payout event means *)
(* the events are not just labels: the refunds are credited to the depositors, the burns leave the
   supply, and the module account is debited by exactly their sum *)
Fixpoint refunds_to (a : Z) (evs : list event) : Z :=
  match evs with
  | [] => 0
  | EvPay _ d r _ :: rest => (if d =? a then r else 0) + refunds_to a rest
  end.
Fixpoint burns_of (evs : list event) : Z :=
  match evs with [] => 0 | EvPay _ _ _ b :: rest => b + burns_of rest end.
Fixpoint refunds_of (evs : list event) : Z :=
  match evs with [] => 0 | EvPay _ _ r _ :: rest => r + refunds_of rest end.

Lemma refund_all_at : forall l b a id, a <> gov_acct ->
  refund_all b l a = b a + refunds_to a (map (fun da => EvPay id (fst da) (snd da) 0) l).
Proof.
  induction l as [|[d x] r IH]; cbn; intros b a id Ha; [lia|].
  destruct (d =? gov_acct) eqn:G.
  - apply Z.eqb_eq in G. subst d. rewrite (IH _ a id Ha).
    destruct (gov_acct =? a) eqn:E; [apply Z.eqb_eq in E; congruence|lia].
  - rewrite (IH _ a id Ha). unfold bal_add. rewrite (Z.eqb_sym d a). destruct (a =? d); lia.
Qed.

(* refunds reach every depositor's account (the module account's own record is a transfer to itself),
   burns leave the supply, and the module account is debited by what really left it *)
Theorem pay_out_accounting : forall s p burn s1 ev,
  pay_out s p burn = Some (s1, ev) ->
  (forall a, a <> gov_acct -> bal s1 a = bal s a + refunds_to a ev) /\
  burned s1 = burned s + burns_of ev /\
  gov_bal s1 = gov_bal s - (refunds_of ev + burns_of ev) + (if burn then 0 else gov_part (p_deps p)) /\
  refunds_of ev + burns_of ev = sum_deps (p_deps p).
Proof.
  unfold pay_out. intros until ev. destruct burn.
  - destruct (gov_bal s <? sum_deps (p_deps p)); [discriminate|]. intro H; inversion H; subst; cbn.
    assert (A : forall l, (forall a, refunds_to a (map (fun da => EvPay (p_id p) (fst da) 0 (snd da)) l) = 0)
                      /\ burns_of (map (fun da => EvPay (p_id p) (fst da) 0 (snd da)) l) = sum_deps l
                      /\ refunds_of (map (fun da => EvPay (p_id p) (fst da) 0 (snd da)) l) = 0).
    { induction l as [|[d x] r (I1 & I2 & I3)]; cbn; [auto|]. repeat split.
      - intro a. rewrite I1. destruct (d =? a); reflexivity.
      - lia.
      - lia. }
    destruct (A (p_deps p)) as (A1 & A2 & A3). repeat split; intros; rewrite ?A1, ?A2, ?A3; lia.
  - destruct ((gov_bal s <? before_part (p_deps p) + gov_part (p_deps p)) || (gov_bal s <? sum_deps (p_deps p) - gov_part (p_deps p)));
      [discriminate|].
    intro H; inversion H; subst; cbn.
    assert (A : forall l, burns_of (map (fun da => EvPay (p_id p) (fst da) (snd da) 0) l) = 0
                      /\ refunds_of (map (fun da => EvPay (p_id p) (fst da) (snd da) 0) l) = sum_deps l).
    { induction l as [|[d x] r (I2 & I3)]; cbn; [auto|]. split; lia. }
    destruct (A (p_deps p)) as (A2 & A3). repeat split; intros; rewrite ?A2, ?A3; try lia.
    now apply refund_all_at.
Qed.
