(* P_Gov3.v — concrete histories for property C15: witnesses refuting the parts of the property
   that the code (and, for two corners, even the intended rule) does not satisfy, and non-vacuity
   examples for the universally quantified theorems.  Everything here is decided by vm_compute. *)
From Coq Require Import ZArith List Bool Lia.
From FxV Require Import lib.Dec model.M_Gov proofs.P_Gov proofs.P_Gov2.
Import ListNotations.
Open Scope Z_scope.

Definition E18 : Z := 1000000000000000000.
Definition FXu (n : Z) : Z := n * E18.
Definition day : Z := 86400.

(* fx-core's default governance parameters (app/genesis.go over the SDK defaults), with the
   expedited minimum in the deposit denomination *)
Definition P0 : params :=
  {| min_deposit := FXu 10000; exp_min_deposit := FXu 50000;
     max_deposit_period := 14 * day; voting_period := 14 * day; exp_voting_period := day;
     quorum := 400000000000000000; threshold := 500000000000000000;
     exp_threshold := 667000000000000000; veto_threshold := 334000000000000000;
     min_initial_ratio := 0; min_deposit_ratio := 10000000000000000;
     cancel_ratio := 500000000000000000; cancel_dest := DBurn;
     burn_prevote := false; burn_quorum := false; burn_veto := true;
     bad_inactive_dequeued := false; bad_active_dequeued_by_key := false |}.

(* x/gov/types/params.go: EGF 10% / 14 days / 40%; erc20 types 0% / 7 days / 25% *)
Definition ty_toggle : Z := 4.
Definition ty_text : Z := 5.
Definition ty_send : Z := 2.
Definition cust0 : list (Z * cparams) :=
  [(ty_egf, {| c_ratio := 100000000000000000; c_period := 14 * day; c_quorum := 400000000000000000 |});
   (ty_toggle, {| c_ratio := 0; c_period := 7 * day; c_quorum := 250000000000000000 |})].

Definition bal0 : Z -> Z := fun _ => FXu 1000000.

Definition egf_msg (req : coins) : msg := {| m_type := ty_egf; m_spend := req; m_act := AOk 1 |}.
Definition toggle_msg : msg := {| m_type := ty_toggle; m_spend := []; m_act := AOk 2 |}.
Definition text_msg : msg := {| m_type := ty_text; m_spend := []; m_act := AOk 3 |}.
Definition fail_msg : msg := {| m_type := ty_toggle; m_spend := []; m_act := AFail |}.
Definition send_msg (to amt : Z) : msg := {| m_type := ty_send; m_spend := []; m_act := AGovSend to amt |}.

(* three validators with 100, 100 and 100 units of stake; validator 0 votes *)
Definition stk0 : staking :=
  {| st_vals := [(0, FXu 100, FXu 100 * E18); (1, FXu 100, FXu 100 * E18); (2, FXu 100, FXu 100 * E18)];
     st_dels := [(0, 0, FXu 100 * E18); (1, 1, FXu 100 * E18); (2, 2, FXu 100 * E18)];
     st_total_bonded := FXu 300; st_time := 0 |}.

Definition yes : list (Z * Z) := [(1, E18)].

(* ------------------------------------------------------------------ 1. per-type rules, as coded *)
(* a 1,000,000 FX community-pool spend and an erc20 proposal, each submitted with the default
   minimum; validator 0 (a third of the stake) votes yes on the erc20 proposal *)
Definition h_types : list op :=
  [OSubmit 10 10 [egf_msg [(fx, FXu 1000000)]] (FXu 10000) false true false;
   OSubmit 10 11 [toggle_msg] (FXu 10000) false true false;
   OVote 2 0 yes false;
   OEndBlock (10 + 7 * day) stk0].

Definition find_in (kf : keyfun) (ops : list op) (id : Z) : option proposal :=
  find_prop id (props (fst (run P0 kf (init bal0 cust0) ops))).

(* (status, total deposit, voting start, voting end, expedited, quorum used at the last tally) *)
Definition view (kf : keyfun) (ops : list op) (id : Z) :=
  option_map (fun p => (p_status p, p_total p, p_vstart p, p_vend p, p_expedited p, p_quorum_used p))
             (find_in kf ops id).

Definition q25 : Z := 250000000000000000.
Definition q40 : Z := 400000000000000000.

(* As coded: the spend proposal is in voting with 10,000 FX although the configured share (10%)
   of the 1,000,000 FX it requests is 100,000 FX; the erc20 proposal got 14 days although 7 are
   configured for its type, so after those 7 days it is still in voting. *)
Theorem code_ignores_type_rules :
  view kf_code h_types 1 = Some (SVoting, FXu 10000, 10, 10 + 14 * day, false, 0) /\
  option_map c_ratio (lookup ty_egf cust0) = Some 100000000000000000 /\
  share_of 100000000000000000 (requested [egf_msg [(fx, FXu 1000000)]]) = FXu 100000 /\
  view kf_code h_types 2 = Some (SVoting, FXu 10000, 10, 10 + 14 * day, false, 0) /\
  option_map c_period (lookup ty_toggle cust0) = Some (7 * day).
Proof. vm_compute. repeat split; reflexivity. Qed.

(* the same history under the intended key function: the spend stays in the deposit period, the
   erc20 proposal ends after 7 days and passes with the 25% quorum of its type *)
Theorem fixed_applies_type_rules :
  view kf_fixed h_types 1 = Some (SDeposit, FXu 10000, 0, 0, false, 0) /\
  view kf_fixed h_types 2 = Some (SPassed, FXu 10000, 10, 10 + 7 * day, false, q25).
Proof. vm_compute. repeat split; reflexivity. Qed.

(* quorum: at the end of the 14 days the code actually uses, a third of the stake voted yes —
   above the 25% configured for the type, below the default 40%: rejected with the default *)
Definition h_quorum : list op :=
  [OSubmit 10 11 [toggle_msg] (FXu 10000) false true false;
   OVote 1 0 yes false;
   OEndBlock (10 + 14 * day) stk0].

Theorem code_ignores_type_quorum :
  view kf_code h_quorum 1 = Some (SRejected, FXu 10000, 10, 10 + 14 * day, false, q40) /\
  option_map c_quorum (lookup ty_toggle cust0) = Some q25 /\
  (q25 <=? participation stk0 (with_votes (new_proposal P0 1 10 11 [toggle_msg] false) [(0, yes)])) = true.
Proof. vm_compute. repeat split; reflexivity. Qed.

(* ------------------------------------------------------------------ 2. a send from the module account *)
(* proposal 1 sends 5,000 FX from the governance account; proposal 2 is an unrelated open one *)
Definition h_send : list op :=
  [OSubmit 10 10 [send_msg 12 (FXu 5000)] (FXu 10000) false true false;
   OVote 1 0 yes false; OVote 1 1 yes false; OVote 1 2 yes false;
   OSubmit 3610 11 [text_msg] (FXu 10000) false true false;
   OEndBlock (10 + 14 * day) stk0].

Definition s_send : state := fst (run P0 kf_code (init bal0 cust0) h_send).

Theorem conservation_refuted_by_gov_send :
  view kf_code h_send 1 = Some (SPassed, FXu 10000, 10, 10 + 14 * day, false, q40) /\
  view kf_code h_send 2 = Some (SVoting, FXu 10000, 3610, 3610 + 14 * day, false, 0) /\
  gov_bal s_send = FXu 5000 /\ open_sum (props s_send) = FXu 10000 /\
  (let '(r, s', _) := step P0 kf_code s_send (OEndBlock (3610 + 14 * day) stk0) in
   (r, gov_bal s', open_sum (props s'))) = (RHalt, FXu 5000, FXu 10000).
Proof. vm_compute. repeat split; reflexivity. Qed.

(* ------------------------------------------------------------------ 3. corners of the intended rule *)
(* a dust amount of a second denomination next to the request switches the default minimum off:
   50,000 FX + 1 unit of denom 2 requested, 10% share = {5,000 FX, 0}: in voting with 5,000 FX *)
Definition h_dust : list op :=
  [OSubmit 10 10 [egf_msg [(fx, FXu 50000); (2, 1)]] (FXu 5000) false true false].

Theorem fixed_dust_refuted :
  view kf_fixed h_dust 1 = Some (SVoting, FXu 5000, 10, 10 + 14 * day, false, 0) /\
  (FXu 5000 <? min_deposit P0) = true.
Proof. vm_compute. repeat split; reflexivity. Qed.

(* a request in another denomination only, with a share that rounds to zero: any deposit activates *)
Definition h_foreign : list op :=
  [OSubmit 10 10 [egf_msg [(3, 4)]] (FXu 100) false true false].

Theorem fixed_foreign_refuted :
  view kf_fixed h_foreign 1 = Some (SVoting, FXu 100, 10, 10 + 14 * day, false, 0).
Proof. vm_compute. reflexivity. Qed.

(* an expedited proposal that fails its first tally is re-scheduled with params.VotingPeriod,
   not with the period configured for its type *)
Definition h_conv : list op :=
  [OSubmit 10 10 [toggle_msg] (FXu 50000) true true false;
   OEndBlock (10 + 7 * day) stk0].

Theorem fixed_conversion_uses_default_period :
  view kf_fixed (firstn 1 h_conv) 1 = Some (SVoting, FXu 50000, 10, 10 + 7 * day, true, 0) /\
  view kf_fixed h_conv 1 = Some (SVoting, FXu 50000, 10, 10 + 14 * day, false, q25).
Proof. vm_compute. repeat split; reflexivity. Qed.

(* ------------------------------------------------------------------ non-vacuity *)
(* five concurrent proposals of different types: one passes and applies its messages, one passes
   but its second message fails, one is cancelled, one never reaches the minimum, one is vetoed *)
Definition stk1 : staking :=
  {| st_vals := [(0, FXu 100, FXu 100 * E18); (1, FXu 95, FXu 100 * E18); (2, FXu 100, FXu 100 * E18)];
     st_dels := [(0, 0, FXu 100 * E18); (1, 1, FXu 100 * E18); (2, 2, FXu 100 * E18);
                 (13, 1, FXu 40 * E18); (14, 2, 33333333333333333333 * E18)];
     st_total_bonded := FXu 295 + FXu 38 + 33333333333333333333; st_time := 0 |}.

Definition h_main : list op :=
  [OSubmit 10 10 [text_msg] (FXu 9900) false true false;
   ODeposit 15 1 11 (FXu 100) false;                                   (* exactly reaches the minimum *)
   OSubmit 20 11 [toggle_msg; fail_msg] (FXu 10000) false true false;
   OSubmit 25 12 [egf_msg [(fx, FXu 500)]] (FXu 100) false true false;   (* stays in deposit *)
   OSubmit 30 13 [text_msg] (FXu 10000) false true false;
   OSubmit 35 14 [toggle_msg] (FXu 2000) false true false;
   ODeposit 40 5 15 (FXu 8000) false;
   OSubmit 41 10 [text_msg; toggle_msg] (FXu 10000) false true false;    (* mixed: refused *)
   OVote 1 0 yes false; OVote 1 13 [(1, 600000000000000000); (3, 400000000000000000)] true;
   OVote 1 2 yes false;
   OVote 2 0 yes false; OVote 2 1 yes false; OVote 2 2 yes false;
   OVote 5 0 [(4, E18)] false; OVote 5 1 [(4, E18)] false; OVote 5 2 yes false;
   OCancel 50 4 13;
   OSetCustom true ty_text {| c_ratio := 0; c_period := day; c_quorum := 900000000000000000 |};
   OEndBlock (41 + 14 * day) stk1].

Definition final_main := run P0 kf_code (init bal0 cust0) h_main.

Theorem main_history_nonvacuous :
  Forall op_no_govsend h_main /\
  map (fun p => (p_id p, p_status p)) (props (fst final_main))
    = [(1, SPassed); (2, SFailed); (3, SDropped); (4, SCancelled); (5, SRejected)] /\
  gov_bal (fst final_main) = 0 /\ open_sum (props (fst final_main)) = 0 /\
  ext (fst final_main) = [3] /\
  pays 1 (snd final_main) = [(10, FXu 9900); (11, FXu 100)] /\
  pays 5 (snd final_main) = [(14, FXu 2000); (15, FXu 8000)] /\
  burned (fst final_main) = FXu 5000 + FXu 10000 /\
  bal (fst final_main) 14 = FXu 1000000 - FXu 2000 /\
  bal (fst final_main) 10 = FXu 1000000.
Proof.
  split; [repeat constructor|]. vm_compute. repeat split; reflexivity.
Qed.

(* in the middle of it, with four proposals open at once, the account holds their deposits *)
Theorem main_history_midway :
  let s := fst (run P0 kf_code (init bal0 cust0) (firstn 7 h_main)) in
  gov_bal s = FXu 10000 + FXu 10000 + FXu 100 + FXu 10000 + FXu 10000 /\
  gov_bal s = open_sum (props s) /\
  map snd (inactive_queue (props s)) = [3] /\ map snd (active_queue (props s)) = [1; 2; 4; 5].
Proof. vm_compute. repeat split; reflexivity. Qed.

(* the premises of atomic_execution are met by proposal 2 of that history *)
Theorem atomic_nonvacuous :
  let s := fst (run P0 kf_code (init bal0 cust0) (firstn 19 h_main)) in
  match find_prop 2 (props s) with
  | Some p =>
      let v := tally P0 kf_code (custom s) stk1 p in
      (p_status p, passes v, p_msgs p) = (SVoting, true, [toggle_msg] ++ fail_msg :: []) /\
      match pay_out s p (burns v) with
      | Some (s1, _) =>
          match exec_msgs (xenv_of P0 kf_code stk1 2) (passed_state s1 2 v) [toggle_msg] with
          | Some si => ext si = 2 :: ext s1 /\ exec_one (xenv_of P0 kf_code stk1 2) si fail_msg = None
          | None => False
          end
      | None => False
      end
  | None => False
  end.
Proof. vm_compute. repeat split; reflexivity. Qed.

(* the premises of fixed_activation_egf are met: 1,000,000 FX requested, activated exactly at
   the 100,000 FX share by a second deposit, not one unit earlier *)
Definition h_share : list op :=
  [OSubmit 10 10 [egf_msg [(fx, FXu 600000)]; egf_msg [(fx, FXu 400000)]] (FXu 10000) false true false;
   ODeposit 20 1 11 (FXu 90000 - 1) false].

Theorem share_nonvacuous :
  view kf_fixed h_share 1 = Some (SDeposit, FXu 100000 - 1, 0, 0, false, 0) /\
  view kf_fixed (h_share ++ [ODeposit 30 1 12 (FXu 100) false]) 1
    = Some (SVoting, FXu 100100 - 1, 30, 30 + 14 * day, false, 0) /\
  option_map p_act_req (find_in kf_fixed (h_share ++ [ODeposit 30 1 12 (FXu 100) false]) 1) = Some [(fx, FXu 100000)].
Proof. vm_compute. repeat split; reflexivity. Qed.

(* ------------------------------------------------------------------ undecodable proposal records (finding C15-3) *)
Definition P0fix : params :=
  {| min_deposit := min_deposit P0; exp_min_deposit := exp_min_deposit P0;
     max_deposit_period := max_deposit_period P0; voting_period := voting_period P0;
     exp_voting_period := exp_voting_period P0; quorum := quorum P0; threshold := threshold P0;
     exp_threshold := exp_threshold P0; veto_threshold := veto_threshold P0;
     min_initial_ratio := min_initial_ratio P0; min_deposit_ratio := min_deposit_ratio P0;
     cancel_ratio := cancel_ratio P0; cancel_dest := cancel_dest P0;
     burn_prevote := burn_prevote P0; burn_quorum := burn_quorum P0; burn_veto := burn_veto P0;
     bad_inactive_dequeued := true; bad_active_dequeued_by_key := true |}.

(* proposal 1 is in its deposit period, proposal 2 in voting; one of them becomes undecodable *)
Definition h_bad (which : Z) : list op :=
  [OSubmit 10 10 [text_msg] (FXu 5000) false true false;
   OSubmit 10 11 [text_msg] (FXu 10000) false true false;
   OCorrupt which;
   ODeposit 20 which 12 (FXu 5000) false;
   OEndBlock (10 + 14 * day) stk0].

Definition outcome (P : params) (ops : list op) :=
  let s := fst (run P kf_code (init bal0 cust0) ops) in
  (map (fun p => (p_id p, p_status p)) (props s), gov_bal s, bal s 10, bal s 11,
   fst (fst (step P kf_code s (OEndBlock (11 + 14 * day) stk0)))).

(* The explicit PRE-FIX variant (P0 has both dequeue facts false; the tree was repaired in e5a1e24,
   see C15_tree_dequeues_undecodable_by_key): the deposit-period proposal is refunded and deleted, its queue entry stays
   (SStale) and the next end blocker fails; the voting-period proposal makes the end blocker fail at
   once (the state stays as it was: that block can never be finalized). *)
Theorem undecodable_refuted :
  outcome P0 (h_bad 1) = ([(1, SStale); (2, SRejected)], 0, FXu 1000000, FXu 1000000, RHalt) /\
  (let s := fst (run P0 kf_code (init bal0 cust0) (firstn 4 (h_bad 2))) in
   fst (fst (step P0 kf_code s (OEndBlock (10 + 14 * day) stk0))) = RHalt) /\
  fst (fst (step P0 kf_code (fst (run P0 kf_code (init bal0 cust0) (firstn 3 (h_bad 1)))) (ODeposit 20 1 12 (FXu 5000) false)))
    = RErr EInvalid.
Proof. vm_compute. repeat split; reflexivity. Qed.

(* With the queue entries removed by the walk's key (the proposed patch): refund, deletion resp.
   FAILED status, and the next end blocker runs. *)
Theorem undecodable_designated_outcome :
  outcome P0fix (h_bad 1) = ([(1, SDropped); (2, SRejected)], 0, FXu 1000000, FXu 1000000, ROk) /\
  outcome P0fix (h_bad 2) = ([(1, SDropped); (2, SFailedBad)], 0, FXu 1000000, FXu 1000000, ROk).
Proof. vm_compute. repeat split; reflexivity. Qed.

(* ------------------------------------------------------------------ the module account as depositor (finding C15-2, second shape) *)
Definition pledge_msg (pid amt : Z) : msg := {| m_type := 9; m_spend := []; m_act := AGovDeposit pid amt |}.
Definition stk_at (t : Z) : staking :=
  {| st_vals := st_vals stk0; st_dels := st_dels stk0; st_total_bonded := st_total_bonded stk0; st_time := t |}.

(* proposal 1, voted through, deposits 2,500 FX from the module account into proposal 2, whose real
   depositor is account `who` (10: its address sorts before the module account's, 11: after it) *)
Definition h_pledge (who : Z) : list op :=
  [OSubmit 10 12 [pledge_msg 2 (FXu 2500)] (FXu 10000) false true false;
   OVote 1 0 yes false; OVote 1 1 yes false; OVote 1 2 yes false;
   OSubmit 3610 who [text_msg] (FXu 10000) false true false;
   OEndBlock (10 + 14 * day) (stk_at (10 + 14 * day))].

Definition pledge_outcome (who : Z) :=
  let s := fst (run P0 kf_code (init bal0 cust0) (h_pledge who)) in
  (option_map (fun p => (p_status p, p_total p, p_deps p)) (find_prop 2 (props s)),
   gov_bal s, open_sum (props s), gov_spent s,
   let '(r, s', _) := step P0 kf_code s (OEndBlock (3610 + 14 * day) (stk_at (3610 + 14 * day))) in
   (r, gov_bal s', bal s' who)).

(* After proposal 1 passed: proposal 2 shows 12,500 FX in two records, the account holds 10,000 FX.
   When proposal 2 ends: its depositor sorting BEFORE the module account is refunded first, the
   self-transfer of the pledge then fails and the end blocker with it; sorting AFTER, the
   self-transfer comes first and the block goes through. *)
Theorem conservation_refuted_by_gov_deposit :
  pledge_outcome 10 = (Some (SVoting, FXu 12500, [(10, FXu 10000); (gov_acct, FXu 2500)]),
                       FXu 10000, FXu 12500, FXu 2500, (RHalt, FXu 10000, FXu 990000)) /\
  pledge_outcome 11 = (Some (SVoting, FXu 12500, [(11, FXu 10000); (gov_acct, FXu 2500)]),
                       FXu 10000, FXu 12500, FXu 2500, (ROk, 0, FXu 1000000)).
Proof. vm_compute. split; reflexivity. Qed.
