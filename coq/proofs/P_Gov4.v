(* P_Gov4.v — proofs about model.M_Gov (property C15), part 4:
   histories in which the governance Params themselves are replaced in between (grun), which
   parameter value applies at which moment, and conservation of value (supply). *)
From Coq Require Import ZArith List Bool Lia.
From FxV Require Import lib.Dec model.M_Gov proofs.P_Gov proofs.P_Gov2 proofs.P_Gov3.
Import ListNotations.
Open Scope Z_scope.

(* ================================================================== invariants carry over to grun *)
Definition gop_no_govsend (g : gop) : Prop :=
  match g with GOp o => op_no_govsend o | GSetParams _ _ _ => True end.

Lemma gstep_set_params : forall kf P s a v P' r ps' ev,
  gstep kf (P, s) (GSetParams a v P') = (r, ps', ev) ->
  snd ps' = s /\ ev = [] /\ (fst ps' = P \/ (fst ps' = P' /\ r = ROk /\ a = true /\ v = true)).
Proof.
  intros until ev. cbn. destruct a; cbn; [|intro H; inversion H; auto].
  destruct v; cbn; intro H; inversion H; subst; cbn; auto 7.
Qed.

Section GInv.
Variable kf : keyfun.
Variable Inv : state -> Prop.
Variable G : op -> Prop.
Hypothesis Inv_step : forall P s o r s' ev, Inv s -> G o -> step P kf s o = (r, s', ev) -> Inv s'.

Definition gG (g : gop) : Prop := match g with GOp o => G o | GSetParams _ _ _ => True end.

Lemma gstep_inv : forall ps g r ps' ev,
  Inv (snd ps) -> gG g -> gstep kf ps g = (r, ps', ev) -> Inv (snd ps').
Proof.
  intros [P s] g r ps' ev I Hg. destruct g as [o|a v P'].
  - cbn. destruct (step P kf s o) as [[r0 s0] e0] eqn:E. intro H; inversion H; subst. cbn. eapply Inv_step; eauto.
  - intro H. apply gstep_set_params in H as (-> & _). exact I.
Qed.

Lemma grun_inv : forall gops ps ps' ev,
  Inv (snd ps) -> Forall gG gops -> grun kf ps gops = (ps', ev) -> Inv (snd ps').
Proof.
  induction gops as [|g r IH]; cbn; intros ps ps' ev I F H.
  - inversion H; subst; assumption.
  - inversion F; subst.
    destruct (gstep kf ps g) as [[r0 ps1] e1] eqn:E. destruct (grun kf ps1 r) as [ps2 e2] eqn:E2.
    inversion H; subst. eapply IH; [|eassumption|exact E2]. eapply gstep_inv; eauto.
Qed.
End GInv.

Lemma Forall_True : forall {A} (l : list A) (Q : A -> Prop), (forall x, Q x) -> Forall Q l.
Proof. intros. apply Forall_forall. auto. Qed.

Lemma grun_wf : forall kf gops P b c ps ev,
  grun kf (P, init b c) gops = (ps, ev) -> wf (snd ps).
Proof.
  intros. eapply (grun_inv kf wf (fun _ => True)); [| |apply Forall_True|exact H].
  - intros; eapply step_wf; eauto.
  - apply init_wf.
  - intros []; exact I.
Qed.

Lemma grun_quiet : forall kf gops P b c ps ev,
  Forall gop_no_govsend gops -> grun kf (P, init b c) gops = (ps, ev) -> quiet (snd ps).
Proof.
  intros. eapply (grun_inv kf quiet op_no_govsend); [| |exact H|exact H0].
  - intros; eapply step_quiet; eauto.
  - apply init_quiet.
Qed.

(* conservation, with the governance Params changing in between *)
Theorem gconservation_general : forall kf gops P b c ps ev,
  grun kf (P, init b c) gops = (ps, ev) ->
  gov_bal (snd ps) + gov_spent (snd ps) = open_sum (props (snd ps)) /\
  Forall (fun p => p_total p = sum_deps (p_deps p)) (props (snd ps)).
Proof.
  intros. pose proof (grun_wf _ _ _ _ _ _ _ H) as [Wi Wp Wc Ws]. split; [assumption|].
  eapply Forall_impl; [|exact Wp]. intros p [A _]; exact A.
Qed.

Theorem gconservation : forall kf gops P b c ps ev,
  Forall gop_no_govsend gops -> grun kf (P, init b c) gops = (ps, ev) ->
  gov_bal (snd ps) = open_sum (props (snd ps)).
Proof.
  intros. pose proof (gconservation_general _ _ _ _ _ _ _ H0) as [A _].
  pose proof (grun_quiet _ _ _ _ _ _ _ H H0) as [Q _]. lia.
Qed.

Definition gop_no_corrupt (g : gop) : Prop :=
  match g with GOp o => op_no_corrupt o | GSetParams _ _ _ => True end.

Lemma grun_healthy : forall kf gops P b c ps ev,
  Forall gop_no_corrupt gops -> grun kf (P, init b c) gops = (ps, ev) -> healthy (snd ps).
Proof.
  intros. eapply (grun_inv kf healthy op_no_corrupt); [| |exact H|exact H0].
  - intros; eapply step_healthy; eauto.
  - apply init_healthy.
Qed.

Theorem gend_block_never_fails : forall kf gops P b c ps ev t stk,
  Forall gop_no_govsend gops -> Forall gop_no_corrupt gops ->
  grun kf (P, init b c) gops = (ps, ev) ->
  end_block (fst ps) kf t stk (snd ps) <> None.
Proof.
  intros until stk. intros Hg Hc Hr. apply end_block_total.
  - eapply grun_wf; eauto.
  - split; [eapply grun_quiet; eauto|eapply grun_healthy; eauto].
Qed.

(* payout exactly once, with the Params changing in between *)
Lemma grun_ev : forall kf gops ps ps' e evs,
  wf (snd ps) -> ev_inv (props (snd ps)) evs -> grun kf ps gops = (ps', e) ->
  ev_inv (props (snd ps')) (evs ++ e).
Proof.
  induction gops as [|g r IH]; cbn; intros ps ps' e evs W I H.
  - inversion H; subst. now rewrite app_nil_r.
  - destruct (gstep kf ps g) as [[r0 ps1] e1] eqn:E. destruct (grun kf ps1 r) as [ps2 e2] eqn:E2.
    inversion H; subst. rewrite app_assoc. destruct ps as [P s]. destruct g as [o|a v P'].
    + cbn in E. destruct (step P kf s o) as [[r1 s1] e0] eqn:S. inversion E; subst.
      eapply IH; [| |exact E2]; cbn.
      * eapply step_wf; eauto.
      * eapply step_ev; eauto.
    + apply gstep_set_params in E as (Hs & -> & _). rewrite app_nil_r.
      eapply IH; [| |exact E2]; rewrite Hs; assumption.
Qed.

Theorem gpayout_exactly_once : forall kf gops P b c ps evs,
  grun kf (P, init b c) gops = (ps, evs) ->
  forall pid,
    pays pid evs = match find_prop pid (props (snd ps)) with
                   | None => []
                   | Some p => if is_open (p_status p) then [] else p_deps p
                   end.
Proof.
  intros. pose proof (grun_ev kf gops (P, init b c) ps evs [] (init_wf b c)) as R.
  cbn in R. apply R; [|assumption]. intro; reflexivity.
Qed.

(* the generic induction principle over proposal records, with the Params changing in between *)
Theorem gprops_invariant : forall kf (Q : proposal -> Prop),
  (forall P p p', Q p -> evolve1 P kf p p' -> Q p') ->
  (forall P id now pr ms ex, check_msgs ms = true -> Q (new_proposal P id now pr ms ex)) ->
  forall gops P b c ps ev, grun kf (P, init b c) gops = (ps, ev) -> Forall Q (props (snd ps)).
Proof.
  intros kf Q He Hn gops P b c ps ev H.
  eapply (grun_inv kf (fun s => Forall Q (props s)) (fun _ => True)); [| |apply Forall_True|exact H].
  - intros P0 s o r s' e F _ S. eapply (step_Q P0 kf Q); eauto.
  - constructor.
  - intros []; exact I.
Qed.

Theorem gsingle_type : forall kf gops P b c ps ev,
  grun kf (P, init b c) gops = (ps, ev) -> Forall (fun p => same_type (p_msgs p)) (props (snd ps)).
Proof.
  intros kf. apply (gprops_invariant kf (fun p => same_type (p_msgs p))).
  - intros P p p' Hq He. destruct He; cbn; assumption.
  - intros. cbn. now apply check_msgs_spec.
Qed.

(* ================================================================== which value applies when *)
(* a Params update touches no stored proposal: deposit end and voting end times already fixed stay *)
Theorem params_update_touches_nothing : forall kf P s a v P' r ps' ev,
  gstep kf (P, s) (GSetParams a v P') = (r, ps', ev) ->
  snd ps' = s /\ ev = [] /\ (fst ps' = P \/ (fst ps' = P' /\ r = ROk /\ a = true /\ v = true)).
Proof. exact gstep_set_params. Qed.

(* every other operation runs with the Params in force at that moment and leaves them alone *)
Theorem op_uses_current_params : forall kf P s o r ps' ev,
  gstep kf (P, s) (GOp o) = (r, ps', ev) ->
  fst ps' = P /\ step P kf s o = (r, snd ps', ev).
Proof.
  intros until ev. cbn. destruct (step P kf s o) as [[r0 s0] e0]. intro H; inversion H; subst. auto.
Qed.

(* submission: the deposit period and the initial-deposit requirement come from the Params in force
   at submission *)
Theorem params_at_submission : forall P kf now s proposer ms amt ex valid bd s',
  wf s -> submit P kf now s proposer ms amt ex valid bd = (ROk, s') ->
  initial_ok P ex amt = true /\
  exists p, find_prop (next_id s) (props s') = Some p /\
            p_submit p = now /\ p_dep_end p = now + max_deposit_period P /\ p_expedited p = ex.
Proof.
  intros until s'. intros W H. assert (H0 := H). unfold submit in H0.
  destruct (negb (check_msgs ms)); [discriminate|]. destruct ((amt <? 0) || (proposer <? 0)); [discriminate|].
  destruct (initial_ok P ex amt) eqn:I; cbn [negb] in H0; [|discriminate]. split; [reflexivity|]. clear H0.
  apply submit_ok_inv in H as (_ & _ & _ & H). apply add_deposit_ok_inv in H as (p & Hf & Ho & _ & ->).
  cbn [props] in *. rewrite find_prop_app, (find_prop_none_fresh _ _ (wf_ids _ W)) in Hf.
  cbn in Hf. rewrite Z.eqb_refl in Hf. inversion Hf; subst p.
  eexists. split.
  - apply find_upd_same; [intros; reflexivity|].
    rewrite find_prop_app, (find_prop_none_fresh _ _ (wf_ids _ W)). cbn. rewrite Z.eqb_refl. reflexivity.
  - cbn. auto.
Qed.

(* activation: minimum deposit (regular / expedited) and voting period (regular / expedited, unless the
   custom-parameter lookup answers) come from the Params in force when the completing deposit is made;
   later Params updates do not move the voting end (params_update_touches_nothing) *)
Theorem params_at_activation : forall P kf cust now d a p,
  p_status p = SDeposit -> p_status (deposited P kf cust now d a p) = SVoting ->
  let p' := deposited P kf cust now d a p in
  is_all_gte (coins_of_fx (p_total p')) (egf_min kf cust [(fx, min_for P p)] (p_msgs p)) = true /\
  p_vend p' = now + period_for P kf cust p /\
  (lookup (kf_key kf (p_msgs p)) cust = None ->
   p_vend p' = now + (if p_expedited p then exp_voting_period P else voting_period P)).
Proof.
  intros P kf cust now d a p Hs Hv. destruct (activation_step _ _ _ _ _ _ _ Hs Hv) as (A & _ & B & _).
  cbv zeta. repeat split; auto. intro L. rewrite B. unfold period_for. rewrite L. reflexivity.
Qed.

(* tally: quorum (unless the custom lookup answers), thresholds, veto threshold and the burn flags come
   from the Params in force in the tallying block; an expedited conversion uses that block's
   params.VotingPeriod *)
Theorem params_at_tally : forall P kf cust stk p,
  let v := tally P kf cust stk p in
  (lookup (kf_key kf (p_msgs p)) cust = None -> q_used v = quorum P) /\
  (passes v = true ->
   (if p_expedited p then exp_threshold P else threshold P)
     < dec_quo (a_yes (tally_acc stk p)) (a_total (tally_acc stk p) - a_abstain (tally_acc stk p)) /\
   dec_quo (a_veto (tally_acc stk p)) (a_total (tally_acc stk p)) <= veto_threshold P) /\
  (burns v = true -> (burn_quorum P = true \/ burn_veto P = true)) /\
  p_vend (converted P p v) = p_vstart p + voting_period P.
Proof.
  intros. subst v. unfold tally.
  set (q := quorum_for P kf cust p).
  assert (Q : lookup (kf_key kf (p_msgs p)) cust = None -> q = quorum P).
  { intro L. unfold q, quorum_for. rewrite L. reflexivity. }
  destruct (st_total_bonded stk =? 0); [repeat split; auto; discriminate|].
  destruct (participation stk p <? q); [repeat split; cbn; auto; try discriminate; intros ->; auto|].
  destruct (a_total (tally_acc stk p) - a_abstain (tally_acc stk p) =? 0); [repeat split; auto; discriminate|].
  destruct (veto_threshold P <? dec_quo (a_veto (tally_acc stk p)) (a_total (tally_acc stk p))) eqn:V;
    [repeat split; cbn; auto; try discriminate; intros ->; auto|].
  apply Z.ltb_ge in V.
  destruct ((if p_expedited p then exp_threshold P else threshold P) <? _) eqn:T;
    repeat split; cbn; auto; try discriminate.
  apply Z.ltb_lt in T. exact T.
Qed.

(* the end blocker refunds or burns according to the flags in force in that block *)
Theorem params_at_drop : forall P s id p s' ev,
  process_inactive P s id = Some (s', ev) -> find_prop id (props s) = Some p -> p_status p = SDeposit ->
  ev = map (fun da => EvPay (p_id p) (fst da) (if burn_prevote P then 0 else snd da)
                            (if burn_prevote P then snd da else 0)) (p_deps p).
Proof.
  unfold process_inactive. intros until ev. intros H Hf Hs. rewrite Hf, Hs in H.
  destruct (pay_out s p (burn_prevote P)) as [[s1 e1]|] eqn:Hp; [|discriminate].
  inversion H; subst. now apply pay_out_some in Hp as (_ & _ & _ & _ & _ & _ & ->).
Qed.

(* ================================================================== conservation of value *)
(* Over a finite set A of accounts that contains everybody involved: what the accounts, the module
   account, the burn sink and the community pool hold together changes only by outside credits
   (OBank).  Burned deposits leave circulation (they move to `burned`), refunds do not. *)
Fixpoint sumb (A : list Z) (b : Z -> Z) : Z :=
  match A with [] => 0 | a :: r => b a + sumb r b end.

Definition value (A : list Z) (s : state) : Z := sumb A (bal s) + gov_bal s + burned s + pool_in s.

Lemma sumb_add_notin : forall A b a d, ~ In a A -> sumb A (bal_add b a d) = sumb A b.
Proof.
  induction A as [|x r IH]; cbn; intros b a d H; [reflexivity|].
  unfold bal_add at 1. destruct (x =? a) eqn:E; [apply Z.eqb_eq in E; subst; exfalso; auto|].
  rewrite IH by auto. reflexivity.
Qed.

Lemma sumb_add_in : forall A b a d, NoDup A -> In a A -> sumb A (bal_add b a d) = sumb A b + d.
Proof.
  induction A as [|x r IH]; cbn; intros b a d N H; [contradiction|].
  inversion N; subst. unfold bal_add at 1. destruct (x =? a) eqn:E.
  - apply Z.eqb_eq in E; subst. rewrite sumb_add_notin by assumption. lia.
  - destruct H as [->|H]; [rewrite Z.eqb_refl in E; discriminate|]. rewrite IH by assumption. lia.
Qed.

(* every depositor is in A — or is the module account itself, whose own records move nothing *)
Definition deps_in (A : list Z) (l : list (Z * Z)) : Prop :=
  Forall (fun da => fst da = gov_acct \/ In (fst da) A) l.

Lemma sumb_refund_all : forall A l b, NoDup A -> deps_in A l ->
  sumb A (refund_all b l) = sumb A b + (sum_deps l - gov_part l).
Proof.
  induction l as [|[d a] r IH]; cbn; intros b N F; [lia|].
  inversion F; subst. destruct (d =? gov_acct) eqn:G.
  - rewrite IH by assumption. lia.
  - rewrite IH by assumption. cbn in H1. destruct H1 as [H1|H1]; [apply Z.eqb_neq in G; contradiction|].
    rewrite sumb_add_in by assumption. lia.
Qed.

Lemma sumb_refund_rest : forall A rate l b, NoDup A -> deps_in A l ->
  sumb A (refund_rest rate b l) = sumb A b + (sum_deps (rest_of rate l) - gov_part (rest_of rate l)).
Proof.
  unfold rest_of. induction l as [|[d a] r IH]; cbn [refund_rest map sum_deps gov_part fst snd]; intros b N F; [lia|].
  inversion F; subst. destruct (d =? gov_acct) eqn:G.
  - rewrite IH by assumption. lia.
  - rewrite IH by assumption. cbn in H1. destruct H1 as [H1|H1]; [apply Z.eqb_neq in G; contradiction|].
    rewrite sumb_add_in by assumption. lia.
Qed.

Definition msg_in (A : list Z) (m : msg) : Prop :=
  match m_act m with AGovSend to _ => In to A | _ => True end.

Definition prop_in (A : list Z) (p : proposal) : Prop :=
  deps_in A (p_deps p) /\ Forall (msg_in A) (p_msgs p).

Definition closed_in (A : list Z) (s : state) : Prop := Forall (prop_in A) (props s).

Definition op_in (A : list Z) (o : op) : Prop :=
  match o with
  | OSubmit _ proposer ms _ _ _ _ => In proposer A /\ Forall (msg_in A) ms
  | ODeposit _ _ d _ _ => In d A
  | OBank a _ => In a A
  | _ => True
  end.

Definition params_in (A : list Z) (P : params) : Prop :=
  match cancel_dest P with DAcct a => In a A | _ => True end.

Definition inflow (o : op) (r : result) : Z :=
  match o, r with OBank _ d, ROk => d | _, _ => 0 end.

Lemma deps_in_add : forall A d a l, d = gov_acct \/ In d A -> deps_in A l -> deps_in A (add_dep d a l).
Proof.
  induction l as [|[d' a'] r IH]; cbn; intros Hd F.
  - constructor; [assumption|constructor].
  - inversion F; subst. cbn in *. destruct (d' =? d).
    + constructor; [cbn; assumption|assumption].
    + constructor; [cbn; assumption|apply IH; assumption].
Qed.

Lemma closed_upd : forall A s s1 id g,
  closed_in A s -> props s1 = props s ->
  (forall q, p_deps (g q) = p_deps q /\ p_msgs (g q) = p_msgs q) ->
  closed_in A (set_props s1 (upd_prop id g (props s1))).
Proof.
  intros A s s1 id g C Hp Hg. unfold closed_in. cbn. rewrite Hp.
  apply Forall_upd; [assumption|]. intros q Hq. destruct (Hg q) as [D M].
  unfold closed_in in C. rewrite Forall_forall in C. destruct (C q (find_prop_In _ _ _ Hq)).
  split; [rewrite D|rewrite M]; assumption.
Qed.

Lemma exec_msgs_value : forall A e ms s s', NoDup A -> Forall (msg_in A) ms -> closed_in A s ->
  exec_msgs e s ms = Some s' -> value A s' = value A s /\ closed_in A s'.
Proof.
  intros A e. induction ms as [|m r IH]; cbn; intros s s' N F C H.
  - inversion H; subst; auto.
  - inversion F; subst. destruct (exec_one e s m) as [s1|] eqn:E; [|discriminate].
    assert (V1 : value A s1 = value A s /\ closed_in A s1).
    { unfold exec_one, msg_in in *. destruct (m_act m) as [tag| |to amt|pid amt].
      - inversion E; subst. split; [reflexivity|exact C].
      - discriminate.
      - destruct ((0 <? amt) && (amt <=? gov_bal s)); [|discriminate]. inversion E; subst.
        split; [|exact C]. unfold value; cbn. rewrite sumb_add_in by assumption. lia.
      - apply gov_deposit_inv in E as [->|(p & Hf & _ & _ & _ & _ & ->)]; [auto|].
        split; [reflexivity|]. unfold closed_in in *. cbn. apply Forall_upd; [assumption|]. intros q Hq.
        rewrite Forall_forall in C. destruct (C q (find_prop_In _ _ _ Hq)).
        split; cbn; [apply deps_in_add; auto|assumption]. }
    destruct V1 as [V1 C1]. destruct (IH _ _ N H3 C1 H) as [V2 C2]. split; [lia|assumption].
Qed.

Lemma pay_out_value : forall A s p burn s1 ev, NoDup A -> deps_in A (p_deps p) ->
  pay_out s p burn = Some (s1, ev) -> value A s1 = value A s.
Proof.
  unfold pay_out. intros until ev. intros N D. destruct burn.
  - destruct (gov_bal s <? sum_deps (p_deps p)); [discriminate|].
    intro H; inversion H; subst; unfold value; cbn. lia.
  - destruct ((gov_bal s <? before_part (p_deps p) + gov_part (p_deps p)) || (gov_bal s <? sum_deps (p_deps p) - gov_part (p_deps p)));
      [discriminate|].
    intro H; inversion H; subst; unfold value; cbn. rewrite sumb_refund_all by assumption. lia.
Qed.

Lemma value_set_props : forall A s ps, value A (set_props s ps) = value A s.
Proof. reflexivity. Qed.

Lemma process_inactive_value : forall A P s id s' ev, NoDup A -> closed_in A s ->
  process_inactive P s id = Some (s', ev) -> value A s' = value A s /\ closed_in A s'.
Proof.
  unfold process_inactive. intros until ev. intros N C.
  destruct (find_prop id (props s)) as [p|] eqn:Hf; [|intro H; inversion H; subst; auto].
  assert (D : prop_in A p).
  { unfold closed_in in C. rewrite Forall_forall in C. apply C. eapply find_prop_In; eauto. }
  destruct (p_status p); try solve [intro H; inversion H; subst; auto]; try discriminate.
  - destruct (pay_out s p (burn_prevote P)) as [[s1 e1]|] eqn:Hp; [|discriminate].
    intro H; inversion H; subst. rewrite value_set_props.
    split; [eapply pay_out_value; [exact N|apply D|exact Hp]|].
    apply pay_out_some in Hp as (Hpr & _). eapply closed_upd; [exact C|exact Hpr|]. intros; split; reflexivity.
  - destruct (pay_out s p false) as [[s1 e1]|] eqn:Hp; [|discriminate].
    intro H; inversion H; subst. rewrite value_set_props.
    split; [eapply pay_out_value; [exact N|apply D|exact Hp]|].
    apply pay_out_some in Hp as (Hpr & _). eapply closed_upd; [exact C|exact Hpr|]. intros; split; reflexivity.
Qed.

Lemma process_active_value : forall A P kf stk s id s' ev, NoDup A -> closed_in A s ->
  process_active P kf stk s id = Some (s', ev) -> value A s' = value A s /\ closed_in A s'.
Proof.
  unfold process_active. intros until ev. intros N C.
  destruct (find_prop id (props s)) as [p|] eqn:Hf; [|intro H; inversion H; subst; auto].
  assert (D : prop_in A p).
  { unfold closed_in in C. rewrite Forall_forall in C. apply C. eapply find_prop_In; eauto. }
  destruct (p_status p); try solve [intro H; inversion H; subst; auto].
  2:{ destruct (bad_active_dequeued_by_key P); [|discriminate].
      destruct (pay_out s p false) as [[s1 e1]|] eqn:Hp; [|discriminate].
      intro H; inversion H; subst. rewrite value_set_props.
      split; [eapply pay_out_value; [exact N|apply D|exact Hp]|].
      apply pay_out_some in Hp as (Hpr & _). eapply closed_upd; [exact C|exact Hpr|]. intros; split; reflexivity. }
  set (v := tally P kf (custom s) stk p).
  assert (K : forall q : proposal -> proposal,
             (forall x, p_deps (q x) = p_deps x /\ p_msgs (q x) = p_msgs x) ->
             forall s1, props s1 = props s -> closed_in A (set_props s1 (upd_prop id q (props s1)))).
  { intros q Hq s1 Hs1. eapply closed_upd; [exact C|exact Hs1|exact Hq]. }
  destruct (p_expedited p && negb (passes v)).
  { intro H; inversion H; subst. split; [reflexivity|]. apply K; [intros; split; reflexivity|reflexivity]. }
  destruct (pay_out s p (burns v)) as [[s1 e1]|] eqn:Hp; [|discriminate].
  pose proof (pay_out_value A _ _ _ _ _ N (proj1 D) Hp) as V1.
  apply pay_out_some in Hp as (Hpr & _).
  destruct (passes v).
  - match goal with |- context [exec_msgs ?e ?sp ?ms] => destruct (exec_msgs e sp ms) as [s2|] eqn:He end.
    + intro H; inversion H; subst.
      assert (CP : closed_in A (set_props s1 (upd_prop id (fun q => tallied q SPassed v) (props s1))))
        by (apply K; [intros; split; reflexivity|assumption]).
      destruct (exec_msgs_value A _ _ _ _ N (proj2 D) CP He) as [V2 C2].
      rewrite value_set_props in V2. split; [lia|assumption].
    + intro H; inversion H; subst. rewrite value_set_props. split; [assumption|].
      apply K; [intros; split; reflexivity|assumption].
  - intro H; inversion H; subst. rewrite value_set_props. split; [assumption|].
    apply K; [intros; split; reflexivity|assumption].
Qed.

Lemma fold_ids_value : forall A f, 
  (forall s id s' ev, closed_in A s -> f s id = Some (s', ev) -> value A s' = value A s /\ closed_in A s') ->
  forall ids s s' ev, closed_in A s -> fold_ids f ids s = Some (s', ev) ->
  value A s' = value A s /\ closed_in A s'.
Proof.
  intros A f Hf. induction ids as [|id r IH]; cbn; intros s s' ev C H.
  - inversion H; subst; auto.
  - destruct (f s id) as [[s1 e1]|] eqn:E; [|discriminate].
    destruct (fold_ids f r s1) as [[s2 e2]|] eqn:E2; [|discriminate].
    inversion H; subst. destruct (Hf _ _ _ _ C E) as [V1 C1]. destruct (IH _ _ _ C1 E2) as [V2 C2].
    split; [lia|assumption].
Qed.

Lemma sum_charges_le : forall rate l, sum_deps l - sum_charges rate l + sum_charges rate l = sum_deps l.
Proof. intros; lia. Qed.

Theorem step_value : forall A P kf s o r s' ev,
  NoDup A -> closed_in A s -> op_in A o -> params_in A P ->
  step P kf s o = (r, s', ev) ->
  value A s' = value A s + inflow o r /\ closed_in A s'.
Proof.
  intros A P kf s o r s' ev N C Ho HP. destruct o; cbn [step].
  - destruct (submit P kf now s proposer ms amt expedited valid bad_denom) as [r0 s0] eqn:E.
    intro H; injection H as <- <- <-. cbn [inflow]. destruct r0;
      try (apply submit_err in E; [subst; split; [lia|assumption]|discriminate]).
    destruct Ho as [Hpr Hms].
    apply submit_ok_inv in E as (_ & _ & _ & E). apply add_deposit_ok_inv in E as (p & Hf & _ & _ & ->).
    split.
    + unfold value; cbn. rewrite sumb_add_in by assumption. lia.
    + unfold closed_in in *. cbn. apply Forall_upd.
      * apply Forall_app; split; [assumption|]. constructor; [|constructor]. split; [constructor|exact Hms].
      * intros q Hq. cbn in Hq. apply find_prop_In in Hq. apply in_app_or in Hq as [Hq|[<-|[]]].
        -- rewrite Forall_forall in C. destruct (C q Hq). split; cbn; [apply deps_in_add; auto|assumption].
        -- split; cbn; [constructor; [cbn; auto|constructor]|exact Hms].
  - destruct (deposit_msg_invalid amt bad_denom depositor); [intro H; injection H as <- <- <-; split; [cbn; lia|assumption]|].
    destruct (add_deposit P kf now s pid depositor amt bad_denom) as [r0 s0] eqn:E.
    intro H; injection H as <- <- <-. cbn [inflow]. destruct r0;
      try (apply add_deposit_err in E; [subst; split; [lia|assumption]|discriminate]).
    apply add_deposit_ok_inv in E as (p & Hf & _ & _ & ->). cbn in Ho. split.
    + unfold value; cbn. rewrite sumb_add_in by assumption. lia.
    + unfold closed_in in *. cbn. apply Forall_upd; [assumption|]. intros q Hq.
      rewrite Forall_forall in C. destruct (C q (find_prop_In _ _ _ Hq)).
      split; cbn; [apply deps_in_add; auto|assumption].
  - destruct (vote s pid voter opts weighted) as [r0 s0] eqn:E.
    intro H; injection H as <- <- <-. cbn [inflow].
    apply vote_props in E as [->|(p & _ & _ & ->)]; [split; [lia|assumption]|].
    split; [rewrite value_set_props; lia|]. eapply (closed_upd A s s); [exact C|reflexivity|]. intros; split; reflexivity.
  - intro H. cbn [inflow]. assert (H0 := H).
    apply cancel_inv in H as [(_ & -> & _)|(p & _ & Hf & _ & Hb & Hp & _)]; [split; [lia|assumption]|].
    assert (D : prop_in A p).
    { unfold closed_in in C. rewrite Forall_forall in C. apply C. eapply find_prop_In; eauto. }
    split.
    + unfold cancel in H0. rewrite Hf in H0.
      destruct (is_bad (p_status p)); [inversion H0; subst; lia|].
      destruct (is_removed (p_status p)); [inversion H0; subst; lia|].
      destruct (negb (p_proposer p =? proposer)); [inversion H0; subst; lia|].
      destruct (negb (is_open (p_status p))); [inversion H0; subst; lia|].
      destruct (match p_status p with SVoting => p_vend p <? now | _ => false end); [inversion H0; subst; lia|].
      destruct ((cancel_ratio P <? 0) || (prec <? cancel_ratio P)); [inversion H0; subst; lia|].
      match type of H0 with context [if ?c then (RErr EFunds, s, []) else _] => destruct c end; [inversion H0; subst; lia|].
      inversion H0; subst. unfold value; cbn. unfold params_in in HP.
      destruct (cancel_dest P) as [| |a]; cbn;
        rewrite ?sumb_add_in by assumption; rewrite sumb_refund_rest by (auto; apply D); lia.
    + unfold closed_in in *. rewrite Hp. apply Forall_upd; [assumption|]. intros q Hq.
      rewrite Forall_forall in C. apply (C q (find_prop_In _ _ _ Hq)).
  - destruct (end_block P kf t stk s) as [[s1 e1]|] eqn:E; intro H; injection H as <- <- <-; cbn [inflow];
      [|split; [lia|assumption]].
    unfold end_block in E.
    destruct (fold_ids (process_inactive P) _ s) as [[s2 e2]|] eqn:E1; [|discriminate].
    destruct (fold_ids (process_active P kf stk) _ s2) as [[s3 e3]|] eqn:E2; [|discriminate].
    injection E as <- <-.
    destruct (fold_ids_value A (process_inactive P)
                (fun s0 id s0' ev0 C0 H0 => process_inactive_value A P s0 id s0' ev0 N C0 H0) _ _ _ _ C E1) as [V1 C1].
    destruct (fold_ids_value A (process_active P kf stk)
                (fun s0 id s0' ev0 C0 H0 => process_active_value A P kf stk s0 id s0' ev0 N C0 H0) _ _ _ _ C1 E2) as [V2 C2].
    split; [lia|assumption].
  - destruct (negb authorized); [intro H; injection H as <- <- <-; split; [cbn; lia|assumption]|].
    destruct (negb (cparams_valid cp)); intro H; injection H as <- <- <-; (split; [cbn; unfold value; cbn; lia|assumption]).
  - destruct (negb authorized); intro H; injection H as <- <- <-; (split; [cbn; unfold value; cbn; lia|assumption]).
  - destruct ((bal s acct + delta <? 0) || (acct <? 0)); intro H; injection H as <- <- <-; [split; [cbn; lia|assumption]|].
    cbn in Ho. split; [|assumption]. unfold value; cbn. rewrite sumb_add_in by assumption. lia.
  - destruct (corrupt s pid) as [r0 s0] eqn:E. intro H; injection H as <- <- <-. cbn [inflow].
    apply corrupt_inv in E as [->|(p & st & _ & _ & ->)]; [split; [lia|assumption]|].
    split; [rewrite value_set_props; lia|]. eapply (closed_upd A s s); [exact C|reflexivity|]. intros; split; reflexivity.
Qed.

(* the sum of the outside credits of a history *)
Fixpoint ginflow (kf : keyfun) (ps : params * state) (gops : list gop) : Z :=
  match gops with
  | [] => 0
  | g :: r =>
      let '(res, ps1, _) := gstep kf ps g in
      (match g with GOp o => inflow o res | _ => 0 end) + ginflow kf ps1 r
  end.

Definition gop_in (A : list Z) (g : gop) : Prop :=
  match g with GOp o => op_in A o | GSetParams _ _ P' => params_in A P' end.

Theorem value_conservation : forall A kf gops ps ps' ev,
  NoDup A -> closed_in A (snd ps) -> params_in A (fst ps) -> Forall (gop_in A) gops ->
  grun kf ps gops = (ps', ev) ->
  value A (snd ps') = value A (snd ps) + ginflow kf ps gops.
Proof.
  intros A kf. induction gops as [|g r IH]; intros ps ps' ev N C HP F H.
  - cbn in *. inversion H; subst; lia.
  - inversion F; subst. cbn [grun ginflow] in *.
    destruct (gstep kf ps g) as [[r0 ps1] e1] eqn:E. destruct (grun kf ps1 r) as [ps2 e2] eqn:E2.
    inversion H; subst. destruct ps as [P s]. destruct g as [o|a v P'].
    + cbn in E. destruct (step P kf s o) as [[r1 s1] e0] eqn:S. inversion E; subst.
      destruct (step_value A P kf s o r0 s1 e1 N C H2 HP S) as [V C1].
      rewrite (IH (P, s1) _ _ N C1 HP H3 E2). cbn [snd]. lia.
    + pose proof (gstep_set_params _ _ _ _ _ _ _ _ _ E) as (Hs & _ & Hp).
      assert (HP1 : params_in A (fst ps1)) by (destruct Hp as [->|(-> & _)]; assumption).
      assert (C1 : closed_in A (snd ps1)) by (rewrite Hs; assumption).
      rewrite (IH ps1 _ _ N C1 HP1 H3 E2). rewrite Hs. cbn [snd]. lia.
Qed.

(* from the initial state: accounts + module account + pool = initial accounts + credits - burned *)
Corollary supply_conservation : forall A kf gops P b c ps ev,
  NoDup A -> params_in A P -> Forall (gop_in A) gops ->
  grun kf (P, init b c) gops = (ps, ev) ->
  sumb A (bal (snd ps)) + gov_bal (snd ps) + pool_in (snd ps)
  = sumb A b + ginflow kf (P, init b c) gops - burned (snd ps).
Proof.
  intros A kf gops P b c ps ev N HP F H.
  assert (C : closed_in A (snd (P, init b c))) by constructor.
  pose proof (value_conservation A kf gops (P, init b c) ps ev N C HP F H) as V.
  unfold value in V. cbn in V. lia.
Qed.

(* ================================================================== non-vacuity: Params change in between *)
Definition with_params (P : params) (mind vp q : Z) : params :=
  {| min_deposit := mind; exp_min_deposit := 5 * mind;
     max_deposit_period := max_deposit_period P; voting_period := vp; exp_voting_period := exp_voting_period P;
     quorum := q; threshold := threshold P; exp_threshold := exp_threshold P; veto_threshold := veto_threshold P;
     min_initial_ratio := min_initial_ratio P; min_deposit_ratio := min_deposit_ratio P;
     cancel_ratio := cancel_ratio P; cancel_dest := cancel_dest P;
     burn_prevote := burn_prevote P; burn_quorum := burn_quorum P; burn_veto := burn_veto P;
     bad_inactive_dequeued := bad_inactive_dequeued P; bad_active_dequeued_by_key := bad_active_dequeued_by_key P |}.

(* proposal 1 activates under the genesis Params (10,000 FX, 14 days); then the minimum is doubled,
   the voting period cut to 3 days and the quorum raised to 90%; proposal 2, submitted with 10,000 FX,
   now stays in its deposit period; an unauthorized update is refused; before the tally the quorum is
   lowered to 10%: proposal 1 still ends after its 14 days, and passes with a third of the stake *)
Definition h_params : list gop :=
  [GOp (OSubmit 10 10 [text_msg] (FXu 10000) false true false);
   GSetParams true true (with_params P0 (FXu 20000) (3 * day) 900000000000000000);
   GOp (OSubmit 20 11 [text_msg] (FXu 10000) false true false);
   GOp (OVote 1 0 yes false);
   GSetParams false true (with_params P0 1 1 0);
   GSetParams true true (with_params P0 (FXu 20000) (3 * day) 100000000000000000);
   GOp (OEndBlock (10 + 3 * day) stk0);
   GOp (OEndBlock (10 + 14 * day) stk0)].

Definition gview (gops : list gop) (id : Z) :=
  option_map (fun p => (p_status p, p_total p, p_vstart p, p_vend p, p_expedited p, p_quorum_used p))
             (find_prop id (props (snd (fst (grun kf_code (P0, init bal0 cust0) gops))))).

Theorem params_change_nonvacuous :
  gview (firstn 7 h_params) 1 = Some (SVoting, FXu 10000, 10, 10 + 14 * day, false, 0) /\
  gview h_params 1 = Some (SPassed, FXu 10000, 10, 10 + 14 * day, false, 100000000000000000) /\
  gview h_params 2 = Some (SDeposit, FXu 10000, 0, 0, false, 0) /\
  quorum (fst (fst (grun kf_code (P0, init bal0 cust0) h_params))) = 100000000000000000 /\
  (100000000000000000 <=? participation stk0 (with_votes (new_proposal P0 1 10 10 [text_msg] false) [(0, yes)])) = true /\
  (participation stk0 (with_votes (new_proposal P0 1 10 10 [text_msg] false) [(0, yes)]) <? 900000000000000000) = true.
Proof. vm_compute. repeat split; reflexivity. Qed.
