(* P_Gov5.v — property C15: the facts generated from the current sources (gen/Gen_GovShape.v) say
   that model.M_Gov's step functions are the transcription of the code's shape.  Each theorem is
   stated about gen_shape, so it is re-checked against what the code says on every run; the
   *_matters lemmas show that the facts are not decorative (another value gives another function). *)
From Coq Require Import ZArith List Bool Lia.
From FxV Require Import lib.Dec model.M_Gov model.M_GovShape gen.Gen_GovShape proofs.P_Gov proofs.P_Gov2 proofs.P_Gov3.
(* not used below: makes the correspondence glue build before this file, so that the differential
   run still works when a generated fact breaks one of these theorems *)
From FxV Require model.M_GovCorr.
Import ListNotations.
Open Scope Z_scope.

Lemma exec_prefix_spec : forall e ms s,
  match exec_msgs e s ms with
  | Some s2 => exec_prefix e s ms = (s2, true)
  | None => snd (exec_prefix e s ms) = false
  end.
Proof.
  intros e. induction ms as [|m r IH]; cbn; intros s; [reflexivity|].
  destruct (exec_one e s m) as [s1|]; [apply IH|reflexivity].
Qed.

(* message execution: one cache branch opened before the loop, handlers on it, err not shadowed,
   written only when every message succeeded  ==>  M_Gov's all-or-nothing exec_msgs *)
Theorem gen_exec_all_or_nothing : forall e s1 ms,
  exec_outcome_sh gen_shape e s1 ms =
  match exec_msgs e s1 ms with Some s2 => (s2, SPassed) | None => (s1, SFailed) end.
Proof.
  intros. unfold exec_outcome_sh. pose proof (exec_prefix_spec e ms s1) as H.
  destruct (exec_msgs e s1 ms) as [s2|].
  - rewrite H. reflexivity.
  - destruct (exec_prefix e s1 ms) as [sp ok]. cbn in H. subst ok. reflexivity.
Qed.

(* AddDeposit: transfer, total, save, minimum, activation, record — and no successful return in
   between  ==>  M_Gov.deposited (the record is always written) *)
Theorem gen_deposit_writes_record : forall P kf cust now dep amt p,
  deposited_sh gen_shape P kf cust now dep amt p = deposited P kf cust now dep amt p.
Proof. reflexivity. Qed.

(* end blocker order, payout guard, expedited conversion: what process_active transcribes *)
Theorem gen_endblock_shape :
  leqb eb_step_eqb (sh_eb_order gen_shape) model_eb_order = true /\
  sh_payout_guard gen_shape = true /\ sh_conv_period_default gen_shape = true /\
  sh_passed_in_ok_branch gen_shape = true /\ sh_failed_in_else_branch gen_shape = true.
Proof. repeat split; reflexivity. Qed.

(* queues: the side conditions under which "queue = status set keyed by the proposal's own end time"
   (M_Gov.inactive_queue / active_queue) is what the code maintains *)
Theorem gen_queue_shape : queue_shape_ok gen_shape = true.
Proof. reflexivity. Qed.

(* Tally: the order of the early returns M_Gov.tally transcribes (in particular the all-abstain
   guard precedes the veto division) *)
Theorem gen_tally_checks : leqb tally_check_eqb (sh_tally_checks gen_shape) model_tally_checks = true.
Proof. reflexivity. Qed.

(* the custom-parameter lookups: both sites use the same kind of key; which one they use decides
   between M_Gov.kf_code and M_Gov.kf_fixed *)
Theorem gen_keys_consistent : shape_keys_consistent gen_shape = true.
Proof. reflexivity. Qed.

Theorem gen_keyfun : forall ms m,
  kf_key (kf_of_shape gen_shape) ms = kf_key (if shape_is_fixed gen_shape then kf_fixed else kf_code) ms /\
  kf_is_egf (kf_of_shape gen_shape) m = kf_is_egf (if shape_is_fixed gen_shape then kf_fixed else kf_code) m.
Proof.
  intros. unfold kf_of_shape, shape_is_fixed.
  destruct (sh_type_key gen_shape) eqn:T, (sh_egf_key gen_shape) eqn:E; try (split; reflexivity);
    pose proof gen_keys_consistent as C; unfold shape_keys_consistent in C; rewrite T, E in C; discriminate.
Qed.

(* when the sites say sdk.MsgTypeURL(any): the message type has no influence (finding C15-1 as a
   statement about the generated facts) *)
Theorem gen_any_key_is_type_blind :
  sh_type_key gen_shape = KAnyName -> sh_egf_key gen_shape = KAnyName ->
  forall P cust p q m ms,
    (p_msgs p = [] <-> p_msgs q = []) -> p_expedited p = p_expedited q ->
    period_for P (kf_of_shape gen_shape) cust p = period_for P (kf_of_shape gen_shape) cust q /\
    quorum_for P (kf_of_shape gen_shape) cust p = quorum_for P (kf_of_shape gen_shape) cust q /\
    egf_min (kf_of_shape gen_shape) cust [(fx, m)] ms = [(fx, m)].
Proof.
  intros T E P cust p q m ms Hm He. unfold period_for, quorum_for, egf_min, kf_of_shape. rewrite T, E. cbn.
  rewrite He. repeat split.
  - destruct (p_msgs p) as [|a r], (p_msgs q) as [|a' r']; auto.
    + destruct Hm as [Hm _]. discriminate (Hm eq_refl).
    + destruct Hm as [_ Hm]. discriminate (Hm eq_refl).
  - destruct (p_msgs p) as [|a r], (p_msgs q) as [|a' r']; auto.
    + destruct Hm as [Hm _]. discriminate (Hm eq_refl).
    + destruct Hm as [_ Hm]. discriminate (Hm eq_refl).
  - destruct ms as [|x r]; cbn; [|reflexivity].
    destruct (lookup ty_egf cust) as [cp|]; [|reflexivity]. destruct (c_ratio cp =? 0); reflexivity.
Qed.

(* checkProposalMsgs compares the type URLs of the unpacked messages: M_Gov.check_msgs *)
Theorem gen_mixed_compare : forall ms, check_msgs_sh gen_shape ms = check_msgs ms.
Proof. reflexivity. Qed.

Theorem gen_mixed_compare_fact : sh_mixed_compare gen_shape = CmpTypeURL /\ sh_mixed_fold gen_shape = true.
Proof. split; reflexivity. Qed.

(* the custom quorum / voting period getters return the stored field for every stored entry — the
   default is used only when no entry exists (so a stored quorum of exactly 0 is a quorum of 0) *)
Theorem gen_stored_value_or_default : forall P kf cust p,
  quorum_for_sh gen_shape P kf cust p = quorum_for P kf cust p /\
  period_for_sh gen_shape P kf cust p = period_for P kf cust p.
Proof. split; reflexivity. Qed.

Theorem stored_zero_quorum_is_zero : forall P kf cust p cp,
  lookup (kf_key kf (p_msgs p)) cust = Some cp -> c_quorum cp = 0 ->
  quorum_for_sh gen_shape P kf cust p = 0.
Proof.
  intros P kf cust p cp L Z0. destruct (gen_stored_value_or_default P kf cust p) as [-> _].
  unfold quorum_for. rewrite L. exact Z0.
Qed.

(* ------------------------------------------------------------------ undecodable records: this tree *)
(* PINNED for the tree under check (repaired in e5a1e24): both ErrEncoding branches of the end blocker
   remove the queue entry by the key the walk stands on.  Reverting the repair flips a generated fact
   and breaks this obligation. *)
Theorem tree_dequeues_undecodable_by_key :
  sh_bad_inactive_dequeued gen_shape = true /\ sh_bad_active_dequeued_by_key gen_shape = true.
Proof. split; reflexivity. Qed.

(* hence, for Params carrying the tree's facts (what the correspondence glue builds): the end blocker
   never fails in any history in which no message spends from the governance account — stored records
   made undecodable included (no op_no_corrupt guard) *)
Theorem end_block_never_fails_on_tree : forall P kf b c ops s ev t stk,
  bad_inactive_dequeued P = sh_bad_inactive_dequeued gen_shape ->
  bad_active_dequeued_by_key P = sh_bad_active_dequeued_by_key gen_shape ->
  Forall op_no_govsend ops ->
  run P kf (init b c) ops = (s, ev) ->
  end_block P kf t stk s <> None.
Proof.
  intros until stk. intros F1 F2. destruct tree_dequeues_undecodable_by_key as [T1 T2].
  rewrite T1 in F1. rewrite T2 in F2. now apply P_Gov2.end_block_never_fails_when_dequeued.
Qed.

(* ------------------------------------------------------------------ the facts matter *)
Definition with_exec (sh : gov_shape) (plain : bool) (cache_in_loop write_in_loop write_ok : Z) (before on_cache : bool) : gov_shape :=
  {| sh_eb_order := sh_eb_order sh; sh_payout_guard := sh_payout_guard sh;
     sh_dequeue_key_voting_end := sh_dequeue_key_voting_end sh;
     sh_cache_before_loop := before; sh_cache_in_loop := cache_in_loop; sh_exec_on_cache := on_cache;
     sh_err_plain_assign := plain; sh_break_on_err := sh_break_on_err sh;
     sh_write_in_loop := write_in_loop; sh_write_in_ok_branch := write_ok; sh_write_elsewhere := sh_write_elsewhere sh;
     sh_passed_in_ok_branch := sh_passed_in_ok_branch sh; sh_failed_in_else_branch := sh_failed_in_else_branch sh;
     sh_conv_requeue_after_reassign := sh_conv_requeue_after_reassign sh; sh_conv_period_default := sh_conv_period_default sh;
     sh_dep_order := sh_dep_order sh; sh_dep_ok_returns_before_record := sh_dep_ok_returns_before_record sh;
     sh_act_inactive_remove_unconditional := sh_act_inactive_remove_unconditional sh;
     sh_act_inactive_key_deposit_end := sh_act_inactive_key_deposit_end sh;
     sh_act_active_key_voting_end := sh_act_active_key_voting_end sh;
     sh_egf_key := sh_egf_key sh; sh_type_key := sh_type_key sh; sh_tally_checks := sh_tally_checks sh;
     sh_mixed_compare := sh_mixed_compare sh; sh_mixed_fold := sh_mixed_fold sh;
     sh_quorum_default_only_absent := sh_quorum_default_only_absent sh;
     sh_period_default_only_absent := sh_period_default_only_absent sh;
     sh_bad_inactive_dequeued := sh_bad_inactive_dequeued sh;
     sh_bad_active_dequeued_by_key := sh_bad_active_dequeued_by_key sh |}.

Definition m_ok : msg := {| m_type := 4; m_spend := []; m_act := AOk 7 |}.
Definition m_bad : msg := {| m_type := 4; m_spend := []; m_act := AFail |}.
Definition s_any : state := init (fun _ => 0) [].
Definition e_any : xenv := {| x_P := proofs.P_Gov3.P0; x_kf := kf_code; x_now := 0; x_self := 0 |}.

(* `res, err := ...` inside the loop: the failure is not seen, the branch is written, status passed *)
Theorem shadowed_err_matters :
  let sh := with_exec gen_shape false 0 0 1 true true in
  (ext (fst (exec_outcome_sh sh e_any s_any [m_ok; m_bad])), snd (exec_outcome_sh sh e_any s_any [m_ok; m_bad])) = ([7], SPassed) /\
  (ext (fst (exec_outcome_sh gen_shape e_any s_any [m_ok; m_bad])), snd (exec_outcome_sh gen_shape e_any s_any [m_ok; m_bad])) = ([], SFailed).
Proof. vm_compute. split; reflexivity. Qed.

(* one branch per message, written as soon as the message succeeds: the first effect survives *)
Theorem per_message_branch_matters :
  let sh := with_exec gen_shape true 1 1 0 false false in
  (ext (fst (exec_outcome_sh sh e_any s_any [m_ok; m_bad])), snd (exec_outcome_sh sh e_any s_any [m_ok; m_bad])) = ([7], SFailed).
Proof. vm_compute. reflexivity. Qed.
