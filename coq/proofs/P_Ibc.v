(* C19 — proofs about model/M_Ibc.v *)
From Coq Require Import ZArith List Bool Lia Arith.
From FxV Require Import model.M_Cache model.M_Ibc.
Import ListNotations.
Open Scope Z_scope.

(* ------------------------------------------------------------------------------------------ *)
(** * plumbing *)

Lemma bind_ok {S} (r : result S) f s' : bind r f = Ok s' -> exists s1, r = Ok s1 /\ f s1 = Ok s'.
Proof. destruct r; cbn; [eauto|discriminate]. Qed.

(* the part of the state the exactly-once argument is about *)
Definition same_proj (s s' : ist) : Prop :=
  rel s' = rel s /\ nextseq s' = nextseq s /\ ilog s' = ilog s /\ commits s' = commits s /\ sent s' = sent s /\
  pair_on s' = pair_on s /\ has_acct s' = has_acct s.

Lemma same_proj_refl s : same_proj s s.
Proof. repeat split. Qed.
Lemma same_proj_trans a b c : same_proj a b -> same_proj b c -> same_proj a c.
Proof. unfold same_proj. intuition congruence. Qed.

Lemma pay_proj s a b k t n s' : pay s a b k t n = Ok s' -> same_proj s s'.
Proof. unfold pay. destruct (_ <? _); [discriminate|]. intros H; inversion H; subst. repeat split. Qed.
Lemma burn_proj s a k t n s' : burn s a k t n = Ok s' -> same_proj s s'.
Proof. unfold burn. destruct (_ <? _); [discriminate|]. intros H; inversion H; subst. repeat split. Qed.
Lemma mint_proj s a k t n : same_proj s (mint s a k t n).
Proof. repeat split. Qed.

Lemma convert_coin_proj who t n s s' : convert_coin who t n s = Ok s' -> same_proj s s'.
Proof.
  unfold convert_coin. destruct (negb _); [discriminate|]. intros H.
  apply bind_ok in H. destruct H as (s1 & H1 & H2). inversion H2; subst.
  eapply same_proj_trans; [eapply pay_proj; eauto|apply mint_proj].
Qed.

Lemma voucher_to_self_proj who k t n s s' : voucher_to_self who k t n s = Ok s' -> same_proj s s'.
Proof.
  unfold voucher_to_self. intros H. apply bind_ok in H. destruct H as (s1 & H1 & H2).
  eapply same_proj_trans; [eapply pay_proj; eauto|].
  eapply same_proj_trans; [apply mint_proj|eapply pay_proj; eauto].
Qed.

Lemma in_rel_del r c q : in_rel (del_rel r c q) c q = false.
Proof.
  unfold in_rel, del_rel. induction r as [|x r IH]; [reflexivity|]. cbn [filter].
  destruct (cs_eqb (c, q) x) eqn:E; cbn [negb]; [exact IH|]. cbn [existsb]. rewrite E. exact IH.
Qed.

Lemma cs_eqb_eq a b : cs_eqb a b = true <-> a = b.
Proof.
  destruct a, b. unfold cs_eqb. cbn. rewrite andb_true_iff, !Z.eqb_eq. split; [intros [-> ->]; reflexivity|intros H; inversion H; auto].
Qed.

Lemma in_rel_In r c q : in_rel r c q = true <-> In (c, q) r.
Proof.
  unfold in_rel. rewrite existsb_exists. split.
  - intros (x & Hin & E). apply cs_eqb_eq in E. subst. exact Hin.
  - intros H. exists (c, q). split; [exact H|apply cs_eqb_eq; reflexivity].
Qed.

Lemma in_del_rel r c q x : In x (del_rel r c q) <-> In x r /\ x <> (c, q).
Proof.
  unfold del_rel. rewrite filter_In. split; intros [H1 H2]; split; auto.
  - intros ->. assert (cs_eqb (c, q) (c, q) = true) by (apply cs_eqb_eq; reflexivity). rewrite H in H2. discriminate.
  - destruct (cs_eqb (c, q) x) eqn:E; [|reflexivity]. apply cs_eqb_eq in E. congruence.
Qed.

(* ------------------------------------------------------------------------------------------ *)
(** * receive: credit as ERC-20 exactly, or nothing and an error acknowledgement *)

Lemma ladd_same_holder l r k0 a0 d k a :
  ladd l (r, k0, a0) d (r, k, a) = l (r, k, a) + (if (k0 =? k) && (a0 =? a) then d else 0).
Proof. unfold ladd, key_eqb. rewrite Z.eqb_refl. cbn [andb]. destruct ((k0 =? k) && (a0 =? a)); lia. Qed.

Lemma ladd_other_holder l h r k0 a0 d k a :
  h <> r -> ladd l (h, k0, a0) d (r, k, a) = l (r, k, a).
Proof. intros Hne. unfold ladd, key_eqb. destruct (Z.eqb_spec h r); [congruence|]. reflexivity. Qed.

Ltac peel :=
  repeat first [ rewrite ladd_same_holder
               | rewrite ladd_other_holder by (unfold ModTransfer, ModErc20, Supply, Escrow; lia) ].

Section Recv.
  Variable isender : Z -> Z -> Z.

  Lemma recv_unfold p s :
    recv isender p s =
    if negb (ip_addr_ok p) then (s, false) else
    match transfer_recv p s with
    | Err _ => (s, false)
    | Ok c1 => match hook_recv isender p c1 with Err _ => (s, false) | Ok c2 => (c2, true) end
    end.
  Proof.
    unfold recv, core_recv, mw_on_recv, branch, commit, discard.
    destruct (negb (ip_addr_ok p)); [reflexivity|].
    destruct (transfer_recv p s) as [c1|c1]; [|reflexivity].
    destruct (hook_recv isender p c1); reflexivity.
  Qed.

  (* an error acknowledgement leaves the state exactly as it was (ibc-go core cache rule) *)
  Lemma recv_error_nothing p s s' : recv isender p s = (s', false) -> s' = s.
  Proof.
    rewrite recv_unfold. destruct (negb _); [intros H; inversion H; reflexivity|].
    destruct (transfer_recv p s) as [c1|c1]; [|intros H; inversion H; reflexivity].
    destruct (hook_recv isender p c1); intros H; inversion H; reflexivity.
  Qed.

  Ltac ledger :=
    unfold ladd, key_eqb, ModTransfer, ModErc20, Supply, ACoin, AVoucher, AErc, AFx in *;
    repeat match goal with |- context [?a =? ?b] => destruct (Z.eqb_spec a b) end;
    cbn [andb]; try lia; try congruence.

  (* success for a non-native denom: it is an Own voucher to a hex receiver, and the receiver's balances change
     in exactly one place: + amount of the pair's ERC-20 *)
  Lemma recv_success_erc20 p s s' :
    recv isender p s = (s', true) -> ip_denom p <> DFx -> 0 <= ip_recv p ->
    exists t, ip_denom p = DOwn t /\ ip_hex p = true /\ ip_addr_ok p = true /\ 0 < ip_amt p /\
      ibal s' (ip_recv p, AErc, t) = ibal s (ip_recv p, AErc, t) + ip_amt p /\
      (forall k a, (k, a) <> (AErc, t) -> ibal s' (ip_recv p, k, a) = ibal s (ip_recv p, k, a)).
  Proof.
    rewrite recv_unfold. intros H Hfx Hpos.
    destruct (ip_addr_ok p) eqn:Eaddr; cbv beta iota delta [negb] in H; [|inversion H].
    destruct (transfer_recv p s) as [c1|c1] eqn:Et; [|inversion H].
    destruct (hook_recv isender p c1) as [c2|c2] eqn:Eh; inversion H; subst s'. clear H.
    unfold transfer_recv in Et. destruct (Z.leb_spec (ip_amt p) 0) as [|Hamt]; [discriminate|].
    unfold hook_recv in Eh. apply bind_ok in Eh. destruct Eh as (h1 & Hconv & Hmemo).
    assert (Hlog : forall k, ibal c2 k = ibal h1 k).
    { destruct (ip_memo p) as [| | |f]; try (inversion Hmemo; subst; reflexivity); try discriminate.
      destruct (has_acct h1 (isender (ip_src p) (ip_sender p))); cbv beta iota delta [negb] in Hmemo; [|discriminate].
      destruct f; inversion Hmemo; subst; reflexivity. }
    destruct (ip_denom p) as [|t|t|] eqn:Ed; [congruence| | |].
    - (* Own t *)
      cbn [voucher_asset] in *. destruct (ip_hex p) eqn:Ehex; cbn [negb] in Hconv; [|discriminate].
      apply bind_ok in Hconv. destruct Hconv as (v1 & Hv & Hc).
      apply bind_ok in Hc. destruct Hc as (v2 & Hcc & Hl). inversion Hl; subst h1. clear Hl.
      exists t. repeat split; auto.
      + rewrite Hlog. cbn [ibal with_log].
        unfold convert_coin in Hcc. destruct (negb _); [discriminate|]. apply bind_ok in Hcc. destruct Hcc as (w1 & Hp & Hm).
        inversion Hm; subst v2. clear Hm.
        unfold voucher_to_self in Hv. apply bind_ok in Hv. destruct Hv as (u1 & Hu1 & Hu2).
        unfold pay in *.
        repeat match goal with H : (if ?c then _ else _) = Ok _ |- _ => destruct c; [discriminate|]; inversion H; subst; clear H end.
        cbn [ibal with_bal mint]. peel. unfold ACoin, AErc.
        repeat match goal with |- context [?a =? ?b] => destruct (Z.eqb_spec a b) end; cbn [andb]; lia.
      + intros k a Hne. rewrite Hlog. cbn [ibal with_log].
        unfold convert_coin in Hcc. destruct (negb _); [discriminate|]. apply bind_ok in Hcc. destruct Hcc as (w1 & Hp & Hm).
        inversion Hm; subst v2. clear Hm.
        unfold voucher_to_self in Hv. apply bind_ok in Hv. destruct Hv as (u1 & Hu1 & Hu2).
        unfold pay in *.
        repeat match goal with H : (if ?c then _ else _) = Ok _ |- _ => destruct c; [discriminate|]; inversion H; subst; clear H end.
        cbn [ibal with_bal mint]. peel. unfold ACoin, AErc in *.
        repeat match goal with |- context [?a =? ?b] => destruct (Z.eqb_spec a b) end;
          cbn [andb]; try lia; exfalso; apply Hne; congruence.
    - (* Alias t: no pair under the voucher's name *)
      cbn [voucher_asset] in Hconv. destruct (negb (ip_hex p)); [discriminate|].
      apply bind_ok in Hconv. destruct Hconv as (v1 & _ & Hc). discriminate.
    - cbn [voucher_asset] in Hconv. destruct (negb (ip_hex p)); [discriminate|].
      apply bind_ok in Hconv. destruct Hconv as (v1 & _ & Hc). discriminate.
  Qed.

  (* native FX: success credits exactly the amount as the native coin, hex or bech32 receiver alike *)
  Lemma recv_success_fx p s s' :
    recv isender p s = (s', true) -> ip_denom p = DFx -> 0 <= ip_recv p ->
    0 < ip_amt p /\ ibal s' (ip_recv p, AFx, 0) = ibal s (ip_recv p, AFx, 0) + ip_amt p /\
    (forall k a, (k, a) <> (AFx, 0) -> ibal s' (ip_recv p, k, a) = ibal s (ip_recv p, k, a)).
  Proof.
    rewrite recv_unfold. intros H Hfx Hpos.
    destruct (ip_addr_ok p) eqn:Eaddr; cbv beta iota delta [negb] in H; [|inversion H].
    destruct (transfer_recv p s) as [c1|c1] eqn:Et; [|inversion H].
    destruct (hook_recv isender p c1) as [c2|c2] eqn:Eh; inversion H; subst s'. clear H.
    unfold transfer_recv in Et. destruct (Z.leb_spec (ip_amt p) 0) as [|Hamt]; [discriminate|].
    unfold hook_recv in Eh. rewrite Hfx in *. cbn [bind] in Eh.
    assert (Hlog : forall k, ibal c2 k = ibal c1 k).
    { destruct (ip_memo p) as [| | |f]; try (inversion Eh; subst; reflexivity); try discriminate.
      destruct (has_acct c1 (isender (ip_src p) (ip_sender p))); cbv beta iota delta [negb] in Eh; [|discriminate].
      destruct f; inversion Eh; subst; reflexivity. }
    unfold pay in Et. destruct (_ <? _); [discriminate|]. inversion Et; subst c1. clear Et.
    split; [exact Hamt|]. split.
    - rewrite Hlog. cbn [ibal with_bal]. peel. rewrite !Z.eqb_refl. cbn [andb]. lia.
    - intros k a Hne. rewrite Hlog. cbn [ibal with_bal]. peel. unfold AFx in *.
      repeat match goal with |- context [?a =? ?b] => destruct (Z.eqb_spec a b) end;
        cbn [andb]; try lia; exfalso; apply Hne; congruence.
  Qed.

  (* a non-native token to a bech32 receiver is never accepted *)
  Lemma recv_bech32_refused p s s' ok :
    recv isender p s = (s', ok) -> ip_denom p <> DFx -> ip_hex p = false -> ok = false.
  Proof.
    intros H Hd Hh. destruct ok; [|reflexivity]. exfalso.
    rewrite recv_unfold in H.
    destruct (ip_addr_ok p); cbv beta iota delta [negb] in H; [|inversion H].
    destruct (transfer_recv p s) as [c1|c1]; [|inversion H].
    destruct (hook_recv isender p c1) as [c2|c2] eqn:Eh; [|inversion H].
    unfold hook_recv in Eh. rewrite Hh in Eh. destruct (ip_denom p); try congruence; cbn in Eh; discriminate.
  Qed.

  (* the memo call, whenever it is executed (succeeding or failing), runs as the derived sender *)
  Lemma hook_call_sender p s a :
    In (EvCall a) (ilog (written (hook_recv isender p s))) ->
    In (EvCall a) (ilog s) \/ a = isender (ip_src p) (ip_sender p).
  Proof.
    unfold hook_recv.
    set (conv := match ip_denom p with DFx => Ok s | _ => _ end).
    assert (Hconv : forall e, In e (ilog (written conv)) -> In e (ilog s) \/ exists r t n, e = EvCredit r t n).
    { subst conv. intros e. destruct (ip_denom p) as [|t|t|]; cbn [written]; auto;
        cbn [voucher_asset]; destruct (negb (ip_hex p)); cbn [written]; auto.
      - destruct (voucher_to_self _ _ _ _ s) as [s1|s1] eqn:Ev; cbn [bind written].
        + pose proof (voucher_to_self_proj _ _ _ _ _ _ Ev) as (_&_&L1&_).
          destruct (convert_coin _ _ _ s1) as [s2|s2] eqn:Ec; cbn [bind written].
          * pose proof (convert_coin_proj _ _ _ _ _ Ec) as (_&_&L2&_). cbn [ilog with_log]. rewrite L2, L1.
            intros Hin. apply in_app_or in Hin. destruct Hin as [|[<-|[]]]; eauto.
          * unfold convert_coin in Ec. destruct (negb _); [inversion Ec; subst; rewrite L1; auto|].
            unfold pay in Ec. cbn [bind] in Ec. destruct (_ <? _); cbn [bind] in Ec; inversion Ec; subst; rewrite L1; auto.
        + unfold voucher_to_self, pay in Ev.
          destruct (_ <? _); cbn [bind] in Ev; [inversion Ev; subst; auto|].
          match type of Ev with (if ?c then _ else _) = _ => destruct c end; inversion Ev; subst; auto.
      - destruct (voucher_to_self _ _ _ _ s) as [s1|s1] eqn:Ev; cbn [bind written].
        + pose proof (voucher_to_self_proj _ _ _ _ _ _ Ev) as (_&_&L1&_). rewrite L1. auto.
        + unfold voucher_to_self, pay in Ev.
          destruct (_ <? _); cbn [bind] in Ev; [inversion Ev; subst; auto|].
          match type of Ev with (if ?c then _ else _) = _ => destruct c end; inversion Ev; subst; auto.
      - destruct (voucher_to_self _ _ _ _ s) as [s1|s1] eqn:Ev; cbn [bind written].
        + pose proof (voucher_to_self_proj _ _ _ _ _ _ Ev) as (_&_&L1&_). rewrite L1. auto.
        + unfold voucher_to_self, pay in Ev.
          destruct (_ <? _); cbn [bind] in Ev; [inversion Ev; subst; auto|].
          match type of Ev with (if ?c then _ else _) = _ => destruct c end; inversion Ev; subst; auto. }
    destruct conv as [s1|s1]; cbn [bind written] in *.
    - destruct (ip_memo p) as [| | |f]; cbn [written]; intros Hin;
        try (destruct (Hconv _ Hin) as [|(r&t&n&E)]; [auto|discriminate]).
      destruct (negb (has_acct s1 _)); cbn [written] in Hin.
      + destruct (Hconv _ Hin) as [|(r&t&n&E)]; [auto|discriminate].
      + destruct f; cbn [written ilog with_log] in Hin; apply in_app_or in Hin;
          (destruct Hin as [Hin|[E|[]]]; [destruct (Hconv _ Hin) as [|(r&t&n&E)]; [auto|discriminate]|inversion E; auto]).
    - intros Hin. destruct (Hconv _ Hin) as [|(r&t&n&E)]; [auto|discriminate].
  Qed.
End Recv.
