(* C19 — proofs about model/M_Ibc.v *)
From Coq Require Import ZArith List Bool Lia Arith.
From FxV Require Import model.M_Cache model.M_Ibc.
Import ListNotations.
Open Scope Z_scope.

(* ------------------------------------------------------------------------------------------ *)
(** * plumbing *)

Lemma bind_ok {S} (r : result S) f s' : bind r f = Ok s' -> exists s1, r = Ok s1 /\ f s1 = Ok s'.
Proof. destruct r; cbn; [eauto|discriminate]. Qed.

(* the part of the state the exactly-once argument is about *)
Definition same_proj (s s' : ist) : Prop :=
  rel s' = rel s /\ nextseq s' = nextseq s /\ ilog s' = ilog s /\ commits s' = commits s /\ sent s' = sent s /\
  pair_on s' = pair_on s /\ chanid s' = chanid s.

Lemma same_proj_refl s : same_proj s s.
Proof. repeat split. Qed.
Lemma same_proj_trans a b c : same_proj a b -> same_proj b c -> same_proj a c.
Proof. unfold same_proj. intuition congruence. Qed.

Lemma pay_proj s a b k t n s' : pay s a b k t n = Ok s' -> same_proj s s'.
Proof. unfold pay. destruct (_ <? _); [discriminate|]. intros H; inversion H; subst. repeat split. Qed.
Lemma burn_proj s a k t n s' : burn s a k t n = Ok s' -> same_proj s s'.
Proof. unfold burn. destruct (_ <? _); [discriminate|]. intros H; inversion H; subst. repeat split. Qed.
Lemma mint_proj s a k t n : same_proj s (mint s a k t n).
Proof. repeat split. Qed.

Lemma convert_coin_proj who t n s s' : convert_coin who t n s = Ok s' -> same_proj s s'.
Proof.
  unfold convert_coin. destruct (negb _); [discriminate|]. intros H.
  apply bind_ok in H. destruct H as (s1 & H1 & H2). inversion H2; subst.
  eapply same_proj_trans; [eapply pay_proj; eauto|apply mint_proj].
Qed.

Lemma voucher_to_self_proj who k t n s s' : voucher_to_self who k t n s = Ok s' -> same_proj s s'.
Proof.
  unfold voucher_to_self. intros H. apply bind_ok in H. destruct H as (s1 & H1 & H2).
  eapply same_proj_trans; [eapply pay_proj; eauto|].
  eapply same_proj_trans; [apply mint_proj|eapply pay_proj; eauto].
Qed.

Lemma in_rel_del r c q : in_rel (del_rel r c q) c q = false.
Proof.
  unfold in_rel, del_rel. induction r as [|x r IH]; [reflexivity|]. cbn [filter].
  destruct (cs_eqb (c, q) x) eqn:E; cbn [negb]; [exact IH|]. cbn [existsb]. rewrite E. exact IH.
Qed.

Lemma cs_eqb_eq a b : cs_eqb a b = true <-> a = b.
Proof.
  destruct a, b. unfold cs_eqb. cbn. rewrite andb_true_iff, !Z.eqb_eq. split; [intros [-> ->]; reflexivity|intros H; inversion H; auto].
Qed.

Lemma in_rel_In r c q : in_rel r c q = true <-> In (c, q) r.
Proof.
  unfold in_rel. rewrite existsb_exists. split.
  - intros (x & Hin & E). apply cs_eqb_eq in E. subst. exact Hin.
  - intros H. exists (c, q). split; [exact H|apply cs_eqb_eq; reflexivity].
Qed.

Lemma in_del_rel r c q x : In x (del_rel r c q) <-> In x r /\ x <> (c, q).
Proof.
  unfold del_rel. rewrite filter_In. split; intros [H1 H2]; split; auto.
  - intros ->. assert (cs_eqb (c, q) (c, q) = true) by (apply cs_eqb_eq; reflexivity). rewrite H in H2. discriminate.
  - destruct (cs_eqb (c, q) x) eqn:E; [|reflexivity]. apply cs_eqb_eq in E. congruence.
Qed.

(* ------------------------------------------------------------------------------------------ *)
(** * receive: credit as ERC-20 exactly, or nothing and an error acknowledgement *)

Lemma ladd_same_holder l r k0 a0 d k a :
  ladd l (r, k0, a0) d (r, k, a) = l (r, k, a) + (if (k0 =? k) && (a0 =? a) then d else 0).
Proof. unfold ladd, key_eqb. rewrite Z.eqb_refl. cbn [andb]. destruct ((k0 =? k) && (a0 =? a)); lia. Qed.

Lemma ladd_other_holder l h r k0 a0 d k a :
  h <> r -> ladd l (h, k0, a0) d (r, k, a) = l (r, k, a).
Proof. intros Hne. unfold ladd, key_eqb. destruct (Z.eqb_spec h r); [congruence|]. reflexivity. Qed.

Ltac peel :=
  repeat first [ rewrite ladd_same_holder
               | rewrite ladd_other_holder by (unfold ModTransfer, ModErc20, Supply, Escrow; lia) ].

Section Recv.
  Variable isender : Z -> Z -> Z.

  Lemma recv_unfold p s :
    recv isender p s =
    if negb (ip_addr_ok p) then (s, false) else
    match transfer_recv p s with
    | Err _ => (s, false)
    | Ok c1 => match hook_recv isender p c1 with Err _ => (s, false) | Ok c2 => (c2, true) end
    end.
  Proof.
    unfold recv, core_recv, mw_on_recv, branch, commit, discard.
    destruct (negb (ip_addr_ok p)); [reflexivity|].
    destruct (transfer_recv p s) as [c1|c1]; [|reflexivity].
    destruct (hook_recv isender p c1); reflexivity.
  Qed.

  (* an error acknowledgement leaves the state exactly as it was (ibc-go core cache rule) *)
  Lemma recv_error_nothing p s s' : recv isender p s = (s', false) -> s' = s.
  Proof.
    rewrite recv_unfold. destruct (negb _); [intros H; inversion H; reflexivity|].
    destruct (transfer_recv p s) as [c1|c1]; [|intros H; inversion H; reflexivity].
    destruct (hook_recv isender p c1); intros H; inversion H; reflexivity.
  Qed.

  Ltac ledger :=
    unfold ladd, key_eqb, ModTransfer, ModErc20, Supply, ACoin, AVoucher, AErc, AFx in *;
    repeat match goal with |- context [?a =? ?b] => destruct (Z.eqb_spec a b) end;
    cbn [andb]; try lia; try congruence.

  (* the memo step: what it may do to the receiver's own balances — nothing, unless the receiver is the derived sender or the
     callee of a call that carries value *)
  Definition memo_untouched (p : inpacket) : Prop :=
    match ip_memo p with
    | MemoCall _ v => v = 0 \/ (ip_recv p <> isender (ip_src p) (ip_sender p) /\ ip_recv p <> Callee)
    | _ => True
    end.

  Lemma ladd_zero l k k' : ladd l k 0 k' = l k'.
  Proof. unfold ladd. destruct (key_eqb k k'); lia. Qed.

  Lemma memo_step_receiver p s1 c2 :
    memo_step isender p s1 = Ok c2 -> memo_untouched p ->
    forall k a, ibal c2 (ip_recv p, k, a) = ibal s1 (ip_recv p, k, a).
  Proof.
    unfold memo_step, memo_untouched. intros H U k a.
    destruct (ip_memo p) as [| | |f v]; try (inversion H; subst; reflexivity); try discriminate.
    destruct (v <? 0); [discriminate|]. destruct (negb (has_acct s1 _)); [discriminate|]. destruct (_ <? _); [discriminate|].
    destruct f; inversion H; subst. cbn [ibal with_log with_bal with_acct].
    destruct U as [->|[U1 U2]].
    - rewrite !ladd_zero. reflexivity.
    - rewrite !ladd_other_holder by congruence. reflexivity.
  Qed.

  Lemma memo_step_shape p s1 c2 :
    memo_step isender p s1 = Ok c2 ->
    rel c2 = rel s1 /\ nextseq c2 = nextseq s1 /\
    (ilog c2 = ilog s1 \/ ilog c2 = ilog s1 ++ [EvCall (isender (ip_src p) (ip_sender p))]).
  Proof.
    unfold memo_step. intros H.
    destruct (ip_memo p) as [| | |f v]; try (inversion H; subst; auto); try discriminate.
    destruct (v <? 0); [discriminate|]. destruct (negb (has_acct s1 _)); [discriminate|]. destruct (_ <? _); [discriminate|].
    destruct f; inversion H; subst. cbn. auto.
  Qed.

  Lemma memo_step_calls p s1 a :
    In (EvCall a) (ilog (written (memo_step isender p s1))) -> In (EvCall a) (ilog s1) \/ a = isender (ip_src p) (ip_sender p).
  Proof.
    unfold memo_step. destruct (ip_memo p) as [| | |f v]; cbn [written]; auto.
    destruct (v <? 0); cbn [written]; auto. destruct (negb (has_acct s1 _)); cbn [written]; auto. destruct (_ <? _); cbn [written]; auto.
    destruct f; cbn [written ilog with_log with_bal with_acct]; intros Hin; apply in_app_or in Hin;
      (destruct Hin as [Hin|[E|[]]]; [auto|inversion E; auto]).
  Qed.

  (* success for a non-native denom: it is an Own voucher to a hex receiver, and the receiver's balances change
     in exactly one place: + amount of the pair's ERC-20 *)
  Lemma recv_success_erc20 p s s' :
    recv isender p s = (s', true) -> ip_denom p <> DFx -> 0 <= ip_recv p -> 0 <= ip_dst p -> memo_untouched p ->
    exists t, (ip_denom p = DOwn t \/ ip_denom p = DBase t) /\ ip_hex p = true /\ ip_addr_ok p = true /\ 0 < ip_amt p /\
      ibal s' (ip_recv p, AErc, t) = ibal s (ip_recv p, AErc, t) + ip_amt p /\
      (forall k a, (k, a) <> (AErc, t) -> ibal s' (ip_recv p, k, a) = ibal s (ip_recv p, k, a)).
  Proof.
    rewrite recv_unfold. intros H Hfx Hpos Hdst Hmu.
    destruct (ip_addr_ok p) eqn:Eaddr; cbv beta iota delta [negb] in H; [|inversion H].
    destruct (transfer_recv p s) as [c1|c1] eqn:Et; [|inversion H].
    destruct (hook_recv isender p c1) as [c2|c2] eqn:Eh; inversion H; subst s'. clear H.
    unfold transfer_recv in Et. destruct (Z.leb_spec (ip_amt p) 0) as [|Hamt]; [discriminate|].
    destruct (ip_recv p =? BlockedAddr); [discriminate|].
    unfold hook_recv in Eh. apply bind_ok in Eh. destruct Eh as (h1 & Hconv & Hmemo).
    pose proof (memo_step_receiver p h1 c2 Hmemo Hmu) as Hlog.
    destruct (ip_denom p) as [|t|t| |t] eqn:Ed; [congruence| | | |].
    - (* Own t *)
      cbn [voucher_asset] in *. destruct (ip_hex p) eqn:Ehex; cbn [negb] in Hconv; [|discriminate].
      apply bind_ok in Hconv. destruct Hconv as (v1 & Hv & Hc).
      apply bind_ok in Hc. destruct Hc as (v2 & Hcc & Hl). inversion Hl; subst h1. clear Hl.
      exists t. split; [left; reflexivity|]. repeat split; auto.
      + rewrite Hlog. cbn [ibal with_log].
        unfold convert_coin in Hcc. destruct (negb _); [discriminate|]. apply bind_ok in Hcc. destruct Hcc as (w1 & Hp & Hm).
        inversion Hm; subst v2. clear Hm.
        unfold voucher_to_self in Hv. apply bind_ok in Hv. destruct Hv as (u1 & Hu1 & Hu2).
        unfold pay in *.
        repeat match goal with H : (if ?c then _ else _) = Ok _ |- _ => destruct c; [discriminate|]; inversion H; subst; clear H end.
        cbn [ibal with_bal with_acct mint]. peel. unfold ACoin, AErc.
        repeat match goal with |- context [?a =? ?b] => destruct (Z.eqb_spec a b) end; cbn [andb]; lia.
      + intros k a Hne. rewrite Hlog. cbn [ibal with_log].
        unfold convert_coin in Hcc. destruct (negb _); [discriminate|]. apply bind_ok in Hcc. destruct Hcc as (w1 & Hp & Hm).
        inversion Hm; subst v2. clear Hm.
        unfold voucher_to_self in Hv. apply bind_ok in Hv. destruct Hv as (u1 & Hu1 & Hu2).
        unfold pay in *.
        repeat match goal with H : (if ?c then _ else _) = Ok _ |- _ => destruct c; [discriminate|]; inversion H; subst; clear H end.
        cbn [ibal with_bal with_acct mint]. peel. unfold ACoin, AErc in *.
        repeat match goal with |- context [?a =? ?b] => destruct (Z.eqb_spec a b) end;
          cbn [andb]; try lia; exfalso; apply Hne; congruence.
    - (* Alias t: no pair under the voucher's name *)
      cbn [voucher_asset] in Hconv. destruct (negb (ip_hex p)); [discriminate|].
      apply bind_ok in Hconv. destruct Hconv as (v1 & _ & Hc). discriminate.
    - cbn [voucher_asset] in Hconv. destruct (negb (ip_hex p)); [discriminate|].
      apply bind_ok in Hconv. destruct Hconv as (v1 & _ & Hc). discriminate.
    - (* Base t coming home: unescrowed, then converted through pair t *)
      destruct (ip_hex p) eqn:Ehex; cbn [negb] in Hconv; [|discriminate].
      apply bind_ok in Hconv. destruct Hconv as (v2 & Hcc & Hl). inversion Hl; subst h1. clear Hl.
      unfold convert_coin in Hcc. destruct (negb _); [discriminate|]. apply bind_ok in Hcc. destruct Hcc as (w1 & Hp & Hm).
      inversion Hm; subst v2. clear Hm.
      unfold pay in *.
      repeat match goal with H : (if ?c then _ else _) = Ok _ |- _ => destruct c; [discriminate|]; inversion H; subst; clear H end.
      exists t. repeat split; auto.
      + rewrite Hlog. cbn [ibal with_log with_bal with_acct mint]. peel. unfold ACoin, AErc.
        repeat match goal with |- context [?a =? ?b] => destruct (Z.eqb_spec a b) end; cbn [andb]; lia.
      + intros k a Hne. rewrite Hlog. cbn [ibal with_log with_bal with_acct mint]. peel. unfold ACoin, AErc in *.
        repeat match goal with |- context [?a =? ?b] => destruct (Z.eqb_spec a b) end;
          cbn [andb]; try lia; exfalso; apply Hne; congruence.
  Qed.

  (* native FX: success credits exactly the amount as the native coin, hex or bech32 receiver alike *)
  Lemma recv_success_fx p s s' :
    recv isender p s = (s', true) -> ip_denom p = DFx -> 0 <= ip_recv p -> 0 <= ip_dst p -> memo_untouched p ->
    0 < ip_amt p /\ ibal s' (ip_recv p, AFx, 0) = ibal s (ip_recv p, AFx, 0) + ip_amt p /\
    (forall k a, (k, a) <> (AFx, 0) -> ibal s' (ip_recv p, k, a) = ibal s (ip_recv p, k, a)).
  Proof.
    rewrite recv_unfold. intros H Hfx Hpos Hdst Hmu.
    destruct (ip_addr_ok p) eqn:Eaddr; cbv beta iota delta [negb] in H; [|inversion H].
    destruct (transfer_recv p s) as [c1|c1] eqn:Et; [|inversion H].
    destruct (hook_recv isender p c1) as [c2|c2] eqn:Eh; inversion H; subst s'. clear H.
    unfold transfer_recv in Et. destruct (Z.leb_spec (ip_amt p) 0) as [|Hamt]; [discriminate|].
    destruct (ip_recv p =? BlockedAddr); [discriminate|].
    unfold hook_recv in Eh. rewrite Hfx in *. cbn [bind] in Eh.
    pose proof (memo_step_receiver p c1 c2 Eh Hmu) as Hlog.
    unfold pay in Et. destruct (_ <? _); [discriminate|]. inversion Et; subst c1. clear Et.
    split; [exact Hamt|]. split.
    - rewrite Hlog. cbn [ibal with_bal with_acct]. peel. rewrite !Z.eqb_refl. cbn [andb]. lia.
    - intros k a Hne. rewrite Hlog. cbn [ibal with_bal with_acct]. peel. unfold AFx in *.
      repeat match goal with |- context [?a =? ?b] => destruct (Z.eqb_spec a b) end;
        cbn [andb]; try lia; exfalso; apply Hne; congruence.
  Qed.

  (* the receive rule as a table over (denom class, receiver class): what a success acknowledgement means in each cell *)
  Definition credited_erc20 (p : inpacket) (s s' : ist) (t : Z) : Prop :=
    ibal s' (ip_recv p, AErc, t) = ibal s (ip_recv p, AErc, t) + ip_amt p /\
    (forall k a, (k, a) <> (AErc, t) -> ibal s' (ip_recv p, k, a) = ibal s (ip_recv p, k, a)).
  Lemma recv_rule_table p s s' :
    recv isender p s = (s', true) -> 0 <= ip_recv p -> 0 <= ip_dst p -> memo_untouched p ->
    match recv_rule_of (ip_denom p) (ip_hex p) with
    | RKeepNative => ibal s' (ip_recv p, AFx, 0) = ibal s (ip_recv p, AFx, 0) + ip_amt p /\
                     (forall k a, (k, a) <> (AFx, 0) -> ibal s' (ip_recv p, k, a) = ibal s (ip_recv p, k, a))
    | RPairOfVoucher t | RPairOfBase t => credited_erc20 p s s' t
    | RRefuse | RNoPair => False
    end.
  Proof.
    intros H Hr Hd Hmu. destruct (ip_denom p) as [|t|t| |t] eqn:Ed.
    - cbn. destruct (recv_success_fx p s s' H Ed Hr Hd Hmu) as (_ & A & B). split; assumption.
    - destruct (recv_success_erc20 p s s' H) as (t' & [E|E] & Hh & _ & _ & A & B); try assumption; try (rewrite Ed; discriminate);
        rewrite Ed in E; inversion E; subst. cbn. rewrite Hh. split; assumption.
    - destruct (recv_success_erc20 p s s' H) as (t' & [E|E] & _); try assumption; try (rewrite Ed; discriminate); rewrite Ed in E; discriminate.
    - destruct (recv_success_erc20 p s s' H) as (t' & [E|E] & _); try assumption; try (rewrite Ed; discriminate); rewrite Ed in E; discriminate.
    - destruct (recv_success_erc20 p s s' H) as (t' & [E|E] & Hh & _ & _ & A & B); try assumption; try (rewrite Ed; discriminate);
        rewrite Ed in E; inversion E; subst. cbn. rewrite Hh. split; assumption.
  Qed.

  (* a receiver the bank refuses to credit (module account / blocked address): always refused, whatever the coin *)
  Lemma recv_blocked_refused p s s' ok :
    recv isender p s = (s', ok) -> ip_recv p = BlockedAddr -> ok = false /\ s' = s.
  Proof.
    rewrite recv_unfold. intros H Hb. unfold transfer_recv in H. rewrite Hb, Z.eqb_refl in H.
    destruct (negb (ip_addr_ok p)); [inversion H; auto|]. destruct (ip_amt p <=? 0); inversion H; auto.
  Qed.

  (* a memo call that carries value: executed only if the derived sender has an account and can pay; the value moves from the
     derived sender to the callee — nobody else pays *)
  Lemma memo_value_paid_by_derived_sender p s1 c2 f v :
    ip_memo p = MemoCall f v -> memo_step isender p s1 = Ok c2 ->
    let from := isender (ip_src p) (ip_sender p) in
    has_acct s1 from = true /\ v <= ibal s1 (from, AFx, 0) /\ f = false /\
    forall k, ibal c2 k = ladd (ladd (ibal s1) (from, AFx, 0) (- v)) (Callee, AFx, 0) v k.
  Proof.
    unfold memo_step. intros -> H. cbn zeta. destruct (v <? 0); [discriminate|].
    destruct (has_acct s1 _) eqn:Ha; cbn [negb] in H; [|discriminate].
    destruct (Z.ltb_spec (ibal s1 (isender (ip_src p) (ip_sender p), AFx, 0)) v); [discriminate|].
    destruct f; inversion H; subst. split; [reflexivity|]. split; [lia|]. split; [reflexivity|]. intros k. reflexivity.
  Qed.

  (* a non-native token to a bech32 receiver is never accepted *)
  Lemma recv_bech32_refused p s s' ok :
    recv isender p s = (s', ok) -> ip_denom p <> DFx -> ip_hex p = false -> ok = false.
  Proof.
    intros H Hd Hh. destruct ok; [|reflexivity]. exfalso.
    rewrite recv_unfold in H.
    destruct (ip_addr_ok p); cbv beta iota delta [negb] in H; [|inversion H].
    destruct (transfer_recv p s) as [c1|c1]; [|inversion H].
    destruct (hook_recv isender p c1) as [c2|c2] eqn:Eh; [|inversion H].
    unfold hook_recv in Eh. rewrite Hh in Eh. destruct (ip_denom p); try congruence; cbn in Eh; discriminate.
  Qed.

  (* the memo call, whenever it is executed (succeeding or failing), runs as the derived sender *)
  Lemma hook_call_sender p s a :
    In (EvCall a) (ilog (written (hook_recv isender p s))) ->
    In (EvCall a) (ilog s) \/ a = isender (ip_src p) (ip_sender p).
  Proof.
    unfold hook_recv.
    set (conv := match ip_denom p with DFx => Ok s | _ => _ end).
    assert (Hconv : forall e, In e (ilog (written conv)) -> In e (ilog s) \/ exists r t n, e = EvCredit r t n).
    { subst conv. intros e. destruct (ip_denom p) as [|t|t| |t]; cbn [written]; auto;
        cbn [voucher_asset]; destruct (negb (ip_hex p)); cbn [written]; auto.
      - destruct (voucher_to_self _ _ _ _ s) as [s1|s1] eqn:Ev; cbn [bind written].
        + pose proof (voucher_to_self_proj _ _ _ _ _ _ Ev) as (_&_&L1&_).
          destruct (convert_coin _ _ _ s1) as [s2|s2] eqn:Ec; cbn [bind written].
          * pose proof (convert_coin_proj _ _ _ _ _ Ec) as (_&_&L2&_). cbn [ilog with_log]. rewrite L2, L1.
            intros Hin. apply in_app_or in Hin. destruct Hin as [|[<-|[]]]; eauto.
          * unfold convert_coin in Ec. destruct (negb _); [inversion Ec; subst; rewrite L1; auto|].
            unfold pay in Ec. cbn [bind] in Ec. destruct (_ <? _); cbn [bind] in Ec; inversion Ec; subst; rewrite L1; auto.
        + unfold voucher_to_self, pay in Ev.
          destruct (_ <? _); cbn [bind] in Ev; [inversion Ev; subst; auto|].
          match type of Ev with (if ?c then _ else _) = _ => destruct c end; inversion Ev; subst; auto.
      - destruct (voucher_to_self _ _ _ _ s) as [s1|s1] eqn:Ev; cbn [bind written].
        + pose proof (voucher_to_self_proj _ _ _ _ _ _ Ev) as (_&_&L1&_). rewrite L1. auto.
        + unfold voucher_to_self, pay in Ev.
          destruct (_ <? _); cbn [bind] in Ev; [inversion Ev; subst; auto|].
          match type of Ev with (if ?c then _ else _) = _ => destruct c end; inversion Ev; subst; auto.
      - destruct (voucher_to_self _ _ _ _ s) as [s1|s1] eqn:Ev; cbn [bind written].
        + pose proof (voucher_to_self_proj _ _ _ _ _ _ Ev) as (_&_&L1&_). rewrite L1. auto.
        + unfold voucher_to_self, pay in Ev.
          destruct (_ <? _); cbn [bind] in Ev; [inversion Ev; subst; auto|].
          match type of Ev with (if ?c then _ else _) = _ => destruct c end; inversion Ev; subst; auto.
      - destruct (convert_coin _ _ _ s) as [s2|s2] eqn:Ec; cbn [bind written].
        + pose proof (convert_coin_proj _ _ _ _ _ Ec) as (_&_&L2&_). cbn [ilog with_log]. rewrite L2.
          intros Hin. apply in_app_or in Hin. destruct Hin as [|[<-|[]]]; eauto.
        + unfold convert_coin in Ec. destruct (negb _); [inversion Ec; subst; auto|].
          unfold pay in Ec. cbn [bind] in Ec. destruct (_ <? _); cbn [bind] in Ec; inversion Ec; subst; auto. }
    destruct conv as [s1|s1]; cbn [bind written] in *.
    - intros Hin. destruct (memo_step_calls p s1 a Hin) as [Hin'|E]; [|auto].
      destruct (Hconv _ Hin') as [|(r&t&n&E)]; [auto|discriminate].
    - intros Hin. destruct (Hconv _ Hin) as [|(r&t&n&E)]; [auto|discriminate].
  Qed.
End Recv.

(* ------------------------------------------------------------------------------------------ *)
(** * the exactly-once argument over all operation lists *)

Lemma count_app {A} (f : A -> bool) l1 l2 : count f (l1 ++ l2) = (count f l1 + count f l2)%nat.
Proof. unfold count. rewrite filter_app, app_length. reflexivity. Qed.

Section Runs.
  Variable isender : Z -> Z -> Z.

  Definition benign (e : event) : Prop :=
    (exists r t n, e = EvCredit r t n) \/ (exists c sd, e = EvCall (isender c sd)).

  (* what one operation can do to (relation set, send sequences, ghost log) *)
  Inductive eff (s s' : ist) : Prop :=
  | EffSame (evs : list event) :
      rel s' = rel s -> (forall c, nextseq s' c = nextseq s c) -> ilog s' = ilog s ++ evs ->
      (forall e, In e evs -> benign e) -> eff s s'
  | EffSendEvm (c : Z) :
      rel s' = (c, nextseq s c) :: rel s ->
      (forall c', nextseq s' c' = if c' =? c then nextseq s c + 1 else nextseq s c') ->
      ilog s' = ilog s ++ [EvSendEvm c (nextseq s c)] -> eff s s'
  | EffSendPlain (c : Z) :
      rel s' = rel s ->
      (forall c', nextseq s' c' = if c' =? c then nextseq s c + 1 else nextseq s c') ->
      ilog s' = ilog s -> eff s s'
  | EffReconv (c q who t n : Z) :
      In (c, q) (rel s) -> rel s' = del_rel (rel s) c q -> (forall c', nextseq s' c' = nextseq s c') ->
      ilog s' = ilog s ++ [EvReconv c q who t n] -> eff s s'
  | EffDrop (c q : Z) :        (* success acknowledgement: the record goes, nothing is re-converted *)
      rel s' = del_rel (rel s) c q -> (forall c', nextseq s' c' = nextseq s c') -> ilog s' = ilog s -> eff s s'
  | EffClear :                 (* genesis export / import as the code is: every record goes, nothing is re-converted *)
      rel s' = [] -> (forall c', nextseq s' c' = nextseq s c') -> ilog s' = ilog s -> eff s s'.

  Lemma eff_refl s : eff s s.
  Proof. apply (EffSame s s []); auto; [rewrite app_nil_r; reflexivity|intros e []]. Qed.

  Lemma eff_same_proj s s' : same_proj s s' -> eff s s'.
  Proof.
    intros (R&N&L&_). apply (EffSame s s' []); auto; [rewrite N; reflexivity|rewrite app_nil_r; exact L|intros e []].
  Qed.

  (* shape of a successful follow-up *)
  Lemma hook_ok_shape p s s' :
    hook_recv isender p s = Ok s' ->
    rel s' = rel s /\ nextseq s' = nextseq s /\ exists evs, ilog s' = ilog s ++ evs /\ forall e, In e evs -> benign e.
  Proof.
    unfold hook_recv. intros H. apply bind_ok in H. destruct H as (s1 & Hconv & Hmemo).
    assert (C : rel s1 = rel s /\ nextseq s1 = nextseq s /\ exists evs, ilog s1 = ilog s ++ evs /\ forall e, In e evs -> benign e).
    { destruct (ip_denom p) as [|t|t| |t].
      - inversion Hconv; subst. repeat split. exists []. rewrite app_nil_r. split; [reflexivity|intros e []].
      - destruct (negb (ip_hex p)); [discriminate|]. cbn [voucher_asset] in Hconv.
        apply bind_ok in Hconv. destruct Hconv as (v1 & Hv & Hc). apply bind_ok in Hc. destruct Hc as (v2 & Hcc & Hl).
        inversion Hl; subst s1. clear Hl.
        pose proof (voucher_to_self_proj _ _ _ _ _ _ Hv) as (R1&N1&L1&_).
        pose proof (convert_coin_proj _ _ _ _ _ Hcc) as (R2&N2&L2&_).
        cbn [rel nextseq ilog with_log]. repeat split; try congruence.
        exists [EvCredit (ip_recv p) t (ip_amt p)]. split; [congruence|].
        intros e [<-|[]]. left. eauto.
      - destruct (negb (ip_hex p)); [discriminate|]. cbn [voucher_asset] in Hconv.
        apply bind_ok in Hconv. destruct Hconv as (v1 & _ & Hc). discriminate.
      - destruct (negb (ip_hex p)); [discriminate|]. cbn [voucher_asset] in Hconv.
        apply bind_ok in Hconv. destruct Hconv as (v1 & _ & Hc). discriminate.
      - destruct (negb (ip_hex p)); [discriminate|].
        apply bind_ok in Hconv. destruct Hconv as (v2 & Hcc & Hl). inversion Hl; subst s1. clear Hl.
        pose proof (convert_coin_proj _ _ _ _ _ Hcc) as (R2&N2&L2&_).
        cbn [rel nextseq ilog with_log]. repeat split; try congruence.
        exists [EvCredit (ip_recv p) t (ip_amt p)]. split; [congruence|].
        intros e [<-|[]]. left. eauto. }
    destruct C as (R & N & evs & L & B).
    destruct (memo_step_shape isender p s1 s' Hmemo) as (R' & N' & [L'|L']).
    - split; [congruence|]. split; [congruence|]. exists evs. split; [congruence|exact B].
    - split; [congruence|]. split; [congruence|].
      exists (evs ++ [EvCall (isender (ip_src p) (ip_sender p))]). split; [rewrite L', L, app_assoc; reflexivity|].
      intros e Hin. apply in_app_or in Hin. destruct Hin as [Hin|[<-|[]]]; [auto|]. right. eauto.
  Qed.

  Lemma transfer_recv_proj p s s' : transfer_recv p s = Ok s' -> same_proj s s'.
  Proof.
    unfold transfer_recv. destruct (_ <=? _); [discriminate|]. destruct (_ =? _); [discriminate|].
    destruct (ip_denom p); cbn [voucher_asset]; intros H;
      try (eapply pay_proj; eauto; fail);
      (eapply same_proj_trans; [apply mint_proj|eapply pay_proj; eauto]).
  Qed.

  Lemma recv_eff p s : eff s (fst (recv isender p s)).
  Proof.
    rewrite recv_unfold. destruct (negb _); [apply eff_refl|].
    destruct (transfer_recv p s) as [c1|c1] eqn:Et; [|apply eff_refl].
    destruct (hook_recv isender p c1) as [c2|c2] eqn:Eh; [|apply eff_refl]. cbn [fst].
    pose proof (transfer_recv_proj _ _ _ Et) as (R1&N1&L1&_).
    destruct (hook_ok_shape _ _ _ Eh) as (R2 & N2 & evs & L2 & B).
    apply (EffSame s c2 evs); [congruence| |congruence|exact B]. intros c. rewrite N2, N1. reflexivity.
  Qed.

  Lemma new_packet_proj s0 s chan sender d amt :
    same_proj s0 s ->
    let s' := new_packet s chan sender d amt false in
    rel s' = rel s0 /\ (forall c', nextseq s' c' = if c' =? chan then nextseq s0 chan + 1 else nextseq s0 c') /\ ilog s' = ilog s0.
  Proof. intros (R&N&L&_). cbn. rewrite R, N, L. repeat split. Qed.

  Lemma new_packet_evm_proj s0 s chan sender d amt :
    same_proj s0 s ->
    let s' := new_packet s chan sender d amt true in
    rel s' = (chan, nextseq s0 chan) :: rel s0 /\
    (forall c', nextseq s' c' = if c' =? chan then nextseq s0 chan + 1 else nextseq s0 c') /\
    ilog s' = ilog s0 ++ [EvSendEvm chan (nextseq s0 chan)].
  Proof. intros (R&N&L&_). cbn. rewrite R, N, L. repeat split. Qed.

  Lemma voucher_out_proj s c a t n s' : voucher_out s c a t n = Ok s' -> same_proj s s'.
  Proof. unfold voucher_out. destruct (c =? t); [apply burn_proj|apply pay_proj]. Qed.
  Lemma voucher_back_proj s c a t n s' : voucher_back s c a t n = Ok s' -> same_proj s s'.
  Proof.
    unfold voucher_back. destruct (c =? t); [|apply pay_proj].
    intros H. eapply same_proj_trans; [apply mint_proj|eapply pay_proj; eassumption].
  Qed.

  Ltac chain :=
    repeat match goal with
           | H : voucher_out _ _ _ _ _ = Ok _ |- _ => apply voucher_out_proj in H
           | H : bind _ _ = Ok _ |- _ => apply bind_ok in H; let x := fresh "x" in let H1 := fresh "P" in let H2 := fresh "Q" in destruct H as (x & H1 & H2)
           | H : pay _ _ _ _ _ _ = Ok _ |- _ => apply pay_proj in H
           | H : burn _ _ _ _ _ = Ok _ |- _ => apply burn_proj in H
           end.

  Ltac finish_send s :=
    match goal with
    | Hq : Ok (new_packet ?x _ _ _ _ _) = Ok ?s' |- _ =>
        inversion Hq; subst s';
        assert (SP : same_proj s x) by (repeat (eapply same_proj_trans; [eassumption|]); apply same_proj_refl)
    end.

  Lemma send_from_evm_eff c a d n s s' : send_from_evm c a d n s = Ok s' -> eff s s'.
  Proof.
    unfold send_from_evm. destruct (_ <=? _); [discriminate|].
    destruct d as [|t|t| |t]; try discriminate.
    - intros H. chain. finish_send s.
      destruct (new_packet_proj s _ c a DFx n SP) as (R&N&L). eapply EffSendPlain; eauto.
    - destruct (negb _); [discriminate|]. intros H. chain. finish_send s.
      destruct (new_packet_evm_proj s _ c a (DAlias t) n SP) as (R&N&L). eapply EffSendEvm; eauto.
  Qed.

  Lemma send_plain_eff c a d n s s' : send_plain c a d n s = Ok s' -> eff s s'.
  Proof.
    unfold send_plain. destruct (_ <=? _); [discriminate|].
    destruct d as [|t|t| |t]; try discriminate.
    - intros H. chain. finish_send s.
      destruct (new_packet_proj s _ c a DFx n SP) as (R&N&L). eapply EffSendPlain; eauto.
    - intros H. chain. finish_send s.
      destruct (new_packet_proj s _ c a (DOwn t) n SP) as (R&N&L). eapply EffSendPlain; eauto.
    - destruct (negb _); [discriminate|]. intros H. chain. finish_send s.
      destruct (new_packet_proj s _ c a (DAlias t) n SP) as (R&N&L). eapply EffSendPlain; eauto.
    - intros H. chain. finish_send s.
      destruct (new_packet_proj s _ c a (DBase t) n SP) as (R&N&L). eapply EffSendPlain; eauto.
  Qed.

  (* the refund either leaves the relation alone (nothing recorded for this packet) or consumes the record and re-converts *)
  Lemma refund_shape pk s s' :
    refund pk s = Ok s' ->
    (in_rel (rel s) (p_chan pk) (p_seq pk) = false /\ same_proj s s') \/
    (exists t, In (p_chan pk, p_seq pk) (rel s) /\ rel s' = del_rel (rel s) (p_chan pk) (p_seq pk) /\
               nextseq s' = nextseq s /\ ilog s' = ilog s ++ [EvReconv (p_chan pk) (p_seq pk) (p_sender pk) t (p_amt pk)] /\
               commits s' = commits s /\ sent s' = sent s).
  Proof.
    unfold refund. destruct (p_denom pk) as [|t|t| |t]; try discriminate; intros H.
    - apply bind_ok in H. destruct H as (s1 & P1 & H1). apply pay_proj in P1.
      destruct P1 as (R&N&L&C&S&PO&HA). rewrite R in H1.
      destruct (in_rel (rel s) _ _) eqn:E; [discriminate|]. inversion H1; subst. left. split; [reflexivity|].
      repeat split; assumption.
    - apply bind_ok in H. destruct H as (s1 & P1 & H1). apply bind_ok in H1. destruct H1 as (s2 & P2 & H2).
      assert (SP : same_proj s s2).
      { eapply same_proj_trans; [apply mint_proj|]. eapply same_proj_trans; [eapply pay_proj; eassumption|].
        eapply voucher_to_self_proj; eassumption. }
      destruct SP as (R&N&L&C&S&PO&HA). rewrite R in H2.
      destruct (in_rel (rel s) _ _) eqn:E.
      + apply bind_ok in H2. destruct H2 as (s3 & P3 & H3). apply convert_coin_proj in P3.
        destruct P3 as (R3&N3&L3&C3&S3&_). inversion H3; subst s'. cbn [rel nextseq ilog commits sent with_rel with_log] in *.
        right. exists t. split; [apply in_rel_In; exact E|]. repeat split; congruence.
      + inversion H2; subst. left. split; [reflexivity|]. repeat split; assumption.
    - destruct (pair_on s VoucherMeta).
      { apply bind_ok in H. destruct H as (s1 & P1 & H1). apply bind_ok in H1. destruct H1 as (s2 & P2 & H2).
        assert (SP : same_proj s s2).
        { eapply same_proj_trans; [eapply voucher_back_proj; eassumption|].
          eapply voucher_to_self_proj; eassumption. }
        destruct SP as (R&N&L&C&S&PO&HA). rewrite R in H2.
        destruct (in_rel (rel s) _ _) eqn:E; [discriminate|]. inversion H2; subst. left. split; [reflexivity|].
        repeat split; assumption. }
      apply bind_ok in H. destruct H as (s1 & P1 & H1). apply bind_ok in H1. destruct H1 as (s2 & P2 & H2).
      apply bind_ok in H2. destruct H2 as (s3 & P3 & H3).
      assert (SP : same_proj s s3).
      { eapply same_proj_trans; [eapply voucher_back_proj; eassumption|].
        eapply same_proj_trans; [eapply pay_proj; eassumption|].
        eapply same_proj_trans; [apply mint_proj|]. eapply pay_proj; eassumption. }
      destruct SP as (R&N&L&C&S&PO&HA). rewrite R in H3.
      destruct (in_rel (rel s) _ _) eqn:E.
      + apply bind_ok in H3. destruct H3 as (s4 & P4 & H4). apply convert_coin_proj in P4.
        destruct P4 as (R4&N4&L4&C4&S4&_). inversion H4; subst s'. cbn [rel nextseq ilog commits sent with_rel with_log] in *.
        right. exists t. split; [apply in_rel_In; exact E|]. repeat split; congruence.
      + inversion H3; subst. left. split; [reflexivity|]. repeat split; assumption.
    - apply bind_ok in H. destruct H as (s1 & P1 & H1). apply pay_proj in P1.
      destruct P1 as (R&N&L&C&S&PO&HA). rewrite R in H1.
      destruct (in_rel (rel s) _ _) eqn:E.
      + apply bind_ok in H1. destruct H1 as (s2 & P2 & H2). apply convert_coin_proj in P2.
        destruct P2 as (R2&N2&L2&C2&S2&_). inversion H2; subst s'. cbn [rel nextseq ilog commits sent with_rel with_log] in *.
        right. exists t. split; [apply in_rel_In; exact E|]. repeat split; congruence.
      + inversion H1; subst. left. split; [reflexivity|]. repeat split; assumption.
  Qed.

  Lemma refund_eff pk s s' : refund pk s = Ok s' -> eff s s'.
  Proof.
    intros H. destruct (refund_shape _ _ _ H) as [[_ SP]|(t & Hin & R & N & L & _ & _)].
    - apply eff_same_proj. exact SP.
    - eapply EffReconv; eauto. intros c'. rewrite N. reflexivity.
  Qed.

  Lemma cb_eff (cb : packet -> ist -> result ist) :
    (forall pk x x', cb pk x = Ok x' -> eff x x') ->
    forall pk s (f : ist -> ist), (forall x, rel (f x) = rel x /\ nextseq (f x) = nextseq x /\ ilog (f x) = ilog x) -> eff s (fst (tx (fun x => cb pk (f x)) s)).
  Proof.
    intros Hcb pk s f Hf. unfold tx, branch, commit, discard.
    destruct (cb pk (f s)) as [x'|x'] eqn:E; cbn [fst]; [|apply eff_refl].
    specialize (Hcb _ _ _ E). destruct (Hf s) as (R&N&L).
    destruct Hcb as [evs R' N' L' B|c R' N' L'|c R' N' L'|c q who t n I R' N' L'|c q R' N' L'|R' N' L'].
    - apply (EffSame s x' evs); [congruence| |congruence|exact B]. intros c. rewrite N', N. reflexivity.
    - rewrite N, R, L in *. eapply EffSendEvm; eauto.
    - rewrite N, R, L in *. eapply EffSendPlain; eauto.
    - rewrite R, L in *. eapply EffReconv; eauto. intros c'. rewrite N', N. reflexivity.
    - rewrite R, L in *. eapply EffDrop; eauto. intros c'. rewrite N', N. reflexivity.
    - rewrite L in *. eapply EffClear; eauto. intros c'. rewrite N', N. reflexivity.
  Qed.

  Lemma on_ack_eff ok pk x x' : on_ack pk ok x = Ok x' -> eff x x'.
  Proof.
    unfold on_ack. destruct ok; [|apply refund_eff]. intros H; inversion H; subst.
    eapply EffDrop; reflexivity.
  Qed.

  Lemma step_eff s o : eff s (step isender s o).
  Proof.
    destruct o as [c a d n|c a d n|p|c q ok|c q|c q ok|c q|t|]; cbn [step].
    - unfold tx, branch, commit, discard. destruct (send_from_evm c a d n s) eqn:E; cbn [fst]; [eapply send_from_evm_eff; eauto|apply eff_refl].
    - unfold tx, branch, commit, discard. destruct (send_plain c a d n s) eqn:E; cbn [fst]; [eapply send_plain_eff; eauto|apply eff_refl].
    - apply recv_eff.
    - unfold core_deliver. destruct (find_pk _ _ _) as [pk|]; [|apply eff_refl].
      apply (cb_eff (fun pk => on_ack pk ok)); [intros; eapply on_ack_eff; eauto|intros x; repeat split].
    - unfold core_deliver. destruct (find_pk _ _ _) as [pk|]; [|apply eff_refl].
      apply (cb_eff on_timeout); [intros; eapply refund_eff; eauto|intros x; repeat split].
    - unfold raw_deliver. destruct (find_pk _ _ _) as [pk|]; [|apply eff_refl].
      apply (cb_eff (fun pk => on_ack pk ok) (fun pk x x' H => on_ack_eff ok pk x x' H) pk s (fun x => x)). intros x. repeat split.
    - unfold raw_deliver. destruct (find_pk _ _ _) as [pk|]; [|apply eff_refl].
      apply (cb_eff on_timeout (fun pk x x' H => refund_eff pk x x' H) pk s (fun x => x)). intros x. repeat split.
    - apply (EffSame _ _ []); auto; [rewrite app_nil_r; reflexivity|intros e []].
    - apply EffClear; reflexivity.
  Qed.

  (* the invariant *)
  Definition inv (s : ist) : Prop :=
    NoDup (rel s) /\
    (forall c q, In (c, q) (rel s) -> q < nextseq s c) /\
    (forall c q, (count (is_sendevm c q) (ilog s) <= 1)%nat) /\
    (forall c q, (0 < count (is_sendevm c q) (ilog s))%nat -> q < nextseq s c) /\
    (forall c q, (count (is_reconv c q) (ilog s) + (if in_rel (rel s) c q then 1 else 0) <= count (is_sendevm c q) (ilog s))%nat).

  Lemma benign_counts evs c q :
    (forall e, In e evs -> benign e) -> count (is_sendevm c q) evs = 0%nat /\ count (is_reconv c q) evs = 0%nat.
  Proof.
    induction evs as [|e r IH]; intros H; [split; reflexivity|].
    destruct IH as [I1 I2]; [intros; apply H; right; assumption|].
    unfold count in *. cbn [filter].
    destruct (H e (or_introl eq_refl)) as [(a&b&n&->)|(a&b&->)]; cbn; auto.
  Qed.

  Lemma in_rel_cons r c q c' q' : in_rel ((c, q) :: r) c' q' = ((c' =? c) && (q' =? q)) || in_rel r c' q'.
  Proof. reflexivity. Qed.

  Lemma in_rel_del_other r c q c' q' : (c', q') <> (c, q) -> in_rel (del_rel r c q) c' q' = in_rel r c' q'.
  Proof.
    intros Hne. destruct (in_rel r c' q') eqn:E.
    - apply in_rel_In. apply in_del_rel. split; [apply in_rel_In; exact E|exact Hne].
    - destruct (in_rel (del_rel r c q) c' q') eqn:E2; [|reflexivity].
      apply in_rel_In in E2. apply in_del_rel in E2. destruct E2 as [E2 _]. apply in_rel_In in E2. congruence.
  Qed.

  Lemma NoDup_del_rel r c q : NoDup r -> NoDup (del_rel r c q).
  Proof. unfold del_rel. apply NoDup_filter. Qed.

  Lemma inv_eff s s' : inv s -> eff s s' -> inv s'.
  Proof.
    intros (I1 & I2 & I3 & I4 & I5) E.
    destruct E as [evs R N L B|c R N L|c R N L|c q who t n Hin R N L|c q R N L|R N L]; unfold inv; rewrite R, L.
    6: { repeat split.
      + constructor.
      + intros c' q' [].
      + auto.
      + intros c' q' Hc. rewrite N. auto.
      + intros c' q'. specialize (I5 c' q'). cbn [in_rel existsb]. destruct (in_rel (rel s) c' q'); lia. }
    - repeat split; auto.
      + intros c q Hi. rewrite N. auto.
      + intros c q. rewrite count_app. destruct (benign_counts evs c q B) as [-> _]. rewrite Nat.add_0_r. auto.
      + intros c q. rewrite count_app. destruct (benign_counts evs c q B) as [-> _]. rewrite Nat.add_0_r, N. auto.
      + intros c q. rewrite !count_app. destruct (benign_counts evs c q B) as [-> ->]. rewrite !Nat.add_0_r. auto.
    - set (q0 := nextseq s c) in *.
      assert (Hfresh : ~ In (c, q0) (rel s)) by (intros Hi; specialize (I2 _ _ Hi); subst q0; lia).
      assert (Hzero : count (is_sendevm c q0) (ilog s) = 0%nat).
      { destruct (count (is_sendevm c q0) (ilog s)) eqn:E; [reflexivity|].
        assert (q0 < nextseq s c) by (apply I4; rewrite E; lia). subst q0. lia. }
      repeat split.
      + constructor; assumption.
      + intros c' q' [Heq|Hi]; rewrite N.
        * inversion Heq; subst. rewrite Z.eqb_refl. lia.
        * specialize (I2 _ _ Hi). destruct (Z.eqb_spec c' c); [subst; fold q0; lia|lia].
      + intros c' q'. rewrite count_app. unfold count at 2. cbn [filter is_sendevm].
        destruct ((c =? c') && (q0 =? q')) eqn:E; cbn [length].
        * apply andb_true_iff in E. destruct E as [E1 E2]. apply Z.eqb_eq in E1, E2. subst c' q'. rewrite Hzero. lia.
        * specialize (I3 c' q'). lia.
      + intros c' q'. rewrite count_app. unfold count at 2. cbn [filter is_sendevm]. rewrite N.
        destruct ((c =? c') && (q0 =? q')) eqn:E; cbn [length].
        * apply andb_true_iff in E. destruct E as [E1 E2]. apply Z.eqb_eq in E1, E2. subst c' q'. rewrite Z.eqb_refl. lia.
        * intros Hc. rewrite Nat.add_0_r in Hc. specialize (I4 _ _ Hc). destruct (Z.eqb_spec c' c); [subst; fold q0; lia|lia].
      + intros c' q'. rewrite !count_app. unfold count at 2 4. cbn [filter is_sendevm is_reconv length]. rewrite in_rel_cons.
        destruct ((c =? c') && (q0 =? q')) eqn:E; cbn [length].
        * apply andb_true_iff in E. destruct E as [E1 E2]. apply Z.eqb_eq in E1, E2. subst c' q'.
          rewrite !Z.eqb_refl. cbn [andb orb]. specialize (I5 c q0). rewrite Hzero in *. lia.
        * assert (((c' =? c) && (q' =? q0)) = false) as ->.
          { rewrite (Z.eqb_sym c' c), (Z.eqb_sym q' q0). exact E. }
          cbn [orb]. specialize (I5 c' q'). lia.
    - repeat split; auto.
      + intros c' q' Hi. rewrite N. specialize (I2 _ _ Hi). destruct (Z.eqb_spec c' c); [subst; lia|lia].
      + intros c' q' Hc. rewrite N. specialize (I4 _ _ Hc). destruct (Z.eqb_spec c' c); [subst; lia|lia].
    - assert (Hrel : in_rel (rel s) c q = true) by (apply in_rel_In; exact Hin).
      repeat split.
      + apply NoDup_del_rel. exact I1.
      + intros c' q' Hi. apply in_del_rel in Hi. rewrite N. apply I2. tauto.
      + intros c' q'. rewrite count_app. unfold count at 2. cbn [filter is_sendevm length]. rewrite Nat.add_0_r. auto.
      + intros c' q'. rewrite count_app. unfold count at 2. cbn [filter is_sendevm length]. rewrite Nat.add_0_r, N. auto.
      + intros c' q'. rewrite !count_app. unfold count at 2 4. cbn [filter is_sendevm is_reconv length].
        destruct ((c =? c') && (q =? q')) eqn:E; cbn [length].
        * apply andb_true_iff in E. destruct E as [E1 E2]. apply Z.eqb_eq in E1, E2. subst c' q'.
          rewrite in_rel_del. specialize (I5 c q). rewrite Hrel in I5. lia.
        * rewrite in_rel_del_other.
          -- specialize (I5 c' q'). lia.
          -- intros Heq. inversion Heq; subst. rewrite !Z.eqb_refl in E. discriminate.
    - repeat split.
      + apply NoDup_del_rel. exact I1.
      + intros c' q' Hi. apply in_del_rel in Hi. rewrite N. apply I2. tauto.
      + auto.
      + intros c' q' Hc. rewrite N. auto.
      + intros c' q'. specialize (I5 c' q').
        destruct (in_rel (del_rel (rel s) c q) c' q') eqn:E; [|lia].
        apply in_rel_In in E. apply in_del_rel in E. destruct E as [E _]. apply in_rel_In in E. rewrite E in I5. exact I5.
  Qed.

  Lemma inv_run ops : forall s, inv s -> inv (run isender ops s).
  Proof.
    induction ops as [|o r IH]; intros s Hs; [exact Hs|]. cbn [run fold_left].
    apply IH. eapply inv_eff; [exact Hs|apply step_eff].
  Qed.

  Lemma inv_fresh s : rel s = [] -> ilog s = [] -> inv s.
  Proof.
    intros R L. unfold inv. rewrite R, L.
    split; [constructor|]. split; [intros ? ? []|]. split; [intros; cbn; lia|].
    split; [intros c q H; cbn in H; lia|]. intros; cbn; lia.
  Qed.

  (* per (channel, sequence) the ERC-20 re-conversion happens at most once, and only for a transfer started from the EVM *)
  Lemma refund_once s0 ops c q :
    inv s0 ->
    let s := run isender ops s0 in
    (count (is_reconv c q) (ilog s) <= 1)%nat /\
    ((0 < count (is_reconv c q) (ilog s))%nat -> count (is_sendevm c q) (ilog s) = 1%nat).
  Proof.
    intros H. destruct (inv_run ops s0 H) as (_ & _ & I3 & _ & I5). cbn zeta.
    specialize (I3 c q). specialize (I5 c q). split; [lia|]. intros. destruct (in_rel _ _ _); lia.
  Qed.

  (* every memo call that left a trace ran as a derived sender *)
  Lemma eff_calls s s' a : eff s s' -> In (EvCall a) (ilog s') -> In (EvCall a) (ilog s) \/ exists c sd, a = isender c sd.
  Proof.
    intros E Hin. destruct E as [evs R N L B|c R N L|c R N L|c q who t n I R N L|c q R N L|R N L]; rewrite L in Hin;
      try (apply in_app_or in Hin; destruct Hin as [Hin|Hin]); auto.
    - destruct (B _ Hin) as [(r&t&n&E)|(c0&sd&E)]; [discriminate|]. inversion E. eauto.
    - destruct Hin as [E|[]]; discriminate.
    - destruct Hin as [E|[]]; discriminate.
  Qed.

  Lemma run_calls ops : forall s a,
    In (EvCall a) (ilog (run isender ops s)) -> In (EvCall a) (ilog s) \/ exists c sd, a = isender c sd.
  Proof.
    induction ops as [|o r IH]; intros s a Hin; [left; exact Hin|]. cbn [run fold_left] in Hin.
    destruct (IH _ _ Hin) as [H|H]; [|right; exact H]. eapply eff_calls; [apply step_eff|exact H].
  Qed.

  (** ** tracking record removal *)

  Lemma refund_removes pk s s' : refund pk s = Ok s' -> in_rel (rel s') (p_chan pk) (p_seq pk) = false.
  Proof.
    intros H. destruct (refund_shape _ _ _ H) as [[E (R&_)]|(t & _ & R & _)]; rewrite R; [exact E|apply in_rel_del].
  Qed.

  Lemma find_pk_spec l c q pk : find_pk l c q = Some pk -> p_chan pk = c /\ p_seq pk = q.
  Proof.
    unfold find_pk. intros H. apply find_some in H. destruct H as [_ H]. unfold pk_is in H.
    apply andb_true_iff in H. destruct H as [H1 H2]. apply Z.eqb_eq in H1, H2. auto.
  Qed.

  (* success acknowledgement, failure acknowledgement and timeout, delivered by the core: unless the delivery itself
     fails (and changes nothing), the record of (channel, sequence) is gone afterwards *)
  Lemma delivery_removes_record c q s :
    let s0 := core_deliver (fun pk => on_ack pk true) c q s in
    let s1 := core_deliver (fun pk => on_ack pk false) c q s in
    let s2 := core_deliver on_timeout c q s in
    (s0 = s \/ in_rel (rel s0) c q = false) /\ (s1 = s \/ in_rel (rel s1) c q = false) /\ (s2 = s \/ in_rel (rel s2) c q = false).
  Proof.
    cbn zeta. unfold core_deliver. destruct (find_pk (commits s) c q) as [pk|] eqn:F; [|repeat split; left; reflexivity].
    destruct (find_pk_spec _ _ _ _ F) as [<- <-].
    unfold tx, branch, commit, discard, on_ack, on_timeout. split; [|].
    - right. cbn [fst rel with_rel with_commits]. apply in_rel_del.
    - destruct (refund pk (with_commits s _)) as [x|x] eqn:E; cbn [fst]; [|split; left; reflexivity].
      split; right; eapply refund_removes; eauto.
  Qed.

  (* a delivered success acknowledgement really is processed: the commitment is gone too *)
  Lemma success_ack_processed c q s pk :
    find_pk (commits s) c q = Some pk ->
    let s0 := core_deliver (fun pk => on_ack pk true) c q s in
    in_rel (rel s0) c q = false /\ find_pk (commits s0) c q = None /\ ibal s0 = ibal s /\ ilog s0 = ilog s.
  Proof.
    intros F. cbn zeta. unfold core_deliver. rewrite F. destruct (find_pk_spec _ _ _ _ F) as [<- <-].
    unfold tx, branch, commit, on_ack. cbn [fst rel with_rel with_commits commits ibal ilog].
    split; [apply in_rel_del|]. split; [|split; reflexivity].
    unfold find_pk, del_pk. destruct (find _ (filter _ _)) eqn:E; [|reflexivity].
    apply find_some in E. destruct E as [Hin Hp]. apply filter_In in Hin. destruct Hin as [_ Hn]. rewrite Hp in Hn. discriminate.
  Qed.
End Runs.

(* ------------------------------------------------------------------------------------------ *)
(** * the refund clause, exactly: to its sender, the amount sent, as ERC-20, once — over histories *)

Lemma pay_ok s from to kind t amt :
  amt <= ibal s (from, kind, t) ->
  pay s from to kind t amt = Ok (with_acct (with_bal s (ladd (ladd (ibal s) (from, kind, t) (- amt)) (to, kind, t) amt)) to).
Proof. intros H. unfold pay. destruct (Z.ltb_spec (ibal s (from, kind, t)) amt); [lia|reflexivity]. Qed.

Ltac peel2 :=
  repeat first [ rewrite ladd_same_holder
               | rewrite ladd_other_holder by (unfold ModTransfer, ModErc20, Supply, Escrow; lia) ].
Ltac kinds := unfold ACoin, AVoucher, AErc, AFx in *; cbn [Z.eqb Pos.eqb andb]; rewrite ?Z.eqb_refl; cbn [andb].
Ltac bal := cbn [ibal mint with_bal with_acct with_rel with_log rel]; peel2; kinds; try lia.

Lemma alias_refund_exact pk s t :
  p_denom pk = DAlias t -> in_rel (rel s) (p_chan pk) (p_seq pk) = true ->
  pair_on s VoucherMeta = false -> pair_on s Erc20Switch && pair_on s t = true ->
  0 < p_amt pk -> 0 <= p_sender pk -> 0 <= p_chan pk ->
  0 <= ibal s (p_sender pk, AVoucher, t) -> 0 <= ibal s (p_sender pk, ACoin, t) ->
  0 <= ibal s (ModTransfer, AVoucher, t) -> 0 <= ibal s (ModTransfer, ACoin, t) ->
  (p_chan pk = t \/ p_amt pk <= ibal s (Escrow (p_chan pk), AVoucher, t)) ->
  exists s', refund pk s = Ok s' /\
    ibal s' (p_sender pk, AErc, t) = ibal s (p_sender pk, AErc, t) + p_amt pk /\
    (forall k a, (k, a) <> (AErc, t) -> ibal s' (p_sender pk, k, a) = ibal s (p_sender pk, k, a)) /\
    rel s' = del_rel (rel s) (p_chan pk) (p_seq pk) /\ commits s' = commits s /\
    ilog s' = ilog s ++ [EvReconv (p_chan pk) (p_seq pk) (p_sender pk) t (p_amt pk)].
Proof.
  intros Hd Hrel Hm Hon Hamt Hwho Hc Hv Hcn Hmv Hmc Hback.
  unfold refund. rewrite Hd, Hm. unfold voucher_back.
  set (who := p_sender pk) in *. set (amt := p_amt pk) in *. set (c := p_chan pk) in *. set (q := p_seq pk) in *.
  destruct (Z.eqb_spec c t) as [Ect|Ect].
  - rewrite pay_ok by bal. cbn [bind].
    rewrite pay_ok by bal. cbn [bind].
    rewrite pay_ok by bal. cbn [bind].
    cbn [rel with_bal with_acct mint]. rewrite Hrel.
    unfold convert_coin. cbn [pair_on with_rel with_bal with_acct mint]. rewrite Hon. cbn [negb].
    rewrite pay_ok by bal. cbn [bind].
    eexists. split; [reflexivity|]. repeat split.
    + bal.
    + intros k a Hne. cbn [ibal mint with_bal with_acct with_rel with_log]. peel2. unfold ACoin, AVoucher, AErc in *.
      repeat match goal with |- context [?x =? ?y] => destruct (Z.eqb_spec x y) end; cbn [andb]; try lia; exfalso; apply Hne; congruence.
  - destruct Hback as [E|Hesc]; [contradiction|].
    rewrite pay_ok by bal. cbn [bind].
    rewrite pay_ok by bal. cbn [bind].
    rewrite pay_ok by bal. cbn [bind].
    cbn [rel with_bal with_acct mint]. rewrite Hrel.
    unfold convert_coin. cbn [pair_on with_rel with_bal with_acct mint]. rewrite Hon. cbn [negb].
    rewrite pay_ok by bal. cbn [bind].
    eexists. split; [reflexivity|]. repeat split.
    + bal.
    + intros k a Hne. cbn [ibal mint with_bal with_acct with_rel with_log]. peel2. unfold ACoin, AVoucher, AErc in *.
      repeat match goal with |- context [?x =? ?y] => destruct (Z.eqb_spec x y) end; cbn [andb]; try lia; exfalso; apply Hne; congruence.
Qed.

Section Exact.
  Variable isender : Z -> Z -> Z.

  Lemma memo_step_commits p s1 c2 : memo_step isender p s1 = Ok c2 -> commits c2 = commits s1.
  Proof.
    unfold memo_step. intros H.
    destruct (ip_memo p) as [| | |f v]; try (inversion H; subst; reflexivity); try discriminate.
    destruct (v <? 0); [discriminate|]. destruct (negb (has_acct s1 _)); [discriminate|]. destruct (_ <? _); [discriminate|].
    destruct f; inversion H; subst. reflexivity.
  Qed.

  Lemma hook_recv_commits p s s' : hook_recv isender p s = Ok s' -> commits s' = commits s.
  Proof.
    unfold hook_recv. intros H. apply bind_ok in H. destruct H as (s1 & Hconv & Hmemo).
    rewrite (memo_step_commits _ _ _ Hmemo).
    destruct (ip_denom p) as [|t|t| |t].
    - inversion Hconv; reflexivity.
    - destruct (negb (ip_hex p)); [discriminate|]. cbn [voucher_asset] in Hconv.
      apply bind_ok in Hconv. destruct Hconv as (v1 & Hv & Hc). apply bind_ok in Hc. destruct Hc as (v2 & Hcc & Hl).
      inversion Hl; subst s1. cbn [commits with_log].
      pose proof (voucher_to_self_proj _ _ _ _ _ _ Hv) as (_&_&_&C1&_).
      pose proof (convert_coin_proj _ _ _ _ _ Hcc) as (_&_&_&C2&_). congruence.
    - destruct (negb (ip_hex p)); [discriminate|]. cbn [voucher_asset] in Hconv.
      apply bind_ok in Hconv. destruct Hconv as (v1 & _ & Hc). discriminate.
    - destruct (negb (ip_hex p)); [discriminate|]. cbn [voucher_asset] in Hconv.
      apply bind_ok in Hconv. destruct Hconv as (v1 & _ & Hc). discriminate.
    - destruct (negb (ip_hex p)); [discriminate|].
      apply bind_ok in Hconv. destruct Hconv as (v2 & Hcc & Hl). inversion Hl; subst s1. cbn [commits with_log].
      pose proof (convert_coin_proj _ _ _ _ _ Hcc) as (_&_&_&C2&_). exact C2.
  Qed.

  Lemma recv_commits p s : commits (fst (recv isender p s)) = commits s.
  Proof.
    rewrite recv_unfold. destruct (negb _); [reflexivity|].
    destruct (transfer_recv p s) as [c1|c1] eqn:Et; [|reflexivity].
    destruct (hook_recv isender p c1) as [c2|c2] eqn:Eh; [|reflexivity]. cbn [fst].
    rewrite (hook_recv_commits _ _ _ Eh). pose proof (transfer_recv_proj _ _ _ Et) as (_&_&_&C&_). exact C.
  Qed.

  Lemma find_del_pk l c q : find_pk (del_pk l c q) c q = None.
  Proof.
    unfold find_pk, del_pk. destruct (find _ (filter _ _)) eqn:E; [|reflexivity].
    apply find_some in E. destruct E as [Hin Hp]. apply filter_In in Hin. destruct Hin as [_ Hn]. rewrite Hp in Hn. discriminate.
  Qed.

  Lemma find_del_pk_other l c q c' q' : (c', q') <> (c, q) -> find_pk (del_pk l c' q') c q = find_pk l c q.
  Proof.
    intros Hne. unfold find_pk, del_pk. induction l as [|x l IH]; [reflexivity|]. cbn [filter find].
    destruct (pk_is c' q' x) eqn:E1; cbn [negb].
    - destruct (pk_is c q x) eqn:E2; [|exact IH]. exfalso. apply Hne. unfold pk_is in *.
      apply andb_true_iff in E1, E2. destruct E1 as [A1 A2], E2 as [B1 B2]. apply Z.eqb_eq in A1, A2, B1, B2. congruence.
    - cbn [find]. destruct (pk_is c q x); [reflexivity|exact IH].
  Qed.

  Definition inflight (s : ist) (c q : Z) (pk : packet) : Prop :=
    find_pk (commits s) c q = Some pk /\ in_rel (rel s) c q = true /\ q < nextseq s c.

  (* operations that are not a delivery of (c, q) itself — neither by the core nor replayed — and not a genesis export / import *)
  Definition quiet (c q : Z) (o : op) : bool :=
    match o with
    | Ack c' q' _ | Timeout c' q' | AckRaw c' q' _ | TimeoutRaw c' q' => negb ((c' =? c) && (q' =? q))
    | ExportImport => false
    | _ => true
    end.

  Lemma send_evm_shape c a d n s s' :
    send_from_evm c a d n s = Ok s' -> exists x evm, same_proj s x /\ s' = new_packet x c a d n evm.
  Proof.
    unfold send_from_evm. destruct (_ <=? _); [discriminate|].
    destruct d as [|t|t| |t]; try discriminate.
    - intros H. apply bind_ok in H. destruct H as (x & P & Q). inversion Q; subst. exists x, false. split; [eapply pay_proj; eauto|reflexivity].
    - destruct (negb _); [discriminate|]. intros H.
      apply bind_ok in H. destruct H as (x1 & P1 & H). apply bind_ok in H. destruct H as (x2 & P2 & H).
      apply bind_ok in H. destruct H as (x3 & P3 & H). apply bind_ok in H. destruct H as (x4 & P4 & H).
      apply bind_ok in H. destruct H as (x5 & P5 & H). inversion H; subst. exists x5, true. split; [|reflexivity].
      eapply same_proj_trans; [eapply burn_proj; eauto|]. eapply same_proj_trans; [eapply pay_proj; eauto|].
      eapply same_proj_trans; [eapply burn_proj; eauto|]. eapply same_proj_trans; [eapply pay_proj; eauto|].
      eapply voucher_out_proj; eauto.
  Qed.

  Lemma send_plain_shape c a d n s s' :
    send_plain c a d n s = Ok s' -> exists x, same_proj s x /\ s' = new_packet x c a d n false.
  Proof.
    unfold send_plain. destruct (_ <=? _); [discriminate|].
    destruct d as [|t|t| |t]; try discriminate.
    - intros H. apply bind_ok in H. destruct H as (x & P & Q). inversion Q; subst. exists x. split; [eapply pay_proj; eauto|reflexivity].
    - intros H. apply bind_ok in H. destruct H as (x & P & Q). inversion Q; subst. exists x. split; [eapply burn_proj; eauto|reflexivity].
    - destruct (negb _); [discriminate|]. intros H.
      apply bind_ok in H. destruct H as (x1 & P1 & H). apply bind_ok in H. destruct H as (x2 & P2 & H).
      apply bind_ok in H. destruct H as (x3 & P3 & H). inversion H; subst. exists x3. split; [|reflexivity].
      eapply same_proj_trans; [eapply burn_proj; eauto|]. eapply same_proj_trans; [eapply pay_proj; eauto|].
      eapply voucher_out_proj; eauto.
    - intros H. apply bind_ok in H. destruct H as (x & P & Q). inversion Q; subst. exists x. split; [eapply pay_proj; eauto|reflexivity].
  Qed.

  Lemma inflight_new_packet s x c q pk chan a d n evm :
    same_proj s x -> inflight s c q pk -> inflight (new_packet x chan a d n evm) c q pk.
  Proof.
    intros (R&N&L&C&S&PO&CI) (F & Hr & Hq). unfold inflight, new_packet. cbn [commits rel nextseq].
    rewrite R, N, C. repeat split.
    - unfold find_pk. cbn [find]. unfold pk_is at 1. cbn [p_chan p_seq].
      destruct (Z.eqb_spec chan c); [subst; destruct (Z.eqb_spec (nextseq s c) q); [lia|]|]; cbn [andb]; exact F.
    - destruct evm; [|exact Hr]. rewrite in_rel_cons, Hr. apply orb_true_r.
    - destruct (Z.eqb_spec c chan); [subst; lia|exact Hq].
  Qed.

  Lemma cb_frame pk' (cb : packet -> ist -> result ist) x x' :
    (cb = on_timeout \/ exists ok, cb = fun pk => on_ack pk ok) ->
    cb pk' x = Ok x' ->
    commits x' = commits x /\ nextseq x' = nextseq x /\
    (rel x' = rel x \/ rel x' = del_rel (rel x) (p_chan pk') (p_seq pk')).
  Proof.
    intros Hcb H.
    assert (Href : refund pk' x = Ok x' -> commits x' = commits x /\ nextseq x' = nextseq x /\
                   (rel x' = rel x \/ rel x' = del_rel (rel x) (p_chan pk') (p_seq pk'))).
    { intros Hr. destruct (refund_shape _ _ _ Hr) as [[_ (R&N&_&C&_)]|(t & _ & R & N & _ & C & _)]; auto. }
    destruct Hcb as [->|[ok ->]]; [apply Href; exact H|].
    unfold on_ack in H. destruct ok; [|apply Href; exact H]. inversion H; subst. cbn. auto.
  Qed.

  Lemma inflight_deliver_other (cb : packet -> ist -> result ist) c q pk c' q' s :
    (cb = on_timeout \/ exists ok, cb = fun pk => on_ack pk ok) ->
    (c', q') <> (c, q) -> inflight s c q pk ->
    inflight (core_deliver cb c' q' s) c q pk /\ inflight (raw_deliver cb c' q' s) c q pk.
  Proof.
    intros Hcb Hne (F & Hr & Hq). split.
    - unfold core_deliver. destruct (find_pk (commits s) c' q') as [pk'|] eqn:F'; [|repeat split; assumption].
      destruct (find_pk_spec _ _ _ _ F') as [Hc' Hq'].
      unfold tx, branch, commit, discard.
      destruct (cb pk' (with_commits s (del_pk (commits s) c' q'))) as [x'|x'] eqn:E; cbn [fst]; [|repeat split; assumption].
      destruct (cb_frame _ _ _ _ Hcb E) as (C & N & R). cbn [commits nextseq rel with_commits] in C, N, R.
      unfold inflight. rewrite C, N. split; [rewrite find_del_pk_other; assumption|]. split; [|exact Hq].
      destruct R as [->| ->]; [exact Hr|]. rewrite Hc', Hq'. rewrite in_rel_del_other; [exact Hr|congruence].
    - unfold raw_deliver. destruct (find_pk (sent s) c' q') as [pk'|] eqn:F'; [|repeat split; assumption].
      destruct (find_pk_spec _ _ _ _ F') as [Hc' Hq'].
      unfold tx, branch, commit, discard.
      destruct (cb pk' s) as [x'|x'] eqn:E; cbn [fst]; [|repeat split; assumption].
      destruct (cb_frame _ _ _ _ Hcb E) as (C & N & R).
      unfold inflight. rewrite C, N. split; [exact F|]. split; [|exact Hq].
      destruct R as [->| ->]; [exact Hr|]. rewrite Hc', Hq'. rewrite in_rel_del_other; [exact Hr|congruence].
  Qed.

  Lemma quiet_step s o c q pk : inflight s c q pk -> quiet c q o = true -> inflight (step isender s o) c q pk.
  Proof.
    intros I Hq.
    assert (Hne : forall c' q', negb ((c' =? c) && (q' =? q)) = true -> (c', q') <> (c, q)).
    { intros c' q' H E. inversion E; subst. rewrite !Z.eqb_refl in H. discriminate. }
    destruct o as [ch a d n|ch a d n|p|c' q' ok|c' q'|c' q' ok|c' q'|t|]; cbn [step quiet] in *.
    - unfold tx, branch, commit, discard. destruct (send_from_evm ch a d n s) as [s'|s'] eqn:E; cbn [fst]; [|exact I].
      destruct (send_evm_shape _ _ _ _ _ _ E) as (x & evm & SP & ->). apply (inflight_new_packet s); assumption.
    - unfold tx, branch, commit, discard. destruct (send_plain ch a d n s) as [s'|s'] eqn:E; cbn [fst]; [|exact I].
      destruct (send_plain_shape _ _ _ _ _ _ E) as (x & SP & ->). apply (inflight_new_packet s); assumption.
    - destruct I as (F & Hr & Hs). unfold inflight. rewrite recv_commits.
      pose proof (recv_eff isender p s) as E.
      assert (R : rel (fst (recv isender p s)) = rel s /\ nextseq (fst (recv isender p s)) = nextseq s).
      { rewrite recv_unfold. destruct (negb _); [auto|].
        destruct (transfer_recv p s) as [c1|c1] eqn:Et; [|auto].
        destruct (hook_recv isender p c1) as [c2|c2] eqn:Eh; [|auto]. cbn [fst].
        pose proof (transfer_recv_proj _ _ _ Et) as (R1&N1&_).
        destruct (hook_ok_shape _ _ _ _ Eh) as (R2 & N2 & _). split; congruence. }
      destruct R as [-> ->]. repeat split; assumption.
    - apply (inflight_deliver_other (fun pk => on_ack pk ok)); [right; eauto|apply Hne; exact Hq|exact I].
    - apply (inflight_deliver_other on_timeout); [left; reflexivity|apply Hne; exact Hq|exact I].
    - apply (inflight_deliver_other (fun pk => on_ack pk ok)); [right; eauto|apply Hne; exact Hq|exact I].
    - apply (inflight_deliver_other on_timeout); [left; reflexivity|apply Hne; exact Hq|exact I].
    - exact I.
    - discriminate.
  Qed.

  Lemma quiet_run ops : forall s c q pk, inflight s c q pk -> forallb (quiet c q) ops = true -> inflight (run isender ops s) c q pk.
  Proof.
    induction ops as [|o r IH]; intros s c q pk I H; [exact I|]. cbn [forallb] in H. apply andb_true_iff in H. destruct H as [H1 H2].
    cbn [run fold_left]. apply IH; [apply quiet_step; assumption|exact H2].
  Qed.

  Lemma send_evm_inflight c a t n s s' :
    send_from_evm c a (DAlias t) n s = Ok s' -> 0 <= a -> 0 <= c ->
    let pk := {| p_chan := c; p_seq := nextseq s c; p_sender := a; p_denom := DAlias t; p_amt := n |} in
    inflight s' c (nextseq s c) pk /\ 0 < n /\ ibal s' (a, AErc, t) = ibal s (a, AErc, t) - n.
  Proof.
    intros E Ha Hc0. cbn zeta.
    unfold send_from_evm in E. destruct (Z.leb_spec n 0) as [|Hn]; [discriminate|].
    destruct (negb _); [discriminate|].
    apply bind_ok in E. destruct E as (x1 & P1 & E). apply bind_ok in E. destruct E as (x2 & P2 & E).
    apply bind_ok in E. destruct E as (x3 & P3 & E). apply bind_ok in E. destruct E as (x4 & P4 & E).
    apply bind_ok in E. destruct E as (x5 & P5 & E). inversion E; subst s'. clear E.
    assert (SP : same_proj s x5).
    { eapply same_proj_trans; [eapply burn_proj; eauto|]. eapply same_proj_trans; [eapply pay_proj; eauto|].
      eapply same_proj_trans; [eapply burn_proj; eauto|]. eapply same_proj_trans; [eapply pay_proj; eauto|].
      eapply voucher_out_proj; eauto. }
    destruct SP as (R&N&L&C&S&PO&CI).
    split; [|split; [exact Hn|]].
    - unfold inflight, new_packet. cbn [commits rel nextseq]. rewrite N. repeat split.
      + unfold find_pk. cbn [find]. unfold pk_is. cbn [p_chan p_seq]. rewrite !Z.eqb_refl. reflexivity.
      + rewrite in_rel_cons, !Z.eqb_refl. reflexivity.
      + rewrite Z.eqb_refl. lia.
    - unfold new_packet. cbn [ibal].
      unfold voucher_out in P5. destruct (c =? t); unfold pay, burn in *;
        repeat match goal with H : (if ?c then _ else _) = Ok _ |- _ => destruct c; [discriminate|]; inversion H; subst; clear H end;
        cbn [ibal with_bal with_acct]; peel2; unfold ACoin, AVoucher, AErc; cbn [Z.eqb Pos.eqb andb]; rewrite ?Z.eqb_refl; cbn [andb]; lia.
  Qed.

  Definition refund_guards (s : ist) (a c t n : Z) : Prop :=
    pair_on s VoucherMeta = false /\ pair_on s Erc20Switch && pair_on s t = true /\
    0 <= ibal s (a, AVoucher, t) /\ 0 <= ibal s (a, ACoin, t) /\
    0 <= ibal s (ModTransfer, AVoucher, t) /\ 0 <= ibal s (ModTransfer, ACoin, t) /\
    (c = t \/ n <= ibal s (Escrow c, AVoucher, t)).

  Lemma delivery_exact s c q a t n :
    let pk := {| p_chan := c; p_seq := q; p_sender := a; p_denom := DAlias t; p_amt := n |} in
    inflight s c q pk -> 0 < n -> 0 <= a -> 0 <= c -> refund_guards s a c t n ->
    forall o, o = Timeout c q \/ o = Ack c q false ->
    let s' := step isender s o in
    ibal s' (a, AErc, t) = ibal s (a, AErc, t) + n /\
    (forall k x, (k, x) <> (AErc, t) -> ibal s' (a, k, x) = ibal s (a, k, x)) /\
    in_rel (rel s') c q = false /\ find_pk (commits s') c q = None /\
    ilog s' = ilog s ++ [EvReconv c q a t n].
  Proof.
    cbn zeta. intros (F & Hr & Hq) Hn Ha Hc (G1 & G2 & G3 & G4 & G5 & G6 & G7) o Ho.
    set (pk := {| p_chan := c; p_seq := q; p_sender := a; p_denom := DAlias t; p_amt := n |}) in *.
    assert (E : step isender s o = fst (tx (fun x => refund pk (with_commits x (del_pk (commits x) c q))) s)).
    { destruct Ho as [-> | ->]; cbn [step]; unfold core_deliver; rewrite F; reflexivity. }
    rewrite E. unfold tx, branch, commit, discard.
    destruct (alias_refund_exact pk (with_commits s (del_pk (commits s) c q)) t) as (s' & Hs' & B1 & B2 & R & C & L);
      try reflexivity; try assumption.
    rewrite Hs'. cbn [fst]. cbn [ibal rel commits ilog with_commits p_sender p_amt p_chan p_seq pk] in *.
    split; [exact B1|]. split; [exact B2|]. split; [rewrite R; apply in_rel_del|]. split; [rewrite C; apply find_del_pk|exact L].
  Qed.

  Lemma eff_log_app s s' : eff isender s s' -> exists evs, ilog s' = ilog s ++ evs.
  Proof.
    intros E. destruct E as [evs R N L B|c R N L|c R N L|c q who t n I R N L|c q R N L|R N L]; rewrite L; eauto;
      exists []; rewrite app_nil_r; reflexivity.
  Qed.

  Lemma run_log_app ops : forall s, exists evs, ilog (run isender ops s) = ilog s ++ evs.
  Proof.
    induction ops as [|o r IH]; intros s; [exists []; rewrite app_nil_r; reflexivity|]. cbn [run fold_left].
    destruct (IH (step isender s o)) as (e2 & E2). destruct (eff_log_app _ _ (step_eff isender s o)) as (e1 & E1).
    exists (e1 ++ e2). fold (run isender r (step isender s o)). rewrite E2, E1, app_assoc. reflexivity.
  Qed.

  Lemma run_app a b s : run isender (a ++ b) s = run isender b (run isender a s).
  Proof. unfold run. apply fold_left_app. Qed.

  Lemma run_cons o l s : run isender (o :: l) s = run isender l (step isender s o).
  Proof. reflexivity. Qed.

  (* the refund clause over histories *)
  Lemma refund_exact_over_histories s0 ops1 c a t n s2 ops2 o ops3 :
    inv s0 ->
    let s1 := run isender ops1 s0 in
    let q := nextseq s1 c in
    send_from_evm c a (DAlias t) n s1 = Ok s2 -> 0 <= a -> 0 <= c ->
    forallb (quiet c q) ops2 = true ->
    let s3 := run isender ops2 s2 in
    refund_guards s3 a c t n ->
    o = Timeout c q \/ o = Ack c q false ->
    let s4 := step isender s3 o in
    let s5 := run isender ops3 s4 in
    ibal s2 (a, AErc, t) = ibal s1 (a, AErc, t) - n /\
    ibal s4 (a, AErc, t) = ibal s3 (a, AErc, t) + n /\
    (forall k x, (k, x) <> (AErc, t) -> ibal s4 (a, k, x) = ibal s3 (a, k, x)) /\
    in_rel (rel s4) c q = false /\ find_pk (commits s4) c q = None /\
    count (is_reconv c q) (ilog s5) = 1%nat /\ in_rel (rel s5) c q = false.
  Proof.
    intros Hinv. cbn zeta. intros Hsend Ha Hc Hquiet G Ho.
    destruct (send_evm_inflight _ _ _ _ _ _ Hsend Ha Hc) as (I2 & Hn & Hbal).
    pose proof (quiet_run ops2 _ _ _ _ I2 Hquiet) as I3.
    destruct (delivery_exact _ _ _ _ _ _ I3 Hn Ha Hc G o Ho) as (B1 & B2 & R4 & C4 & L4).
    split; [exact Hbal|]. split; [exact B1|]. split; [exact B2|]. split; [exact R4|]. split; [exact C4|].
    set (q := nextseq (run isender ops1 s0) c) in *.
    set (s4 := step isender (run isender ops2 s2) o) in *.
    assert (Hall : run isender ops3 s4 = run isender (ops1 ++ SendFromEvm c a (DAlias t) n :: ops2 ++ o :: ops3) s0).
    { rewrite run_app, run_cons, run_app, run_cons. unfold s4. f_equal. f_equal. f_equal.
      cbn [step]. unfold tx, branch, commit. rewrite Hsend. reflexivity. }
    pose proof (inv_run isender (ops1 ++ SendFromEvm c a (DAlias t) n :: ops2 ++ o :: ops3) s0 Hinv) as Hi. rewrite <- Hall in Hi. clear Hall.
    destruct Hi as (_ & _ & I3' & _ & I5). specialize (I3' c q). specialize (I5 c q).
    destruct (run_log_app ops3 s4) as (evs & Ev).
    assert (Hge : (1 <= count (is_reconv c q) (ilog (run isender ops3 s4)))%nat).
    { rewrite Ev, L4, !count_app. unfold count at 2. cbn [filter is_reconv]. rewrite !Z.eqb_refl. cbn [andb length]. lia. }
    destruct (in_rel (rel (run isender ops3 s4)) c q); split; try reflexivity; lia.
  Qed.

  (* what a delivery by the core does, without an escape clause: nothing without a commitment; a success acknowledgement always
     goes through; a failure acknowledgement and a timeout are the same callback — the refund — and go through exactly when the
     refund does; when it is refused (conversion switched off, …) the transaction fails, NOTHING changes and the delivery can
     be repeated.  Whenever a delivery goes through, record and commitment of (channel, sequence) are gone. *)
  Lemma delivery_outcomes c q s :
    let s0 := core_deliver (fun pk => on_ack pk true) c q s in
    let s1 := core_deliver (fun pk => on_ack pk false) c q s in
    let s2 := core_deliver on_timeout c q s in
    match find_pk (commits s) c q with
    | None => s0 = s /\ s1 = s /\ s2 = s
    | Some pk =>
        (in_rel (rel s0) c q = false /\ find_pk (commits s0) c q = None) /\
        s1 = s2 /\
        match refund pk (with_commits s (del_pk (commits s) c q)) with
        | Ok x => s2 = x /\ in_rel (rel s2) c q = false /\ find_pk (commits s2) c q = None
        | Err _ => s2 = s
        end
    end.
  Proof.
    cbn zeta. unfold core_deliver. destruct (find_pk (commits s) c q) as [pk|] eqn:F; [|repeat split].
    destruct (find_pk_spec _ _ _ _ F) as [Hc Hq].
    unfold tx, branch, commit, discard, on_ack, on_timeout. split; [|split; [reflexivity|]].
    - cbn [fst rel commits with_rel with_commits]. rewrite <- Hc, <- Hq at 1. split; [rewrite Hc, Hq; apply in_rel_del|apply find_del_pk].
    - destruct (refund pk (with_commits s (del_pk (commits s) c q))) as [x|x] eqn:E; cbn [fst]; [|reflexivity].
      split; [reflexivity|]. split.
      + pose proof (refund_removes _ _ _ E) as H. rewrite Hc, Hq in H. exact H.
      + destruct (refund_shape _ _ _ E) as [[_ (_&_&_&C&_)]|(t & _ & _ & _ & _ & C & _)]; rewrite C; cbn [commits with_commits]; apply find_del_pk.
  Qed.
End Exact.


(* ------------------------------------------------------------------------------------------ *)
(** * concrete runs: refutation of "record removed on success", non-vacuity *)

Definition ex_isender (c sd : Z) : Z := 1000 + 100 * c + sd.
Definition ex_bal : ledger := fun k =>
  if key_eqb k (0, AErc, 0) then 500 else if key_eqb k (Supply, AErc, 0) then 500 else
  if key_eqb k (ModErc20, ACoin, 0) then 500 else if key_eqb k (Supply, ACoin, 0) then 500 else
  if key_eqb k (ModTransfer, AVoucher, 0) then 400 else if key_eqb k (Supply, AVoucher, 0) then 400 else
  if key_eqb k (Escrow 0, AFx, 0) then 50 else 0.
Definition ex_state : ist :=
  {| ibal := ex_bal; rel := []; nextseq := fun _ => 1; commits := []; sent := []; pair_on := fun t => negb (t =? VoucherMeta);
     has_acct := fun a => a =? 1700; chanid := fun c => 1000 + c; ilog := [] |}.

(* regression, labelled: the success path BEFORE the fix (finding C19-1) left the record in place *)
Lemma prefix_record_kept_on_success :
  exists pk s s', in_rel (rel s) (p_chan pk) (p_seq pk) = true /\ on_ack_prefix pk true s = Ok s' /\
                  in_rel (rel s') (p_chan pk) (p_seq pk) = true.
Proof.
  exists {| p_chan := 0; p_seq := 1; p_sender := 0; p_denom := DAlias 0; p_amt := 30 |},
         (with_rel ex_state [(0, 1)]), (with_rel ex_state [(0, 1)]). vm_compute. repeat split.
Qed.

Lemma c19_nonvacuous :
  (* success acknowledgement of an EVM-started transfer: nothing refunded, record and commitment gone; a replayed failure
     acknowledgement afterwards refunds coins (the core's job to stop) but never ERC-20 *)
  (let s := run ex_isender [SendFromEvm 0 0 (DAlias 0) 30; Ack 0 1 true; AckRaw 0 1 false] ex_state in
   ibal s (0, AErc, 0) = 470 /\ rel s = [] /\ commits s = [] /\ count (is_reconv 0 1) (ilog s) = 0%nat /\ ibal s (0, ACoin, 0) = 30) /\
  (* timeout of an EVM-started transfer: refunded as ERC-20, record gone; the replay refunds coins (core's job to stop) but never ERC-20 again *)
  (let s := run ex_isender [SendFromEvm 0 0 (DAlias 0) 30; Timeout 0 1; TimeoutRaw 0 1; AckRaw 0 1 false] ex_state in
   ibal s (0, AErc, 0) = 500 /\ rel s = [] /\ count (is_reconv 0 1) (ilog s) = 1%nat /\ ibal s (0, ACoin, 0) = 60) /\
  (* inbound own voucher to a hex receiver with a memo call: credited as ERC-20, call ran as the derived sender *)
  (let p := {| ip_src := 7; ip_dst := 0; ip_sender := 0; ip_denom := DOwn 10; ip_amt := 25; ip_addr_ok := true; ip_hex := true; ip_recv := 2; ip_memo := MemoCall false 0 |} in
   let (s, ok) := recv ex_isender p ex_state in
   ok = true /\ ibal s (2, AErc, 10) = 25 /\ ibal s (2, ACoin, 10) = 0 /\ ilog s = [EvCredit 2 10 25; EvCall 1700]) /\
  (* the same packet with a reverting call, to a bech32 receiver, or for an alias voucher: error acknowledgement, nothing changes *)
  (let p := {| ip_src := 7; ip_dst := 0; ip_sender := 0; ip_denom := DOwn 10; ip_amt := 25; ip_addr_ok := true; ip_hex := true; ip_recv := 2; ip_memo := MemoCall true 0 |} in
   snd (recv ex_isender p ex_state) = false) /\
  (let p := {| ip_src := 7; ip_dst := 0; ip_sender := 0; ip_denom := DAlias 0; ip_amt := 25; ip_addr_ok := true; ip_hex := true; ip_recv := 2; ip_memo := NoMemo |} in
   snd (recv ex_isender p ex_state) = false) /\
  (* native FX out of escrow to a bech32 receiver *)
  (let p := {| ip_src := 7; ip_dst := 0; ip_sender := 0; ip_denom := DFx; ip_amt := 20; ip_addr_ok := true; ip_hex := false; ip_recv := 2; ip_memo := NoMemo |} in
   let (s, ok) := recv ex_isender p ex_state in ok = true /\ ibal s (2, AFx, 0) = 20).
Proof. vm_compute. repeat split. Qed.

(* while governance has EnableErc20 switched off (or the pair disabled) the refund of a transfer that has a tracking record
   is REFUSED: the acknowledgement / timeout fails as a whole, nothing changes — record and commitment stay, and the
   delivery can be retried once conversion is enabled again *)
Lemma refund_refused_while_disabled pk s t :
  p_denom pk = DAlias t -> in_rel (rel s) (p_chan pk) (p_seq pk) = true ->
  pair_on s Erc20Switch && pair_on s t = false ->
  exists e, refund pk s = Err e.
Proof.
  intros Hd Hrel Hoff. unfold refund. rewrite Hd.
  destruct (pair_on s VoucherMeta).
  { destruct (voucher_back s (p_chan pk) (p_sender pk) t (p_amt pk)) as [s1|s1] eqn:E1; cbn [bind]; [|eauto].
    destruct (voucher_to_self (p_sender pk) AVoucher t (p_amt pk) s1) as [s2|s2] eqn:E2; cbn [bind]; [|eauto].
    assert (SP : same_proj s s2).
    { eapply same_proj_trans; [eapply voucher_back_proj; eassumption|].
      eapply voucher_to_self_proj; eassumption. }
    destruct SP as (R&_). rewrite R, Hrel. eauto. }
  destruct (voucher_back s (p_chan pk) (p_sender pk) t (p_amt pk)) as [s1|s1] eqn:E1; cbn [bind]; [|eauto].
  destruct (pay s1 (p_sender pk) ModTransfer AVoucher t (p_amt pk)) as [s2|s2] eqn:E2; cbn [bind]; [|eauto].
  destruct (pay (mint s2 ModTransfer ACoin t (p_amt pk)) ModTransfer (p_sender pk) ACoin t (p_amt pk)) as [s3|s3] eqn:E3; cbn [bind]; [|eauto].
  assert (SP : same_proj s s3).
  { eapply same_proj_trans; [eapply voucher_back_proj; eassumption|].
    eapply same_proj_trans; [eapply pay_proj; eassumption|].
    eapply same_proj_trans; [apply mint_proj|]. eapply pay_proj; eassumption. }
  destruct SP as (R&_&_&_&_&PO&_). rewrite R, Hrel.
  unfold convert_coin. cbn [pair_on with_rel]. rewrite PO, Hoff. cbn [negb bind]. eauto.
Qed.

Lemma delivery_refused_while_disabled c q s pk t :
  find_pk (commits s) c q = Some pk -> p_denom pk = DAlias t -> in_rel (rel s) c q = true ->
  pair_on s Erc20Switch && pair_on s t = false ->
  core_deliver on_timeout c q s = s /\ core_deliver (fun pk => on_ack pk false) c q s = s.
Proof.
  intros F Hd Hrel Hoff. destruct (find_pk_spec _ _ _ _ F) as [Hc Hq].
  unfold core_deliver. rewrite F. unfold tx, branch, discard, on_timeout, on_ack.
  destruct (refund_refused_while_disabled pk (with_commits s (del_pk (commits s) c q)) t Hd) as (e & E).
  - cbn [rel with_commits]. rewrite Hc, Hq. exact Hrel.
  - exact Hoff.
  - rewrite E. split; reflexivity.
Qed.

(** * genesis export / import *)

(* what the operation keeps and what it drops, for every state: balances, commitments in flight, sequences and the ghost log
   survive; the tracking records do not (finding C19-2) *)
Lemma export_import_state isender s :
  let s' := step isender s ExportImport in
  ibal s' = ibal s /\ commits s' = commits s /\ sent s' = sent s /\ nextseq s' = nextseq s /\ ilog s' = ilog s /\
  rel s' = [] /\ pair_on s' VoucherMeta = true /\ (forall t, t <> VoucherMeta -> pair_on s' t = pair_on s t).
Proof.
  cbn. repeat split. intros t Ht. destruct (Z.eqb_spec t VoucherMeta); [contradiction|reflexivity].
Qed.

(* FINDING C19-2, labelled: an EVM-started transfer in flight across a genesis export / import is NOT refunded as ERC-20.
   Same send, same timeout: without the export / import the sender's ERC-20 balance is restored (500); with it the
   commitment is consumed, nothing is re-converted, and the sender is left with the voucher coins *)
Lemma export_import_loses_record :
  (let s := run ex_isender [SendFromEvm 0 0 (DAlias 0) 30; Timeout 0 1] ex_state in
   commits s = [] /\ count (is_reconv 0 1) (ilog s) = 1%nat /\ ibal s (0, AErc, 0) = 500) /\
  (let s := run ex_isender [SendFromEvm 0 0 (DAlias 0) 30; ExportImport; Timeout 0 1] ex_state in
   commits s = [] /\ count (is_sendevm 0 1) (ilog s) = 1%nat /\ count (is_reconv 0 1) (ilog s) = 0%nat /\
   ibal s (0, AErc, 0) = 470 /\ ibal s (0, ACoin, 0) = 0 /\ ibal s (0, AVoucher, 0) = 30).
Proof. vm_compute. repeat split. Qed.

(* once the voucher denom of an Alias token has bank metadata of its own (after a genesis import), the refund of a transfer
   that HAS a tracking record can only fail: IBCCoinToBaseCoin hands the voucher itself to ConvertCoin, and no pair goes by
   that name.  Restoring the records at import is therefore necessary but — for Alias vouchers — not sufficient *)
Lemma alias_refund_refused_with_voucher_metadata pk s t :
  p_denom pk = DAlias t -> in_rel (rel s) (p_chan pk) (p_seq pk) = true -> pair_on s VoucherMeta = true ->
  exists e, refund pk s = Err e.
Proof.
  intros Hd Hrel Hm. unfold refund. rewrite Hd, Hm.
  destruct (voucher_back s (p_chan pk) (p_sender pk) t (p_amt pk)) as [s1|s1] eqn:E1; cbn [bind]; [|eauto].
  destruct (voucher_to_self (p_sender pk) AVoucher t (p_amt pk) s1) as [s2|s2] eqn:E2; cbn [bind]; [|eauto].
  assert (SP : same_proj s s2).
  { eapply same_proj_trans; [eapply voucher_back_proj; eassumption|].
    eapply voucher_to_self_proj; eassumption. }
  destruct SP as (R&_). rewrite R, Hrel. eauto.
Qed.

(* no impersonation, under the stated disjointness of derived senders from local accounts *)
Lemma no_impersonation (isender : Z -> Z -> Z) (is_local : Z -> bool) :
  (forall c sd, is_local (isender c sd) = false) ->
  forall ops s a, In (EvCall a) (ilog (run isender ops s)) -> ~ In (EvCall a) (ilog s) -> is_local a = false.
Proof.
  intros H ops s a Hin Hnot. destruct (run_calls isender ops s a Hin) as [Hc|(c & sd & Hc)]; [contradiction|subst; apply H].
Qed.

Lemma no_impersonation_failing_calls (isender : Z -> Z -> Z) (is_local : Z -> bool) :
  (forall c sd, is_local (isender c sd) = false) ->
  forall p s a, In (EvCall a) (ilog (written (hook_recv isender p s))) -> ~ In (EvCall a) (ilog s) -> is_local a = false.
Proof.
  intros H p s a Hin Hnot. destruct (hook_call_sender isender p s a Hin) as [Hc|Hc]; [contradiction|subst; apply H].
Qed.

Lemma refund_once_fresh isender s0 ops c q :
  rel s0 = [] -> ilog s0 = [] ->
  let s := run isender ops s0 in
  (count (is_reconv c q) (ilog s) <= 1)%nat /\
  ((0 < count (is_reconv c q) (ilog s))%nat -> count (is_sendevm c q) (ilog s) = 1%nat).
Proof. intros R L. apply refund_once. apply inv_fresh; assumption. Qed.

(* ------------------------------------------------------------------------------------------ *)
(** * the bank invariant over reachable states; the refund clause with the guards that remain *)

(* the bank invariant: no balance the model tracks is negative (the supply counters aside: they are sums) *)
Definition NN (s : ist) : Prop := forall h k t, h <> Supply -> 0 <= ibal s (h, k, t).

Lemma ladd_val l k d k' : ladd l k d k' = l k' + (if key_eqb k k' then d else 0).
Proof. unfold ladd. destruct (key_eqb k k'); lia. Qed.

Lemma key_eqb_eq a b : key_eqb a b = true -> a = b.
Proof.
  destruct a as [[a1 a2] a3], b as [[b1 b2] b3]. unfold key_eqb. rewrite !andb_true_iff, !Z.eqb_eq. intros [[-> ->] ->]. reflexivity.
Qed.

Lemma pay_NN s from to kind t amt s' : pay s from to kind t amt = Ok s' -> 0 <= amt -> NN s -> NN s'.
Proof.
  unfold pay. destruct (Z.ltb_spec (ibal s (from, kind, t)) amt) as [|Hge]; [discriminate|]. intros H Ha N; inversion H; subst s'. clear H.
  intros h k x Hh. cbn [ibal with_acct with_bal]. rewrite !ladd_val. specialize (N h k x Hh).
  destruct (key_eqb (from, kind, t) (h, k, x)) eqn:E1; destruct (key_eqb (to, kind, t) (h, k, x)) eqn:E2; try lia;
    apply key_eqb_eq in E1; rewrite <- E1 in *; lia.
Qed.

Lemma mint_NN s to k t amt : 0 <= amt -> NN s -> NN (mint s to k t amt).
Proof.
  intros Ha N h k' x Hh. unfold mint. cbn [ibal with_bal]. rewrite !ladd_val. specialize (N h k' x Hh).
  destruct (key_eqb (to, k, t) (h, k', x)); destruct (key_eqb (Supply, k, t) (h, k', x)) eqn:E2; try lia.
  all: apply key_eqb_eq in E2; inversion E2; congruence.
Qed.

Lemma burn_NN s from k t amt s' : burn s from k t amt = Ok s' -> NN s -> NN s'.
Proof.
  unfold burn. destruct (Z.ltb_spec (ibal s (from, k, t)) amt) as [|Hge]; [discriminate|]. intros H N; inversion H; subst s'. clear H.
  intros h k' x Hh. cbn [ibal with_bal]. rewrite !ladd_val. specialize (N h k' x Hh).
  destruct (key_eqb (Supply, k, t) (h, k', x)) eqn:E2; [apply key_eqb_eq in E2; inversion E2; congruence|].
  destruct (key_eqb (from, k, t) (h, k', x)) eqn:E1; [apply key_eqb_eq in E1; rewrite <- E1 in *; lia|lia].
Qed.

Lemma NN_same s s' : ibal s' = ibal s -> NN s -> NN s'.
Proof. intros E N h k t Hh. rewrite E. apply N; exact Hh. Qed.

Ltac nn :=
  repeat match goal with
  | H : bind _ _ = Ok _ |- _ => apply bind_ok in H; let x := fresh "x" in let P := fresh "P" in let Q := fresh "Q" in destruct H as (x & P & Q)
  | H : pay (mint ?s ?a ?k ?t ?n) _ _ _ _ _ = Ok _, N : NN ?s |- _ =>
      let M := fresh "M" in assert (M : NN (mint s a k t n)) by (apply mint_NN; [lia|exact N]); clear N
  | H : pay ?s _ _ _ _ ?n = Ok ?s', N : NN ?s |- _ =>
      let M := fresh "M" in assert (M : NN s') by (eapply pay_NN; [exact H|lia|exact N]); clear H
  | H : burn ?s _ _ _ _ = Ok ?s', N : NN ?s |- _ =>
      let M := fresh "M" in assert (M : NN s') by (eapply burn_NN; [exact H|exact N]); clear H
  end.

Lemma convert_coin_NN who t n s s' : convert_coin who t n s = Ok s' -> 0 <= n -> NN s -> NN s'.
Proof.
  unfold convert_coin. destruct (negb _); [discriminate|]. intros H Hn N. nn. inversion Q; subst. apply mint_NN; [lia|assumption].
Qed.

Lemma voucher_to_self_NN who k t n s s' : voucher_to_self who k t n s = Ok s' -> 0 <= n -> NN s -> NN s'.
Proof. unfold voucher_to_self. intros H Hn N. nn. assumption. Qed.

Section NNops.
  Variable isender : Z -> Z -> Z.

  Lemma send_from_evm_NN c a d n s s' : send_from_evm c a d n s = Ok s' -> NN s -> NN s'.
  Proof.
    unfold send_from_evm. destruct (Z.leb_spec n 0) as [|Hn]; [discriminate|].
    destruct d as [|t|t| |t]; try discriminate; intros H N.
    - nn. match goal with HQ : Ok _ = Ok _ |- _ => inversion HQ; subst end; assumption.
    - destruct (negb _); [discriminate|]. unfold voucher_out in H. destruct (c =? t); nn; match goal with HQ : Ok _ = Ok _ |- _ => inversion HQ; subst end; assumption.
  Qed.

  Lemma send_plain_NN c a d n s s' : send_plain c a d n s = Ok s' -> NN s -> NN s'.
  Proof.
    unfold send_plain. destruct (Z.leb_spec n 0) as [|Hn]; [discriminate|].
    destruct d as [|t|t| |t]; try discriminate; intros H N.
    - nn. match goal with HQ : Ok _ = Ok _ |- _ => inversion HQ; subst end; assumption.
    - nn. match goal with HQ : Ok _ = Ok _ |- _ => inversion HQ; subst end; assumption.
    - destruct (negb _); [discriminate|]. unfold voucher_out in H. destruct (c =? t); nn; match goal with HQ : Ok _ = Ok _ |- _ => inversion HQ; subst end; assumption.
    - nn. match goal with HQ : Ok _ = Ok _ |- _ => inversion HQ; subst end; assumption.
  Qed.

  Lemma transfer_recv_NN p s s' : transfer_recv p s = Ok s' -> NN s -> NN s'.
  Proof.
    unfold transfer_recv. destruct (Z.leb_spec (ip_amt p) 0) as [|Hn]; [discriminate|]. destruct (_ =? _); [discriminate|].
    destruct (ip_denom p); cbn [voucher_asset]; intros H N; nn; assumption.
  Qed.

  Lemma memo_step_NN p s s' : memo_step isender p s = Ok s' -> NN s -> NN s'.
  Proof.
    unfold memo_step. intros H N. destruct (ip_memo p) as [| | |f v]; try (inversion H; subst; exact N); try discriminate.
    destruct (Z.ltb_spec v 0) as [|Hv]; [discriminate|]. destruct (negb _); [discriminate|].
    destruct (Z.ltb_spec (ibal s (isender (ip_src p) (ip_sender p), AFx, 0)) v) as [|Hge]; [discriminate|].
    destruct f; inversion H; subst. intros h k x Hh. cbn [ibal with_log with_bal]. rewrite !ladd_val. specialize (N h k x Hh).
    destruct (key_eqb (isender (ip_src p) (ip_sender p), AFx, 0) (h, k, x)) eqn:E1; destruct (key_eqb (Callee, AFx, 0) (h, k, x)); try lia;
      apply key_eqb_eq in E1; rewrite <- E1 in *; lia.
  Qed.

  Lemma hook_recv_NN p s s' : hook_recv isender p s = Ok s' -> 0 < ip_amt p -> NN s -> NN s'.
  Proof.
    unfold hook_recv. intros H Hn N. apply bind_ok in H. destruct H as (s1 & Hconv & Hmemo).
    apply (memo_step_NN _ _ _ Hmemo).
    destruct (ip_denom p) as [|t|t| |t].
    - inversion Hconv; subst; exact N.
    - destruct (negb (ip_hex p)); [discriminate|]. cbn [voucher_asset] in Hconv.
      apply bind_ok in Hconv. destruct Hconv as (v1 & Hv & Hc). apply bind_ok in Hc. destruct Hc as (v2 & Hcc & Hl).
      inversion Hl; subst s1. apply (NN_same v2); [reflexivity|].
      eapply convert_coin_NN; [exact Hcc|lia|]. eapply voucher_to_self_NN; [exact Hv|lia|exact N].
    - destruct (negb (ip_hex p)); [discriminate|]. cbn [voucher_asset] in Hconv.
      apply bind_ok in Hconv. destruct Hconv as (v1 & _ & Hc). discriminate.
    - destruct (negb (ip_hex p)); [discriminate|]. cbn [voucher_asset] in Hconv.
      apply bind_ok in Hconv. destruct Hconv as (v1 & _ & Hc). discriminate.
    - destruct (negb (ip_hex p)); [discriminate|].
      apply bind_ok in Hconv. destruct Hconv as (v2 & Hcc & Hl). inversion Hl; subst s1. apply (NN_same v2); [reflexivity|].
      eapply convert_coin_NN; [exact Hcc|lia|exact N].
  Qed.

  Lemma recv_NN p s : NN s -> NN (fst (recv isender p s)).
  Proof.
    intros N. rewrite recv_unfold. destruct (negb _); [exact N|].
    destruct (transfer_recv p s) as [c1|c1] eqn:Et; [|exact N].
    destruct (hook_recv isender p c1) as [c2|c2] eqn:Eh; [|exact N]. cbn [fst].
    assert (Hn : 0 < ip_amt p). { unfold transfer_recv in Et. destruct (Z.leb_spec (ip_amt p) 0); [discriminate|lia]. }
    eapply hook_recv_NN; [exact Eh|exact Hn|]. eapply transfer_recv_NN; eassumption.
  Qed.

  Lemma refund_NN pk s s' : refund pk s = Ok s' -> 0 < p_amt pk -> NN s -> NN s'.
  Proof.
    unfold refund. intros H Hn N. destruct (p_denom pk) as [|t|t| |t]; try discriminate.
    - nn. destruct (in_rel _ _ _); [discriminate|]. match goal with HQ : Ok _ = Ok _ |- _ => inversion HQ; subst end; assumption.
    - apply bind_ok in H. destruct H as (s1 & P1 & H). apply bind_ok in H. destruct H as (s2 & P2 & H).
      assert (N1 : NN s1) by (eapply pay_NN; [exact P1|lia|apply mint_NN; [lia|exact N]]).
      assert (N2 : NN s2) by (eapply voucher_to_self_NN; [exact P2|lia|exact N1]).
      destruct (in_rel _ _ _); [|inversion H; subst; exact N2].
      apply bind_ok in H. destruct H as (s3 & P3 & H). inversion H; subst. apply (NN_same s3); [reflexivity|].
      eapply convert_coin_NN; [exact P3|lia|]. apply (NN_same s2); [reflexivity|exact N2].
    - assert (VB : forall x, voucher_back s (p_chan pk) (p_sender pk) t (p_amt pk) = Ok x -> NN x).
      { unfold voucher_back. intros x Hx. destruct (_ =? _); nn; assumption. }
      destruct (pair_on s VoucherMeta).
      + apply bind_ok in H. destruct H as (s1 & P1 & H). apply bind_ok in H. destruct H as (s2 & P2 & H).
        assert (N2 : NN s2) by (eapply voucher_to_self_NN; [exact P2|lia|apply VB; exact P1]).
        destruct (in_rel _ _ _); [discriminate|]. inversion H; subst; exact N2.
      + apply bind_ok in H. destruct H as (s1 & P1 & H). apply bind_ok in H. destruct H as (s2 & P2 & H).
        apply bind_ok in H. destruct H as (s3 & P3 & H).
        assert (N1 : NN s1) by (apply VB; exact P1).
        assert (N2 : NN s2) by (eapply pay_NN; [exact P2|lia|exact N1]).
        assert (N3 : NN s3) by (eapply pay_NN; [exact P3|lia|apply mint_NN; [lia|exact N2]]).
        destruct (in_rel _ _ _); [|inversion H; subst; exact N3].
        apply bind_ok in H. destruct H as (s4 & P4 & H). inversion H; subst. apply (NN_same s4); [reflexivity|].
        eapply convert_coin_NN; [exact P4|lia|]. apply (NN_same s3); [reflexivity|exact N3].
    - apply bind_ok in H. destruct H as (s1 & P1 & H).
      assert (N1 : NN s1) by (eapply pay_NN; [exact P1|lia|exact N]).
      destruct (in_rel _ _ _); [|inversion H; subst; exact N1].
      apply bind_ok in H. destruct H as (s2 & P2 & H). inversion H; subst. apply (NN_same s2); [reflexivity|].
      eapply convert_coin_NN; [exact P2|lia|]. apply (NN_same s1); [reflexivity|exact N1].
  Qed.
End NNops.

Section Inv2.
  Variable isender : Z -> Z -> Z.

  Definition PP (s : ist) : Prop :=
    (forall pk, In pk (commits s) -> 0 < p_amt pk) /\ (forall pk, In pk (sent s) -> 0 < p_amt pk).
  (* the strengthened invariant: the bank invariant + every packet ever sent carries a positive amount *)
  Definition inv2 (s : ist) : Prop := NN s /\ PP s.

  Lemma memo_step_sent p s1 c2 : memo_step isender p s1 = Ok c2 -> sent c2 = sent s1.
  Proof.
    unfold memo_step. intros H.
    destruct (ip_memo p) as [| | |f v]; try (inversion H; subst; reflexivity); try discriminate.
    destruct (v <? 0); [discriminate|]. destruct (negb (has_acct s1 _)); [discriminate|]. destruct (_ <? _); [discriminate|].
    destruct f; inversion H; subst. reflexivity.
  Qed.

  Lemma hook_recv_sent p s s' : hook_recv isender p s = Ok s' -> sent s' = sent s.
  Proof.
    unfold hook_recv. intros H. apply bind_ok in H. destruct H as (s1 & Hconv & Hmemo).
    rewrite (memo_step_sent _ _ _ Hmemo).
    destruct (ip_denom p) as [|t|t| |t].
    - inversion Hconv; reflexivity.
    - destruct (negb (ip_hex p)); [discriminate|]. cbn [voucher_asset] in Hconv.
      apply bind_ok in Hconv. destruct Hconv as (v1 & Hv & Hc). apply bind_ok in Hc. destruct Hc as (v2 & Hcc & Hl).
      inversion Hl; subst s1. cbn [sent with_log].
      pose proof (voucher_to_self_proj _ _ _ _ _ _ Hv) as (_&_&_&_&C1&_).
      pose proof (convert_coin_proj _ _ _ _ _ Hcc) as (_&_&_&_&C2&_). congruence.
    - destruct (negb (ip_hex p)); [discriminate|]. cbn [voucher_asset] in Hconv.
      apply bind_ok in Hconv. destruct Hconv as (v1 & _ & Hc). discriminate.
    - destruct (negb (ip_hex p)); [discriminate|]. cbn [voucher_asset] in Hconv.
      apply bind_ok in Hconv. destruct Hconv as (v1 & _ & Hc). discriminate.
    - destruct (negb (ip_hex p)); [discriminate|].
      apply bind_ok in Hconv. destruct Hconv as (v2 & Hcc & Hl). inversion Hl; subst s1. cbn [sent with_log].
      pose proof (convert_coin_proj _ _ _ _ _ Hcc) as (_&_&_&_&C2&_). exact C2.
  Qed.

  Lemma recv_sent p s : sent (fst (recv isender p s)) = sent s.
  Proof.
    rewrite recv_unfold. destruct (negb _); [reflexivity|].
    destruct (transfer_recv p s) as [c1|c1] eqn:Et; [|reflexivity].
    destruct (hook_recv isender p c1) as [c2|c2] eqn:Eh; [|reflexivity]. cbn [fst].
    rewrite (hook_recv_sent _ _ _ Eh). pose proof (transfer_recv_proj _ _ _ Et) as (_&_&_&_&S&_). exact S.
  Qed.

  Lemma cb_inv2 (cb : packet -> ist -> result ist) pk x x' :
    (cb = on_timeout \/ exists ok, cb = fun pk => on_ack pk ok) ->
    cb pk x = Ok x' -> 0 < p_amt pk -> NN x -> NN x' /\ commits x' = commits x /\ sent x' = sent x.
  Proof.
    intros Hcb H Hn N.
    assert (Href : refund pk x = Ok x' -> NN x' /\ commits x' = commits x /\ sent x' = sent x).
    { intros Hr. split; [eapply refund_NN; eassumption|].
      destruct (refund_shape _ _ _ Hr) as [[_ (_&_&_&C&S&_)]|(t & _ & _ & _ & _ & C & S)]; auto. }
    destruct Hcb as [->|[ok ->]]; [apply Href; exact H|].
    unfold on_ack in H. destruct ok; [|apply Href; exact H]. inversion H; subst. repeat split. exact N.
  Qed.

  Lemma In_del_pk pk l c q : In pk (del_pk l c q) -> In pk l.
  Proof. unfold del_pk. intros H. apply filter_In in H. tauto. Qed.

  Lemma deliver_inv2 (cb : packet -> ist -> result ist) c q s :
    (cb = on_timeout \/ exists ok, cb = fun pk => on_ack pk ok) ->
    inv2 s -> inv2 (core_deliver cb c q s) /\ inv2 (raw_deliver cb c q s).
  Proof.
    intros Hcb (N & PC & PS). split.
    - unfold core_deliver. destruct (find_pk (commits s) c q) as [pk|] eqn:F; [|repeat split; assumption].
      assert (Hn : 0 < p_amt pk) by (apply PC; unfold find_pk in F; apply find_some in F; tauto).
      unfold tx, branch, commit, discard.
      destruct (cb pk (with_commits s (del_pk (commits s) c q))) as [x'|x'] eqn:E; cbn [fst]; [|repeat split; assumption].
      destruct (cb_inv2 _ _ _ _ Hcb E Hn) as (N' & C & S); [exact N|]. cbn [commits sent with_commits] in C, S.
      split; [exact N'|]. split; [intros p Hp; rewrite C in Hp; apply PC; eapply In_del_pk; exact Hp|rewrite S; exact PS].
    - unfold raw_deliver. destruct (find_pk (sent s) c q) as [pk|] eqn:F; [|repeat split; assumption].
      assert (Hn : 0 < p_amt pk) by (apply PS; unfold find_pk in F; apply find_some in F; tauto).
      unfold tx, branch, commit, discard.
      destruct (cb pk s) as [x'|x'] eqn:E; cbn [fst]; [|repeat split; assumption].
      destruct (cb_inv2 _ _ _ _ Hcb E Hn N) as (N' & C & S).
      split; [exact N'|]. split; [rewrite C; exact PC|rewrite S; exact PS].
  Qed.

  Lemma new_packet_PP s x chan a d n evm : same_proj s x -> 0 < n -> PP s -> PP (new_packet x chan a d n evm).
  Proof.
    intros (_&_&_&C&S&_) Hn (PC & PS). unfold PP, new_packet. cbn [commits sent]. rewrite C, S.
    split; intros pk [<-|H]; cbn [p_amt]; auto.
  Qed.

  Lemma step_inv2 s o : inv2 s -> inv2 (step isender s o).
  Proof.
    intros I. pose proof I as (N & P).
    destruct o as [ch a d n|ch a d n|p|c' q' ok|c' q'|c' q' ok|c' q'|t|]; cbn [step].
    - unfold tx, branch, commit, discard. destruct (send_from_evm ch a d n s) as [s'|s'] eqn:E; cbn [fst]; [|exact I].
      split; [eapply send_from_evm_NN; eassumption|].
      destruct (send_evm_shape _ _ _ _ _ _ E) as (x & evm & SP & ->).
      apply (new_packet_PP s); [exact SP| |exact P]. unfold send_from_evm in E. destruct (Z.leb_spec n 0); [discriminate|lia].
    - unfold tx, branch, commit, discard. destruct (send_plain ch a d n s) as [s'|s'] eqn:E; cbn [fst]; [|exact I].
      split; [eapply send_plain_NN; eassumption|].
      destruct (send_plain_shape _ _ _ _ _ _ E) as (x & SP & ->).
      apply (new_packet_PP s); [exact SP| |exact P]. unfold send_plain in E. destruct (Z.leb_spec n 0); [discriminate|lia].
    - split; [apply recv_NN; exact N|]. unfold PP. rewrite recv_commits, recv_sent. exact P.
    - apply (deliver_inv2 (fun pk => on_ack pk ok)); [right; eauto|exact I].
    - apply (deliver_inv2 on_timeout); [left; reflexivity|exact I].
    - apply (deliver_inv2 (fun pk => on_ack pk ok)); [right; eauto|exact I].
    - apply (deliver_inv2 on_timeout); [left; reflexivity|exact I].
    - exact I.
    - exact I.
  Qed.

  Lemma inv2_run ops : forall s, inv2 s -> inv2 (run isender ops s).
  Proof. induction ops as [|o r IH]; intros s I; [exact I|]. cbn [run fold_left]. apply IH. apply step_inv2. exact I. Qed.

  (* what a fresh chain state satisfies: balances not negative, nothing sent yet *)
  Lemma inv2_init s : (forall k, 0 <= ibal s k) -> commits s = [] -> sent s = [] -> inv2 s.
  Proof. intros B C S. split; [intros h k t _; apply B|]. unfold PP. rewrite C, S. split; intros pk []. Qed.
End Inv2.

(* the guards that remain: conversion enabled (otherwise the delivery is refused: refund_refused_while_disabled), no voucher
   metadata (companion effect of finding C19-2), and — only for a transfer routed by the prefix rule over a channel c that is not
   the token's own — the escrow of c still holds the voucher *)
Definition refund_guards2 (s : ist) (c t n : Z) : Prop :=
  pair_on s VoucherMeta = false /\ pair_on s Erc20Switch && pair_on s t = true /\
  (c = t \/ n <= ibal s (Escrow c, AVoucher, t)).

Lemma refund_exact_reachable isender s0 ops1 c a t n s2 ops2 o ops3 :
  inv s0 -> inv2 s0 ->
  let s1 := run isender ops1 s0 in
  let q := nextseq s1 c in
  send_from_evm c a (DAlias t) n s1 = Ok s2 -> 0 <= a -> 0 <= c ->
  forallb (quiet c q) ops2 = true ->
  let s3 := run isender ops2 s2 in
  refund_guards2 s3 c t n ->
  o = Timeout c q \/ o = Ack c q false ->
  let s4 := step isender s3 o in
  let s5 := run isender ops3 s4 in
  ibal s2 (a, AErc, t) = ibal s1 (a, AErc, t) - n /\
  ibal s4 (a, AErc, t) = ibal s3 (a, AErc, t) + n /\
  (forall k x, (k, x) <> (AErc, t) -> ibal s4 (a, k, x) = ibal s3 (a, k, x)) /\
  in_rel (rel s4) c q = false /\ find_pk (commits s4) c q = None /\
  count (is_reconv c q) (ilog s5) = 1%nat /\ in_rel (rel s5) c q = false.
Proof.
  intros Hinv Hinv2. cbn zeta. intros Hsend Ha Hc Hquiet (G1 & G2 & G3) Ho.
  apply (refund_exact_over_histories isender s0 ops1 c a t n s2 ops2 o ops3); try assumption.
  assert (I2 : inv2 s2).
  { pose proof (step_inv2 isender _ (SendFromEvm c a (DAlias t) n) (inv2_run isender ops1 s0 Hinv2)) as H.
    cbn [step] in H. unfold tx, branch, commit in H. rewrite Hsend in H. exact H. }
  destruct (inv2_run isender ops2 s2 I2) as (N3 & _).
  unfold refund_guards. repeat split; try assumption; apply N3; unfold ModTransfer, Supply; lia.
Qed.

Definition nv_fx : inpacket :=
  {| ip_src := 7; ip_dst := 0; ip_sender := 0; ip_denom := DFx; ip_amt := 20; ip_addr_ok := true; ip_hex := false; ip_recv := 2; ip_memo := NoMemo |}.
Definition nv_own : inpacket :=
  {| ip_src := 7; ip_dst := 0; ip_sender := 0; ip_denom := DOwn 10; ip_amt := 25; ip_addr_ok := true; ip_hex := true; ip_recv := 2; ip_memo := MemoCall false 0 |}.
Definition nv_ops1 : list op := [Recv nv_fx].
Definition nv_ops2 : list op :=
  [Recv nv_own; SendFromEvm 0 0 (DAlias 0) 40; TogglePair 5; Timeout 0 2; SendPlain 0 2 DFx 5; AckRaw 0 2 false].
Definition nv_ops3 : list op := [TimeoutRaw 0 1; AckRaw 0 1 false; Timeout 0 1; ExportImport; TimeoutRaw 0 1].

Lemma ex_state_inv2 : inv2 ex_state.
Proof.
  apply inv2_init; try reflexivity. intros k. unfold ex_state, ex_bal. cbn [ibal].
  repeat match goal with |- context [key_eqb ?a ?b] => destruct (key_eqb a b) end; lia.
Qed.

(* a concrete history that satisfies EVERY premise of the universal theorem, with the conclusion's numbers *)
Lemma refund_exact_nonvacuous :
  let s1 := run ex_isender nv_ops1 ex_state in
  let s2 := step ex_isender s1 (SendFromEvm 0 0 (DAlias 0) 30) in
    inv ex_state /\ inv2 ex_state /\
    send_from_evm 0 0 (DAlias 0) 30 s1 = Ok s2 /\ nextseq s1 0 = 1 /\
    forallb (quiet 0 1) nv_ops2 = true /\
    refund_guards2 (run ex_isender nv_ops2 s2) 0 0 30 /\
    let s3 := run ex_isender nv_ops2 s2 in
    let s4 := step ex_isender s3 (Timeout 0 1) in
    let s5 := run ex_isender nv_ops3 s4 in
    ibal s1 (0, AErc, 0) = 500 /\ ibal s2 (0, AErc, 0) = 470 /\ ibal s3 (0, AErc, 0) = 470 /\ ibal s4 (0, AErc, 0) = 500 /\
    ibal s3 (2, AErc, 10) = 25 /\ length (commits s3) = 2%nat /\
    in_rel (rel s4) 0 1 = false /\ find_pk (commits s4) 0 1 = None /\ length (commits s4) = 1%nat /\
    count (is_reconv 0 1) (ilog s5) = 1%nat /\ ibal s5 (0, AErc, 0) = 500.
Proof.
  cbn zeta. split; [apply inv_fresh; reflexivity|]. split; [exact ex_state_inv2|].
  split; [vm_compute; reflexivity|]. vm_compute. repeat split; try reflexivity. left; reflexivity.
Qed.
