(* P_Ledger.v — proofs about the ledger model M_Ledger.v (properties C04 and C08, conversion half). *)
From Coq Require Import ZArith List Bool Lia.
From FxV Require Import model.M_Ledger.
Import ListNotations.
Open Scope Z_scope.

(* ------------------------------------------------------------------------------------------------ *)
(** * Maps *)

Lemma key_eqb_eq a b : key_eqb a b = true <-> a = b.
Proof.
  destruct a, b; unfold key_eqb; cbn. rewrite andb_true_iff, !Z.eqb_eq. split; [intros [-> ->]|intros [= -> ->]]; auto.
Qed.
Lemma key_eqb_refl a : key_eqb a a = true.
Proof. apply key_eqb_eq; reflexivity. Qed.
Lemma key_eqb_neq a b : key_eqb a b = false <-> a <> b.
Proof. rewrite <- key_eqb_eq. destruct (key_eqb a b); intuition congruence. Qed.

Lemma get1_set1 k k' v m : get1 k (set1 k' v m) = if k =? k' then v else get1 k m.
Proof. reflexivity. Qed.
Lemma get2_set2 k k' v m : get2 k (set2 k' v m) = if key_eqb k k' then v else get2 k m.
Proof. reflexivity. Qed.

(* ------------------------------------------------------------------------------------------------ *)
(** * Cells and linear observables of the balances *)

Definition cell_eqb (c1 c2 : cell) : bool :=
  match c1, c2 with
  | CB a d, CB a' d' => (a =? a') && (d =? d')
  | CS d, CS d' => d =? d'
  | CE t a, CE t' a' => (t =? t') && (a =? a')
  | CT t, CT t' => t =? t'
  | _, _ => false
  end.

Lemma cell_eqb_eq c1 c2 : cell_eqb c1 c2 = true <-> c1 = c2.
Proof.
  destruct c1, c2; cbn; try (split; [discriminate|congruence]);
    rewrite ?andb_true_iff, ?Z.eqb_eq; split; try (intros [-> ->]; reflexivity); try (intros ->; reflexivity);
    try (intros [= -> ->]; auto); try (intros [= ->]; auto).
Qed.

Lemma cget_cset c c' v b : cget c (cset c' v b) = if cell_eqb c c' then v else cget c b.
Proof.
  destruct c, c'; cbn; try reflexivity; unfold key_eqb; cbn; reflexivity.
Qed.

Lemma disabled_cset c v b : disabled (cset c v b) = disabled b.
Proof. destruct c; reflexivity. Qed.

(* a linear observable: a function of the balances together with its coefficient on every cell *)
Record lin := {
  L :> bals -> Z;
  coef : cell -> Z;
  L_set : forall c v b, L (cset c v b) = L b + coef c * (v - cget c b);
  L_ext : forall b b', bank b = bank b' -> supply b = supply b' -> ebal b = ebal b' -> etot b = etot b' -> L b = L b'
}.

Fixpoint pdelta (co : cell -> Z) (p : prog) : Z :=
  match p with
  | [] => 0
  | Add c x :: r => co c * x + pdelta co r
  | Sub c x :: r => - (co c * x) + pdelta co r
  | _ :: r => pdelta co r
  end.

Lemma pdelta_app co p q : pdelta co (p ++ q) = pdelta co p + pdelta co q.
Proof. induction p as [|[]]; cbn; lia. Qed.

Lemma runB_lin (l : lin) p : forall b b', runB p b = Some b' -> l b' = l b + pdelta (coef l) p.
Proof.
  induction p as [|a p IH]; cbn; intros b b' H.
  - inversion H; lia.
  - destruct a; cbn in H.
    + apply IH in H. rewrite H, L_set. lia.
    + destruct (x <=? cget c b); [|discriminate]. apply IH in H. rewrite H, L_set. lia.
    + destruct ok; [|discriminate]. apply IH in H. lia.
    + destruct (get1 t (disabled b) =? 0); [|discriminate]. apply IH in H. lia.
Qed.

Lemma runB_disabled p : forall b b', runB p b = Some b' -> disabled b' = disabled b.
Proof.
  induction p as [|a p IH]; cbn; intros b b' H.
  - inversion H; reflexivity.
  - destruct a; cbn in H.
    + apply IH in H. rewrite H. apply disabled_cset.
    + destruct (x <=? cget c b); [|discriminate]. apply IH in H. rewrite H. apply disabled_cset.
    + destruct ok; [|discriminate]. auto.
    + destruct (get1 t (disabled b) =? 0); [|discriminate]. auto.
Qed.

Lemma runB_app p q b : runB (p ++ q) b = match runB p b with Some b' => runB q b' | None => None end.
Proof.
  revert b; induction p as [|a p IH]; cbn; intros b; [reflexivity|].
  destruct (run_act a b); auto.
Qed.

(* the point observable of one cell *)
Program Definition lin_cell (c0 : cell) : lin :=
  {| L := cget c0; coef := fun c => if cell_eqb c0 c then 1 else 0 |}.
Next Obligation.
  rewrite cget_cset. destruct (cell_eqb c0 c) eqn:E; [apply cell_eqb_eq in E; subst|]; lia.
Qed.
Next Obligation. destruct c0; cbn; congruence. Qed.

Program Definition lin_add (l1 l2 : lin) : lin :=
  {| L := fun b => l1 b + l2 b; coef := fun c => coef l1 c + coef l2 c |}.
Next Obligation. rewrite !L_set. lia. Qed.
Next Obligation. rewrite (L_ext l1 b b'), (L_ext l2 b b') by assumption. reflexivity. Qed.

Program Definition lin_scale (k : Z) (l1 : lin) : lin :=
  {| L := fun b => k * l1 b; coef := fun c => k * coef l1 c |}.
Next Obligation. rewrite !L_set. lia. Qed.
Next Obligation. rewrite (L_ext l1 b b') by assumption. reflexivity. Qed.

Program Definition lin_zero : lin := {| L := fun _ => 0; coef := fun _ => 0 |}.

Definition lin_sum {A} (f : A -> lin) (l : list A) : lin := fold_right (fun a acc => lin_add (f a) acc) lin_zero l.

Lemma lin_sum_L {A} (f : A -> lin) l b : lin_sum f l b = fold_right (fun a acc => f a b + acc) 0 l.
Proof. induction l; cbn; [reflexivity|]. rewrite <- IHl. reflexivity. Qed.
Lemma lin_sum_coef {A} (f : A -> lin) l c : coef (lin_sum f l) c = fold_right (fun a acc => coef (f a) c + acc) 0 l.
Proof. induction l; cbn; [reflexivity|]. rewrite <- IHl. reflexivity. Qed.

(* ------------------------------------------------------------------------------------------------ *)
(** * Inversion of the state monad *)

Lemma bind_inv m f s s' : (m ;; f) s = Some s' -> exists s1, m s = Some s1 /\ f s1 = Some s'.
Proof. unfold bind. destruct (m s) as [s1|]; [eauto|discriminate]. Qed.
Lemma guard_inv b s s' : guard b s = Some s' -> b = true /\ s' = s.
Proof. unfold guard. destruct b; [intros [= ->]; auto|discriminate]. Qed.
Lemma doB_inv p s s' : doB p s = Some s' ->
  exists b', runB p (sb s) = Some b' /\ s' = {| sb := b'; sr := sr s; sg := sg s |}.
Proof. unfold doB. destruct (runB p (sb s)) as [b'|]; [intros [= <-]; eauto|discriminate]. Qed.

Ltac minv :=
  repeat match goal with
  | H : (_ ;; _) _ = Some _ |- _ => apply bind_inv in H; let s1 := fresh "s" in let E := fresh "E" in destruct H as [s1 [E H]]
  | H : guard _ _ = Some _ |- _ => apply guard_inv in H; let E := fresh "G" in destruct H as [E ->]
  | H : doB _ _ = Some _ |- _ => apply doB_inv in H; let b := fresh "b" in let E := fresh "R" in destruct H as [b [E ->]]
  | H : updR _ _ = Some _ |- _ => unfold updR in H; injection H as <-
  | H : updG _ _ = Some _ |- _ => unfold updG in H; injection H as <-
  | H : dep_add _ _ _ _ = Some _ |- _ => unfold dep_add, updG in H; injection H as <-
  | H : exe_add _ _ _ _ = Some _ |- _ => unfold exe_add, updG in H; injection H as <-
  | H : ret _ = Some _ |- _ => unfold ret in H; injection H as <-
  | H : fail _ = Some _ |- _ => discriminate H
  | H : None = Some _ |- _ => discriminate H
  end.

(* ------------------------------------------------------------------------------------------------ *)
(** * Lookups in the record lists *)

Lemma find_tok_id g i tk : find_tok g i = Some tk -> t_id tk = i.
Proof. induction g as [|x g IH]; cbn; [discriminate|]. destruct (Z.eqb_spec (t_id x) i); [intros [= <-]; assumption|auto]. Qed.

Lemma find_batch_spec c t n l b : find_batch c t n l = Some b -> In b l /\ b_tok b = t /\ b_chain b = c.
Proof.
  induction l as [|q l IH]; cbn [find_batch]; [discriminate|].
  destruct (is_batch c t n q) eqn:E.
  - intros [= ->]. split; [left; reflexivity|]. unfold is_batch in E.
    apply andb_true_iff in E as [E _]. apply andb_true_iff in E as [E1 E2]. apply Z.eqb_eq in E1, E2. auto.
  - intros H. destruct (IH H) as [? ?]. split; [right|]; assumption.
Qed.
Lemma del_batch_In c t n l b : In b (del_batch c t n l) -> In b l.
Proof.
  induction l as [|q l IH]; cbn [del_batch]; [auto|]. destruct (is_batch c t n q); [intros; right; assumption|].
  intros [->|H]; [left; reflexivity|right; auto].
Qed.
Lemma find_call_spec c n l b : find_call c n l = Some b -> In b l /\ c_chain b = c.
Proof.
  induction l as [|q l IH]; cbn [find_call]; [discriminate|].
  destruct (is_call c n q) eqn:E.
  - intros [= ->]. split; [left; reflexivity|]. unfold is_call in E. apply andb_true_iff in E as [E _]. apply Z.eqb_eq; assumption.
  - intros H. destruct (IH H). split; [right|]; assumption.
Qed.
Lemma del_call_In c n l b : In b (del_call_l c n l) -> In b l.
Proof.
  induction l as [|q l IH]; cbn [del_call_l]; [auto|]. destruct (is_call c n q); [intros; right; assumption|].
  intros [->|H]; [left; reflexivity|right; auto].
Qed.
Lemma find_ptx_chain c id l p : find_ptx c id l = Some p -> p_chain p = c.
Proof.
  induction l as [|q l IH]; cbn [find_ptx]; [discriminate|].
  destruct (is_ptx c id q) eqn:E; [|auto]. intros [= ->]. unfold is_ptx in E. apply andb_true_iff in E as [E _]. apply Z.eqb_eq; assumption.
Qed.

(* ------------------------------------------------------------------------------------------------ *)
(** * The generic invariant.

    One theorem covers every linear invariant of this development.  Inputs: a linear observable [l] of the
    balances, a weight [w chain token] selecting which in-flight records count, and two ghost read-outs [gd], [ge]
    (deposited / executed).  Given the effect of every balance program on [l] (record [blocks]) every operation
    preserves   l + in-flight(w) - gd + ge   and the well-formedness of the records. *)

Section GEN.
Variables (g : cfg) (U : list Z).
Variable l : lin.
Variable w : Z -> Z -> Z.
Variables gd ge : ghost -> Z.
Variables kM kU : Z.   (* how a refund's value shows in l: at the mint (kM) or at the unlock (kU); kM + kU = 1 *)

Definition wp (p : ptx) : Z := w (p_chain p) (p_tok p) * (p_amt p + p_fee p).
Definition wtot (ps : list ptx) : Z := sumZ (map wp ps).
Definition wamt (c : Z) (toks : list (Z * Z)) : Z := sumZ (map (fun p => w c (fst p) * snd p) toks).
Definition wcall (b : bcall) : Z := wamt (c_chain b) (c_toks b).
Definition wbat (bs : list batch) : Z := wtot (flat_map b_txs bs).
Definition wcalls (cs : list bcall) : Z := sumZ (map wcall cs).
Definition infl (r : recs) : Z := wtot (pool r) + wbat (batches r) + wcalls (calls r).

Lemma sumZ_app a b : sumZ (a ++ b) = sumZ a + sumZ b.
Proof. unfold sumZ. induction a; cbn; lia. Qed.
Lemma wtot_cons p ps : wtot (p :: ps) = wp p + wtot ps. Proof. reflexivity. Qed.
Lemma wtot_app a b : wtot (a ++ b) = wtot a + wtot b.
Proof. unfold wtot. rewrite map_app. apply sumZ_app. Qed.
Lemma wtot_split f ps : wtot ps = wtot (filter f ps) + wtot (filter (fun p => negb (f p)) ps).
Proof. induction ps as [|p ps IH]; [reflexivity|]. cbn [filter]. destruct (f p); cbn [negb]; rewrite !wtot_cons, IH; lia. Qed.
Lemma wtot_del c id ps p : find_ptx c id ps = Some p -> wtot (del_ptx c id ps) = wtot ps - wp p.
Proof.
  induction ps as [|q ps IH]; cbn [find_ptx del_ptx]; [discriminate|].
  destruct (is_ptx c id q); [intros [= ->]; rewrite wtot_cons; lia|]. intros H. rewrite !wtot_cons, (IH H). lia.
Qed.
Lemma wtot_uniform c i ps : (forall p, In p ps -> p_tok p = i /\ p_chain p = c) -> wtot ps = w c i * total_of ps.
Proof.
  induction ps as [|p ps IH]; intros H; [unfold wtot, total_of, sumZ; cbn; lia|].
  rewrite wtot_cons, IH by (intros; apply H; right; assumption).
  destruct (H p (or_introl eq_refl)) as [E1 E2]. unfold wp, total_of, sumZ. cbn [map fold_right]. rewrite E1, E2. lia.
Qed.
Lemma wbat_cons b bs : wbat (b :: bs) = wtot (b_txs b) + wbat bs.
Proof. unfold wbat. cbn [flat_map]. apply wtot_app. Qed.
Lemma wbat_split f bs : wbat bs = wbat (filter f bs) + wbat (filter (fun b => negb (f b)) bs).
Proof. induction bs as [|b bs IH]; [reflexivity|]. cbn [filter]. destruct (f b); cbn [negb]; rewrite !wbat_cons, IH; lia. Qed.
Lemma wbat_del c t n bs b : find_batch c t n bs = Some b -> wbat (del_batch c t n bs) = wbat bs - wtot (b_txs b).
Proof.
  induction bs as [|q bs IH]; cbn [find_batch del_batch]; [discriminate|].
  destruct (is_batch c t n q); [intros [= ->]; rewrite wbat_cons; lia|]. intros H. rewrite !wbat_cons, (IH H). lia.
Qed.
Lemma wamt_cons c i x toks : wamt c ((i, x) :: toks) = w c i * x + wamt c toks. Proof. reflexivity. Qed.
Lemma wamt_app c a b : wamt c (a ++ b) = wamt c a + wamt c b.
Proof. unfold wamt. rewrite map_app. apply sumZ_app. Qed.
Lemma wamt_pos c toks : (forall p, In p toks -> 0 <= snd p) -> wamt c (pos_toks toks) = wamt c toks.
Proof.
  induction toks as [|[i x] toks IH]; intros H; [reflexivity|]. unfold pos_toks in *. cbn [filter snd].
  assert (0 <= x) by (apply (H (i, x)); left; reflexivity).
  assert (IH' := IH (fun p Hp => H p (or_intror Hp))).
  destruct (Z.ltb_spec 0 x); rewrite ?wamt_cons, IH'; [reflexivity|]. assert (x = 0) by lia. subst. lia.
Qed.
Lemma wcalls_cons b cs : wcalls (b :: cs) = wcall b + wcalls cs. Proof. reflexivity. Qed.
Lemma wcalls_app a b : wcalls (a ++ b) = wcalls a + wcalls b.
Proof. unfold wcalls. rewrite map_app. apply sumZ_app. Qed.
Lemma wcalls_del c n cs b : find_call c n cs = Some b -> wcalls (del_call_l c n cs) = wcalls cs - wcall b.
Proof.
  induction cs as [|q cs IH]; cbn [find_call del_call_l]; [discriminate|].
  destruct (is_call c n q); [intros [= ->]; rewrite wcalls_cons; lia|]. intros H. rewrite !wcalls_cons, (IH H). lia.
Qed.

Lemma timed_out_spec c h cs gone rest : timed_out c h cs = (gone, rest) ->
  wcalls cs = wcalls gone + wcalls rest /\ (forall b, In b gone -> In b cs) /\ (forall b, In b rest -> In b cs).
Proof.
  revert gone rest. induction cs as [|b cs IH]; cbn [timed_out]; intros gone rest H.
  - injection H as <- <-. split; [reflexivity|split; auto].
  - destruct (negb (c_chain b =? c)).
    + destruct (timed_out c h cs) as [x y]. injection H as <- <-. destruct (IH _ _ eq_refl) as [E [H1 H2]].
      rewrite !wcalls_cons, E. split; [lia|split].
      * intros b0 Hb0. right. auto.
      * intros b0 [->|Hb0]; [left; reflexivity|right; auto].
    + destruct (h <? c_timeout b).
      * injection H as <- <-. split; [unfold wcalls at 2; cbn; lia|split; [intros ? []|auto]].
      * destruct (timed_out c h cs) as [x y]. injection H as <- <-. destruct (IH _ _ eq_refl) as [E [H1 H2]].
        rewrite !wcalls_cons, E. split; [lia|split].
        -- intros b0 [->|Hb0]; [left; reflexivity|right; auto].
        -- intros b0 Hb0. right. auto.
Qed.

(* well-formed records: a batch only holds transfers of its own token and chain; stored bridge calls carry
   non-negative amounts and a user refund address *)
Definition recs_wf (r : recs) : Prop :=
  (forall b, In b (batches r) -> forall p, In p (b_txs b) -> p_tok p = b_tok b /\ p_chain p = b_chain b) /\
  (forall b, In b (calls r) -> (forall p, In p (c_toks b) -> 0 <= snd p) /\ In (c_refund b) U).

Definition V (s : state) : Z := l (sb s) + infl (sr s) - gd (sg s) + ge (sg s).

Lemma infl_cancel_batches sel r : infl (cancel_batches sel r) = infl r.
Proof.
  unfold infl, cancel_batches. cbn [pool batches calls set_batches set_pool].
  rewrite wtot_app. fold (wbat (filter sel (batches r))). rewrite (wbat_split sel (batches r)). lia.
Qed.
Lemma wf_cancel_batches sel r : recs_wf r -> recs_wf (cancel_batches sel r).
Proof.
  intros [H1 H2]. split; cbn [pool batches calls set_batches set_pool cancel_batches]; [|assumption].
  intros b Hb. apply filter_In in Hb. apply H1, Hb.
Qed.

(* a token as handed out by the registry *)
Definition fromcfg (tk : token) : Prop := find_tok g (t_id tk) = Some tk.
Lemma fromcfg_find i tk : find_tok g i = Some tk -> fromcfg tk.
Proof. intros H. unfold fromcfg. rewrite (find_tok_id _ _ _ H). assumption. Qed.

(* effect of a successful run of a balance program on l *)
Definition dB (p : prog) (d : Z) : Prop := forall b b', runB p b = Some b' -> l b' = l b + d.

Lemma dB_pdelta p d : pdelta (coef l) p = d -> dB p d.
Proof. intros <- b b' H. apply runB_lin; assumption. Qed.
Lemma dB_nil : dB [] 0.
Proof. intros b b' [= <-]. lia. Qed.
Lemma dB_app p q d1 d2 : dB p d1 -> dB q d2 -> dB (p ++ q) (d1 + d2).
Proof.
  intros Hp Hq b b' H. rewrite runB_app in H. destruct (runB p b) as [b1|] eqn:E; [|discriminate].
  rewrite (Hq _ _ H), (Hp _ _ E). lia.
Qed.
Lemma dB_eq p d d' : dB p d -> d = d' -> dB p d'.
Proof. intros H <-. assumption. Qed.

Lemma dB_each (f : token -> Z -> prog) k c toks :
  (forall tk x, fromcfg tk -> dB (f tk x) (k * (w c (t_id tk) * x))) -> dB (each_tok g f toks) (k * wamt c toks).
Proof.
  intros Hf. induction toks as [|[i x] toks IH]; cbn [each_tok].
  - eapply dB_eq; [apply dB_nil|unfold wamt; cbn; lia].
  - destruct (find_tok g i) as [tk|] eqn:E.
    + eapply dB_eq; [apply dB_app; [apply (Hf tk x (fromcfg_find _ _ E))|apply IH]|].
      rewrite wamt_cons, (find_tok_id _ _ _ E). lia.
    + intros b b' H. cbn in H. discriminate.
Qed.

(* what the invariant needs to know about every balance program and about the ghost counters *)
Record blocks : Prop := {
  B_b2b : forall tk c a x, fromcfg tk -> In a U -> dB (base_to_bridge_token tk c a x) (- (w c (t_id tk) * x));
  B_b2base : forall tk c a x, fromcfg tk -> In a U -> dB (bridge_token_to_base tk c a x) (w c (t_id tk) * x);
  B_cc : forall tk a b x, fromcfg tk -> In a U -> In b U -> dB (convert_coin tk a b x) 0;
  B_ce : forall tk a b x, fromcfg tk -> In a U -> In b U -> dB (convert_erc20 tk a b x) 0;
  B_cdt : forall tk a src tg x, fromcfg tk -> In a U -> dB (convert_denom_to_target tk a src tg x) 0;
  B_cd : forall tk a b src tg x, fromcfg tk -> In a U -> In b U -> dB (msg_convert_denom tk a b src tg x) 0;
  B_fee : forall tk c a x, fromcfg tk -> In a U -> dB (add_bridge_fee_prog tk c a x) (- (w c (t_id tk) * x));
  B_k : kM + kU = 1;
  B_rmint : forall tk c x, fromcfg tk -> dB (refund_mint c tk x) (kM * (w c (t_id tk) * x));
  B_runlock : forall tk c a x, fromcfg tk -> In a U -> dB (refund_unlock c a tk x) (kU * (w c (t_id tk) * x));
  B_hot : forall a x, In a U -> dB (handler_origin_token a x) 0;
  B_het : forall tk a x, fromcfg tk -> In a U -> dB (handler_erc20_token tk a x) 0;
  B_send : forall a b d x, In a U -> In b U -> dB (send a b d x) 0;
  B_et : forall i a b x, In a U -> In b U -> dB (erc20_transfer i a b x) 0;
  B_wd : forall a x, In a U -> dB (send a A_WFX FX x ++ erc20_mint 0 a x) 0;
  B_ww : forall a x, In a U -> dB (erc20_burn 0 a x ++ send A_WFX a FX x) 0;
  B_im : forall tk a x, fromcfg tk -> In a U ->
         dB (Chk (t_ibc tk && negb (is_fx tk)) :: mint A_IBC (ibc_of tk) x ++ send A_IBC a (ibc_of tk) x) (w 9 (t_id tk) * x);
  B_i2b : forall tk a x, fromcfg tk -> In a U -> dB (ibc_to_base tk a x) 0;
  B_b2i : forall tk a x, fromcfg tk -> In a U -> dB (base_to_ibc tk a x) 0;
  B_isend : forall tk a x, fromcfg tk -> In a U -> dB (ibc_send tk a x) (- (w 9 (t_id tk) * x));
  B_irecv : forall tk a x, fromcfg tk -> In a U -> dB (send A_ESC a (base_of tk) x) (w 9 (t_id tk) * x);
  G_dep : forall gh i c x,
    gd {| dept := set1 i (get1 i (dept gh) + x) (dept gh); exet := exet gh;
          depc := set2 (i, c) (get2 (i, c) (depc gh) + x) (depc gh); exec := exec gh |} = gd gh + w c i * x /\
    ge {| dept := set1 i (get1 i (dept gh) + x) (dept gh); exet := exet gh;
          depc := set2 (i, c) (get2 (i, c) (depc gh) + x) (depc gh); exec := exec gh |} = ge gh;
  G_exe : forall gh i c x,
    ge {| dept := dept gh; exet := set1 i (get1 i (exet gh) + x) (exet gh);
          depc := depc gh; exec := set2 (i, c) (get2 (i, c) (exec gh) + x) (exec gh) |} = ge gh + w c i * x /\
    gd {| dept := dept gh; exet := set1 i (get1 i (exet gh) + x) (exet gh);
          depc := depc gh; exec := set2 (i, c) (get2 (i, c) (exec gh) + x) (exec gh) |} = gd gh
}.

Hypothesis HB : blocks.

Lemma V_doB p d s b' : dB p d -> runB p (sb s) = Some b' -> V {| sb := b'; sr := sr s; sg := sg s |} = V s + d.
Proof. intros Hd H. unfold V. cbn [sb sr sg]. rewrite (Hd _ _ H). lia. Qed.

Definition keeps (m : M) : Prop := forall s s', recs_wf (sr s) -> m s = Some s' -> V s' = V s /\ recs_wf (sr s').

Lemma keeps_bind m f : keeps m -> keeps f -> keeps (m ;; f).
Proof.
  intros Hm Hf s s' W H. apply bind_inv in H as [s1 [E H]].
  destruct (Hm _ _ W E) as [E1 W1]. destruct (Hf _ _ W1 H) as [E2 W2]. split; [lia|assumption].
Qed.
Lemma keeps_ret : keeps ret.
Proof. intros s s' W [= <-]. auto. Qed.
Lemma keeps_fail : keeps fail.
Proof. intros s s' W [=]. Qed.
Lemma keeps_guard b : keeps (guard b).
Proof. intros s s' W H. apply guard_inv in H as [_ ->]. auto. Qed.
Lemma keeps_doB0 p : dB p 0 -> keeps (doB p).
Proof. intros Hp s s' W H. apply doB_inv in H as [b [R ->]]. rewrite (V_doB _ _ _ _ Hp R). split; [lia|assumption]. Qed.
Lemma keeps_updR_meta f : (forall r, pool (f r) = pool r /\ batches (f r) = batches r /\ calls (f r) = calls r) -> keeps (updR f).
Proof.
  intros Hf s s' W [= <-]. destruct (Hf (sr s)) as [E1 [E2 E3]].
  unfold V, infl, recs_wf in *. cbn [sb sr sg]. rewrite E1, E2, E3. split; [reflexivity|assumption].
Qed.
Lemma keeps_with_tok i f : (forall tk, find_tok g i = Some tk -> keeps (f tk)) -> keeps (with_tok g i f).
Proof. intros H. unfold with_tok. destruct (find_tok g i) eqn:E; [apply H; reflexivity|apply keeps_fail]. Qed.

Lemma keeps_add_to_outgoing_pool tk c a amt fee : fromcfg tk -> In a U -> keeps (add_to_outgoing_pool tk c a amt fee).
Proof.
  intros Htk Ha s s' W H. unfold add_to_outgoing_pool in H. minv. split.
  - pose proof (V_doB _ _ _ _ (B_b2b HB tk c a (amt + fee) Htk Ha) R) as HV.
    unfold V in *. cbn [sb sr sg] in *. unfold infl in *. cbn [pool batches calls set_txid set_pool].
    rewrite wtot_cons. unfold wp at 1. cbn [p_chain p_tok p_amt p_fee]. lia.
  - destruct W as [W1 W2]. split; cbn [sr pool batches calls set_txid set_pool]; assumption.
Qed.

Lemma keeps_cancel_send c a id : In a U -> keeps (cancel_send g c a id).
Proof.
  intros Ha s s' W H. unfold cancel_send in H.
  destruct (find_ptx c id (pool (sr s))) as [p|] eqn:Ep; [|discriminate].
  destruct (find_tok g (p_tok p)) as [tk|] eqn:Et; [|discriminate].
  pose proof (fromcfg_find _ _ Et) as Htk. apply find_tok_id in Et. pose proof (find_ptx_chain _ _ _ _ Ep) as Ec.
  apply bind_inv in H as [s1 [E1 H]]. apply guard_inv in E1 as [_ ->].
  apply bind_inv in H as [s2 [E2 H]]. unfold updR in E2. injection E2 as <-.
  apply bind_inv in H as [s3 [E3 H]]. apply doB_inv in E3 as [b3 [R3 ->]]. cbn [sb sr sg] in *.
  assert (HV3 : V {| sb := b3; sr := set_pool (del_ptx c id (pool (sr s))) (sr s); sg := sg s |} = V s).
  { pose proof (V_doB _ _ {| sb := sb s; sr := set_pool (del_ptx c id (pool (sr s))) (sr s); sg := sg s |} _
                  (B_b2base HB tk c a (p_amt p + p_fee p) Htk Ha) R3) as HV.
    cbn [sb sr sg] in HV. rewrite HV. unfold V. cbn [sb sr sg]. unfold infl. cbn [pool batches calls set_pool].
    rewrite (wtot_del _ _ _ _ Ep). unfold wp. rewrite Et, Ec. lia. }
  assert (W3 : recs_wf (set_pool (del_ptx c id (pool (sr s))) (sr s))) by (destruct W; split; assumption).
  destruct (mem2 (c, id) (rel (sr s))).
  - apply bind_inv in H as [s4 [E4 H]]. apply doB_inv in E4 as [b4 [R4 ->]]. cbn [sb sr sg] in *.
    unfold updR in H. injection H as <-. cbn [sb sr sg].
    pose proof (V_doB _ _ {| sb := b3; sr := set_pool (del_ptx c id (pool (sr s))) (sr s); sg := sg s |} _
                  (B_cc HB tk a a (p_amt p + p_fee p) Htk Ha Ha) R4) as HV.
    cbn [sb sr sg] in HV. split.
    + unfold V in *. cbn [sb sr sg] in *. unfold infl in *. cbn [pool batches calls set_pool set_rel] in *. lia.
    + destruct W3; split; assumption.
  - injection H as <-. split; assumption.
Qed.

Lemma keeps_add_bridge_fee tk c a id x : fromcfg tk -> In a U -> keeps (add_bridge_fee tk c a id x).
Proof.
  intros Htk Ha s s' W H. unfold add_bridge_fee in H.
  destruct (find_ptx c id (pool (sr s))) as [p|] eqn:Ep; [|discriminate].
  pose proof (find_ptx_chain _ _ _ _ Ep) as Ec.
  minv. match goal with H : (p_tok p =? t_id tk) = true |- _ => apply Z.eqb_eq in H; rename H into Gt end.
  cbn [sb sr sg] in *. split.
  - pose proof (V_doB _ _ _ _ (B_fee HB tk c a x Htk Ha) R) as HV.
    unfold V in *. cbn [sb sr sg] in *. unfold infl in *. cbn [pool batches calls set_pool].
    rewrite wtot_cons, (wtot_del _ _ _ _ Ep). unfold wp. cbn [p_chain p_tok p_amt p_fee]. rewrite Gt, Ec. lia.
  - destruct W; split; assumption.
Qed.

Lemma wtot_insert p ps : wtot (tx_insert p ps) = wp p + wtot ps.
Proof. induction ps as [|q ps IH]; cbn [tx_insert]; [reflexivity|]. destruct (tx_before p q); rewrite ?wtot_cons, ?IH; lia. Qed.
Lemma wtot_sort ps : wtot (tx_sort ps) = wtot ps.
Proof. induction ps as [|p ps IH]; cbn [tx_sort]; [reflexivity|]. rewrite wtot_insert, wtot_cons, IH. reflexivity. Qed.
Lemma In_insert x p ps : In x (tx_insert p ps) -> x = p \/ In x ps.
Proof.
  induction ps as [|q ps IH]; cbn [tx_insert]; [intros [<-|[]]; auto|].
  destruct (tx_before p q); [intros [<-|H]; auto|]. intros [<-|H]; [right; left; reflexivity|].
  destruct (IH H); [auto|right; right; assumption].
Qed.
Lemma In_sort x ps : In x (tx_sort ps) -> In x ps.
Proof.
  induction ps as [|p ps IH]; cbn [tx_sort]; [auto|]. intros H. destruct (In_insert _ _ _ H); [left; congruence|right; auto].
Qed.
Lemma wtot_firstn_skipn n ps : wtot (firstn n ps) + wtot (skipn n ps) = wtot ps.
Proof. rewrite <- wtot_app, firstn_skipn. reflexivity. Qed.
Lemma In_firstn_l {A} n (x : A) xs : In x (firstn n xs) -> In x xs.
Proof. intros H. rewrite <- (firstn_skipn n xs). apply in_or_app. left. assumption. Qed.

Lemma keeps_request_batch tk c to : keeps (request_batch tk c to).
Proof.
  intros s s' W H. unfold request_batch in H. set (bsz := batch_size) in *. clearbody bsz. minv. cbn [sb sr sg]. split.
  - unfold V. cbn [sb sr sg]. unfold infl. cbn [pool batches calls set_pool set_batches set_batchid].
    rewrite wbat_cons. cbn [b_txs]. rewrite wtot_app.
    pose proof (wtot_firstn_skipn bsz (tx_sort (filter (sel_tx c (t_id tk)) (pool (sr s))))) as E.
    rewrite wtot_sort in E. rewrite (wtot_split (sel_tx c (t_id tk)) (pool (sr s))).
    set (A1 := wtot (firstn _ _)) in *. set (A2 := wtot (skipn _ _)) in *.
    set (A3 := wtot (filter (fun p => negb _) _)) in *. set (A4 := wtot (filter (sel_tx _ _) _)) in *.
    set (A5 := wbat _) in *. set (A6 := wcalls _) in *. lia.
  - destruct W as [W1 W2]. split; cbn [pool batches calls set_pool set_batches set_batchid]; [|assumption].
    intros b [<-|Hb]; [|apply W1; assumption]. cbn [b_txs b_tok b_chain]. intros p Hp.
    apply In_firstn_l, In_sort in Hp.
    apply filter_In in Hp as [_ Hp]. unfold sel_tx in Hp. apply andb_true_iff in Hp as [Hp1 Hp2].
    apply Z.eqb_eq in Hp1, Hp2. auto.
Qed.

Lemma keeps_batch_executed tk c n : keeps (batch_executed tk c n).
Proof.
  intros s s' W H. unfold batch_executed in H.
  destruct (find_batch c (t_id tk) n (batches (sr s))) as [b|] eqn:Eb; [|discriminate].
  destruct (find_batch_spec _ _ _ _ _ Eb) as [Hin [Htok Hch]].
  minv. cbn [sb sr sg]. destruct W as [W1 W2]. split.
  - unfold V. cbn [sb sr sg]. destruct (G_exe HB (sg s) (t_id tk) c (total_of (b_txs b))) as [-> ->].
    unfold infl at 1. cbn [pool batches calls set_rel].
    fold (infl (cancel_batches (fun b' => (b_chain b' =? c) && (b_tok b' =? t_id tk) && (b_nonce b' <? n))
                               (set_batches (del_batch c (t_id tk) n (batches (sr s))) (sr s)))).
    rewrite infl_cancel_batches. unfold infl. cbn [pool batches calls set_batches].
    rewrite (wbat_del _ _ _ _ _ Eb).
    rewrite (wtot_uniform c (t_id tk) (b_txs b)); [lia|].
    intros p Hp. destruct (W1 b Hin p Hp). split; congruence.
  - cbn [set_rel].
    assert (Wd : recs_wf (set_batches (del_batch c (t_id tk) n (batches (sr s))) (sr s))).
    { split; cbn [pool batches calls set_batches]; [|assumption]. intros b' Hb'. apply W1. eapply del_batch_In; eassumption. }
    apply (wf_cancel_batches (fun b' => (b_chain b' =? c) && (b_tok b' =? t_id tk) && (b_nonce b' <? n))) in Wd.
    destruct Wd; split; assumption.
Qed.

Lemma keeps_add_outgoing_bridge_call c a rf toks to : In a U -> In rf U -> (forall p, In p toks -> 0 <= snd p) ->
  keeps (add_outgoing_bridge_call g c a rf toks to).
Proof.
  intros Ha Hr Hpos s s' W H. unfold add_outgoing_bridge_call in H. minv. cbn [sb sr sg]. split.
  - assert (Hd : dB (each_tok g (fun tk x => base_to_bridge_token tk c a x) toks) (-1 * wamt c toks)).
    { apply dB_each. intros tk x Htk. eapply dB_eq; [apply (B_b2b HB); assumption|lia]. }
    pose proof (V_doB _ _ _ _ Hd R) as HV.
    unfold V in *. cbn [sb sr sg] in *. unfold infl in *. cbn [pool batches calls set_calls set_callid].
    rewrite wcalls_app, wcalls_cons. change (wcalls []) with 0. unfold wcall. cbn [c_chain c_toks]. lia.
  - destruct W as [W1 W2]. split; cbn [pool batches calls set_calls set_callid]; [assumption|].
    intros b' Hb'. apply in_app_or in Hb' as [Hb'|[<-|[]]]; [apply W2; assumption|]. cbn [c_toks c_refund]. split; assumption.
Qed.

Lemma dB_refund c a toks fm : In a U -> (forall p, In p toks -> 0 <= snd p) ->
  dB (bridge_call_refund_prog g c a toks fm) (wamt c toks).
Proof.
  intros Ha Hpos. unfold bridge_call_refund_prog.
  eapply dB_eq.
  - apply dB_app; [|apply dB_app; [|apply dB_app]].
    + apply (dB_each (refund_mint c) kM c). intros tk x Htk. apply (B_rmint HB); assumption.
    + apply (dB_each (refund_unlock c a) kU c). intros tk x Htk. apply (B_runlock HB); assumption.
    + apply (dB_each (refund_to_base c a) 0 c). intros tk x Htk. unfold refund_to_base.
      eapply dB_eq; [apply (B_cdt HB); assumption|lia].
    + instantiate (1 := 0). destruct fm; [apply dB_nil|].
      eapply dB_eq; [apply (dB_each (refund_to_evm a) 0 c)|lia]. intros tk x Htk. unfold refund_to_evm.
      destruct (is_fx tk); [eapply dB_eq; [apply dB_nil|lia]|]. eapply dB_eq; [apply (B_cc HB); assumption|lia].
  - rewrite wamt_pos by assumption. pose proof (B_k HB). nia.
Qed.

Lemma refund_spec b : forall s s', recs_wf (sr s) -> In b (calls (sr s)) ->
  bridge_call_refund g b s = Some s' -> V s' = V s + wcall b /\ sr s' = sr s /\ sg s' = sg s.
Proof.
  intros s s' [W1 W2] Hin H. unfold bridge_call_refund in H. minv. cbn [sb sr sg].
  destruct (W2 b Hin) as [Hpos Hr]. rewrite (V_doB _ _ _ _ (dB_refund _ _ _ _ Hr Hpos) R). auto.
Qed.

Lemma each_exe_spec c toks : forall s s', each_exe c toks s = Some s' ->
  sb s' = sb s /\ sr s' = sr s /\ gd (sg s') = gd (sg s) /\ ge (sg s') = ge (sg s) + wamt c toks.
Proof.
  induction toks as [|[i x] toks IH]; cbn [each_exe]; intros s s' H.
  - injection H as <-. repeat split. unfold wamt; cbn; lia.
  - apply bind_inv in H as [s1 [E H]]. unfold exe_add, updG in E. injection E as <-.
    destruct (IH _ _ H) as [E1 [E2 [E3 E4]]]. cbn [sb sr sg] in *.
    destruct (G_exe HB (sg s) i c x) as [F1 F2]. rewrite F1 in E4. rewrite F2 in E3.
    repeat split; try assumption. rewrite wamt_cons. lia.
Qed.
Lemma each_dep_spec c toks : forall s s', each_dep c toks s = Some s' ->
  sb s' = sb s /\ sr s' = sr s /\ ge (sg s') = ge (sg s) /\ gd (sg s') = gd (sg s) + wamt c toks.
Proof.
  induction toks as [|[i x] toks IH]; cbn [each_dep]; intros s s' H.
  - injection H as <-. repeat split. unfold wamt; cbn; lia.
  - apply bind_inv in H as [s1 [E H]]. unfold dep_add, updG in E. injection E as <-.
    destruct (IH _ _ H) as [E1 [E2 [E3 E4]]]. cbn [sb sr sg] in *.
    destruct (G_dep HB (sg s) i c x) as [F1 F2]. rewrite F1 in E4. rewrite F2 in E3.
    repeat split; try assumption. rewrite wamt_cons. lia.
Qed.

Lemma keeps_bridge_call_result c n ok : keeps (bridge_call_result g c n ok).
Proof.
  intros s s' W H. unfold bridge_call_result in H.
  destruct (find_call c n (calls (sr s))) as [b|] eqn:Eb; [|discriminate].
  destruct (find_call_spec _ _ _ _ Eb) as [Hin Hch].
  apply bind_inv in H as [s1 [E H]]. unfold del_call, updR in H. injection H as <-. cbn [sb sr sg].
  assert (HV : V s1 = V s + wcall b /\ sr s1 = sr s).
  { destruct ok.
    - destruct (each_exe_spec _ _ _ _ E) as [E1 [E2 [E3 E4]]]. split; [|assumption].
      unfold V. rewrite E1, E2, E3, E4. unfold wcall. rewrite Hch. lia.
    - destruct (refund_spec b s s1 W Hin E) as [E1 [E2 E3]]. split; assumption. }
  destruct HV as [HV Er]. split.
  - unfold V in *. cbn [sb sr sg]. unfold infl in *. cbn [pool batches calls set_calls set_frommsg].
    rewrite Er. rewrite Er in HV. rewrite (wcalls_del _ _ _ _ Eb). lia.
  - rewrite Er. destruct W as [W1 W2]. split; cbn [pool batches calls set_calls set_frommsg]; [assumption|].
    intros b' Hb'. apply W2. eapply del_call_In; eassumption.
Qed.

Lemma keeps_cleanup_batches c : keeps (cleanup_batches c).
Proof.
  intros s s' W H. unfold cleanup_batches, updR in H. injection H as <-. cbn [sb sr sg].
  split; [|apply wf_cancel_batches; assumption]. unfold V. cbn [sb sr sg]. rewrite infl_cancel_batches. reflexivity.
Qed.

Lemma each_refund_spec cs : forall s s', recs_wf (sr s) -> (forall b, In b cs -> In b (calls (sr s))) ->
  each_refund g cs s = Some s' -> V s' = V s + wcalls cs /\ sr s' = sr s /\ sg s' = sg s.
Proof.
  induction cs as [|b cs IH]; cbn [each_refund]; intros s s' W Hin H.
  - injection H as <-. change (wcalls []) with 0. repeat split; lia.
  - apply bind_inv in H as [s1 [E H]].
    destruct (refund_spec b s s1 W (Hin b (or_introl eq_refl)) E) as [E1 [E2 E3]].
    assert (W1 : recs_wf (sr s1)) by (rewrite E2; assumption).
    destruct (IH s1 s' W1) as [E4 [E5 E6]]; [rewrite E2; intros; apply Hin; right; assumption|assumption|].
    rewrite wcalls_cons. repeat split; [lia|congruence|congruence].
Qed.

Lemma keeps_cleanup_calls c h : keeps (cleanup_calls g c h).
Proof.
  intros s s' W H. unfold cleanup_calls in H.
  destruct (timed_out c h (calls (sr s))) as [gone rest] eqn:Et.
  destruct (timed_out_spec _ _ _ _ _ Et) as [Ec [Hg Hr]].
  apply bind_inv in H as [s1 [E H]]. unfold updR in H. injection H as <-. cbn [sb sr sg].
  destruct (each_refund_spec gone s s1 W Hg E) as [E1 [E2 E3]]. split.
  - unfold V in *. cbn [sb sr sg]. unfold infl in *. cbn [pool batches calls set_calls set_frommsg].
    rewrite E2. rewrite E2 in E1. lia.
  - rewrite E2. destruct W as [W1 W2]. split; cbn [pool batches calls set_calls set_frommsg]; [assumption|].
    intros b' Hb'. apply W2, Hr, Hb'.
Qed.

Lemma keeps_observe c h m : keeps m -> keeps (observe g c h m).
Proof.
  intros Hm. unfold observe. apply keeps_bind; [apply keeps_updR_meta; intros; repeat split|].
  apply keeps_bind; [assumption|]. apply keeps_bind; [apply keeps_cleanup_batches|apply keeps_cleanup_calls].
Qed.

Lemma keeps_dep_add i c x d p s b : dB p d -> d = w c i * x -> recs_wf (sr s) -> runB p (sb s) = Some b ->
  V {| sb := b; sr := sr s; sg := {| dept := set1 i (get1 i (dept (sg s)) + x) (dept (sg s)); exet := exet (sg s);
                                      depc := set2 (i, c) (get2 (i, c) (depc (sg s)) + x) (depc (sg s)); exec := exec (sg s) |} |}
  = V s.
Proof.
  intros Hd -> W R. pose proof (V_doB _ _ _ _ Hd R) as HV. unfold V in *. cbn [sb sr sg] in *.
  destruct (G_dep HB (sg s) i c x) as [-> ->]. lia.
Qed.

(* value leaving through p and accounted as executed towards (chain c, token i) *)
Lemma keeps_out p i c x : dB p (- (w c i * x)) -> keeps (doB p ;; exe_add i c x).
Proof.
  intros Hd s s' W H. minv. cbn [sr]. split; [|assumption].
  pose proof (V_doB _ _ _ _ Hd R) as HV. unfold V in *. cbn [sb sr sg] in *.
  destruct (G_exe HB (sg s) i c x) as [-> ->]. lia.
Qed.

Lemma keeps_send_to_fx tk c a x tg : fromcfg tk -> In a U -> keeps (send_to_fx tk c a x tg).
Proof.
  intros Htk Ha s s' W H. unfold send_to_fx in H.
  apply bind_inv in H as [s1 [E1 H]]. apply doB_inv in E1 as [b1 [R1 ->]].
  apply bind_inv in H as [s2 [E2 H]]. unfold dep_add, updG in E2. injection E2 as <-. cbn [sb sr sg] in *.
  pose proof (keeps_dep_add (t_id tk) c x _ _ s b1 (B_b2base HB tk c a x Htk Ha) eq_refl W R1) as HV2.
  destruct (tg =? 1); [|destruct (tg =? 2)].
  3:{ injection H as <-. split; assumption. }
  2:{ assert (Hk : keeps (guard (0 <? x) ;; doB (base_to_ibc tk a x) ;; doB (ibc_send tk a x) ;; exe_add (t_id tk) 9 x)).
      { apply keeps_bind; [apply keeps_guard|].
        apply keeps_bind; [apply keeps_doB0, (B_b2i HB); assumption|]. apply keeps_out. apply (B_isend HB); assumption. }
      pose proof (fun Wx => Hk _ s' Wx H) as K. cbn [sr] in K. destruct (K W) as [E1 W1]. split; [lia|assumption]. }
  - apply doB_inv in H as [b2 [R2 ->]]. cbn [sb sr sg] in *.
    unfold base_to_evm in R2.
    pose proof (V_doB _ _ {| sb := b1; sr := sr s; sg := {| dept := set1 (t_id tk) (get1 (t_id tk) (dept (sg s)) + x) (dept (sg s));
        exet := exet (sg s); depc := set2 (t_id tk, c) (get2 (t_id tk, c) (depc (sg s)) + x) (depc (sg s)); exec := exec (sg s) |} |}
        _ (B_cc HB tk a a x Htk Ha Ha) R2) as HV3.
    cbn [sb sr sg] in HV3. split; [lia|assumption].
Qed.

Lemma keeps_bridge_call_in c a rf toks ok to : In a U -> In rf U -> (forall p, In p toks -> 0 <= snd p) ->
  keeps (bridge_call_in g c a rf toks ok to).
Proof.
  intros Ha Hr Hpos s s' W H. unfold bridge_call_in in H.
  apply bind_inv in H as [s1 [E1 H]]. apply doB_inv in E1 as [b1 [R1 ->]].
  apply bind_inv in H as [s2 [E2 H]].
  destruct (each_dep_spec _ _ _ _ E2) as [D1 [D2 [D3 D4]]]. cbn [sb sr sg] in *.
  assert (Hd : dB (each_tok g (fun tk x => bridge_token_to_base tk c a x) toks) (1 * wamt c toks)).
  { apply dB_each. intros tk x Htk. eapply dB_eq; [apply (B_b2base HB); assumption|lia]. }
  pose proof (V_doB _ _ _ _ Hd R1) as HV.
  assert (HV2 : V s2 = V s) by (unfold V in *; cbn [sb sr sg] in *; rewrite D1, D2, D3, D4; lia).
  assert (W2 : recs_wf (sr s2)) by (rewrite D2; assumption).
  assert (Hpos' : forall p, In p (pos_toks toks) -> 0 <= snd p).
  { intros p Hp. apply Hpos. unfold pos_toks in Hp. apply filter_In in Hp. tauto. }
  destruct (if ok then doB (each_tok g (fun tk x => base_to_evm tk a x) (pos_toks toks)) s2 else None) as [s3|] eqn:E3.
  - injection H as <-. destruct ok; [|discriminate]. apply doB_inv in E3 as [b3 [R3 ->]].
    assert (Hd3 : dB (each_tok g (fun tk x => base_to_evm tk a x) (pos_toks toks)) (0 * wamt c (pos_toks toks))).
    { apply dB_each. intros tk x Htk. unfold base_to_evm. eapply dB_eq; [apply (B_cc HB); assumption|lia]. }
    rewrite (V_doB _ _ _ _ Hd3 R3). cbn [sr]. split; [lia|assumption].
  - assert (Hk : keeps ((if a =? rf then ret else doB (each_tok g (fun t x => send a rf (base_of t) x) (pos_toks toks))) ;;
                        add_outgoing_bridge_call g c rf rf (pos_toks toks) to)).
    { apply keeps_bind; [|apply keeps_add_outgoing_bridge_call; assumption].
      destruct (a =? rf); [apply keeps_ret|]. apply keeps_doB0.
      eapply dB_eq; [apply (dB_each (fun t x => send a rf (base_of t) x) 0 c)|lia].
      intros tk x Htk. eapply dB_eq; [apply (B_send HB); assumption|lia]. }
    destruct (Hk s2 s' W2 H). split; [lia|assumption].
Qed.

Lemma keeps_pre_cross_chain tk c a amt fee nat : fromcfg tk -> In a U -> keeps (pre_cross_chain tk c a amt fee nat).
Proof.
  intros Htk Ha. unfold pre_cross_chain. apply keeps_bind; [apply keeps_guard|]. apply keeps_bind; [|apply keeps_bind].
  - destruct nat; [apply keeps_bind; [apply keeps_guard|]|]; apply keeps_doB0.
    + apply (B_hot HB); assumption.
    + apply (B_het HB); assumption.
  - apply keeps_add_to_outgoing_pool; assumption.
  - destruct nat; [apply keeps_ret|apply keeps_updR_meta; intros; repeat split].
Qed.

Lemma keeps_pre_bridge_call c a rf v toks to : In a U -> In rf U -> (forall p, In p toks -> 0 <= snd p) ->
  keeps (pre_bridge_call g c a rf v toks to).
Proof.
  intros Ha Hr Hpos. unfold pre_bridge_call. apply keeps_bind; [|apply keeps_bind].
  - destruct (0 <? v); [apply keeps_doB0, (B_hot HB); assumption|apply keeps_ret].
  - apply keeps_doB0. eapply dB_eq; [apply (dB_each (fun t x => evm_to_base t a x) 0 c)|lia].
    intros tk x Htk. unfold evm_to_base. eapply dB_eq; [apply (B_ce HB); assumption|lia].
  - apply keeps_add_outgoing_bridge_call; try assumption.
    intros p Hp. apply in_app_or in Hp as [Hp|Hp]; [|auto].
    destruct (Z.ltb_spec 0 v); [|destruct Hp]. destruct Hp as [<-|[]]. cbn. lia.
Qed.

Lemma keeps_pre_increase_fee tk c a id x nat : fromcfg tk -> In a U -> keeps (pre_increase_fee tk c a id x nat).
Proof.
  intros Htk Ha. unfold pre_increase_fee. apply keeps_bind; [|apply keeps_bind; [|apply keeps_bind]].
  - destruct nat; [apply keeps_bind; [apply keeps_guard|]|]; apply keeps_doB0.
    + apply (B_hot HB); assumption.
    + apply (B_het HB); assumption.
  - apply keeps_doB0, (B_cdt HB); assumption.
  - apply keeps_guard.
  - apply keeps_add_bridge_fee; assumption.
Qed.

Lemma keeps_pre_cross_chain_ibc tk a amt nat : fromcfg tk -> In a U -> keeps (pre_cross_chain_ibc tk a amt nat).
Proof.
  intros Htk Ha. unfold pre_cross_chain_ibc. apply keeps_bind; [apply keeps_guard|]. apply keeps_bind.
  - destruct nat; [apply keeps_bind; [apply keeps_guard|apply keeps_doB0, (B_hot HB); assumption]|].
    apply keeps_bind; apply keeps_doB0; [apply (B_het HB)|apply (B_b2i HB)]; assumption.
  - apply keeps_out, (B_isend HB); assumption.
Qed.

Lemma keeps_ibc_recv tk a x : fromcfg tk -> In a U -> keeps (ibc_recv tk a x).
Proof.
  intros Htk Ha. unfold ibc_recv. destruct (is_fx tk); [|apply keeps_fail].
  intros s s' W H. minv. cbn [sr]. split; [|assumption].
  exact (keeps_dep_add (t_id tk) 9 x _ _ s b (B_irecv HB tk a x Htk Ha) eq_refl W R).
Qed.

Lemma keeps_toggle i : keeps (toggle i).
Proof.
  intros s s' W H. unfold toggle in H. injection H as <-. cbn [sr]. split; [|assumption].
  unfold V. cbn [sb sr sg]. rewrite (L_ext l _ (sb s)); reflexivity.
Qed.

Lemma keeps_ibc_mint tk a x : fromcfg tk -> In a U ->
  keeps (doB (Chk (t_ibc tk && negb (is_fx tk)) :: mint A_IBC (ibc_of tk) x ++ send A_IBC a (ibc_of tk) x) ;; dep_add (t_id tk) 9 x).
Proof.
  intros Htk Ha s s' W H. minv. cbn [sr]. split; [|assumption].
  exact (keeps_dep_add (t_id tk) 9 x _ _ s b (B_im HB tk a x Htk Ha) eq_refl W R).
Qed.

(* the accounts an operation names are users (members of U); token amounts in bridge-call lists are non-negative
   (an sdk.Coin cannot be negative) *)
Definition toks_ok (toks : list (Z * Z)) : Prop := forall p, In p toks -> 0 <= snd p.
Definition op_ok (o : op) : Prop :=
  match o with
  | OSendToFx _ _ r _ _ => In r U
  | OSendToExternal _ _ a _ _ => In a U
  | OCancel _ a _ => In a U
  | OIncreaseFee _ _ a _ _ => In a U
  | ORequestBatch _ _ _ | OObserve _ _ | OBatchExecuted _ _ _ _ | OBridgeCallResult _ _ _ | OToggle _ => True
  | OBridgeCallMsg _ a r toks _ => In a U /\ In r U /\ toks_ok toks
  | OBridgeCallIn _ sd t rf toks _ _ _ => In sd U /\ In t U /\ In rf U /\ toks_ok toks
  | OConvertCoin _ a b _ | OConvertERC20 _ a b _ => In a U /\ In b U
  | OConvertDenom _ a b _ _ _ => In a U /\ In b U
  | OPreCrossChain _ _ a _ _ _ => In a U
  | OPreBridgeCall _ a r _ toks _ => In a U /\ In r U /\ toks_ok toks
  | OPreCancel _ a _ => In a U
  | OPreIncreaseFee _ _ a _ _ _ => In a U
  | OBankSend a b _ _ | OErc20Transfer _ a b _ => In a U /\ In b U
  | OWfxDeposit a _ | OWfxWithdraw a _ => In a U
  | OIbcMint _ a _ | OIbcToBase _ a _ | OBaseToIbc _ a _ => In a U
  | OPreCrossChainIbc _ a _ _ | OIbcRecv _ a _ => In a U
  end.

Lemma run_keeps o : op_ok o -> keeps (run g o).
Proof.
  intros Hok. destruct o; cbn [run op_ok] in *.
  - apply keeps_with_tok; intros tk Htk. apply keeps_send_to_fx; [eapply fromcfg_find; eassumption|assumption].
  - apply keeps_bind; [apply keeps_guard|]. apply keeps_with_tok; intros tk Htk. apply keeps_add_to_outgoing_pool; [eapply fromcfg_find; eassumption|assumption].
  - apply keeps_cancel_send; assumption.
  - apply keeps_with_tok; intros tk Htk. apply keeps_add_bridge_fee; [eapply fromcfg_find; eassumption|assumption].
  - apply keeps_with_tok; intros. apply keeps_request_batch.
  - apply keeps_observe, keeps_ret.
  - apply keeps_with_tok; intros. apply keeps_observe, keeps_batch_executed.
  - destruct Hok as [Ha [Hr Hp]]. apply keeps_bind; [apply keeps_guard|].
    apply keeps_bind; [apply keeps_add_outgoing_bridge_call; assumption|].
    apply keeps_updR_meta; intros; repeat split.
  - apply keeps_bridge_call_result.
  - destruct Hok as [Hs [Ha [Hr Hp]]]. apply keeps_bridge_call_in; [unfold bridge_call_receiver; destruct call_to; assumption|assumption..].
  - destruct Hok. apply keeps_with_tok; intros tk Htk. apply keeps_doB0, (B_cc HB); [eapply fromcfg_find; eassumption|assumption..].
  - destruct Hok. apply keeps_with_tok; intros tk Htk. apply keeps_doB0, (B_ce HB); [eapply fromcfg_find; eassumption|assumption..].
  - destruct Hok. apply keeps_bind; [apply keeps_guard|]. apply keeps_with_tok; intros tk Htk. apply keeps_doB0, (B_cd HB); [eapply fromcfg_find; eassumption|assumption..].
  - apply keeps_toggle.
  - apply keeps_with_tok; intros tk Htk. apply keeps_pre_cross_chain; [eapply fromcfg_find; eassumption|assumption].
  - destruct Hok as [Ha [Hr Hp]]. apply keeps_pre_bridge_call; assumption.
  - apply keeps_cancel_send; assumption.
  - apply keeps_with_tok; intros tk Htk. apply keeps_pre_increase_fee; [eapply fromcfg_find; eassumption|assumption].
  - destruct Hok. apply keeps_doB0, (B_send HB); assumption.
  - destruct Hok. apply keeps_doB0, (B_et HB); assumption.
  - apply keeps_doB0, (B_wd HB); assumption.
  - apply keeps_doB0, (B_ww HB); assumption.
  - apply keeps_with_tok; intros tk Htk. rewrite <- (find_tok_id _ _ _ Htk).
    apply keeps_ibc_mint; [eapply fromcfg_find; eassumption|assumption].
  - apply keeps_with_tok; intros tk Htk. apply keeps_doB0, (B_i2b HB); [eapply fromcfg_find; eassumption|assumption].
  - apply keeps_with_tok; intros tk Htk. apply keeps_doB0, (B_b2i HB); [eapply fromcfg_find; eassumption|assumption].
  - apply keeps_with_tok; intros tk Htk. apply keeps_pre_cross_chain_ibc; [eapply fromcfg_find; eassumption|assumption].
  - apply keeps_with_tok; intros tk Htk. apply keeps_ibc_recv; [eapply fromcfg_find; eassumption|assumption].
Qed.

Lemma step_keeps s o : op_ok o -> recs_wf (sr s) -> V (fst (step g s o)) = V s /\ recs_wf (sr (fst (step g s o))).
Proof.
  intros Hok W. unfold step. destruct (run g o s) as [s'|] eqn:E; cbn [fst]; [|auto]. exact (run_keeps o Hok s s' W E).
Qed.

Theorem steps_keeps ops : Forall op_ok ops -> forall s, recs_wf (sr s) ->
  V (steps g s ops) = V s /\ recs_wf (sr (steps g s ops)).
Proof.
  induction 1 as [|o ops Ho Hops IH]; intros s W; cbn [steps fold_left]; [auto|].
  destruct (step_keeps s o Ho W) as [E W1]. destruct (IH _ W1) as [E2 W2].
  fold (steps g (fst (step g s o)) ops). split; [lia|assumption].
Qed.

End GEN.

(* ------------------------------------------------------------------------------------------------ *)
(** * Effect of the primitive programs, for instantiating [blocks] *)

Section PD.
Variable co : cell -> Z.
Lemma pd_send a b d x : pdelta co (send a b d x) = (co (CB b d) - co (CB a d)) * x.
Proof. cbn. lia. Qed.
Lemma pd_mint m d x : pdelta co (mint m d x) = (co (CB m d) + co (CS d)) * x.
Proof. cbn. lia. Qed.
Lemma pd_burn m d x : pdelta co (burn m d x) = - ((co (CB m d) + co (CS d)) * x).
Proof. cbn. lia. Qed.
Lemma pd_emint t a x : pdelta co (erc20_mint t a x) = (co (CT t) + co (CE t a)) * x.
Proof. cbn. lia. Qed.
Lemma pd_eburn t a x : pdelta co (erc20_burn t a x) = - ((co (CT t) + co (CE t a)) * x).
Proof. cbn. lia. Qed.
Lemma pd_etransfer t a b x : pdelta co (erc20_transfer t a b x) = (co (CE t b) - co (CE t a)) * x.
Proof. cbn. lia. Qed.
Lemma pd_nil : pdelta co [] = 0. Proof. reflexivity. Qed.
Lemma pd_chk b p : pdelta co (Chk b :: p) = pdelta co p. Proof. reflexivity. Qed.
Lemma pd_chke t p : pdelta co (ChkEnabled t :: p) = pdelta co p. Proof. reflexivity. Qed.
End PD.

Ltac blk_unfold :=
  unfold base_to_bridge_token, bridge_token_to_base, deposit_bridge_token, withdraw_bridge_token, conversion_coin,
         convert_coin, convert_erc20, msg_convert_denom, convert_denom_to_target, add_bridge_fee_prog, refund_mint, refund_unlock,
         handler_origin_token, handler_erc20_token, ibc_to_base, base_to_ibc, ibc_send, origin_or_converted.
Ltac pd_rw := repeat progress (rewrite ?pd_chk, ?pd_chke, ?pdelta_app, ?pd_send, ?pd_mint, ?pd_burn, ?pd_emint, ?pd_eburn, ?pd_etransfer, ?pd_nil).
(* split the conditionals that select the program's shape *)
Ltac split_prog :=
  repeat (repeat progress (rewrite ?pd_chk, ?pd_chke, ?pdelta_app);
          match goal with |- context [pdelta _ (if ?b then _ else _)] => destruct b eqn:? end).
Ltac split_leb := repeat match goal with |- context [Z.leb ?x ?y] => destruct (Z.leb_spec x y) end; cbn [andb orb negb].
Ltac split_eqb := repeat match goal with |- context [Z.eqb ?x ?y] => destruct (Z.eqb_spec x y) end; cbn [andb orb negb].

Lemma sumZ_map0 {A} (f : A -> Z) (l : list A) : (forall x, f x = 0) -> sumZ (map f l) = 0.
Proof. intros Hf. induction l as [|x l IH]; [reflexivity|]. unfold sumZ in *. cbn [map fold_right]. rewrite Hf, IH. reflexivity. Qed.
Lemma infl_w0 r : infl (fun _ _ => 0) r = 0.
Proof.
  unfold infl, wtot, wbat, wtot, wcalls. rewrite !sumZ_map0; [reflexivity| | |].
  - intros b. unfold wcall, wamt. apply sumZ_map0. intros; lia.
  - intros p. unfold wp. lia.
  - intros p. unfold wp. lia.
Qed.
