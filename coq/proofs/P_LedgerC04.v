(* P_LedgerC04.v — property C04 (bridge solvency) over the ledger model: instances of the generic invariant of
   P_Ledger.v (conservation per token group, supply of a bridge denomination per chain, bank/supply consistency),
   the frame property, the escrow identity and the "withdrawable" statement with its refutation. *)
From Coq Require Import ZArith List Bool Lia.
From FxV Require Import model.M_Ledger proofs.P_Ledger.
Import ListNotations.
Open Scope Z_scope.

(* ------------------------------------------------------------------------------------------------ *)
(** * User holdings as a linear observable *)

Definition reps : list Z := [0; 1; 2; 3; 4; 5; 6; 7; 8; 9].
(* everything account a holds of token t: the ten denominations 10t..10t+9 and the ERC-20 balance *)
Definition ucell (t a : Z) : lin :=
  lin_add (lin_sum (fun r => lin_cell (CB a (10 * t + r))) reps) (lin_cell (CE t a)).
Definition Vb (U : list Z) (t : Z) : lin := lin_sum (ucell t) U.

Definition ind (b : bool) : Z := if b then 1 else 0.
Definition dtok (d : Z) : Z := d / 10.

Lemma dtok_spec d t : (dtok d =? t) = ((10 * t <=? d) && (d <=? 10 * t + 9)).
Proof.
  unfold dtok. pose proof (Z.div_mod d 10 ltac:(lia)). pose proof (Z.mod_pos_bound d 10 ltac:(lia)).
  destruct (Z.eqb_spec (d / 10) t), (Z.leb_spec (10 * t) d), (Z.leb_spec d (10 * t + 9)); cbn [andb]; try reflexivity; lia.
Qed.

Lemma coef_ucell_CB t a a' d : coef (ucell t a) (CB a' d) = ind (a =? a') * ind (dtok d =? t).
Proof.
  rewrite dtok_spec.
  unfold ucell, reps, ind, lin_sum. cbn [coef lin_add lin_cell lin_zero fold_right cell_eqb].
  destruct (Z.eqb_spec a a'); cbn [andb].
  - destruct (Z.leb_spec (10 * t) d), (Z.leb_spec d (10 * t + 9)); cbn [andb];
      repeat match goal with |- context [?x =? ?y] => destruct (Z.eqb_spec x y) end; lia.
  - lia.
Qed.
Lemma coef_ucell_CE t a t' a' : coef (ucell t a) (CE t' a') = ind (a =? a') * ind (t' =? t).
Proof.
  unfold ucell, reps, ind, lin_sum. cbn [coef lin_add lin_cell lin_zero fold_right cell_eqb].
  destruct (Z.eqb_spec a a'), (Z.eqb_spec t t'), (Z.eqb_spec t' t); cbn [andb]; try lia; congruence.
Qed.
Lemma coef_ucell_CS t a d : coef (ucell t a) (CS d) = 0.
Proof. reflexivity. Qed.
Lemma coef_ucell_CT t a t' : coef (ucell t a) (CT t') = 0.
Proof. reflexivity. Qed.

Lemma sum_ind_NoDup U a : NoDup U -> fold_right (fun a0 acc => ind (a0 =? a) + acc) 0 U = ind (memZ a U).
Proof.
  induction 1 as [|a0 U Hn Hd IH]; cbn; [reflexivity|].
  rewrite IH. rewrite (Z.eqb_sym a a0). destruct (Z.eqb_spec a0 a); cbn; [|reflexivity].
  subst. unfold memZ. destruct (existsb (Z.eqb a) U) eqn:E; [|reflexivity].
  apply existsb_exists in E. destruct E as [y [Hy Hyy]]. apply Z.eqb_eq in Hyy. subst. contradiction.
Qed.

Lemma coefV_CB U t a d : NoDup U -> coef (Vb U t) (CB a d) = ind (memZ a U) * ind (dtok d =? t).
Proof.
  intros H. unfold Vb. rewrite lin_sum_coef. rewrite <- (sum_ind_NoDup U a H).
  clear H. induction U as [|a0 U IH]; cbn -[ucell]; [reflexivity|].
  rewrite IH, coef_ucell_CB. lia.
Qed.
Lemma coefV_CE U t t' a : NoDup U -> coef (Vb U t) (CE t' a) = ind (memZ a U) * ind (t' =? t).
Proof.
  intros H. unfold Vb. rewrite lin_sum_coef. rewrite <- (sum_ind_NoDup U a H).
  clear H. induction U as [|a0 U IH]; cbn -[ucell]; [reflexivity|].
  rewrite IH, coef_ucell_CE. lia.
Qed.
Lemma coefV_CS U t d : coef (Vb U t) (CS d) = 0.
Proof. unfold Vb. rewrite lin_sum_coef. induction U; cbn -[ucell]; [reflexivity|]. rewrite IHU, coef_ucell_CS. lia. Qed.
Lemma coefV_CT U t t' : coef (Vb U t) (CT t') = 0.
Proof. unfold Vb. rewrite lin_sum_coef. induction U; cbn -[ucell]; [reflexivity|]. rewrite IHU, coef_ucell_CT. lia. Qed.

(* the user set: no duplicates, no module account *)
Definition is_module (a : Z) : bool := (1 <=? a) && (a <=? 25).
Definition users (U : list Z) : Prop := NoDup U /\ forall a, In a U -> is_module a = false.

Lemma users_mod U a : users U -> is_module a = true -> memZ a U = false.
Proof.
  intros [_ H] Hm. unfold memZ. destruct (existsb (Z.eqb a) U) eqn:E; [|reflexivity].
  apply existsb_exists in E. destruct E as [y [Hy Hyy]]. apply Z.eqb_eq in Hyy. subst. rewrite (H _ Hy) in Hm. discriminate.
Qed.
Lemma users_in U a : In a U -> memZ a U = true.
Proof. intros H. apply existsb_exists. exists a. split; [assumption|apply Z.eqb_refl]. Qed.

Lemma cacc_module c : is_module (cacc c) = true.
Proof. unfold cacc, chain_ok, is_module. destruct (1 <=? c) eqn:E1, (c <=? 8) eqn:E2; cbn [andb]; lia. Qed.

Lemma dtok_intro i r : 0 <= r <= 9 -> dtok (10 * i + r) = i.
Proof. intros H. apply Z.eqb_eq. rewrite dtok_spec. apply andb_true_iff. split; apply Z.leb_le; lia. Qed.
Lemma dtok_base t : dtok (base_of t) = t_id t.
Proof. unfold base_of. replace (10 * t_id t) with (10 * t_id t + 0) by lia. apply dtok_intro. lia. Qed.
Lemma dtok_alias t c : dtok (alias_of t c) = t_id t.
Proof.
  unfold alias_of, chain_ok. destruct (t_kind t).
  - replace (10 * t_id t) with (10 * t_id t + 0) by lia. apply dtok_intro. lia.
  - apply dtok_intro. destruct (Z.leb_spec 1 c), (Z.leb_spec c 8); cbn [andb]; lia.
  - apply dtok_intro. destruct (Z.leb_spec 1 c), (Z.leb_spec c 8); cbn [andb]; lia.
Qed.
Lemma dtok_ibc t : dtok (ibc_of t) = t_id t.
Proof. unfold ibc_of. apply dtok_intro. lia. Qed.
Lemma dtok_rep t r : dtok (denom_rep t r) = t_id t.
Proof. unfold denom_rep. destruct (r =? 0); [apply dtok_base|]. destruct (r =? 9); [apply dtok_ibc|apply dtok_alias]. Qed.

(* ------------------------------------------------------------------------------------------------ *)
(** * Effect of every balance program on the user holdings *)

Lemma dtok_FX : dtok FX = 0. Proof. reflexivity. Qed.
Lemma dtok_0 : dtok 0 = 0. Proof. reflexivity. Qed.

Ltac memU U HU :=
  repeat match goal with
  | H : In ?a U |- context [memZ ?a U] => rewrite (users_in U a H)
  | |- context [memZ A_ERC20 U] => rewrite (users_mod U A_ERC20 HU eq_refl)
  | |- context [memZ A_IBC U] => rewrite (users_mod U A_IBC HU eq_refl)
  | |- context [memZ A_WFX U] => rewrite (users_mod U A_WFX HU eq_refl)
  | |- context [memZ A_EVM U] => rewrite (users_mod U A_EVM HU eq_refl)
  | |- context [memZ A_PRE U] => rewrite (users_mod U A_PRE HU eq_refl)
  | |- context [memZ A_ESC U] => rewrite (users_mod U A_ESC HU eq_refl)
  | |- context [memZ (cacc ?c) U] => rewrite (users_mod U (cacc c) HU (cacc_module c))
  end.

Ltac prims := cbn [pdelta app send mint burn erc20_mint erc20_burn erc20_transfer].

Ltac vb_fin U HU :=
  prims; rewrite ?pdelta_app; prims;
  rewrite ?coefV_CB, ?coefV_CE, ?coefV_CS, ?coefV_CT by (apply HU);
  memU U HU;
  rewrite ?dtok_base, ?dtok_alias, ?dtok_ibc, ?dtok_rep, ?dtok_FX, ?dtok_0;
  unfold ind;
  repeat match goal with |- context [if ?x =? ?y then _ else _] => destruct (Z.eqb_spec x y) end;
  try lia.

Section VB.
Variables (U : list Z) (t : Z).
Hypothesis HU : users U.
Let co := coef (Vb U t).
Definition tki (tk : token) : Z := ind (t_id tk =? t).

Lemma vb_send a b d x : In a U -> In b U -> pdelta co (send a b d x) = 0.
Proof. intros; subst co; vb_fin U HU. Qed.

Lemma vb_convert_coin tk a b x : In a U -> In b U -> pdelta co (convert_coin tk a b x) = 0.
Proof. intros; subst co; unfold convert_coin, tki; destruct (t_kind tk); cbn [pdelta]; vb_fin U HU. Qed.

Lemma vb_convert_erc20 tk a b x : In a U -> In b U -> pdelta co (convert_erc20 tk a b x) = 0.
Proof. intros; subst co; unfold convert_erc20, tki; destruct (t_kind tk); cbn [pdelta]; vb_fin U HU. Qed.

Lemma vb_convert_denom_to_target tk a src tg x : In a U -> pdelta co (convert_denom_to_target tk a src tg x) = 0.
Proof.
  intros; subst co; unfold convert_denom_to_target.
  destruct (no_convert tk src); [reflexivity|].
  destruct (src =? old_target tk tg); [reflexivity|].
  destruct (t_kind tk); destruct (src =? 0); try destruct (old_target tk tg =? 0); vb_fin U HU.
Qed.

Lemma vb_msg_convert_denom tk a b src tg x : In a U -> In b U -> pdelta co (msg_convert_denom tk a b src tg x) = 0.
Proof.
  intros Ha Hb. unfold msg_convert_denom. cbn [pdelta]. rewrite pdelta_app, vb_convert_denom_to_target by assumption.
  cbn [pdelta]. destruct (a =? b); [reflexivity|]. subst co; vb_fin U HU.
Qed.

Lemma vb_bridge_token_to_base tk c a x : In a U -> pdelta co (bridge_token_to_base tk c a x) = tki tk * x.
Proof.
  intros; subst co; unfold bridge_token_to_base, deposit_bridge_token, conversion_coin, tki. cbn [pdelta].
  destruct (t_kind tk); vb_fin U HU.
Qed.

Lemma vb_base_to_bridge_token tk c a x : In a U -> pdelta co (base_to_bridge_token tk c a x) = - (tki tk * x).
Proof.
  intros; subst co; unfold base_to_bridge_token, withdraw_bridge_token, conversion_coin, tki. cbn [pdelta].
  destruct (t_kind tk); vb_fin U HU.
Qed.

Lemma vb_handler_origin_token a x : In a U -> pdelta co (handler_origin_token a x) = 0.
Proof. intros; subst co; unfold handler_origin_token; vb_fin U HU. Qed.

Lemma vb_handler_erc20_token tk a x : In a U -> pdelta co (handler_erc20_token tk a x) = 0.
Proof. intros; subst co; unfold handler_erc20_token; destruct (t_kind tk); vb_fin U HU. Qed.

Lemma vb_ibc_to_base tk a x : In a U -> pdelta co (ibc_to_base tk a x) = 0.
Proof. intros; subst co; unfold ibc_to_base; cbn [pdelta]; vb_fin U HU. Qed.
Lemma vb_base_to_ibc tk a x : In a U -> pdelta co (base_to_ibc tk a x) = 0.
Proof. intros; subst co; unfold base_to_ibc; destruct (is_fx tk); cbn [pdelta]; vb_fin U HU. Qed.
Lemma vb_ibc_send tk a x : In a U -> pdelta co (ibc_send tk a x) = - (tki tk * x).
Proof. intros; subst co; unfold ibc_send, tki; destruct (is_fx tk); cbn [pdelta]; vb_fin U HU. Qed.
Lemma vb_ibc_recv tk a x : In a U -> pdelta co (send A_ESC a (base_of tk) x) = tki tk * x.
Proof. intros; subst co; unfold tki; vb_fin U HU. Qed.

Lemma vb_add_bridge_fee tk c a x : In a U -> pdelta co (add_bridge_fee_prog tk c a x) = - (tki tk * x).
Proof. intros; subst co; unfold add_bridge_fee_prog, tki; destruct (origin_or_converted tk); vb_fin U HU. Qed.

Lemma vb_ibc_mint tk a x : In a U ->
  pdelta co (Chk (t_ibc tk && negb (is_fx tk)) :: mint A_IBC (ibc_of tk) x ++ send A_IBC a (ibc_of tk) x) = tki tk * x.
Proof. intros; subst co; unfold tki; cbn [pdelta]; vb_fin U HU. Qed.

Lemma vb_wfx_deposit a x : In a U -> pdelta co (send a A_WFX FX x ++ erc20_mint 0 a x) = 0.
Proof. intros; subst co; vb_fin U HU. Qed.
Lemma vb_wfx_withdraw a x : In a U -> pdelta co (erc20_burn 0 a x ++ send A_WFX a FX x) = 0.
Proof. intros; subst co; vb_fin U HU. Qed.
Lemma vb_erc20_transfer tt a b x : In a U -> In b U -> pdelta co (erc20_transfer tt a b x) = 0.
Proof. intros; subst co; vb_fin U HU. Qed.

End VB.

(* ------------------------------------------------------------------------------------------------ *)
(** * C04 conservation: instance of the generic invariant *)

Section HOLD.
Variables (g : cfg) (U : list Z) (t : Z).
Hypothesis HU : users U.

Definition wT (c i : Z) : Z := ind (i =? t).
Definition gdT (gh : ghost) : Z := get1 t (dept gh).
Definition geT (gh : ghost) : Z := get1 t (exet gh).

Lemma vb_refund_mint c tk x : pdelta (coef (Vb U t)) (refund_mint c tk x) = 0.
Proof. unfold refund_mint. cbn [pdelta]. destruct (origin_or_converted tk); vb_fin U HU. Qed.
Lemma vb_refund_unlock c a tk x : In a U -> pdelta (coef (Vb U t)) (refund_unlock c a tk x) = tki t tk * x.
Proof. intros. unfold refund_unlock, tki. vb_fin U HU. Qed.

Lemma blocks_hold : blocks g U (Vb U t) wT gdT geT 0 1.
Proof.
  constructor; intros; try (apply dB_pdelta); [| | | | | | |reflexivity| | | | | | | | | | | | | | |].
  - rewrite vb_base_to_bridge_token by assumption. reflexivity.
  - rewrite vb_bridge_token_to_base by assumption. reflexivity.
  - apply vb_convert_coin; assumption.
  - apply vb_convert_erc20; assumption.
  - apply vb_convert_denom_to_target; assumption.
  - apply vb_msg_convert_denom; assumption.
  - rewrite vb_add_bridge_fee by assumption. reflexivity.
  - rewrite vb_refund_mint. lia.
  - rewrite vb_refund_unlock by assumption. unfold wT, tki. lia.
  - apply vb_handler_origin_token; assumption.
  - apply vb_handler_erc20_token; assumption.
  - apply vb_send; assumption.
  - apply vb_erc20_transfer; assumption.
  - apply vb_wfx_deposit; assumption.
  - apply vb_wfx_withdraw; assumption.
  - rewrite vb_ibc_mint by assumption. reflexivity.
  - apply vb_ibc_to_base; assumption.
  - apply vb_base_to_ibc; assumption.
  - rewrite vb_ibc_send by assumption. reflexivity.
  - rewrite vb_ibc_recv by assumption. reflexivity.
  - unfold gdT, geT, wT, ind. cbn [dept exet]. rewrite get1_set1, (Z.eqb_sym t i).
    destruct (Z.eqb_spec i t); [subst|]; split; lia.
  - unfold gdT, geT, wT, ind. cbn [dept exet]. rewrite get1_set1, (Z.eqb_sym t i).
    destruct (Z.eqb_spec i t); [subst|]; split; lia.
Qed.

End HOLD.

(* the statement in the property's words *)
Definition user_holdings (U : list Z) (t : Z) (s : state) : Z := Vb U t (sb s).
Definition in_flight (t : Z) (s : state) : Z := infl (wT t) (sr s).
Definition deposited (t : Z) (s : state) : Z := get1 t (dept (sg s)).
Definition executed_out (t : Z) (s : state) : Z := get1 t (exet (sg s)).

Theorem conservation U g t s0 ops : users U -> recs_wf U (sr s0) -> Forall (op_ok U) ops ->
  let s := steps g s0 ops in
  user_holdings U t s + in_flight t s =
  user_holdings U t s0 + in_flight t s0 + (deposited t s - deposited t s0) - (executed_out t s - executed_out t s0).
Proof.
  intros HU W Hops s.
  destruct (steps_keeps g U (Vb U t) (wT t) (gdT t) (geT t) 0 1 (blocks_hold g U t HU) ops Hops s0 W) as [E _]. fold s in E.
  unfold V, gdT, geT in E. unfold user_holdings, in_flight, deposited, executed_out. lia.
Qed.

(* user_holdings is the sum over the users of every denomination 10t..10t+9 and the ERC-20 balance *)
Lemma user_holdings_unfold U t s :
  user_holdings U t s =
  fold_right (fun a acc => (fold_right (fun r acc' => get2 (a, 10 * t + r) (bank (sb s)) + acc') 0 reps
                            + get2 (t, a) (ebal (sb s))) + acc) 0 U.
Proof.
  unfold user_holdings, Vb. rewrite lin_sum_L. induction U as [|a U IH]; [reflexivity|].
  cbn [fold_right]. rewrite <- IH. reflexivity.
Qed.

(* in_flight is the sum of amount+fee over the pool and the batches and of the token's amounts over the bridge calls *)
Lemma in_flight_unfold t s :
  in_flight t s =
  sumZ (map (fun p => ind (p_tok p =? t) * (p_amt p + p_fee p)) (pool (sr s)))
  + sumZ (map (fun p => ind (p_tok p =? t) * (p_amt p + p_fee p)) (flat_map b_txs (batches (sr s))))
  + sumZ (map (fun b => sumZ (map (fun q => ind (fst q =? t) * snd q) (c_toks b))) (calls (sr s))).
Proof. reflexivity. Qed.


(* ------------------------------------------------------------------------------------------------ *)
(** * Supply of a module-owned token's bridge denomination on one chain *)

Section SUP.
Variables (g : cfg) (U : list Z) (i c : Z) (tkI : token).
Hypothesis HU : users U.
Hypothesis Hc : chain_ok c = true.
Hypothesis Hi : find_tok g i = Some tkI.
Hypothesis Hk : t_kind tkI = KMod.

Definition wS (c' i' : Z) : Z := ind ((c' =? c) && (i' =? i)).
Definition gdS (gh : ghost) : Z := get2 (i, c) (depc gh).
Definition geS (gh : ghost) : Z := get2 (i, c) (exec gh).
Definition lS : lin := lin_cell (CS (10 * i + c)).

Lemma fromcfg_kindS tk : fromcfg g tk -> t_id tk = i -> t_kind tk = KMod.
Proof. unfold fromcfg. intros H E. rewrite E, Hi in H. injection H as <-. assumption. Qed.

Lemma c_range : 1 <= c <= 8.
Proof. unfold chain_ok in Hc. apply andb_true_iff in Hc as [H1 H2]. apply Z.leb_le in H1, H2. lia. Qed.

(* is denomination d the watched one? *)
Lemma ws_other d : dtok d <> i -> (10 * i + c =? d) = false.
Proof. intros H. apply Z.eqb_neq. intros E. apply H. rewrite <- E. apply dtok_intro. pose proof c_range. lia. Qed.
Lemma ws_base tk : (10 * i + c =? base_of tk) = false.
Proof. apply Z.eqb_neq. unfold base_of. pose proof c_range. lia. Qed.
Lemma ws_ibc tk : (10 * i + c =? ibc_of tk) = false.
Proof. apply Z.eqb_neq. unfold ibc_of. pose proof c_range. lia. Qed.
Lemma ws_alias tk c' : t_id tk = i -> t_kind tk = KMod -> (10 * i + c =? alias_of tk c') = (c' =? c).
Proof.
  intros E K. unfold alias_of. rewrite K, E. pose proof c_range. unfold chain_ok.
  destruct (Z.leb_spec 1 c'), (Z.leb_spec c' 8), (Z.eqb_spec c' c); cbn [andb]; try (apply Z.eqb_neq; lia); apply Z.eqb_eq; lia.
Qed.

Ltac coS := cbn [coef lS lin_cell cell_eqb].
Ltac fin_other tk Eid :=
  rewrite ?(ws_other (base_of tk)), ?(ws_other (ibc_of tk)) by (rewrite ?dtok_base, ?dtok_ibc; assumption);
  repeat match goal with |- context [10 * i + c =? alias_of tk ?c'] => rewrite (ws_other (alias_of tk c')) by (rewrite dtok_alias; assumption) end;
  repeat match goal with |- context [10 * i + c =? denom_rep tk ?r] => rewrite (ws_other (denom_rep tk r)) by (rewrite dtok_rep; assumption) end.

Ltac sup_blk tk Htk :=
  apply dB_pdelta; unfold wS, ind; blk_unfold;
  destruct (Z.eqb_spec (t_id tk) i) as [Eid|Eid];
  [ pose proof (fromcfg_kindS tk Htk Eid) as K; rewrite ?K; split_prog; pd_rw; coS; rewrite ?ws_base, ?ws_ibc;
    repeat match goal with |- context [10 * i + c =? alias_of tk ?c'] => rewrite (ws_alias tk c' Eid K) end;
    rewrite ?andb_true_r; split_eqb; try lia
  | rewrite ?andb_false_r; destruct (t_kind tk); split_prog; pd_rw; coS; fin_other tk Eid; try lia ].
Ltac sup_plain := apply dB_pdelta; blk_unfold; pd_rw; coS; try lia.

Lemma blocks_sup : blocks g U lS wS gdS geS 1 0.
Proof.
  constructor; [intros tk c' a x Htk Ha|intros tk c' a x Htk Ha|intros tk a b x Htk Ha Hb|intros tk a b x Htk Ha Hb|
                intros tk a src tg x Htk Ha|intros tk a b src tg x Htk Ha Hb|intros tk c' a x Htk Ha|reflexivity|
                intros tk c' x Htk|intros tk c' a x Htk Ha|intros a x Ha|intros tk a x Htk Ha|intros a b d x Ha Hb|
                intros i' a b x Ha Hb|intros a x Ha|intros a x Ha|intros tk a x Htk Ha|intros tk a x Htk Ha|intros tk a x Htk Ha|intros tk a x Htk Ha|intros tk a x Htk Ha| |].
  - sup_blk tk Htk.
  - sup_blk tk Htk.
  - sup_blk tk Htk.
  - sup_blk tk Htk.
  - sup_blk tk Htk.
  - sup_blk tk Htk.
  - sup_blk tk Htk.
  - sup_blk tk Htk.
  - sup_blk tk Htk.
  - sup_plain.
  - sup_blk tk Htk.
  - sup_plain.
  - sup_plain.
  - sup_plain.
  - sup_plain.
  - sup_blk tk Htk. all: pose proof c_range; rewrite ?(proj2 (Z.eqb_neq 9 c)) by lia; cbn [andb]; lia.
  - sup_blk tk Htk.
  - sup_blk tk Htk.
  - sup_blk tk Htk. all: pose proof c_range; rewrite ?(proj2 (Z.eqb_neq 9 c)) by lia; cbn [andb]; lia.
  - sup_blk tk Htk. all: pose proof c_range; rewrite ?(proj2 (Z.eqb_neq 9 c)) by lia; cbn [andb]; lia.
  - intros gh i' c' x. unfold gdS, geS, wS, ind. cbn [depc exec]. rewrite get2_set2. unfold key_eqb. cbn [fst snd].
    rewrite (Z.eqb_sym i i'), (Z.eqb_sym c c'). destruct (Z.eqb_spec i' i), (Z.eqb_spec c' c); cbn [andb]; subst; split; lia.
  - intros gh i' c' x. unfold gdS, geS, wS, ind. cbn [depc exec]. rewrite get2_set2. unfold key_eqb. cbn [fst snd].
    rewrite (Z.eqb_sym i i'), (Z.eqb_sym c c'). destruct (Z.eqb_spec i' i), (Z.eqb_spec c' c); cbn [andb]; subst; split; lia.
Qed.

End SUP.

(* ------------------------------------------------------------------------------------------------ *)
(** * Bank consistency: the balances of the module accounts and the users add up to the supply *)

Definition mods : list Z := [1; 2; 3; 4; 5; 6; 7; 8; 20; 21; 22; 23; 24; 25].

Section BANKSUM.
Variables (g : cfg) (U : list Z) (d : Z).
Hypothesis HU : users U.
Definition HH : list Z := mods ++ U.
Definition lT : lin := lin_add (lin_sum (fun a => lin_cell (CB a d)) HH) (lin_scale (-1) (lin_cell (CS d))).

Lemma NoDup_HH : NoDup HH.
Proof.
  destruct HU as [Hn Hm]. unfold HH, mods.
  repeat (apply NoDup_cons; [intros Hin; cbn [In app] in Hin;
     repeat (destruct Hin as [Hin|Hin]; [try discriminate Hin|]); try (specialize (Hm _ Hin); discriminate Hm)|]).
  assumption.
Qed.

Lemma coefT_CB a d' : coef lT (CB a d') = ind (memZ a HH) * ind (d' =? d).
Proof.
  unfold lT. cbn [coef lin_add lin_scale lin_cell cell_eqb]. rewrite lin_sum_coef, Z.mul_0_r, Z.add_0_r.
  rewrite <- (sum_ind_NoDup HH a NoDup_HH). induction HH as [|a0 l IH]; cbn [fold_right]; [reflexivity|].
  rewrite IH. cbn [coef lin_cell cell_eqb]. generalize (fold_right (fun a1 acc => ind (a1 =? a) + acc) 0 l). intros F.
  unfold ind. rewrite (Z.eqb_sym d d'). destruct (a0 =? a), (d' =? d); cbn [andb]; lia.
Qed.
Lemma coefT_CS d' : coef lT (CS d') = - ind (d' =? d).
Proof.
  unfold lT. cbn [coef lin_add lin_scale lin_cell cell_eqb]. rewrite lin_sum_coef.
  assert (E : fold_right (fun a acc => coef (lin_cell (CB a d)) (CS d') + acc) 0 HH = 0) by (induction HH as [|? ? IHH]; cbn [fold_right]; [reflexivity|rewrite IHH; reflexivity]).
  rewrite E. unfold ind. rewrite (Z.eqb_sym d d'). destruct (d' =? d); lia.
Qed.
Lemma coefT_CE i a : coef lT (CE i a) = 0.
Proof.
  unfold lT. cbn [coef lin_add lin_scale lin_cell cell_eqb]. rewrite lin_sum_coef.
  assert (E : fold_right (fun a0 acc => coef (lin_cell (CB a0 d)) (CE i a) + acc) 0 HH = 0) by (induction HH as [|? ? IHH]; cbn [fold_right]; [reflexivity|rewrite IHH; reflexivity]). lia.
Qed.
Lemma coefT_CT i : coef lT (CT i) = 0.
Proof.
  unfold lT. cbn [coef lin_add lin_scale lin_cell cell_eqb]. rewrite lin_sum_coef.
  assert (E : fold_right (fun a0 acc => coef (lin_cell (CB a0 d)) (CT i) + acc) 0 HH = 0) by (induction HH as [|? ? IHH]; cbn [fold_right]; [reflexivity|rewrite IHH; reflexivity]). lia.
Qed.

Lemma memH_user a : In a U -> memZ a HH = true.
Proof. intros H. apply existsb_exists. exists a. split; [apply in_or_app; right; assumption|apply Z.eqb_refl]. Qed.
Lemma memH_cacc c : memZ (cacc c) HH = true.
Proof.
  unfold cacc, chain_ok. destruct (Z.leb_spec 1 c), (Z.leb_spec c 8); cbn [andb]; try reflexivity.
  assert (c = 1 \/ c = 2 \/ c = 3 \/ c = 4 \/ c = 5 \/ c = 6 \/ c = 7 \/ c = 8) as Hc by lia.
  repeat (destruct Hc as [->|Hc]; [reflexivity|]). subst. reflexivity.
Qed.

Ltac memH :=
  repeat match goal with
  | H : In ?a U |- context [memZ ?a HH] => rewrite (memH_user a H)
  | |- context [memZ (cacc ?c) HH] => rewrite (memH_cacc c)
  | |- context [memZ A_ERC20 HH] => change (memZ A_ERC20 HH) with true
  | |- context [memZ A_IBC HH] => change (memZ A_IBC HH) with true
  | |- context [memZ A_WFX HH] => change (memZ A_WFX HH) with true
  | |- context [memZ A_EVM HH] => change (memZ A_EVM HH) with true
  | |- context [memZ A_PRE HH] => change (memZ A_PRE HH) with true
  | |- context [memZ A_ESC HH] => change (memZ A_ESC HH) with true
  end.

Ltac bs_blk := apply dB_pdelta; blk_unfold; try match goal with K : t_kind _ = _ |- _ => rewrite ?K end;
               split_prog; pd_rw; rewrite ?coefT_CB, ?coefT_CS, ?coefT_CE, ?coefT_CT; memH; cbn [ind]; try lia.

Lemma blocks_banksum : blocks g U lT (fun _ _ => 0) (fun _ => 0) (fun _ => 0) 0 1.
Proof.
  constructor; [intros tk c' a x Htk Ha|intros tk c' a x Htk Ha|intros tk a b x Htk Ha Hb|intros tk a b x Htk Ha Hb|
                intros tk a src tg x Htk Ha|intros tk a b src tg x Htk Ha Hb|intros tk c' a x Htk Ha|reflexivity|
                intros tk c' x Htk|intros tk c' a x Htk Ha|intros a x Ha|intros tk a x Htk Ha|intros a b d' x Ha Hb|
                intros i' a b x Ha Hb|intros a x Ha|intros a x Ha|intros tk a x Htk Ha|intros tk a x Htk Ha|intros tk a x Htk Ha|intros tk a x Htk Ha|intros tk a x Htk Ha| |].
  all: try (destruct (t_kind tk) eqn:K).
  all: try solve [bs_blk].
  all: try (intros; split; lia).
Qed.

End BANKSUM.

(* ------------------------------------------------------------------------------------------------ *)
(** * Frame: an account that is neither named by the operations, nor a module account, nor a stored refund address
      keeps every balance *)

Section FRAME.
Variables (g : cfg) (U : list Z) (a0 : Z).
Hypothesis HU : users U.
Hypothesis Hnot : ~ In a0 U.
Hypothesis Hnm : is_module a0 = false.

Lemma a0_user a : In a U -> (a0 =? a) = false.
Proof. intros H. apply Z.eqb_neq. intros ->. contradiction. Qed.
Lemma a0_mod m : is_module m = true -> (a0 =? m) = false.
Proof. intros H. apply Z.eqb_neq. intros ->. congruence. Qed.

Ltac a0_rw :=
  repeat match goal with
  | H : In ?a U |- context [a0 =? ?a] => rewrite (a0_user a H)
  | |- context [a0 =? cacc ?c] => rewrite (a0_mod (cacc c) (cacc_module c))
  | |- context [a0 =? A_ERC20] => rewrite (a0_mod A_ERC20 eq_refl)
  | |- context [a0 =? A_IBC] => rewrite (a0_mod A_IBC eq_refl)
  | |- context [a0 =? A_WFX] => rewrite (a0_mod A_WFX eq_refl)
  | |- context [a0 =? A_EVM] => rewrite (a0_mod A_EVM eq_refl)
  | |- context [a0 =? A_PRE] => rewrite (a0_mod A_PRE eq_refl)
  | |- context [a0 =? A_ESC] => rewrite (a0_mod A_ESC eq_refl)
  end.

Ltac fr_blk := apply dB_pdelta; blk_unfold; try match goal with K : t_kind _ = _ |- _ => rewrite ?K end;
               split_prog; pd_rw; cbn [coef lin_cell cell_eqb]; a0_rw; rewrite ?andb_false_r; cbn [andb]; try lia.

Lemma blocks_frame (c0 : cell) : (exists d, c0 = CB a0 d) \/ (exists i, c0 = CE i a0) ->
  blocks g U (lin_cell c0) (fun _ _ => 0) (fun _ => 0) (fun _ => 0) 0 1.
Proof.
  intros Hc0.
  constructor; [intros tk c' a x Htk Ha|intros tk c' a x Htk Ha|intros tk a b x Htk Ha Hb|intros tk a b x Htk Ha Hb|
                intros tk a src tg x Htk Ha|intros tk a b src tg x Htk Ha Hb|intros tk c' a x Htk Ha|reflexivity|
                intros tk c' x Htk|intros tk c' a x Htk Ha|intros a x Ha|intros tk a x Htk Ha|intros a b d' x Ha Hb|
                intros i' a b x Ha Hb|intros a x Ha|intros a x Ha|intros tk a x Htk Ha|intros tk a x Htk Ha|intros tk a x Htk Ha|intros tk a x Htk Ha|intros tk a x Htk Ha| |].
  all: try (destruct (t_kind tk) eqn:K).
  all: try solve [destruct Hc0 as [[d0 ->]|[i0 ->]]; fr_blk].
  all: try (intros; split; lia).
Qed.

End FRAME.

Theorem frame U g a0 s0 ops : ~ In a0 U -> is_module a0 = false -> recs_wf U (sr s0) -> Forall (op_ok U) ops ->
  let s := steps g s0 ops in
  (forall d, get2 (a0, d) (bank (sb s)) = get2 (a0, d) (bank (sb s0))) /\
  (forall i, get2 (i, a0) (ebal (sb s)) = get2 (i, a0) (ebal (sb s0))).
Proof.
  intros Hn Hm W Hops s. split.
  - intros d.
    destruct (steps_keeps g U (lin_cell (CB a0 d)) _ _ _ 0 1 (blocks_frame g U a0 Hn Hm _ (or_introl (ex_intro _ d eq_refl))) ops Hops s0 W) as [E _].
    fold s in E. unfold V in E. rewrite !infl_w0 in E. cbn [L lin_cell cget] in E. lia.
  - intros i.
    destruct (steps_keeps g U (lin_cell (CE i a0)) _ _ _ 0 1 (blocks_frame g U a0 Hn Hm _ (or_intror (ex_intro _ i eq_refl))) ops Hops s0 W) as [E _].
    fold s in E. unfold V in E. rewrite !infl_w0 in E. cbn [L lin_cell cget] in E. lia.
Qed.

(* ------------------------------------------------------------------------------------------------ *)
(** * Per-chain statements: supply of the bridge denomination, escrow identity *)

Definition supply_of (d : Z) (s : state) : Z := get1 d (supply (sb s)).
Definition in_flight_on (c i : Z) (s : state) : Z := infl (wS i c) (sr s).
Definition dep_via (c i : Z) (s : state) : Z := get2 (i, c) (depc (sg s)).
Definition exe_via (c i : Z) (s : state) : Z := get2 (i, c) (exec (sg s)).
(* what is currently bridged in through chain c: deposited - executed - in flight *)
Definition net_in (c i : Z) (s : state) : Z := dep_via c i s - exe_via c i s - in_flight_on c i s.
(* everything the module accounts and the users hold of denomination d *)
Definition held_total (U : list Z) (d : Z) (s : state) : Z :=
  fold_right (fun a acc => get2 (a, d) (bank (sb s)) + acc) 0 (mods ++ U).

Theorem alias_supply U g i c tkI s0 ops :
  users U -> chain_ok c = true -> find_tok g i = Some tkI -> t_kind tkI = KMod ->
  recs_wf U (sr s0) -> Forall (op_ok U) ops ->
  let s := steps g s0 ops in
  supply_of (10 * i + c) s - net_in c i s = supply_of (10 * i + c) s0 - net_in c i s0.
Proof.
  intros HU Hc Hi Hk W Hops s.
  destruct (steps_keeps g U (lS i c) (wS i c) (gdS i c) (geS i c) 1 0 (blocks_sup g U i c tkI Hc Hi Hk) ops Hops s0 W) as [E _].
  fold s in E. unfold V, lS, gdS, geS in E. cbn [L lin_cell cget] in E.
  unfold supply_of, net_in, dep_via, exe_via, in_flight_on. lia.
Qed.

Theorem bank_consistent U g d s0 ops : users U -> recs_wf U (sr s0) -> Forall (op_ok U) ops ->
  let s := steps g s0 ops in
  held_total U d s - supply_of d s = held_total U d s0 - supply_of d s0.
Proof.
  intros HU W Hops s.
  destruct (steps_keeps g U (lT U d) _ _ _ 0 1 (blocks_banksum g U d HU) ops Hops s0 W) as [E _].
  fold s in E. unfold V in E. rewrite !infl_w0 in E.
  assert (HL : forall st, lT U d (sb st) = held_total U d st - supply_of d st).
  { intros st. unfold lT, held_total, supply_of, HH. cbn [L lin_add lin_scale lin_cell cget]. rewrite lin_sum_L.
    cbn [L lin_cell cget]. set (X := fold_right _ _ _). lia. }
  rewrite !HL in E. lia.
Qed.

(* the escrow identity: what the chain module, the other module accounts and the users hold of the bridge denomination
   equals what is bridged in through that chain — for every history *)
Theorem escrow_identity U g i c tkI s0 ops :
  users U -> chain_ok c = true -> find_tok g i = Some tkI -> t_kind tkI = KMod ->
  recs_wf U (sr s0) -> Forall (op_ok U) ops ->
  let s := steps g s0 ops in
  held_total U (10 * i + c) s - net_in c i s = held_total U (10 * i + c) s0 - net_in c i s0.
Proof.
  intros HU Hc Hi Hk W Hops s.
  pose proof (alias_supply U g i c tkI s0 ops HU Hc Hi Hk W Hops) as E1.
  pose proof (bank_consistent U g (10 * i + c) s0 ops HU W Hops) as E2. cbn zeta in E1, E2. fold s in E1, E2. lia.
Qed.

(* ------------------------------------------------------------------------------------------------ *)
(** * "Withdrawable": when is a send towards chain c accepted? *)

Lemma on_chain_range tk c : on_chain tk c = true -> 1 <= c <= 8 /\ chain_ok c = true.
Proof.
  unfold on_chain. intros H. apply andb_true_iff in H as [H _]. split; [|assumption].
  unfold chain_ok in H. apply andb_true_iff in H as [H1 H2]. apply Z.leb_le in H1, H2. lia.
Qed.

Ltac run_step :=
  cbn [runB run_act app];
  match goal with
  | |- context [?x <=? cget ?c ?b] =>
      let v := fresh "v" in
      destruct (Z.leb_spec x (cget c b)) as [?|Hbad]; [|exfalso; revert Hbad; rewrite ?cget_cset; cbn [cell_eqb cget]]
  end.

Theorem b2b_succeeds tk c a x b :
  on_chain tk c = true -> a <> cacc c -> 0 <= x ->
  x <= cget (CB a (base_of tk)) b ->
  0 <= cget (CB (cacc c) (base_of tk)) b -> 0 <= cget (CB a (alias_of tk c)) b -> 0 <= cget (CB (cacc c) (alias_of tk c)) b ->
  (t_kind tk = KMod -> x <= cget (CB (cacc c) (alias_of tk c)) b) ->
  exists b', runB (base_to_bridge_token tk c a x) b = Some b'.
Proof.
  intros Hon Hne Hx Hbal N1 N2 N3 Hmod.
  destruct (on_chain_range _ _ Hon) as [Hr Hok].
  unfold base_to_bridge_token, conversion_coin, withdraw_bridge_token. rewrite Hon.
  assert (Hal : t_kind tk <> KFX -> alias_of tk c <> base_of tk).
  { unfold alias_of, base_of. rewrite Hok. destruct (t_kind tk); [congruence|lia|lia]. }
  destruct (t_kind tk) eqn:K.
  - assert (E : alias_of tk c = base_of tk) by (unfold alias_of, base_of; rewrite K; reflexivity).
    rewrite E in *. unfold send. cbn [runB run_act app].
    destruct (Z.leb_spec x (cget (CB a (base_of tk)) b)); [eauto|lia].
  - specialize (Hmod eq_refl). specialize (Hal ltac:(congruence)).
    unfold send, burn, mint. cbn [app].
    repeat (cbn [runB run_act];
      match goal with
      | |- context [?y <=? cget ?cc ?bb] => destruct (Z.leb_spec y (cget cc bb)) as [_|Hbad];
          [|exfalso; revert Hbad; rewrite ?cget_cset; cbn [cell_eqb];
            repeat match goal with |- context [?p =? ?q] => destruct (Z.eqb_spec p q) end; cbn [andb]; cbn [cget] in *; lia]
      end).
    cbn [runB]. eauto.
  - specialize (Hal ltac:(congruence)).
    unfold send, burn, mint. cbn [app].
    repeat (cbn [runB run_act];
      match goal with
      | |- context [?y <=? cget ?cc ?bb] => destruct (Z.leb_spec y (cget cc bb)) as [_|Hbad];
          [|exfalso; revert Hbad; rewrite ?cget_cset; cbn [cell_eqb];
            repeat match goal with |- context [?p =? ?q] => destruct (Z.eqb_spec p q) end; cbn [andb]; cbn [cget] in *; lia]
      end).
    cbn [runB]. eauto.
Qed.

(* a MsgSendToExternal by a holder whose balance suffices is accepted as soon as, for a module-owned token, the chain
   module holds the amount in the bridge denomination; FX and externally-owned tokens need no module-side funds *)
Theorem withdrawable_guarded g s c i tk a amt fee :
  find_tok g i = Some tk -> on_chain tk c = true -> a <> cacc c -> 0 < amt -> 0 < fee ->
  amt + fee <= cget (CB a (base_of tk)) (sb s) ->
  0 <= cget (CB (cacc c) (base_of tk)) (sb s) -> 0 <= cget (CB a (alias_of tk c)) (sb s) ->
  0 <= cget (CB (cacc c) (alias_of tk c)) (sb s) ->
  (t_kind tk = KMod -> amt + fee <= cget (CB (cacc c) (alias_of tk c)) (sb s)) ->
  snd (step g s (OSendToExternal c i a amt fee)) = true.
Proof.
  intros Hi Hon Hne Ha Hf Hbal N1 N2 N3 Hmod.
  destruct (b2b_succeeds tk c a (amt + fee) (sb s) Hon Hne ltac:(lia) Hbal N1 N2 N3 Hmod) as [b' Hb].
  unfold step, run, with_tok. rewrite Hi. unfold add_to_outgoing_pool, bind, doB, guard.
  rewrite (proj2 (Z.ltb_lt 0 amt) Ha), (proj2 (Z.ltb_lt 0 fee) Hf). cbn [andb]. rewrite Hb. reflexivity.
Qed.

(* ------------------------------------------------------------------------------------------------ *)
(** * Witnesses (replayed on the real application by harness/c04) *)

Definition ex_cfg : cfg :=
  [ {| t_id := 0; t_kind := KFX; t_chains := [1]; t_ibc := false |};
    {| t_id := 1; t_kind := KMod; t_chains := [1; 2]; t_ibc := false |};
    {| t_id := 2; t_kind := KExt; t_chains := [1]; t_ibc := false |} ].
(* user 100 holds 5000 FX and 1000 of the externally-owned coin (backed by 1000 ERC-20 escrowed by the erc20 module);
   the eth module holds FX *)
Definition ex_s0 : state :=
  {| sb := {| bank := [((100, 0), 5000); ((1, 0), 1000000); ((100, 20), 1000)]; supply := [(0, 1005000); (20, 1000)];
              ebal := [((2, 20), 1000)]; etot := [(2, 1000)]; disabled := [] |};
     sr := {| pool := []; batches := []; calls := []; txid := []; batchid := []; callid := []; height := [(1, 1000)];
              rel := []; frommsg := [] |};
     sg := {| dept := []; exet := []; depc := []; exec := [] |} |}.
Definition ex_U : list Z := [100; 101].

(* deposit 1000 of the module-owned token through chain 1, send 400 out in a bridge call, the call fails on the
   external chain: the refund (older rule) re-mints the bridge denomination and parks it in the erc20 module *)
Definition ex_parked : list op :=
  [ OSendToFx 1 1 100 1000 0; OBridgeCallMsg 1 100 100 [(1, 400)] 9000; OBridgeCallResult 1 1 false ].

Ltac ok_tac :=
  repeat (apply Forall_cons; [cbn [op_ok]; unfold toks_ok; repeat split; try (cbn; tauto);
                              intros p Hp; cbn in Hp; intuition (subst; cbn; lia)|]); apply Forall_nil.

Lemma ex_wf : users ex_U /\ recs_wf ex_U (sr ex_s0) /\ Forall (op_ok ex_U) ex_parked.
Proof.
  split; [|split].
  - split; [repeat constructor; cbn; intuition discriminate|]. intros a [<-|[<-|[]]]; reflexivity.
  - split; intros b [].
  - unfold ex_parked, ex_U. ok_tac.
Qed.

(* the full "withdrawable" reading is false of the faithful model: the holder's balance suffices, what is bridged in
   through chain 1 suffices, and still the send is refused *)
Theorem withdrawable_refuted :
  exists g s0 ops c i a amt fee,
    let s := steps g s0 ops in
    amt + fee <= get2 (a, 10 * i) (bank (sb s)) /\ amt + fee <= net_in c i s /\
    snd (step g s (OSendToExternal c i a amt fee)) = false.
Proof. exists ex_cfg, ex_s0, ex_parked, 1, 1, 100, 900, 1. vm_compute. repeat split; discriminate. Qed.

(* and the refund of a failed outgoing bridge call carrying an externally-owned token can never be executed *)
Theorem refund_refused_witness :
  exists g s0 ops c n,
    let s := steps g s0 ops in
    find_call c n (calls (sr s)) <> None /\ snd (step g s (OBridgeCallResult c n false)) = false.
Proof.
  exists ex_cfg, ex_s0, [OBridgeCallMsg 1 100 100 [(2, 300)] 9000], 1, 1. vm_compute. split; [discriminate|reflexivity].
Qed.

(* non-vacuity: a history in which value moves in every direction and every hypothesis of the theorems holds *)
Definition ex_hist : list op :=
  [ OSendToFx 1 1 100 1000 0; OSendToFx 2 1 101 500 1; OSendToExternal 1 1 100 100 7; OSendToExternal 1 0 100 50 5;
    OConvertCoin 1 100 101 200; ORequestBatch 1 1 2000; OBatchExecuted 1 1001 1 1; OPreCrossChain 2 1 101 300 3 false;
    OCancel 2 101 1; OBridgeCallMsg 1 100 101 [(0, 20); (1, 30)] 9000; OBridgeCallResult 1 1 true ].
Example conservation_nonvacuous :
  Forall (op_ok ex_U) ex_hist /\
  map (fun o => snd (step ex_cfg (steps ex_cfg ex_s0 (firstn 0 ex_hist)) o)) (firstn 1 ex_hist) = [true] /\
  let s := steps ex_cfg ex_s0 ex_hist in
  (user_holdings ex_U 1 s, in_flight 1 s, deposited 1 s, executed_out 1 s) = (1363, 0, 1500, 137) /\
  (user_holdings ex_U 0 s, in_flight 0 s, deposited 0 s, executed_out 0 s) = (4925, 55, 0, 20) /\
  net_in 1 1 s = 863 /\ supply_of 11 s = 863 /\ held_total ex_U 11 s = 863.
Proof. split; [unfold ex_hist, ex_U; ok_tac|]. vm_compute. repeat split. Qed.

(* transaction semantics of the model: a refused operation changes nothing *)
Lemma refused_unchanged g s o : snd (step g s o) = false -> fst (step g s o) = s.
Proof. unfold step. destruct (run g o s); [discriminate|reflexivity]. Qed.

(* ------------------------------------------------------------------------------------------------ *)
(** * IBC *)

(* FX cannot leave over IBC through BaseCoinToIBCCoin (finding C04-4): the holder's WFX suffices and is refused; an observed
   FX deposit with an IBC target cannot be executed although the chain module holds the coins *)
Theorem ibc_fx_refuted :
  let s := steps ex_cfg ex_s0 [OConvertCoin 0 100 100 1000] in
  1000 <= get2 (0, 100) (ebal (sb s)) /\ snd (step ex_cfg s (OPreCrossChainIbc 0 100 100 false)) = false /\
  300 <= get2 (1, 0) (bank (sb s)) /\ snd (step ex_cfg s (OSendToFx 1 0 100 300 2)) = false /\
  (* the msg.value path, which skips the conversion, works *)
  snd (step ex_cfg s (OPreCrossChainIbc 0 100 100 true)) = true.
Proof. vm_compute. repeat split; discriminate. Qed.

(* an inbound packet carrying anything but the native coin is refused (error acknowledgement), in every state *)
Theorem ibc_voucher_unreceivable g s t tk a x :
  find_tok g t = Some tk -> is_fx tk = false -> snd (step g s (OIbcRecv t a x)) = false.
Proof. intros Hf Hx. unfold step, run, with_tok. rewrite Hf. unfold ibc_recv. rewrite Hx. reflexivity. Qed.
